(* C18 (round 6) — vector and matrix distribution registries: import (export d) = d for every nesting of
   "vector:scalar id" / "vector:vector id" / "vector:vector iid" / "vector:mixture" / "matrix:vector id" /
   "matrix:vector iid" / "matrix:mixture" over "vector:scalar iid" and the scalar trees of ProofsConfig.v;
   what the importers establish about the objects they build (the constructors' guards of the id / iid
   distributions), and what they do not (mixtures: refuted; panics on malformed documents: refuted). *)
From Coq Require Import ZArith List Bool Lia.
From ADV Require Import C18.Model C18.ProofsBase C18.ConfigModel C18.ProofsConfig C18.ProofsConfig2 C18.ConfigModelV.
Import ListNotations.
Open Scope Z_scope.

Section MapRsFacts.
Context {A B : Type}.
Variable f : A -> res B.
Lemma mapRs_map_ok {C} (g : C -> A) (l : list C) (h : C -> B) :
  Forall (fun x => f (g x) = Ok (h x)) l -> mapRs f (map g l) = Ok (map h l).
Proof. induction 1 as [|x l Hx _ IH]; simpl; [reflexivity|]. rewrite Hx. simpl. rewrite IH. reflexivity. Qed.
Lemma mapRs_ok_Forall2 : forall l ys, mapRs f l = Ok ys -> Forall2 (fun x y => f x = Ok y) l ys.
Proof.
  induction l as [|x l IH]; simpl; intros ys H.
  - inversion H; constructor.
  - apply bind_ok in H as (y & Hy & H). apply bind_ok in H as (ys' & Hys & H). inversion H; subst.
    constructor; [assumption|apply IH; assumption].
Qed.
End MapRsFacts.

Section ConfigVProofs.
Variable F : Type.
Variables zero one : F.
Variable fle flt feq : F -> F -> bool.
Variables flog fexp ftrunc : F -> F.
Variable norm : list F -> list F.
Variable f2z : F -> Z.
Variable z2f : Z -> F.

Notation imp := (import_cfg F zero one fle flt feq flog ftrunc norm).
Notation expo := (export F fexp).
Notation rts := (rt_scalar F zero one fle flt feq flog ftrunc norm).
Notation rtd := (rt_dist F zero one fle flt feq flog ftrunc norm).
Notation impS := (import_scalar F zero one fle flt feq flog ftrunc norm).
Notation impV := (import_vec F zero one fle flt feq flog ftrunc norm f2z).
Notation impM := (import_mat F zero one fle flt feq flog ftrunc norm f2z).
Notation expV := (export_vec F fexp z2f).
Notation expM := (export_mat F fexp z2f).
Notation dimV := (vdim F zero f2z).
Notation guard := (iid_guard F zero f2z).
Notation sumd := (sum_dims F zero f2z).

Hypothesis feq_one : feq one one = true.
Hypothesis feq_zero_one : feq zero one = false.
Hypothesis flog_fexp : forall x, flog (fexp x) = x.
Hypothesis fexp_nonneg : forall x, flt (fexp x) zero = false.

Definition first_stype_ok (ds : list (vdist F)) : Prop :=
  match ds with [] => True | d0 :: _ => v_stype_ok F d0 = true end.

(* the trees of the theorem: exactly what the constructors NewScalarIid / NewScalarId / NewVectorId / NewVectorIid /
   NewMixture can build (their guards), over round-tripping scalar trees; n exactly representable in binary64 *)
Inductive rtv : vdist F -> Prop :=
| RvIid c d : ftrunc c = c -> rts d -> rtv (VOld (Dist FIid [c] [d]))
| RvSId ds : Forall rts ds -> rtv (VSId ds)
| RvVId ds : Forall rtv ds -> first_stype_ok ds -> rtv (VVId (sumd ds) ds)
| RvVIid n d : rtv d -> guard d n = Ok tt -> f2z (z2f n) = n -> rtv (VVIid n d)
| RvMix lw ds : norm lw = lw -> Forall rtv ds -> rtv (VMix lw ds).

Inductive rtm : mdist F -> Prop :=
| RmVId ds : Forall rtv ds -> first_stype_ok ds -> rtm (MVId ds)
| RmVIid n d : rtv d -> guard d n = Ok tt -> f2z (z2f n) = n -> rtm (MVIid n d)
| RmMix lw ds : norm lw = lw -> Forall rtm ds -> rtm (MMix lw ds).

Lemma vdist_ind' (P : vdist F -> Prop) :
  (forall d, P (VOld d)) -> (forall ds, P (VSId ds)) ->
  (forall n ds, Forall P ds -> P (VVId n ds)) -> (forall n d, P d -> P (VVIid n d)) ->
  (forall lw ds, Forall P ds -> P (VMix lw ds)) -> forall d, P d.
Proof.
  intros H1 H2 H3 H4 H5. fix IH 1. intros [d|ds|n ds|n d|lw ds].
  - apply H1.
  - apply H2.
  - apply H3. revert ds. fix IHl 1. intros [|d ds]; constructor; [apply IH|apply IHl].
  - apply H4, IH.
  - apply H5. revert ds. fix IHl 1. intros [|d ds]; constructor; [apply IH|apply IHl].
Qed.

Lemma mdist_ind' (P : mdist F -> Prop) :
  (forall ds, P (MVId ds)) -> (forall n d, P (MVIid n d)) ->
  (forall lw ds, Forall P ds -> P (MMix lw ds)) -> forall d, P d.
Proof.
  intros H1 H2 H3. fix IH 1. intros [ds|n d|lw ds].
  - apply H1.
  - apply H2.
  - apply H3. revert ds. fix IHl 1. intros [|d ds]; constructor; [apply IH|apply IHl].
Qed.

Lemma weights_pass lw : existsb (fun x => flt x zero) (map fexp lw) = false.
Proof. induction lw as [|x l IH]; simpl; [reflexivity|]. rewrite fexp_nonneg. exact IH. Qed.
Lemma weights_back lw : map flog (map fexp lw) = lw.
Proof. rewrite map_map. rewrite <- (map_id lw) at 2. apply map_ext. intros x. apply flog_fexp. Qed.

Lemma scalar_child_roundtrip d : rts d -> impS (export_s F fexp d) = Ok d.
Proof.
  intros H.
  destruct (scalar_roundtrip_all F zero one fle flt feq flog fexp ftrunc norm feq_one feq_zero_one flog_fexp fexp_nonneg d H)
    as [Hs Hd].
  unfold export_s, import_scalar. pose proof (export_root F fexp d) as Hr.
  destruct (expo d) as [f p ds] eqn:E. simpl in Hr. subst f. rewrite Hs. exact Hd.
Qed.

Lemma new_vid_ok ds : first_stype_ok ds -> new_vid F zero f2z ds = Ok (VVId (sumd ds) ds).
Proof. destruct ds as [|d0 r]; simpl; intros H; [reflexivity|]. rewrite H. reflexivity. Qed.
Lemma new_mid_ok ds : first_stype_ok ds -> new_mid F ds = Ok (MVId ds).
Proof. destruct ds as [|d0 r]; simpl; intros H; [reflexivity|]. rewrite H. reflexivity. Qed.

Lemma vec_roundtrip : forall d, rtv d -> impV (expV d) = Ok d.
Proof.
  induction d as [d|ds|n ds IH|n d IH|lw ds IH] using vdist_ind'; intros Hrt;
    inversion Hrt as [c d0 Hc Hd0|ds0 Hall|ds0 Hall Hst|n0 d0 Hd0 Hg Hn|lw0 ds0 Hnorm Hall]; subst.
  - (* vector:scalar iid *)
    assert (Hd : imp (expo (Dist FIid [c] [d0])) = Ok (Dist FIid [c] [d0])).
    { apply (config_tree_roundtrip F zero one fle flt feq flog fexp ftrunc norm feq_one feq_zero_one flog_fexp fexp_nonneg).
      apply RtIid; assumption. }
    change (expV (VOld (Dist FIid [c] [d0]))) with (COld (expo (Dist FIid [c] [d0]))).
    change (expo (Dist FIid [c] [d0])) with (Cfg FIid (JArr [JNum c]) [expo d0]) in *.
    cbn [import_vec]. rewrite Hd. reflexivity.
  - (* vector:scalar id *)
    cbn [export_vec import_vec].
    rewrite (mapRs_map_ok impS (export_s F fexp) ds (fun x => x)).
    + rewrite map_id. reflexivity.
    + eapply Forall_impl; [|eassumption]. intros d Hd. apply scalar_child_roundtrip; assumption.
  - (* vector:vector id *)
    cbn [export_vec import_vec].
    rewrite (mapRs_map_ok impV expV ds (fun x => x)).
    + rewrite map_id. cbn [bind]. apply new_vid_ok; assumption.
    + clear Hrt Hst. induction IH as [|d ds Hd _ IHds]; [constructor|].
      inversion Hall; subst. constructor; [apply Hd; assumption|apply IHds; assumption].
  - (* vector:vector iid *)
    cbn [export_vec import_vec get_floats mapR get_float bind length Nat.eqb negb nth].
    rewrite (IH Hd0). cbn [bind]. unfold new_viid. rewrite Hn, Hg. reflexivity.
  - (* vector:mixture *)
    cbn [export_vec import_vec]. rewrite get_floats_nums. cbn [bind]. rewrite weights_pass.
    rewrite (mapRs_map_ok impV expV ds (fun x => x)).
    + rewrite map_id. cbn [bind]. rewrite weights_back, Hnorm. reflexivity.
    + clear Hrt. induction IH as [|d ds Hd _ IHds]; [constructor|].
      inversion Hall; subst. constructor; [apply Hd; assumption|apply IHds; assumption].
Qed.

Lemma vec_children_roundtrip ds : Forall rtv ds -> mapRs impV (map expV ds) = Ok ds.
Proof.
  intros H. rewrite (mapRs_map_ok impV expV ds (fun x => x)); [rewrite map_id; reflexivity|].
  eapply Forall_impl; [|exact H]. intros d Hd. apply vec_roundtrip; assumption.
Qed.

Lemma mat_roundtrip : forall d, rtm d -> impM (expM d) = Ok d.
Proof.
  induction d as [ds|n d|lw ds IH] using mdist_ind'; intros Hrt;
    inversion Hrt as [ds0 Hall Hst|n0 d0 Hd0 Hg Hn|lw0 ds0 Hnorm Hall]; subst.
  - cbn [export_mat import_mat]. rewrite vec_children_roundtrip by assumption. cbn [bind]. apply new_mid_ok; assumption.
  - cbn [export_mat import_mat get_floats mapR get_float bind length Nat.eqb negb nth].
    rewrite (vec_roundtrip d Hd0). cbn [bind]. unfold new_miid. rewrite Hn, Hg. reflexivity.
  - cbn [export_mat import_mat]. rewrite get_floats_nums. cbn [bind]. rewrite weights_pass.
    rewrite (mapRs_map_ok impM expM ds (fun x => x)).
    + rewrite map_id. cbn [bind]. rewrite weights_back, Hnorm. reflexivity.
    + clear Hrt. induction IH as [|d ds Hd _ IHds]; [constructor|].
      inversion Hall; subst. constructor; [apply Hd; assumption|apply IHds; assumption].
Qed.

(* ------------------------------------------------------------------ what the importers establish (reader safety) *)
(* the guards of NewVectorId / NewVectorIid hold at every id / iid node of whatever ImportVectorPdfConfig /
   ImportMatrixPdfConfig builds, from ANY document *)
Fixpoint guards_v (d : vdist F) : Prop :=
  match d with
  | VOld _ | VSId _ => True
  | VVId n ds => n = sumd ds /\ first_stype_ok ds /\ (fix all (l : list (vdist F)) : Prop := match l with [] => True | x :: r => guards_v x /\ all r end) ds
  | VVIid n d0 => guard d0 n = Ok tt /\ guards_v d0
  | VMix _ ds => (fix all (l : list (vdist F)) : Prop := match l with [] => True | x :: r => guards_v x /\ all r end) ds
  end.
Definition all_guards_v (l : list (vdist F)) : Prop :=
  (fix all (l : list (vdist F)) : Prop := match l with [] => True | x :: r => guards_v x /\ all r end) l.
Fixpoint guards_m (d : mdist F) : Prop :=
  match d with
  | MVId ds => first_stype_ok ds /\ all_guards_v ds
  | MVIid n d0 => guard d0 n = Ok tt /\ guards_v d0
  | MMix _ ds => (fix all (l : list (mdist F)) : Prop := match l with [] => True | x :: r => guards_m x /\ all r end) ds
  end.

Lemma cfg2_ind' (P : cfg2 F -> Prop) :
  (forall c, P (COld c)) -> (forall n p ds, Forall P ds -> P (CNew n p ds)) -> forall c, P c.
Proof.
  intros H1 H2. fix IH 1. intros [c|n p ds]; [apply H1|]. apply H2.
  revert ds. fix IHl 1. intros [|d ds]; constructor; [apply IH|apply IHl].
Qed.

Lemma new_vid_inv ds d : new_vid F zero f2z ds = Ok d -> d = VVId (sumd ds) ds /\ first_stype_ok ds.
Proof.
  destruct ds as [|d0 r]; simpl; intros H.
  - inversion H. split; [reflexivity|exact I].
  - destruct (v_stype_ok F d0) eqn:E; [|discriminate]. inversion H; subst. split; reflexivity.
Qed.
Lemma new_mid_inv ds d : new_mid F ds = Ok d -> d = MVId ds /\ first_stype_ok ds.
Proof.
  destruct ds as [|d0 r]; simpl; intros H.
  - inversion H. split; [reflexivity|exact I].
  - destruct (v_stype_ok F d0) eqn:E; [|discriminate]. inversion H; subst. split; reflexivity.
Qed.
Lemma guard_inv d n : forall (B : Type) (k : res B) b, (_ <- guard d n ;; k) = Ok b -> guard d n = Ok tt /\ k = Ok b.
Proof. intros B k b H. destruct (guard d n) as [[]| | |]; try discriminate. split; [reflexivity|exact H]. Qed.

Lemma children_guards cs : Forall (fun c => forall d, impV c = Ok d -> guards_v d) cs ->
  forall ds, mapRs impV cs = Ok ds -> all_guards_v ds.
Proof.
  induction 1 as [|c cs Hc _ IH]; intros ds H; simpl in H.
  - inversion H. exact I.
  - apply bind_ok in H as (y & Hy & H). apply bind_ok in H as (ys & Hys & H). inversion H; subst.
    split; [apply Hc; assumption|apply IH; assumption].
Qed.

Lemma import_vec_guards : forall c d, impV c = Ok d -> guards_v d.
Proof.
  induction c as [[f p ds]|n p ds IH] using cfg2_ind'; intros d H.
  - destruct f; try discriminate H. cbn [import_vec] in H. apply bind_ok in H as (d0 & _ & H). inversion H. exact I.
  - destruct n; try discriminate H; cbn [import_vec] in H.
    + apply bind_ok in H as (ds' & _ & H). inversion H. exact I.
    + apply bind_ok in H as (ds' & Hds & H). apply new_vid_inv in H as [-> Hst].
      split; [reflexivity|]. split; [assumption|]. eapply children_guards; eassumption.
    + apply bind_ok in H as (ps & _ & H). destruct (negb _); [discriminate|].
      destruct ds as [|c' [|c'' r]]; try discriminate H.
      apply bind_ok in H as (d0 & Hd0 & H). unfold new_viid in H. apply guard_inv in H as [Hg H]. inversion H; subst.
      inversion IH as [|? ? IHc _]; subst. split; [assumption|apply IHc; assumption].
    + apply bind_ok in H as (ws & _ & H). destruct (existsb _ ws); [discriminate|].
      apply bind_ok in H as (ds' & Hds & H). inversion H; subst. eapply children_guards; eassumption.
Qed.

Lemma import_mat_guards : forall c d, impM c = Ok d -> guards_m d.
Proof.
  induction c as [c|n p ds IH] using cfg2_ind'; intros d H; [discriminate H|].
  destruct n; try discriminate H; cbn [import_mat] in H.
  - apply bind_ok in H as (ds' & Hds & H). apply new_mid_inv in H as [-> Hst]. split; [assumption|].
    eapply children_guards; [|eassumption]. clear. induction ds; constructor; [intros d; apply import_vec_guards|assumption].
  - apply bind_ok in H as (ps & _ & H). destruct (negb _); [discriminate|].
    destruct ds as [|c' [|c'' r]]; try discriminate H.
    apply bind_ok in H as (d0 & Hd0 & H). unfold new_miid in H. apply guard_inv in H as [Hg H]. inversion H; subst.
    split; [assumption|eapply import_vec_guards; eassumption].
  - apply bind_ok in H as (ws & _ & H). destruct (existsb _ ws); [discriminate|].
    apply bind_ok in H as (ds' & Hds & H). inversion H; subst. clear H.
    revert ds' Hds. induction IH as [|c cs Hc _ IHcs]; intros ds' Hds; simpl in Hds.
    + inversion Hds. exact I.
    + apply bind_ok in Hds as (y & Hy & Hds). apply bind_ok in Hds as (ys & Hys & Hds). inversion Hds; subst.
      split; [apply Hc; assumption|apply IHcs; assumption].
Qed.

(* the iid guard, spelled out *)
Lemma guard_ok_iff d n :
  guard d n = Ok tt <-> v_stype_ok F d = true /\ 0 <= n /\ dimV d <> 0 /\ Z.rem n (dimV d) = 0.
Proof.
  unfold iid_guard.
  destruct (v_stype_ok F d); simpl.
  2: { split; [discriminate|intros [? _]; discriminate]. }
  destruct (Z.ltb_spec n 0); simpl.
  { split; [discriminate|intros (_ & ? & _); lia]. }
  destruct (Z.eqb_spec (dimV d) 0); simpl.
  { split; [discriminate|intros (_ & _ & ? & _); contradiction]. }
  destruct (Z.eqb_spec (Z.rem n (dimV d)) 0); simpl.
  - split; [intros _; auto|reflexivity].
  - split; [discriminate|intros (_ & _ & _ & ?); contradiction].
Qed.

(* ------------------------------------------------------------------ refutations *)
(* the mixtures' importers do not re-establish what NewMixture insists on (one component per weight, one dimension):
   F-CONFIG-MIXTURE-ARITY *)
Lemma mixture_arity_refuted w :
  flt w zero = false ->
  impV (CNew NVMixture (JArr [JNum w]) []) = Ok (VMix (norm [flog w]) []) /\
  impM (CNew NMMixture (JArr [JNum w]) []) = Ok (MMix (norm [flog w]) []) /\
  imp (Cfg FMixture (JArr [JNum w]) []) = Ok (Dist FMixture (norm [flog w]) []).
Proof. intros H. cbn. rewrite H. repeat split; reflexivity. Qed.

(* malformed documents answered with a panic: an iid distribution over a zero-dimensional one (n % 0), an id / iid
   distribution over an empty id distribution (ScalarType() indexes Distributions[0]): F-CONFIG-IID-PANIC *)
Lemma iid_panics_refuted x c :
  f2z x >= 0 ->
  impV (CNew NVVectorIid (JArr [JNum x]) [CNew NVMixture JNull []]) = Panic /\
  impM (CNew NMVectorIid (JArr [JNum x]) [CNew NVMixture JNull []]) = Panic /\
  impV (CNew NVVectorIid (JArr [JNum x]) [CNew NVScalarId JNull []]) = Panic /\
  impV (CNew NVVectorId JNull [CNew NVScalarId JNull []; c]) = match impV c with Ok _ => Panic | r => r end /\
  impM (CNew NMVectorId JNull [CNew NVVectorId JNull []]) = Panic.
Proof.
  intros H. cbn. unfold new_viid, new_miid, iid_guard. cbn.
  destruct (f2z x <? 0) eqn:E; [lia|]. repeat split; try reflexivity.
  destruct (impV c); reflexivity.
Qed.

End ConfigVProofs.
