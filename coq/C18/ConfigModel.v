(* C18 — executable model of the distribution configurations of pbenner/autodiff/statistics.

   ConfigDistribution{Name, Parameters interface{}, Distributions []ConfigDistribution} is a tree;
   after json.Unmarshal Parameters is nil, a float64, a []interface{} ... : [jv].
   Anchors (HEAD of /repo):
     statistics/config.go                     getFloat / getFloats (reflection), ImportScalarPdfConfig
     statistics/distribution.go               registry lookup (unknown name -> error)
     statistics/scalarDistribution/*.go       ImportConfig / ExportConfig / GetParameters / New*Distribution
     statistics/generic/mixture.go            Mixture.ImportConfig / ExportConfig / NewMixture
     statistics/vectorDistribution/scalarIid.go
   A distribution is modelled by what GetParameters returns (its STORED parameters: log-probabilities
   for the categorical distribution, the binomial theta and the mixture weights) and its children.
   flog / fexp / norm (NewMixture's normalisation) / ftrunc (float64(int(x))) are parameters.
   No proofs in this file. *)
From Coq Require Import ZArith List Bool.
From ADV Require Import C18.Model.
Import ListNotations.
Open Scope Z_scope.

Inductive fam : Type :=
| FBeta | FBinomial | FCategorical | FCauchy | FDelta | FExponential | FGamma | FGenGamma
| FGeometric | FGev | FLaplace | FNegBinomial | FNormal | FPareto | FGPareto | FPoisson | FPowerLaw
| FMixture | FLogT | FTrans       (* scalar registry, with children *)
| FIid                            (* vector registry: "vector:scalar iid" *)
| FUnknown.                       (* a name in no registry *)

Definition fam_eqb (a b : fam) : bool :=
  match a, b with
  | FBeta, FBeta | FBinomial, FBinomial | FCategorical, FCategorical | FCauchy, FCauchy | FDelta, FDelta
  | FExponential, FExponential | FGamma, FGamma | FGenGamma, FGenGamma | FGeometric, FGeometric | FGev, FGev
  | FLaplace, FLaplace | FNegBinomial, FNegBinomial | FNormal, FNormal | FPareto, FPareto | FGPareto, FGPareto
  | FPoisson, FPoisson | FPowerLaw, FPowerLaw | FMixture, FMixture | FLogT, FLogT | FTrans, FTrans
  | FIid, FIid | FUnknown, FUnknown => true
  | _, _ => false
  end.

(* in the scalar registry (what ImportScalarPdfConfig can build) *)
Definition scalar_fam (f : fam) : bool := match f with FIid | FUnknown => false | _ => true end.

Section Config.
Variable F : Type.

(* Parameters after json.Unmarshal into interface{} *)
Inductive jv : Type :=
| JNull | JNum (x : F) | JOther            (* string, bool, object *)
| JArr (l : list jv).

Inductive cfg : Type := Cfg (f : fam) (p : jv) (ds : list cfg).
Inductive dist : Type := Dist (f : fam) (ps : list F) (ds : list dist).

Variables zero one : F.
Variable fle flt feq : F -> F -> bool.      (* Go's <=, <, == on float64 (false on NaN) *)
Variables flog fexp ftrunc : F -> F.
Variable norm : list F -> list F.

(* getFloats: nil -> (nil, true); a slice: every element must be a float64 — a nil element makes
   s.Index(i).Elem().Interface() panic, any other kind gives (nil, false); not a slice -> (nil, false) *)
Definition get_float (e : jv) : res F :=
  match e with JNum x => Ok x | JNull => Panic | _ => Err end.
Definition get_floats (p : jv) : res (list F) :=
  match p with
  | JNull => Ok []
  | JArr l => mapR get_float l
  | _ => Err
  end.

Definition has_children (f : fam) : bool :=
  match f with FMixture | FLogT | FTrans | FIid => true | _ => false end.

(* ---------------------------------------------------------------- ExportConfig *)
(* NewConfigDistribution(name, GetParameters()) — the categorical distribution and the mixture export
   exp of their stored log-parameters; the binomial distribution exports its stored log(theta) as is *)
Definition export_params (f : fam) (ps : list F) : list F :=
  match f with FCategorical | FMixture => map fexp ps | _ => ps end.
Fixpoint export (d : dist) : cfg :=
  match d with
  | Dist f ps ds => Cfg f (JArr (map JNum (export_params f ps))) (if has_children f then map export ds else [])
  end.

(* ---------------------------------------------------------------- ImportConfig *)
Definition nth_f (ps : list F) (i : nat) : F := nth i ps zero.
Definition bad (b : bool) : bool := b.

(* parameters[i] without a length check: too few parameters -> index out of range (panic);
   then New*Distribution validates (error) and stores *)
Definition import_simple (f : fam) (ps : list F) : res (list F) :=
  let p := nth_f ps in
  let need (n : nat) (invalid : bool) (stored : list F) : res (list F) :=
    if (length ps <? n)%nat then Panic else if invalid then Err else Ok stored in
  match f with
  | FBeta => need 3%nat (fle (p 0%nat) zero || fle (p 1%nat) zero)
                  [p 0%nat; p 1%nat; if feq (p 2%nat) one then one else zero]
  | FBinomial => need 2%nat (flt (p 0%nat) zero || flt one (p 0%nat) || flt (ftrunc (p 1%nat)) zero)
                      [flog (p 0%nat); ftrunc (p 1%nat)]
  | FCategorical => if (length ps =? 0)%nat then Err
                    else if existsb (fun x => flt x zero) ps then Err else Ok (map flog ps)
  | FCauchy => need 2%nat (fle (p 1%nat) zero) [p 0%nat; p 1%nat]
  | FDelta => need 1%nat false [p 0%nat]
  | FExponential => need 1%nat (fle (p 0%nat) zero) [p 0%nat]
  | FGamma => need 2%nat (fle (p 0%nat) zero || fle (p 1%nat) zero) [p 0%nat; p 1%nat]
  | FGenGamma => need 3%nat (fle (p 0%nat) zero || fle (p 1%nat) zero || fle (p 2%nat) zero) [p 0%nat; p 1%nat; p 2%nat]
  | FGeometric => need 1%nat (fle (p 0%nat) zero || flt one (p 0%nat)) [p 0%nat]
  | FGev => need 3%nat (fle (p 1%nat) zero) [p 0%nat; p 1%nat; p 2%nat]
  | FLaplace => need 2%nat (fle (p 1%nat) zero) [p 0%nat; p 1%nat]
  | FNegBinomial => need 2%nat (fle (p 0%nat) zero || flt (p 1%nat) zero || fle one (p 1%nat)) [p 0%nat; p 1%nat]
  | FNormal => need 2%nat (fle (p 1%nat) zero) [p 0%nat; p 1%nat]
  | FPareto => need 2%nat (fle (p 0%nat) zero || fle (p 1%nat) zero) [p 0%nat; p 1%nat]
  | FGPareto => need 3%nat (fle (p 1%nat) zero) [p 0%nat; p 1%nat; p 2%nat]
  | FPoisson => need 1%nat (fle (p 0%nat) zero) [p 0%nat]
  | FPowerLaw => need 2%nat (fle (p 0%nat) one || fle (p 1%nat) zero) [p 0%nat; p 1%nat]
  | _ => Err
  end.

(* [top]: the entry point is ImportVectorPdfConfig for "vector:scalar iid", ImportScalarPdfConfig otherwise;
   children always go through ImportScalarPdfConfig (unknown name -> error) *)
Fixpoint import_cfg (c : cfg) : res dist :=
  match c with
  | Cfg f p ds =>
      match f with
      | FUnknown => Err
      | FMixture =>
          ws <- get_floats p ;;
          if existsb (fun x => flt x zero) ws then Err else
          ds' <- (fix go (l : list cfg) : res (list dist) :=
                    match l with
                    | [] => Ok []
                    | c' :: r =>
                        d <- (if (match c' with Cfg f' _ _ => scalar_fam f' end) then import_cfg c' else Err) ;;
                        ds' <- go r ;; Ok (d :: ds')
                    end) ds ;;
          Ok (Dist FMixture (norm (map flog ws)) ds')
      | FLogT | FTrans | FIid =>
          ps <- get_floats p ;;
          if negb (length ps =? 1)%nat then Err else
          match ds with
          | [c'] =>
              if (match c' with Cfg f' _ _ => scalar_fam f' end) then
                d <- import_cfg c' ;;
                Ok (Dist f [match f with FIid => ftrunc (nth_f ps 0) | _ => nth_f ps 0 end] [d])
              else Err
          | _ => Err
          end
      | _ => ps <- get_floats p ;; st <- import_simple f ps ;; Ok (Dist f st [])
      end
  end.

(* ImportScalarPdfConfig / ImportVectorPdfConfig *)
Definition import_top (c : cfg) : res dist := import_cfg c.

End Config.
Arguments JNull {F}. Arguments JNum {F} x. Arguments JOther {F}. Arguments JArr {F} l.
Arguments Cfg {F} f p ds. Arguments Dist {F} f ps ds.
