(* C18 — property theorems (statements only; proofs live in Proofs*.v).

   F : element values, T : number tokens.  The token layer is the hypothesis
     fmt_parse : forall x t, fmtJ x = Some t -> parseJ t = Some x
   (Go's strconv shortest formatting read back by the standard parser returns the same
   number; fmtJ x = None models encoding/json refusing NaN/Inf).  Every round-trip theorem
   starts from "the writer returned a document", so non-finite elements are excluded exactly
   where the encoder excludes them. *)
From Coq Require Import ZArith List Bool.
From ADV Require Import C18.Model C18.Spec C18.SpecTest C18.ProofsBase C18.ProofsScalar C18.ProofsSparse
  C18.ProofsDense C18.ProofsSparseMat C18.ProofsInst C18.TableModel C18.ProofsTable C18.ProofsTable2 C18.ConfigModel C18.ProofsConfig C18.ProofsConfig2.
Import ListNotations.
Open Scope Z_scope.

Definition token_roundtrip {F T} (fmtJ : F -> option T) (parseJ : T -> option F) : Prop :=
  forall x t, fmtJ x = Some t -> parseJ t = Some x.

(* no_panic: the outcome of a reader is a value or an error — never a panic, never a crash *)
Definition no_panic {A} (r : res A) : Prop := r <> Panic /\ r <> Crash.

(* ------------------------------------------------------------------ scalars *)
Theorem plain_scalar_roundtrip :
  forall F T (fmtJ : F -> option T) parseJ, token_roundtrip fmtJ parseJ ->
  forall x t, write_plain F T fmtJ x = Ok t -> read_plain F T parseJ t = Ok x.
Proof. exact plain_roundtrip. Qed.

(* constant scalars (ConstFloat64, ConstInt8, ...): written as the underlying number (da67985), read back as it *)
Theorem const_scalar_roundtrip :
  forall F T (fmtJ : F -> option T) parseJ, token_roundtrip fmtJ parseJ ->
  forall x t, write_const F T fmtJ x = Ok t -> read_plain F T parseJ t = Ok x.
Proof. exact const_roundtrip. Qed.

(* EVERY well-formed Real — zero gradient with non-zero Hessian included (500dcc2): value exactly; gradient and
   Hessian exactly where the document carries them, and zero-for-zero where it does not *)
Theorem real_scalar_roundtrip :
  forall F T zero nz (fmtJ : F -> option T) parseJ, nz zero = false -> token_roundtrip fmtJ parseJ ->
  forall r d, wf_real F r -> write_real F T nz fmtJ r = Ok d ->
  exists r', read_real F T zero parseJ d = Ok r' /\ wf_real F r' /\ real_obs_eq F zero nz r r'.
Proof. exact real_roundtrip. Qed.

(* reader safety on every document (b9c30c8, 500dcc2): what the reader accepts is well-formed; it never panics *)
Theorem real_reader_safety :
  forall F T zero (parseJ : T -> option F) d,
  no_panic (read_real F T zero parseJ d) /\ forall r, read_real F T zero parseJ d = Ok r -> wf_real F r.
Proof. intros F T zero parseJ d. split; [apply real_reader_total|intros r; apply real_reader_safe]. Qed.

(* the witnesses of the retired findings, with today's outcomes *)
Theorem real_scalar_hessian_only_regression :
  wf_real Z hessonly_witness /\ hess_only Z Znz hessonly_witness /\
  Zwr hessonly_witness = Ok (SObj 0 None (Some [[0; 1]; [1; 0]])) /\
  Zrd (SObj 0 None (Some [[0; 1]; [1; 0]])) = Ok hessonly_witness.
Proof. exact real_hessonly_regression. Qed.

Theorem real_reader_shape_regression :
  Zrd (SObj 1 (Some [1]) (Some [[1; 2]; [3]])) = Err /\
  Zrd (SObj 1 (Some [1]) (Some [[1; 2]])) = Err /\
  Zrd (SObj 1 (Some [1; 2]) (Some [[1; 2]])) = Err /\
  Zrd (SObj 1 None (Some [[1; 2]])) = Err /\
  Zrd (SObj 1 None (Some [[1]])) = Ok (mkReal 1 2 1 [0] [[1]]).
Proof. exact ProofsScalar.real_reader_shape_regression. Qed.

Theorem const_scalar_write_regression : forall x : Z, write_const Z Z Zfmt x = Ok x.
Proof. exact const_write_regression. Qed.

(* ------------------------------------------------------------ dense vectors *)
Theorem dense_vector_roundtrip :
  forall E D (wr : E -> res D) rd (good : E -> Prop) (R : E -> E -> Prop),
  (forall e d, good e -> wr e = Ok d -> exists e', rd d = Ok e' /\ R e e') ->
  forall v d, Forall good v -> write_dv E D wr v = Ok d ->
  exists v', read_dv E D rd d = Ok v' /\ Forall2 R v v'.
Proof. exact dv_roundtrip. Qed.

(* ----------------------------------------------------------- sparse vectors *)
Theorem sparse_vector_roundtrip :
  forall F T zero nz (fmtJ : F -> option T) parseJ, nz zero = false -> token_roundtrip fmtJ parseJ ->
  forall E (eval : E -> F) enul, (forall e, enul e = true -> nz (eval e) = false) ->
  forall v d, wf_sv v -> write_sv F T fmtJ E eval enul v = Ok d ->
  exists v', read_sv F T nz parseJ d = Ok v' /\ wf_sv v' /\ sv_obs_eq F zero nz E eval v v'.
Proof. exact sv_roundtrip. Qed.

Theorem sparse_vector_support_preserved :
  forall F zero nz E (eval : E -> F) v v',
  sv_obs_eq F zero nz E eval v v' -> sv_support_eq F zero nz E eval v v'.
Proof. exact sv_obs_support. Qed.

(* reader safety at full strength (a328708), every document: no panic, and an accepted document gives a
   well-formed vector (sorted distinct keys in [0, Length), Length >= 0) *)
Theorem sparse_reader_safety :
  forall F T nz (parseJ : T -> option F) d,
  no_panic (read_sv F T nz parseJ d) /\
  forall v, read_sv F T nz parseJ d = Ok v -> wf_sv v /\ sv_n v = svd_length d.
Proof. intros F T nz parseJ d. split; [apply read_sv_total|intros v; apply read_sv_safe]. Qed.

(* what exactly is accepted: the unvalidated core (still the whole of the table reader) behind the checks *)
Theorem sparse_reader_validation :
  forall F T nz (parseJ : T -> option F) d v,
  read_sv F T nz parseJ d = Ok v <->
  (read_sv_core F T nz parseJ d = Ok v /\ 0 <= svd_length d /\
   Forall (fun k => 0 <= k < svd_length d) (svd_index d) /\ NoDup (svd_index d)).
Proof. exact read_sv_validation. Qed.

Theorem sparse_reader_regression :
  Zrsv (mkSvDoc [1] [1] 1) = Err /\ Zrsv (mkSvDoc [0; 0] [1; 1] 1) = Err /\ Zrsv (mkSvDoc [0; 0] [0; 1] 1) = Err /\
  Zrsv (mkSvDoc [-1] [1] 1) = Err /\ Zrsv (mkSvDoc [] [] (-1)) = Err /\
  Zrsv (mkSvDoc [2; 0] [5; 0] 3) = Ok (mkSv [(2, 5)] 3).
Proof. exact ProofsSparse.sparse_reader_regression. Qed.

(* ----------------------------------------------------------- dense matrices *)
(* every view: any header satisfying wf_dm — in particular (closure lemmas below) everything
   reachable from a full matrix by slices and transposes.  rows*cols < 2^63: the element count is a Go int *)
Theorem dense_matrix_roundtrip_all_views :
  forall E D (wr : E -> res D) rd ezero (good : E -> Prop) (R : E -> E -> Prop),
  (forall e d, good e -> wr e = Ok d -> exists e', rd d = Ok e' /\ R e e') ->
  forall m d b, wf_dm m -> dm_rows m * dm_cols m < 2^63 -> Forall good (dm_vals m) -> write_dm E D wr ezero m = Ok d ->
  exists m', read_dm E D rd b d = Ok m' /\ wf_dm m' /\ dm_obs_eq R m m'.
Proof. exact dm_roundtrip. Qed.

Theorem dense_views_are_wf :
  forall E,
  (forall (vals : list E) r c, 0 <= r -> 0 <= c -> zlen vals = r * c -> wf_dm (mkDm vals r c 0 r 0 c false)) /\
  (forall (m : dmat E) rf rt cf ct, wf_dm m -> 0 <= rf <= rt -> rt <= dm_rows m -> 0 <= cf <= ct -> ct <= dm_cols m ->
     wf_dm (dm_slice E m rf rt cf ct)) /\
  (forall m : dmat E, wf_dm m -> wf_dm (dm_T E m)).
Proof. intro E. exact (conj (wf_dm_full E) (conj (wf_dm_slice E) (wf_dm_T E))). Qed.

Theorem dense_views_mean_what_they_say :
  forall E,
  (forall (m : dmat E) i j, dm_at E (dm_T E m) i j = dm_at E m j i) /\
  (forall (m : dmat E) rf rt cf ct i j, 0 <= rf -> rt <= dm_rows m -> 0 <= cf -> ct <= dm_cols m ->
     0 <= i < rt - rf -> 0 <= j < ct - cf -> dm_at E (dm_slice E m rf rt cf ct) i j = dm_at E m (rf + i) (cf + j)).
Proof. intro E. exact (conj (dm_T_at E) (dm_slice_at E)). Qed.

(* the writer's repacking never fails on a well-formed view *)
Theorem dense_repack_total :
  forall E ezero (m : dmat E), wf_dm m -> exists vals, packed E ezero m = Ok vals.
Proof. exact packed_total. Qed.

(* reader safety at full strength (d37b260, 6dfd87a), every document: no panic (given an element reader that does
   not panic); an accepted document gives a well-formed matrix of the document's dimensions *)
Theorem dense_reader_safety :
  forall E D (rd : D -> res E) b d, (forall x, no_panic (rd x)) ->
  no_panic (read_dm E D rd b d) /\
  forall m, read_dm E D rd b d = Ok m ->
    wf_dm m /\ dm_rows m = dmd_rows d /\ dm_cols m = dmd_cols d /\ zlen (dm_vals m) = zlen (dmd_values d).
Proof. intros E D rd b d Hrd. split; [apply read_dm_total; exact Hrd|intros m; apply read_dm_safe]. Qed.

Theorem dense_reader_regression :
  Zrdm (mkDmDoc [] 1 1) = Err /\ Zrdm (mkDmDoc [1; 2; 3] 2 2) = Err /\ Zrdm (mkDmDoc [] (-1) 0) = Err /\
  Zrdm (mkDmDoc [] (2^32) (2^32)) = Err /\ Zrdm (mkDmDoc [1; 2] 6148914691236517206 3) = Err /\
  read_dm Z Z (read_plain Z Z Zparse) true (mkDmDoc [] (-1) 0) = Err /\
  read_dm Z Z (read_plain Z Z Zparse) true (mkDmDoc [] 0 (-1)) = Err /\
  Zrdm (mkDmDoc [1; 2] 1 2) = Ok (mkDm [1; 2] 1 2 0 1 0 2 false).
Proof. exact ProofsDense.dense_reader_regression. Qed.

(* the two element codecs of the library plugged in: plain numbers are returned exactly ... *)
Theorem dense_plain_vector_roundtrip_exact :
  forall F T (fmtJ : F -> option T) parseJ, token_roundtrip fmtJ parseJ ->
  forall v d, write_dv F T (write_plain F T fmtJ) v = Ok d -> read_dv F T (read_plain F T parseJ) d = Ok v.
Proof. exact dense_plain_vector_exact. Qed.

Theorem dense_plain_matrix_roundtrip_all_views :
  forall F T (fmtJ : F -> option T) parseJ, token_roundtrip fmtJ parseJ ->
  forall (m : dmat F) d ez, wf_dm m -> dm_rows m * dm_cols m < 2^63 -> write_dm F T (write_plain F T fmtJ) ez m = Ok d ->
  exists m', read_dm F T (read_plain F T parseJ) false d = Ok m' /\ wf_dm m' /\ dm_obs_eq eq m m'.
Proof. exact dense_plain_matrix. Qed.

(* ... and Real elements with their derivatives — every well-formed Real element *)
Theorem dense_real_vector_roundtrip :
  forall F T zero nz (fmtJ : F -> option T) parseJ, nz zero = false -> token_roundtrip fmtJ parseJ ->
  forall v d, Forall (wf_real F) v -> write_dv (real F) (sdoc T) (write_real F T nz fmtJ) v = Ok d ->
  exists v', read_dv (real F) (sdoc T) (read_real F T zero parseJ) d = Ok v' /\ Forall2 (real_obs_eq F zero nz) v v'.
Proof. exact dense_real_vector. Qed.

Theorem dense_real_matrix_roundtrip_all_views :
  forall F T zero nz (fmtJ : F -> option T) parseJ, nz zero = false -> token_roundtrip fmtJ parseJ ->
  forall (m : dmat (real F)) d ez, wf_dm m -> dm_rows m * dm_cols m < 2^63 -> Forall (wf_real F) (dm_vals m) ->
  write_dm (real F) (sdoc T) (write_real F T nz fmtJ) ez m = Ok d ->
  exists m', read_dm (real F) (sdoc T) (read_real F T zero parseJ) true d = Ok m' /\ wf_dm m' /\
             dm_obs_eq (real_obs_eq F zero nz) m m'.
Proof. exact dense_real_matrix. Qed.

(* Real containers, reader safety including the elements, every document *)
Theorem dense_real_reader_safety :
  forall F T zero (parseJ : T -> option F),
  (forall d, no_panic (read_dv (real F) (sdoc T) (read_real F T zero parseJ) d) /\
     forall v, read_dv (real F) (sdoc T) (read_real F T zero parseJ) d = Ok v -> Forall (wf_real F) v) /\
  (forall d b, no_panic (read_dm (real F) (sdoc T) (read_real F T zero parseJ) b d) /\
     forall m, read_dm (real F) (sdoc T) (read_real F T zero parseJ) b d = Ok m ->
       Forall (wf_real F) (dm_vals m) /\ wf_dm m).
Proof.
  intros F T zero parseJ. split.
  - intros d. split; [apply read_dv_total, real_reader_total|intros v; apply dense_real_vector_reader_safe].
  - intros d b. split; [apply read_dm_total, real_reader_total|intros m; apply dense_real_matrix_reader_safe].
Qed.

(* ---------------------------------------------------------- sparse matrices *)
(* full matrices and slices; "the writer returned a document" excludes exactly the slices whose
   parent stores a non-null entry outside the slice (see sparse_matrix_slice_write_refuted) *)
Theorem sparse_matrix_roundtrip_all_slices :
  forall F T zero nz (fmtJ : F -> option T) parseJ, nz zero = false -> token_roundtrip fmtJ parseJ ->
  forall E (eval : E -> F) enul, (forall e, enul e = true -> nz (eval e) = false) ->
  forall m d, wf_sm m -> sm_rows m * sm_cols m < 2^63 -> write_sm F T fmtJ E eval enul m = Ok d ->
  exists m', read_sm F T nz parseJ d = Ok m' /\ wf_sm m' /\ sm_obs_eq F zero nz E eval m m'.
Proof. exact sm_roundtrip. Qed.

Theorem sparse_matrix_repack_total_when_entries_inside :
  forall E enul (m : smat E), wf_sm m ->
  Forall (fun kv => in_view E m (fst kv) /\ 0 <= fst kv) (sv_live E enul (sm_vals m)) ->
  exists st, storage E enul m = Ok st.
Proof. exact storage_ok_inside. Qed.

(* STILL A DEFECT (F-JSON-SPSLICE) *)
Theorem sparse_matrix_slice_write_refuted : wf_sm spslice_witness /\ Zwsm spslice_witness = Panic.
Proof. exact sparse_slice_write_refuted. Qed.

(* reader safety at full strength (a328708), every document: negative and overflowing dimensions, indices outside
   [0, Rows*Cols) and repeated indices are errors; what is accepted is well-formed *)
Theorem sparse_matrix_reader_safety :
  forall F T nz (parseJ : T -> option F) d,
  no_panic (read_sm F T nz parseJ d) /\
  forall m, read_sm F T nz parseJ d = Ok m -> wf_sm m /\ sm_rows m = smd_rows d /\ sm_cols m = smd_cols d.
Proof. intros F T nz parseJ d. split; [apply read_sm_total|intros m; apply read_sm_safe]. Qed.

(* the matrix readers' overflow test Rows*Cols/Cols == Rows (wrapping *, truncating /) is exact *)
Theorem matrix_overflow_test_exact :
  forall rows cols, 0 <= rows -> 0 <= cols ->
  (dims_bad rows cols = false <-> wrap64 (rows * cols) = rows * cols).
Proof. exact dims_overflow_test_exact. Qed.

Theorem sparse_matrix_reader_regression :
  Zrsm (mkSmDoc [1] [1] 1 1) = Err /\ Zrsm (mkSmDoc [-1] [1] 1 1) = Err /\
  Zrsm (mkSmDoc [] [] (2^32) (2^32)) = Err /\ Zrsm (mkSmDoc [] [] 3037000500 3037000500) = Err /\
  Zrsm (mkSmDoc [] [] (-1) (-1)) = Err /\ Zrsm (mkSmDoc [0; 0] [1; 1] 1 1) = Err /\
  Zrsm (mkSmDoc [3; 0] [5; 0] 2 2) = Ok (mkSm (mkSv [(3, 5)] 4) 2 2 0 2 0 2).
Proof. exact ProofsSparseMat.sparse_matrix_reader_regression. Qed.

(* ------------------------------------------------------------------ the hypotheses are satisfiable *)
Example hypotheses_satisfiable :
  token_roundtrip Zfmt Zparse /\ Znz 0 = false /\
  wf_dm view1 /\ dm_is_view Z view1 = true /\
  wf_real Z (mkReal 3 2 2 [1; 0] [[0; 2]; [2; 0]]) /\ ~ hess_only Z Znz (mkReal 3 2 2 [1; 0] [[0; 2]; [2; 0]]) /\
  wf_real Z (mkReal 3 2 2 [0; 0] [[0; 2]; [2; 0]]) /\ hess_only Z Znz (mkReal 3 2 2 [0; 0] [[0; 2]; [2; 0]]) /\
  wf_sv (mkSv [(1, 5); (2, 0); (4, 7)] 6).
Proof.
  split. { intros x t H. inversion H; reflexivity. }
  split; [reflexivity|].
  split. { unfold wf_dm; simpl. repeat split; discriminate || reflexivity. }
  split; [reflexivity|].
  split. { unfold wf_real; simpl. repeat split; try discriminate; repeat constructor. }
  split. { intros [H _]. vm_compute in H. discriminate. }
  split. { unfold wf_real; simpl. repeat split; try discriminate; repeat constructor. }
  split. { split; reflexivity. }
  unfold wf_sv, sorted, keys; simpl. split; [discriminate|]. split; repeat constructor; simpl; discriminate || reflexivity.
Qed.

(* ================================================================== TABLES (text files, round 2)
   F : stored element values, T : tokens of the file.  fmtT = fmt's %v of the element's value,
   parseT = strconv.ParseFloat followed by the conversion to the stored type, fmtI / parseI = %d /
   ParseInt.  The byte layer (lines, strings.Fields, gzip) is outside the model; a written file enters
   the theorems as its lines plus its first bytes p with [text_prefix p] (not empty, not the gzip magic).
   Tables carry VALUES ONLY: derivatives of Real elements are not written (eval projects them away),
   so the round-trip theorems speak about dimensions and element values. *)

Theorem gzip_detection :
  is_gzip [] = Err /\ (forall b, is_gzip [b] = Ok false) /\
  (forall a b r, is_gzip (a :: b :: r) = Ok ((a =? 31) && (b =? 139))) /\
  (forall p, text_prefix p -> is_gzip p = Ok false).
Proof. exact (conj is_gzip_empty (conj is_gzip_one (conj is_gzip_two is_gzip_text))). Qed.

(* dense vectors of every length, the empty vector included *)
Theorem dense_vector_table_roundtrip :
  forall F T (fmtT : F -> T) parseT E (eval : E -> F) (v : list E) p,
  text_prefix p -> Forall (cell_ok F T fmtT parseT E eval) v ->
  import_dv F T parseT (plain_file p (export_dv F T fmtT E eval v)) = Ok (map eval v).
Proof. exact dv_table_roundtrip. Qed.

(* the dense vector reader on ANY file: accepted iff the stream ends cleanly and every token is a value;
   the result is the list of all tokens' values (line structure is ignored) *)
Theorem dense_vector_table_reader :
  forall F T (parseT : T -> option F) f v, import_dv F T parseT f = Ok v ->
  exists s, open_table f = Ok s /\ ts_fail s = false /\ mapM parseT (all_fields T (ts_lines s)) = Some v.
Proof. exact import_dv_reads_all_tokens. Qed.

(* dense matrices, every non-empty view (any wf_dm header: slices, transposes and their compositions, see
   dense_views_are_wf) whose cells' printed values read back: the writer produces a file, the reader (plain and
   Real element types) reads it, and the read-back matrix is well-formed, has the view's dimensions and holds at
   EVERY position (i, j) the value of the view's element at (i, j) *)
Theorem dense_matrix_table_roundtrip :
  forall F T (fmtT : F -> T) parseT E (eval : E -> F) (m : dmat E) p real,
  text_prefix p -> wf_dm m -> 0 < dm_rows m -> 0 < dm_cols m ->
  Forall (cell_ok F T fmtT parseT E eval) (dm_vals m) ->
  exists ls m', export_dm F T fmtT E eval m = Ok ls /\
    import_dm F T parseT real (plain_file p ls) = Ok m' /\ wf_dm m' /\
    dm_rows m' = dm_rows m /\ dm_cols m' = dm_cols m /\
    forall i j, 0 <= i < dm_rows m -> 0 <= j < dm_cols m ->
      exists e, dm_at E m i j = Ok e /\ dm_at F m' i j = Ok (eval e).
Proof. exact dm_table_roundtrip_positional. Qed.

(* the same round trip at the level of the stored list: row-major concatenation of the view's rows *)
Theorem dense_matrix_table_roundtrip_rows :
  forall F T (fmtT : F -> T) parseT E (eval : E -> F) (m : dmat E) ls p real,
  text_prefix p -> wf_dm m -> 0 < dm_rows m -> 0 < dm_cols m ->
  Forall (cell_ok F T fmtT parseT E eval) (dm_vals m) ->
  export_dm F T fmtT E eval m = Ok ls ->
  exists rowsE, view_rows E m rowsE /\
    import_dm F T parseT real (plain_file p ls) =
    Ok (mkDm (map eval (concat rowsE)) (dm_rows m) (dm_cols m) 0 (dm_rows m) 0 (dm_cols m) false).
Proof. exact dm_table_roundtrip_rows. Qed.

(* empty shapes (0x0, 0xn, nx0 — also as empty views) are written as empty lines and read back as 0x0:
   the round trip holds for 0x0 only *)
Theorem dense_matrix_table_empty_shapes :
  forall F T (fmtT : F -> T) parseT E (eval : E -> F) (m : dmat E) p real,
  text_prefix p -> 0 <= dm_rows m -> (dm_rows m = 0 \/ dm_cols m <= 0) ->
  exists ls, export_dm F T fmtT E eval m = Ok ls /\
    import_dm F T parseT real (plain_file p ls) = Ok (mkDm [] 0 0 0 0 0 0 false).
Proof. exact dm_table_empty. Qed.

Theorem dense_matrix_table_emptydim_refuted :
  ZEdm (mkDm [] 0 3 0 0 0 3 false) = Ok [LEmpty] /\
  ZEdm (mkDm [] 3 0 0 3 0 0 false) = Ok [LEmpty; LEmpty; LEmpty] /\
  ZIdm false (plain_file [10] [LEmpty]) = Ok (mkDm [] 0 0 0 0 0 0 false) /\
  ZIdm false (plain_file [10; 10] [LEmpty; LEmpty; LEmpty]) = Ok (mkDm [] 0 0 0 0 0 0 false).
Proof. exact dm_table_emptydim_refuted. Qed.

(* reader safety, dense matrices: plain element types are safe exactly on streams without a
   whitespace-only line; Real element types always (their constructor checks the length, or panics) *)
Theorem dense_matrix_table_reader_safety :
  forall F T (parseT : T -> option F),
  (forall f m, import_dm F T parseT false f = Ok m ->
     exists s, open_table f = Ok s /\ (no_ws_line T (ts_lines s) -> wf_dm m)) /\
  (forall f m, import_dm F T parseT true f = Ok m -> wf_dm m).
Proof. intros F T parseT. exact (conj (import_dm_plain_safe F T parseT) (import_dm_real_safe F T parseT)). Qed.

Theorem dense_matrix_table_whitespace_line_refuted :
  (exists m, ZIdm false (plain_file [32; 10] [LFields []; LFields [1; 2]]) = Ok m /\
             dm_rows m = 2 /\ dm_cols m = 2 /\ zlen (dm_vals m) = 2 /\ ~ wf_dm m /\ dm_at Z m 1 0 = Panic) /\
  ZIdm true (plain_file [32; 10] [LFields []; LFields [1; 2]]) = Panic /\
  ZIdm true (plain_file [32; 10] [LFields []; LFields [5]]) = Ok (mkDm [5; 5] 2 1 0 2 0 1 false).
Proof. exact dm_table_wsline_refuted. Qed.

(* sparse vectors: on its own writer's output the table reader computes what the JSON reader computes
   on the JSON document of the same vector — hence the round trip *)
Theorem sparse_vector_table_roundtrip :
  forall F T nz (fmtT : F -> T) parseT fmtI parseI E (eval : E -> F) enul,
  (forall z, parseI (fmtI z) = Some z) -> forall zero, nz zero = false -> (forall x, parseT (fmtT x) = Some x) ->
  (forall e, enul e = true -> nz (eval e) = false) ->
  forall (v : svec E) p, text_prefix p -> wf_sv v ->
  exists v', import_sv F T nz parseT parseI (plain_file p (export_sv F T fmtT fmtI E eval enul v)) = Ok v' /\
             wf_sv v' /\ sv_obs_eq F zero nz E eval v v'.
Proof. exact sv_table_roundtrip. Qed.

Theorem sparse_vector_table_reader_refuted :
  ZIsv (plain_file [49; 10] [LFields [1]; LFields [1; 1]]) = Panic /\
  ZIsv (plain_file [49; 10] [LFields [1]; LFields [0; 1]; LFields [0; 1]]) = Panic /\
  (exists v, ZIsv (plain_file [49; 10] [LFields [1]; LFields [-1; 1]]) = Ok v /\ ~ wf_sv v /\ lookup (-1) (sv_ents v) = Some 1) /\
  (exists v, ZIsv (plain_file [45; 49] [LFields [-1]]) = Ok v /\ ~ wf_sv v).
Proof. exact sv_table_reader_refuted. Qed.

(* sparse matrices, every well-formed WHOLE matrix (not a slice: those are F-TABLE-SPSLICE, refuted below), any stored
   entries — explicit zeros and null scalars included: written, read back, well-formed, same dimensions, and at every
   position the same value up to the zeros the format does not carry (hence the same set of non-zero positions) *)
Theorem sparse_matrix_table_roundtrip :
  forall F T nz (fmtT : F -> T) parseT fmtI parseI E (eval : E -> F) enul zero,
  nz zero = false -> (forall z, parseI (fmtI z) = Some z) -> (forall x, parseT (fmtT x) = Some x) ->
  (forall e, enul e = true -> nz (eval e) = false) ->
  forall (m : smat E) p, text_prefix p -> wf_sm m -> whole E m -> sm_rows m * sm_cols m < 2^63 ->
  exists ls m', export_sm F T fmtT fmtI E eval enul m = Ok ls /\
    import_sm F T nz parseT parseI (plain_file p ls) = Ok m' /\ wf_sm m' /\ sm_obs_eq F zero nz E eval m m'.
Proof. exact sm_table_roundtrip. Qed.

Theorem sparse_matrix_table_slice_refuted :
  ZEsm spslice_tab = Ok [LFields [2; 2]; LFields [-1; -1; 1]; LFields [1; 1; 2]] /\
  ZIsm (plain_file [50; 32] [LFields [2; 2]; LFields [-1; -1; 1]; LFields [1; 1; 2]]) = Panic.
Proof. exact sm_table_slice_refuted. Qed.

Theorem sparse_matrix_table_reader_refuted :
  ZIsm (plain_file [49; 32] [LFields [1; 1]; LFields [1; 0; 1]]) = Panic /\
  (exists m, ZIsm (plain_file [45; 49] [LFields [-1; -1]]) = Ok m /\ sm_rows m = -1) /\
  (exists m, ZIsm (plain_file [52; 50] [LFields [2 ^ 32; 2 ^ 32]]) = Ok m /\ sv_n (sm_vals m) = 0 /\ sm_rows m = 2 ^ 32).
Proof. exact sm_table_reader_refuted. Qed.

(* integer cells go through ParseFloat: exact below 2^53, wrong above *)
Theorem int_table_cell_exact_below_2_53 :
  forall bits z, (bits = 64 \/ 0 < bits <= 32) -> Z.abs z < 2 ^ 53 -> - 2 ^ (bits - 1) <= z < 2 ^ (bits - 1) ->
  int_cell_parse bits z = Some z.
Proof. exact int_cell_small. Qed.

Theorem int_table_refuted :
  ZIdv 64 (plain_file [57; 48] (ZEdv [2 ^ 53 + 1])) = Ok [2 ^ 53] /\
  ZIdv 64 (plain_file [57; 50] (ZEdv [2 ^ 63 - 1])) = Ok [- 2 ^ 63] /\
  ZIdv 8 (plain_file [51; 48] [LFields [300]]) = Ok [44].
Proof. exact ProofsTable.int_table_refuted. Qed.

Theorem table_small_files :
  ZIdv 64 (mkTf [] (mkTs [] false) None) = Err /\
  ZIdv 64 (plain_file [10] [LEmpty]) = Ok [] /\
  ZIdv 64 (plain_file [10] (ZEdv [])) = Ok [] /\
  ZIdv 64 (plain_file [53] [LFields [5]]) = Ok [5].
Proof. exact ProofsTable.table_small_files. Qed.

Example table_hypotheses_satisfiable :
  text_prefix [49; 10] /\ text_prefix [10] /\
  Forall (cell_ok Z Z (fun z => z) (int_cell_parse 64) Z (fun z => z)) [1; -5; 2 ^ 53 - 1] /\
  (exists ls, ZEdm view1 = Ok ls /\ ZIdm false (plain_file [50; 32] ls) = Ok (mkDm [2;3;4; 6;7;8] 2 3 0 2 0 3 false)) /\
  (* a whole 2x2 sparse matrix with a stored zero *)
  wf_sm (mkSm (mkSv [(1, 5); (3, 0)] 4) 2 2 0 2 0 2) /\ whole Z (mkSm (mkSv [(1, 5); (3, 0)] 4) 2 2 0 2 0 2).
Proof.
  split. { split; [discriminate|]. intros r H. discriminate. }
  split. { split; [discriminate|]. intros r H. discriminate. }
  split. { repeat constructor. }
  split. { eexists. split; vm_compute; reflexivity. }
  split; [|repeat split].
  unfold wf_sm, wf_sv, sorted, keys; simpl. repeat split; try discriminate; repeat constructor; simpl; discriminate || reflexivity.
Qed.

(* ================================================================== DISTRIBUTION CONFIGURATIONS (round 2)
   A distribution is its STORED parameters (what GetParameters returns) plus its children; F abstract with
   Go's comparisons fle / flt / feq and flog / fexp / ftrunc / norm as parameters.  Hypotheses (named):
   feq on 0/1, flog (fexp x) = x and fexp x >= 0 (true in R; in binary64 up to rounding — the tie compares
   those parameters with a tolerance), the stored mixture weights are a fixed point of the normalisation. *)
Section ConfigProps.
Variable F : Type.
Variables zero one : F.
Variable fle flt feq : F -> F -> bool.
Variables flog fexp ftrunc : F -> F.
Variable norm : list F -> list F.
Notation imp := (import_cfg F zero one fle flt feq flog ftrunc norm).
Notation expo := (export F fexp).
Hypothesis feq_one : feq one one = true.
Hypothesis feq_zero_one : feq zero one = false.
Hypothesis flog_fexp : forall x, flog (fexp x) = x.
Hypothesis fexp_nonneg : forall x, flt (fexp x) zero = false.

(* every registered scalar family without children except the binomial one (15 plain + categorical): whatever
   the importer can build from ANY parameter list is re-imported unchanged from its own export *)
Theorem config_leaf_roundtrip :
  forall f ps st, (plain_fam f = true \/ f = FCategorical) ->
  imp (Cfg f (JArr (map JNum ps)) []) = Ok (Dist f st []) ->
  imp (expo (Dist f st [])) = Ok (Dist f st []).
Proof. intros f ps st Hf H. eapply leaf_roundtrip; eassumption. Qed.

(* nesting: log transform, translation, i.i.d. (n integral) over any round-tripping scalar distribution *)
Theorem config_wrapper_roundtrip :
  forall f c d, (f = FLogT \/ f = FTrans \/ (f = FIid /\ ftrunc c = c)) ->
  scalar_fam (root_fam F d) = true -> imp (expo d) = Ok d ->
  imp (expo (Dist f [c] [d])) = Ok (Dist f [c] [d]).
Proof. intros f c d Hf Hs Hd. eapply wrapper_roundtrip; eassumption. Qed.

(* nesting: mixtures with any number of round-tripping components *)
Theorem config_mixture_roundtrip :
  forall lw ds, norm lw = lw ->
  Forall (fun d => scalar_fam (root_fam F d) = true /\ imp (expo d) = Ok d) ds ->
  imp (expo (Dist FMixture lw ds)) = Ok (Dist FMixture lw ds).
Proof. intros lw ds Hn Hds. eapply mixture_roundtrip; eassumption. Qed.

(* THE ASSEMBLED ROUND TRIP, by induction over the configuration tree: import (export d) = d for every d generated
   by  leaf (the 15 plain families + categorical, any stored parameters the importer can build) | log transform d |
   translation d | mixture of any number of such d (stored log-weights a fixed point of the normalisation), nested to
   any depth, and — at the top, where the vector registry is consulted — iid copies (integral n) of such a d.
   The binomial family is not a leaf of rt_dist (config_binomial_excluded): F-CONFIG-BINOMIAL. *)
Notation rt := (rt_dist F zero one fle flt feq flog ftrunc norm).
Theorem config_roundtrip_every_nesting : forall d, rt d -> imp (expo d) = Ok d.
Proof. intros d H. eapply config_tree_roundtrip; eassumption. Qed.

(* the same, stated on the importer's side: whatever ImportConfig builds from ANY configuration document — any nesting,
   any parameters — is re-imported unchanged from its own export, provided no binomial distribution occurs in it
   (NewMixture's normalisation and float64(int(x)) idempotent) *)
Theorem config_importable_roundtrip :
  (forall l, norm (norm l) = norm l) -> (forall x, ftrunc (ftrunc x) = ftrunc x) ->
  forall c d, imp c = Ok d -> binomial_free F d = true -> imp (expo d) = Ok d.
Proof. intros Hn Ht c d H Hb. eapply importable_roundtrip; eassumption. Qed.

Theorem config_binomial_excluded :
  (forall ps ds, ~ rt (Dist FBinomial ps ds)) /\
  (forall theta n f c, (f = FLogT \/ f = FTrans \/ f = FIid) -> flt (flog theta) zero = true ->
     imp (expo (Dist f [c] [Dist FBinomial [flog theta; n] []])) = Err).
Proof.
  split; [intros ps ds; apply binomial_not_rt|intros theta n f c Hf H; eapply binomial_poisons_wrappers; eassumption].
Qed.

(* the binomial distribution: the export carries log(theta), the import reads it as theta *)
Theorem config_binomial_refuted :
  forall theta n, flt (flog theta) zero = true -> imp (expo (Dist FBinomial [flog theta; n] [])) = Err.
Proof. intros theta n H. eapply binomial_refuted; eassumption. Qed.

Theorem config_malformed_panics_refuted :
  forall x,
  imp (Cfg FNormal (JArr [JNull; JNum x]) []) = Panic /\
  imp (Cfg FNormal (JArr [JNum x]) []) = Panic /\
  imp (Cfg FNormal JNull []) = Panic /\
  imp (Cfg FNormal JOther []) = Err /\
  imp (Cfg FUnknown (JArr [JNum x; JNum x]) []) = Err.
Proof. intros x. eapply config_panics_refuted. Qed.
End ConfigProps.

(* the configuration hypotheses are satisfiable: integers with log = exp = identity *)
Example config_hypotheses_satisfiable :
  let imp := import_cfg Z 0 1 Z.leb Z.ltb Z.eqb (fun z => z) (fun z => z) (fun l => l) in
  let expo := export Z (fun z => Z.abs z) in
  Z.eqb 1 1 = true /\ Z.eqb 0 1 = false /\
  imp (Cfg FNormal (JArr [JNum 3; JNum 2]) []) = Ok (Dist FNormal [3; 2] []) /\
  imp (expo (Dist FMixture [1; 3] [Dist FNormal [3; 2] []; Dist FLogT [1] [Dist FGamma [2; 5] []]]))
    = Ok (Dist FMixture [1; 3] [Dist FNormal [3; 2] []; Dist FLogT [1] [Dist FGamma [2; 5] []]]) /\
  (* a three-level tree inside the theorem: iid over a mixture of a leaf and a transformed leaf *)
  rt_dist Z 0 1 Z.leb Z.ltb Z.eqb (fun z => z) (fun z => z) (fun l => l)
    (Dist FIid [2] [Dist FMixture [1; 3] [Dist FNormal [3; 2] []; Dist FLogT [1] [Dist FGamma [2; 5] []]]]).
Proof.
  split; [reflexivity|]. split; [reflexivity|]. split; [vm_compute; reflexivity|]. split; [vm_compute; reflexivity|].
  apply RtIid; [reflexivity|]. apply RtMix; [reflexivity|].
  constructor.
  - apply RtLeaf; [left; reflexivity|]. exists [3; 2]. reflexivity.
  - constructor; [|constructor]. apply RtWrap; [left; reflexivity|].
    apply RtLeaf; [left; reflexivity|]. exists [2; 5]. reflexivity.
Qed.
