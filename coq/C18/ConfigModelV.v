(* C18 (round 6) — executable model of the VECTOR and MATRIX distribution registries of
   pbenner/autodiff/statistics, on top of ConfigModel.v (scalar registry + "vector:scalar iid").

   Anchors (HEAD of /repo):
     statistics/config.go                         ImportVectorPdfConfig / ImportMatrixPdfConfig (registry lookup, unknown -> error)
     statistics/vectorDistribution/scalarId.go    "vector:scalar id"           NewScalarId / ImportConfig / ExportConfig
     statistics/vectorDistribution/vectorId.go    "vector:vector id"           NewVectorId (n = sum of the Dim()s, Go int) / ...
     statistics/vectorDistribution/vectorIid.go   "vector:vector iid"          NewVectorIid (n < 0 || n % m != 0) / ...
     statistics/vectorDistribution/mixture.go     "vector:mixture distribution" generic.Mixture.ImportConfig + children
     statistics/matrixDistribution/vectorId.go    "matrix:vector id"
     statistics/matrixDistribution/vectorIid.go   "matrix:vector iid"          (the same n % m test as the vector one)
     statistics/matrixDistribution/mixture.go     "matrix:mixture distribution"
   A document node whose name belongs to ConfigModel.fam (the 20 scalar names, "vector:scalar iid", or a name
   in no registry) is imported, with its whole subtree, through the scalar registry only: it is an old [cfg]
   (names of the other registries below it are unknown there: FUnknown).  The other registered names (HMMs,
   normal, skew normal, inverse Wishart, ...) are NOT modelled and never occur in the correspondence.
   Stored state: VectorId.n, VectorIid.n (Go int: Z), mixture log-weights; Dim() and ScalarType() (which
   indexes Distributions[0]: panics on an empty id distribution) are what the constructors consult.
   f2z = int(x) on float64, z2f = float64(n).  No proofs in this file. *)
From Coq Require Import ZArith List Bool.
From ADV Require Import C18.Model C18.ConfigModel.
Import ListNotations.
Open Scope Z_scope.

Inductive nname : Type :=
| NVScalarId | NVVectorId | NVVectorIid | NVMixture      (* vector registry *)
| NMVectorId | NMVectorIid | NMMixture.                  (* matrix registry *)

Definition nname_eqb (a b : nname) : bool :=
  match a, b with
  | NVScalarId, NVScalarId | NVVectorId, NVVectorId | NVVectorIid, NVVectorIid | NVMixture, NVMixture
  | NMVectorId, NMVectorId | NMVectorIid, NMVectorIid | NMMixture, NMMixture => true
  | _, _ => false
  end.

Section MapRs.
Context {A B : Type}.
Variable f : A -> res B.
(* a Go loop that returns at the first error / panic *)
Fixpoint mapRs (l : list A) : res (list B) :=
  match l with
  | [] => Ok []
  | x :: r => y <- f x ;; ys <- mapRs r ;; Ok (y :: ys)
  end.
End MapRs.

Section ConfigV.
Variable F : Type.
Variables zero one : F.
Variable fle flt feq : F -> F -> bool.
Variables flog fexp ftrunc : F -> F.
Variable norm : list F -> list F.
Variable f2z : F -> Z.
Variable z2f : Z -> F.

Notation imp_old := (import_cfg F zero one fle flt feq flog ftrunc norm).

Inductive cfg2 : Type :=
| COld (c : cfg F)
| CNew (n : nname) (p : jv F) (ds : list cfg2).

Inductive vdist : Type :=
| VOld (d : dist F)                       (* ScalarIid: Dist FIid [float64(n)] [d] of ConfigModel *)
| VSId (ds : list (dist F))               (* ScalarId{Distributions} *)
| VVId (n : Z) (ds : list vdist)          (* VectorId{Distributions, n} *)
| VVIid (n : Z) (d : vdist)               (* VectorIid{Distribution, n} *)
| VMix (lw : list F) (ds : list vdist).   (* Mixture{LogWeights, Edist} *)

Inductive mdist : Type :=
| MVId (ds : list vdist)
| MVIid (n : Z) (d : vdist)
| MMix (lw : list F) (ds : list mdist).

(* VectorPdf.Dim() *)
Fixpoint vdim (d : vdist) : Z :=
  match d with
  | VOld (Dist _ ps _) => f2z (nth 0 ps zero)
  | VSId ds => Z.of_nat (length ds)
  | VVId n _ => n
  | VVIid n _ => n
  | VMix _ ds => match ds with [] => 0 | d0 :: _ => vdim d0 end
  end.

(* VectorPdf.ScalarType() returns (true) or panics with an index out of range (false) *)
Fixpoint v_stype_ok (d : vdist) : bool :=
  match d with
  | VOld _ => true
  | VSId ds => match ds with [] => false | _ => true end
  | VVId _ ds => match ds with [] => false | d0 :: _ => v_stype_ok d0 end
  | VVIid _ d0 => v_stype_ok d0
  | VMix _ _ => true
  end.

(* n += distributions[i].Dim() on Go ints *)
Definition sum_dims (ds : list vdist) : Z := fold_left (fun n d => wrap64 (n + vdim d)) ds 0.

(* NewVectorId (vectorDistribution): empty -> &VectorId{}; else t := NewScalar(distributions[0].ScalarType(), 0.0) *)
Definition new_vid (ds : list vdist) : res vdist :=
  match ds with
  | [] => Ok (VVId 0 [])
  | d0 :: _ => if v_stype_ok d0 then Ok (VVId (sum_dims ds) ds) else Panic
  end.

(* NewVectorIid (both packages): m := distribution.Dim(); t := NewScalar(distribution.ScalarType(), 0.0);
   if n < 0 || n % m != 0 { error }  — n % 0 is a run-time panic *)
Definition iid_guard (d : vdist) (n : Z) : res unit :=
  if negb (v_stype_ok d) then Panic
  else if n <? 0 then Err
  else if vdim d =? 0 then Panic
  else if negb (Z.rem n (vdim d) =? 0) then Err
  else Ok tt.
Definition new_viid (d : vdist) (n : Z) : res vdist := _ <- iid_guard d n ;; Ok (VVIid n d).
Definition new_miid (d : vdist) (n : Z) : res mdist := _ <- iid_guard d n ;; Ok (MVIid n d).

(* NewVectorId (matrixDistribution) *)
Definition new_mid (ds : list vdist) : res mdist :=
  match ds with
  | [] => Ok (MVId [])
  | d0 :: _ => if v_stype_ok d0 then Ok (MVId ds) else Panic
  end.

(* ImportScalarPdfConfig on a child *)
Definition import_scalar (c : cfg2) : res (dist F) :=
  match c with
  | COld (Cfg f p ds) => if scalar_fam f then imp_old (Cfg f p ds) else Err
  | CNew _ _ _ => Err
  end.

(* ImportVectorPdfConfig *)
Fixpoint import_vec (c : cfg2) : res vdist :=
  match c with
  | COld (Cfg f p ds) =>
      match f with
      | FIid => d <- imp_old (Cfg f p ds) ;; Ok (VOld d)
      | _ => Err
      end
  | CNew NVScalarId p ds => ds' <- mapRs import_scalar ds ;; Ok (VSId ds')
  | CNew NVVectorId p ds => ds' <- mapRs import_vec ds ;; new_vid ds'
  | CNew NVVectorIid p ds =>
      ps <- get_floats F p ;;
      if negb (length ps =? 1)%nat then Err else
      match ds with
      | [c'] => d <- import_vec c' ;; new_viid d (f2z (nth 0 ps zero))
      | _ => Err
      end
  | CNew NVMixture p ds =>
      ws <- get_floats F p ;;
      if existsb (fun x => flt x zero) ws then Err else
      ds' <- mapRs import_vec ds ;; Ok (VMix (norm (map flog ws)) ds')
  | CNew _ _ _ => Err
  end.

(* ImportMatrixPdfConfig *)
Fixpoint import_mat (c : cfg2) : res mdist :=
  match c with
  | COld _ => Err
  | CNew NMVectorId p ds => ds' <- mapRs import_vec ds ;; new_mid ds'
  | CNew NMVectorIid p ds =>
      ps <- get_floats F p ;;
      if negb (length ps =? 1)%nat then Err else
      match ds with
      | [c'] => d <- import_vec c' ;; new_miid d (f2z (nth 0 ps zero))
      | _ => Err
      end
  | CNew NMMixture p ds =>
      ws <- get_floats F p ;;
      if existsb (fun x => flt x zero) ws then Err else
      ds' <- mapRs import_mat ds ;; Ok (MMix (norm (map flog ws)) ds')
  | CNew _ _ _ => Err
  end.

(* ExportConfig *)
Definition export_s (d : dist F) : cfg2 := COld (export F fexp d).
Fixpoint export_vec (d : vdist) : cfg2 :=
  match d with
  | VOld d0 => export_s d0
  | VSId ds => CNew NVScalarId JNull (map export_s ds)
  | VVId _ ds => CNew NVVectorId JNull (map export_vec ds)
  | VVIid n d0 => CNew NVVectorIid (JArr [JNum (z2f n)]) [export_vec d0]
  | VMix lw ds => CNew NVMixture (JArr (map JNum (map fexp lw))) (map export_vec ds)
  end.
Fixpoint export_mat (d : mdist) : cfg2 :=
  match d with
  | MVId ds => CNew NMVectorId JNull (map export_vec ds)
  | MVIid n d0 => CNew NMVectorIid (JArr [JNum (z2f n)]) [export_vec d0]
  | MMix lw ds => CNew NMMixture (JArr (map JNum (map fexp lw))) (map export_mat ds)
  end.

(* what the constructors of the mixtures insist on and the importers do not re-check
   (NewMixture: NComponents() == len(edist), all components of one dimension) *)
Definition vmix_consistent (lw : list F) (ds : list vdist) : bool :=
  (length lw =? length ds)%nat &&
  match ds with [] => true | d0 :: r => forallb (fun d => vdim d =? vdim d0) r end.

End ConfigV.
Arguments COld {F} c. Arguments CNew {F} n p ds.
Arguments VOld {F} d. Arguments VSId {F} ds. Arguments VVId {F} n ds. Arguments VVIid {F} n d. Arguments VMix {F} lw ds.
Arguments MVId {F} ds. Arguments MVIid {F} n d. Arguments MMix {F} lw ds.
