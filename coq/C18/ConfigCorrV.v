(* C18 (round 6) correspondence for the vector / matrix distribution registries: ConfigModelV at binary64.
   As in ConfigCorr.v the parameters that pass through log / exp / the normalisation (mixture weights, and inside
   the scalar subtrees the categorical / binomial ones) are compared by COUNT; everything else — names, nesting,
   VectorId.n / VectorIid.n, every scalar parameter, every outcome kind (Ok / Err / Panic) — exactly. *)
From Coq Require Import ZArith List Bool Floats.
From ADV Require Import Base.Corr C18.Model C18.Corr C18.TableModel C18.TableCorr C18.ConfigModel C18.ConfigCorr C18.ConfigModelV.
Import ListNotations.
Open Scope Z_scope.

(* int(x) on amd64 (CVTTSD2SQ): out of range / NaN -> MinInt64 *)
Definition c_f2z (x : float) : Z :=
  let z := f_trunc x in if (z <? - 2 ^ 63) || (z >=? 2 ^ 63) then - 2 ^ 63 else z.

Definition CV_import_vec := import_vec float 0%float 1%float PrimFloat.leb PrimFloat.ltb PrimFloat.eqb idf c_trunc idl c_f2z.
Definition CV_import_mat := import_mat float 0%float 1%float PrimFloat.leb PrimFloat.ltb PrimFloat.eqb idf c_trunc idl c_f2z.
Definition CV_export_vec := export_vec float idf z2f.
Definition CV_export_mat := export_mat float idf z2f.

Section Lists.
Context {A : Type}.
Variable eqb : A -> A -> bool.
Fixpoint all2 (l l' : list A) : bool :=
  match l, l' with
  | [], [] => true
  | x :: r, y :: r' => eqb x y && all2 r r'
  | _, _ => false
  end.
End Lists.

Fixpoint vdist_match (a b : vdist float) : bool :=
  match a, b with
  | VOld d, VOld d' => dist_match d d'
  | VSId ds, VSId ds' => all2 dist_match ds ds'
  | VVId n ds, VVId n' ds' => (n =? n') && all2 vdist_match ds ds'
  | VVIid n d, VVIid n' d' => (n =? n') && vdist_match d d'
  | VMix lw ds, VMix lw' ds' => len_eqb lw lw' && all2 vdist_match ds ds'
  | _, _ => false
  end.
Fixpoint mdist_match (a b : mdist float) : bool :=
  match a, b with
  | MVId ds, MVId ds' => all2 vdist_match ds ds'
  | MVIid n d, MVIid n' d' => (n =? n') && vdist_match d d'
  | MMix lw ds, MMix lw' ds' => len_eqb lw lw' && all2 mdist_match ds ds'
  | _, _ => false
  end.

Fixpoint cfg2_match (a b : cfg2 float) : bool :=
  match a, b with
  | COld c, COld c' => cfg_match c c'
  | CNew n p ds, CNew n' p' ds' =>
      nname_eqb n n' &&
      (match n with NVMixture | NMMixture => jv_len_eqb p p' | _ => jv_eqb p p' end) &&
      all2 cfg2_match ds ds'
  | _, _ => false
  end.

Inductive vcase : Type :=
(* the object as observed by reflection, the document Go produced (ExportConfig -> JSON -> Unmarshal), and what
   ImportVectorPdfConfig / ImportMatrixPdfConfig made of it *)
| VRt (d : vdist float) (doc : cfg2 float) (gr : res (vdist float))
| MRt (d : mdist float) (doc : cfg2 float) (gr : res (mdist float))
(* a (malformed) document (Err: rejected by encoding/json) and Go's import outcome *)
| VMal (doc : res (cfg2 float)) (gr : res (vdist float))
| MMal (doc : res (cfg2 float)) (gr : res (mdist float)).

Definition vcheck (c : vcase) : bool :=
  match c with
  | VRt d doc gr => cfg2_match (CV_export_vec d) doc && res_eqb vdist_match (CV_import_vec doc) gr
  | MRt d doc gr => cfg2_match (CV_export_mat d) doc && res_eqb mdist_match (CV_import_mat doc) gr
  | VMal doc gr => res_eqb vdist_match (bind doc CV_import_vec) gr
  | MMal doc gr => res_eqb mdist_match (bind doc CV_import_mat) gr
  end.
Definition vmism (cs : list vcase) : list nat := mismatches vcheck cs.
