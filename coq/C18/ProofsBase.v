(* C18 — generic lemmas: option/result traversals, positional access, association lists. *)
From Coq Require Import ZArith List Bool Lia Sorted.
From ADV Require Import C18.Model C18.Spec.
Import ListNotations.
Open Scope Z_scope.

(* ---------------------------------------------------------------- mapM / mapR *)
Lemma mapM_roundtrip {A B} (f : A -> option B) (g : B -> option A) :
  (forall x t, f x = Some t -> g t = Some x) ->
  forall l ts, mapM f l = Some ts -> mapM g ts = Some l.
Proof.
  intros Hfg l; induction l as [|x l IH]; simpl; intros ts H.
  - inversion H; reflexivity.
  - destruct (f x) eqn:Ef; [|discriminate].
    destruct (mapM f l) eqn:El; [|discriminate].
    inversion H; subst; simpl. rewrite (Hfg _ _ Ef), (IH _ eq_refl). reflexivity.
Qed.

Lemma mapM_length {A B} (f : A -> option B) : forall l ts, mapM f l = Some ts -> length ts = length l.
Proof.
  induction l as [|x l IH]; simpl; intros ts H.
  - inversion H; reflexivity.
  - destruct (f x); [|discriminate]. destruct (mapM f l) eqn:El; [|discriminate].
    inversion H; subst; simpl. f_equal; apply IH; reflexivity.
Qed.

Lemma mapM_rows_roundtrip {A B} (f : A -> option B) (g : B -> option A) :
  (forall x t, f x = Some t -> g t = Some x) ->
  forall l ts, mapM (mapM f) l = Some ts -> mapM (mapM g) ts = Some l.
Proof. intros H. apply mapM_roundtrip. intros x t. apply mapM_roundtrip, H. Qed.

Lemma mapM_total {A B} (f : A -> option B) :
  forall l, Forall (fun x => f x <> None) l -> exists ts, mapM f l = Some ts.
Proof.
  induction l as [|x l IH]; intros H; simpl.
  - eexists; reflexivity.
  - inversion H; subst. destruct (f x) eqn:Ef; [|congruence].
    destruct (IH H3) as [ts ->]. eexists; reflexivity.
Qed.

Lemma of_opt_ok {A} (o : option A) a : of_opt o = Ok a <-> o = Some a.
Proof. destruct o; simpl; split; intros H; inversion H; reflexivity. Qed.

Lemma bind_ok {A B} (r : res A) (f : A -> res B) b :
  bind r f = Ok b -> exists a, r = Ok a /\ f a = Ok b.
Proof. destruct r; simpl; intros H; try discriminate. eauto. Qed.

Lemma mapR_Forall2 {A B} (f : A -> res B) :
  forall l ys, mapR f l = Ok ys <-> Forall2 (fun x y => f x = Ok y) l ys.
Proof.
  induction l as [|x l IH]; simpl; intros ys.
  - split; intros H. inversion H; constructor. inversion H; reflexivity.
  - split; intros H.
    + apply bind_ok in H as (y & Hy & H). apply bind_ok in H as (ys' & Hys & H).
      inversion H; subst. constructor; [assumption|apply IH; assumption].
    + inversion H; subst. rewrite H2. simpl. apply IH in H4. rewrite H4. reflexivity.
Qed.

Lemma Forall2_length' {A B} (R : A -> B -> Prop) l l' : Forall2 R l l' -> length l = length l'.
Proof. induction 1; simpl; congruence. Qed.

Lemma Forall2_nth_error {A B} (R : A -> B -> Prop) l l' :
  Forall2 R l l' -> forall n x, nth_error l n = Some x -> exists y, nth_error l' n = Some y /\ R x y.
Proof.
  induction 1; intros n a Hn.
  - destruct n; discriminate.
  - destruct n; simpl in *.
    + inversion Hn; subst. eauto.
    + eauto.
Qed.

Lemma wrap64_small z : 0 <= z < 2^63 -> wrap64 z = z.
Proof. intros H. unfold wrap64. rewrite Z.mod_small; lia. Qed.
Lemma wrap64_range z : - 2^63 <= wrap64 z < 2^63.
Proof. unfold wrap64. pose proof (Z.mod_pos_bound (z + 2^63) (2^64) ltac:(lia)). lia. Qed.

(* Rows*Cols/Cols == Rows on 64-bit ints is a complete overflow test for non-negative dimensions *)
Lemma dims_ok rows cols :
  dims_bad rows cols = false -> 0 <= rows /\ 0 <= cols /\ wrap64 (rows * cols) = rows * cols.
Proof.
  unfold dims_bad. intros H. apply orb_false_elim in H as [H Hq]. apply orb_false_elim in H as [Hr Hc].
  split; [lia|]. split; [lia|].
  destruct (cols =? 0) eqn:E0.
  - apply Z.eqb_eq in E0. subst. rewrite Z.mul_0_r. reflexivity.
  - simpl in Hq. apply negb_false_iff in Hq. apply Z.eqb_eq in Hq. apply Z.eqb_neq in E0.
    assert (0 < cols) as Hcp by lia.
    pose proof (wrap64_range (rows * cols)) as Hw.
    destruct (Z.eq_dec rows 0) as [->|Hr0]; [reflexivity|].
    assert (0 < rows) as Hrp by lia.
    set (p := wrap64 (rows * cols)) in *.
    assert (0 <= p) as Hp.
    { destruct (Z_lt_le_dec p 0) as [Hneg|]; [|assumption]. exfalso.
      assert (Z.quot p cols <= 0) by (apply Z.quot_le_upper_bound; lia || (rewrite Z.mul_0_r; lia)). lia. }
    pose proof (Z.quot_rem' p cols) as Hqr. pose proof (Z.rem_bound_pos p cols Hp Hcp) as Hrb.
    rewrite Hq in Hqr. apply wrap64_small. split; [nia|]. nia.
Qed.

Lemma dims_good rows cols : 0 <= rows -> 0 <= cols -> rows * cols < 2^63 -> dims_bad rows cols = false.
Proof.
  intros Hr Hc Hb. unfold dims_bad. replace (rows <? 0) with false by lia. replace (cols <? 0) with false by lia. simpl.
  destruct (cols =? 0) eqn:E0; [reflexivity|]. apply Z.eqb_neq in E0. simpl.
  rewrite wrap64_small by nia. rewrite Z.quot_mul by assumption. rewrite Z.eqb_refl. reflexivity.
Qed.

Lemma dims_overflow_test_exact rows cols : 0 <= rows -> 0 <= cols ->
  (dims_bad rows cols = false <-> wrap64 (rows * cols) = rows * cols).
Proof.
  intros Hr Hc. split.
  - intros H. apply dims_ok in H. tauto.
  - intros H. apply dims_good; try assumption. pose proof (wrap64_range (rows * cols)). lia.
Qed.

(* ---------------------------------------------------------------- znth / zrange *)
Lemma zlen_nonneg {A} (l : list A) : 0 <= zlen l.
Proof. unfold zlen; lia. Qed.

Lemma znth_some {A} (l : list A) k : 0 <= k < zlen l -> exists x, znth l k = Some x.
Proof.
  unfold znth, zlen. intros H. destruct (k <? 0) eqn:E; [lia|].
  destruct (nth_error l (Z.to_nat k)) eqn:En; [eauto|].
  apply nth_error_None in En. lia.
Qed.

Lemma znth_range {A} (l : list A) k x : znth l k = Some x -> 0 <= k < zlen l.
Proof.
  unfold znth, zlen. destruct (k <? 0) eqn:E; [discriminate|]. intros H.
  assert (Z.to_nat k < length l)%nat by (apply nth_error_Some; congruence). lia.
Qed.

Lemma znth_In {A} (l : list A) k x : znth l k = Some x -> In x l.
Proof. unfold znth. destruct (k <? 0); [discriminate|]. apply nth_error_In. Qed.

Lemma Forall2_znth {A B} (R : A -> B -> Prop) l l' k x :
  Forall2 R l l' -> znth l k = Some x -> exists y, znth l' k = Some y /\ R x y.
Proof.
  unfold znth. destruct (k <? 0); [discriminate|]. intros H. eapply Forall2_nth_error; eassumption.
Qed.

Lemma zrange_length n : zlen (zrange n) = Z.max 0 n.
Proof. unfold zlen, zrange. rewrite map_length, seq_length. lia. Qed.

Lemma znth_zrange n k : 0 <= k < n -> znth (zrange n) k = Some k.
Proof.
  intros H. unfold znth, zrange. destruct (k <? 0) eqn:E; [lia|].
  rewrite nth_error_map. rewrite nth_error_nth' with (d := 0%nat) by (rewrite seq_length; lia).
  rewrite seq_nth by lia. simpl. f_equal. lia.
Qed.

(* mapR over 0..n-1: positional characterisation *)
Lemma mapR_zrange {B} (f : Z -> res B) n l :
  0 <= n -> mapR f (zrange n) = Ok l ->
  zlen l = n /\ forall k, 0 <= k < n -> exists y, f k = Ok y /\ znth l k = Some y.
Proof.
  intros Hn H. apply mapR_Forall2 in H. split.
  - apply Forall2_length' in H. pose proof (zrange_length n). unfold zlen in *. lia.
  - intros k Hk. destruct (Forall2_znth _ _ _ k k H (znth_zrange n k Hk)) as (y & Hy & Hf). eauto.
Qed.

Lemma mapR_zrange_total {B} (f : Z -> res B) n :
  (forall k, 0 <= k < n -> exists y, f k = Ok y) -> exists l, mapR f (zrange n) = Ok l.
Proof.
  intros H. unfold zrange.
  assert (G : forall m s, (forall k, (s <= k < s + m)%nat -> exists y, f (Z.of_nat k) = Ok y) ->
              exists l, mapR f (map Z.of_nat (seq s m)) = Ok l).
  { induction m as [|m IH]; intros s Hs; simpl.
    - eexists; reflexivity.
    - destruct (Hs s ltac:(lia)) as [y Hy]. rewrite Hy. simpl.
      destruct (IH (S s)) as [l Hl]. { intros k Hk. apply Hs. lia. }
      rewrite Hl. simpl. eexists; reflexivity. }
  apply G. intros k Hk. apply H. lia.
Qed.

(* ---------------------------------------------------------------- association lists *)
Section Assoc.
Context {X : Type}.
Implicit Types l : list (Z * X).

Lemma lookup_aset k k' (x : X) l : lookup k (aset k' x l) = if k =? k' then Some x else lookup k l.
Proof.
  induction l as [|[k0 x0] l IH]; simpl.
  - reflexivity.
  - destruct (k' <? k0) eqn:E1; simpl.
    + reflexivity.
    + destruct (k' =? k0) eqn:E2; simpl.
      * apply Z.eqb_eq in E2; subst. destruct (k =? k0); reflexivity.
      * rewrite IH. destruct (k =? k0) eqn:E3; [|reflexivity].
        apply Z.eqb_eq in E3; subst. apply Z.eqb_neq in E2.
        destruct (k0 =? k') eqn:E4; [apply Z.eqb_eq in E4; congruence|reflexivity].
Qed.

Lemma keys_aset_In k (x : X) l q : In q (keys (aset k x l)) -> q = k \/ In q (keys l).
Proof.
  unfold keys. induction l as [|[k0 x0] l IH]; simpl.
  - intuition.
  - destruct (k <? k0); simpl; [intuition|].
    destruct (k =? k0) eqn:E; simpl; [intuition|]. intuition.
Qed.

Lemma sorted_cons_inv k (x : X) l :
  sorted ((k, x) :: l) -> sorted l /\ Forall (fun q => k < q) (keys l).
Proof. unfold sorted, keys; simpl. intros H. inversion H; subst. split; assumption. Qed.

Lemma sorted_aset k (x : X) l : sorted l -> sorted (aset k x l).
Proof.
  unfold sorted. induction l as [|[k0 x0] l IH]; simpl; intros H.
  - unfold keys; simpl. repeat constructor.
  - destruct (k <? k0) eqn:E1.
    + apply Z.ltb_lt in E1. unfold keys in *; simpl in *. constructor; [assumption|].
      inversion H; subst. constructor; [assumption|].
      eapply Forall_impl; [|eassumption]. simpl. intros; lia.
    + destruct (k =? k0) eqn:E2.
      * apply Z.eqb_eq in E2; subst. unfold keys in *; simpl in *. assumption.
      * apply Z.ltb_ge in E1. apply Z.eqb_neq in E2.
        unfold keys in *; simpl in *. inversion H; subst.
        constructor; [apply IH; assumption|].
        apply Forall_forall. intros q Hq.
        apply (keys_aset_In k x l q) in Hq. destruct Hq as [->|Hq]; [lia|].
        eapply Forall_forall in H3; eassumption.
Qed.

Lemma lookup_In_keys k l (x : X) : lookup k l = Some x -> In k (keys l).
Proof.
  unfold keys. induction l as [|[k0 x0] l IH]; simpl; [discriminate|].
  destruct (k =? k0) eqn:E; [apply Z.eqb_eq in E; auto|auto].
Qed.

Lemma lookup_not_In k l : ~ In k (keys l) -> lookup k l = None.
Proof.
  intros H. destruct (lookup k l) eqn:E; [|reflexivity].
  exfalso. apply H. eapply lookup_In_keys; eassumption.
Qed.

Lemma sorted_head_absent k (x : X) l : sorted ((k, x) :: l) -> lookup k l = None.
Proof.
  intros H. apply sorted_cons_inv in H as [_ H]. apply lookup_not_In. intros Hin.
  eapply Forall_forall in H; [|eassumption]. lia.
Qed.

Lemma sorted_NoDup l : sorted l -> NoDup (keys l).
Proof.
  unfold sorted. induction l as [|[k x] l IH]; unfold keys; simpl; intros H.
  - constructor.
  - inversion H; subst. constructor; [|apply IH; assumption].
    intros Hin. eapply Forall_forall in H3; [|eassumption]. lia.
Qed.

Lemma sorted_filter (p : Z * X -> bool) l : sorted l -> sorted (filter p l).
Proof.
  unfold sorted. induction l as [|[k x] l IH]; simpl; intros H; [assumption|].
  unfold keys in *; simpl in *. inversion H; subst.
  destruct (p (k, x)); simpl; [|apply IH; assumption].
  constructor; [apply IH; assumption|].
  apply Forall_forall. intros q Hq. apply in_map_iff in Hq as ([q' y] & <- & Hq).
  apply filter_In in Hq as [Hq _]. eapply Forall_forall in H3; [eassumption|].
  apply in_map_iff. exists (q', y); auto.
Qed.

Lemma lookup_filter (p : Z * X -> bool) l k :
  sorted l ->
  lookup k (filter p l) = match lookup k l with
                          | Some x => if p (k, x) then Some x else None
                          | None => None
                          end.
Proof.
  induction l as [|[k0 x0] l IH]; simpl; intros H; [reflexivity|].
  pose proof (sorted_head_absent _ _ _ H) as Habs.
  apply sorted_cons_inv in H as [Hs _].
  destruct (k =? k0) eqn:E.
  - apply Z.eqb_eq in E; subst. destruct (p (k0, x0)) eqn:Ep; simpl.
    + rewrite Z.eqb_refl. reflexivity.
    + rewrite IH by assumption. rewrite Habs. reflexivity.
  - destruct (p (k0, x0)); simpl; [rewrite E|]; apply IH; assumption.
Qed.

Lemma Forall_filter' {A} (P : A -> Prop) (p : A -> bool) (l : list A) : Forall P l -> Forall P (filter p l).
Proof.
  intros H. apply Forall_forall. intros x Hx. apply filter_In in Hx as [Hx _].
  eapply Forall_forall in H; eassumption.
Qed.
End Assoc.
