(* C18 correspondence, round 5: decoding into RECYCLED receivers.  The Go harness builds a receiver with state
   (a transposed / sliced dense matrix, a matrix of other dimensions, a sparse container with entries, a Real
   with derivative storage, ...), observes it, decodes a document / a table file into it, observes it again, writes
   the result a second time and decodes that into another recycled receiver.  Every step is compared with the
   model RecvModel.v (old state, document) -> new state, and with the writers of Model.v. *)
From Coq Require Import ZArith List Bool Floats String.
From ADV Require Import Base.Corr C18.Model C18.Corr C18.TableModel C18.TableCorr C18.RecvModel.
Import ListNotations.
Open Scope Z_scope.

(* ---------------------------------------------------------------- instances *)
Definition zero_real : real el := mkReal (EF 0%float) 0 0 [] [].
Definition RI_real := read_real_into el el (EF 0%float) el_parseJ.
Definition RI_dv_plain := read_dv_into el el R_plain.
Definition RI_dv_real := read_dv_into (real el) (sdoc el) R_real.
Definition RI_dm_plain := read_dm_into el el R_plain.
Definition RI_dm_real := read_dm_into (real el) (sdoc el) R_real.
Definition RI_sv := read_sv_into el el el_nz el_parseJ.
Definition RI_sm := read_sm_into el el el_nz el_parseJ.

Definition RI_tdv (k : kind) := import_dv_into el tok (tparse k).
Definition RI_tdm (k : kind) (real : bool) := import_dm_into el tok (tparse k) real.
Definition RI_tsv (k : kind) := import_sv_into el tok el_nz (tparse k) tk_i.
Definition RI_tsm (k : kind) := import_sm_into el tok el_nz (tparse k) tk_i.

(* what was read holds plain values: as a writer input no element has derivative information *)
Definition lift_sv (v : svec el) : svec sel := mkSv (map (fun kv => (fst kv, (snd kv, false))) (sv_ents v)) (sv_n v).
Definition lift_sm (m : smat el) : smat sel :=
  mkSm (lift_sv (sm_vals m)) (sm_rows m) (sm_cols m) (sm_roff m) (sm_rmax m) (sm_coff m) (sm_cmax m).

Definition tmps_eqb (a b : tmps) : bool :=
  option_eqb Z.eqb (fst a) (fst b) && option_eqb Z.eqb (snd a) (snd b).

Definition str_eqb (a b : string) : bool := if string_dec a b then true else false.

(* ---------------------------------------------------------------- cases *)
Inductive rcase : Type :=
(* JSON: receiver before, document (Err: the decoding layer rejects the bytes), receiver after / outcome;
   then the second generation: what Go's writer makes of the receiver after, decoded into a second receiver *)
| RvReal (old : real el) (d : res (sdoc el)) (gr : res (real el))
         (gw2 : res (sdoc el)) (old2 : real el) (gr2 : res (real el))
| RvDvP (old : list el) (d : res (list el)) (gr : res (list el))
        (gw2 : res (list el)) (old2 : list el) (gr2 : res (list el))
| RvDvR (old : list (real el)) (d : res (list (sdoc el))) (gr : res (list (real el)))
        (gw2 : res (list (sdoc el))) (old2 : list (real el)) (gr2 : res (list (real el)))
| RvSv (old : svec el) (d : res (svdoc el)) (gr : res (svec el)) (keys : list Z)
       (gw2 : res (svdoc el)) (old2 : svec el) (gr2 : res (svec el))
| RvDmP (z : el) (old : dmat el) (d : res (dmdoc el)) (gr : res (dmat el))
        (gw2 : res (dmdoc el)) (old2 : dmat el) (gr2 : res (dmat el))
| RvDmR (z : el) (old : dmat (real el)) (ot : tmps) (d : res (dmdoc (sdoc el))) (gr : res (dmat (real el))) (gt : tmps)
        (gw2 : res (dmdoc (sdoc el))) (old2 : dmat (real el)) (gr2 : res (dmat (real el)))
| RvSm (old : smat el) (ot : tmps) (d : res (smdoc el)) (gr : res (smat el)) (gt : tmps) (keys : list Z)
       (gw2 : res (smdoc el)) (old2 : smat el) (gr2 : res (smat el))
(* table files *)
| RvTDv (k : kind) (old : list el) (f : tfile tok) (gr : res (list el))
| RvTDm (k : kind) (real : bool) (old : dmat el) (ot : tmps) (f : tfile tok) (gr : res (dmat el)) (gt : tmps)
| RvTSv (k : kind) (old : svec el) (f : tfile tok) (gr : res (svec el)) (keys : list Z)
| RvTSm (k : kind) (old : smat el) (ot : tmps) (f : tfile tok) (gr : res (smat el)) (gt : tmps) (keys : list Z)
(* the declaration of a container struct in /repo (go/ast): field names in order *)
| RvFields (k : ckind) (names : list string).

Definition rv2 {Dc R} (ri : R -> Dc -> res R) (w : R -> res Dc) (de : Dc -> Dc -> bool) (re : R -> R -> bool)
           (old : R) (d : res Dc) (gr : res R) (gw2 : res Dc) (old2 : R) (gr2 : res R) : bool :=
  res_eqb re (bind d (ri old)) gr &&
  match gr with
  | Ok m => res_eqb de (w m) gw2 &&
            match gw2 with Ok d2 => res_eqb re (ri old2 d2) gr2 | _ => true end
  | _ => true
  end.

Definition when_ok {R} (gr : res R) (f : R -> bool) : bool := match gr with Ok m => f m | _ => true end.

Definition rcheck (c : rcase) : bool :=
  match c with
  | RvReal old d gr gw2 old2 gr2 => rv2 RI_real W_real sdoc_eqb real_eqb old d gr gw2 old2 gr2
  | RvDvP old d gr gw2 old2 gr2 => rv2 RI_dv_plain W_dv_plain ell_eqb ell_eqb old d gr gw2 old2 gr2
  | RvDvR old d gr gw2 old2 gr2 =>
      rv2 RI_dv_real W_dv_real (list_eqb sdoc_eqb) (list_eqb real_eqb) old d gr gw2 old2 gr2
  | RvSv old d gr keys gw2 old2 gr2 =>
      rv2 RI_sv (fun v => W_sv (lift_sv v)) svdoc_eqb (svec_eqb el_eqb) old d gr gw2 old2 gr2 &&
      when_ok gr (fun v => zl_eqb (map fst (sv_ents v)) keys)
  | RvDmP z old d gr gw2 old2 gr2 =>
      rv2 RI_dm_plain (W_dm_plain z) (dmdoc_eqb el_eqb) (dmat_eqb el_eqb) old d gr gw2 old2 gr2
  | RvDmR z old ot d gr gt gw2 old2 gr2 =>
      rv2 RI_dm_real (W_dm_real z) (dmdoc_eqb sdoc_eqb) (dmat_eqb real_eqb) old d gr gw2 old2 gr2 &&
      when_ok gr (fun _ => match d with Ok dd => tmps_eqb (read_dm_tmps _ ot dd) gt | _ => false end)
  | RvSm old ot d gr gt keys gw2 old2 gr2 =>
      rv2 RI_sm (fun m => W_sm (lift_sm m)) smdoc_eqb (smat_eqb el_eqb) old d gr gw2 old2 gr2 &&
      when_ok gr (fun m => zl_eqb (map fst (sv_ents (sm_vals m))) keys &&
                           match d with Ok dd => tmps_eqb (read_sm_tmps _ ot dd) gt | _ => false end)
  | RvTDv k old f gr => res_eqb ell_eqb (RI_tdv k old f) gr
  | RvTDm k real old ot f gr gt =>
      res_eqb (dmat_eqb el_eqb) (RI_tdm k real old f) gr &&
      (negb real || when_ok gr (fun m => tmps_eqb (import_dm_tmps el ot m) gt))
  | RvTSv k old f gr keys =>
      res_eqb (svec_eqb el_eqb) (RI_tsv k old f) gr && when_ok gr (fun v => zl_eqb (map fst (sv_ents v)) keys)
  | RvTSm k old ot f gr gt keys =>
      res_eqb (smat_eqb el_eqb) (RI_tsm k old f) gr &&
      when_ok gr (fun m => zl_eqb (map fst (sv_ents (sm_vals m))) keys && tmps_eqb (import_sm_tmps el ot m) gt)
  | RvFields k names => list_eqb str_eqb (struct_fields k) names
  end.

Definition rmism (cs : list rcase) : list nat := mismatches rcheck cs.
