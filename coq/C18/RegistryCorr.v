(* C18 (round 6) — the registry obligation: tables regenerated from the library's sources (go/ast), read from the
   running program (reflection) and kept by the harness, against the rows of RegistryModel.v. *)
From Coq Require Import String List Bool.
From ADV Require Import Base.Corr C18.ConfigModel C18.ConfigModelV C18.RegistryModel.
Import ListNotations.
Open Scope string_scope.

Definition t3 : Type := (level * string * string)%type.
Definition t3_eqb (a b : t3) : bool :=
  match a, b with (l, x, y), (l', x', y') => level_eqb l l' && String.eqb x x' && String.eqb y y' end.
Definition mem3 (x : t3) (l : list t3) : bool := existsb (t3_eqb x) l.

Definition levels_eqb (a b : list level) : bool :=
  (fix go (a b : list level) : bool :=
     match a, b with [] , [] => true | x :: r, y :: r' => level_eqb x y && go r r' | _, _ => false end) a b.

Inductive gcase : Type :=
(* X[key] = new(T) in the init() of the scalar / vector / matrix distribution package: (registry, key, T) *)
| GRegistry (src : list t3)
(* the same, from the registries of the running program by reflection *)
| GRuntime (run : list t3)
(* func (obj *T) ExportConfig(): the Name it writes: (package, T, literal) *)
| GExports (src : list t3)
(* func (obj *T) ImportConfig(): the Import*PdfConfig functions it calls, in source order, duplicates removed *)
| GChildren (src : list (level * string * list level))
(* the harness's own tables: (Coq constructor, key, registry) *)
| GHarness (tab : list (string * string * level)).

(* every row of the model is in the table, and no key of the table that the model knows maps elsewhere *)
Definition registry_ok (tab : list t3) : bool :=
  forallb (fun r => mem3 (r_level r, r_key r, r_type r) tab) model_rows &&
  forallb (fun e => match e with (l, k, t) =>
             forallb (fun r => negb (key_eqb (l, k) (row_key r)) || String.eqb t (r_type r)) model_rows end) tab &&
  nodupb key_eqb (map (fun e => match e with (l, k, _) => (l, k) end) tab).

(* the Name written by T's ExportConfig is the key under which T is registered: exactly one literal per modelled type *)
Definition exports_ok (tab : list t3) : bool :=
  forallb (fun r => mem3 (r_level r, r_type r, r_key r) tab &&
                    forallb (fun e => match e with (l, t, k) =>
                       negb (level_eqb l (r_level r) && String.eqb t (r_type r)) || String.eqb k (r_key r) end) tab) model_rows.

Definition children_ok (tab : list (level * string * list level)) : bool :=
  forallb (fun r => existsb (fun e => match e with (l, t, cs) =>
             level_eqb l (r_level r) && String.eqb t (r_type r) && levels_eqb cs (opt_list (r_child r)) end) tab) model_rows.

Definition harness_ok (tab : list (string * string * level)) : bool :=
  forallb (fun r => existsb (fun e => match e with (c, k, l) =>
             String.eqb c (r_ctor r) && String.eqb k (r_key r) && level_eqb l (r_level r) end) tab) model_rows &&
  forallb (fun e => match e with (c, k, l) =>
             existsb (fun r => String.eqb c (r_ctor r) && String.eqb k (r_key r) && level_eqb l (r_level r)) model_rows end) tab.

Definition gcheck (c : gcase) : bool :=
  match c with
  | GRegistry t => registry_ok t
  | GRuntime t => registry_ok t
  | GExports t => exports_ok t
  | GChildren t => children_ok t
  | GHarness t => harness_ok t
  end.
Definition gmism (cs : list gcase) : list nat := mismatches gcheck cs.
