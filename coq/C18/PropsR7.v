(* C18 — round 7 property theorems (statements only; proofs in ProofsMixed.v and ProofsRecv7.v).

   (a) containers of derivative-carrying scalars whose elements carry DIFFERENT amounts of derivative information:
       the document of every element is what the scalar writer makes of THAT element (no container-wide format), and the
       gradient / Hessian of every position come back exactly, whatever stands at position 0;
   (b) table Import into a recycled receiver that is a view: compact fresh header, the file's values in row-major order. *)
From Coq Require Import ZArith List Bool.
From ADV Require Import C18.Model C18.Spec C18.TableModel C18.RecvModel C18.ProofsTable C18.ProofsMixed C18.ProofsRecv7.
Import ListNotations.
Open Scope Z_scope.

(* the i-th document of a written vector is the element writer's output for the i-th element alone *)
Theorem dense_vector_written_elementwise :
  forall E D (wr : E -> res D) v d, write_dv E D wr v = Ok d ->
  length d = length v /\
  forall i e, nth_error v i = Some e -> exists x, nth_error d i = Some x /\ wr e = Ok x.
Proof. exact dv_write_elementwise. Qed.

(* position by position: value exactly; gradient (with N) exactly where the element has a non-zero gradient entry;
   Hessian exactly where it has a non-zero Hessian entry — for every mix of orders in one vector *)
Theorem dense_real_vector_roundtrip_positionwise :
  forall F T zero nz (fmtJ : F -> option T) parseJ, nz zero = false -> (forall x t, fmtJ x = Some t -> parseJ t = Some x) ->
  forall v d, Forall (wf_real F) v -> write_dv (real F) (sdoc T) (write_real F T nz fmtJ) v = Ok d ->
  exists v', read_dv (real F) (sdoc T) (read_real F T zero parseJ) d = Ok v' /\ length v' = length v /\
    forall i r, nth_error v i = Some r ->
      exists r', nth_error v' i = Some r' /\ rval r' = rval r /\
        (real_t1 F nz r = Ok true -> rn r' = rn r /\ rderiv r' = rderiv r) /\
        (real_t2 F nz r = Ok true -> rhess r' = rhess r).
Proof. exact dense_real_vector_positionwise. Qed.

(* the same for every view (slice, transpose) of a dense Real matrix, by visible position *)
Theorem dense_real_matrix_roundtrip_positionwise :
  forall F T zero nz (fmtJ : F -> option T) parseJ, nz zero = false -> (forall x t, fmtJ x = Some t -> parseJ t = Some x) ->
  forall (m : dmat (real F)) d ez, wf_dm m -> dm_rows m * dm_cols m < 2^63 -> Forall (wf_real F) (dm_vals m) ->
  write_dm (real F) (sdoc T) (write_real F T nz fmtJ) ez m = Ok d ->
  exists m', read_dm (real F) (sdoc T) (read_real F T zero parseJ) true d = Ok m' /\
    dm_rows m' = dm_rows m /\ dm_cols m' = dm_cols m /\
    forall i j, 0 <= i < dm_rows m -> 0 <= j < dm_cols m ->
      exists r r', dm_at (real F) m i j = Ok r /\ dm_at (real F) m' i j = Ok r' /\ rval r' = rval r /\
        (real_t1 F nz r = Ok true -> rn r' = rn r /\ rderiv r' = rderiv r) /\
        (real_t2 F nz r = Ok true -> rhess r' = rhess r).
Proof. exact dense_real_matrix_positionwise. Qed.

(* non-vacuity: constant in front, gradient and Hessian-only behind — three document shapes in one vector *)
Example mixed_order_vector_example :
  Forall (wf_real Z) mixed_witness /\
  write_dv (real Z) (sdoc Z) (write_real Z Z Znz Zfmt) mixed_witness =
    Ok [SNum 1; SObj 2 (Some [5]) None; SObj 3 None (Some [[0; 7]; [7; 0]])] /\
  read_dv (real Z) (sdoc Z) (read_real Z Z 0 Zparse) [SNum 1; SObj 2 (Some [5]) None; SObj 3 None (Some [[0; 7]; [7; 0]])] =
    Ok mixed_witness.
Proof. exact mixed_witness_written. Qed.

(* table Import into ANY receiver state (a transposed view of the table's own shape included): the result is the fresh
   reader's, and its header is compact — not transposed, offsets 0, strides equal to the dimensions *)
Theorem dense_matrix_import_overwrites_every_field :
  forall F T (parseT : T -> option F) real (old : dmat F) f m,
  import_dm_into F T parseT real old f = Ok m ->
  import_dm F T parseT real f = Ok m /\
  dm_roff m = 0 /\ dm_rmax m = dm_rows m /\ dm_coff m = 0 /\ dm_cmax m = dm_cols m /\ dm_tr m = false.
Proof. exact import_dm_into_header. Qed.

Example transposed_receiver_example :
  dm_rows tr_recv_23 = 2 /\ dm_cols tr_recv_23 = 3 /\ dm_tr tr_recv_23 = true /\
  import_dm_into Z Z Zparse false tr_recv_23 (plain_file [49; 32] [LFields [1; 2; 3]; LFields [4; 5; 6]])
    = Ok (mkDm [1; 2; 3; 4; 5; 6] 2 3 0 2 0 3 false) /\
  import_dm_into Z Z Zparse true tr_recv_22 (plain_file [49; 32] [LFields [1; 2]; LFields [3; 4]])
    = Ok (mkDm [1; 2; 3; 4] 2 2 0 2 0 2 false).
Proof. exact transposed_receiver_regression. Qed.
