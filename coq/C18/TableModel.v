(* C18 — executable model of the TABLE (text file) Export / Import code of pbenner/autodiff.

   Layer (i)  structure: a writer is a function  value -> res (list tline)  (the lines of the
              file, each a list of tokens), a reader a function  tfile -> res value  performing
              exactly the validation the Go code performs (and no more).
   Layer (ii) tokens: [fmtT : F -> T] is fmt's %v of the element (total: NaN/Inf print too),
              [parseT : T -> option F] is strconv.ParseFloat(tok, 64) FOLLOWED BY the conversion
              STORED_TYPE(value) the reader applies (None = ParseFloat returned an error);
              [fmtI]/[parseI] are %d and strconv.ParseInt(tok, 10, 64).
   Layer (iii) bytes <-> lines of fields is bufio.ReadString('\n') + strings.Fields and
              compress/gzip (standard library, outside the model); the harness mirrors it.

   Anchors (HEAD of /repo):
     utility.go                     isGzip, bufioReadLine
     vector_dense_*template.in      Table / Export / Import
     vector_sparse_*template.in     Export / Import  (header "n", lines "index value")
     matrix_dense_*template.in      Table / Export / Import, NewDense*Matrix (plain: no check; Real: len check)
     matrix_sparse_*template.in     Export / Import  (header "rows cols", lines "i j value"), NewSparse*Matrix
   Tables carry VALUES only: the derivatives of Real elements are not written.
   No proofs in this file. *)
From Coq Require Import ZArith List Bool.
From ADV Require Import C18.Model.
Import ListNotations.
Open Scope Z_scope.

(* one line as bufioReadLine + strings.Fields see it *)
Inductive tline (T : Type) : Type :=
| LEmpty                      (* len(l) == 0: skipped by every reader *)
| LFields (fs : list T).      (* a non-empty line; fs = strings.Fields(l), possibly [] (whitespace only) *)
Arguments LEmpty {T}. Arguments LFields {T} fs.

(* the lines a reader obtains until EOF, and whether the stream then ends with a read error
   other than EOF (a corrupt / truncated gzip stream) *)
Record tstream (T : Type) : Type := mkTs { ts_lines : list (tline T); ts_fail : bool }.
Arguments mkTs {T}. Arguments ts_lines {T}. Arguments ts_fail {T}.

(* a file as Import sees it: its first (at most two) bytes, its lines when read as plain text,
   and what gzip makes of it (None: gzip.NewReader rejects the header) *)
Record tfile (T : Type) : Type := mkTf
  { tf_prefix : list Z; tf_plain : tstream T; tf_gz : option (tstream T) }.
Arguments mkTf {T}. Arguments tf_prefix {T}. Arguments tf_plain {T}. Arguments tf_gz {T}.

(* isGzip: b := make([]byte, 2); n, err := f.Read(b); err != nil -> error (an EMPTY file gives
   0, io.EOF); n == 2 && b[0] == 31 && b[1] == 139.  A one-byte file is read with n = 1, no error. *)
Definition is_gzip (prefix : list Z) : res bool :=
  match prefix with
  | [] => Err
  | [_] => Ok false
  | a :: b :: _ => Ok ((a =? 31) && (b =? 139))
  end.

Definition open_table {T} (f : tfile T) : res (tstream T) :=
  g <- is_gzip (tf_prefix f) ;;
  if g then match tf_gz f with Some s => Ok s | None => Err end
  else Ok (tf_plain f).

(* a written line: fields joined by single blanks; no field at all is the empty line *)
Definition mkline {T} (fs : list T) : tline T :=
  match fs with [] => LEmpty | _ => LFields fs end.

(* what the byte layer makes of the plain text the writers produce *)
Definition plain_file {T} (first_bytes : list Z) (ls : list (tline T)) : tfile T :=
  mkTf first_bytes (mkTs ls false) None.

Section Table.
Variables F T : Type.
Variable nz : F -> bool.
Variable fmtT : F -> T.
Variable parseT : T -> option F.
Variable fmtI : Z -> T.
Variable parseI : T -> option Z.

(* after the loop: a pending read error is returned before anything is constructed *)
Definition closing {A} (s : tstream T) (a : res A) : res A :=
  x <- a ;; if ts_fail s then Err else Ok x.

(* ------------------------------------------------------------ dense vectors *)
Section Dense.
Variable E : Type.
Variable eval : E -> F.          (* the value String() prints: derivatives are not written *)

(* Table(): one value per line; Export writes Table() followed by "\n" *)
Definition export_dv (v : list E) : list (tline T) :=
  map (fun e => LFields [fmtT (eval e)]) v ++ [LEmpty].

(* every field of every non-empty line is a value; lines may hold any number of them *)
Fixpoint import_dv_go (acc : list F) (ls : list (tline T)) : res (list F) :=
  match ls with
  | [] => Ok acc
  | LEmpty :: r => import_dv_go acc r
  | LFields fs :: r =>
      match mapM parseT fs with
      | None => Err
      | Some xs => import_dv_go (acc ++ xs) r
      end
  end.
Definition import_dv_stream (s : tstream T) : res (list F) := closing s (import_dv_go [] (ts_lines s)).
Definition import_dv (f : tfile T) : res (list F) := s <- open_table f ;; import_dv_stream s.

(* ------------------------------------------------------------ dense matrices *)
Definition export_dm_row (m : dmat E) (i : Z) : res (tline T) :=
  fs <- mapR (fun j => e <- dm_at E m i j ;; Ok (fmtT (eval e))) (zrange (dm_cols m)) ;;
  Ok (mkline fs).
(* rows joined by "\n", then "\n": n lines for n > 0 rows, one empty line for no row *)
Definition export_dm (m : dmat E) : res (list (tline T)) :=
  if dm_rows m <=? 0 then Ok [LEmpty]
  else mapR (export_dm_row m) (zrange (dm_rows m)).

(* cols is (re)taken from every line as long as it is still 0; every non-empty line counts as a row *)
Fixpoint import_dm_go (vals : list F) (rows cols : Z) (ls : list (tline T)) : res (list F * Z * Z) :=
  match ls with
  | [] => Ok (vals, rows, cols)
  | LEmpty :: r => import_dm_go vals rows cols r
  | LFields fs :: r =>
      let cols' := if cols =? 0 then zlen fs else cols in
      if negb (cols' =? zlen fs) then Err
      else match mapM parseT fs with
           | None => Err
           | Some xs => import_dm_go (vals ++ xs) (rows + 1) cols' r
           end
  end.

(* NewDense<Plain>Matrix(values, rows, cols): no check at all.
   NewDense<Real>Matrix: one value is replicated rows*cols times, otherwise len must fit or panic. *)
Definition new_dm (real : bool) (vals : list F) (rows cols : Z) : res (dmat F) :=
  if real then
    if zlen vals =? 1 then
      match vals with
      | x :: _ => Ok (mkDm (repeat x (Z.to_nat (rows * cols))) rows cols 0 rows 0 cols false)
      | [] => Panic
      end
    else if zlen vals =? rows * cols then Ok (mkDm vals rows cols 0 rows 0 cols false)
    else Panic
  else Ok (mkDm vals rows cols 0 rows 0 cols false).

Definition import_dm_stream (real : bool) (s : tstream T) : res (dmat F) :=
  t <- closing s (import_dm_go [] 0 0 (ts_lines s)) ;;
  let '(vals, rows, cols) := t in new_dm real vals rows cols.
Definition import_dm (real : bool) (f : tfile T) : res (dmat F) :=
  s <- open_table f ;; import_dm_stream real s.

(* ------------------------------------------------------------ sparse vectors *)
Variable enul : E -> bool.       (* nullScalar(): skipped (and dropped) by the iterator *)

(* header "n", then "index value" for every stored non-null entry in ascending order *)
Definition export_sv (v : svec E) : list (tline T) :=
  LFields [fmtI (sv_n v)] ::
  map (fun kv => LFields [fmtI (fst kv); fmtT (eval (snd kv))]) (sv_live E enul v).

(* header: the first non-empty line must have exactly one field; no such line: n = 0 *)
Fixpoint import_sv_header (ls : list (tline T)) : res (Z * list (tline T)) :=
  match ls with
  | [] => Ok (0, [])
  | LEmpty :: r => import_sv_header r
  | LFields [t] :: r => match parseI t with Some n => Ok (n, r) | None => Err end
  | LFields _ :: _ => Err
  end.
Fixpoint import_sv_body (idx : list Z) (vals : list F) (ls : list (tline T)) : res (list Z * list F) :=
  match ls with
  | [] => Ok (idx, vals)
  | LEmpty :: r => import_sv_body idx vals r
  | LFields [a; b] :: r =>
      match parseI a with
      | None => Err
      | Some k => match parseT b with
                  | None => Err
                  | Some x => import_sv_body (idx ++ [k]) (vals ++ [x]) r
                  end
      end
  | LFields _ :: _ => Err
  end.
Definition import_sv_stream (s : tstream T) : res (svec F) :=
  t <- closing s (h <- import_sv_header (ts_lines s) ;;
                  b <- import_sv_body [] [] (snd h) ;; Ok (fst h, b)) ;;
  let '(n, (idx, vals)) := t in new_sparse F nz idx vals n.
Definition import_sv (f : tfile T) : res (svec F) := s <- open_table f ;; import_sv_stream s.

(* ------------------------------------------------------------ sparse matrices *)
(* header "rows cols", then "i j value" for EVERY stored non-null entry of the backing vector —
   also those outside a slice — with (i, j) = ij(k) relative to the view (may leave [0,rows)x[0,cols)) *)
Definition export_sm_line (m : smat E) (kv : Z * E) : res (tline T) :=
  match sm_ij m (fst kv) with
  | None => Panic                                     (* k / colMax with colMax = 0 *)
  | Some (i, j) => Ok (LFields [fmtI i; fmtI j; fmtT (eval (snd kv))])
  end.
Definition export_sm (m : smat E) : res (list (tline T)) :=
  ls <- mapR (export_sm_line m) (sv_live E enul (sm_vals m)) ;;
  Ok (LFields [fmtI (sm_rows m); fmtI (sm_cols m)] :: ls).

Fixpoint import_sm_header (ls : list (tline T)) : res (Z * Z * list (tline T)) :=
  match ls with
  | [] => Ok (0, 0, [])
  | LEmpty :: r => import_sm_header r
  | LFields [a; b] :: r =>
      match parseI a with
      | None => Err
      | Some rows => match parseI b with Some cols => Ok (rows, cols, r) | None => Err end
      end
  | LFields _ :: _ => Err
  end.
Fixpoint import_sm_body (ri ci : list Z) (vals : list F) (ls : list (tline T)) : res (list Z * list Z * list F) :=
  match ls with
  | [] => Ok (ri, ci, vals)
  | LEmpty :: r => import_sm_body ri ci vals r
  | LFields [a; b; c] :: r =>
      match parseI a with
      | None => Err
      | Some i => match parseI b with
                  | None => Err
                  | Some j => match parseT c with
                              | None => Err
                              | Some x => import_sm_body (ri ++ [i]) (ci ++ [j]) (vals ++ [x]) r
                              end
                  end
      end
  | LFields _ :: _ => Err
  end.

(* NewSparse*Matrix(rowIndices, colIndices, values, rows, cols): m := Null(rows, cols) with a backing
   vector of dimension rows*cols (64-bit wrap); every non-zero value goes through m.At(i, j) (index
   panics outside the matrix, the vector's AT panics outside [0, n)); a repeated position is overwritten *)
Fixpoint new_sm_go (rows cols n : Z) (acc : list (Z * F)) (ri ci : list Z) (vals : list F) : res (list (Z * F)) :=
  match ri, ci, vals with
  | i :: ri', j :: ci', x :: vals' =>
      if nz x then
        if (i <? 0) || (j <? 0) || (i >=? rows) || (j >=? cols) then Panic
        else let k := wrap64 (wrap64 (i * cols) + j) in
             if (k <? 0) || (k >=? n) then Panic
             else new_sm_go rows cols n (aset k x acc) ri' ci' vals'
      else new_sm_go rows cols n acc ri' ci' vals'
  | _, _, _ => Ok acc
  end.
Definition new_sm (ri ci : list Z) (vals : list F) (rows cols : Z) : res (smat F) :=
  if negb (zlen ri =? zlen ci) || negb (zlen ci =? zlen vals) then Panic
  else let n := wrap64 (rows * cols) in
       ents <- new_sm_go rows cols n [] ri ci vals ;;
       Ok (mkSm (mkSv ents n) rows cols 0 rows 0 cols).

Definition import_sm_stream (s : tstream T) : res (smat F) :=
  t <- closing s (h <- import_sm_header (ts_lines s) ;;
                  b <- import_sm_body [] [] [] (snd h) ;; Ok (fst h, b)) ;;
  let '((rows, cols), ((ri, ci), vals)) := t in new_sm ri ci vals rows cols.
Definition import_sm (f : tfile T) : res (smat F) := s <- open_table f ;; import_sm_stream s.

End Dense.
End Table.

(* ------------------------------------------------------------------------ *)
(* the conversions STORED_TYPE(value) of the integer element types, on integers:
   ParseFloat of a decimal integer literal z is the binary64 nearest to z (ties to even) *)

(* nearest binary64 to an integer (|z| < 2^1024): keep 53 significant bits, ties to even *)
Definition rne53 (z : Z) : Z :=
  let a := Z.abs z in
  let l := Z.log2 a in
  if (a =? 0) || (l <? 53) then z
  else let sh := l - 52 in
       let q := Z.shiftr a sh in
       let r := a - Z.shiftl q sh in
       let half := Z.shiftl 1 (sh - 1) in
       let q' := if (r >? half) || ((r =? half) && Z.odd q) then q + 1 else q in
       Z.sgn z * Z.shiftl q' sh.

(* Go on amd64: int64(f) / int(f) is CVTTSD2SQ (out of range: MinInt64); int32(f) is CVTTSD2SL
   (out of range: MinInt32); int16(f) / int8(f) truncate the int32 result *)
Definition wrapN (bits : Z) (z : Z) : Z := (z + 2 ^ (bits - 1)) mod 2 ^ bits - 2 ^ (bits - 1).
Definition cvt_int (bits : Z) (z : Z) : Z :=     (* z: the float's value, already integral (truncated) *)
  if bits =? 64 then (if (z <? - 2 ^ 63) || (z >=? 2 ^ 63) then - 2 ^ 63 else z)
  else let w := if (z <? - 2 ^ 31) || (z >=? 2 ^ 31) then - 2 ^ 31 else z in wrapN bits w.

(* an Int table cell: the token is the decimal literal of z *)
Definition int_cell_parse (bits : Z) (z : Z) : option Z := Some (cvt_int bits (rne53 z)).
