(* C18 — specification: well-formedness of the values, observable equality after a
   round trip, and the token hypotheses. *)
From Coq Require Import ZArith List Bool Sorted.
From ADV Require Import C18.Model.
Import ListNotations.
Open Scope Z_scope.

(* association list with strictly increasing keys: the map [values] plus its ordered index *)
Definition keys {X} (l : list (Z * X)) : list Z := map fst l.
Definition sorted {X} (l : list (Z * X)) : Prop := StronglySorted Z.lt (keys l).

Section Spec.
Variables F : Type.
Variable zero : F.
Variable nz : F -> bool.

(* equal, or both zero: zeros (of either sign) are what the formats do not carry *)
Definition zeq (a b : F) : Prop := a = b \/ (nz a = false /\ nz b = false).

(* ---------------------------------------------------------------- scalars *)
Definition wf_real (r : real F) : Prop :=
  0 <= rorder r <= 2 /\ 0 <= rn r /\
  (1 <= rorder r -> zlen (rderiv r) = rn r) /\
  (2 <= rorder r -> zlen (rhess r) = rn r /\ Forall (fun row => zlen row = rn r) (rhess r)).

(* gradient all zero, Hessian not: the writer emits {Value, Hessian} *)
Definition hess_only (r : real F) : Prop :=
  real_t1 F nz r = Ok false /\ real_t2 F nz r = Ok true.

Definition real_obs_eq (r r' : real F) : Prop :=
  rval r' = rval r /\
  (forall i, 0 <= i < rn r ->
     exists d d', getD F zero r i = Ok d /\ getD F zero r' i = Ok d' /\ zeq d d') /\
  (forall i j, 0 <= i < rn r -> 0 <= j < rn r ->
     exists h h', getH F zero r i j = Ok h /\ getH F zero r' i j = Ok h' /\ zeq h h') /\
  (* where the format carries them: exactly *)
  (real_t1 F nz r = Ok true -> rn r' = rn r /\ rderiv r' = rderiv r) /\
  (real_t2 F nz r = Ok true -> rhess r' = rhess r).

(* ---------------------------------------------------------- sparse vectors *)
Definition wf_sv {X} (v : svec X) : Prop :=
  0 <= sv_n v /\ sorted (sv_ents v) /\ Forall (fun kv => 0 <= fst kv < sv_n v) (sv_ents v).

Section SparseObs.
Variable E : Type.
Variable eval : E -> F.
(* value at position k of the object that was written *)
Definition sv_val (v : svec E) (k : Z) : F :=
  match lookup k (sv_ents v) with Some e => eval e | None => zero end.
Definition sv_obs_eq (v : svec E) (v' : svec F) : Prop :=
  sv_n v' = sv_n v /\
  forall k, 0 <= k < sv_n v -> exists x', sv_at zero v' k = Ok x' /\ zeq (sv_val v k) x'.
(* the set of non-zero positions is an observable; it follows from sv_obs_eq *)
Definition sv_support_eq (v : svec E) (v' : svec F) : Prop :=
  forall k, 0 <= k < sv_n v ->
    exists x', sv_at zero v' k = Ok x' /\ nz x' = nz (sv_val v k).
End SparseObs.

(* ---------------------------------------------------------- dense matrices *)
Definition wf_dm {E} (m : dmat E) : Prop :=
  0 <= dm_roff m /\ 0 <= dm_coff m /\ 0 <= dm_rows m /\ 0 <= dm_cols m /\
  dm_roff m + dm_rows m <= dm_rmax m /\ dm_coff m + dm_cols m <= dm_cmax m /\
  zlen (dm_vals m) = dm_rmax m * dm_cmax m.

Definition dm_obs_eq {E} (R : E -> E -> Prop) (m m' : dmat E) : Prop :=
  dm_rows m' = dm_rows m /\ dm_cols m' = dm_cols m /\
  forall i j, 0 <= i < dm_rows m -> 0 <= j < dm_cols m ->
    exists e e', dm_at E m i j = Ok e /\ dm_at E m' i j = Ok e' /\ R e e'.

(* --------------------------------------------------------- sparse matrices *)
Definition wf_sm {X} (m : smat X) : Prop :=
  0 <= sm_roff m /\ 0 <= sm_coff m /\ 0 <= sm_rows m /\ 0 <= sm_cols m /\
  sm_roff m + sm_rows m <= sm_rmax m /\ sm_coff m + sm_cols m <= sm_cmax m /\
  wf_sv (sm_vals m) /\ sv_n (sm_vals m) = sm_rmax m * sm_cmax m.

Section SparseMatObs.
Variable E : Type.
Variable eval : E -> F.
Definition sm_val (m : smat E) (i j : Z) : F :=
  sv_val E eval (sm_vals m) ((sm_roff m + i) * sm_cmax m + (sm_coff m + j)).
Definition sm_obs_eq (m : smat E) (m' : smat F) : Prop :=
  sm_rows m' = sm_rows m /\ sm_cols m' = sm_cols m /\
  forall i j, 0 <= i < sm_rows m -> 0 <= j < sm_cols m ->
    exists x', sm_at zero m' i j = Ok x' /\ zeq (sm_val m i j) x'.
End SparseMatObs.

End Spec.

(* a concrete element instance used by the refutation lemmas and the examples:
   integers, every number prints and parses *)
Definition Znz (z : Z) : bool := negb (z =? 0).
Definition Zfmt (z : Z) : option Z := Some z.
Definition Zparse (z : Z) : option Z := Some z.
