(* C18 (round 6) — the NAMES behind the constructors of ConfigModel.fam / ConfigModelV.nname.

   The models dispatch on a constructor; the library dispatches on a string looked up in one of three maps
   (statistics/{scalar,vector,matrix}Distribution/init.go) and writes a string literal in ExportConfig.  This file
   gives every constructor its row: registry, key, Go type, and the registry its ImportConfig consults for the
   components.  The rows are compared on every run (RegistryCorr.v) with tables REGENERATED from the library's
   sources by go/ast (harness/c18/registry.go): registry assignments of the three init() functions, the Name literal
   of every ExportConfig, the Import*PdfConfig functions every ImportConfig calls — and with the registries
   of the running program (reflection) and the harness's own name tables.  No proofs in this file. *)
From Coq Require Import String List Bool.
From ADV Require Import C18.ConfigModel C18.ConfigModelV.
Import ListNotations.
Open Scope string_scope.

Inductive level : Type := LS | LV | LM.
Definition level_eqb (a b : level) : bool :=
  match a, b with LS, LS | LV, LV | LM, LM => true | _, _ => false end.

Record row : Type := Row { r_ctor : string; r_level : level; r_key : string; r_type : string; r_child : option level }.

Definition fam_row (f : fam) : option row :=
  match f with
  | FBeta => Some (Row "FBeta" LS "scalar:beta distribution" "BetaDistribution" None)
  | FBinomial => Some (Row "FBinomial" LS "scalar:binomial distribution" "BinomialDistribution" None)
  | FCategorical => Some (Row "FCategorical" LS "scalar:categorical distribution" "CategoricalDistribution" None)
  | FCauchy => Some (Row "FCauchy" LS "scalar:cauchy distribution" "CauchyDistribution" None)
  | FDelta => Some (Row "FDelta" LS "scalar:delta distribution" "DeltaDistribution" None)
  | FExponential => Some (Row "FExponential" LS "scalar:exponential distribution" "ExponentialDistribution" None)
  | FGamma => Some (Row "FGamma" LS "scalar:gamma distribution" "GammaDistribution" None)
  | FGenGamma => Some (Row "FGenGamma" LS "scalar:generalized gamma distribution" "GeneralizedGammaDistribution" None)
  | FGeometric => Some (Row "FGeometric" LS "scalar:geometric distribution" "GeometricDistribution" None)
  | FGev => Some (Row "FGev" LS "scalar:gev distribution" "GevDistribution" None)
  | FLaplace => Some (Row "FLaplace" LS "scalar:laplace distribution" "LaplaceDistribution" None)
  | FNegBinomial => Some (Row "FNegBinomial" LS "scalar:negative binomial distribution" "NegativeBinomialDistribution" None)
  | FNormal => Some (Row "FNormal" LS "scalar:normal distribution" "NormalDistribution" None)
  | FPareto => Some (Row "FPareto" LS "scalar:pareto distribution" "ParetoDistribution" None)
  | FGPareto => Some (Row "FGPareto" LS "scalar:generalized pareto distribution" "GParetoDistribution" None)
  | FPoisson => Some (Row "FPoisson" LS "scalar:poisson distribution" "PoissonDistribution" None)
  | FPowerLaw => Some (Row "FPowerLaw" LS "scalar:power law distribution" "PowerLawDistribution" None)
  | FMixture => Some (Row "FMixture" LS "scalar:mixture distribution" "Mixture" (Some LS))
  | FLogT => Some (Row "FLogT" LS "scalar:pdf log transform" "PdfLogTransform" (Some LS))
  | FTrans => Some (Row "FTrans" LS "scalar:pdf translation" "PdfTranslation" (Some LS))
  | FIid => Some (Row "FIid" LV "vector:scalar iid" "ScalarIid" (Some LS))
  | FUnknown => None
  end.

Definition nname_row (n : nname) : row :=
  match n with
  | NVScalarId => Row "NVScalarId" LV "vector:scalar id" "ScalarId" (Some LS)
  | NVVectorId => Row "NVVectorId" LV "vector:vector id" "VectorId" (Some LV)
  | NVVectorIid => Row "NVVectorIid" LV "vector:vector iid" "VectorIid" (Some LV)
  | NVMixture => Row "NVMixture" LV "vector:mixture distribution" "Mixture" (Some LV)
  | NMVectorId => Row "NMVectorId" LM "matrix:vector id" "VectorId" (Some LV)
  | NMVectorIid => Row "NMVectorIid" LM "matrix:vector iid" "VectorIid" (Some LV)
  | NMMixture => Row "NMMixture" LM "matrix:mixture distribution" "Mixture" (Some LM)
  end.

Definition all_fams : list fam :=
  [FBeta; FBinomial; FCategorical; FCauchy; FDelta; FExponential; FGamma; FGenGamma; FGeometric; FGev; FLaplace;
   FNegBinomial; FNormal; FPareto; FGPareto; FPoisson; FPowerLaw; FMixture; FLogT; FTrans; FIid; FUnknown].
Definition all_nnames : list nname := [NVScalarId; NVVectorId; NVVectorIid; NVMixture; NMVectorId; NMVectorIid; NMMixture].

Definition opt_list {A} (o : option A) : list A := match o with Some a => [a] | None => [] end.
Definition model_rows : list row := flat_map (fun f => opt_list (fam_row f)) all_fams ++ map nname_row all_nnames.

(* the registry the model consults for the components of a node (what import_cfg / import_vec / import_mat do):
   scalar nodes and "vector:scalar iid" / "vector:scalar id" -> scalar; vector id / iid / mixture and the matrix id /
   iid -> vector; matrix mixture -> matrix *)
Definition key_eqb (a b : level * string) : bool := level_eqb (fst a) (fst b) && String.eqb (snd a) (snd b).
Definition row_key (r : row) : level * string := (r_level r, r_key r).
Fixpoint nodupb {A} (eqb : A -> A -> bool) (l : list A) : bool :=
  match l with [] => true | x :: r => negb (existsb (eqb x) r) && nodupb eqb r end.
