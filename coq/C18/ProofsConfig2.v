(* C18 — configurations, the converse direction: whatever ImportConfig builds from ANY configuration is a tree of
   the round-trip theorem (rt_dist), provided no binomial distribution occurs in it and NewMixture's normalisation
   is idempotent; hence every importable binomial-free configuration is a fixed point of export ; import. *)
From Coq Require Import ZArith List Bool Lia.
From ADV Require Import C18.Model C18.ProofsBase C18.ConfigModel C18.ProofsConfig.
Import ListNotations.
Open Scope Z_scope.

Section Converse.
Variable F : Type.
Variables zero one : F.
Variable fle flt feq : F -> F -> bool.
Variables flog fexp ftrunc : F -> F.
Variable norm : list F -> list F.
Hypothesis norm_idem : forall l, norm (norm l) = norm l.
Hypothesis ftrunc_idem : forall x, ftrunc (ftrunc x) = ftrunc x.

Notation imp_simple := (import_simple F zero one fle flt feq flog ftrunc).
Notation imp := (import_cfg F zero one fle flt feq flog ftrunc norm).
Notation rts := (rt_scalar F zero one fle flt feq flog ftrunc norm).
Notation rtd := (rt_dist F zero one fle flt feq flog ftrunc norm).

Fixpoint binomial_free (d : dist F) : bool :=
  match d with
  | Dist f _ ds => negb (fam_eqb f FBinomial) &&
                   (fix all (l : list (dist F)) : bool := match l with [] => true | x :: r => binomial_free x && all r end) ds
  end.

Definition cfg_fam (c : cfg F) : fam := match c with Cfg f _ _ => f end.

Lemma cfg_ind' (P : cfg F -> Prop) :
  (forall f p ds, Forall P ds -> P (Cfg f p ds)) -> forall c, P c.
Proof.
  intros H. fix IH 1. intros [f p ds]. apply H.
  revert ds. fix IHl 1. intros [|d ds]; constructor; [apply IH|apply IHl].
Qed.

(* the importer's loop over the components of a mixture *)
Definition imp_children : list (cfg F) -> res (list (dist F)) :=
  fix go (l : list (cfg F)) : res (list (dist F)) :=
    match l with
    | [] => Ok []
    | c' :: r => d <- (if scalar_fam (cfg_fam c') then imp c' else Err) ;; ds' <- go r ;; Ok (d :: ds')
    end.

Lemma imp_children_cons c r :
  imp_children (c :: r) = (d <- (if scalar_fam (cfg_fam c) then imp c else Err) ;; ds' <- imp_children r ;; Ok (d :: ds')).
Proof. reflexivity. Qed.

Lemma imp_mixture p ds :
  imp (Cfg FMixture p ds) =
  (ws <- get_floats F p ;; if existsb (fun x => flt x zero) ws then Err else
   ds' <- imp_children ds ;; Ok (Dist FMixture (norm (map flog ws)) ds')).
Proof.
  simpl. destruct (get_floats F p); simpl; try reflexivity. destruct (existsb _ a); [reflexivity|].
  assert (E : forall l, (fix go (l : list (cfg F)) : res (list (dist F)) :=
                  match l with
                  | [] => Ok []
                  | c' :: r => d <- (if (match c' with Cfg f' _ _ => scalar_fam f' end) then imp c' else Err) ;;
                               ds' <- go r ;; Ok (d :: ds')
                  end) l = imp_children l).
  { induction l as [|[f' p' ds''] l IHl]; [reflexivity|]. simpl. simpl in IHl. rewrite IHl. reflexivity. }
  rewrite E. reflexivity.
Qed.

Definition all_free (l : list (dist F)) : bool :=
  (fix all (l : list (dist F)) : bool := match l with [] => true | x :: r => binomial_free x && all r end) l.

Lemma scalar_converse : forall c d,
  scalar_fam (cfg_fam c) = true -> imp c = Ok d -> binomial_free d = true -> rts d.
Proof.
  induction c as [f p ds IH] using cfg_ind'. intros d Hs H Hb.
  destruct f; try discriminate Hs.
  (* mixture / transforms are handled after the leaves *)
  18: { rewrite imp_mixture in H. apply bind_ok in H as (ws & _ & H). destruct (existsb _ ws); [discriminate|].
        apply bind_ok in H as (ds' & Hds & H). inversion H; subst d; clear H.
        apply RtMix; [apply norm_idem|].
        simpl in Hb. fold (all_free ds') in Hb.
        clear Hs. revert ds' Hds Hb. induction IH as [|c cs IHc _ IHcs]; intros ds' Hds Hb.
        - inversion Hds; constructor.
        - rewrite imp_children_cons in Hds.
          destruct (scalar_fam (cfg_fam c)) eqn:Esc; [|discriminate].
          apply bind_ok in Hds as (d0 & Hd0 & Hds). apply bind_ok in Hds as (dr & Hdr & Hds). inversion Hds; subst ds'; clear Hds.
          simpl in Hb. apply andb_prop in Hb as [Hb0 Hbr].
          constructor; [apply IHc; [reflexivity|assumption|assumption]|apply IHcs; assumption]. }
  18: { simpl in H. apply bind_ok in H as (ps & _ & H). destruct (negb _); [discriminate|].
        destruct ds as [|c' [|c'' r]]; try discriminate H. destruct c' as [f' p' ds''].
        destruct (scalar_fam f') eqn:Esc; [|discriminate].
        apply bind_ok in H as (d0 & Hd0 & H). inversion H; subst d; clear H.
        inversion IH as [|? ? IHc _]; subst. simpl in Hb. apply andb_prop in Hb as [Hb0 _].
        apply RtWrap; [left; reflexivity|]. apply IHc; assumption. }
  18: { simpl in H. apply bind_ok in H as (ps & _ & H). destruct (negb _); [discriminate|].
        destruct ds as [|c' [|c'' r]]; try discriminate H. destruct c' as [f' p' ds''].
        destruct (scalar_fam f') eqn:Esc; [|discriminate].
        apply bind_ok in H as (d0 & Hd0 & H). inversion H; subst d; clear H.
        inversion IH as [|? ? IHc _]; subst. simpl in Hb. apply andb_prop in Hb as [Hb0 _].
        apply RtWrap; [right; reflexivity|]. apply IHc; assumption. }
  all: simpl in H; apply bind_ok in H as (ps & _ & H); apply bind_ok in H as (st & Hst & H); inversion H; subst d; clear H.
  all: try (apply RtLeaf; [first [left; reflexivity|right; reflexivity]|exists ps; exact Hst]).
  (* binomial *)
  simpl in Hb. discriminate Hb.
Qed.

(* every importable binomial-free configuration is a fixed point of export ; import *)
Lemma converse c d : imp c = Ok d -> binomial_free d = true -> rtd d.
Proof.
  intros H Hb. destruct (scalar_fam (cfg_fam c)) eqn:Es.
  - apply RtScalar. eapply scalar_converse; eassumption.
  - destruct c as [f p ds]. destruct f; try discriminate Es; simpl in H; [|discriminate].
    apply bind_ok in H as (ps & _ & H). destruct (negb _); [discriminate|].
    destruct ds as [|c' [|c'' r]]; try discriminate H. destruct c' as [f' p' ds''].
    destruct (scalar_fam f') eqn:Esc; [|discriminate].
    apply bind_ok in H as (d0 & Hd0 & H). inversion H; subst d; clear H.
    simpl in Hb. apply andb_prop in Hb as [Hb0 _].
    apply RtIid; [apply ftrunc_idem|]. eapply (scalar_converse (Cfg f' p' ds'')); [exact Esc|exact Hd0|exact Hb0].
Qed.

Lemma importable_roundtrip :
  feq one one = true -> feq zero one = false -> (forall x, flog (fexp x) = x) -> (forall x, flt (fexp x) zero = false) ->
  forall c d, imp c = Ok d -> binomial_free d = true -> imp (export F fexp d) = Ok d.
Proof.
  intros A1 A2 A3 A4 c d H Hb.
  apply (config_tree_roundtrip F zero one fle flt feq flog fexp ftrunc norm A1 A2 A3 A4).
  eapply converse; eassumption.
Qed.

End Converse.
