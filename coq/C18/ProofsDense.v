(* C18 — dense vectors and dense matrices: round trip for every view (slice / transpose
   composition: the writer repacks to a fresh row-major layout), reader safety (d37b260, 6dfd87a) on
   every document. *)
From Coq Require Import ZArith List Bool Lia.
From ADV Require Import C18.Model C18.Spec C18.ProofsBase.
Import ListNotations.
Open Scope Z_scope.

Section Dense.
Variables E D : Type.
Variable wr : E -> res D.
Variable rd : D -> res E.
Variable ezero : E.
Variable good : E -> Prop.          (* elements the codec round-trips *)
Variable R : E -> E -> Prop.        (* observable equality of elements *)
Hypothesis codec : forall e d, good e -> wr e = Ok d -> exists e', rd d = Ok e' /\ R e e'.

Notation dm_at := (dm_at E).
Notation dm_index := (dm_index E).

(* ---------------------------------------------------------------- element lists *)
Lemma list_roundtrip l ds :
  Forall good l -> mapR wr l = Ok ds -> exists l', mapR rd ds = Ok l' /\ Forall2 R l l'.
Proof.
  revert ds; induction l as [|x l IH]; intros ds Hg H; simpl in H.
  - inversion H; subst. exists []; split; [reflexivity|constructor].
  - apply bind_ok in H as (y & Hy & H). apply bind_ok in H as (ys & Hys & H). inversion H; subst; clear H.
    inversion Hg; subst. destruct (codec _ _ H1 Hy) as (e' & He' & HR).
    destruct (IH _ H2 Hys) as (l' & Hl' & HF). exists (e' :: l'). simpl. rewrite He'; simpl. rewrite Hl'; simpl.
    split; [reflexivity|constructor; assumption].
Qed.

Lemma dv_roundtrip v d :
  Forall good v -> write_dv E D wr v = Ok d -> exists v', read_dv E D rd d = Ok v' /\ Forall2 R v v'.
Proof. apply list_roundtrip. Qed.

(* ---------------------------------------------------------------- index arithmetic *)
Lemma dm_index_in_range (m : dmat E) i j :
  wf_dm m -> 0 <= i < dm_rows m -> 0 <= j < dm_cols m ->
  exists k, dm_index m i j = Some k /\ 0 <= k < zlen (dm_vals m).
Proof.
  intros (H1 & H2 & H3 & H4 & H5 & H6 & H7) Hi Hj. unfold Model.dm_index.
  replace ((i <? 0) || (j <? 0) || (i >=? dm_rows m) || (j >=? dm_cols m)) with false by lia.
  rewrite H7. destruct (dm_tr m); eexists; (split; [reflexivity|]); nia.
Qed.

Lemma dm_at_wf (m : dmat E) i j :
  wf_dm m -> 0 <= i < dm_rows m -> 0 <= j < dm_cols m -> exists e, dm_at m i j = Ok e /\ In e (dm_vals m).
Proof.
  intros Hwf Hi Hj. destruct (dm_index_in_range m i j Hwf Hi Hj) as (k & Hk & Hr).
  unfold Model.dm_at. rewrite Hk. destruct (znth_some _ _ Hr) as [e He]. rewrite He.
  exists e; split; [reflexivity|eapply znth_In; eassumption].
Qed.

(* views: closure of wf and meaning of the view operations *)
Lemma wf_dm_slice (m : dmat E) rf rt cf ct :
  wf_dm m -> 0 <= rf <= rt -> rt <= dm_rows m -> 0 <= cf <= ct -> ct <= dm_cols m ->
  wf_dm (dm_slice E m rf rt cf ct).
Proof. unfold wf_dm, dm_slice; simpl. intros (H1 & H2 & H3 & H4 & H5 & H6 & H7) ? ? ? ?. repeat split; try lia. Qed.

Lemma wf_dm_T (m : dmat E) : wf_dm m -> wf_dm (dm_T E m).
Proof. unfold wf_dm, dm_T; simpl. intros (H1 & H2 & H3 & H4 & H5 & H6 & H7). repeat split; try lia. Qed.

Lemma wf_dm_full (vals : list E) r c : 0 <= r -> 0 <= c -> zlen vals = r * c -> wf_dm (mkDm vals r c 0 r 0 c false).
Proof. unfold wf_dm; simpl. intros. repeat split; try lia. Qed.

Lemma dm_T_at (m : dmat E) i j : dm_at (dm_T E m) i j = dm_at m j i.
Proof.
  unfold Model.dm_at, Model.dm_index, dm_T; simpl.
  replace ((i <? 0) || (j <? 0) || (i >=? dm_cols m) || (j >=? dm_rows m))
    with ((j <? 0) || (i <? 0) || (j >=? dm_rows m) || (i >=? dm_cols m))
    by (destruct (i <? 0), (j <? 0), (i >=? dm_cols m), (j >=? dm_rows m); reflexivity).
  destruct ((j <? 0) || (i <? 0) || (j >=? dm_rows m) || (i >=? dm_cols m)); [reflexivity|].
  destruct (dm_tr m); simpl; reflexivity.
Qed.

Lemma dm_slice_at (m : dmat E) rf rt cf ct i j :
  0 <= rf -> rt <= dm_rows m -> 0 <= cf -> ct <= dm_cols m ->
  0 <= i < rt - rf -> 0 <= j < ct - cf ->
  dm_at (dm_slice E m rf rt cf ct) i j = dm_at m (rf + i) (cf + j).
Proof.
  intros. unfold Model.dm_at, Model.dm_index, dm_slice; simpl.
  replace ((i <? 0) || (j <? 0) || (i >=? rt - rf) || (j >=? ct - cf)) with false by lia.
  replace ((rf + i <? 0) || (cf + j <? 0) || (rf + i >=? dm_rows m) || (cf + j >=? dm_cols m)) with false by lia.
  destruct (dm_tr m).
  - replace ((dm_coff m + cf + j) * dm_rmax m + (dm_roff m + rf + i))
      with ((dm_coff m + (cf + j)) * dm_rmax m + (dm_roff m + (rf + i))) by ring. reflexivity.
  - replace ((dm_roff m + rf + i) * dm_cmax m + (dm_coff m + cf + j))
      with ((dm_roff m + (rf + i)) * dm_cmax m + (dm_coff m + (cf + j))) by ring. reflexivity.
Qed.

(* ---------------------------------------------------------------- what the writer packs *)
Definition packed (m : dmat E) : res (list E) :=
  if dm_is_view E m then dm_repack E ezero m else Ok (dm_vals m).

Lemma divmod_rc i j c : 0 <= j < c -> (i * c + j) / c = i /\ (i * c + j) mod c = j.
Proof.
  intros Hj. split.
  - symmetry. apply Z.div_unique with j; lia.
  - symmetry. apply Z.mod_unique with i; lia.
Qed.

Lemma packed_spec (m : dmat E) vals :
  wf_dm m -> packed m = Ok vals ->
  zlen vals = dm_rows m * dm_cols m /\
  (forall i j, 0 <= i < dm_rows m -> 0 <= j < dm_cols m ->
     exists e, dm_at m i j = Ok e /\ znth vals (i * dm_cols m + j) = Some e) /\
  (forall e, In e vals -> In e (dm_vals m)).
Proof.
  intros Hwf Hp. pose proof Hwf as (H1 & H2 & H3 & H4 & H5 & H6 & H7).
  unfold packed in Hp. destruct (dm_is_view E m) eqn:Ev.
  - unfold dm_repack in Hp.
    replace (dm_rows m * dm_cols m <? 0) with false in Hp by nia.
    destruct ((dm_rows m <=? 0) || (dm_cols m <=? 0)) eqn:Ez.
    + inversion Hp; subst; clear Hp.
      assert (dm_rows m * dm_cols m = 0) as Z0 by nia. rewrite Z0. simpl.
      split; [reflexivity|]. split; [intros; nia|intros e []].
    + assert (0 < dm_rows m /\ 0 < dm_cols m) as [Hr Hc] by lia.
      apply mapR_zrange in Hp as [Hlen Hk]; [|nia].
      split; [assumption|]. split.
      * intros i j Hi Hj. destruct (Hk (i * dm_cols m + j)) as (y & Hy & Hn); [nia|].
        destruct (divmod_rc i j (dm_cols m) Hj) as [Hd Hm]. rewrite Hd, Hm in Hy. eauto.
      * intros e Hin. apply In_nth_error in Hin as [n Hn].
        assert (Z.of_nat n < zlen vals) as Hlt.
        { unfold zlen. assert (n < length vals)%nat by (apply nth_error_Some; congruence). lia. }
        destruct (Hk (Z.of_nat n)) as (y & Hy & Hzn); [lia|].
        unfold znth in Hzn. replace (Z.of_nat n <? 0) with false in Hzn by lia.
        rewrite Nat2Z.id, Hn in Hzn. inversion Hzn; subst y.
        assert (0 < dm_cols m) as Hc' by assumption.
        pose proof (Z.mod_pos_bound (Z.of_nat n) (dm_cols m) Hc').
        assert (0 <= Z.of_nat n / dm_cols m < dm_rows m).
        { split; [apply Z.div_pos; lia|]. apply Z.div_lt_upper_bound; nia. }
        destruct (dm_at_wf m _ _ Hwf H0 H) as (e' & He' & Hin'). congruence.
  - inversion Hp; subst; clear Hp.
    unfold dm_is_view in Ev. apply orb_false_elim in Ev as [Ev Ec]. apply orb_false_elim in Ev as [Et Er].
    assert (dm_rmax m = dm_rows m /\ dm_roff m = 0 /\ dm_cmax m = dm_cols m /\ dm_coff m = 0) as (Q1 & Q2 & Q3 & Q4) by lia.
    split; [rewrite H7, Q1, Q3; reflexivity|]. split; [|auto].
    intros i j Hi Hj. destruct (dm_at_wf m i j Hwf Hi Hj) as (e & He & _). exists e; split; [assumption|].
    revert He. unfold Model.dm_at, Model.dm_index. rewrite Et, Q2, Q3, Q4.
    replace ((i <? 0) || (j <? 0) || (i >=? dm_rows m) || (j >=? dm_cols m)) with false by lia.
    replace ((0 + i) * dm_cols m + (0 + j)) with (i * dm_cols m + j) by lia.
    destruct (znth (dm_vals m) (i * dm_cols m + j)); [intros G; inversion G; reflexivity|discriminate].
Qed.

(* ---------------------------------------------------------------- the round trip, all views *)
Lemma dm_roundtrip (m : dmat E) d b :
  wf_dm m -> dm_rows m * dm_cols m < 2^63 -> Forall good (dm_vals m) ->
  write_dm E D wr ezero m = Ok d ->
  exists m', read_dm E D rd b d = Ok m' /\ wf_dm m' /\ dm_obs_eq R m m'.
Proof.
  intros Hwf Hbound Hg Hw. unfold write_dm in Hw. fold (packed m) in Hw.
  apply bind_ok in Hw as (vals & Hv & Hw). apply bind_ok in Hw as (docs & Hd & Hw). inversion Hw; subst d; clear Hw.
  destruct (packed_spec m vals Hwf Hv) as (Hlen & Hat & Hin).
  assert (Forall good vals) as Hgv.
  { apply Forall_forall. intros e He. eapply Forall_forall in Hg; [eassumption|]. apply Hin; assumption. }
  destruct (list_roundtrip _ _ Hgv Hd) as (vals' & Hr & HF).
  pose proof Hwf as (H1 & H2 & H3 & H4 & H5 & H6 & H7).
  assert (zlen docs = dm_rows m * dm_cols m) as Hlend.
  { apply mapR_Forall2 in Hd. apply Forall2_length' in Hd. unfold zlen in *. lia. }
  unfold read_dm; simpl. rewrite Hr; simpl.
  rewrite wrap64_small by nia. rewrite Hlend, Z.eqb_refl.
  rewrite dims_good by lia. simpl.
  eexists; split; [reflexivity|].
  assert (zlen vals' = dm_rows m * dm_cols m) as Hlen'.
  { apply Forall2_length' in HF. unfold zlen in *. lia. }
  split; [apply wf_dm_full; assumption|].
  unfold dm_obs_eq; simpl. split; [reflexivity|]. split; [reflexivity|].
  intros i j Hi Hj. destruct (Hat i j Hi Hj) as (e & He & Hn).
  destruct (Forall2_znth _ _ _ _ _ HF Hn) as (e' & Hn' & HR).
  exists e, e'. split; [assumption|]. split; [|assumption].
  unfold Model.dm_at, Model.dm_index; simpl.
  replace ((i <? 0) || (j <? 0) || (i >=? dm_rows m) || (j >=? dm_cols m)) with false by lia.
  replace ((0 + i) * dm_cols m + (0 + j)) with (i * dm_cols m + j) by lia. rewrite Hn'. reflexivity.
Qed.

(* the writer never fails structurally on a well-formed view: only the element codec can refuse *)
Lemma packed_total (m : dmat E) : wf_dm m -> exists vals, packed m = Ok vals.
Proof.
  intros Hwf. pose proof Hwf as (H1 & H2 & H3 & H4 & H5 & H6 & H7).
  unfold packed. destruct (dm_is_view E m); [|eauto]. unfold dm_repack.
  replace (dm_rows m * dm_cols m <? 0) with false by nia.
  destruct ((dm_rows m <=? 0) || (dm_cols m <=? 0)) eqn:Ez; [eauto|].
  assert (0 < dm_rows m /\ 0 < dm_cols m) as [Hr Hc] by lia.
  apply mapR_zrange_total. intros k Hk.
  pose proof (Z.mod_pos_bound k (dm_cols m) Hc).
  assert (0 <= k / dm_cols m < dm_rows m).
  { split; [apply Z.div_pos; lia|]. apply Z.div_lt_upper_bound; nia. }
  destruct (dm_at_wf m _ _ Hwf H0 H) as (e & He & _). eauto.
Qed.

(* ---------------------------------------------------------------- the reader's validation (d37b260, 6dfd87a) *)
(* reader safety at full strength: every accepted document gives a well-formed matrix of the stated dimensions *)
Lemma read_dm_safe d m b :
  read_dm E D rd b d = Ok m ->
  wf_dm m /\ dm_rows m = dmd_rows d /\ dm_cols m = dmd_cols d /\ zlen (dm_vals m) = zlen (dmd_values d).
Proof.
  unfold read_dm. intros H. apply bind_ok in H as (vals & Hv & H).
  destruct (dims_bad (dmd_rows d) (dmd_cols d) || negb (zlen (dmd_values d) =? wrap64 (dmd_rows d * dmd_cols d))) eqn:Ec;
    [discriminate|].
  inversion H; subst; simpl; clear H.
  apply orb_false_elim in Ec as [Ed El]. apply dims_ok in Ed as (Hr & Hc & Hw).
  apply negb_false_iff in El. apply Z.eqb_eq in El. rewrite Hw in El.
  apply mapR_Forall2 in Hv. apply Forall2_length' in Hv.
  assert (zlen vals = zlen (dmd_values d)) as Hl by (unfold zlen; lia).
  split; [|repeat split; assumption].
  unfold wf_dm; simpl. rewrite Hl, El. repeat split; lia.
Qed.

(* no panic: the element reader is the only thing that runs before the checks *)
Lemma mapR_no_panic (l : list D) :
  (forall x, rd x <> Panic /\ rd x <> Crash) -> mapR rd l <> Panic /\ mapR rd l <> Crash.
Proof.
  intros Hrd. induction l as [|x l IH]; simpl; [split; discriminate|].
  destruct (Hrd x) as [H1 H2]. destruct (rd x); simpl; try contradiction; try (split; discriminate).
  destruct IH as [I1 I2]. destruct (mapR rd l); simpl; try contradiction; split; discriminate.
Qed.
Lemma read_dm_total d b :
  (forall x, rd x <> Panic /\ rd x <> Crash) -> read_dm E D rd b d <> Panic /\ read_dm E D rd b d <> Crash.
Proof.
  intros Hrd. unfold read_dm. destruct (mapR_no_panic (dmd_values d) Hrd) as [H1 H2].
  destruct (mapR rd (dmd_values d)); simpl; try contradiction; try (split; discriminate).
  destruct (_ || _); split; discriminate.
Qed.
Lemma read_dv_total d :
  (forall x, rd x <> Panic /\ rd x <> Crash) -> read_dv E D rd d <> Panic /\ read_dv E D rd d <> Crash.
Proof. apply mapR_no_panic. Qed.

End Dense.

(* ---------------------------------------------------------------- integer instance *)
Definition Zrdm := read_dm Z Z (read_plain Z Z Zparse) false.

(* witnesses of the retired F-JSON-DENSE and of F-JSON-DENSE-OVERFLOW (found in round 3 in the first fix, repaired
   by 6dfd87a: 2^32 * 2^32 wraps to 0 = len([]); 3 * 0x5555555555555556 = 2^64 + 2): errors now *)
Lemma dense_reader_regression :
  Zrdm (mkDmDoc [] 1 1) = Err /\ Zrdm (mkDmDoc [1; 2; 3] 2 2) = Err /\ Zrdm (mkDmDoc [] (-1) 0) = Err /\
  Zrdm (mkDmDoc [] (2^32) (2^32)) = Err /\ Zrdm (mkDmDoc [1; 2] 6148914691236517206 3) = Err /\
  read_dm Z Z (read_plain Z Z Zparse) true (mkDmDoc [] (-1) 0) = Err /\
  read_dm Z Z (read_plain Z Z Zparse) true (mkDmDoc [] 0 (-1)) = Err /\
  Zrdm (mkDmDoc [1; 2] 1 2) = Ok (mkDm [1; 2] 1 2 0 1 0 2 false).
Proof. repeat split; reflexivity. Qed.
