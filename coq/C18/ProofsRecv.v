(* C18 — round 5: the result of a decoder does not depend on the state of the receiver. *)
From Coq Require Import ZArith List Bool Lia.
From ADV Require Import C18.Model C18.Spec C18.TableModel C18.RecvModel.
Import ListNotations.
Open Scope Z_scope.

(* same outcome kind, related values *)
Definition res_rel {A} (R : A -> A -> Prop) (a b : res A) : Prop :=
  match a, b with
  | Ok x, Ok y => R x y
  | Err, Err => True
  | Panic, Panic => True
  | Crash, Crash => True
  | _, _ => False
  end.

(* two Reals every getter tells apart in nothing: the Hessian FIELD may differ below order 2, where no getter reads it *)
Definition real_same {F} (a b : real F) : Prop :=
  rval a = rval b /\ rorder a = rorder b /\ rn a = rn b /\ rderiv a = rderiv b /\
  (2 <= rorder a -> rhess a = rhess b).

Section RecvProofs.
Variables F T : Type.
Variable zero : F.
Variable nz : F -> bool.
Variable parseJ : T -> option F.

Notation rinto := (read_real_into F T zero parseJ).
Notation rfresh := (read_real F T zero parseJ).

Lemma real_same_getters : forall a b : real F, real_same a b ->
  (forall i, getD F zero a i = getD F zero b i) /\ (forall i j, getH F zero a i j = getH F zero b i j).
Proof.
  intros a b (Hv & Ho & Hn & Hd & Hh). split.
  - intros i. unfold getD. rewrite Ho, Hd. reflexivity.
  - intros i j. unfold getH. rewrite <- Ho. destruct (rorder a >=? 2) eqn:E; [|reflexivity].
    rewrite Hh by lia. reflexivity.
Qed.

Lemma mapM_length : forall {A B} (f : A -> option B) l l', mapM f l = Some l' -> length l' = length l.
Proof.
  induction l as [|x l IH]; intros l' H; simpl in H.
  - inversion H. reflexivity.
  - destruct (f x); [|discriminate]. destruct (mapM f l) eqn:E; [|discriminate].
    inversion H; subst. simpl. f_equal. apply IH. reflexivity.
Qed.

(* a fresh receiver: the reader of Model.v *)
Lemma real_into_fresh : forall v d, rinto (mkReal v 0 0 [] []) d = rfresh d.
Proof.
  intros v d. destruct d as [t|tv td th]; simpl.
  - destruct (parseJ t); reflexivity.
  - destruct (parseJ tv) as [x|]; simpl; [|reflexivity].
    destruct (parse_list F T parseJ _) as [D| | |]; simpl; try reflexivity.
    destruct (parse_rows F T parseJ _) as [H| | |]; simpl; try reflexivity.
    destruct D as [|d0 D]; destruct H as [|h0 H]; reflexivity.
Qed.

Lemma alloc_same : forall (a b : real F) n o, rval a = rval b -> 1 <= o ->
  let a' := real_alloc F zero a n o in let b' := real_alloc F zero b n o in
  rval a' = rval b' /\ rorder a' = o /\ rorder b' = o /\ rn a' = n /\ rn b' = n.
Proof.
  intros a b n o Hv Ho. unfold real_alloc.
  destruct (negb (rn a =? n) || negb (rorder a =? o)) eqn:Ea;
  destruct (negb (rn b =? n) || negb (rorder b =? o)) eqn:Eb;
  replace (o >=? 1) with true by lia; simpl;
  repeat match goal with
  | H : _ || _ = false |- _ => apply orb_false_elim in H; destruct H
  | H : negb _ = false |- _ => apply negb_false_iff in H; apply Z.eqb_eq in H
  end; repeat split; auto.
Qed.

(* THE DOCUMENT CARRIES DERIVATIVES: the result is the same object whatever the receiver was *)
Lemma real_into_indep : forall old old' d, sdoc_carries T d = true ->
  res_rel real_same (rinto old d) (rinto old' d).
Proof.
  intros old old' d Hc. destruct d as [t|tv td th]; [discriminate|]. simpl.
  destruct (parseJ tv) as [x|]; simpl; [|exact I].
  destruct (parse_list F T parseJ _) as [D| | |] eqn:ED; simpl; try exact I.
  destruct (parse_rows F T parseJ _) as [H| | |] eqn:EH; simpl; try exact I.
  assert (Hne : D <> [] \/ H <> []).
  { unfold parse_list, of_opt in ED. unfold parse_rows, of_opt in EH.
    destruct (mapM parseJ _) as [D'|] eqn:E1 in ED; [|discriminate]. inversion ED; subst D'.
    destruct (mapM (mapM parseJ) _) as [H'|] eqn:E2 in EH; [|discriminate]. inversion EH; subst H'.
    apply mapM_length in E1. apply mapM_length in E2.
    simpl in Hc. destruct td as [[|t0 td]|]; destruct th as [[|h0 th]|]; try discriminate;
    simpl in E1, E2; try (left; intros ->; discriminate); try (right; intros ->; discriminate). }
  destruct D as [|d0 D]; destruct H as [|h0 H].
  - destruct Hne as [Hn|Hn]; exfalso; apply Hn; reflexivity.
  - destruct (negb (rows_len F (zlen (h0 :: H)) (h0 :: H))); [exact I|]. simpl.
    destruct (alloc_same (real_set_val F x old) (real_set_val F x old') (zlen (h0 :: H)) 2 eq_refl ltac:(lia))
      as (Hv & Ho & Ho' & Hn1 & Hn2).
    unfold real_same, real_set_hess, real_set_deriv; simpl. repeat split; auto; lia.
  - simpl.
    destruct (alloc_same (real_set_val F x old) (real_set_val F x old') (zlen (d0 :: D)) 1 eq_refl ltac:(lia))
      as (Hv & Ho & Ho' & Hn1 & Hn2).
    unfold real_same, real_set_deriv; simpl. repeat split; auto; try lia.
  - destruct (negb (zlen (h0 :: H) =? zlen (d0 :: D))); [exact I|].
    destruct (negb (rows_len F (zlen (d0 :: D)) (h0 :: H))); [exact I|]. simpl.
    destruct (alloc_same (real_set_val F x old) (real_set_val F x old') (zlen (d0 :: D)) 2 eq_refl ltac:(lia))
      as (Hv & Ho & Ho' & Hn1 & Hn2).
    unfold real_same, real_set_hess, real_set_deriv; simpl. repeat split; auto; lia.
Qed.

Lemma real_into_vs_fresh : forall old d, sdoc_carries T d = true ->
  res_rel real_same (rfresh d) (rinto old d).
Proof.
  intros old d Hc. rewrite <- (real_into_fresh zero d). apply real_into_indep. exact Hc.
Qed.

(* THE DOCUMENT CARRIES NO DERIVATIVES: only the value is assigned; the rest of the receiver survives *)
Definition sdoc_value (d : sdoc T) : T := match d with SNum t => t | SObj v _ _ => v end.
Lemma real_into_const : forall old d, sdoc_carries T d = false ->
  rinto old d = (x <- of_opt (parseJ (sdoc_value d)) ;; Ok (real_set_val F x old)).
Proof.
  intros old d Hc. destruct d as [t|tv td th]; [reflexivity|]. simpl.
  destruct (parseJ tv) as [x|]; simpl; [|reflexivity].
  destruct td as [[|t0 td]|]; destruct th as [[|h0 th]|]; try discriminate; reflexivity.
Qed.

(* ---------------------------------------------------------------- containers: plain equalities *)
Section Cont.
Variables E D : Type.
Variable rd : D -> res E.

Lemma dv_into_indep : forall old d, read_dv_into E D rd old d = read_dv E D rd d.
Proof. intros old d. unfold read_dv_into, read_dv. destruct (mapR rd d); reflexivity. Qed.

Lemma dm_into_indep : forall b old d, read_dm_into E D rd old d = read_dm E D rd b d.
Proof.
  intros b old d. unfold read_dm_into, read_dm. destruct (mapR rd (dmd_values d)); reflexivity.
Qed.

(* every field of the result comes from the document *)
Lemma dm_into_header : forall old d m, read_dm_into E D rd old d = Ok m ->
  dm_rows m = dmd_rows d /\ dm_cols m = dmd_cols d /\ dm_roff m = 0 /\ dm_rmax m = dmd_rows d /\
  dm_coff m = 0 /\ dm_cmax m = dmd_cols d /\ dm_tr m = false /\ mapR rd (dmd_values d) = Ok (dm_vals m).
Proof.
  intros old d m. unfold read_dm_into. destruct (mapR rd (dmd_values d)); simpl; try discriminate.
  destruct (dims_bad _ _ || _); [discriminate|]. intros H. inversion H; subst. simpl. repeat split; reflexivity.
Qed.
End Cont.

Lemma tmps_indep : forall t t' rows cols, init_tmp t rows cols = init_tmp t' rows cols /\
  init_tmp t rows cols = (Some rows, Some cols).
Proof.
  intros [a b] [a' b'] rows cols. unfold init_tmp, init_tmp1; simpl.
  destruct a as [l|]; [destruct (l <? rows)|]; destruct b as [l2|]; try destruct (l2 <? cols);
  destruct a' as [l'|]; try destruct (l' <? rows); destruct b' as [l2'|]; try destruct (l2' <? cols); split; reflexivity.
Qed.

Lemma sv_into_indep : forall old d, read_sv_into F T nz parseJ old d = read_sv F T nz parseJ d.
Proof.
  intros old d. unfold read_sv_into. destruct (read_sv F T nz parseJ d) as [[ents n]| | |]; reflexivity.
Qed.

Lemma sm_into_indep : forall old d, read_sm_into F T nz parseJ old d = read_sm F T nz parseJ d.
Proof.
  intros old d. unfold read_sm_into, read_sm. destruct (parse_list F T parseJ (smd_value d)) as [a| | |]; reflexivity.
Qed.

End RecvProofs.

(* ---------------------------------------------------------------- table Import *)
Section TableRecvProofs.
Variables F T : Type.
Variable nz : F -> bool.
Variable parseT : T -> option F.
Variable parseI : T -> option Z.

Lemma import_dv_into_indep : forall old f, import_dv_into F T parseT old f = import_dv F T parseT f.
Proof. intros old f. reflexivity. Qed.

Lemma import_dm_into_indep : forall real old f, import_dm_into F T parseT real old f = import_dm F T parseT real f.
Proof.
  intros real old f. unfold import_dm_into. destruct (import_dm F T parseT real f) as [[? ? ? ? ? ? ? ?]| | |]; reflexivity.
Qed.

Lemma import_sv_into_indep : forall old f, import_sv_into F T nz parseT parseI old f = import_sv F T nz parseT parseI f.
Proof.
  intros old f. unfold import_sv_into. destruct (import_sv F T nz parseT parseI f) as [[? ?]| | |]; reflexivity.
Qed.

Lemma import_sm_into_indep : forall old f, import_sm_into F T nz parseT parseI old f = import_sm F T nz parseT parseI f.
Proof.
  intros old f. unfold import_sm_into. destruct (import_sm F T nz parseT parseI f) as [[? ? ? ? ? ? ?]| | |]; reflexivity.
Qed.
End TableRecvProofs.

(* ---------------------------------------------------------------- the open defect, on integers *)
(* a bare number decoded into a Real that has a gradient: the gradient survives; a fresh receiver has none; the
   second-generation document is not the first *)
Lemma real_into_stale_refuted :
  let old := mkReal 1 1 1 [5] [] in
  read_real_into Z Z 0 Zparse old (SNum 3) = Ok (mkReal 3 1 1 [5] []) /\
  read_real Z Z 0 Zparse (SNum 3) = Ok (mkReal 3 0 0 [] []) /\
  getD Z 0 (mkReal 3 1 1 [5] []) 0 = Ok 5 /\ getD Z 0 (mkReal 3 0 0 [] []) 0 = Ok 0 /\
  write_real Z Z Znz Zfmt (mkReal 3 1 1 [5] []) = Ok (SObj 3 (Some [5]) None) /\
  write_real Z Z Znz Zfmt (mkReal 3 0 0 [] []) = Ok (SNum 3) /\
  read_real_into Z Z 0 Zparse old (SObj 3 None None) = Ok (mkReal 3 1 1 [5] []).
Proof. vm_compute. repeat split; reflexivity. Qed.

(* second generation through recycled receivers, dense matrices with an exact element codec: the document written
   from what was decoded into ANY receiver is the first document, and decoding it into ANY other receiver gives
   the same object *)
Lemma mapR_id_roundtrip : forall {E D} (wr : E -> res D) (rd : D -> res E),
  (forall d e, rd d = Ok e -> wr e = Ok d) ->
  forall ds es, mapR rd ds = Ok es -> mapR wr es = Ok ds.
Proof.
  intros E D wr rd Hc. induction ds as [|d ds IH]; intros es H; simpl in H.
  - inversion H. reflexivity.
  - destruct (rd d) as [e| | |] eqn:E1; simpl in H; try discriminate.
    destruct (mapR rd ds) as [es'| | |] eqn:E2; simpl in H; try discriminate.
    inversion H; subst. simpl. rewrite (Hc _ _ E1). simpl. rewrite (IH _ eq_refl). reflexivity.
Qed.

Lemma dm_second_generation : forall E D (wr : E -> res D) (rd : D -> res E) ezero,
  (forall d e, rd d = Ok e -> wr e = Ok d) ->
  forall old1 old2 d m1, read_dm_into E D rd old1 d = Ok m1 ->
  write_dm E D wr ezero m1 = Ok d /\ read_dm_into E D rd old2 d = Ok m1.
Proof.
  intros E D wr rd ezero Hc old1 old2 d m1 H1.
  pose proof (dm_into_header E D rd old1 d m1 H1) as (Hr & Hcn & Hro & Hrm & Hco & Hcm & Htr & Hv).
  split.
  - unfold write_dm, dm_is_view. rewrite Htr, Hrm, Hr, Hcm, Hcn. simpl.
    replace (dmd_rows d >? dmd_rows d) with false by lia. replace (dmd_cols d >? dmd_cols d) with false by lia. simpl.
    rewrite (mapR_id_roundtrip wr rd Hc _ _ Hv). simpl. destruct d; reflexivity.
  - rewrite (dm_into_indep E D rd false old2 d), <- (dm_into_indep E D rd false old1 d). exact H1.
Qed.
