(* C18, round 7 — containers whose elements carry DIFFERENT amounts of derivative information: the format of every element's
   document is chosen from that element alone, and the derivatives survive position by position, whatever stands in front. *)
From Coq Require Import ZArith List Bool Lia.
From ADV Require Import C18.Model C18.Spec C18.ProofsBase C18.ProofsScalar C18.ProofsDense C18.ProofsInst.
Import ListNotations.
Open Scope Z_scope.

Lemma Forall2_nth_error_l {A B} (R : A -> B -> Prop) l l' :
  Forall2 R l l' -> forall i a, nth_error l i = Some a -> exists b, nth_error l' i = Some b /\ R a b.
Proof.
  intros H. induction H as [|x y l l' Hxy H IH]; intros i a Hi.
  - destruct i; discriminate.
  - destruct i as [|i]; simpl in *.
    + inversion Hi; subst. exists y. split; [reflexivity|exact Hxy].
    + apply IH. exact Hi.
Qed.

Lemma Forall2_len {A B} (R : A -> B -> Prop) l l' : Forall2 R l l' -> length l = length l'.
Proof. intros H. induction H; simpl; congruence. Qed.

Lemma dv_write_elementwise E D (wr : E -> res D) v d :
  write_dv E D wr v = Ok d ->
  length d = length v /\
  forall i e, nth_error v i = Some e -> exists x, nth_error d i = Some x /\ wr e = Ok x.
Proof.
  intros H. unfold write_dv in H. apply mapR_Forall2 in H. split.
  - symmetry. eapply Forall2_len. exact H.
  - intros i e Hi. eapply Forall2_nth_error_l in H as (x & Hx & Hw); [|exact Hi]. exists x. split; assumption.
Qed.

Section Mixed.
Variables F T : Type.
Variable zero : F.
Variable nz : F -> bool.
Variable fmtJ : F -> option T.
Variable parseJ : T -> option F.
Hypothesis nz_zero : nz zero = false.
Hypothesis fmt_parse : forall x t, fmtJ x = Some t -> parseJ t = Some x.

Lemma dense_real_vector_positionwise v d :
  Forall (wf_real F) v -> write_dv (real F) (sdoc T) (write_real F T nz fmtJ) v = Ok d ->
  exists v', read_dv (real F) (sdoc T) (read_real F T zero parseJ) d = Ok v' /\ length v' = length v /\
    forall i r, nth_error v i = Some r ->
      exists r', nth_error v' i = Some r' /\ rval r' = rval r /\
        (real_t1 F nz r = Ok true -> rn r' = rn r /\ rderiv r' = rderiv r) /\
        (real_t2 F nz r = Ok true -> rhess r' = rhess r).
Proof.
  intros Hwf Hw.
  destruct (dense_real_vector F T zero nz fmtJ parseJ nz_zero fmt_parse v d Hwf Hw) as (v' & Hr & H2).
  exists v'. split; [exact Hr|]. split; [symmetry; eapply Forall2_len; exact H2|].
  intros i r Hi. eapply Forall2_nth_error_l in H2 as (r' & Hr' & Hobs); [|exact Hi].
  exists r'. split; [exact Hr'|]. destruct Hobs as (Hv & _ & _ & H1 & H3). split; [exact Hv|]. split; assumption.
Qed.

Lemma dense_real_matrix_positionwise (m : dmat (real F)) d ez :
  wf_dm m -> dm_rows m * dm_cols m < 2^63 -> Forall (wf_real F) (dm_vals m) ->
  write_dm (real F) (sdoc T) (write_real F T nz fmtJ) ez m = Ok d ->
  exists m', read_dm (real F) (sdoc T) (read_real F T zero parseJ) true d = Ok m' /\
    dm_rows m' = dm_rows m /\ dm_cols m' = dm_cols m /\
    forall i j, 0 <= i < dm_rows m -> 0 <= j < dm_cols m ->
      exists r r', dm_at (real F) m i j = Ok r /\ dm_at (real F) m' i j = Ok r' /\ rval r' = rval r /\
        (real_t1 F nz r = Ok true -> rn r' = rn r /\ rderiv r' = rderiv r) /\
        (real_t2 F nz r = Ok true -> rhess r' = rhess r).
Proof.
  intros Hwf Hb Hg Hw.
  destruct (dense_real_matrix F T zero nz fmtJ parseJ nz_zero fmt_parse m d ez Hwf Hb Hg Hw) as (m' & Hr & _ & Hr0 & Hc0 & Hat).
  exists m'. split; [exact Hr|]. split; [exact Hr0|]. split; [exact Hc0|].
  intros i j Hi Hj. destruct (Hat i j Hi Hj) as (r & r' & Ha & Ha' & Hobs).
  exists r, r'. split; [exact Ha|]. split; [exact Ha'|].
  destruct Hobs as (Hv & _ & _ & H1 & H3). split; [exact Hv|]. split; assumption.
Qed.
End Mixed.

(* a vector whose element 0 is a constant and whose tail carries a gradient and a Hessian: three different document shapes *)
Definition mixed_witness : list (real Z) :=
  [mkReal 1 0 0 [] []; mkReal 2 1 1 [5] []; mkReal 3 2 2 [0; 0] [[0; 7]; [7; 0]]].
Lemma mixed_witness_written :
  Forall (wf_real Z) mixed_witness /\
  write_dv (real Z) (sdoc Z) (write_real Z Z Znz Zfmt) mixed_witness =
    Ok [SNum 1; SObj 2 (Some [5]) None; SObj 3 None (Some [[0; 7]; [7; 0]])] /\
  read_dv (real Z) (sdoc Z) (read_real Z Z 0 Zparse) [SNum 1; SObj 2 (Some [5]) None; SObj 3 None (Some [[0; 7]; [7; 0]])] =
    Ok mixed_witness.
Proof.
  split; [|split; vm_compute; reflexivity].
  apply Forall_forall. intros r [H|[H|[H|[]]]]; subst; unfold wf_real, zlen; simpl;
    repeat split; try lia; intros; repeat constructor; try reflexivity; try lia.
Qed.
