(* C18 (round 6) — the rows behind the constructors: every constructor has its row, and the (registry, key) pairs are
   pairwise distinct — looking a name up in a registry determines the constructor the models dispatch on. *)
From Coq Require Import String List Bool.
From ADV Require Import C18.ConfigModel C18.ConfigModelV C18.RegistryModel.
Import ListNotations.

Lemma all_fams_complete : forall f, In f all_fams.
Proof. destruct f; simpl; tauto. Qed.
Lemma all_nnames_complete : forall n, In n all_nnames.
Proof. destruct n; simpl; tauto. Qed.
Lemma model_keys_distinct : nodupb key_eqb (map row_key model_rows) = true.
Proof. vm_compute. reflexivity. Qed.
Lemma model_ctors_distinct : nodupb String.eqb (map r_ctor model_rows) = true.
Proof. vm_compute. reflexivity. Qed.
Lemma model_rows_count : length model_rows = 28.
Proof. reflexivity. Qed.
(* every modelled type writes, in ExportConfig, the key it is registered under: by construction of the rows the
   two are one field; what the sources say is compared with it on every run (RegistryCorr.exports_ok) *)
Lemma fam_rows_scalar : forall f r, fam_row f = Some r -> (scalar_fam f = true <-> r_level r = LS).
Proof. intros f r H. destruct f; inversion H; subst; simpl; split; intros; try reflexivity; try discriminate. Qed.
Lemma nname_rows_level : forall n, r_level (nname_row n) <> LS.
Proof. destruct n; discriminate. Qed.
