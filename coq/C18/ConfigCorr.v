(* C18 correspondence for distribution configurations: ConfigModel instantiated at binary64.
   log / exp / the mixture normalisation are not available bit-exactly inside Coq: parameters that pass
   through them (categorical probabilities, binomial theta, mixture weights) are compared by COUNT here
   (their values are compared, with a tolerance, by the harness oracle); every other parameter, the
   document structure and every outcome kind are compared exactly. *)
From Coq Require Import ZArith List Bool Floats.
From ADV Require Import Base.Corr C18.Model C18.Corr C18.TableModel C18.TableCorr C18.ConfigModel.
Import ListNotations.
Open Scope Z_scope.

Definition z2f (z : Z) : float :=
  if (z <? - 2 ^ 63) || (z >=? 2 ^ 63) then (- (of_uint63 (Uint63.of_Z (2 ^ 62)) * 2))%float
  else if z <? 0 then (- of_uint63 (Uint63.of_Z (- z)))%float else of_uint63 (Uint63.of_Z z).
(* float64(int(x)) *)
Definition c_trunc (x : float) : float := z2f (f_trunc x).
Definition idf (x : float) : float := x.
Definition idl (l : list float) : list float := l.

Definition C_import := import_top float 0%float 1%float PrimFloat.leb PrimFloat.ltb PrimFloat.eqb idf c_trunc idl.
Definition C_export := export float idf.

Definition fl_eqb := list_eqb f_eqb.
Definition len_eqb (a b : list float) : bool := (length a =? length b)%nat.

(* parameters of a distribution: exact, except where log / exp / norm were applied *)
Definition params_match (f : fam) (a b : list float) : bool :=
  match f with
  | FCategorical | FMixture => len_eqb a b
  | FBinomial => len_eqb a b && fl_eqb (tl a) (tl b)
  | _ => fl_eqb a b
  end.
Fixpoint dist_match (a b : dist float) : bool :=
  match a, b with
  | Dist f ps ds, Dist f' ps' ds' =>
      fam_eqb f f' && params_match f ps ps' &&
      (fix go (l l' : list (dist float)) : bool :=
         match l, l' with
         | [], [] => true
         | x :: r, y :: r' => dist_match x y && go r r'
         | _, _ => false
         end) ds ds'
  end.

Fixpoint jv_eqb (a b : jv float) : bool :=
  match a, b with
  | JNull, JNull => true
  | JNum x, JNum y => f_eqb x y
  | JOther, JOther => true
  | JArr l, JArr l' =>
      (fix go (l l' : list (jv float)) : bool :=
         match l, l' with
         | [], [] => true
         | x :: r, y :: r' => jv_eqb x y && go r r'
         | _, _ => false
         end) l l'
  | _, _ => false
  end.
Definition jv_len_eqb (a b : jv float) : bool :=
  match a, b with JArr l, JArr l' => (length l =? length l')%nat | _, _ => jv_eqb a b end.
(* the document: names, children and parameters (exp-exported parameters by count) *)
Fixpoint cfg_match (a b : cfg float) : bool :=
  match a, b with
  | Cfg f p ds, Cfg f' p' ds' =>
      fam_eqb f f' &&
      (match f with FCategorical | FMixture => jv_len_eqb p p' | _ => jv_eqb p p' end) &&
      (fix go (l l' : list (cfg float)) : bool :=
         match l, l' with
         | [], [] => true
         | x :: r, y :: r' => cfg_match x y && go r r'
         | _, _ => false
         end) ds ds'
  end.

Inductive ccase : Type :=
(* d as observed (GetParameters of every node), the document Go produced (ExportConfig -> JSON -> Unmarshal),
   and what ImportScalarPdfConfig / ImportVectorPdfConfig made of it *)
| CRt (d : dist float) (doc : cfg float) (gr : res (dist float))
(* a (malformed) document (Err: rejected by encoding/json) and Go's import outcome *)
| CMal (doc : res (cfg float)) (gr : res (dist float)).

Definition ccheck (c : ccase) : bool :=
  match c with
  | CRt d doc gr => cfg_match (C_export d) doc && res_eqb dist_match (C_import doc) gr
  | CMal doc gr => res_eqb dist_match (bind doc C_import) gr
  end.
Definition cmism (cs : list ccase) : list nat := mismatches ccheck cs.
