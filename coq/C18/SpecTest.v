(* C18 — the statements tried on examples (vm_compute) before they were proved. *)
From Coq Require Import ZArith List Bool.
From ADV Require Import C18.Model C18.Spec.
Import ListNotations.
Open Scope Z_scope.

Definition wrZ := write_real Z Z Znz Zfmt.
Definition rdZ := read_real Z Z 0 Zparse.

Example real_dh : (d <- wrZ (mkReal 3 2 2 [1; 0] [[0; 2]; [2; 0]]) ;; rdZ d) = Ok (mkReal 3 2 2 [1; 0] [[0; 2]; [2; 0]]).
Proof. reflexivity. Qed.
Example real_d : (d <- wrZ (mkReal 3 2 2 [1; 0] [[0; 0]; [0; 0]]) ;; rdZ d) = Ok (mkReal 3 1 2 [1; 0] []).
Proof. reflexivity. Qed.
Example real_plain : (d <- wrZ (mkReal 3 2 2 [0; 0] [[0; 0]; [0; 0]]) ;; rdZ d) = Ok (mkReal 3 0 0 [] []).
Proof. reflexivity. Qed.

(* a 3x4 matrix, transposed, sliced, transposed again: the writer repacks *)
Definition m34 : dmat Z := mkDm [1;2;3;4; 5;6;7;8; 9;10;11;12] 3 4 0 3 0 4 false.
Definition view1 := dm_T Z (dm_slice Z (dm_T Z m34) 1 4 0 2).   (* rows 0..1, cols 1..3 of m34 *)
Example view1_written :
  write_dm Z Z (write_plain Z Z Zfmt) 0 view1 = Ok (mkDmDoc [2;3;4; 6;7;8] 2 3).
Proof. reflexivity. Qed.
Example view1_read :
  (d <- write_dm Z Z (write_plain Z Z Zfmt) 0 view1 ;; read_dm Z Z (read_plain Z Z Zparse) false d)
  = Ok (mkDm [2;3;4; 6;7;8] 2 3 0 2 0 3 false).
Proof. reflexivity. Qed.

(* sparse vector with an explicit zero and a negative zero-like entry: dropped by the writer *)
Example sv_rt :
  (d <- write_sv Z Z Zfmt Z (fun z => z) (fun z => negb (Znz z)) (mkSv [(1, 5); (2, 0); (4, 7)] 6) ;;
   read_sv Z Z Znz Zparse d) = Ok (mkSv [(1, 5); (4, 7)] 6).
Proof. reflexivity. Qed.

(* sparse matrix slice whose parent has no entry outside the slice *)
Example sm_rt :
  (d <- write_sm Z Z Zfmt Z (fun z => z) (fun z => negb (Znz z)) (mkSm (mkSv [(4, 1); (8, 2)] 9) 2 2 1 3 1 3) ;;
   read_sm Z Z Znz Zparse d) = Ok (mkSm (mkSv [(0, 1); (3, 2)] 4) 2 2 0 2 0 2).
Proof. reflexivity. Qed.

(* since 500dcc2: zero gradient + non-zero Hessian comes back with a zero gradient of the right length *)
Example real_h : (d <- wrZ (mkReal 3 2 2 [0; 0] [[0; 2]; [2; 0]]) ;; rdZ d) = Ok (mkReal 3 2 2 [0; 0] [[0; 2]; [2; 0]]).
Proof. reflexivity. Qed.
(* since b9c30c8: the Hessian must be N x N *)
Example real_ragged : rdZ (SObj 1 (Some [1]) (Some [[1; 2]; [3]])) = Err.
Proof. reflexivity. Qed.
(* since a328708 / d37b260: malformed containers are errors *)
Example sv_bad : map (read_sv Z Z Znz Zparse) [mkSvDoc [1] [1] 1; mkSvDoc [0; 0] [0; 1] 1; mkSvDoc [-1] [1] 1; mkSvDoc [] [] (-1)] = [Err; Err; Err; Err].
Proof. reflexivity. Qed.
Example dm_bad : map (read_dm Z Z (read_plain Z Z Zparse) true) [mkDmDoc [] 1 1; mkDmDoc [] (-1) 0] = [Err; Err].
Proof. reflexivity. Qed.
Example sm_bad : map (read_sm Z Z Znz Zparse) [mkSmDoc [1] [1] 1 1; mkSmDoc [-1] [1] 1 1; mkSmDoc [] [] (2^32) (2^32)] = [Err; Err; Err].
Proof. reflexivity. Qed.
