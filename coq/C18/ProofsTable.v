(* C18 — tables (text files): gzip detection, round trips, reader characterisation / safety,
   refutations with smallest witnesses. *)
From Coq Require Import ZArith List Bool Lia Sorted.
From ADV Require Import C18.Model C18.Spec C18.ProofsBase C18.ProofsSparse C18.ProofsDense C18.TableModel.
Import ListNotations.
Open Scope Z_scope.

(* ---------------------------------------------------------------- isGzip *)
Lemma is_gzip_empty : is_gzip [] = Err.
Proof. reflexivity. Qed.
Lemma is_gzip_one b : is_gzip [b] = Ok false.
Proof. reflexivity. Qed.
Lemma is_gzip_two a b r : is_gzip (a :: b :: r) = Ok ((a =? 31) && (b =? 139)).
Proof. reflexivity. Qed.

(* the first bytes of a text file: at least one byte, not the gzip magic *)
Definition text_prefix (p : list Z) : Prop := p <> [] /\ forall r, p <> 31 :: 139 :: r.

Lemma is_gzip_text p : text_prefix p -> is_gzip p = Ok false.
Proof.
  intros [Hne Hm]. destruct p as [|a [|b r]]; [congruence|reflexivity|].
  rewrite is_gzip_two. destruct (a =? 31) eqn:Ea; [|reflexivity].
  destruct (b =? 139) eqn:Eb; [|reflexivity].
  apply Z.eqb_eq in Ea, Eb. subst. exfalso. exact (Hm r eq_refl).
Qed.

Lemma mapM_app {A B} (f : A -> option B) l1 l2 :
  mapM f (l1 ++ l2) = match mapM f l1, mapM f l2 with Some a, Some b => Some (a ++ b) | _, _ => None end.
Proof.
  induction l1 as [|x l1 IH]; simpl.
  - destruct (mapM f l2); reflexivity.
  - destruct (f x); [|reflexivity]. rewrite IH.
    destruct (mapM f l1); [|reflexivity]. destruct (mapM f l2); reflexivity.
Qed.

Section TableProofs.
Variables F T : Type.
Variable nz : F -> bool.
Variable fmtT : F -> T.
Variable parseT : T -> option F.
Variable fmtI : Z -> T.
Variable parseI : T -> option Z.
Variable E : Type.
Variable eval : E -> F.

(* an element whose printed value reads back as itself *)
Definition cell_ok (e : E) : Prop := parseT (fmtT (eval e)) = Some (eval e).

Notation idv_go := (import_dv_go F T parseT).
Notation idm_go := (import_dm_go F T parseT).

(* all tokens of a stream, line structure forgotten *)
Definition all_fields (ls : list (tline T)) : list T :=
  flat_map (fun l => match l with LEmpty => [] | LFields fs => fs end) ls.

(* ------------------------------------------------------------ dense vectors *)
Lemma import_dv_go_lines (v : list E) : Forall cell_ok v ->
  forall acc rest, idv_go acc (map (fun e => LFields [fmtT (eval e)]) v ++ rest) = idv_go (acc ++ map eval v) rest.
Proof.
  induction 1 as [|e v He Hv IH]; intros acc rest; simpl.
  - rewrite app_nil_r. reflexivity.
  - unfold cell_ok in He. rewrite He. rewrite IH. rewrite <- app_assoc. reflexivity.
Qed.

Lemma dv_table_roundtrip (v : list E) p :
  text_prefix p -> Forall cell_ok v ->
  import_dv F T parseT (plain_file p (export_dv F T fmtT E eval v)) = Ok (map eval v).
Proof.
  intros Hp Hv. unfold import_dv, open_table, plain_file; simpl. rewrite (is_gzip_text p Hp); simpl.
  unfold import_dv_stream, closing, export_dv; simpl.
  rewrite (import_dv_go_lines v Hv [] [LEmpty]). reflexivity.
Qed.

(* what the dense vector reader does with ANY stream: every token is a value, lines do not matter *)
Lemma import_dv_go_spec : forall ls acc,
  idv_go acc ls = match mapM parseT (all_fields ls) with Some xs => Ok (acc ++ xs) | None => Err end.
Proof.
  induction ls as [|[|fs] ls IH]; intros acc; simpl.
  - rewrite app_nil_r. reflexivity.
  - apply IH.
  - rewrite mapM_app. destruct (mapM parseT fs) as [xs|]; [|reflexivity].
    rewrite IH. destruct (mapM parseT (all_fields ls)); [rewrite app_assoc|]; reflexivity.
Qed.

Lemma import_dv_reads_all_tokens (f : tfile T) v :
  import_dv F T parseT f = Ok v ->
  exists s, open_table f = Ok s /\ ts_fail s = false /\ mapM parseT (all_fields (ts_lines s)) = Some v.
Proof.
  unfold import_dv. intros H. apply bind_ok in H as (s & Hs & H). exists s. split; [assumption|].
  unfold import_dv_stream, closing in H. rewrite import_dv_go_spec in H.
  destruct (mapM parseT (all_fields (ts_lines s))); simpl in H; [|discriminate].
  destruct (ts_fail s); inversion H; auto.
Qed.

(* ------------------------------------------------------------ dense matrices: what the reader establishes *)
Definition no_ws_line (ls : list (tline T)) : Prop := Forall (fun l => l <> LFields []) ls.

Lemma idm_go_nonneg : forall ls vals rows cols vals' rows' cols',
  0 <= rows -> 0 <= cols -> idm_go vals rows cols ls = Ok (vals', rows', cols') -> 0 <= rows' /\ 0 <= cols'.
Proof.
  induction ls as [|[|fs] ls IH]; intros vals rows cols vals' rows' cols' Hr Hc H; simpl in H.
  - inversion H; subst; auto.
  - eapply IH; [| |exact H]; assumption.
  - destruct (negb _); [discriminate|]. destruct (mapM parseT fs); [|discriminate].
    eapply IH; [| |eassumption]; [lia|]. destruct (cols =? 0); [apply zlen_nonneg|assumption].
Qed.

Lemma idm_go_shape : forall ls vals rows cols vals' rows' cols',
  no_ws_line ls -> 0 <= rows -> 0 <= cols -> zlen vals = rows * cols -> (cols = 0 -> rows = 0) ->
  idm_go vals rows cols ls = Ok (vals', rows', cols') ->
  zlen vals' = rows' * cols' /\ (cols' = 0 -> rows' = 0).
Proof.
  induction ls as [|[|fs] ls IH]; intros vals rows cols vals' rows' cols' Hws Hr Hc Hl H0 H; simpl in H.
  - inversion H; subst; auto.
  - inversion Hws; subst. eapply IH; [| | | | |exact H]; assumption.
  - inversion Hws as [|? ? Hfs Hws']; subst.
    destruct (negb _) eqn:Eq; [discriminate|]. apply negb_false_iff, Z.eqb_eq in Eq.
    destruct (mapM parseT fs) as [xs|] eqn:Ex; [|discriminate].
    assert (Hxs : zlen xs = zlen fs) by (unfold zlen; f_equal; eapply mapM_length; eassumption).
    assert (Hpos : 0 < zlen fs) by (destruct fs; [congruence|unfold zlen; simpl; lia]).
    eapply IH; [eassumption| | | | |eassumption].
    + lia.
    + destruct (cols =? 0); lia.
    + unfold zlen in *. rewrite app_length, Nat2Z.inj_add. destruct (cols =? 0) eqn:Ec.
      * apply Z.eqb_eq in Ec. rewrite (H0 Ec) in *. lia.
      * rewrite Eq in *. lia.
    + destruct (cols =? 0); lia.
Qed.

(* plain element types: well-formed exactly as far as no whitespace-only line was counted as a row *)
Lemma import_dm_plain_safe (f : tfile T) m :
  import_dm F T parseT false f = Ok m ->
  exists s, open_table f = Ok s /\ (no_ws_line (ts_lines s) -> wf_dm m).
Proof.
  unfold import_dm. intros H. apply bind_ok in H as (s & Hs & H). exists s. split; [assumption|]. intros Hws.
  unfold import_dm_stream in H. apply bind_ok in H as ([[vals rows] cols] & Hc & H).
  unfold closing in Hc. apply bind_ok in Hc as ([[v0 r0] c0] & Hg & Hc).
  destruct (ts_fail s); inversion Hc; subst; clear Hc.
  destruct (idm_go_nonneg (ts_lines s) [] 0 0 _ _ _ (Z.le_refl 0) (Z.le_refl 0) Hg) as [Hr Hcn].
  destruct (idm_go_shape (ts_lines s) [] 0 0 _ _ _ Hws (Z.le_refl 0) (Z.le_refl 0) eq_refl (fun _ => eq_refl) Hg) as [Hl _].
  simpl in H. inversion H; subst. unfold wf_dm; simpl. repeat split; try lia.
Qed.

(* Real element types: the constructor checks the length (or panics): whatever is returned is well-formed *)
Lemma import_dm_real_safe (f : tfile T) m : import_dm F T parseT true f = Ok m -> wf_dm m.
Proof.
  unfold import_dm. intros H. apply bind_ok in H as (s & Hs & H).
  unfold import_dm_stream in H. apply bind_ok in H as ([[vals rows] cols] & Hc & H).
  unfold closing in Hc. apply bind_ok in Hc as ([[v0 r0] c0] & Hg & Hc).
  destruct (ts_fail s); inversion Hc; subst; clear Hc.
  destruct (idm_go_nonneg (ts_lines s) [] 0 0 _ _ _ (Z.le_refl 0) (Z.le_refl 0) Hg) as [Hr Hcn].
  simpl in H. destruct (zlen vals =? 1).
  - destruct vals as [|x vals]; [discriminate|]. inversion H; subst. unfold wf_dm; simpl.
    repeat split; try lia. unfold zlen. rewrite repeat_length, Z2Nat.id; nia.
  - destruct (zlen vals =? rows * cols) eqn:El; [|discriminate]. apply Z.eqb_eq in El.
    inversion H; subst. unfold wf_dm; simpl. repeat split; lia.
Qed.

(* ------------------------------------------------------------ dense matrices: round trip of non-empty views *)
Notation rowline := (fun es : list E => LFields (map (fun e => fmtT (eval e)) es)).

Lemma mapM_cells (es : list E) : Forall cell_ok es -> mapM parseT (map (fun e => fmtT (eval e)) es) = Some (map eval es).
Proof.
  induction 1 as [|e es He Hes IH]; simpl; [reflexivity|]. unfold cell_ok in He. rewrite He, IH. reflexivity.
Qed.

Lemma idm_go_rows C : 0 < C -> forall (rowsE : list (list E)) vals r c,
  Forall (fun es => zlen es = C /\ Forall cell_ok es) rowsE -> (c = 0 \/ c = C) ->
  idm_go vals r c (map rowline rowsE) =
  Ok (vals ++ map eval (concat rowsE), r + zlen rowsE, match rowsE with [] => c | _ => C end).
Proof.
  intros HC. induction rowsE as [|es rowsE IH]; intros vals r c Hall Hc; simpl.
  - rewrite app_nil_r, Z.add_0_r. reflexivity.
  - inversion Hall as [|? ? [Hlen Hes] Hall']; subst.
    assert (Hz : zlen (map (fun e => fmtT (eval e)) es) = zlen es) by (unfold zlen; rewrite map_length; reflexivity).
    rewrite Hz. set (c' := if c =? 0 then zlen es else c).
    assert (Hc' : c' = zlen es). { unfold c'. destruct (c =? 0) eqn:E0; [reflexivity|]. apply Z.eqb_neq in E0. lia. }
    rewrite Hc', Z.eqb_refl; simpl. rewrite (mapM_cells es Hes).
    rewrite (IH _ _ _ Hall' (or_intror eq_refl)).
    rewrite map_app, app_assoc. unfold zlen; simpl length. rewrite Nat2Z.inj_succ.
    f_equal. f_equal; [f_equal; lia|]. destruct rowsE; reflexivity.
Qed.

(* the rows of a view as the writer reads them *)
Definition view_rows (m : dmat E) (rowsE : list (list E)) : Prop :=
  Forall2 (fun i es => Forall2 (fun j e => dm_at E m i j = Ok e) (zrange (dm_cols m)) es) (zrange (dm_rows m)) rowsE.

Lemma export_dm_rows (m : dmat E) ls :
  0 < dm_rows m -> 0 < dm_cols m -> export_dm F T fmtT E eval m = Ok ls ->
  exists rowsE, view_rows m rowsE /\ ls = map rowline rowsE.
Proof.
  intros Hr Hc H. unfold export_dm in H. replace (dm_rows m <=? 0) with false in H by lia.
  apply mapR_Forall2 in H. revert H. unfold view_rows. generalize (zrange (dm_rows m)) as is.
  intros is; revert ls. induction is as [|i is IH]; intros ls H; inversion H; subst.
  - exists []. split; [constructor|reflexivity].
  - destruct (IH _ H4) as (rowsE & Hv & ->).
    unfold export_dm_row in H2. apply bind_ok in H2 as (fs & Hfs & Hl). inversion Hl; subst; clear Hl.
    apply mapR_Forall2 in Hfs.
    assert (exists es, Forall2 (fun j e => dm_at E m i j = Ok e) (zrange (dm_cols m)) es /\ fs = map (fun e => fmtT (eval e)) es) as (es & Hes & ->).
    { clear - Hfs. revert fs Hfs. generalize (zrange (dm_cols m)) as js. induction js as [|j js IHj]; intros fs Hfs; inversion Hfs; subst.
      - exists []. split; [constructor|reflexivity].
      - destruct (IHj _ H3) as (es & Hes & ->). apply bind_ok in H1 as (e & He & Hy). inversion Hy; subst.
        exists (e :: es). split; [constructor; assumption|reflexivity]. }
    exists (es :: rowsE). split; [constructor; assumption|]. simpl. f_equal.
    assert (Hne : es <> []).
    { intros ->. inversion Hes as [Hz|]. apply (f_equal (@length Z)) in Hz.
      pose proof (zrange_length (dm_cols m)) as Hzl. unfold zlen in Hzl. rewrite <- Hz in Hzl. simpl in Hzl. lia. }
    destruct es; [congruence|reflexivity].
Qed.

(* dimensions are preserved and the stored values are the view's elements in row-major order *)
Lemma dm_table_roundtrip_rows (m : dmat E) ls p real :
  text_prefix p -> wf_dm m -> 0 < dm_rows m -> 0 < dm_cols m -> Forall cell_ok (dm_vals m) ->
  export_dm F T fmtT E eval m = Ok ls ->
  exists rowsE, view_rows m rowsE /\
    import_dm F T parseT real (plain_file p ls) =
    Ok (mkDm (map eval (concat rowsE)) (dm_rows m) (dm_cols m) 0 (dm_rows m) 0 (dm_cols m) false).
Proof.
  intros Hp Hwf Hr Hc Hgood Hex.
  destruct (export_dm_rows m ls Hr Hc Hex) as (rowsE & Hv & ->). exists rowsE. split; [assumption|].
  assert (Hlen : zlen rowsE = dm_rows m).
  { unfold view_rows in Hv. apply Forall2_length' in Hv. pose proof (zrange_length (dm_rows m)) as Hz.
    unfold zlen in *. rewrite <- Hv. lia. }
  assert (Hall : Forall (fun es => zlen es = dm_cols m /\ Forall cell_ok es) rowsE).
  { clear - Hv Hgood Hc. unfold view_rows in Hv. revert Hv. generalize (zrange (dm_rows m)) as is. intros is Hv.
    induction Hv as [|i es is rowsE Hes Hv IH]; [constructor|]. constructor; [|assumption]. split.
    - apply Forall2_length' in Hes. pose proof (zrange_length (dm_cols m)) as Hz. unfold zlen in *. rewrite <- Hes. lia.
    - clear - Hes Hgood. revert Hes. generalize (zrange (dm_cols m)) as js. intros js Hes.
      induction Hes as [|j e js es He Hes IH]; [constructor|]. constructor; [|assumption].
      unfold Model.dm_at in He. destruct (Model.dm_index E m i j); [|discriminate].
      destruct (znth (dm_vals m) z) eqn:Ez; [|discriminate]. inversion He; subst.
      eapply Forall_forall; [exact Hgood|]. eapply znth_In; eassumption. }
  unfold import_dm, open_table, plain_file; simpl. rewrite (is_gzip_text p Hp); simpl.
  unfold import_dm_stream, closing; simpl.
  rewrite (idm_go_rows (dm_cols m) Hc rowsE [] 0 0 Hall (or_introl eq_refl)). simpl.
  assert (Hne : rowsE <> []) by (intros ->; unfold zlen in Hlen; simpl in Hlen; lia).
  assert (Hcat : zlen (map eval (concat rowsE)) = dm_rows m * dm_cols m).
  { rewrite <- Hlen. clear - Hall. unfold zlen. rewrite map_length.
    induction Hall as [|es rowsE [Hl _] _ IH]; [simpl; lia|].
    cbn [concat]. rewrite app_length. cbn [length]. unfold zlen in Hl. nia. }
  rewrite Hlen. destruct rowsE as [|es0 rowsE']; [congruence|].
  unfold new_dm. destruct real; [|reflexivity].
  destruct (zlen (map eval (concat (es0 :: rowsE'))) =? 1) eqn:E1.
  - apply Z.eqb_eq in E1. rewrite E1 in Hcat. rewrite <- Hcat.
    destruct (map eval (concat (es0 :: rowsE'))) as [|x [|y l]] eqn:El; unfold zlen in E1; simpl in E1; try lia.
    reflexivity.
  - rewrite Hcat, Z.eqb_refl. reflexivity.
Qed.

(* empty shapes: no row, or rows without columns, are written as empty lines only and read back as 0x0 *)
Lemma dm_table_empty (m : dmat E) p real :
  text_prefix p -> 0 <= dm_rows m -> (dm_rows m = 0 \/ dm_cols m <= 0) ->
  exists ls, export_dm F T fmtT E eval m = Ok ls /\
    import_dm F T parseT real (plain_file p ls) = Ok (mkDm [] 0 0 0 0 0 0 false).
Proof.
  intros Hp Hr0 Hd.
  assert (Hall : forall ls : list (tline T), Forall (fun l => l = LEmpty) ls ->
            import_dm F T parseT real (plain_file p ls) = Ok (mkDm [] 0 0 0 0 0 0 false)).
  { intros ls Hl. unfold import_dm, open_table, plain_file; simpl. rewrite (is_gzip_text p Hp); simpl.
    unfold import_dm_stream, closing; simpl.
    assert (Hg : idm_go [] 0 0 ls = Ok ([], 0, 0)) by (induction Hl as [|l ls -> _ IH]; simpl; auto).
    rewrite Hg. simpl. destruct real; reflexivity. }
  unfold export_dm. destruct (dm_rows m <=? 0) eqn:Er.
  - eexists; split; [reflexivity|]. apply Hall. repeat constructor.
  - assert (Hc : dm_cols m <= 0) by lia.
    assert (Hrow : forall i, export_dm_row F T fmtT E eval m i = Ok LEmpty).
    { intros i. unfold export_dm_row, zrange. replace (Z.to_nat (dm_cols m)) with 0%nat by lia. reflexivity. }
    exists (map (fun _ => LEmpty) (zrange (dm_rows m))). split.
    + apply mapR_Forall2. induction (zrange (dm_rows m)); simpl; constructor; auto.
    + apply Hall. apply Forall_forall. intros l Hin. apply in_map_iff in Hin as (? & <- & _). reflexivity.
Qed.

(* ------------------------------------------------------------ sparse vectors *)
Variable enul : E -> bool.
Hypothesis int_roundtrip : forall z, parseI (fmtI z) = Some z.     (* %d read by ParseInt *)

Notation isv_body := (import_sv_body F T parseT parseI).

Lemma import_sv_body_lines : forall (l : list (Z * E)) idx vals,
  isv_body idx vals (map (fun kv => LFields [fmtI (fst kv); fmtT (eval (snd kv))]) l) =
  match mapM parseT (map (fun kv => fmtT (eval (snd kv))) l) with
  | Some xs => Ok (idx ++ map fst l, vals ++ xs)
  | None => Err
  end.
Proof.
  induction l as [|[k e] l IH]; intros idx vals; simpl.
  - rewrite !app_nil_r. reflexivity.
  - rewrite int_roundtrip. destruct (parseT (fmtT (eval e))) as [x|]; [|reflexivity].
    rewrite IH. destruct (mapM parseT _); [|reflexivity]. rewrite <- !app_assoc. reflexivity.
Qed.

(* the table reader, on what the table writer wrote, does what the UNVALIDATED core of the JSON reader
   (read_sv_core: the JSON reader before a328708; Import still calls NewSparse* directly) does on the JSON document
   of the same vector (tokens printed by fmtT) *)
Lemma sv_table_is_json (v : svec E) p :
  text_prefix p ->
  import_sv F T nz parseT parseI (plain_file p (export_sv F T fmtT fmtI E eval enul v)) =
  (d <- write_sv F T (fun x => Some (fmtT x)) E eval enul v ;; read_sv_core F T nz parseT d).
Proof.
  intros Hp. unfold import_sv, open_table, plain_file; simpl. rewrite (is_gzip_text p Hp); simpl.
  unfold import_sv_stream, closing, export_sv; simpl. rewrite int_roundtrip. simpl.
  rewrite import_sv_body_lines. unfold write_sv, fmt_list.
  set (live := sv_live E enul v).
  assert (Hm : mapM (fun x => Some (fmtT x)) (map (fun kv => eval (snd kv)) live) = Some (map (fun kv => fmtT (eval (snd kv))) live)).
  { induction live as [|kv l IH]; simpl; [reflexivity|]. rewrite IH. reflexivity. }
  rewrite Hm. simpl. unfold read_sv_core, parse_list; simpl.
  destruct (mapM parseT (map (fun kv => fmtT (eval (snd kv))) live)) as [xs|] eqn:Ex; simpl; [|reflexivity].
  assert (Hl : zlen (map fst live) = zlen xs).
  { apply mapM_length in Ex. unfold zlen. rewrite Ex, !map_length. reflexivity. }
  rewrite Hl, Z.eqb_refl. reflexivity.
Qed.

Variable zero : F.
Hypothesis nz_zero : nz zero = false.
Hypothesis tok_roundtrip : forall x, parseT (fmtT x) = Some x.
Hypothesis enul_zero : forall e, enul e = true -> nz (eval e) = false.

Lemma sv_table_roundtrip (v : svec E) p :
  text_prefix p -> wf_sv v ->
  exists v', import_sv F T nz parseT parseI (plain_file p (export_sv F T fmtT fmtI E eval enul v)) = Ok v' /\
             wf_sv v' /\ sv_obs_eq F zero nz E eval v v'.
Proof.
  intros Hp Hwf. rewrite (sv_table_is_json v p Hp).
  destruct (write_sv F T (fun x => Some (fmtT x)) E eval enul v) as [d| | |] eqn:Hw.
  - simpl. eapply (sv_core_roundtrip F T zero nz (fun x => Some (fmtT x)) parseT nz_zero); try eassumption.
    intros x t Hx. inversion Hx; subst. apply tok_roundtrip.
  - exfalso. unfold write_sv, fmt_list in Hw.
    assert (Hm : forall l : list F, mapM (fun x => Some (fmtT x)) l = Some (map fmtT l))
      by (induction l as [|x l IH]; simpl; [reflexivity|rewrite IH; reflexivity]).
    rewrite Hm in Hw. simpl in Hw. discriminate.
  - exfalso. unfold write_sv, fmt_list in Hw. destruct (mapM _ _); simpl in Hw; discriminate.
  - exfalso. unfold write_sv, fmt_list in Hw. destruct (mapM _ _); simpl in Hw; discriminate.
Qed.

End TableProofs.

(* ---------------------------------------------------------------- integer cells *)
Lemma rne53_small z : Z.abs z < 2 ^ 53 -> rne53 z = z.
Proof.
  intros H. unfold rne53. destruct (Z.abs z =? 0) eqn:E0; [reflexivity|]. simpl.
  apply Z.eqb_neq in E0. assert (Hl : Z.log2 (Z.abs z) < 53) by (apply Z.log2_lt_pow2; lia).
  replace (Z.log2 (Z.abs z) <? 53) with true by lia. reflexivity.
Qed.

Lemma wrapN_small bits z : 0 < bits -> - 2 ^ (bits - 1) <= z < 2 ^ (bits - 1) -> wrapN bits z = z.
Proof.
  intros Hb Hz. unfold wrapN.
  assert (H2 : 2 ^ bits = 2 * 2 ^ (bits - 1)) by (rewrite <- Z.pow_succ_r by lia; f_equal; lia).
  rewrite Z.mod_small by lia. lia.
Qed.

(* an integer cell is read back exactly when it is below 2^53 in magnitude (and fits the type) *)
Lemma int_cell_small bits z :
  (bits = 64 \/ 0 < bits <= 32) -> Z.abs z < 2 ^ 53 -> - 2 ^ (bits - 1) <= z < 2 ^ (bits - 1) ->
  int_cell_parse bits z = Some z.
Proof.
  intros Hb Hs Hr. unfold int_cell_parse. rewrite rne53_small by assumption. f_equal. unfold cvt_int.
  destruct Hb as [->|Hb].
  - simpl in Hr. replace (64 =? 64) with true by reflexivity.
    replace ((z <? - 2 ^ 63) || (z >=? 2 ^ 63)) with false by lia. reflexivity.
  - replace (bits =? 64) with false by lia.
    assert (Hm : 2 ^ (bits - 1) <= 2 ^ 31) by (apply Z.pow_le_mono_r; lia).
    replace ((z <? - 2 ^ 31) || (z >=? 2 ^ 31)) with false by lia.
    apply wrapN_small; lia.
Qed.

(* ---------------------------------------------------------------- refutations: smallest witnesses *)
Definition Zcell (bits : Z) := int_cell_parse bits.
Definition ZIdv (bits : Z) := import_dv Z Z (Zcell bits).
Definition ZEdv := export_dv Z Z (fun z => z) Z (fun z => z).

(* Int / Int64 vectors: 2^53+1 reads back as 2^53, MaxInt64 as MinInt64 *)
Lemma int_table_refuted :
  ZIdv 64 (plain_file [57; 48] (ZEdv [2 ^ 53 + 1])) = Ok [2 ^ 53] /\
  ZIdv 64 (plain_file [57; 50] (ZEdv [2 ^ 63 - 1])) = Ok [- 2 ^ 63] /\
  ZIdv 8 (plain_file [51; 48] [LFields [300]]) = Ok [44].
Proof. repeat split; vm_compute; reflexivity. Qed.

(* the identity codec on Z: every token parses *)
Definition ZIdm := import_dm Z Z Zparse.
Definition ZEdm := export_dm Z Z (fun z => z) Z (fun z => z).

(* " \n1 2\n": a 2x2 matrix with two values (plain types); panic (Real types); " \n5\n": 2x1 [5;5] *)
Lemma dm_table_wsline_refuted :
  (exists m, ZIdm false (plain_file [32; 10] [LFields []; LFields [1; 2]]) = Ok m /\
             dm_rows m = 2 /\ dm_cols m = 2 /\ zlen (dm_vals m) = 2 /\ ~ wf_dm m /\ dm_at Z m 1 0 = Panic) /\
  ZIdm true (plain_file [32; 10] [LFields []; LFields [1; 2]]) = Panic /\
  ZIdm true (plain_file [32; 10] [LFields []; LFields [5]]) = Ok (mkDm [5; 5] 2 1 0 2 0 1 false).
Proof.
  split; [|split; vm_compute; reflexivity].
  eexists. split; [vm_compute; reflexivity|]. simpl. repeat split; try reflexivity.
  intros (_ & _ & _ & _ & _ & _ & H). vm_compute in H. discriminate.
Qed.

(* 0x3 and 3x0 are written as empty lines and read back 0x0 *)
Lemma dm_table_emptydim_refuted :
  ZEdm (mkDm [] 0 3 0 0 0 3 false) = Ok [LEmpty] /\
  ZEdm (mkDm [] 3 0 0 3 0 0 false) = Ok [LEmpty; LEmpty; LEmpty] /\
  ZIdm false (plain_file [10] [LEmpty]) = Ok (mkDm [] 0 0 0 0 0 0 false) /\
  ZIdm false (plain_file [10; 10] [LEmpty; LEmpty; LEmpty]) = Ok (mkDm [] 0 0 0 0 0 0 false).
Proof. repeat split; vm_compute; reflexivity. Qed.

Definition ZIsv := import_sv Z Z Znz Zparse Zparse.
Definition ZIsm := import_sm Z Z Znz Zparse Zparse.
Definition ZEsm := export_sm Z Z (fun z => z) (fun z => z) Z (fun z => z) (fun z => negb (Znz z)).

Lemma sv_table_reader_refuted :
  ZIsv (plain_file [49; 10] [LFields [1]; LFields [1; 1]]) = Panic /\
  ZIsv (plain_file [49; 10] [LFields [1]; LFields [0; 1]; LFields [0; 1]]) = Panic /\
  (exists v, ZIsv (plain_file [49; 10] [LFields [1]; LFields [-1; 1]]) = Ok v /\ ~ wf_sv v /\ lookup (-1) (sv_ents v) = Some 1) /\
  (exists v, ZIsv (plain_file [45; 49] [LFields [-1]]) = Ok v /\ ~ wf_sv v).
Proof.
  split; [vm_compute; reflexivity|]. split; [vm_compute; reflexivity|]. split.
  - eexists. split; [vm_compute; reflexivity|]. split; [|reflexivity].
    intros (_ & _ & H). inversion H; subst. simpl in *. lia.
  - eexists. split; [vm_compute; reflexivity|]. intros (H & _). simpl in H. lia.
Qed.

(* the slice of round 1 (parent entry at (0,0) outside the slice rows 1..2, cols 1..2):
   Export writes "-1 -1 1" under the header "2 2"; Import of exactly these lines panics *)
Definition spslice_tab : smat Z := mkSm (mkSv [(0, 1); (8, 2)] 9) 2 2 1 3 1 3.
Lemma sm_table_slice_refuted :
  ZEsm spslice_tab = Ok [LFields [2; 2]; LFields [-1; -1; 1]; LFields [1; 1; 2]] /\
  ZIsm (plain_file [50; 32] [LFields [2; 2]; LFields [-1; -1; 1]; LFields [1; 1; 2]]) = Panic.
Proof. split; vm_compute; reflexivity. Qed.

Lemma sm_table_reader_refuted :
  ZIsm (plain_file [49; 32] [LFields [1; 1]; LFields [1; 0; 1]]) = Panic /\
  (exists m, ZIsm (plain_file [45; 49] [LFields [-1; -1]]) = Ok m /\ sm_rows m = -1) /\
  (exists m, ZIsm (plain_file [52; 50] [LFields [2 ^ 32; 2 ^ 32]]) = Ok m /\ sv_n (sm_vals m) = 0 /\ sm_rows m = 2 ^ 32).
Proof.
  split; [vm_compute; reflexivity|]. split; eexists; (split; [vm_compute; reflexivity|]); simpl; auto.
Qed.

(* an empty file is an error (isGzip's Read returns EOF); a one-byte file is read normally *)
Lemma table_small_files :
  ZIdv 64 (mkTf [] (mkTs [] false) None) = Err /\
  ZIdv 64 (plain_file [10] [LEmpty]) = Ok [] /\
  ZIdv 64 (plain_file [10] (ZEdv [])) = Ok [] /\
  ZIdv 64 (plain_file [53] [LFields [5]]) = Ok [5].
Proof. repeat split; vm_compute; reflexivity. Qed.

(* sparse matrix, not a view, entries anywhere: an executable instance of the round trip *)
Example sm_table_example :
  (ls <- ZEsm (mkSm (mkSv [(1, 5); (2, 0); (5, 7)] 6) 2 3 0 2 0 3) ;; ZIsm (plain_file [50; 32] ls))
  = Ok (mkSm (mkSv [(1, 5); (5, 7)] 6) 2 3 0 2 0 3).
Proof. vm_compute. reflexivity. Qed.
