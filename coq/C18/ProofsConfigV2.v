(* C18 (round 6) — vector / matrix registries, the converse direction: whatever ImportVectorPdfConfig /
   ImportMatrixPdfConfig builds from ANY document is a tree of the round-trip theorem (binomial-free, idempotent
   normalisation / truncation, int(float64(int x)) = int x), hence a fixed point of export ; import.
   And the hypotheses of the theorems are satisfiable: an instance over the real numbers (exp / ln) with a
   four-level matrix distribution inside the theorem. *)
From Coq Require Import ZArith List Bool Lia Reals Lra.
From ADV Require Import C18.Model C18.ProofsBase C18.ConfigModel C18.ProofsConfig C18.ProofsConfig2 C18.ConfigModelV C18.ProofsConfigV.
Import ListNotations.
Open Scope Z_scope.

Section ConverseV.
Variable F : Type.
Variables zero one : F.
Variable fle flt feq : F -> F -> bool.
Variables flog fexp ftrunc : F -> F.
Variable norm : list F -> list F.
Variable f2z : F -> Z.
Variable z2f : Z -> F.
Hypothesis norm_idem : forall l, norm (norm l) = norm l.
Hypothesis ftrunc_idem : forall x, ftrunc (ftrunc x) = ftrunc x.
Hypothesis f2z_z2f_f2z : forall x, f2z (z2f (f2z x)) = f2z x.

Notation imp := (import_cfg F zero one fle flt feq flog ftrunc norm).
Notation rts := (rt_scalar F zero one fle flt feq flog ftrunc norm).
Notation impS := (import_scalar F zero one fle flt feq flog ftrunc norm).
Notation impV := (import_vec F zero one fle flt feq flog ftrunc norm f2z).
Notation impM := (import_mat F zero one fle flt feq flog ftrunc norm f2z).
Notation rtV := (rtv F zero one fle flt feq flog ftrunc norm f2z z2f).
Notation rtM := (rtm F zero one fle flt feq flog ftrunc norm f2z z2f).

Definition all_free_s (l : list (dist F)) : bool := forallb (binomial_free F) l.
Fixpoint bf_v (d : vdist F) : bool :=
  match d with
  | VOld d0 => binomial_free F d0
  | VSId ds => all_free_s ds
  | VVId _ ds => (fix all (l : list (vdist F)) : bool := match l with [] => true | x :: r => bf_v x && all r end) ds
  | VVIid _ d0 => bf_v d0
  | VMix _ ds => (fix all (l : list (vdist F)) : bool := match l with [] => true | x :: r => bf_v x && all r end) ds
  end.
Definition all_bf_v (l : list (vdist F)) : bool :=
  (fix all (l : list (vdist F)) : bool := match l with [] => true | x :: r => bf_v x && all r end) l.
Fixpoint bf_m (d : mdist F) : bool :=
  match d with
  | MVId ds => all_bf_v ds
  | MVIid _ d0 => bf_v d0
  | MMix _ ds => (fix all (l : list (mdist F)) : bool := match l with [] => true | x :: r => bf_m x && all r end) ds
  end.

Lemma scalar_child_converse c d : impS c = Ok d -> binomial_free F d = true -> rts d.
Proof.
  destruct c as [[f p ds]|n p ds]; [|discriminate]. unfold import_scalar.
  destruct (scalar_fam f) eqn:Es; [|discriminate]. intros H Hb.
  eapply (scalar_converse F zero one fle flt feq flog ftrunc norm norm_idem (Cfg f p ds)); [exact Es|exact H|exact Hb].
Qed.

Lemma scalar_children_converse : forall cs ds, mapRs impS cs = Ok ds -> all_free_s ds = true -> Forall rts ds.
Proof.
  induction cs as [|c cs IH]; intros ds H Hb; simpl in H.
  - inversion H. constructor.
  - apply bind_ok in H as (y & Hy & H). apply bind_ok in H as (ys & Hys & H). inversion H; subst.
    simpl in Hb. apply andb_prop in Hb as [Hb0 Hbr].
    constructor; [eapply scalar_child_converse; eassumption|apply IH; assumption].
Qed.

Lemma vec_children_converse cs :
  Forall (fun c => forall d, impV c = Ok d -> bf_v d = true -> rtV d) cs ->
  forall ds, mapRs impV cs = Ok ds -> all_bf_v ds = true -> Forall rtV ds.
Proof.
  induction 1 as [|c cs Hc _ IH]; intros ds H Hb; simpl in H.
  - inversion H. constructor.
  - apply bind_ok in H as (y & Hy & H). apply bind_ok in H as (ys & Hys & H). inversion H; subst.
    simpl in Hb. apply andb_prop in Hb as [Hb0 Hbr].
    constructor; [apply Hc; assumption|apply IH; assumption].
Qed.

Lemma vec_converse : forall c d, impV c = Ok d -> bf_v d = true -> rtV d.
Proof.
  induction c as [[f p ds]|n p ds IH] using cfg2_ind'; intros d H Hb.
  - destruct f; try discriminate H. cbn [import_vec] in H. apply bind_ok in H as (d0 & Hd0 & H). inversion H; subst d; clear H.
    simpl in Hd0. apply bind_ok in Hd0 as (ps & _ & H). destruct (negb _); [discriminate|].
    destruct ds as [|c' [|c'' r]]; try discriminate H. destruct c' as [f' p' ds''].
    destruct (scalar_fam f') eqn:Esc; [|discriminate].
    apply bind_ok in H as (d1 & Hd1 & H). inversion H; subst d0; clear H.
    simpl in Hb. apply andb_prop in Hb as [Hb0 _].
    apply RvIid; [apply ftrunc_idem|].
    eapply (scalar_converse F zero one fle flt feq flog ftrunc norm norm_idem (Cfg f' p' ds'')); [exact Esc|exact Hd1|exact Hb0].
  - destruct n; try discriminate H; cbn [import_vec] in H.
    + apply bind_ok in H as (ds' & Hds & H). inversion H; subst d. apply RvSId.
      eapply scalar_children_converse; [exact Hds|exact Hb].
    + apply bind_ok in H as (ds' & Hds & H). apply new_vid_inv in H as [-> Hst].
      apply RvVId; [|exact Hst]. eapply vec_children_converse; [exact IH|exact Hds|exact Hb].
    + apply bind_ok in H as (ps & _ & H). destruct (negb _); [discriminate|].
      destruct ds as [|c' [|c'' r]]; try discriminate H.
      apply bind_ok in H as (d0 & Hd0 & H). unfold new_viid in H. apply guard_inv in H as [Hg H]. inversion H; subst d; clear H.
      inversion IH as [|? ? IHc _]; subst.
      apply RvVIid; [apply IHc; [exact Hd0|exact Hb]|exact Hg|apply f2z_z2f_f2z].
    + apply bind_ok in H as (ws & _ & H). destruct (existsb _ ws); [discriminate|].
      apply bind_ok in H as (ds' & Hds & H). inversion H; subst d; clear H.
      apply RvMix; [apply norm_idem|]. eapply vec_children_converse; [exact IH|exact Hds|exact Hb].
Qed.

Lemma vec_children_converse' cs ds : mapRs impV cs = Ok ds -> all_bf_v ds = true -> Forall rtV ds.
Proof.
  apply vec_children_converse. induction cs; constructor; [intros d; apply vec_converse|assumption].
Qed.

Lemma mat_converse : forall c d, impM c = Ok d -> bf_m d = true -> rtM d.
Proof.
  induction c as [c|n p ds IH] using cfg2_ind'; intros d H Hb; [discriminate H|].
  destruct n; try discriminate H; cbn [import_mat] in H.
  - apply bind_ok in H as (ds' & Hds & H). apply new_mid_inv in H as [-> Hst].
    apply RmVId; [|exact Hst]. eapply vec_children_converse'; [exact Hds|exact Hb].
  - apply bind_ok in H as (ps & _ & H). destruct (negb _); [discriminate|].
    destruct ds as [|c' [|c'' r]]; try discriminate H.
    apply bind_ok in H as (d0 & Hd0 & H). unfold new_miid in H. apply guard_inv in H as [Hg H]. inversion H; subst d; clear H.
    apply RmVIid; [eapply vec_converse; [exact Hd0|exact Hb]|exact Hg|apply f2z_z2f_f2z].
  - apply bind_ok in H as (ws & _ & H). destruct (existsb _ ws); [discriminate|].
    apply bind_ok in H as (ds' & Hds & H). inversion H; subst d; clear H.
    apply RmMix; [apply norm_idem|]. simpl in Hb.
    revert ds' Hds Hb. induction IH as [|c cs Hc _ IHcs]; intros ds' Hds Hb; simpl in Hds.
    + inversion Hds. constructor.
    + apply bind_ok in Hds as (y & Hy & Hds). apply bind_ok in Hds as (ys & Hys & Hds). inversion Hds; subst.
      apply andb_prop in Hb as [Hb0 Hbr]. constructor; [apply Hc; assumption|apply IHcs; assumption].
Qed.

Lemma importable_vec_roundtrip :
  feq one one = true -> feq zero one = false -> (forall x, flog (fexp x) = x) -> (forall x, flt (fexp x) zero = false) ->
  forall c d, impV c = Ok d -> bf_v d = true -> impV (export_vec F fexp z2f d) = Ok d.
Proof.
  intros A1 A2 A3 A4 c d H Hb.
  apply (vec_roundtrip F zero one fle flt feq flog fexp ftrunc norm f2z z2f A1 A2 A3 A4).
  eapply vec_converse; eassumption.
Qed.

Lemma importable_mat_roundtrip :
  feq one one = true -> feq zero one = false -> (forall x, flog (fexp x) = x) -> (forall x, flt (fexp x) zero = false) ->
  forall c d, impM c = Ok d -> bf_m d = true -> impM (export_mat F fexp z2f d) = Ok d.
Proof.
  intros A1 A2 A3 A4 c d H Hb.
  apply (mat_roundtrip F zero one fle flt feq flog fexp ftrunc norm f2z z2f A1 A2 A3 A4).
  eapply mat_converse; eassumption.
Qed.

End ConverseV.

(* ------------------------------------------------------------------ the hypotheses are satisfiable: the real numbers *)
Open Scope R_scope.
Definition Rleb (x y : R) : bool := if Rle_dec x y then true else false.
Definition Rltb (x y : R) : bool := if Rlt_dec x y then true else false.
Definition Reqb (x y : R) : bool := if Req_EM_T x y then true else false.
Definition Rf2z (x : R) : Z := Int_part x.
Definition Rtrunc (x : R) : R := IZR (Int_part x).
Definition Ridl (l : list R) : list R := l.

Lemma Int_part_IZR z : Int_part (IZR z) = z.
Proof.
  unfold Int_part. rewrite <- (up_tech (IZR z) z); [lia|apply Rle_refl|apply IZR_lt; lia].
Qed.

Lemma real_hypotheses :
  Reqb 1 1 = true /\ Reqb 0 1 = false /\ (forall x, ln (exp x) = x) /\ (forall x, Rltb (exp x) 0 = false) /\
  (forall l, Ridl (Ridl l) = Ridl l) /\ (forall x, Rtrunc (Rtrunc x) = Rtrunc x) /\
  (forall x, Rf2z (IZR (Rf2z x)) = Rf2z x) /\ (forall n, Rf2z (IZR n) = n).
Proof.
  unfold Reqb, Rltb, Rtrunc, Rf2z. repeat split.
  - destruct (Req_EM_T 1 1); [reflexivity|contradiction].
  - destruct (Req_EM_T 0 1); [lra|reflexivity].
  - apply ln_exp.
  - intros x. destruct (Rlt_dec (exp x) 0) as [H|H]; [|reflexivity]. pose proof (exp_pos x). lra.
  - intros x. rewrite Int_part_IZR. reflexivity.
  - intros x. apply Int_part_IZR.
  - apply Int_part_IZR.
Qed.

(* a four-level matrix distribution inside the theorem: a matrix mixture of two "matrix:vector iid" (4 rows) over a
   "vector:vector id" of a scalar-id pair (dimension 2) — and, in a vector mixture, "vector:scalar iid" *)
Definition ex_delta (x : R) : dist R := Dist FDelta [x] [].
Definition ex_sid : vdist R := VSId [ex_delta 3; Dist FLogT [1] [ex_delta 5]].
Definition ex_vid : vdist R := VVId 2 [ex_sid; VVId 0 []].
Definition ex_vmix : vdist R := VMix [ln (/ 2); ln (/ 2)] [VOld (Dist FIid [IZR 2] [ex_delta 7]); ex_sid].
Definition ex_m : mdist R := MMix [ln (/ 4); ln (3 / 4)] [MVIid 4 ex_vid; MVId [ex_vmix; ex_vid]].

Lemma ex_delta_rt x : rt_scalar R 0 1 Rleb Rltb Reqb ln Rtrunc Ridl (ex_delta x).
Proof. apply RtLeaf; [left; reflexivity|]. exists [x]. reflexivity. Qed.

Lemma ex_sid_rt : rtv R 0 1 Rleb Rltb Reqb ln Rtrunc Ridl Rf2z IZR ex_sid.
Proof.
  apply RvSId. constructor; [apply ex_delta_rt|]. constructor; [|constructor].
  apply RtWrap; [left; reflexivity|apply ex_delta_rt].
Qed.

Lemma ex_vid_rt : rtv R 0 1 Rleb Rltb Reqb ln Rtrunc Ridl Rf2z IZR ex_vid.
Proof.
  change ex_vid with (VVId (sum_dims R 0 Rf2z [ex_sid; VVId 0%Z []]) [ex_sid; VVId 0%Z []]).
  apply RvVId; [|reflexivity]. constructor; [apply ex_sid_rt|]. constructor; [|constructor].
  change (VVId 0%Z []) with (VVId (sum_dims R 0 Rf2z []) (@nil (vdist R))). apply RvVId; [constructor|exact I].
Qed.

Lemma ex_m_rt : rtm R 0 1 Rleb Rltb Reqb ln Rtrunc Ridl Rf2z IZR ex_m.
Proof.
  apply RmMix; [reflexivity|]. constructor; [|constructor; [|constructor]].
  - apply RmVIid; [apply ex_vid_rt|reflexivity|apply Int_part_IZR].
  - apply RmVId; [|reflexivity]. constructor; [|constructor; [apply ex_vid_rt|constructor]].
    apply RvMix; [reflexivity|]. constructor; [|constructor; [apply ex_sid_rt|constructor]].
    apply RvIid; [|apply ex_delta_rt]. unfold Rtrunc. rewrite Int_part_IZR. reflexivity.
Qed.

Lemma ex_m_roundtrip :
  import_mat R 0 1 Rleb Rltb Reqb ln Rtrunc Ridl Rf2z (export_mat R exp IZR ex_m) = Ok ex_m.
Proof.
  destruct real_hypotheses as (A1 & A2 & A3 & A4 & _).
  apply (mat_roundtrip R 0 1 Rleb Rltb Reqb ln exp Rtrunc Ridl Rf2z IZR A1 A2 A3 A4). apply ex_m_rt.
Qed.
