(* C03 — matrices: basic facts shared by the matrix proof files: the value list
   of a well-formed matrix is the value list of its linear operand. *)
From Coq Require Import ZArith List Bool Lia.
From ADV Require Import C11.Model C11.Spec C03.Model C03.Spec C03.ProofsDense C03.ProofsSem C03.ProofsJoint
                        C03.ModelM C03.ProofsM C03.SpecM.
Import ListNotations.
Open Scope Z_scope.

Lemma mabs_oabs w x : mwf w x -> mabs w x = oabs (sw (b3 w)) (mop w x).
Proof.
  unfold mabs, mwf, mrd, mop, mdims. destruct x as [k|k].
  - unfold sm_ok. destruct (getsm w k) as [[u r] c]. intros (_ & _ & _ & _ & D).
    rewrite (oabs_ord (sw (b3 w)) (OS u) (r * c)); auto.
  - unfold dm_ok. destruct (getdm w k) as [[d r] c]. intros (_ & _ & _ & D).
    rewrite (oabs_ord (sw (b3 w)) (OD d) (r * c)); auto.
Qed.
Lemma mabs_sparse w k : sm_ok w k -> mabs w (XS k) = sabs (sw (b3 w)) (mvec w k).
Proof.
  intro H. rewrite (mabs_oabs w (XS k) H). unfold mop, mvec. destruct (getsm w k) as [[u r] c]. reflexivity.
Qed.
Lemma mabs_dense w k : dm_ok w k -> mabs w (XD k) = fst (fst (getdm w k)).
Proof.
  intro H. rewrite (mabs_oabs w (XD k) H). unfold mop. destruct (getdm w k) as [[d r] c]. reflexivity.
Qed.
Lemma mop_dim w x : mwf w x -> op_dim (sw (b3 w)) (mop w x) = fst (mdims w x) * snd (mdims w x).
Proof.
  unfold mwf, mop, mdims. destruct x as [k|k].
  - unfold sm_ok. destruct (getsm w k) as [[u r] c]. simpl. tauto.
  - unfold dm_ok. destruct (getdm w k) as [[d r] c]. simpl. unfold zlen. tauto.
Qed.
(* a well-formed matrix operand of the same shape, not stored in t, is an operand of the
   sparse receiver's loops over the values vector t *)
Lemma mop_operand w k x :
  sm_ok w k -> mwf w x -> mother w (mvec w k) x -> mdims w x = mdims w (XS k) ->
  operand_ok3 (sw (b3 w)) (mvec w k) (mop w x).
Proof.
  intros Hk Hx Ho Hd. pose proof (mop_dim w x Hx) as D. rewrite Hd in D.
  unfold sm_ok, mvec, mdims in *. destruct (getsm w k) as [[t r] c] eqn:Ek. simpl in *.
  destruct Hk as (_ & _ & _ & _ & Dt).
  destruct x as [k'|k']; simpl in *.
  - unfold sm_ok, mvec in *. destruct (getsm w k') as [[u r'] c']. simpl in *.
    split; [auto|]. split; [tauto|]. lia.
  - destruct (getdm w k') as [[d r'] c']. simpl in *. unfold zlen. lia.
Qed.
Lemma dims_eqb_refl a : dims_eqb a a = true.
Proof. unfold dims_eqb. rewrite !Z.eqb_refl. reflexivity. Qed.
Lemma dims_eqb_eq a b : dims_eqb a b = true <-> a = b.
Proof.
  unfold dims_eqb. destruct a, b. simpl. rewrite andb_true_iff, !Z.eqb_eq. split.
  - intros (-> & ->). reflexivity.
  - intro E. inversion E. auto.
Qed.
Lemma mabs_length w x : mwf w x -> zlen (mabs w x) = fst (mdims w x) * snd (mdims w x).
Proof.
  intro H. unfold mabs. destruct (mdims w x) as [r c] eqn:E. simpl.
  unfold zlen. rewrite map_length.
  assert (L : forall n a, length (zseq a n) = n) by (induction n; simpl; auto).
  rewrite L. assert (0 <= r /\ 0 <= c).
  { unfold mwf, mdims in *. destruct x as [k|k].
    - unfold sm_ok in H. destruct (getsm w k) as [[u r'] c']. inversion E. subst. tauto.
    - unfold dm_ok in H. destruct (getdm w k) as [[d r'] c']. inversion E. subst. tauto. }
  rewrite Z2Nat.id; nia.
Qed.
