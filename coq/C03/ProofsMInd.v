(* C03 (round 2) — matrices: the property itself.  The same operation on a dense
   receiver and on a sparse receiver (any prior contents of either), with operands
   that stand for the same row-major value lists (however stored), gives equal
   value lists.  Each lemma joins the dense-receiver theorem (ProofsMDense.v) and
   the sparse-receiver theorem (ProofsMJ.v / ProofsMSet.v / ProofsMDot.v). *)
From Coq Require Import ZArith List Bool Lia.
From ADV Require Import C11.Model C11.Spec C03.Model C03.Spec C03.ProofsSem C03.ModelM C03.ProofsM C03.SpecM C03.ProofsMBase
                        C03.ProofsMDense C03.ProofsMJ C03.ProofsMSet C03.ProofsMDot C03.ProofsMDot2.
Import ListNotations.
Open Scope Z_scope.

(* an operand of the dense receiver kd / of the sparse receiver ks *)
Definition dopnd (w : w4) (kd : nat) (x : mref) : Prop := mwf w x /\ mdims w x = mdims w (XD kd).
Definition sopnd (w : w4) (ks : nat) (x : mref) : Prop :=
  mwf w x /\ mother w (mvec w ks) x /\ mdims w x = mdims w (XS ks).

Lemma ind_mopm y f w kd ks a b a' b' :
  dm_ok w kd -> dopnd w kd a -> dopnd w kd b -> GoodM w ks -> sopnd w ks a' -> sopnd w ks b' ->
  mabs w a = mabs w a' -> mabs w b = mabs w b' ->
  mabs (fst (step4 y w (MopM f (XD kd) a b))) (XD kd) = mabs (fst (step4 y w (MopM f (XS ks) a' b'))) (XS ks).
Proof.
  intros Hd (A1 & A2) (B1 & B2) Hs (A1' & A2' & A3') (B1' & B2' & B3') Ea Eb.
  destruct (step_dense_mopm y f w kd a b Hd A1 B1 A2 B2) as (_ & _ & X).
  destruct (step_sparse_mopm y f w ks a' b' Hs A1' B1' A2' B2' A3' B3') as (_ & _ & _ & Y).
  rewrite X, Y, Ea, Eb. reflexivity.
Qed.
Lemma ind_mdivm y w kd ks a b a' b' :
  dm_ok w kd -> dopnd w kd a -> dopnd w kd b -> GoodM w ks -> sopnd w ks a' -> sopnd w ks b' ->
  mabs w a = mabs w a' -> mabs w b = mabs w b' -> nonzero_all (mabs w b) ->
  mabs (fst (step4 y w (MdivM (XD kd) a b))) (XD kd) = mabs (fst (step4 y w (MdivM (XS ks) a' b'))) (XS ks).
Proof.
  intros Hd (A1 & A2) (B1 & B2) Hs (A1' & A2' & A3') (B1' & B2' & B3') Ea Eb Hnz.
  destruct (step_dense_mdivm y w kd a b Hd A1 B1 A2 B2 Hnz) as (_ & _ & X).
  destruct (step_sparse_mdivm y w ks a' b' Hs A1' A2' A3' B1' B2' B3') as (_ & _ & _ & Y); [rewrite <- Eb; auto|].
  rewrite X, Y, Ea, Eb. reflexivity.
Qed.
Lemma ind_madds y w kd ks a a' c :
  dm_ok w kd -> dopnd w kd a -> GoodM w ks -> sopnd w ks a' -> mabs w a = mabs w a' ->
  mabs (fst (step4 y w (MaddS (XD kd) a c))) (XD kd) = mabs (fst (step4 y w (MaddS (XS ks) a' c))) (XS ks).
Proof.
  intros Hd (A1 & A2) Hs (A1' & A2' & A3') Ea.
  destruct (step_dense_madds y w kd a c Hd A1 A2) as (_ & _ & X).
  destruct (step_sparse_madds y w ks a' c Hs A1' A2' A3') as (_ & _ & _ & Y).
  rewrite X, Y, Ea. reflexivity.
Qed.
Lemma ind_msubs y w kd ks a a' c :
  dm_ok w kd -> dopnd w kd a -> GoodM w ks -> sopnd w ks a' -> mabs w a = mabs w a' ->
  mabs (fst (step4 y w (MsubS (XD kd) a c))) (XD kd) = mabs (fst (step4 y w (MsubS (XS ks) a' c))) (XS ks).
Proof.
  intros Hd (A1 & A2) Hs (A1' & A2' & A3') Ea.
  destruct (step_dense_msubs y w kd a c Hd A1 A2) as (_ & _ & X).
  destruct (step_sparse_msubs y w ks a' c Hs A1' A2' A3') as (_ & _ & _ & Y).
  rewrite X, Y, Ea. reflexivity.
Qed.
Lemma ind_mmuls y w kd ks a a' c :
  dm_ok w kd -> dopnd w kd a -> GoodM w ks -> sopnd w ks a' -> mabs w a = mabs w a' ->
  mabs (fst (step4 y w (MmulS (XD kd) a c))) (XD kd) = mabs (fst (step4 y w (MmulS (XS ks) a' c))) (XS ks).
Proof.
  intros Hd (A1 & A2) Hs (A1' & A2' & A3') Ea.
  destruct (step_dense_mmuls y w kd a c Hd A1 A2) as (_ & _ & X).
  destruct (step_sparse_mmuls y w ks a' c Hs A1' A2' A3') as (_ & _ & _ & Y).
  rewrite X, Y, Ea. reflexivity.
Qed.
Lemma ind_mdivs y w kd ks a a' c :
  dm_ok w kd -> dopnd w kd a -> GoodM w ks -> sopnd w ks a' -> mabs w a = mabs w a' -> c <> 0 ->
  mabs (fst (step4 y w (MdivS (XD kd) a c))) (XD kd) = mabs (fst (step4 y w (MdivS (XS ks) a' c))) (XS ks).
Proof.
  intros Hd (A1 & A2) Hs (A1' & A2' & A3') Ea Hc.
  destruct (step_dense_mdivs y w kd a c Hd A1 A2 Hc) as (_ & _ & X).
  destruct (step_sparse_mdivs y w ks a' c Hc Hs A1' A2' A3') as (_ & _ & _ & Y).
  rewrite X, Y, Ea. reflexivity.
Qed.
Lemma ind_mset y w kd ks a a' :
  dm_ok w kd -> dopnd w kd a -> GoodM w ks -> sopnd w ks a' -> mabs w a = mabs w a' ->
  mabs (fst (step4 y w (MSet (XD kd) a))) (XD kd) = mabs (fst (step4 y w (MSet (XS ks) a'))) (XS ks).
Proof.
  intros Hd (A1 & A2) Hs (A1' & A2' & A3') Ea.
  destruct (step_dense_mset y w kd a Hd A1 A2) as (_ & _ & X).
  destruct (step_sparse_mset y w ks a' Hs A1' A2' A3') as (_ & _ & _ & Y).
  rewrite X, Y, Ea. reflexivity.
Qed.
Lemma ind_msetidentity y w kd ks :
  dm_ok w kd -> GoodM w ks -> mdims w (XD kd) = mdims w (XS ks) ->
  mabs (fst (step4 y w (MSetIdentity (XD kd)))) (XD kd) = mabs (fst (step4 y w (MSetIdentity (XS ks)))) (XS ks).
Proof.
  intros Hd Hs E.
  destruct (step_dense_msetidentity y w kd Hd) as (_ & _ & X).
  destruct (step_sparse_msetidentity y w ks Hs) as (_ & _ & _ & Y).
  rewrite X, Y, E. reflexivity.
Qed.
Lemma ind_mreset y w kd ks :
  dm_ok w kd -> GoodM w ks -> mdims w (XD kd) = mdims w (XS ks) ->
  mabs (fst (step4 y w (MReset (XD kd)))) (XD kd) = mabs (fst (step4 y w (MReset (XS ks)))) (XS ks).
Proof.
  intros Hd Hs E.
  destruct (step_dense_mreset y w kd Hd) as (_ & _ & X).
  destruct (step_sparse_mreset y w ks Hs) as (_ & _ & _ & Y).
  rewrite X, Y. unfold mabs. rewrite E. destruct (mdims w (XS ks)) as [r c]. rewrite !map_map. reflexivity.
Qed.
Lemma ind_mequals y w kd ks b b' e2 :
  0 < e2 -> dm_ok w kd -> dopnd w kd b -> GoodM w ks -> sopnd w ks b' ->
  mabs w (XD kd) = mabs w (XS ks) -> mabs w b = mabs w b' ->
  snd (step4 y w (MEquals (XD kd) b e2)) = snd (step4 y w (MEquals (XS ks) b' e2)).
Proof.
  intros He Hd (B1 & B2) Hs (B1' & B2' & B3') Er Eb.
  rewrite (step_dense_mequals y w kd b e2 Hd B1 B2).
  destruct (step_sparse_mequals y w ks b' e2 He Hs B1' B2' B3') as (w' & E & _).
  rewrite E. cbn [snd]. rewrite Er, Eb. reflexivity.
Qed.

(* ---- products ------------------------------------------------------------------------------ *)
Lemma ind_mdotm y w kd ks a b a' b' n m p :
  0 < n -> 0 < m -> 0 < p -> WWf (sw (b3 w)) ->
  rab_alias kd a b = false ->     (* not r.MdotM(r, r) on the dense side: known finding F-MDOTM-RR *)
  dm_ok w kd -> mwf w a -> mwf w b -> mdims w (XD kd) = (n, p) -> mdims w a = (n, m) -> mdims w b = (m, p) ->
  GoodM w ks -> mwf w a' -> mwf w b' -> mother w (mvec w ks) a' -> mother w (mvec w ks) b' ->
  mdims w (XS ks) = (n, p) -> mdims w a' = (n, m) -> mdims w b' = (m, p) ->
  mabs w a = mabs w a' -> mabs w b = mabs w b' ->
  mabs (fst (step4 y w (MdotM (XD kd) a b))) (XD kd) = mabs (fst (step4 y w (MdotM (XS ks) a' b'))) (XS ks).
Proof.
  intros Hn Hm Hp HW Hal Hd A1 B1 Dd Da Db Hs A1' B1' Oa Ob Ds Da' Db' Ea Eb.
  destruct (step_dense_mdotm y w kd a b n m p Hd A1 B1 Dd Da Db Hn Hm Hp (fun _ _ => HW) Hal) as (_ & _ & X).
  destruct (step_sparse_mdotm y w ks a' b' n m p Hs A1' B1' Oa Ob Ds Da' Db' Hn Hm Hp) as (_ & _ & _ & Y).
  rewrite X, Y, Ea, Eb. reflexivity.
Qed.
Lemma ind_mdotv y w kd t a b a' b' n m :
  0 < n -> 0 < m ->
  hasd (b3 w) kd -> mwf w a -> vwf w b -> mdims w a = (n, m) -> zlen (getd (b3 w) kd) = n -> vlen w b = m -> b <> RD kd ->
  Good (sw (b3 w)) t -> mwf w a' -> mother w t a' -> vwf w b' -> vother t b' ->
  mdims w a' = (n, m) -> vlen w (RS t) = n -> vlen w b' = m ->
  mabs w a = mabs w a' -> abs3 (b3 w) b = abs3 (b3 w) b' ->
  abs3 (b3 (fst (step4 y w (MdotV (RD kd) a b)))) (RD kd) = abs3 (b3 (fst (step4 y w (MdotV (RS t) a' b')))) (RS t).
Proof.
  intros Hn Hm Hk A1 B1 Da Lr Lb Nb HG A1' Oa B1' Ob Da' Lt Lb' Ea Eb.
  destruct (step_dense_mdotv y w kd a b n m Hk A1 B1 Da Lr Lb Hn Hm Nb) as (_ & _ & X).
  destruct (step_sparse_mdotv y w t a' b' n m HG A1' Oa B1' Ob Da' Lt Lb' Hn Hm) as (_ & _ & _ & Y).
  cbn [abs3]. rewrite X. cbn [abs3] in Y. rewrite Y, Ea, Eb. reflexivity.
Qed.
Lemma ind_vdotm y w kd t a b a' b' n m :
  0 < n -> 0 < m ->
  hasd (b3 w) kd -> vwf w a -> mwf w b -> mdims w b = (n, m) -> zlen (getd (b3 w) kd) = m -> vlen w a = n -> a <> RD kd ->
  Good (sw (b3 w)) t -> vwf w a' -> vother t a' -> mwf w b' -> mother w t b' ->
  mdims w b' = (n, m) -> vlen w (RS t) = m -> vlen w a' = n ->
  abs3 (b3 w) a = abs3 (b3 w) a' -> mabs w b = mabs w b' ->
  abs3 (b3 (fst (step4 y w (VdotM (RD kd) a b)))) (RD kd) = abs3 (b3 (fst (step4 y w (VdotM (RS t) a' b')))) (RS t).
Proof.
  intros Hn Hm Hk A1 B1 Db Lr La Na HG A1' Oa B1' Ob Db' Lt La' Ea Eb.
  destruct (step_dense_vdotm y w kd a b n m Hk A1 B1 Db Lr La Hn Hm Na) as (_ & _ & X).
  destruct (step_sparse_vdotm y w t a' b' n m HG A1' Oa B1' Ob Db' Lt La' Hn Hm) as (_ & _ & _ & Y).
  cbn [abs3]. rewrite X. cbn [abs3] in Y. rewrite Y, Ea, Eb. reflexivity.
Qed.

Lemma ind_mouter y w kd ks a b a' b' n m :
  dm_ok w kd -> vwf w a -> vwf w b -> mdims w (XD kd) = (n, m) -> vlen w a = n -> vlen w b = m ->
  GoodM w ks -> vwf w a' -> vwf w b' -> vother (mvec w ks) a' -> vother (mvec w ks) b' ->
  mdims w (XS ks) = (n, m) -> vlen w a' = n -> vlen w b' = m ->
  abs3 (b3 w) a = abs3 (b3 w) a' -> abs3 (b3 w) b = abs3 (b3 w) b' ->
  mabs (fst (step4 y w (MOuter (XD kd) a b))) (XD kd) = mabs (fst (step4 y w (MOuter (XS ks) a' b'))) (XS ks).
Proof.
  intros Hd A1 B1 Dd La Lb Hs A1' B1' Oa Ob Ds La' Lb' Ea Eb.
  destruct (step_dense_mouter y w kd a b n m Hd A1 B1 Dd La Lb) as (_ & _ & X).
  destruct (step_sparse_mouter y w ks a' b' n m Hs A1' B1' Oa Ob Ds La' Lb') as (_ & _ & _ & Y).
  rewrite X, Y, Ea, Eb. reflexivity.
Qed.
