(* C03 (round 6) — the safe constructor of the read-only sparse vectors and
   sequences of reads by index. *)
From Coq Require Import ZArith List Bool Lia Arith Permutation.
From ADV Require Import C11.Model C03.Model C03.ModelC C03.SpecC C03.ProofsC.
Import ListNotations.
Open Scope Z_scope.

(* ------------------------------------------------------------ sort.Sort *)
Lemma ins_pair_perm : forall kx l, Permutation (ins_pair kx l) (kx :: l).
Proof.
  induction l as [|y r IH]; simpl; [apply Permutation_refl|].
  destruct (fst kx <? fst y); [apply Permutation_refl|].
  eapply Permutation_trans; [apply perm_skip; exact IH|apply perm_swap].
Qed.
Lemma fold_ins_perm : forall l acc, Permutation (fold_left (fun a kx => ins_pair kx a) l acc) (l ++ acc).
Proof.
  induction l as [|x r IH]; intros acc; simpl; [apply Permutation_refl|].
  eapply Permutation_trans; [apply IH|].
  eapply Permutation_trans; [apply Permutation_app_head; apply ins_pair_perm|].
  apply Permutation_sym. apply Permutation_middle.
Qed.
Lemma sort_pairs_perm : forall l, Permutation (sort_pairs l) l.
Proof. intros l. unfold sort_pairs. rewrite <- (app_nil_r l) at 2. apply fold_ins_perm. Qed.
Lemma lk_perm : forall l l', Permutation l l' -> NoDup (keys l) -> forall i, lk l i = lk l' i.
Proof.
  induction 1 as [| [k x] l l' Hp IH | [k1 x1] [k2 x2] l | l l' l'' H1 IH1 H2 IH2]; intros Hnd i; simpl.
  - reflexivity.
  - inversion Hnd; subst. rewrite IH by assumption. reflexivity.
  - destruct (k1 =? i) eqn:E1, (k2 =? i) eqn:E2; try reflexivity.
    apply Z.eqb_eq in E1, E2. subst. simpl in Hnd. inversion Hnd as [|? ? Hni _]; subst. exfalso. apply Hni. left. reflexivity.
  - rewrite IH1 by assumption. apply IH2.
    eapply Permutation_NoDup; [|exact Hnd]. unfold keys. apply Permutation_map. exact H1.
Qed.
Lemma asc_ins : forall kx l, asc (keys l) -> ~ In (fst kx) (keys l) -> asc (keys (ins_pair kx l)).
Proof.
  induction l as [|y r IH]; simpl; intros Ha Hn; [split; [constructor|exact I]|].
  destruct Ha as [Hf Ha].
  destruct (fst kx <? fst y) eqn:E.
  - apply Z.ltb_lt in E. simpl. split; [|split; assumption].
    constructor; [assumption|]. eapply Forall_impl; [|exact Hf]. simpl. intros; lia.
  - apply Z.ltb_ge in E. simpl. split; [|apply IH; tauto].
    assert (Hp : Permutation (keys (ins_pair kx r)) (fst kx :: keys r))
      by (unfold keys; change (fst kx :: map fst r) with (map fst (kx :: r)); apply Permutation_map; apply ins_pair_perm).
    eapply Permutation_Forall; [apply Permutation_sym; exact Hp|].
    constructor; [|assumption]. assert (fst y <> fst kx) by tauto. lia.
Qed.
Lemma asc_fold_ins : forall l acc, NoDup (keys l ++ keys acc) -> asc (keys acc) ->
  asc (keys (fold_left (fun a kx => ins_pair kx a) l acc)).
Proof.
  induction l as [|x r IH]; simpl; intros acc Hnd Ha; [assumption|].
  inversion Hnd as [|? ? Hni Hnd']; subst.
  apply IH.
  - eapply Permutation_NoDup; [|exact Hnd].
    assert (Hp : Permutation (keys (ins_pair x acc)) (fst x :: keys acc))
      by (unfold keys; change (fst x :: map fst acc) with (map fst (x :: acc)); apply Permutation_map; apply ins_pair_perm).
    eapply Permutation_trans; [apply Permutation_middle|].
    apply Permutation_app_head. apply Permutation_sym. exact Hp.
  - apply asc_ins; [assumption|]. intros Hin. apply Hni. apply in_or_app. right. exact Hin.
Qed.
Lemma asc_sort_pairs : forall l, NoDup (keys l) -> asc (keys (sort_pairs l)).
Proof. intros l H. unfold sort_pairs. apply asc_fold_ins; [simpl; rewrite app_nil_r; exact H|exact I]. Qed.

(* ------------------------------------------------ the filtering loop of the constructor *)
Definition nzb (kx : Z * Z) : bool := negb (snd kx =? 0).
Lemma new_filter_ok : forall n l acc, Forall (fun k => k < n) (keys l) ->
  new_filter n l acc = Some (rev acc ++ filter nzb l).
Proof.
  induction l as [|[k x] r IH]; simpl; intros acc H; [rewrite app_nil_r; reflexivity|].
  inversion H; subst. destruct (n <=? k) eqn:E; [apply Z.leb_le in E; lia|].
  rewrite IH by assumption. unfold nzb at 2. simpl. destruct (x =? 0); simpl; [reflexivity|].
  rewrite <- app_assoc. reflexivity.
Qed.
Lemma new_filter_panics : forall n l acc, ~ Forall (fun k => k < n) (keys l) -> new_filter n l acc = None.
Proof.
  induction l as [|[k x] r IH]; simpl; intros acc H; [exfalso; apply H; constructor|].
  destruct (n <=? k) eqn:E; [reflexivity|]. apply Z.leb_gt in E. apply IH. intros Hf. apply H. constructor; assumption.
Qed.
Lemma lk_filter_nz : forall l i, NoDup (keys l) -> lk (filter nzb l) i = lk l i.
Proof.
  induction l as [|[k x] r IH]; simpl; intros i Hnd; [reflexivity|].
  inversion Hnd as [|? ? Hni Hnd']; subst. unfold nzb at 1. simpl.
  destruct (x =? 0) eqn:E; simpl.
  - apply Z.eqb_eq in E. subst. rewrite IH by assumption.
    destruct (k =? i) eqn:E2; [|reflexivity]. apply Z.eqb_eq in E2. subst. apply lk_notin. assumption.
  - rewrite IH by assumption. reflexivity.
Qed.
Lemma asc_filter : forall (f : Z * Z -> bool) l, asc (keys l) -> asc (keys (filter f l)).
Proof.
  induction l as [|y r IH]; simpl; intros Ha; [exact I|]. destruct Ha as [Hf Ha].
  destruct (f y); simpl; [|auto]. split; [|auto].
  rewrite Forall_forall in *. intros z Hz. apply Hf. unfold keys in *. apply in_map_iff in Hz.
  destruct Hz as [p [Hp Hin]]. apply filter_In in Hin. apply in_map_iff. exists p. tauto.
Qed.
Lemma keys_combine : forall ks xs, length ks = length xs -> keys (combine ks xs) = ks.
Proof.
  induction ks as [|k r IH]; destruct xs as [|x xs]; simpl; intros H; try reflexivity; try discriminate.
  f_equal. apply IH. lia.
Qed.

(* NewSparseConst<T>Vector(indices, values, n) *)
Lemma cnew_correct_l : forall ks xs n, NoDup ks -> length ks = length xs -> Forall (fun k => k < n) ks ->
  exists v, cnew ks xs n = Some v /\ cm v = [] /\ cn v = n /\ asc (keys (ce v)) /\
            (forall i, celem v i = lk (combine ks xs) i) /\
            Forall (fun kx => snd kx <> 0) (ce v).
Proof.
  intros ks xs n Hnd Hlen Hb. unfold cnew.
  rewrite Hlen, Nat.eqb_refl. simpl.
  assert (Hk : keys (combine ks xs) = ks) by (apply keys_combine; exact Hlen).
  pose proof (sort_pairs_perm (combine ks xs)) as Hp.
  assert (Hks : Permutation (keys (sort_pairs (combine ks xs))) ks)
    by (rewrite <- Hk at 2; unfold keys; apply Permutation_map; exact Hp).
  rewrite new_filter_ok by (eapply Permutation_Forall; [apply Permutation_sym; exact Hks|exact Hb]).
  simpl. eexists. split; [reflexivity|]. simpl.
  assert (Ha : asc (keys (sort_pairs (combine ks xs)))) by (apply asc_sort_pairs; rewrite Hk; exact Hnd).
  repeat split.
  - apply asc_filter. exact Ha.
  - intros i. unfold celem. simpl. rewrite lk_filter_nz by (apply asc_nodup; exact Ha).
    apply lk_perm; [exact Hp|apply asc_nodup; exact Ha].
  - rewrite Forall_forall. intros kx Hin. apply filter_In in Hin. destruct Hin as [_ Hz].
    unfold nzb in Hz. apply negb_true_iff in Hz. apply Z.eqb_neq in Hz. exact Hz.
Qed.
Lemma cnew_panics_l : forall ks xs n, length ks = length xs -> ~ Forall (fun k => k < n) ks -> cnew ks xs n = None.
Proof.
  intros ks xs n Hlen Hb. unfold cnew. rewrite Hlen, Nat.eqb_refl. simpl.
  rewrite new_filter_panics; [reflexivity|].
  intros Hf. apply Hb.
  assert (Hks : Permutation (keys (sort_pairs (combine ks xs))) ks).
  { rewrite <- (keys_combine ks xs Hlen) at 2. unfold keys. apply Permutation_map. apply sort_pairs_perm. }
  eapply Permutation_Forall; [exact Hks|exact Hf].
Qed.

(* ------------------------------------ any sequence of reads by index (Real AsDense, VdotV ...) *)
Lemma cat_all_S : forall c i v acc,
  cat_all (S c) i v acc = cat_all c (i + 1) (fst (cat v i)) (snd (cat v i) :: acc).
Proof.
  intros. change (cat_all (S c) i v acc) with (let '(v', x) := cat v i in cat_all c (i + 1) v' (x :: acc)).
  destruct (cat v i). reflexivity.
Qed.
Lemma cat_all_correct : forall cnt i v acc, NoDup (keys (ce v)) -> cache_ok v ->
  snd (cat_all cnt i v acc) = rev acc ++ map (celem v) (zseq i cnt) /\
  ce (fst (cat_all cnt i v acc)) = ce v /\ cn (fst (cat_all cnt i v acc)) = cn v /\
  cache_ok (fst (cat_all cnt i v acc)).
Proof.
  induction cnt as [|c IH]; intros i v acc Hnd Hc.
  - simpl. rewrite app_nil_r. auto.
  - rewrite cat_all_S.
    destruct (cat_correct_l v i Hnd Hc) as [Hx [He [Hn Hc']]].
    remember (fst (cat v i)) as v'. remember (snd (cat v i)) as x.
    assert (Hnd' : NoDup (keys (ce v'))) by (rewrite He; exact Hnd).
    destruct (IH (i + 1) v' (x :: acc) Hnd' Hc') as [H1 [H2 [H3 H4]]].
    repeat split.
    + rewrite H1. simpl. rewrite <- app_assoc. simpl. rewrite Hx. f_equal. f_equal.
      apply map_ext. intros a. unfold celem. rewrite He. reflexivity.
    + rewrite H2. exact He.
    + rewrite H3. exact Hn.
    + exact H4.
Qed.
(* a read of one object and then another (a view and its parent, either order): each delivers its
   own element, the order is irrelevant *)
Lemma two_reads_commute : forall v r a b, NoDup (keys (ce v)) -> cache_ok v -> NoDup (keys (ce r)) -> cache_ok r ->
  snd (cat v a) = celem v a /\ snd (cat r b) = celem r b /\
  snd (cat (fst (cat v a)) a) = celem v a /\ snd (cat (fst (cat r b)) b) = celem r b.
Proof.
  intros v r a b Hv Hcv Hr Hcr.
  destruct (cat_correct_l v a Hv Hcv) as [H1 [H2 [H3 H4]]].
  destruct (cat_correct_l r b Hr Hcr) as [G1 [G2 [G3 G4]]].
  repeat split; auto.
  - destruct (cat_correct_l (fst (cat v a)) a) as [K _]; [rewrite H2; auto|auto|]. rewrite K. unfold celem. rewrite H2. reflexivity.
  - destruct (cat_correct_l (fst (cat r b)) b) as [K _]; [rewrite G2; auto|auto|]. rewrite K. unfold celem. rewrite G2. reflexivity.
Qed.
Lemma reads_are_cabs : forall v, NoDup (keys (ce v)) -> cache_ok v ->
  snd (cat_all (Z.to_nat (cn v)) 0 v []) = cabs v /\
  ce (fst (cat_all (Z.to_nat (cn v)) 0 v [])) = ce v /\ cn (fst (cat_all (Z.to_nat (cn v)) 0 v [])) = cn v /\
  cache_ok (fst (cat_all (Z.to_nat (cn v)) 0 v [])).
Proof. intros v Hnd Hc. destruct (cat_all_correct (Z.to_nat (cn v)) 0 v [] Hnd Hc) as [H1 H2]. split; [exact H1|exact H2]. Qed.
(* the plain iterator: ascending, delivers elements, and what it does not visit is zero *)
Lemma citer_elements : forall v, asc (keys (ce v)) ->
  asc (keys (citer v)) /\
  (forall k x, In (k, x) (citer v) -> celem v k = x) /\
  (forall i, ~ In i (keys (citer v)) -> celem v i = 0).
Proof.
  intros v Ha. unfold citer, celem. repeat split; [exact Ha| |].
  - intros k x Hin. apply lk_in; [apply asc_nodup; exact Ha|exact Hin].
  - intros i Hn. apply lk_notin. exact Hn.
Qed.

(* ConstIteratorFrom(i) at HEAD: exactly the stored entries with index >= i, for every i *)
Lemma first_ge_pos_shift : forall e p i, first_ge_pos p i e = (p + first_ge_pos 0 i e)%nat.
Proof.
  induction e as [|[k x] r IH]; simpl; intros p i; [lia|].
  destruct (i <=? k); [lia|]. rewrite (IH (S p)), (IH 1%nat). lia.
Qed.
Lemma filter_all : forall {X} (f : X -> bool) l, Forall (fun x => f x = true) l -> filter f l = l.
Proof. induction l as [|y r IH]; simpl; intros H; [reflexivity|]. inversion H as [|? ? Hy Hr]; subst. rewrite Hy, IH by assumption. reflexivity. Qed.
Lemma citer_from_filter_l : forall e i, asc (keys e) ->
  skipn (first_ge_pos 0 i e) e = filter (fun kx => i <=? fst kx) e.
Proof.
  induction e as [|[k x] r IH]; simpl; intros i Ha; [reflexivity|].
  destruct Ha as [Hf Ha]. destruct (i <=? k) eqn:E; simpl.
  - f_equal. symmetry. apply filter_all.
    apply Z.leb_le in E. unfold keys in Hf. rewrite Forall_forall in *. intros kx Hin.
    apply Z.leb_le. assert (k < fst kx) by (apply Hf; apply in_map; exact Hin). lia.
  - rewrite first_ge_pos_shift. simpl. apply IH. exact Ha.
Qed.
Lemma citer_from_correct : forall v i, asc (keys (ce v)) ->
  citer_from v i = filter (fun kx => i <=? fst kx) (citer v) /\
  (forall k x, In (k, x) (citer_from v i) <-> In (k, x) (ce v) /\ i <= k) /\
  (Forall (fun k => k < i) (keys (ce v)) -> citer_from v i = []).
Proof.
  intros v i Ha. unfold citer_from, citer. rewrite citer_from_filter_l by exact Ha.
  split; [reflexivity|]. split.
  - intros k x. rewrite filter_In. simpl. rewrite Z.leb_le. tauto.
  - intros Hall. assert (H : forall l, Forall (fun k => k < i) (keys l) -> filter (fun kx : Z * Z => i <=? fst kx) l = []).
    { induction l as [|[k x] r IH]; simpl; intros H; [reflexivity|]. inversion H; subst.
      destruct (i <=? k) eqn:E; [apply Z.leb_le in E; lia|]. apply IH. assumption. }
    apply H. exact Hall.
Qed.
