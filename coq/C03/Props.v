(* C03 — property theorems (statements only; proofs live in Proofs*.v).
   All statements quantify over ALL worlds / vectors / operands, no bounds. *)
From Coq Require Import ZArith List Bool Lia.
From ADV Require Import C11.Model C11.Spec C03.Model C03.Spec C03.ProofsDense C03.ProofsSem C03.ProofsJoint C03.ProofsConv C03.ProofsOps
                        C03.ModelM C03.ProofsM.
Import ListNotations.
Open Scope Z_scope.

(* ---- A. dense receiver --------------------------------------------------------
   r.Op(a, b) for a dense r of ANY prior content and operands a, b each dense or
   sparse (of any internal state: stale entries, stored zeros; a or b may be r
   itself): no panic, the receiver holds the element-wise result of the
   operands' values, nothing else changes. *)
Theorem dense_receiver_elementwise : forall y f w k a b,
  hasd w k -> vdim w a = zlen (getd w k) -> vdim w b = zlen (getd w k) ->
  let r := step3 y w (VopV f (RD k) a b) in
  ok_out r /\ same_but w (fst r) k /\
  abs3 (fst r) (RD k) = map2 (bop_f f) (abs3 w a) (abs3 w b).
Proof. exact step_dense_vopv. Qed.
(* division on the model's carrier, the divisor non-zero at every position *)
Theorem dense_receiver_division : forall y w k a b,
  hasd w k -> vdim w a = zlen (getd w k) -> vdim w b = zlen (getd w k) ->
  nonzero_all (abs3 w b) ->
  let r := step3 y w (VdivV (RD k) a b) in
  ok_out r /\ same_but w (fst r) k /\
  abs3 (fst r) (RD k) = map2 Z.quot (abs3 w a) (abs3 w b).
Proof. exact step_dense_vdivv. Qed.
Theorem dense_receiver_adds : forall y w k a c,
  hasd w k -> vdim w a = zlen (getd w k) ->
  let r := step3 y w (VaddS (RD k) a c) in
  ok_out r /\ same_but w (fst r) k /\ abs3 (fst r) (RD k) = map (fun x => x + c) (abs3 w a).
Proof. exact step_dense_vadds. Qed.
Theorem dense_receiver_subs : forall y w k a c,
  hasd w k -> vdim w a = zlen (getd w k) ->
  let r := step3 y w (VsubS (RD k) a c) in
  ok_out r /\ same_but w (fst r) k /\ abs3 (fst r) (RD k) = map (fun x => x - c) (abs3 w a).
Proof. exact step_dense_vsubs. Qed.
Theorem dense_receiver_muls : forall y w k a c,
  hasd w k -> vdim w a = zlen (getd w k) ->
  let r := step3 y w (VmulS (RD k) a c) in
  ok_out r /\ same_but w (fst r) k /\ abs3 (fst r) (RD k) = map (fun x => x * c) (abs3 w a).
Proof. exact step_dense_vmuls. Qed.
Theorem dense_receiver_divs : forall y w k a c,
  hasd w k -> vdim w a = zlen (getd w k) -> c <> 0 ->
  let r := step3 y w (VdivS (RD k) a c) in
  ok_out r /\ same_but w (fst r) k /\ abs3 (fst r) (RD k) = map (fun x => Z.quot x c) (abs3 w a).
Proof. exact step_dense_vdivs. Qed.
Theorem dense_receiver_set : forall y w k a,
  hasd w k -> vdim w a = zlen (getd w k) ->
  let r := step3 y w (VSet (RD k) a) in
  ok_out r /\ same_but w (fst r) k /\ abs3 (fst r) (RD k) = abs3 w a.
Proof. exact step_dense_vset. Qed.
Theorem dense_receiver_equals : forall y w k b e2,
  vdim w b = zlen (getd w k) ->
  step3 y w (VEquals (RD k) b e2) = (w, (K_OK, [b2z (all_close e2 (getd w k) (abs3 w b))])).
Proof. exact step_dense_equals. Qed.
(* the hypotheses are satisfiable by a non-trivial instance *)
Example dense_receiver_instance :
  let w := run3 TFloat init3 [NewD [1; 0; 3]; NewS [2; 0] [5; 4] 3; SetAt (RS 0) 1 0] in
  hasd w 0 /\ vdim w (RS 0) = zlen (getd w 0) /\ vdim w (RD 0) = zlen (getd w 0) /\ nonzero_all [4; 1; 5].
Proof. vm_compute. repeat split; try lia; repeat constructor; discriminate. Qed.

(* ---- B. sparse receiver ---------------------------------------------------------
   r.Op(a, b) for a sparse r in ANY coherent internal state (empty, stale
   non-zero entries, explicitly stored zeros, index keys without value) and
   operands a, b each a dense vector or ANOTHER sparse vector (again in any
   coherent state): no panic, no fuel exhaustion, the receiver stands for the
   element-wise result, every other vector keeps its value, and the world
   stays coherent (G: C11's invariant for every vector, cells allocated and
   unique, the receiver separate) so that the next operation meets the same
   hypotheses.  [Good3 w t] = C11's WInv and WWf + the receiver shares no cell. *)
Theorem sparse_receiver_elementwise : forall y f w t a b,
  Good3 w t -> operand3 w t a -> operand3 w t b ->
  let r := step3 y w (VopV f (RS t) a b) in
  ok_out r /\ same_but_s w (fst r) t /\ G t (sw (fst r)) /\
  abs3 (fst r) (RS t) = map2 (bop_f f) (abs3 w a) (abs3 w b).
Proof. exact step_sparse_vopv. Qed.
Theorem sparse_receiver_muls : forall y w t a c,
  Good3 w t -> operand3 w t a ->
  let r := step3 y w (VmulS (RS t) a c) in
  ok_out r /\ same_but_s w (fst r) t /\ G t (sw (fst r)) /\
  abs3 (fst r) (RS t) = map (fun x => x * c) (abs3 w a).
Proof. exact step_sparse_vmuls. Qed.
Theorem sparse_receiver_divs : forall y w t a c,
  Good3 w t -> operand3 w t a -> c <> 0 ->
  let r := step3 y w (VdivS (RS t) a c) in
  ok_out r /\ same_but_s w (fst r) t /\ G t (sw (fst r)) /\
  abs3 (fst r) (RS t) = map (fun x => Z.quot x c) (abs3 w a).
Proof. exact step_sparse_vdivs. Qed.
Theorem sparse_receiver_set : forall y w t a,
  Good3 w t -> operand3 w t a ->
  let r := step3 y w (VSet (RS t) a) in
  ok_out r /\ same_but_s w (fst r) t /\ G t (sw (fst r)) /\
  abs3 (fst r) (RS t) = abs3 w a.
Proof. exact step_sparse_vset. Qed.

Theorem sparse_receiver_adds : forall y w t a c,
  Good3 w t -> operand3 w t a ->
  let r := step3 y w (VaddS (RS t) a c) in
  ok_out r /\ same_but_s w (fst r) t /\ G t (sw (fst r)) /\
  abs3 (fst r) (RS t) = map (fun x => x + c) (abs3 w a).
Proof. exact step_sparse_vadds. Qed.
Theorem sparse_receiver_subs : forall y w t a c,
  Good3 w t -> operand3 w t a ->
  let r := step3 y w (VsubS (RS t) a c) in
  ok_out r /\ same_but_s w (fst r) t /\ G t (sw (fst r)) /\
  abs3 (fst r) (RS t) = map (fun x => x - c) (abs3 w a).
Proof. exact step_sparse_vsubs. Qed.
(* division: exact statement on the model's carrier (Go's truncating integer
   division; for the float types the quotient is exact where the divisor
   divides the dividend), the divisor non-zero at every position; without that
   hypothesis Go gives Inf/NaN (floats: PropsR2.sparse_receiver_division_total)
   or panics (ints) — modelled in [sdiv], tied by the correspondence *)
Theorem sparse_receiver_division : forall y w t a b,
  Good3 w t -> operand3 w t a -> operand3 w t b -> nonzero_all (abs3 w b) ->
  let r := step3 y w (VdivV (RS t) a b) in
  ok_out r /\ same_but_s w (fst r) t /\ G t (sw (fst r)) /\
  abs3 (fst r) (RS t) = map2 Z.quot (abs3 w a) (abs3 w b).
Proof. exact step_sparse_vdivv. Qed.
(* Equals with a sparse receiver is the point-wise predicate, for every
   epsilon > 0 (e2 = 2 epsilon); it changes no value (Qw: the iterators only
   remove null entries) *)
Theorem sparse_receiver_equals : forall y w t b e2,
  0 < e2 -> Good3 w t -> operand3 w t b ->
  exists w', step3 y w (VEquals (RS t) b e2) =
               (w', (K_OK, [b2z (all_close e2 (abs3 w (RS t)) (abs3 w b))])) /\
             Qw (sw w) (sw w') /\ dn w' = dn w /\ G t (sw w').
Proof. exact step_sparse_equals. Qed.
(* why the hypothesis 0 < epsilon is there: for epsilon = 0 the strict test
   |a-b| < epsilon fails for equal elements, and only the dense loop looks at
   positions where both operands are zero (epsilon <= 0 is outside the
   property's statement; not a finding) *)
Theorem equals_needs_positive_epsilon :
  let w := run3 TFloat init3 [NewS [] [] 1; NewD [0]] in
  abs3 w (RS 0) = abs3 w (RD 0) /\
  snd (step3 TFloat w (VEquals (RS 0) (RS 0) 0)) = (K_OK, [1]) /\
  snd (step3 TFloat w (VEquals (RD 0) (RD 0) 0)) = (K_OK, [0]) /\
  snd (step3 TFloat w (VEquals (RS 0) (RD 0) 0)) = (K_OK, [0]) /\
  snd (step3 TFloat w (VEquals (RD 0) (RS 0) 0)) = (K_OK, [0]).
Proof. exact equals_eps0_refuted_lemma. Qed.

(* the joint iterators themselves (key lemma): from any state in which the
   three iterators stand at "first non-zero position >= p", Next() either
   reports the end — then receiver and both operands are zero from p on — or
   selects an index i in [p, n) such that everything is zero on [p, i), hands
   out exactly the operands' values at i (0 for an operand that has no entry
   there), the receiver's cell if it has one, and leaves all three iterators
   at "first non-zero position >= i+1"; it never changes a value (Qw: only
   null entries are removed). *)
Theorem joint3_next_exact : forall t n A B w j p,
  J3 t n A B w j p ->
  exists w' j', joint3_next w t j = Some (w', j') /\ Qw w w' /\ G t w' /\
    ((kok j' = false /\
      forall i, p <= i -> peek (hp w) (getv w t) i = 0 /\ A i = 0 /\ B i = 0) \/
     (kok j' = true /\ p <= kidx j' < n /\
      (forall i, p <= i < kidx j' -> peek (hp w) (getv w t) i = 0 /\ A i = 0 /\ B i = 0) /\
      jval (ks2 j') = A (kidx j') /\ jval (ks3 j') = B (kidx j') /\
      (forall l, ks1 j' = Some l -> lookup (kidx j') (vals (getv w' t)) = Some l) /\
      (ks1 j' = None -> peek (hp w) (getv w t) (kidx j') = 0) /\
      J3 t n A B w' j' (kidx j' + 1))).
Proof. exact joint3_next_spec. Qed.
(* JOINT_ITERATOR is JOINT3_ITERATOR with an empty third operand *)
Theorem joint_is_joint3 : forall w t j, joint3_next w t (embed j) = lift_e (joint_next w t j).
Proof. exact joint_next_embed. Qed.

(* ---- C. the property: the result does not depend on the storage -----------------
   the same operation on a dense receiver and on a sparse receiver (any prior
   contents), with operands that stand for the same values (however stored),
   gives element-wise equal results *)
Theorem storage_independence_elementwise : forall y f w k t a b a' b',
  hasd w k -> vdim w a = zlen (getd w k) -> vdim w b = zlen (getd w k) ->
  Good3 w t -> operand3 w t a' -> operand3 w t b' ->
  abs3 w a = abs3 w a' -> abs3 w b = abs3 w b' ->
  abs3 (fst (step3 y w (VopV f (RD k) a b))) (RD k) =
  abs3 (fst (step3 y w (VopV f (RS t) a' b'))) (RS t).
Proof. exact storage_independence_lemma. Qed.
Theorem storage_independence_division : forall y w k t a b a' b',
  hasd w k -> vdim w a = zlen (getd w k) -> vdim w b = zlen (getd w k) ->
  Good3 w t -> operand3 w t a' -> operand3 w t b' ->
  abs3 w a = abs3 w a' -> abs3 w b = abs3 w b' -> nonzero_all (abs3 w b) ->
  abs3 (fst (step3 y w (VdivV (RD k) a b))) (RD k) =
  abs3 (fst (step3 y w (VdivV (RS t) a' b'))) (RS t).
Proof. exact storage_independence_div_lemma. Qed.
(* Reset: every element reads 0 afterwards, nothing else changes *)
Theorem sparse_receiver_reset : forall y w t,
  Good3 w t ->
  let r := step3 y w (VReset (RS t)) in
  ok_out r /\ dn (fst r) = dn w /\
  abs3 (fst r) (RS t) = map (fun _ => 0) (abs3 w (RS t)) /\
  (forall u, u <> t -> sabs (sw (fst r)) u = sabs (sw w) u).
Proof. exact step_sparse_reset. Qed.
Theorem dense_receiver_reset : forall y w k,
  hasd w k ->
  let r := step3 y w (VReset (RD k)) in
  ok_out r /\ sw (fst r) = sw w /\ abs3 (fst r) (RD k) = map (fun _ => 0) (abs3 w (RD k)).
Proof. exact step_dense_reset. Qed.

(* ---- D. conversions keep every element ------------------------------------------
   AsDense<T>Vector(x), x dense or sparse in any coherent state: the new dense
   vector holds x's values, no existing value changes (the template types walk
   x's iterator, which only removes null entries: Qw) *)
Theorem conversion_as_dense : forall y w x,
  match x with RS u => Inv (getv (sw w) u) /\ has (sw w) u | RD _ => True end ->
  let r := step3 y w (AsDense x) in
  ok_out r /\ abs3 (fst r) (RD (length (dn w))) = abs3 w x /\ Qw (sw w) (sw (fst r)) /\
  (forall k, hasd w k -> getd (fst r) k = getd w k).
Proof. exact step_asdense. Qed.
(* AsSparse<T>Vector(dense): every element is kept (all positions are stored
   explicitly), the new vector is coherent, nothing else changes *)
Theorem conversion_as_sparse_of_dense : forall y w k,
  WWf (sw w) ->
  let r := step3 y w (AsSparse (RD k)) in
  ok_out r /\ abs3 (fst r) (RS (length (vecs (sw w)))) = getd w k /\
  Inv (getv (sw (fst r)) (length (vecs (sw w)))) /\ dn (fst r) = dn w /\
  (forall u, has (sw w) u -> sabs (sw (fst r)) u = sabs (sw w) u).
Proof. exact step_assparse_dense. Qed.
(* PARTIAL: AsSparse of a sparse vector (= Clone) and NewSparse<T>Vector(indices,
   values, n) are modelled (C11's clone / new_vec) and tied by the
   correspondence, but "abs (clone v) = abs v" and "abs (new ks xs n) = scatter"
   are not proved here; C11 proves that both yield coherent vectors. *)

(* the hypotheses are satisfiable: a sparse receiver with a stale entry and a
   stored zero, a dense and a sparse operand *)
Example sparse_receiver_instance :
  let w := run3 TFloat init3 [NewS [3; 0] [7; 5] 5; SetAt (RS 0) 1 0; NewD [0; 0; 2; 0; 4]; NewS [4; 2] [-4; 1] 5] in
  operand3 w 0 (RD 0) /\ operand3 w 0 (RS 1) /\ has (sw w) 0 /\
  abs3 (fst (step3 TFloat w (VopV Add (RS 0) (RD 0) (RS 1)))) (RS 0) = [0; 0; 3; 0; 0].
Proof. vm_compute. repeat split; auto; try lia; discriminate. Qed.

(* ---- E. matrices -------------------------------------------------------------------
   The matrix operations (sparse matrix = header over one sparse vector of the
   world, dense matrix = row-major list; MaddM .. MdivS, MdotM, Outer, MdotV,
   VdotM, Set, SetIdentity, Reset, Equals, conversions) are modelled in
   ModelM.v and tied to the implementation by the correspondence.  Their
   universally quantified theorems (round 2) are in PropsM.v; a receiver that
   is also an operand, division by zero on the float types and whole histories
   are in PropsR2.v.  The two defects found while building this check (sparse
   MdotM accumulating onto the receiver's prior content; sparse matrix Equals
   answering false where the receiver has no entry) were fixed in /repo
   (c117908, fc1915b); the model follows HEAD and the witnesses below are
   regression examples. *)
Theorem mdotm_stale_fixed :
  let w := run4 TFloat init4 [NewSM [0] [7] 1 1; NewDM [7] 1 1; NewDM [2] 1 1; NewDM [3] 1 1] in
  mabs w (XS 0) = mabs w (XD 0) /\
  mabs (fst (step4 TFloat w (MdotM (XD 0) (XD 1) (XD 2)))) (XD 0) = [6] /\
  mabs (fst (step4 TFloat w (MdotM (XS 0) (XD 1) (XD 2)))) (XS 0) = [6].
Proof. exact mdotm_stale_fixed_lemma. Qed.
Theorem mequals_absent_fixed :
  let w := run4 TFloat init4 [NewSM [] [] 1 1; NewDM [0] 1 1; NewDM [1] 1 1] in
  mabs w (XS 0) = mabs w (XD 0) /\
  snd (step4 TFloat w (MEquals (XD 0) (XD 1) 5)) = (K_OK, [1]) /\
  snd (step4 TFloat w (MEquals (XS 0) (XD 1) 5)) = (K_OK, [1]).
Proof. exact mequals_absent_fixed_lemma. Qed.
