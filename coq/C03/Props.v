(* C03 — property theorems (statements only; proofs live in Proofs*.v).
   All statements quantify over ALL worlds / vectors / operands, no bounds. *)
From Coq Require Import ZArith List Bool Lia.
From ADV Require Import C11.Model C11.Spec C03.Model C03.Spec C03.ProofsDense C03.ProofsOps.
Import ListNotations.
Open Scope Z_scope.

(* ---- A. dense receiver --------------------------------------------------------
   r.Op(a, b) for a dense r of ANY prior content and operands a, b each dense or
   sparse (of any internal state: stale entries, stored zeros; a or b may be r
   itself): no panic, the receiver holds the element-wise result of the
   operands' values, nothing else changes. *)
Theorem dense_receiver_elementwise : forall y f w k a b,
  hasd w k -> vdim w a = zlen (getd w k) -> vdim w b = zlen (getd w k) ->
  let r := step3 y w (VopV f (RD k) a b) in
  ok_out r /\ same_but w (fst r) k /\
  abs3 (fst r) (RD k) = map2 (bop_f f) (abs3 w a) (abs3 w b).
Proof. exact step_dense_vopv. Qed.
(* division on the model's carrier, the divisor non-zero at every position *)
Theorem dense_receiver_division : forall y w k a b,
  hasd w k -> vdim w a = zlen (getd w k) -> vdim w b = zlen (getd w k) ->
  nonzero_all (abs3 w b) ->
  let r := step3 y w (VdivV (RD k) a b) in
  ok_out r /\ same_but w (fst r) k /\
  abs3 (fst r) (RD k) = map2 Z.quot (abs3 w a) (abs3 w b).
Proof. exact step_dense_vdivv. Qed.
Theorem dense_receiver_adds : forall y w k a c,
  hasd w k -> vdim w a = zlen (getd w k) ->
  let r := step3 y w (VaddS (RD k) a c) in
  ok_out r /\ same_but w (fst r) k /\ abs3 (fst r) (RD k) = map (fun x => x + c) (abs3 w a).
Proof. exact step_dense_vadds. Qed.
Theorem dense_receiver_subs : forall y w k a c,
  hasd w k -> vdim w a = zlen (getd w k) ->
  let r := step3 y w (VsubS (RD k) a c) in
  ok_out r /\ same_but w (fst r) k /\ abs3 (fst r) (RD k) = map (fun x => x - c) (abs3 w a).
Proof. exact step_dense_vsubs. Qed.
Theorem dense_receiver_muls : forall y w k a c,
  hasd w k -> vdim w a = zlen (getd w k) ->
  let r := step3 y w (VmulS (RD k) a c) in
  ok_out r /\ same_but w (fst r) k /\ abs3 (fst r) (RD k) = map (fun x => x * c) (abs3 w a).
Proof. exact step_dense_vmuls. Qed.
Theorem dense_receiver_divs : forall y w k a c,
  hasd w k -> vdim w a = zlen (getd w k) -> c <> 0 ->
  let r := step3 y w (VdivS (RD k) a c) in
  ok_out r /\ same_but w (fst r) k /\ abs3 (fst r) (RD k) = map (fun x => Z.quot x c) (abs3 w a).
Proof. exact step_dense_vdivs. Qed.
Theorem dense_receiver_set : forall y w k a,
  hasd w k -> vdim w a = zlen (getd w k) ->
  let r := step3 y w (VSet (RD k) a) in
  ok_out r /\ same_but w (fst r) k /\ abs3 (fst r) (RD k) = abs3 w a.
Proof. exact step_dense_vset. Qed.
Theorem dense_receiver_equals : forall y w k b e2,
  vdim w b = zlen (getd w k) ->
  step3 y w (VEquals (RD k) b e2) = (w, (K_OK, [b2z (all_close e2 (getd w k) (abs3 w b))])).
Proof. exact step_dense_equals. Qed.
(* the hypotheses are satisfiable by a non-trivial instance *)
Example dense_receiver_instance :
  let w := run3 TFloat init3 [NewD [1; 0; 3]; NewS [2; 0] [5; 4] 3; SetAt (RS 0) 1 0] in
  hasd w 0 /\ vdim w (RS 0) = zlen (getd w 0) /\ vdim w (RD 0) = zlen (getd w 0) /\ nonzero_all [4; 1; 5].
Proof. vm_compute. repeat split; try lia; repeat constructor; discriminate. Qed.
