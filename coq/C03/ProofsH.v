(* C03 (round 2) — whole histories: one step of a mixed history refines the plain
   value-list step and keeps the invariant HI (C11's coherence + well-formedness). *)
From Coq Require Import ZArith List Bool Lia.
From ADV Require Import C11.Model C11.Spec C11.Dense C11.ProofsMap C11.ProofsInv C11.ProofsRef C11.Props
                        C03.Model C03.Spec C03.ProofsDense C03.ProofsSem C03.ProofsJoint C03.ProofsConv
                        C03.ProofsOps C03.ProofsDiv C03.ProofsAlias C03.ProofsAlias2 C03.SpecH.
Import ListNotations.
Open Scope Z_scope.

(* ---- invariants ------------------------------------------------------------------- *)
Lemma lookup_In_cells : forall (m : vmap) k l, lookup k m = Some l -> In l (map snd m).
Proof.
  induction m as [|[k' v] m IH]; intros k l; simpl; [discriminate|].
  destruct (k' =? k); [intro E; inversion E; auto|intro E; right; eauto].
Qed.
Lemma unshared_Sep s t : unshared s t -> C03.Spec.Sep s t.
Proof.
  intros U u l N (k1 & L1) (k2 & L2). apply (U u l N); unfold cells_of; eapply lookup_In_cells; eauto.
Qed.
Lemma HI_Good w t : HI w -> has (sw w) t -> unshared (sw w) t -> Good3 w t.
Proof. intros (A & B) H U. split; [auto|]. split; [auto|]. split; [apply unshared_Sep; auto|auto]. Qed.
Lemma AInv_WInv s : AInv s -> WInv s.
Proof.
  intro A. unfold WInv. apply Forall_forall. intros v Hv.
  destruct (In_nth _ _ (nil_vec 0) Hv) as (u & Hu & E). rewrite <- E. apply (A u).
Qed.
Lemma AWf_WWf s : AWf s -> WWf s.
Proof.
  intro A. unfold WWf. apply Forall_forall. intros v Hv.
  destruct (In_nth _ _ (nil_vec 0) Hv) as (u & Hu & E). rewrite <- E. apply (A u).
Qed.
Lemma G_HI w t : G t (sw w) -> HI w.
Proof. intros (A & B & _). split; [apply AInv_WInv; auto|apply AWf_WWf; auto]. Qed.

(* ---- reading the abstraction -------------------------------------------------------- *)
Lemma nth_absw s u : nth u (absw s) [] = sabs s u.
Proof.
  unfold absw, sabs, abs, getv. destruct (Nat.lt_ge_cases u (length (vecs s))) as [L|L].
  - rewrite (nth_indep _ [] (abs_vec (hp s) (nil_vec 0))) by (rewrite map_length; auto).
    apply map_nth.
  - rewrite !nth_overflow by (rewrite ?map_length; auto). reflexivity.
Qed.
Lemma abs3_dget w x : abs3 w x = dget3 (absh w) x.
Proof. destruct x as [u|k]; simpl; [symmetry; apply nth_absw|reflexivity]. Qed.
Lemma list_eq_nth {X} (d : X) (l1 l2 : list X) :
  length l1 = length l2 -> (forall i, nth i l1 d = nth i l2 d) -> l1 = l2.
Proof. intros L H. apply (nth_ext l1 l2 d d L). intros i _. apply H. Qed.
Lemma absw_upd s s' t L :
  length (vecs s') = length (vecs s) -> has s t -> sabs s' t = L ->
  (forall u, u <> t -> sabs s' u = sabs s u) ->
  absw s' = upd t L (absw s).
Proof.
  intros Hl Ht Et F. apply (list_eq_nth []).
  - rewrite upd_length. unfold absw. rewrite !map_length. auto.
  - intro i. destruct (Nat.eq_dec t i) as [<-|N].
    + rewrite nth_upd_eq by (unfold absw; rewrite map_length; auto). rewrite nth_absw. auto.
    + rewrite nth_upd_neq by auto. rewrite !nth_absw. apply F. auto.
Qed.
Lemma absw_same s s' :
  length (vecs s') = length (vecs s) -> (forall u, sabs s' u = sabs s u) -> absw s' = absw s.
Proof.
  intros Hl F. apply (list_eq_nth []).
  - unfold absw. rewrite !map_length. auto.
  - intro i. rewrite !nth_absw. auto.
Qed.
Lemma Qw_absw s s' : Qw s s' -> absw s' = absw s.
Proof.
  intro HQ. apply absw_same; [apply HQ|].
  intro u. rewrite (sabs_peek s' u _ (Qw_dim s s' u HQ)), (sabs_peek s u _ eq_refl).
  apply map_ext. intro i. apply Qw_peek. auto.
Qed.
Lemma dn_upd w w' k :
  same_but w w' k -> hasd w k -> dn w' = upd k (getd w' k) (dn w).
Proof.
  intros (_ & Hl & F) Hk. apply (list_eq_nth []).
  - rewrite upd_length. auto.
  - intro i. destruct (Nat.eq_dec k i) as [<-|N].
    + rewrite nth_upd_eq by auto. reflexivity.
    + rewrite nth_upd_neq by auto. apply (F i). auto.
Qed.

(* ---- the two receiver kinds, generically -------------------------------------------- *)
Lemma sparse_case w (r : w3 * (Z * list Z)) t L :
  has (sw w) t ->
  same_but_s w (fst r) t -> G t (sw (fst r)) -> abs3 (fst r) (RS t) = L ->
  absh (fst r) = dset3 (absh w) (RS t) L /\ HI (fst r).
Proof.
  intros Ht (S1 & S2 & S3) HG E. split; [|eapply G_HI; eauto].
  unfold absh, dset3. cbn [ds dd]. rewrite S1. f_equal. apply absw_upd; auto.
Qed.
Lemma dense_case w (r : w3 * (Z * list Z)) k L :
  HI w -> hasd w k ->
  same_but w (fst r) k -> abs3 (fst r) (RD k) = L ->
  absh (fst r) = dset3 (absh w) (RD k) L /\ HI (fst r).
Proof.
  intros HH Hk S E. pose proof S as (S1 & S2 & S3). split.
  - unfold absh, dset3. cbn [ds dd]. rewrite S1. f_equal. rewrite (dn_upd w (fst r) k S Hk).
    simpl in E. rewrite E. reflexivity.
  - unfold HI. rewrite S1. exact HH.
Qed.

(* ---- operand conditions ---------------------------------------------------------------- *)
(* what the aliasing-tolerant step lemmas (ProofsAlias.v) ask of an operand *)
Definition operand3g (w : w3) (t : nat) (x : vref) : Prop :=
  match x with
  | RS u => has (sw w) u /\ dim (getv (sw w) u) = dim (getv (sw w) t)
  | RD k => hasd w k /\ zlen (getd w k) = dim (getv (sw w) t)
  end.
Lemma opnd_ok_sparse w t x : opnd_ok w (RS t) x -> operand3g w t x.
Proof. intros (E & D). destruct x as [u|k]; simpl in *; auto. Qed.
Lemma opnd_ok_dense w k x : opnd_ok w (RD k) x -> vdim w x = zlen (getd w k).
Proof. intros (_ & D). exact D. Qed.
Lemma operand3g_na w t x : operand3g w t x -> noalias (RS t) x -> operand3 w t x.
Proof. destruct x as [u|k]; simpl; intros H N; tauto. Qed.
Lemma qdiv_fdiv y a b : y <> TInt -> qdiv y a b = fdiv a b.
Proof. intro H. unfold qdiv, fdiv. destruct y; auto. contradiction. Qed.
Lemma qdiv_nonzero y a b : b <> 0 -> qdiv y a b = Z.quot a b.
Proof.
  intro H. unfold qdiv. destruct (b =? 0) eqn:E; [apply Z.eqb_eq in E; contradiction|]. destruct y; auto.
Qed.
Lemma map2_ext_nz (f g : Z -> Z -> Z) : forall l1 l2,
  nonzero_all l2 -> (forall a b, b <> 0 -> f a b = g a b) -> map2 f l1 l2 = map2 g l1 l2.
Proof.
  induction l1 as [|a l1 IH]; intros [|b l2] Hn E; simpl; auto.
  inversion Hn; subst. rewrite E by auto. f_equal. apply IH; auto.
Qed.

(* ---- one step ------------------------------------------------------------------------------ *)
Definition Ref (y : ty) (w : w3) (o : hop) : Prop :=
  absh (hstep y w o) = dhstep y (absh w) o /\ HI (hstep y w o).

(* a step that is a container step of C11 on the sparse part *)
Lemma ref_c11 w w' o :
  HI w -> in_range (sw w) o -> safe (sw w) o ->
  sw w' = fst (step (sw w) o) -> dn w' = dn w ->
  absh w' = {| ds := dstep (ds (absh w)) o; dd := dd (absh w) |} /\ HI w'.
Proof.
  intros (I & W) R S E1 E2. destruct (refinement_step (sw w) o I W R S) as (A & B).
  unfold absh, HI. cbn [ds dd]. rewrite E1, E2, A. split; [reflexivity|].
  split; [apply inv_step; auto|auto].
Qed.
Lemma ref_HC y w o : HI w -> in_range (sw w) o -> safe (sw w) o -> Ref y w (HC o).
Proof. intros H R S. unfold Ref. cbn [hstep dhstep]. apply (ref_c11 w _ o H R S); reflexivity. Qed.

Lemma safe_nowrite w o : writes_cells o = None -> safe w o.
Proof. intro E. unfold safe. rewrite E. exact I. Qed.

Lemma ref_NewS y w ks xs n : HI w -> in_range (sw w) (New ks xs n) -> Ref y w (HM (NewS ks xs n)).
Proof.
  intros H R. unfold Ref. cbn [hstep dhstep dstep3].
  apply (ref_c11 w _ (New ks xs n) H R (safe_nowrite (sw w) (New ks xs n) eq_refl)).
  - cbn [step3 step]. destruct (new_vec (hp (sw w)) ks xs n) as [[h' v]|]; reflexivity.
  - cbn [step3]. destruct (new_vec (hp (sw w)) ks xs n) as [[h' v]|]; reflexivity.
Qed.
Lemma ref_SetAtS y w u i v :
  HI w -> in_range (sw w) (C11.Model.SetAt u i v) -> unshared (sw w) u -> Ref y w (HM (Model.SetAt (RS u) i v)).
Proof.
  intros H R U. unfold Ref. cbn [hstep dhstep dstep3 dset3 dget3].
  apply (ref_c11 w _ (C11.Model.SetAt u i v) H R U).
  - cbn [step3 step]. destruct (at_ (hp (sw w)) (getv (sw w) u) i) as [[[h' v'] l]|]; reflexivity.
  - cbn [step3]. destruct (at_ (hp (sw w)) (getv (sw w) u) i) as [[[h' v'] l]|]; reflexivity.
Qed.
Lemma ref_AsSparseS y w u : HI w -> has (sw w) u -> Ref y w (HM (AsSparse (RS u))).
Proof.
  intros H R. unfold Ref. cbn [hstep dhstep dstep3 dget3].
  apply (ref_c11 w _ (Clone u) H R (safe_nowrite (sw w) (Clone u) eq_refl)).
  - cbn [step3 step]. destruct (clone (hp (sw w)) (getv (sw w) u)) as [h1 r]. reflexivity.
  - cbn [step3]. destruct (clone (hp (sw w)) (getv (sw w) u)) as [h1 r]. reflexivity.
Qed.
Lemma ref_VIterS y w u : HI w -> has (sw w) u -> Ref y w (HM (VIter (RS u))).
Proof.
  intros H R. unfold Ref. cbn [hstep dhstep dstep3].
  destruct (ref_c11 w (fst (step3 y w (VIter (RS u)))) (Iterate u) H R (safe_nowrite (sw w) (Iterate u) eq_refl)) as (A & B).
  - cbn [step3 step]. destruct (iterate (hp (sw w)) (getv (sw w) u)) as [[v' q]|]; reflexivity.
  - cbn [step3]. destruct (iterate (hp (sw w)) (getv (sw w) u)) as [[v' q]|]; reflexivity.
  - split; [|exact B]. rewrite A. reflexivity.
Qed.
Lemma ref_VResetS y w u : HI w -> has (sw w) u -> unshared (sw w) u -> Ref y w (HM (VReset (RS u))).
Proof.
  intros H R U. unfold Ref. cbn [hstep dhstep dstep3 dset3 dget3].
  apply (ref_c11 w _ (Reset u) H R U); reflexivity.
Qed.

(* the operations that only touch the dense part *)
Lemma ref_NewD y w xs : HI w -> Ref y w (HM (NewD xs)).
Proof. intro H. unfold Ref. cbn [hstep dhstep dstep3 step3 fst]. split; [reflexivity|exact H]. Qed.
Lemma ref_SetAtD y w k i v : HI w -> hasd w k -> 0 <= i < zlen (getd w k) -> Ref y w (HM (Model.SetAt (RD k) i v)).
Proof.
  intros H Hk Hi. unfold Ref. cbn [hstep dhstep dstep3 step3 dset3 dget3].
  assert (E : (0 <=? i) && (i <? zlen (getd w k)) = true)
    by (apply andb_true_iff; split; [apply Z.leb_le|apply Z.ltb_lt]; lia).
  rewrite E. cbn [fst]. split; [reflexivity|exact H].
Qed.
Lemma ref_VIterD y w k : HI w -> Ref y w (HM (VIter (RD k))).
Proof. intro H. unfold Ref. cbn [hstep dhstep dstep3 step3 fst]. split; [reflexivity|exact H]. Qed.
Lemma ref_VResetD y w k : HI w -> Ref y w (HM (VReset (RD k))).
Proof. intro H. unfold Ref. cbn [hstep dhstep dstep3 step3 fst dset3 dget3]. split; [reflexivity|exact H]. Qed.
Lemma AWf_of w : WWf w -> AWf w.
Proof. intros H u. unfold getv. apply Forall_nth_d; auto. split; simpl; intros; discriminate. Qed.
Lemma Qw_WWf s s' : WWf s -> Qw s s' -> WWf s'.
Proof.
  intros W (E1 & E2 & E3). apply AWf_WWf. intro u. rewrite E1.
  eapply Wf_sub; [apply (AWf_of s W u)|apply (E3 u)].
Qed.
Lemma as_dense_WInv y s u s' d : WInv s -> as_dense y s u = Some (s', d) -> WInv s'.
Proof.
  intros I. unfold as_dense. destruct y.
  - destruct (iterate (hp s) (getv s u)) as [[v' q]|] eqn:E; [|discriminate].
    intro X. inversion X. subst. apply WInv_setv; auto. eapply Inv_iterate; [|exact E]. apply WInv_getv. auto.
  - destruct (iterate (hp s) (getv s u)) as [[v' q]|] eqn:E; [|discriminate].
    intro X. inversion X. subst. apply WInv_setv; auto. eapply Inv_iterate; [|exact E]. apply WInv_getv. auto.
  - intro X. inversion X. subst. auto.
Qed.
Lemma ref_AsDense y w x : HI w -> exists3 w x -> Ref y w (HM (AsDense x)).
Proof.
  intros H Hx. unfold Ref. cbn [hstep dhstep dstep3]. destruct x as [u|k]; cbn [step3].
  - destruct H as (HI1 & HW1). simpl in Hx.
    destruct (as_dense_correct y (sw w) u (WInv_getv _ u HI1) Hx) as (s' & d & E & D & HQ & _).
    rewrite E. cbn [fst]. split.
    + unfold absh. cbn [ds dd addd sets sw dn dget3]. rewrite (Qw_absw _ _ HQ). f_equal.
      rewrite D. f_equal. f_equal. symmetry. apply nth_absw.
    + split; cbn [sw addd sets].
      * eapply as_dense_WInv; eauto.
      * eapply Qw_WWf; eauto.
  - cbn [fst]. split; [reflexivity|exact H].
Qed.

Lemma Wf_heap_ext h h' v : Wf h v -> (length h <= length h')%nat -> Wf h' v.
Proof. intros (A & B) L. split; [intros k l X; apply A in X; lia|exact B]. Qed.
Lemma ref_AsSparseD y w k : HI w -> Ref y w (HM (AsSparse (RD k))).
Proof.
  intros (HI1 & HW1). unfold Ref. cbn [hstep dhstep dstep3 step3].
  destruct (as_sparse (hp (sw w)) (getd w k)) as [h1 r] eqn:E.
  destruct (as_sparse_correct _ _ _ _ E) as (A & D & I & W & (ext & X) & C).
  cbn [fst]. split.
  - unfold absh. cbn [ds dd sets sw dn dget3]. f_equal.
    unfold absw. cbn [addv seth vecs hp]. rewrite map_app. cbn [map]. unfold abs. rewrite A. f_equal.
    apply map_ext_in. intros v Hv. unfold abs_vec. apply map_ext. intro i. unfold peek.
    destruct (lookup i (vals v)) as [l|] eqn:L; auto.
    subst h1. unfold hget. apply app_nth1.
    unfold WWf in HW1. rewrite Forall_forall in HW1. eapply (proj1 (HW1 v Hv)); eauto.
  - split; cbn [sw sets].
    + apply WInv_addv; auto.
    + unfold WWf. cbn [addv seth vecs hp]. apply Forall_app. split; [|constructor; auto].
      unfold WWf in HW1. eapply Forall_impl; [|exact HW1]. intros v Hv.
      eapply Wf_heap_ext; eauto. subst h1. rewrite app_length. lia.
Qed.

(* ---- dense receivers ------------------------------------------------------------------------ *)
Lemma nonzero_map2 y l1 l2 : nonzero_all l2 -> map2 (qdiv y) l1 l2 = map2 Z.quot l1 l2.
Proof. intro H. apply map2_ext_nz; auto. intros a b Hb. apply qdiv_nonzero. auto. Qed.
Lemma fdiv_map2 y l1 l2 : y <> TInt -> map2 (qdiv y) l1 l2 = map2 fdiv l1 l2.
Proof.
  intro Hy. revert l2. induction l1 as [|a l1 IH]; intros [|b l2]; simpl; auto.
  rewrite qdiv_fdiv by auto. f_equal. apply IH.
Qed.
Lemma ref_dense y w k o L :
  HI w -> hasd w k ->
  same_but w (fst (step3 y w o)) k -> abs3 (fst (step3 y w o)) (RD k) = L ->
  dstep3 y (absh w) o = dset3 (absh w) (RD k) L -> Ref y w (HM o).
Proof.
  intros H Hk S E D. unfold Ref. cbn [hstep dhstep]. rewrite D.
  apply (dense_case w (step3 y w o) k L H Hk S E).
Qed.
Lemma ref_sparse y w t o L :
  has (sw w) t ->
  same_but_s w (fst (step3 y w o)) t -> G t (sw (fst (step3 y w o))) -> abs3 (fst (step3 y w o)) (RS t) = L ->
  dstep3 y (absh w) o = dset3 (absh w) (RS t) L -> Ref y w (HM o).
Proof.
  intros Ht S HG E D. unfold Ref. cbn [hstep dhstep]. rewrite D.
  apply (sparse_case w (step3 y w o) t L Ht S HG E).
Qed.

Lemma ref_VopV y w f r a b :
  HI w -> recv_ok w r -> opnd_ok w r a -> opnd_ok w r b -> Ref y w (HM (VopV f r a b)).
Proof.
  intros H Hr Ha Hb. destruct r as [t|k].
  - destruct Hr as (Ht & U).
    destruct (step_sparse_vopv_alias y f w t a b (HI_Good w t H Ht U) (opnd_ok_sparse _ _ _ Ha) (opnd_ok_sparse _ _ _ Hb))
      as (_ & S & HG & E).
    eapply ref_sparse; eauto. cbn [dstep3]. rewrite !abs3_dget. reflexivity.
  - destruct (step_dense_vopv y f w k a b Hr (opnd_ok_dense _ _ _ Ha) (opnd_ok_dense _ _ _ Hb)) as (_ & S & E).
    eapply ref_dense; eauto. cbn [dstep3]. rewrite !abs3_dget. reflexivity.
Qed.
Lemma ref_VaddS y w r a c : HI w -> recv_ok w r -> opnd_ok w r a -> Ref y w (HM (VaddS r a c)).
Proof.
  intros H Hr Ha. destruct r as [t|k].
  - destruct Hr as (Ht & U).
    destruct (step_sparse_vadds_alias y w t a c (HI_Good w t H Ht U) (opnd_ok_sparse _ _ _ Ha)) as (_ & S & HG & E).
    eapply ref_sparse; eauto. cbn [dstep3]. rewrite !abs3_dget. reflexivity.
  - destruct (step_dense_vadds y w k a c Hr (opnd_ok_dense _ _ _ Ha)) as (_ & S & E).
    eapply ref_dense; eauto. cbn [dstep3]. rewrite !abs3_dget. reflexivity.
Qed.
Lemma ref_VsubS y w r a c : HI w -> recv_ok w r -> opnd_ok w r a -> Ref y w (HM (VsubS r a c)).
Proof.
  intros H Hr Ha. destruct r as [t|k].
  - destruct Hr as (Ht & U).
    destruct (step_sparse_vsubs_alias y w t a c (HI_Good w t H Ht U) (opnd_ok_sparse _ _ _ Ha)) as (_ & S & HG & E).
    eapply ref_sparse; eauto. cbn [dstep3]. rewrite !abs3_dget. reflexivity.
  - destruct (step_dense_vsubs y w k a c Hr (opnd_ok_dense _ _ _ Ha)) as (_ & S & E).
    eapply ref_dense; eauto. cbn [dstep3]. rewrite !abs3_dget. reflexivity.
Qed.
Lemma ref_VmulS y w r a c : HI w -> recv_ok w r -> opnd_ok w r a -> Ref y w (HM (VmulS r a c)).
Proof.
  intros H Hr Ha. destruct r as [t|k].
  - destruct Hr as (Ht & U).
    destruct (step_sparse_vmuls_alias y w t a c (HI_Good w t H Ht U) (opnd_ok_sparse _ _ _ Ha)) as (_ & S & HG & E).
    eapply ref_sparse; eauto. cbn [dstep3]. rewrite !abs3_dget. reflexivity.
  - destruct (step_dense_vmuls y w k a c Hr (opnd_ok_dense _ _ _ Ha)) as (_ & S & E).
    eapply ref_dense; eauto. cbn [dstep3]. rewrite !abs3_dget. reflexivity.
Qed.
Lemma ref_VSet y w r a : HI w -> recv_ok w r -> opnd_ok w r a -> Ref y w (HM (VSet r a)).
Proof.
  intros H Hr Ha. destruct r as [t|k].
  - destruct Hr as (Ht & U).
    destruct (step_sparse_vset_alias y w t a (HI_Good w t H Ht U) (opnd_ok_sparse _ _ _ Ha)) as (_ & S & HG & E).
    eapply ref_sparse; eauto. cbn [dstep3]. rewrite !abs3_dget. reflexivity.
  - destruct (step_dense_vset y w k a Hr (opnd_ok_dense _ _ _ Ha)) as (_ & S & E).
    eapply ref_dense; eauto. cbn [dstep3]. rewrite !abs3_dget. reflexivity.
Qed.
Lemma map_qdiv_nz y c l : c <> 0 -> map (fun x => qdiv y x c) l = map (fun x => Z.quot x c) l.
Proof. intro H. apply map_ext. intro x. apply qdiv_nonzero. auto. Qed.
Lemma ref_VdivS y w r a c :
  HI w -> recv_ok w r -> opnd_ok w r a -> (y = TInt -> c <> 0) -> Ref y w (HM (VdivS r a c)).
Proof.
  intros H Hr Ha Hc. destruct r as [t|k].
  - destruct Hr as (Ht & U). pose proof (HI_Good w t H Ht U) as HG0.
    destruct (Z.eq_dec c 0) as [->|Nc].
    + assert (Hy : y <> TInt) by (intro X; apply (Hc X); reflexivity).
      destruct (step_sparse_vdivs0_alias y w t a Hy HG0 (opnd_ok_sparse _ _ _ Ha)) as (_ & S & HG & E).
      eapply ref_sparse; eauto. cbn [dstep3]. rewrite !abs3_dget. f_equal. apply map_ext. intro x.
      rewrite qdiv_fdiv by auto. reflexivity.
    + destruct (step_sparse_vdivs_alias y w t a c HG0 (opnd_ok_sparse _ _ _ Ha) Nc) as (_ & S & HG & E).
      eapply ref_sparse; eauto. cbn [dstep3]. rewrite !abs3_dget, map_qdiv_nz by auto. reflexivity.
  - destruct (Z.eq_dec c 0) as [->|Nc].
    + assert (Hy : y <> TInt) by (intro X; apply (Hc X); reflexivity).
      destruct (step_dense_vdivs_total y w k a 0 Hy Hr (opnd_ok_dense _ _ _ Ha)) as (_ & S & E).
      eapply ref_dense; eauto. cbn [dstep3]. rewrite !abs3_dget. f_equal. apply map_ext. intro x.
      rewrite qdiv_fdiv by auto. reflexivity.
    + destruct (step_dense_vdivs y w k a c Hr (opnd_ok_dense _ _ _ Ha) Nc) as (_ & S & E).
      eapply ref_dense; eauto. cbn [dstep3]. rewrite !abs3_dget, map_qdiv_nz by auto. reflexivity.
Qed.
Lemma ref_VdivV y w r a b :
  HI w -> recv_ok w r -> opnd_ok w r a -> opnd_ok w r b ->
  (nonzero_all (abs3 w b) \/ (y <> TInt /\ noalias r a /\ noalias r b)) -> Ref y w (HM (VdivV r a b)).
Proof.
  intros H Hr Ha Hb [Hnz|(Hy & Na & Nb)]; destruct r as [t|k].
  - destruct Hr as (Ht & U).
    destruct (step_sparse_vdivv_alias y w t a b (HI_Good w t H Ht U) (opnd_ok_sparse _ _ _ Ha) (opnd_ok_sparse _ _ _ Hb) Hnz)
      as (_ & S & HG & E).
    eapply ref_sparse; eauto. cbn [dstep3]. rewrite <- !abs3_dget, nonzero_map2 by auto. reflexivity.
  - destruct (step_dense_vdivv y w k a b Hr (opnd_ok_dense _ _ _ Ha) (opnd_ok_dense _ _ _ Hb) Hnz) as (_ & S & E).
    eapply ref_dense; eauto. cbn [dstep3]. rewrite <- !abs3_dget, nonzero_map2 by auto. reflexivity.
  - destruct Hr as (Ht & U).
    destruct (step_sparse_vdivv_total y w t a b Hy (HI_Good w t H Ht U)
                (operand3g_na _ _ _ (opnd_ok_sparse _ _ _ Ha) Na) (operand3g_na _ _ _ (opnd_ok_sparse _ _ _ Hb) Nb))
      as (_ & S & HG & E).
    eapply ref_sparse; eauto. cbn [dstep3]. rewrite <- !abs3_dget, fdiv_map2 by auto. reflexivity.
  - destruct (step_dense_vdivv_total y w k a b Hy Hr (opnd_ok_dense _ _ _ Ha) (opnd_ok_dense _ _ _ Hb)) as (_ & S & E).
    eapply ref_dense; eauto. cbn [dstep3]. rewrite <- !abs3_dget, fdiv_map2 by auto. reflexivity.
Qed.
(* Equals: the world reads as before, the answer is the point-wise predicate on the plain lists *)
Lemma ref_VEquals y w a b e2 :
  HI w -> 0 < e2 -> recv_ok w a -> opnd_ok w a b ->
  Ref y w (HM (VEquals a b e2)) /\ snd (step3 y w (VEquals a b e2)) = (K_OK, [dequals3 (absh w) a b e2]).
Proof.
  intros H He Hr Hb. unfold dequals3. rewrite <- !abs3_dget. destruct a as [t|k].
  - destruct Hr as (Ht & U).
    destruct (step_sparse_equals_alias y w t b e2 He (HI_Good w t H Ht U) (opnd_ok_sparse _ _ _ Hb)) as (w' & E & HQ & D & HG).
    unfold Ref. cbn [hstep dhstep dstep3]. rewrite E. cbn [fst snd]. split; [|reflexivity]. split.
    + unfold absh. rewrite D, (Qw_absw _ _ HQ). reflexivity.
    + eapply G_HI; eauto.
  - rewrite (step_dense_equals y w k b e2 (opnd_ok_dense _ _ _ Hb)). cbn [snd]. split; [|reflexivity].
    unfold Ref. cbn [hstep dhstep dstep3]. rewrite (step_dense_equals y w k b e2 (opnd_ok_dense _ _ _ Hb)).
    cbn [fst]. split; [reflexivity|exact H].
Qed.

(* ---- every in-range step -------------------------------------------------------------------- *)
Theorem hstep_refines y w o : HI w -> hok y w o -> Ref y w o.
Proof.
  intros H K. destruct o as [o|o].
  - destruct K as (R & S). apply ref_HC; auto.
  - destruct o; cbn [hok hok3] in K.
    + apply ref_NewS; auto.
    + apply ref_NewD; auto.
    + apply ref_AsDense; auto.
    + destruct x as [u|k]; [apply ref_AsSparseS; auto|apply ref_AsSparseD; auto].
    + destruct x as [u|k]; [destruct K; apply ref_SetAtS; auto|destruct K; apply ref_SetAtD; auto].
    + destruct K. apply ref_VSet; auto.
    + destruct K as (K1 & K2 & K3). apply ref_VEquals; auto.
    + destruct K as (K1 & K2 & K3). apply ref_VopV; auto.
    + destruct K as (K1 & K2 & K3 & K4). apply ref_VdivV; auto.
    + destruct K. apply ref_VaddS; auto.
    + destruct K. apply ref_VsubS; auto.
    + destruct K. apply ref_VmulS; auto.
    + destruct K as (K1 & K2 & K3). apply ref_VdivS; auto.
    + destruct r as [t|k]; [destruct K; apply ref_VResetS; auto|apply ref_VResetD; auto].
    + destruct x as [u|k]; [apply ref_VIterS; auto|apply ref_VIterD; auto].
Qed.
Theorem hrun_refines y : forall ops w, HI w -> hvalid y w ops ->
  absh (hrun y w ops) = drun y (absh w) ops /\ HI (hrun y w ops).
Proof.
  induction ops as [|o r IH]; intros w H V; simpl; auto.
  destruct V as (V1 & V2). destruct (hstep_refines y w o H V1) as (A & B).
  unfold hrun, drun in *. simpl. rewrite <- A. apply IH; auto.
Qed.
Lemma HI_init : HI init3.
Proof. split; [apply inv_initial|apply wf_initial]. Qed.
