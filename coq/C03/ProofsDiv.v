(* C03 (round 2) — division WITHOUT the non-zero-divisor hypothesis, for the float
   element types, on the carrier extended by the codes of the non-finite
   results (Model.NAN / PINF / NINF):  x / 0 = +Inf (x > 0), -Inf (x < 0), NaN
   (x = 0).  Dense and sparse receivers give the same list — including the
   positions that are ABSENT in the sparse receiver and in sparse operands
   (0 / 0 = NaN is materialised by the sparse path: VdivV takes the Div branch
   whenever the divisor is zero, VdivS runs the index loop when the scalar is
   zero).  Plus: the three-way joint loop computes map2 f for ANY scalar
   function f with f 0 0 = 0 — in particular a multiplication for which
   0 * Inf = NaN: an entry is created wherever ONE operand has one. *)
From Coq Require Import ZArith List Bool Lia.
From ADV Require Import C11.Model C11.Spec C11.ProofsMap C11.ProofsRef C03.Model C03.Spec C03.ProofsDense
                        C03.ProofsSem C03.ProofsJoint C03.ProofsConv C03.ProofsOps.
Import ListNotations.
Open Scope Z_scope.

(* float division on the extended carrier (finite operands) *)
Definition fdiv (a b : Z) : Z :=
  if b =? 0 then (if 0 <? a then PINF else if a <? 0 then NINF else NAN) else Z.quot a b.
Lemma sdiv_float y a b : y <> TInt -> sdiv y a b = Some (fdiv a b).
Proof. intro H. unfold sdiv, fdiv. destruct (b =? 0); auto. destruct y; auto. contradiction. Qed.
Lemma fdiv_nonzero a b : b <> 0 -> fdiv a b = Z.quot a b.
Proof. intro H. unfold fdiv. destruct (b =? 0) eqn:E; auto. apply Z.eqb_eq in E. contradiction. Qed.
Lemma fdiv_0_l b : b <> 0 -> fdiv 0 b = 0.
Proof. intro H. rewrite fdiv_nonzero by auto. apply Z.quot_0_l. auto. Qed.

(* ---- dense receiver -------------------------------------------------------------- *)
Lemma dense_divv_total y w k a b :
  y <> TInt -> hasd w k -> vdim w a = zlen (getd w k) -> vdim w b = zlen (getd w k) ->
  exists w', dop (fun w' i => sdiv y (rd w' a i) (rd w' b i)) w k [a; b] = (w', true) /\
    same_but w w' k /\ getd w' k = map2 fdiv (abs3 w a) (abs3 w b).
Proof.
  intros Hy Hk Ha Hb.
  destruct (dop_spec k w (length (getd w k)) Hk eq_refl
              (fun w' i => sdiv y (rd w' a i) (rd w' b i))
              (fun j => fdiv (rd w a (Z.of_nat j)) (rd w b (Z.of_nat j)))) with (xs := [a; b])
    as (w' & L & A & B & C & D).
  - intros w1 j Hj Hag. rewrite !(rd_agree k w (length (getd w k)) j w1) by auto.
    apply sdiv_float. auto.
  - repeat constructor; auto.
  - exists w'. split; [exact L|]. split; [unfold same_but; auto|].
    rewrite D. rewrite (abs3_rd w a (length (getd w k))), (abs3_rd w b (length (getd w k))) by auto.
    symmetry. apply map2_map.
Qed.
Lemma dense_divs_total y w k a c :
  y <> TInt -> hasd w k -> vdim w a = zlen (getd w k) ->
  exists w', dop (fun w' i => sdiv y (rd w' a i) c) w k [a] = (w', true) /\
    same_but w w' k /\ getd w' k = map (fun x => fdiv x c) (abs3 w a).
Proof.
  intros Hy Hk Ha.
  destruct (dop_spec k w (length (getd w k)) Hk eq_refl
              (fun w' i => sdiv y (rd w' a i) c)
              (fun j => fdiv (rd w a (Z.of_nat j)) c)) with (xs := [a])
    as (w' & L & A & B & C & D).
  - intros w1 j Hj Hag. rewrite !(rd_agree k w (length (getd w k)) j w1) by auto.
    apply sdiv_float; auto.
  - repeat constructor; auto.
  - exists w'. split; [exact L|]. split; [unfold same_but; auto|].
    rewrite D. rewrite (abs3_rd w a (length (getd w k))) by auto. rewrite map_map. auto.
Qed.

(* ---- sparse receiver: VdivV ------------------------------------------------------ *)
Section DivVT.
Variable t : nat.
Variable n : Z.
Variable y : ty.
Hypothesis Hy : y <> TInt.
Variables o2 o3 : operand.
Variables A B : Z -> Z.
Hypothesis Ho2 : match o2 with OS u => u <> t | OD _ => True end.
Hypothesis Ho3 : match o3 with OS u => u <> t | OD _ => True end.

Lemma divv_loop_total : forall cnt i w,
  G t w -> dim (getv w t) = n -> 0 <= i -> i + Z.of_nat cnt = n ->
  (forall k, ord w o2 k = A k) -> (forall k, ord w o3 k = B k) ->
  exists w', divv_loop y cnt i w t o2 o3 = (w', true) /\ G t w' /\ length (vecs w') = length (vecs w) /\
    (forall u, dim (getv w' u) = dim (getv w u)) /\
    (forall k, i <= k < n -> peek (hp w') (getv w' t) k = fdiv (A k) (B k)) /\
    (forall k, k < i -> peek (hp w') (getv w' t) k = peek (hp w) (getv w t) k) /\
    (forall u k, u <> t -> peek (hp w') (getv w' u) k = peek (hp w) (getv w u) k).
Proof.
  induction cnt as [|c IH]; intros i w HG Hn Hi Hc HA HBo.
  - exists w. simpl. split; [auto|]. split; [auto|]. split; [auto|]. split; [auto|].
    split; [intros k Hk; lia|]. auto.
  - cbn [divv_loop]. rewrite HA, HBo.
    assert (Step : forall x, x = fdiv (A i) (B i) ->
              forall w2, wr w t i None x = Some w2 ->
              exists w', divv_loop y c (i + 1) w2 t o2 o3 = (w', true) /\ G t w' /\
                length (vecs w') = length (vecs w) /\
                (forall u, dim (getv w' u) = dim (getv w u)) /\
                (forall k, i <= k < n -> peek (hp w') (getv w' t) k = fdiv (A k) (B k)) /\
                (forall k, k < i -> peek (hp w') (getv w' t) k = peek (hp w) (getv w t) k) /\
                (forall u k, u <> t -> peek (hp w') (getv w' u) k = peek (hp w) (getv w u) k)).
    { intros x Hx w2 E2.
      destruct (wr_spec t w i None x HG) as (w2' & E2' & G2 & L2 & D2 & P2 & F1 & F2);
        [lia|intros l X; discriminate|].
      rewrite E2 in E2'. inversion E2'. subst w2'. clear E2'.
      destruct (IH (i + 1) w2) as (w' & E3 & G3 & L3 & D3 & R3 & S3 & F3); auto.
      - rewrite D2. auto.
      - lia.
      - lia.
      - apply (ord_frame t o2 A Ho2 w w2); auto; intros u k N; apply F2; auto.
      - apply (ord_frame t o3 B Ho3 w w2); auto; intros u k N; apply F2; auto.
      - exists w'. split; [auto|]. split; [auto|]. split; [lia|].
        split; [intro u; rewrite D3, D2; auto|]. split; [|split].
        + intros k Hk. destruct (Z.eq_dec k i) as [->|N]; [|apply R3; lia].
          rewrite S3 by lia. rewrite P2. auto.
        + intros k Hk. rewrite S3 by lia. apply (proj1 (F1 k ltac:(lia))).
        + intros u k N. rewrite F3 by auto. apply (proj1 (F2 u k N)). }
    assert (Div : negb (A i =? 0) || (B i =? 0) = true ->
              exists w', (match at_ (hp w) (getv w t) i with
                          | None => (w, false)
                          | Some (h', v', l) =>
                              let w1 := seth (setv w t v') h' in
                              match sdiv y (A i) (B i) with
                              | None => (w1, false)
                              | Some x => divv_loop y c (i + 1) (seth w1 (hset h' l x)) t o2 o3
                              end
                          end) = (w', true) /\ G t w' /\
                length (vecs w') = length (vecs w) /\
                (forall u, dim (getv w' u) = dim (getv w u)) /\
                (forall k, i <= k < n -> peek (hp w') (getv w' t) k = fdiv (A k) (B k)) /\
                (forall k, k < i -> peek (hp w') (getv w' t) k = peek (hp w) (getv w t) k) /\
                (forall u k, u <> t -> peek (hp w') (getv w' u) k = peek (hp w) (getv w u) k)).
    { intros _.
      destruct (wr_spec t w i None (fdiv (A i) (B i)) HG) as (w2 & E2 & _); [lia|intros l X; discriminate|].
      pose proof E2 as E2'. unfold wr in E2'.
      destruct (at_ (hp w) (getv w t) i) as [[[h' v'] l]|]; [|discriminate].
      rewrite (sdiv_float y _ _ Hy). cbv zeta.
      inversion E2'. apply (Step (fdiv (A i) (B i))); [reflexivity|rewrite E2; f_equal; rewrite <- H0; reflexivity]. }
    destruct (negb (A i =? 0) || (B i =? 0)) eqn:Br.
    + apply Div. reflexivity.
    + apply orb_false_iff in Br. destruct Br as [EA EB]. apply negb_false_iff in EA.
      apply Z.eqb_eq in EA. apply Z.eqb_neq in EB.
      assert (F0 : fdiv (A i) (B i) = 0) by (rewrite EA; apply fdiv_0_l; auto).
      destruct (peek (hp w) (getv w t) i =? 0) eqn:ER; cbn [negb].
      * apply Z.eqb_eq in ER.
        destruct (IH (i + 1) w) as (w' & E3 & G3 & L3 & D3 & R3 & S3 & F3); auto; try lia.
        exists w'. split; [auto|]. split; [auto|]. split; [auto|]. split; [auto|]. split; [|split; auto].
        { intros k Hk. destruct (Z.eq_dec k i) as [->|N]; [|apply R3; lia].
          rewrite S3 by lia. rewrite ER, F0. reflexivity. }
        { intros k Hk. apply S3. lia. }
      * destruct (wr_spec t w i None 0 HG) as (w2 & E2 & _); [lia|intros l X; discriminate|].
        pose proof E2 as E2'. unfold wr in E2'.
        destruct (at_ (hp w) (getv w t) i) as [[[h' v'] l]|]; [|discriminate].
        inversion E2'. apply (Step 0); [auto|rewrite E2; f_equal; rewrite <- H0; reflexivity].
Qed.
End DivVT.

Theorem vdivv_total t y w o2 o3 :
  y <> TInt -> G t w -> operand_ok3 w t o2 -> operand_ok3 w t o3 ->
  exists w', vdivv y w t o2 o3 = (w', true) /\ G t w' /\ length (vecs w') = length (vecs w) /\
    sabs w' t = map2 fdiv (oabs w o2) (oabs w o3) /\
    (forall u, u <> t -> sabs w' u = sabs w u) /\
    (forall u, dim (getv w' u) = dim (getv w u)).
Proof.
  intros Hy HG H2 H3. unfold vdivv.
  rewrite (operand_dim w t o2 H2), (operand_dim w t o3 H3), Z.eqb_refl. cbn [negb orb].
  set (n := dim (getv w t)).
  assert (Hn0 : 0 <= n) by (destruct HG as (GI & _); destruct (GI t) as (_ & _ & _ & _ & X); auto).
  destruct (divv_loop_total t n y Hy o2 o3 (ord w o2) (ord w o3)) with (cnt := Z.to_nat n) (i := 0) (w := w)
    as (w' & E & G' & L & D & R & S & F'); auto.
  - destruct o2 as [u|d]; simpl in *; tauto.
  - destruct o3 as [u|d]; simpl in *; tauto.
  - lia.
  - lia.
  - exists w'. split; [auto|]. split; [auto|]. split; [auto|]. split; [|split; [|auto]].
    + rewrite (sabs_peek w' t n) by (rewrite D; auto).
      rewrite (oabs_ord w o2 n), (oabs_ord w o3 n) by (apply operand_dim; auto). rewrite map2_map.
      apply map_ext_in. intros i Hi. apply zseq_In in Hi. apply R. lia.
    + intros u N. rewrite (sabs_peek w' u _ (D u)), (sabs_peek w u _ eq_refl).
      apply map_ext. intro i. apply F'. auto.
Qed.

(* ---- step level -------------------------------------------------------------------- *)
Lemma step_dense_vdivv_total y w k a b :
  y <> TInt -> hasd w k -> vdim w a = zlen (getd w k) -> vdim w b = zlen (getd w k) ->
  let r := step3 y w (VdivV (RD k) a b) in
  ok_out r /\ same_but w (fst r) k /\ abs3 (fst r) (RD k) = map2 fdiv (abs3 w a) (abs3 w b).
Proof.
  intros Hy Hk Ha Hb. cbn [step3].
  destruct (dense_divv_total y w k a b Hy Hk Ha Hb) as (w' & L & S & D).
  rewrite L. unfold lift3, ok_out. simpl. auto.
Qed.
Lemma step_sparse_vdivv_total y w t a b :
  y <> TInt -> Good3 w t -> operand3 w t a -> operand3 w t b ->
  let r := step3 y w (VdivV (RS t) a b) in
  ok_out r /\ same_but_s w (fst r) t /\ G t (sw (fst r)) /\
  abs3 (fst r) (RS t) = map2 fdiv (abs3 w a) (abs3 w b).
Proof.
  intros Hy HG Ha Hb. cbn [step3].
  destruct (vdivv_total t y (sw w) (to_op w a) (to_op w b)) as (w' & E & G' & L & R & F & D); auto.
  - apply Good_G. exact HG.
  - apply operand3_ok. auto.
  - apply operand3_ok. auto.
  - rewrite E. unfold lift2, ok_out, same_but_s. simpl. rewrite R, !oabs_to_op. auto.
Qed.
Lemma step_dense_vdivs_total y w k a c :
  y <> TInt -> hasd w k -> vdim w a = zlen (getd w k) ->
  let r := step3 y w (VdivS (RD k) a c) in
  ok_out r /\ same_but w (fst r) k /\ abs3 (fst r) (RD k) = map (fun x => fdiv x c) (abs3 w a).
Proof.
  intros Hy Hk Ha. cbn [step3].
  destruct (dense_divs_total y w k a c Hy Hk Ha) as (w' & L & S & D).
  rewrite L. unfold lift3, ok_out. simpl. auto.
Qed.
Lemma step_sparse_vdivs_total y w t a c :
  y <> TInt -> Good3 w t -> operand3 w t a ->
  let r := step3 y w (VdivS (RS t) a c) in
  ok_out r /\ same_but_s w (fst r) t /\ G t (sw (fst r)) /\
  abs3 (fst r) (RS t) = map (fun x => fdiv x c) (abs3 w a).
Proof.
  intros Hy HG Ha. destruct (Z.eq_dec c 0) as [->|Hc].
  - cbn [step3]. unfold vdivs. cbn [Z.eqb lift].
    destruct (vopS_correct t (fun w1 i => sdiv y (ord w1 (to_op w a) i) 0) (fun x => fdiv x 0) (sw w) (to_op w a))
      as (w' & E & G' & L & R & F & D).
    + apply Good_G. exact HG.
    + apply operand3_ok. auto.
    + intros w1 k H. rewrite H. apply sdiv_float. auto.
    + rewrite E. unfold ok_out, same_but_s. simpl. rewrite R, !oabs_to_op. auto.
  - destruct (step_sparse_vdivs y w t a c HG Ha Hc) as (X1 & X2 & X3 & X4).
    split; [exact X1|]. split; [exact X2|]. split; [exact X3|].
    rewrite X4. apply map_ext. intro x. symmetry. apply fdiv_nonzero. auto.
Qed.

Lemma storage_independence_div_total_lemma y w k t a b a' b' :
  y <> TInt ->
  hasd w k -> vdim w a = zlen (getd w k) -> vdim w b = zlen (getd w k) ->
  Good3 w t -> operand3 w t a' -> operand3 w t b' ->
  abs3 w a = abs3 w a' -> abs3 w b = abs3 w b' ->
  abs3 (fst (step3 y w (VdivV (RD k) a b))) (RD k) =
  abs3 (fst (step3 y w (VdivV (RS t) a' b'))) (RS t).
Proof.
  intros Hy H1 H2 H3 H4 H5 H6 E1 E2.
  destruct (step_dense_vdivv_total y w k a b Hy H1 H2 H3) as (_ & _ & X).
  destruct (step_sparse_vdivv_total y w t a' b' Hy H4 H5 H6) as (_ & _ & _ & Y).
  rewrite X, Y, E1, E2. reflexivity.
Qed.
Lemma storage_independence_divs_total_lemma y w k t a a' c :
  y <> TInt ->
  hasd w k -> vdim w a = zlen (getd w k) ->
  Good3 w t -> operand3 w t a' -> abs3 w a = abs3 w a' ->
  abs3 (fst (step3 y w (VdivS (RD k) a c))) (RD k) =
  abs3 (fst (step3 y w (VdivS (RS t) a' c))) (RS t).
Proof.
  intros Hy H1 H2 H4 H5 E1.
  destruct (step_dense_vdivs_total y w k a c Hy H1 H2) as (_ & _ & X).
  destruct (step_sparse_vdivs_total y w t a' c Hy H4 H5) as (_ & _ & _ & Y).
  rewrite X, Y, E1. reflexivity.
Qed.
(* 0 / 0 at a position absent everywhere is materialised as NaN by the sparse path *)
Lemma division_by_zero_example :
  let w := run3 TFloat init3 [NewS [] [] 3; NewS [1] [5] 3; NewS [] [] 3; NewD [7; 7; 7]; NewD [0; 5; 0]; NewD [0; 0; 0]] in
  abs3 (fst (step3 TFloat w (VdivV (RS 0) (RS 1) (RS 2)))) (RS 0) = [NAN; PINF; NAN] /\
  abs3 (fst (step3 TFloat w (VdivV (RD 0) (RD 1) (RD 2)))) (RD 0) = [NAN; PINF; NAN] /\
  abs3 (fst (step3 TFloat w (VdivS (RS 0) (RS 1) 0))) (RS 0) = [NAN; PINF; NAN].
Proof. vm_compute. repeat split; reflexivity. Qed.

(* ---- any scalar function with f 0 0 = 0 --------------------------------------------
   the loop `for it := r.JOINT3_ITERATOR(a, b) { s_r.f(s_a, s_b) }` on a sparse receiver
   and the index loop on a dense receiver compute the same list map2 f — whatever f does
   when ONE argument is zero (the entry is created whenever one operand has an entry) *)
Lemma any_function_lemma (f : Z -> Z -> Z) w k t a b a' b' :
  f 0 0 = 0 ->
  hasd w k -> vdim w a = zlen (getd w k) -> vdim w b = zlen (getd w k) ->
  Good3 w t -> operand3 w t a' -> operand3 w t b' ->
  abs3 w a = abs3 w a' -> abs3 w b = abs3 w b' ->
  exists s' w', vop3 f (sw w) t (to_op w a') (to_op w b') = Some (s', true) /\
    dop (fun w' i => Some (f (rd w' a i) (rd w' b i))) w k [a; b] = (w', true) /\
    sabs s' t = getd w' k /\ getd w' k = map2 f (abs3 w a) (abs3 w b).
Proof.
  intros f0 H1 H2 H3 HG Ha Hb E1 E2.
  destruct (vop3_correct t f f0 (sw w) (to_op w a') (to_op w b')) as (s' & E & _ & _ & R & _ & _).
  - apply Good_G. exact HG.
  - apply operand3_ok. auto.
  - apply operand3_ok. auto.
  - destruct (dense_binary f w k a b H1 H2 H3) as (w' & L & _ & D).
    exists s', w'. split; [exact E|]. split; [exact L|]. rewrite R, D, !oabs_to_op, E1, E2. auto.
Qed.
(* an instance: multiplication on the extended carrier, 0 * (+-Inf) = NaN, NaN absorbing *)
Definition is_code (x : Z) : bool := (x =? NAN) || (x =? PINF) || (x =? NINF).
Definition xmul (a b : Z) : Z :=
  if (a =? NAN) || (b =? NAN) then NAN
  else if is_code a then (if b =? 0 then NAN else if is_code b then (if a =? b then PINF else NINF)
                          else if 0 <? b then a else (if a =? PINF then NINF else PINF))
  else if is_code b then (if a =? 0 then NAN else if 0 <? a then b else (if b =? PINF then NINF else PINF))
  else a * b.
Lemma xmul_00 : xmul 0 0 = 0.
Proof. reflexivity. Qed.
Lemma xmul_example :
  let w := run3 TFloat init3 [NewS [2] [9] 3; NewS [] [] 3; NewS [0] [PINF] 3] in
  match vop3 xmul (sw w) 0 (OS 1) (OS 2) with
  | Some (s', true) => sabs s' 0 = [NAN; 0; 0]
  | _ => False
  end.
Proof. vm_compute. reflexivity. Qed.
