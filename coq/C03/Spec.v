(* C03 — abstract specification: the list of values a vector (dense or sparse)
   stands for, the textbook element-wise semantics, and the well-formedness of
   the state an operation meets.  Props.v states that every operation of the
   model (Model.v) — for a dense receiver and for a sparse receiver, with dense
   or sparse operands, whatever the receiver held before — produces the
   textbook result. *)
From Coq Require Import ZArith List Bool Lia.
From ADV Require Import C11.Model C11.Spec C03.Model.
Import ListNotations.
Open Scope Z_scope.

Fixpoint map2 {A B C} (f : A -> B -> C) (l1 : list A) (l2 : list B) : list C :=
  match l1, l2 with
  | a :: r1, b :: r2 => f a b :: map2 f r1 r2
  | _, _ => []
  end.

(* ---- abstraction: absent = 0 ------------------------------------------------ *)
Definition sabs (w : world) (u : nat) : list Z := abs_vec (hp w) (getv w u).
Definition oabs (w : world) (o : operand) : list Z :=
  match o with OS u => sabs w u | OD d => d end.
Definition abs3 (w : w3) (x : vref) : list Z :=
  match x with RS u => sabs (sw w) u | RD k => getd w k end.

(* ---- the state a sparse receiver [t] meets ---------------------------------- *)
Definition cell_in (v : svec) (l : loc) : Prop := exists k, lookup k (vals v) = Some l.
(* the receiver shares no cell with another vector (Slice / Append sharing is
   C11/C12's subject; no operation of C03 creates sharing) *)
Definition Sep (w : world) (t : nat) : Prop :=
  forall u l, u <> t -> cell_in (getv w t) l -> cell_in (getv w u) l -> False.
(* C11's coherence invariant for every vector, cells allocated and not stored
   twice in one vector, the receiver exists and is separate *)
Definition Good (w : world) (t : nat) : Prop :=
  WInv w /\ WWf w /\ Sep w t /\ has w t.
(* an operand of a sparse receiver t: a dense value list or ANOTHER sparse vector *)
Definition operand_ok3 (w : world) (t : nat) (o : operand) : Prop :=
  match o with
  | OS u => u <> t /\ has w u /\ dim (getv w u) = dim (getv w t)
  | OD d => zlen d = dim (getv w t)
  end.

(* ---- dense worlds ------------------------------------------------------------ *)
Definition hasd (w : w3) (k : nat) : Prop := (k < length (dn w))%nat.
(* an operand of a dense receiver: any vector of the same dimension (it may be
   the receiver itself) *)
Definition dim_ok (w : w3) (k : nat) (x : vref) : Prop :=
  vdim w x = zlen (getd w k) /\ match x with RS u => 0 <= dim (getv (sw w) u) | RD _ => True end.
(* all divisors non-zero *)
Definition nonzero_all (l : list Z) : Prop := Forall (fun x => x <> 0) l.
(* point-wise closeness: what Equals must decide *)
Definition all_close (e2 : Z) (l1 l2 : list Z) : bool :=
  forallb (fun p => close e2 (fst p) (snd p)) (combine l1 l2).
