(* C03 — matrices, DENSE receiver: every matrix operation of ModelM.v whose
   receiver is a dense matrix (or, for MdotV / VdotM, a dense vector) produces
   the textbook value list of SpecM.v, for dense or sparse operands (sparse
   operands in any state, operands possibly the receiver itself), whatever the
   receiver held before, and leaves everything else as it was. *)
From Coq Require Import ZArith List Bool Lia.
From ADV Require Import C11.Model C11.Spec C11.ProofsMap C11.ProofsRef C11.ProofsInv
                        C03.Model C03.Spec C03.ProofsDense C03.ProofsJoint
                        C03.ModelM C03.ProofsM C03.SpecM C03.ProofsMBase.
Import ListNotations.
Open Scope Z_scope.

(* ---- small facts ---------------------------------------------------------------- *)
Lemma getdm_setdm_eq w k d :
  hasdm w k -> getdm (setdm w k d) k = (d, snd (fst (getdm w k)), snd (getdm w k)).
Proof.
  unfold hasdm, setdm. intro H. destruct (getdm w k) as [[d0 r] c] eqn:E. unfold getdm. simpl.
  apply nth_upd_eq. auto.
Qed.
Lemma getdm_setdm_neq w k k' d : k <> k' -> getdm (setdm w k d) k' = getdm w k'.
Proof.
  unfold setdm. intro H. destruct (getdm w k) as [[d0 r] c] eqn:E. unfold getdm. simpl.
  apply nth_upd_neq. auto.
Qed.
Lemma setdm_b3 w k d : b3 (setdm w k d) = b3 w.
Proof. unfold setdm. destruct (getdm w k) as [[d0 r] c]. reflexivity. Qed.
Lemma setdm_sms w k d : sms (setdm w k d) = sms w.
Proof. unfold setdm. destruct (getdm w k) as [[d0 r] c]. reflexivity. Qed.
Lemma setdm_dms_length w k d : length (dms (setdm w k d)) = length (dms w).
Proof. unfold setdm. destruct (getdm w k) as [[d0 r] c]. simpl. apply upd_length. Qed.

Lemma zseq0 n : zseq 0 n = map Z.of_nat (seq 0 n).
Proof. exact (zseq_seq n 0%nat). Qed.
Lemma lat_map (f : Z -> Z) n i : 0 <= i < Z.of_nat n -> lat (map f (zseq 0 n)) i = f i.
Proof.
  intro H. unfold lat. rewrite (nth_indep _ 0 (f 0)) by (rewrite map_length, zseq_length; lia).
  rewrite map_nth. f_equal. rewrite nth_zseq by lia. lia.
Qed.
Lemma lat_mabs w x i :
  0 <= i < fst (mdims w x) * snd (mdims w x) -> lat (mabs w x) i = mrd w x i.
Proof.
  unfold mabs. destruct (mdims w x) as [r c]. simpl. intro H. apply lat_map. lia.
Qed.

(* ---- the index loop over a dense receiver matrix ---------------------------------- *)
Section DenseM.
Variable k : nat.
Variable w0 : w4.
Variable n : nat.
Variable d0 : list Z.
Variable r0 c0 : Z.
Hypothesis Hk : hasdm w0 k.
Hypothesis Hg0 : getdm w0 k = (d0, r0, c0).
Hypothesis Hn : length d0 = n.

(* w agrees with w0 except on positions < i of the receiver *)
Definition agreeM (i : nat) (w : w4) : Prop :=
  b3 w = b3 w0 /\ sms w = sms w0 /\ length (dms w) = length (dms w0) /\
  (forall k', k' <> k -> getdm w k' = getdm w0 k') /\
  exists d, getdm w k = (d, r0, c0) /\ length d = n /\
            (forall j, (i <= j)%nat -> nth j d 0 = nth j d0 0).

Lemma agreeM_refl : agreeM 0 w0.
Proof. unfold agreeM. repeat (split; [auto|]). exists d0. auto. Qed.

Lemma mrd_agree i w x : agreeM i w -> mrd w x (Z.of_nat i) = mrd w0 x (Z.of_nat i).
Proof.
  clear Hk Hn. intros (A & B & C & D & d & E1 & E2 & E3). unfold mrd, mop. rewrite A.
  destruct x as [k'|k'].
  - unfold getsm. rewrite B. reflexivity.
  - destruct (Nat.eq_dec k' k) as [->|N].
    + rewrite E1, Hg0. simpl. rewrite Nat2Z.id. apply E3. lia.
    + rewrite D by auto. reflexivity.
Qed.
Lemma mdims_agree i w x : agreeM i w -> mdims w x = mdims w0 x.
Proof.
  clear Hk Hn. intros (A & B & C & D & d & E1 & E2 & E3). unfold mdims.
  destruct x as [k'|k'].
  - unfold getsm. rewrite B. reflexivity.
  - destruct (Nat.eq_dec k' k) as [->|N].
    + rewrite E1, Hg0. reflexivity.
    + rewrite D by auto. reflexivity.
Qed.

Variable g : w4 -> Z -> option Z.
Variable G : nat -> Z.
Hypothesis Hg : forall w j, (j < n)%nat -> agreeM j w -> g w (Z.of_nat j) = Some (G j).

Lemma dmloop_spec : forall cnt m w d,
  agreeM m w -> getdm w k = (d, r0, c0) -> (m + cnt = n)%nat ->
  exists w', dmloop g cnt (Z.of_nat m) w k = (w', true) /\
    b3 w' = b3 w0 /\ sms w' = sms w0 /\ length (dms w') = length (dms w0) /\
    (forall k', k' <> k -> getdm w' k' = getdm w0 k') /\
    getdm w' k = (firstn m d ++ map G (seq m cnt), r0, c0).
Proof.
  induction cnt as [|c IH]; intros m w d Ha Hd Hm.
  - exists w. destruct Ha as (A & B & C & D & d' & E1 & E2 & E3). simpl.
    rewrite Hd in E1. inversion E1. subst d'.
    repeat (split; [auto|]). rewrite app_nil_r. rewrite firstn_all2 by lia. auto.
  - cbn [dmloop]. rewrite (Hg w m) by (auto; lia). rewrite Hd.
    assert (Hkw : hasdm w k) by (destruct Ha as (_ & _ & C & _); unfold hasdm in *; lia).
    set (w1 := setdm w k (upd (Z.to_nat (Z.of_nat m)) (G m) d)).
    assert (Hd1 : getdm w1 k = (upd m (G m) d, r0, c0)).
    { unfold w1. rewrite getdm_setdm_eq by auto. rewrite Hd, Nat2Z.id. reflexivity. }
    assert (Ha1 : agreeM (S m) w1).
    { destruct Ha as (A & B & C & D & d' & E1 & E2 & E3).
      rewrite Hd in E1. inversion E1. subst d'.
      unfold agreeM. split; [unfold w1; rewrite setdm_b3; auto|].
      split; [unfold w1; rewrite setdm_sms; auto|].
      split; [unfold w1; rewrite setdm_dms_length; auto|].
      split; [intros k' N; unfold w1; rewrite getdm_setdm_neq by auto; auto|].
      exists (upd m (G m) d). split; [exact Hd1|]. split; [rewrite upd_length; auto|].
      intros j Hj. rewrite nth_upd_neq by lia. apply E3. lia. }
    replace (Z.of_nat m + 1) with (Z.of_nat (S m)) by lia.
    destruct (IH (S m) w1 _ Ha1 Hd1) as (w' & L & A' & B' & C' & D' & E'); [lia|].
    exists w'. rewrite L. repeat (split; [auto|]).
    rewrite E'. destruct Ha as (_ & _ & _ & _ & d' & E1 & E2 & _).
    rewrite Hd in E1. inversion E1. subst d'.
    rewrite firstn_upd by lia. rewrite <- app_assoc. auto.
Qed.

Lemma dmloop_all :
  exists w', dmloop g n 0 w0 k = (w', true) /\
    b3 w' = b3 w0 /\ sms w' = sms w0 /\ length (dms w') = length (dms w0) /\
    (forall k', k' <> k -> getdm w' k' = getdm w0 k') /\
    getdm w' k = (map G (seq 0 n), r0, c0).
Proof.
  destruct (dmloop_spec n 0%nat w0 d0 agreeM_refl Hg0) as (w' & L & A & B & C & D & E); [lia|].
  exists w'. simpl in L, E. auto 10.
Qed.
End DenseM.

(* ---- from the loop to the operation ------------------------------------------------ *)
(* the sparse vectors and the dense vectors of w' read as those of w *)
Definition base_same (w w' : w4) : Prop :=
  dn (b3 w') = dn (b3 w) /\ length (vecs (sw (b3 w'))) = length (vecs (sw (b3 w))) /\
  (forall u, dim (getv (sw (b3 w')) u) = dim (getv (sw (b3 w)) u)) /\
  (forall u j, peek (hp (sw (b3 w'))) (getv (sw (b3 w')) u) j = peek (hp (sw (b3 w))) (getv (sw (b3 w)) u) j).
Lemma base_same_eq w w' : b3 w' = b3 w -> base_same w w'.
Proof. intro E. unfold base_same. rewrite E. auto. Qed.
Lemma base_same_sabs w w' u : base_same w w' -> sabs (sw (b3 w')) u = sabs (sw (b3 w)) u.
Proof.
  intros (_ & _ & D & P). unfold sabs, abs_vec. rewrite D. apply map_ext. intro j. apply P.
Qed.

Lemma dense_frame w w' k d0 r0 c0 d' :
  dm_ok w k -> getdm w k = (d0, r0, c0) ->
  base_same w w' -> sms w' = sms w -> length (dms w') = length (dms w) ->
  (forall k', k' <> k -> getdm w' k' = getdm w k') ->
  getdm w' k = (d', r0, c0) -> length d' = length d0 ->
  same_but_dm w w' k /\ mabs w' (XD k) = d'.
Proof.
  intros Hok Hg A B C D E F.
  assert (Hok' : dm_ok w' k).
  { unfold dm_ok, hasdm in *. rewrite Hg in Hok. rewrite E, C. unfold zlen in *. rewrite F. exact Hok. }
  split.
  - pose proof (fun u => base_same_sabs w w' u A) as S. destruct A as (A1 & A2 & A3 & A4).
    unfold same_but_dm. split; [auto|]. split; [auto|]. split; [auto|]. split; [auto|].
    split; [unfold mdims; rewrite E, Hg; reflexivity|]. auto.
  - rewrite (mabs_dense w' k Hok'), E. reflexivity.
Qed.

Lemma dmop_spec (g : w4 -> Z -> option Z) (G : nat -> Z) w k xs d0 r0 c0 :
  dm_ok w k -> getdm w k = (d0, r0, c0) ->
  Forall (fun x => mdims w x = (r0, c0)) xs ->
  (forall w' j, (j < length d0)%nat -> agreeM k w (length d0) d0 r0 c0 j w' -> g w' (Z.of_nat j) = Some (G j)) ->
  let r := dmop g w k xs in
  ok_out4 r /\ same_but_dm w (fst r) k /\ mabs (fst r) (XD k) = map G (seq 0 (length d0)).
Proof.
  intros Hok Hg Hx HG. unfold dmop.
  assert (Hd : mdims w (XD k) = (r0, c0)) by (unfold mdims; rewrite Hg; reflexivity).
  rewrite Hd.
  assert (E : forallb (fun x => dims_eqb (mdims w x) (r0, c0)) xs = true).
  { apply forallb_forall. intros x Hin. rewrite Forall_forall in Hx. apply dims_eqb_eq. auto. }
  rewrite E. cbn [fst snd].
  assert (Hn : Z.to_nat (r0 * c0) = length d0).
  { destruct Hok as (_ & Hok). rewrite Hg in Hok. unfold zlen in Hok. lia. }
  rewrite Hn.
  destruct (dmloop_all k w (length d0) d0 r0 c0 (proj1 Hok) Hg eq_refl g G HG) as (w' & L & A & B & C & D & F).
  rewrite L. cbn [fst snd].
  split; [reflexivity|].
  apply (dense_frame w w' k d0 r0 c0); auto.
  - apply base_same_eq; auto.
  - rewrite map_length, seq_length. reflexivity.
Qed.

(* the value list of an operand of the receiver's shape, by position *)
Lemma mabs_seq w x r0 c0 n :
  mdims w x = (r0, c0) -> Z.to_nat (r0 * c0) = n ->
  mabs w x = map (fun j => mrd w x (Z.of_nat j)) (seq 0 n).
Proof.
  intros H Hn. unfold mabs. rewrite H, Hn, zseq0, map_map. reflexivity.
Qed.

(* ---- MaddM / MsubM / MmulM ---------------------------------------------------------- *)
Lemma step_dense_mopm y f w k a b :
  dm_ok w k -> mwf w a -> mwf w b -> mdims w a = mdims w (XD k) -> mdims w b = mdims w (XD k) ->
  let r := step4 y w (MopM f (XD k) a b) in
  ok_out4 r /\ same_but_dm w (fst r) k /\ mabs (fst r) (XD k) = map2 (bop_f f) (mabs w a) (mabs w b).
Proof.
  intros Hok _ _ Ha Hb. cbn [step4].
  destruct (getdm w k) as [[d0 r0] c0] eqn:Hg.
  assert (Hd : mdims w (XD k) = (r0, c0)) by (unfold mdims; rewrite Hg; reflexivity).
  rewrite Hd in Ha, Hb.
  assert (Hn : Z.to_nat (r0 * c0) = length d0).
  { destruct Hok as (_ & Hok'). rewrite Hg in Hok'. unfold zlen in Hok'. lia. }
  rewrite (mabs_seq w a r0 c0 _ Ha Hn), (mabs_seq w b r0 c0 _ Hb Hn), map2_map.
  apply (dmop_spec _ (fun j => bop_f f (mrd w a (Z.of_nat j)) (mrd w b (Z.of_nat j))) w k [a; b] d0 r0 c0); auto.
  intros w' j Hj Hag. rewrite !(mrd_agree k w (length d0) d0 r0 c0 Hg j w') by auto. reflexivity.
Qed.

(* common preparation: the receiver's header and the loop length *)
Lemma dense_prep w k :
  dm_ok w k -> exists d0 r0 c0, getdm w k = (d0, r0, c0) /\ mdims w (XD k) = (r0, c0) /\
                                 Z.to_nat (r0 * c0) = length d0.
Proof.
  intro Hok. destruct (getdm w k) as [[d0 r0] c0] eqn:Hg. exists d0, r0, c0.
  split; [reflexivity|]. split; [unfold mdims; rewrite Hg; reflexivity|].
  destruct Hok as (_ & Hok'). rewrite Hg in Hok'. unfold zlen in Hok'. lia.
Qed.

(* ---- MdivM --------------------------------------------------------------------------- *)
Lemma step_dense_mdivm y w k a b :
  dm_ok w k -> mwf w a -> mwf w b -> mdims w a = mdims w (XD k) -> mdims w b = mdims w (XD k) ->
  nonzero_all (mabs w b) ->
  let r := step4 y w (MdivM (XD k) a b) in
  ok_out4 r /\ same_but_dm w (fst r) k /\ mabs (fst r) (XD k) = map2 Z.quot (mabs w a) (mabs w b).
Proof.
  intros Hok _ _ Ha Hb Hnz. cbn [step4].
  destruct (dense_prep w k Hok) as (d0 & r0 & c0 & Hg & Hd & Hn).
  rewrite Hd in Ha, Hb.
  rewrite (mabs_seq w b r0 c0 _ Hb Hn) in Hnz.
  rewrite (mabs_seq w a r0 c0 _ Ha Hn), (mabs_seq w b r0 c0 _ Hb Hn), map2_map.
  apply (dmop_spec _ (fun j => Z.quot (mrd w a (Z.of_nat j)) (mrd w b (Z.of_nat j))) w k [a; b] d0 r0 c0); auto.
  intros w' j Hj Hag. rewrite !(mrd_agree k w (length d0) d0 r0 c0 Hg j w') by auto.
  apply sdiv_nonzero. unfold nonzero_all in Hnz. rewrite Forall_forall in Hnz. apply Hnz.
  apply in_map_iff. exists j. split; [reflexivity|]. apply in_seq. lia.
Qed.

(* ---- one matrix operand: MaddS, MsubS, MmulS, MdivS, Set ------------------------------- *)
Lemma dense_munary (f : Z -> Z) w k a :
  dm_ok w k -> mdims w a = mdims w (XD k) ->
  let r := dmop (fun w' i => Some (f (mrd w' a i))) w k [a] in
  ok_out4 r /\ same_but_dm w (fst r) k /\ mabs (fst r) (XD k) = map f (mabs w a).
Proof.
  intros Hok Ha.
  destruct (dense_prep w k Hok) as (d0 & r0 & c0 & Hg & Hd & Hn).
  rewrite Hd in Ha.
  rewrite (mabs_seq w a r0 c0 _ Ha Hn), map_map.
  apply (dmop_spec _ (fun j => f (mrd w a (Z.of_nat j))) w k [a] d0 r0 c0); auto.
  intros w' j Hj Hag. rewrite !(mrd_agree k w (length d0) d0 r0 c0 Hg j w') by auto. reflexivity.
Qed.

Lemma step_dense_madds y w k a c :
  dm_ok w k -> mwf w a -> mdims w a = mdims w (XD k) ->
  let r := step4 y w (MaddS (XD k) a c) in
  ok_out4 r /\ same_but_dm w (fst r) k /\ mabs (fst r) (XD k) = map (fun x => x + c) (mabs w a).
Proof. intros Hok _ Ha. cbn [step4]. apply (dense_munary (fun x => x + c)); auto. Qed.
Lemma step_dense_msubs y w k a c :
  dm_ok w k -> mwf w a -> mdims w a = mdims w (XD k) ->
  let r := step4 y w (MsubS (XD k) a c) in
  ok_out4 r /\ same_but_dm w (fst r) k /\ mabs (fst r) (XD k) = map (fun x => x - c) (mabs w a).
Proof. intros Hok _ Ha. cbn [step4]. apply (dense_munary (fun x => x - c)); auto. Qed.
Lemma step_dense_mmuls y w k a c :
  dm_ok w k -> mwf w a -> mdims w a = mdims w (XD k) ->
  let r := step4 y w (MmulS (XD k) a c) in
  ok_out4 r /\ same_but_dm w (fst r) k /\ mabs (fst r) (XD k) = map (fun x => x * c) (mabs w a).
Proof. intros Hok _ Ha. cbn [step4]. apply (dense_munary (fun x => x * c)); auto. Qed.
Lemma step_dense_mset y w k a :
  dm_ok w k -> mwf w a -> mdims w a = mdims w (XD k) ->
  let r := step4 y w (MSet (XD k) a) in
  ok_out4 r /\ same_but_dm w (fst r) k /\ mabs (fst r) (XD k) = mabs w a.
Proof.
  intros Hok _ Ha. cbn [step4]. rewrite <- (map_id (mabs w a)). apply (dense_munary (fun x => x)); auto.
Qed.
Lemma step_dense_mdivs y w k a c :
  dm_ok w k -> mwf w a -> mdims w a = mdims w (XD k) -> c <> 0 ->
  let r := step4 y w (MdivS (XD k) a c) in
  ok_out4 r /\ same_but_dm w (fst r) k /\ mabs (fst r) (XD k) = map (fun x => Z.quot x c) (mabs w a).
Proof.
  intros Hok _ Ha Hc. cbn [step4].
  destruct (dense_prep w k Hok) as (d0 & r0 & c0 & Hg & Hd & Hn).
  rewrite Hd in Ha.
  rewrite (mabs_seq w a r0 c0 _ Ha Hn), map_map.
  apply (dmop_spec _ (fun j => Z.quot (mrd w a (Z.of_nat j)) c) w k [a] d0 r0 c0); auto.
  intros w' j Hj Hag. rewrite !(mrd_agree k w (length d0) d0 r0 c0 Hg j w') by auto.
  apply sdiv_nonzero; auto.
Qed.

(* ---- SetIdentity, Reset ---------------------------------------------------------------- *)
Lemma step_dense_msetidentity y w k :
  dm_ok w k ->
  let r := step4 y w (MSetIdentity (XD k)) in
  ok_out4 r /\ same_but_dm w (fst r) k /\
  mabs (fst r) (XD k) = identity (fst (mdims w (XD k))) (snd (mdims w (XD k))).
Proof.
  intros Hok. cbn [step4].
  destruct (dense_prep w k Hok) as (d0 & r0 & c0 & Hg & Hd & Hn).
  rewrite Hd, Hg. cbn [fst snd]. unfold identity. rewrite Hn, zseq0, map_map.
  apply (dmop_spec _ (fun j => if c0 =? 0 then 0 else if Z.of_nat j / c0 =? Z.of_nat j mod c0 then 1 else 0)
           w k [] d0 r0 c0); auto.
Qed.
Lemma step_dense_mreset y w k :
  dm_ok w k ->
  let r := step4 y w (MReset (XD k)) in
  ok_out4 r /\ same_but_dm w (fst r) k /\ mabs (fst r) (XD k) = map (fun _ => 0) (mabs w (XD k)).
Proof.
  intros Hok. cbn [step4].
  destruct (dense_prep w k Hok) as (d0 & r0 & c0 & Hg & Hd & Hn).
  rewrite (mabs_seq w (XD k) r0 c0 _ Hd Hn), map_map.
  apply (dmop_spec _ (fun j => 0) w k [] d0 r0 c0); auto.
Qed.

(* ---- Equals ------------------------------------------------------------------------------ *)
Lemma step_dense_mequals y w k b e2 :
  dm_ok w k -> mwf w b -> mdims w b = mdims w (XD k) ->
  step4 y w (MEquals (XD k) b e2) = (w, (K_OK, [b2z (all_close e2 (mabs w (XD k)) (mabs w b))])).
Proof.
  intros Hok _ Hb. cbn [step4].
  destruct (dense_prep w k Hok) as (d0 & r0 & c0 & Hg & Hd & Hn).
  rewrite Hd in Hb. rewrite Hg, Hb, dims_eqb_refl.
  rewrite (mabs_seq w (XD k) r0 c0 _ Hd Hn), (mabs_seq w b r0 c0 _ Hb Hn).
  do 4 f_equal. unfold all_close. rewrite zseq0.
  assert (Hr : forall i, mrd w (XD k) i = nth (Z.to_nat i) d0 0).
  { intro i. unfold mrd, mop. rewrite Hg. reflexivity. }
  generalize (seq 0 (length d0)). intro s.
  induction s as [|j s IH]; cbn [forallb map combine fst snd]; auto. rewrite IH, Hr. reflexivity.
Qed.

(* ---- MdotM ---------------------------------------------------------------------------------- *)
(* r.AT(i) on a vector of a world with allocated cells: an entry may appear, no
   vector reads differently *)
Lemma WWf_getv s u : WWf s -> Wf (hp s) (getv s u).
Proof.
  intro H. unfold getv. apply Forall_nth_d; auto. split; simpl; intros; discriminate.
Qed.
Lemma at_frame s u i h' v' l :
  WWf s -> at_ (hp s) (getv s u) i = Some (h', v', l) ->
  let s' := seth (setv s u v') h' in
  length (vecs s') = length (vecs s) /\
  (forall u', dim (getv s' u') = dim (getv s u')) /\
  (forall u' j, peek (hp s') (getv s' u') j = peek (hp s) (getv s u') j).
Proof.
  intros HW Hat s'.
  assert (Hu : (u < length (vecs s))%nat).
  { destruct (lt_dec u (length (vecs s))) as [L|L]; auto. exfalso.
    unfold getv in Hat. rewrite nth_overflow in Hat by lia. unfold at_, in_bounds in Hat. simpl in Hat.
    destruct (0 <=? i) eqn:E0; destruct (i <? 0) eqn:E; simpl in Hat; try discriminate.
    apply Z.leb_le in E0. apply Z.ltb_lt in E. lia. }
  assert (Gu : getv s' u = v') by (unfold s', getv, seth, setv; simpl; apply nth_upd_eq; auto).
  assert (Go : forall u', u' <> u -> getv s' u' = getv s u').
  { intros u' N. unfold s', getv, seth, setv. simpl. apply nth_upd_neq. auto. }
  assert (Hh : hp s' = h') by reflexivity.
  split; [unfold s', seth, setv; simpl; apply upd_length|].
  clearbody s'. unfold at_ in Hat. destruct (in_bounds (getv s u) i) eqn:Hb; [|discriminate].
  destruct (lookup i (vals (getv s u))) as [l0|] eqn:Hl.
  - injection Hat as Eh Ev El. split.
    + intro u'. destruct (Nat.eq_dec u' u) as [->|N]; [rewrite Gu, <- Ev; auto|rewrite Go; auto].
    + intros u' j. rewrite Hh, <- Eh.
      destruct (Nat.eq_dec u' u) as [->|N]; [rewrite Gu, <- Ev; auto|rewrite Go; auto].
  - unfold halloc in Hat. injection Hat as Eh Ev El. split.
    + intro u'. destruct (Nat.eq_dec u' u) as [->|N]; [rewrite Gu, <- Ev; auto|rewrite Go; auto].
    + intros u' j. rewrite Hh, <- Eh.
      assert (Hold : forall v, Wf (hp s) v -> peek (hp s ++ [0]) v j = peek (hp s) v j).
      { intros v (W1 & _). unfold peek. destruct (lookup j (vals v)) as [l1|] eqn:E1; auto.
        unfold hget. apply app_nth1. eauto. }
      destruct (Nat.eq_dec u' u) as [->|N].
      * rewrite Gu, <- Ev. destruct (Z.eq_dec j i) as [->|Nj].
        -- unfold peek. cbn [vals]. rewrite lookup_insert_eq, Hl. unfold hget.
           rewrite app_nth2 by lia. rewrite Nat.sub_diag. reflexivity.
        -- pose proof (WWf_getv s u HW) as (W1 & _).
           unfold peek. cbn [vals]. rewrite lookup_insert_neq by auto.
           destruct (lookup j (vals (getv s u))) as [l1|] eqn:E1; auto.
           unfold hget. apply app_nth1. eauto.
      * rewrite Go by auto. apply Hold. apply WWf_getv. auto.
Qed.

Lemma mrd_base_same w w' x i :
  base_same w w' -> sms w' = sms w -> dms w' = dms w -> mrd w' x i = mrd w x i.
Proof.
  intros (_ & _ & _ & P) S D. unfold mrd, mop, getsm, getdm. rewrite S, D.
  destruct x as [k|k].
  - destruct (nth k (sms w) (0%nat, 0, 0)) as [[u r] c]. simpl. apply P.
  - destruct (nth k (dms w) ([], 0, 0)) as [[d r] c]. reflexivity.
Qed.

(* storageLocation() of a non-empty matrix succeeds and changes no reading *)
Lemma sloc_spec w x :
  mwf w x -> 0 < fst (mdims w x) * snd (mdims w x) ->
  (forall kb, x = XS kb -> WWf (sw (b3 w))) ->
  exists w2 l, sloc w x = Some (w2, l) /\ base_same w w2 /\ sms w2 = sms w /\ dms w2 = dms w.
Proof.
  intros Hx Hpos HW. destruct x as [kb|kb]; unfold sloc, mwf, mdims in *.
  - unfold sm_ok in Hx. destruct (getsm w kb) as [[u r] c] eqn:E. simpl in Hpos.
    destruct Hx as (_ & Hr & Hc & Hu & Hd).
    destruct (at_in_range_ok (hp (sw (b3 w))) (getv (sw (b3 w)) u) 0) as (h' & v' & l & Hat).
    { unfold idx_ok. lia. }
    rewrite Hat. eexists. eexists. split; [reflexivity|].
    pose proof (at_frame (sw (b3 w)) u 0 h' v' l (HW kb eq_refl) Hat) as (A & B & C).
    split; [|split; reflexivity].
    unfold base_same. simpl. auto.
  - unfold dm_ok in Hx. destruct (getdm w kb) as [[d r] c] eqn:E. simpl in Hpos.
    destruct Hx as (_ & Hr & Hc & Hd).
    destruct (zlen d =? 0) eqn:Ez; [apply Z.eqb_eq in Ez; lia|].
    eexists. eexists. split; [reflexivity|]. split; [apply base_same_eq; reflexivity|]. auto.
Qed.

Lemma fold_left_ext_in (f g : Z -> Z -> Z) (l : list Z) :
  (forall acc q, In q l -> f acc q = g acc q) -> forall a, fold_left f l a = fold_left g l a.
Proof.
  induction l as [|x l IH]; intros H a; simpl; auto.
  rewrite H by (left; auto). apply IH. intros acc q Hq. apply H. right. auto.
Qed.

Lemma step_dense_mdotm y w k a b n m p :
  dm_ok w k -> mwf w a -> mwf w b ->
  mdims w (XD k) = (n, p) -> mdims w a = (n, m) -> mdims w b = (m, p) ->
  0 < n -> 0 < m -> 0 < p ->
  (forall kb, b = XS kb -> WWf (sw (b3 w))) ->
  rab_alias k a b = false ->      (* not r.MdotM(r, r): see mdotm_rr_refuted (known finding F-MDOTM-RR) *)
  let r := step4 y w (MdotM (XD k) a b) in
  ok_out4 r /\ same_but_dm w (fst r) k /\ mabs (fst r) (XD k) = matmul (mabs w a) (mabs w b) n m p.
Proof.
  intros Hok Ha Hb Dk Da Db Hn Hm Hp HW Hal. cbn [step4].
  rewrite Dk, Da, Db, !Z.eqb_refl. cbn [andb negb].
  destruct (sloc_spec w (XD k)) as (w1 & lr & S1 & B1 & M1 & N1); auto.
  { rewrite Dk. simpl. nia. }
  { intros kb E. discriminate. }
  assert (E1 : w1 = w).
  { unfold sloc in S1. destruct (getdm w k) as [[d0 r0] c0]. destruct (zlen d0 =? 0); inversion S1. auto. }
  subst w1. rewrite S1.
  destruct (sloc_spec w b) as (w2 & lb & S2 & B2 & M2 & N2); auto.
  { rewrite Db. simpl. nia. }
  rewrite S2, Hal. unfold okm. cbn [fst snd].
  split; [reflexivity|].
  destruct (dense_prep w k Hok) as (d0 & r0 & c0 & Hg & Hd & Hl).
  rewrite Dk in Hd. inversion Hd. subst r0 c0.
  set (D := map (fun i => dotrow w2 a b m p (i / p) (i mod p)) (zseq 0 (Z.to_nat (n * p)))).
  assert (Hk2 : hasdm w2 k) by (unfold hasdm; rewrite N2; apply Hok).
  assert (Hg2 : getdm w2 k = (d0, n, p)) by (unfold getdm; rewrite N2; exact Hg).
  assert (EE : same_but_dm w (setdm w2 k D) k /\ mabs (setdm w2 k D) (XD k) = D).
  { apply (dense_frame w (setdm w2 k D) k d0 n p D); auto.
    - unfold base_same. rewrite setdm_b3. exact B2.
    - rewrite setdm_sms. auto.
    - rewrite setdm_dms_length, N2. auto.
    - intros k' N. rewrite getdm_setdm_neq by auto. unfold getdm. rewrite N2. reflexivity.
    - rewrite getdm_setdm_eq by auto. rewrite Hg2. reflexivity.
    - unfold D. rewrite map_length, zseq_length. auto. }
  destruct EE as (E1 & E2). split; [exact E1|]. rewrite E2.
  unfold D, matmul. apply map_ext_in. intros i Hi. apply zseq_In in Hi.
  assert (Hi' : 0 <= i < n * p) by lia.
  assert (Hq : 0 <= i / p < n).
  { split; [apply Z.div_pos; lia|apply Z.div_lt_upper_bound; lia]. }
  pose proof (Z.mod_pos_bound i p Hp) as Hr.
  unfold dotrow, zsum. apply fold_left_ext_in. intros acc q Hin. apply zseq_In in Hin.
  rewrite !(mrd_base_same w w2) by auto.
  rewrite !lat_mabs; [reflexivity| |].
  - rewrite Db. simpl. nia.
  - rewrite Da. simpl. nia.
Qed.

(* ---- Outer ------------------------------------------------------------------------------------ *)
Lemma lat_abs3 w x i : 0 <= i < vdim w x -> lat (abs3 w x) i = rd w x i.
Proof.
  destruct x as [u|kk]; simpl; intro H.
  - unfold sabs, abs_vec. apply lat_map. lia.
  - reflexivity.
Qed.

Lemma step_dense_mouter y w k a b n m :
  dm_ok w k -> vwf w a -> vwf w b -> mdims w (XD k) = (n, m) -> vlen w a = n -> vlen w b = m ->
  let r := step4 y w (MOuter (XD k) a b) in
  ok_out4 r /\ same_but_dm w (fst r) k /\ mabs (fst r) (XD k) = outer (abs3 (b3 w) a) (abs3 (b3 w) b) n m.
Proof.
  intros Hok _ _ Dk La Lb. cbn [step4].
  destruct (dense_prep w k Hok) as (d0 & r0 & c0 & Hg & Hd & Hl).
  rewrite Dk in Hd. inversion Hd. subst r0 c0.
  rewrite Hg, La, Lb, !Z.eqb_refl. cbn [andb negb]. rewrite Hl.
  set (G := fun j : nat => vrd w a (Z.of_nat j / m) * vrd w b (Z.of_nat j mod m)).
  destruct (dmloop_all k w (length d0) d0 n m (proj1 Hok) Hg eq_refl
              (fun w' i => Some (vrd w' a (i / m) * vrd w' b (i mod m))) G)
    as (w' & L & A & B & C & D & F).
  { intros w1 j Hj (E & _). unfold G, vrd. rewrite E. reflexivity. }
  rewrite L. cbn [fst snd]. split; [reflexivity|].
  assert (EE : same_but_dm w w' k /\ mabs w' (XD k) = map G (seq 0 (length d0))).
  { apply (dense_frame w w' k d0 n m); auto.
    - apply base_same_eq; auto.
    - rewrite map_length, seq_length. reflexivity. }
  destruct EE as (E1 & E2). split; [exact E1|]. rewrite E2.
  unfold outer. rewrite Hl, zseq0, map_map. apply map_ext_in. intros j Hj. apply in_seq in Hj.
  destruct Hok as (_ & Hok). rewrite Hg in Hok. destruct Hok as (Hn & Hm & Hz). unfold zlen in Hz.
  assert (Hm' : 0 < m) by nia.
  assert (Hq : 0 <= Z.of_nat j / m < n).
  { split; [apply Z.div_pos; lia|apply Z.div_lt_upper_bound; lia]. }
  pose proof (Z.mod_pos_bound (Z.of_nat j) m Hm') as Hr.
  unfold G, vrd. unfold vlen in La, Lb. rewrite !lat_abs3 by lia. reflexivity.
Qed.

(* ---- MdotV / VdotM: dense receiver vector --------------------------------------------------------- *)
Lemma step_dense_mdotv y w k a b n m :
  hasd (b3 w) k -> mwf w a -> vwf w b -> mdims w a = (n, m) -> zlen (getd (b3 w) k) = n -> vlen w b = m ->
  0 < n -> 0 < m -> b <> RD k ->
  let r := step4 y w (MdotV (RD k) a b) in
  ok_out4 r /\ same_but_dv w (fst r) k /\ getd (b3 (fst r)) k = matvec (mabs w a) (abs3 (b3 w) b) n m.
Proof.
  intros Hk _ _ Da Lr Lb Hn Hm Nb. cbn [step4].
  assert (Lr' : vlen w (RD k) = n) by exact Lr.
  rewrite Da, Lr', Lb, !Z.eqb_refl. cbn [andb negb].
  destruct (n =? 0) eqn:En; [apply Z.eqb_eq in En; lia|].
  destruct (m =? 0) eqn:Em; [apply Z.eqb_eq in Em; lia|]. cbn [orb].
  assert (Eb : (match b with RD u => Nat.eqb k u | RS _ => false end) = false).
  { destruct b as [u|u]; auto. apply Nat.eqb_neq. intro E. apply Nb. subst. reflexivity. }
  rewrite Eb. unfold okm. cbn [fst snd]. split; [reflexivity|].
  split.
  - unfold same_but_dv, setb. cbn [b3 sms dms]. split; [auto|]. split; [auto|]. split; [reflexivity|].
    split; [unfold setd; simpl; apply upd_length|].
    intros k' N. apply getd_setd_neq. auto.
  - unfold setb. cbn [b3]. rewrite getd_setd_eq by auto.
    unfold matvec. apply map_ext_in. intros i Hi. apply zseq_In in Hi.
    unfold zsum. apply fold_left_ext_in. intros acc j Hj. apply zseq_In in Hj.
    unfold vrd. unfold vlen in Lb. rewrite lat_abs3 by lia. rewrite lat_mabs; [reflexivity|].
    rewrite Da. simpl. nia.
Qed.

Lemma step_dense_vdotm y w k a b n m :
  hasd (b3 w) k -> vwf w a -> mwf w b -> mdims w b = (n, m) -> zlen (getd (b3 w) k) = m -> vlen w a = n ->
  0 < n -> 0 < m -> a <> RD k ->
  let r := step4 y w (VdotM (RD k) a b) in
  ok_out4 r /\ same_but_dv w (fst r) k /\ getd (b3 (fst r)) k = vecmat (abs3 (b3 w) a) (mabs w b) n m.
Proof.
  intros Hk _ _ Db Lr La Hn Hm Na. cbn [step4].
  assert (Lr' : vlen w (RD k) = m) by exact Lr.
  rewrite Db, Lr', La, !Z.eqb_refl. cbn [andb negb].
  destruct (n =? 0) eqn:En; [apply Z.eqb_eq in En; lia|].
  destruct (m =? 0) eqn:Em; [apply Z.eqb_eq in Em; lia|]. cbn [orb].
  assert (Ea : (match a with RD u => Nat.eqb k u | RS _ => false end) = false).
  { destruct a as [u|u]; auto. apply Nat.eqb_neq. intro E. apply Na. subst. reflexivity. }
  rewrite Ea. unfold okm. cbn [fst snd]. split; [reflexivity|].
  split.
  - unfold same_but_dv, setb. cbn [b3 sms dms]. split; [auto|]. split; [auto|]. split; [reflexivity|].
    split; [unfold setd; simpl; apply upd_length|].
    intros k' N. apply getd_setd_neq. auto.
  - unfold setb. cbn [b3]. rewrite getd_setd_eq by auto.
    unfold vecmat. apply map_ext_in. intros i Hi. apply zseq_In in Hi.
    unfold zsum. apply fold_left_ext_in. intros acc j Hj. apply zseq_In in Hj.
    unfold vrd. unfold vlen in La. rewrite lat_abs3 by lia. rewrite lat_mabs; [reflexivity|].
    rewrite Db. simpl. nia.
Qed.

(* ---- an inner dimension of 0: the receiver keeps its prior content ------------------------------- *)
(* a is 2 x 0, b is empty: MdotV returns at once (`if n == 0 || m == 0 { return r }`), for a
   dense and for a sparse receiver alike — both storages agree with each other — but the
   receiver still holds [5; 6] although the product is the zero vector.  The same for VdotM
   with a 0 x 2 matrix. *)
Example mdotv_empty_inner_keeps_receiver :
  let w := run4 TFloat init4 [NewDM [] 2 0; NewSM [] [] 2 0; V (NewD [5; 6]); V (NewS [0; 1] [5; 6] 2);
                              V (NewD []); V (NewS [] [] 0)] in
  let rd := step4 TFloat w (MdotV (RD 0) (XD 0) (RD 1)) in
  let rs := step4 TFloat w (MdotV (RS 1) (XS 0) (RS 2)) in
  abs3 (b3 w) (RD 0) = [5; 6] /\ abs3 (b3 w) (RS 1) = [5; 6] /\
  mdims w (XD 0) = (2, 0) /\ mdims w (XS 0) = (2, 0) /\
  ok_out4 rd /\ ok_out4 rs /\
  abs3 (b3 (fst rd)) (RD 0) = [5; 6] /\ abs3 (b3 (fst rs)) (RS 1) = [5; 6] /\
  matvec (mabs w (XD 0)) (abs3 (b3 w) (RD 1)) 2 0 = [0; 0] /\
  matvec (mabs w (XS 0)) (abs3 (b3 w) (RS 2)) 2 0 = [0; 0].
Proof. vm_compute. repeat split; reflexivity. Qed.
Example vdotm_empty_inner_keeps_receiver :
  let w := run4 TFloat init4 [NewDM [] 0 2; NewSM [] [] 0 2; V (NewD [5; 6]); V (NewS [0; 1] [5; 6] 2);
                              V (NewD []); V (NewS [] [] 0)] in
  let rd := step4 TFloat w (VdotM (RD 0) (RD 1) (XD 0)) in
  let rs := step4 TFloat w (VdotM (RS 1) (RS 2) (XS 0)) in
  abs3 (b3 w) (RD 0) = [5; 6] /\ abs3 (b3 w) (RS 1) = [5; 6] /\
  mdims w (XD 0) = (0, 2) /\ mdims w (XS 0) = (0, 2) /\
  ok_out4 rd /\ ok_out4 rs /\
  abs3 (b3 (fst rd)) (RD 0) = [5; 6] /\ abs3 (b3 (fst rs)) (RS 1) = [5; 6] /\
  vecmat (abs3 (b3 w) (RD 1)) (mabs w (XD 0)) 0 2 = [0; 0] /\
  vecmat (abs3 (b3 w) (RS 2)) (mabs w (XS 0)) 0 2 = [0; 0].
Proof. vm_compute. repeat split; reflexivity. Qed.

(* ---- the hypotheses are satisfiable: instances ------------------------------------------------------ *)
(* the receiver is an operand; the other operand is sparse with a stale zero entry *)
Example step_dense_mopm_instance :
  let w := run4 TFloat init4 [NewDM [1; 2; 3; 4] 2 2; NewSM [0; 3] [7; 5] 2 2; MSetAt (XS 0) 0 0] in
  mabs (fst (step4 TFloat w (MopM Sub (XD 0) (XD 0) (XS 0)))) (XD 0) = [1; 2; 3; -1].
Proof.
  intro w.
  assert (H : dm_ok w 0 /\ mwf w (XD 0) /\ mwf w (XS 0) /\ mdims w (XS 0) = mdims w (XD 0)).
  { vm_compute. repeat split; intros; try discriminate; try lia. }
  destruct H as (H1 & H2 & H3 & H4).
  destruct (step_dense_mopm TFloat Sub w 0%nat (XD 0) (XS 0) H1 H2 H3 eq_refl H4) as (_ & _ & E).
  rewrite E. vm_compute. reflexivity.
Qed.
(* MdotM with the receiver as left factor and a sparse right factor without entry 0:
   storageLocation() creates that entry (the world changes), no value changes *)
Example step_dense_mdotm_instance :
  let w := run4 TFloat init4 [NewDM [1; 2; 3; 4] 2 2; NewSM [3] [5] 2 2] in
  mabs (fst (step4 TFloat w (MdotM (XD 0) (XD 0) (XS 0)))) (XD 0) = [0; 10; 0; 20] /\
  fst (step4 TFloat w (MdotM (XD 0) (XD 0) (XS 0))) <> setdm w 0 [0; 10; 0; 20].
Proof.
  intro w.
  assert (H : dm_ok w 0 /\ mwf w (XD 0) /\ mwf w (XS 0) /\ mdims w (XD 0) = (2, 2) /\ mdims w (XS 0) = (2, 2)).
  { vm_compute. repeat split; intros; try discriminate; try lia. }
  destruct H as (H1 & H2 & H3 & H4 & H5).
  assert (HW : WWf (sw (b3 w))).
  { assert (E : sw (b3 w) = {| hp := [5]; vecs := [ {| vals := [(3, 0%nat)]; idx := [3]; dim := 4 |} ] |}) by (vm_compute; reflexivity).
    rewrite E. unfold WWf. cbn [hp vecs]. apply Forall_cons; [|apply Forall_nil]. split; cbn [vals lookup].
    - intros k l H. destruct (3 =? k); inversion H. simpl. lia.
    - intros k1 k2 l H H'. destruct (3 =? k1) eqn:E1; [|discriminate]. destruct (3 =? k2) eqn:E2; [|discriminate]. lia. }
  split.
  - destruct (step_dense_mdotm TFloat w 0%nat (XD 0) (XS 0) 2 2 2 H1 H2 H3 H4 H4 H5) as (_ & _ & E); try lia.
    { intros; exact HW. }
    { reflexivity. }
    rewrite E. vm_compute. reflexivity.
  - vm_compute. intro E. discriminate.
Qed.

(* known finding F-MDOTM-RR (C08): r.MdotM(r, r) on a DENSE square matrix takes the column-buffered schedule
   (r shares storage with b) although a is r too: the columns of the left factor already overwritten are read
   for the later columns.  The model follows Go; a sparse receiver PANICS for r = a ("result and argument must be
   different matrices"), so here the outcome does depend on the storage. *)
Lemma mdotm_rr_refuted_lemma :
  let w := run4 TFloat init4 [NewDM [1; 2; 3; 4] 2 2; NewSM [0; 1; 2; 3] [1; 2; 3; 4] 2 2] in
  mabs w (XD 0) = mabs w (XS 0) /\
  matmul (mabs w (XD 0)) (mabs w (XD 0)) 2 2 2 = [7; 10; 15; 22] /\
  mabs (fst (step4 TFloat w (MdotM (XD 0) (XD 0) (XD 0)))) (XD 0) = [7; 22; 15; 46] /\
  snd (step4 TFloat w (MdotM (XS 0) (XS 0) (XS 0))) = (K_PANIC, []).
Proof. vm_compute. repeat split; reflexivity. Qed.
