(* C03, round 7 — statements only.  Reset under live views and handles (class: a Reset that DROPS the
   entries instead of zeroing the stored scalars makes views / handles taken before it diverge from the
   dense twin).  Model: C11's heap of cells + key -> cell map (coq/C11/Model.v: reset, slice), the
   VReset step of coq/C03/Model.v.  All statements are for ALL heaps, vectors, windows, indices. *)
From Coq Require Import ZArith List Bool Lia.
From ADV Require Import C11.Model C03.Model C03.ProofsR7.
Import ListNotations.
Open Scope Z_scope.

(* Reset zeroes every stored scalar of the receiver and no other cell; the heap is not re-allocated *)
Theorem reset_zeroes_stored_scalars : forall h v l,
  In l (cells v) -> (l < length h)%nat -> hget (reset h v) l = 0.
Proof. exact reset_cell_zero. Qed.
Theorem reset_frame_other_cells : forall h v l, ~ In l (cells v) -> hget (reset h v) l = hget h l.
Proof. exact reset_cell_frame. Qed.
(* SLICE(a, b) (also: ConstSlice, a sparse matrix's ConstRow = values.Slice) holds cells of its parent only;
   views of views are views *)
Theorem slice_is_view : forall v a b, shares (slice v a b) v.
Proof. exact slice_shares. Qed.
Theorem view_of_view : forall a b c, shares a b -> shares b c -> shares a c.
Proof. exact shares_trans. Qed.
(* a view taken BEFORE the Reset of its parent reads 0 at every index afterwards *)
Theorem view_reads_zero_after_parent_reset : forall h v u,
  shares u v -> allocated h v -> forall i, peek (reset h v) u i = 0.
Proof. exact reset_view_zero. Qed.
(* ... which is what a window of the dense twin's zeroed backing array reads *)
Theorem slice_after_reset_like_dense_window : forall h v a b (d : list Z) i,
  allocated h v ->
  peek (reset h v) (slice v a b) i =
  nth (Z.to_nat i) (firstn (Z.to_nat (b - a)) (skipn (Z.to_nat a) (map (fun _ => 0) d))) 0.
Proof. exact reset_slice_like_dense. Qed.
(* a handle (cell) obtained before the Reset still is the entry it was: a write through it is read back through
   every vector that holds the cell at key k (the receiver, a view) *)
Theorem write_through_old_handle_after_reset : forall h v u k l x,
  lookup k (vals u) = Some l -> (l < length h)%nat -> peek (hset (reset h v) l x) u k = x.
Proof. exact reset_handle_write. Qed.
(* the VReset step of the C03 model: no vector record (map, index, dimension) changes — handles and views stay
   attached —, every view of the receiver reads 0, every vector sharing no cell with it reads what it read *)
Theorem sparse_reset_keeps_views_and_handles : forall y (w : w3) t,
  let r := step3 y w (VReset (RS t)) in
  vecs (sw (fst r)) = vecs (sw w) /\ ADV.C03.Model.dn (fst r) = ADV.C03.Model.dn w /\
  (allocated (hp (sw w)) (getv (sw w) t) ->
   forall u, shares (getv (sw w) u) (getv (sw w) t) -> forall i, peek (hp (sw (fst r))) (getv (sw (fst r)) u) i = 0) /\
  (forall u i, (forall l, In l (cells (getv (sw w) u)) -> ~ In l (cells (getv (sw w) t))) ->
     peek (hp (sw (fst r))) (getv (sw (fst r)) u) i = peek (hp (sw w)) (getv (sw w) u) i).
Proof. exact step_reset_views. Qed.

(* non-vacuity: v = (5, 0, 7, .) with cells 0 and 1 of the heap [5; 7; 3]; the view v[1:4) reads 7 at 1 before and
   0 after the Reset; cell 2 (foreign) keeps 3; a write of 9 through the old handle of entry 2 is read by both *)
Definition r7_h : heap := [5; 7; 3]%Z.
Definition r7_v : svec := {| vals := [(0, 0%nat); (2, 1%nat)]; idx := [0; 2]; dim := 4 |}.
Example r7_nonvacuous :
  allocated r7_h r7_v /\ shares (slice r7_v 1 4) r7_v /\
  peek r7_h (slice r7_v 1 4) 1 = 7 /\ peek (reset r7_h r7_v) (slice r7_v 1 4) 1 = 0 /\
  hget (reset r7_h r7_v) 2%nat = 3 /\
  lookup 2 (vals r7_v) = Some 1%nat /\ lookup 1 (vals (slice r7_v 1 4)) = Some 1%nat /\
  peek (hset (reset r7_h r7_v) 1%nat 9) r7_v 2 = 9 /\ peek (hset (reset r7_h r7_v) 1%nat 9) (slice r7_v 1 4) 1 = 9.
Proof.
  split; [|split; [apply slice_shares|vm_compute; repeat split; reflexivity]].
  intros l H. vm_compute in H. vm_compute. destruct H as [<-|[<-|[]]]; lia.
Qed.
