(* C03 (round 6) — what the property says about the read-only sparse vectors:
   the ELEMENT of a const object at index i is the value stored under i in its
   index/value list (0 when the index is not stored); the value list [cabs] is
   what a dense vector built from the same index/value list holds.  None of
   this mentions the random-access cache. *)
From Coq Require Import ZArith List Bool.
From ADV Require Import C11.Model C03.Model C03.ModelC.
Import ListNotations.
Open Scope Z_scope.

Fixpoint lk (e : list (Z * Z)) (i : Z) : Z :=
  match e with
  | [] => 0
  | (k, x) :: r => if k =? i then x else lk r i
  end.
Definition celem (v : cvec) (i : Z) : Z := lk (ce v) i.
Definition cabs (v : cvec) : list Z := map (celem v) (zseq 0 (Z.to_nat (cn v))).
(* strictly ascending *)
Fixpoint asc (l : list Z) : Prop :=
  match l with
  | [] => True
  | x :: r => Forall (fun y => x < y) r /\ asc r
  end.
(* the cache is empty or exactly the index of the current slices *)
Definition cache_ok (v : cvec) : Prop := cm v = [] \/ cm v = index_from 0 (ce v) [].
(* a const object as the constructors and ConstSlice build it *)
Definition goodc (v : cvec) : Prop := asc (keys (ce v)) /\ cache_ok v.
