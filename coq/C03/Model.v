(* C03 — executable model of the vector operations of
     /repo/vector_sparse_template_math.in   (sparse receiver)
     /repo/vector_dense_template_math.in    (dense receiver)
   and of the conversions / Set / Equals of vector_{sparse,dense}_template.in,
   hand-written on top of the SHARED sparse-vector model coq/C11/Model.v (heap of
   cells, value map, ordered key set, plain iterator with skip(), the joint
   iterators JOINT_ITERATOR / JOINT3_ITERATOR as state machines).  Mirrors the Go
   control flow at HEAD (after the fix commits ec1f971 joint iterators, 8e91379
   VmulV/VmulS, 79af6e2 VdotM).

   World = C11's world (heap + sparse vectors) + a list of dense vectors (a
   dense vector of the template types is a []T: a list of values; no cell
   sharing between dense vectors is modelled: Slice is C10/C12's subject).
   Element carrier Z; the element TYPE only matters for division ([ty]).

   No proofs in this file. *)
From Coq Require Import ZArith List Bool Lia.
From ADV Require Import C11.Model.
Import ListNotations.
Open Scope Z_scope.

(* ----------------------------------------------------------- element type *)
Inductive ty := TFloat | TInt | TReal.
(* codes standing for the non-finite results of a float division by zero *)
Definition NAN : Z := 999999937.
Definition PINF : Z := 999999938.
Definition NINF : Z := 999999939.
(* c.Div(a, b): Go integer division truncates and panics (None) on b = 0;
   float division by zero gives +-Inf / NaN.  For b <> 0 the float instance is
   exact only when b divides a (the harness generates only such operands). *)
Definition sdiv (t : ty) (a b : Z) : option Z :=
  if b =? 0 then
    match t with
    | TInt => None
    | _ => Some (if 0 <? a then PINF else if a <? 0 then NINF else NAN)
    end
  else Some (Z.quot a b).
(* Equals(.., epsilon): |a - b| < epsilon, epsilon = e2 / 2 *)
Definition close (e2 a b : Z) : bool := Z.abs (a - b) * 2 <? e2.

(* ------------------------------------------------------------------ world *)
Record w3 := { sw : world; dn : list (list Z) }.
Definition init3 : w3 := {| sw := init; dn := [] |}.
Inductive vref := RS (u : nat) | RD (k : nat).
Definition getd (w : w3) (k : nat) : list Z := nth k (dn w) [].
Definition setd (w : w3) (k : nat) (l : list Z) : w3 := {| sw := sw w; dn := upd k l (dn w) |}.
Definition addd (w : w3) (l : list Z) : w3 := {| sw := sw w; dn := dn w ++ [l] |}.
Definition sets (w : w3) (s : world) : w3 := {| sw := s; dn := dn w |}.
Definition zlen (l : list Z) : Z := Z.of_nat (length l).
Definition vdim (w : w3) (x : vref) : Z :=
  match x with RS u => dim (getv (sw w) u) | RD k => zlen (getd w k) end.
(* x.ConstAt(i) for i in range: never creates an entry *)
Definition rd (w : w3) (x : vref) (i : Z) : Z :=
  match x with
  | RS u => peek (hp (sw w)) (getv (sw w) u) i
  | RD k => nth (Z.to_nat i) (getd w k) 0
  end.
(* an operand as the sparse receiver's loops see it: a dense operand is not
   changed by an operation whose receiver is sparse, so it is passed by value *)
Definition to_op (w : w3) (x : vref) : operand :=
  match x with RS u => OS u | RD k => OD (getd w k) end.
(* operand.ConstAt(i) *)
Definition ord (w : world) (o : operand) (i : Z) : Z :=
  match o with OS u => peek (hp w) (getv w u) i | OD d => nth (Z.to_nat i) d 0 end.

(* --------------------------------------------- sparse receiver: joint loops *)
(* s_r := it.s1; if s_r.ptr == nil { s_r = r.AT(it.Index()) }; s_r.<op>(...) := x
   None = AT panicked *)
Definition wr (w : world) (t : nat) (i : Z) (s1 : option loc) (x : Z) : option world :=
  match s1 with
  | Some l => Some (seth w (hset (hp w) l x))
  | None =>
      match at_ (hp w) (getv w t) i with
      | Some (h', v', l) => Some (seth (setv w t v') (hset h' l x))
      | None => None
      end
  end.
(* every visit has a new index in [0,n): n + 2 steps always suffice *)
Definition lfuel (w : world) (t : nat) : nat := S (S (Z.to_nat (dim (getv w t)))).

(* for it := r.JOINT3_ITERATOR(a, b); it.Ok(); it.Next() { s_r.<f>(s_a, s_b) }
   result: None = out of fuel; (w, true) = done; (w, false) = panicked in state w *)
Fixpoint map3_loop (f : Z -> Z -> Z) (fuel : nat) (w : world) (t : nat) (j : joint3)
  : option (world * bool) :=
  if kok j then
    match fuel with
    | O => None
    | S fu =>
        match wr w t (kidx j) (ks1 j) (f (jval (ks2 j)) (jval (ks3 j))) with
        | None => Some (w, false)
        | Some w1 =>
            match joint3_next w1 t j with
            | None => None
            | Some (w2, j') => map3_loop f fu w2 t j'
            end
        end
    end
  else Some (w, true).
Definition vop3 (f : Z -> Z -> Z) (w : world) (t : nat) (o2 o3 : operand) : option (world * bool) :=
  let n := dim (getv w t) in
  if negb (op_dim w o2 =? n) || negb (op_dim w o3 =? n) then Some (w, false)
  else match joint3_begin w t o2 o3 with
       | None => None
       | Some (w1, j) => map3_loop f (lfuel w t) w1 t j
       end.

(* for it := r.JOINT_ITERATOR(a); it.Ok(); it.Next() { s_r.<f>(s_a) } *)
Fixpoint map2_loop (f : Z -> Z) (fuel : nat) (w : world) (t : nat) (j : joint)
  : option (world * bool) :=
  if jok j then
    match fuel with
    | O => None
    | S fu =>
        match wr w t (jidx j) (js1 j) (f (jval (js2 j))) with
        | None => Some (w, false)
        | Some w1 =>
            match joint_next w1 t j with
            | None => None
            | Some (w2, j') => map2_loop f fu w2 t j'
            end
        end
    end
  else Some (w, true).
Definition vop2 (f : Z -> Z) (w : world) (t : nat) (o : operand) : option (world * bool) :=
  if negb (op_dim w o =? dim (getv w t)) then Some (w, false)
  else match joint_begin w t o with
       | None => None
       | Some (w1, j) => map2_loop f (lfuel w t) w1 t j
       end.
(* Set(x): receiver == x -> nothing; the three cases of the switch all store
   the operand's value (0 when it is absent) *)
Definition vset (w : world) (t : nat) (o : operand) : option (world * bool) :=
  match o with
  | OS u => if Nat.eqb t u then Some (w, true) else vop2 (fun x => x) w t o
  | OD _ => vop2 (fun x => x) w t o
  end.

(* Equals(b, epsilon): the loop returns false at the first visit that differs *)
Fixpoint eq_loop (e2 : Z) (fuel : nat) (w : world) (t : nat) (j : joint) : option (world * bool) :=
  if jok j then
    match fuel with
    | O => None
    | S fu =>
        let x := match js1 j with Some l => hget (hp w) l | None => 0 end in
        if close e2 x (jval (js2 j)) then
          match joint_next w t j with
          | None => None
          | Some (w', j') => eq_loop e2 fu w' t j'
          end
        else Some (w, false)
    end
  else Some (w, true).
(* result: None = fuel; Some (w, None) = panic; Some (w, Some b) = returned b *)
Definition vequals (e2 : Z) (w : world) (t : nat) (o : operand) : option (world * option bool) :=
  if negb (op_dim w o =? dim (getv w t)) then Some (w, None)
  else match joint_begin w t o with
       | None => None
       | Some (w1, j) =>
           match eq_loop e2 (lfuel w t) w1 t j with
           | None => None
           | Some (w2, b) => Some (w2, Some b)
           end
       end.

(* --------------------------------------------- sparse receiver: index loops *)
(* for i := 0; i < n; i++ { r.AT(i).<op>(a.ConstAt(i), b) }: AT first (creates the
   entry), then the operand is read, then the scalar operation (None = it
   panicked: integer division by zero) *)
Fixpoint at_loop (g : world -> Z -> option Z) (cnt : nat) (i : Z) (w : world) (t : nat) : world * bool :=
  match cnt with
  | O => (w, true)
  | S c =>
      match at_ (hp w) (getv w t) i with
      | None => (w, false)
      | Some (h', v', l) =>
          let w1 := seth (setv w t v') h' in
          match g w1 i with
          | None => (w1, false)
          | Some x => at_loop g c (i + 1) (seth w1 (hset h' l x)) t
          end
      end
  end.
Definition vopS (g : world -> Z -> option Z) (w : world) (t : nat) (o : operand) : world * bool :=
  let n := dim (getv w t) in
  if negb (op_dim w o =? n) then (w, false) else at_loop g (Z.to_nat n) 0 w t.

(* VdivV: c1 := a.ConstAt(i); c2 := b.ConstAt(i)
          if c1 != 0 || c2 == 0 { r.At(i).Div(c1, c2) }
          else if r.ConstAt(i) != 0 { r.At(i).Reset() } *)
Fixpoint divv_loop (y : ty) (cnt : nat) (i : Z) (w : world) (t : nat) (o2 o3 : operand) : world * bool :=
  match cnt with
  | O => (w, true)
  | S c =>
      let c1 := ord w o2 i in
      let c2 := ord w o3 i in
      if negb (c1 =? 0) || (c2 =? 0) then
        match at_ (hp w) (getv w t) i with
        | None => (w, false)
        | Some (h', v', l) =>
            let w1 := seth (setv w t v') h' in
            match sdiv y c1 c2 with
            | None => (w1, false)
            | Some x => divv_loop y c (i + 1) (seth w1 (hset h' l x)) t o2 o3
            end
        end
      else if negb (peek (hp w) (getv w t) i =? 0) then
        match at_ (hp w) (getv w t) i with
        | None => (w, false)
        | Some (h', v', l) => divv_loop y c (i + 1) (seth (setv w t v') (hset h' l 0)) t o2 o3
        end
      else divv_loop y c (i + 1) w t o2 o3
  end.
Definition vdivv (y : ty) (w : world) (t : nat) (o2 o3 : operand) : world * bool :=
  let n := dim (getv w t) in
  if negb (op_dim w o2 =? n) || negb (op_dim w o3 =? n) then (w, false)
  else divv_loop y (Z.to_nat n) 0 w t o2 o3.
(* VdivS: b == 0 -> index loop over all positions, else the joint loop *)
Definition vdivs (y : ty) (w : world) (t : nat) (o : operand) (s : Z) : option (world * bool) :=
  if s =? 0 then Some (vopS (fun w1 i => sdiv y (ord w1 o i) 0) w t o)
  else vop2 (fun x => Z.quot x s) w t o.

(* ----------------------------------------------------------- dense receiver *)
(* for i := 0; i < n; i++ { r.AT(i).<op>(a.ConstAt(i), b.ConstAt(i)) }: the
   operands are read in the CURRENT world (r may be one of them) *)
Fixpoint dloop (g : w3 -> Z -> option Z) (cnt : nat) (i : Z) (w : w3) (k : nat) : w3 * bool :=
  match cnt with
  | O => (w, true)
  | S c =>
      match g w i with
      | None => (w, false)
      | Some x => dloop g c (i + 1) (setd w k (upd (Z.to_nat i) x (getd w k))) k
      end
  end.
Definition dop (g : w3 -> Z -> option Z) (w : w3) (k : nat) (xs : list vref) : w3 * bool :=
  let n := zlen (getd w k) in
  if forallb (fun x => vdim w x =? n) xs then dloop g (Z.to_nat n) 0 w k else (w, false).
Definition dequals (e2 : Z) (w : w3) (k : nat) (x : vref) : option bool :=
  let n := zlen (getd w k) in
  if vdim w x =? n then
    Some (forallb (fun i => close e2 (rd w (RD k) i) (rd w x i)) (zseq 0 (Z.to_nat n)))
  else None.

(* -------------------------------------------------------------- conversions *)
Definition fill (n : Z) (s : list (Z * Z)) : list Z :=
  fold_left (fun l kv => upd (Z.to_nat (fst kv)) (snd kv) l) s (repeat 0 (Z.to_nat n)).
(* AsDense<T>Vector(sparse): the template types walk the ConstIterator (skip()
   removes the null entries of the SOURCE); the Real types read ConstAt(i) *)
Definition as_dense (y : ty) (w : world) (u : nat) : option (world * list Z) :=
  match y with
  | TReal => Some (w, abs_vec (hp w) (getv w u))
  | _ =>
      match iterate (hp w) (getv w u) with
      | None => None
      | Some (v', s) =>
          Some (setv w u v', fill (dim (getv w u)) (map (fun kl => (fst kl, hget (hp w) (snd kl))) s))
      end
  end.
(* AsSparse<T>Vector(dense): r.AT(i).Set(x_i) for EVERY position (zeros are stored) *)
Definition as_sparse (h : heap) (d : list Z) : heap * svec := append_fresh h 0 d (nil_vec (zlen d)).

(* --------------------------------------------------------------- operations *)
Inductive bop := Add | Sub | Mul.
Definition bop_f (o : bop) : Z -> Z -> Z :=
  match o with Add => Z.add | Sub => Z.sub | Mul => Z.mul end.
Inductive op3 :=
  | NewS (ks xs : list Z) (n : Z)        (* NewSparse<T>Vector(indices, values, n) *)
  | NewD (xs : list Z)                   (* NewDense<T>Vector(values) *)
  | AsDense (x : vref)
  | AsSparse (x : vref)
  | SetAt (x : vref) (i v : Z)           (* x.At(i).SetFloat64(v) *)
  | VSet (r x : vref)                    (* r.Set(x) *)
  | VEquals (a b : vref) (e2 : Z)        (* a.Equals(b, e2/2) *)
  | VopV (o : bop) (r a b : vref)        (* r.VaddV / VsubV / VmulV (a, b) *)
  | VdivV (r a b : vref)
  | VaddS (r a : vref) (s : Z)
  | VsubS (r a : vref) (s : Z)
  | VmulS (r a : vref) (s : Z)
  | VdivS (r a : vref) (s : Z)
  | VReset (r : vref)
  | VIter (x : vref).                    (* full ConstIterator loop *)

Definition K_NONE : Z := 4.              (* a vector handle that does not exist (never generated) *)
Definition lift (w : w3) (r : option (world * bool)) : w3 * (Z * list Z) :=
  match r with
  | Some (s, ok) => (sets w s, (if ok then K_OK else K_PANIC, []))
  | None => (w, (K_FUEL, []))
  end.
Definition lift2 (w : w3) (r : world * bool) : w3 * (Z * list Z) :=
  let '(s, ok) := r in (sets w s, (if ok then K_OK else K_PANIC, [])).
Definition lift3 (r : w3 * bool) : w3 * (Z * list Z) :=
  let '(w, ok) := r in (w, (if ok then K_OK else K_PANIC, [])).

Definition step3 (y : ty) (w : w3) (o : op3) : w3 * (Z * list Z) :=
  let s := sw w in
  match o with
  | NewS ks xs n =>
      match new_vec (hp s) ks xs n with
      | Some (h', v) => (sets w (addv (seth s h') v), (K_OK, []))
      | None => (w, (K_PANIC, []))
      end
  | NewD xs => (addd w xs, (K_OK, []))
  | AsDense (RD k) => (addd w (getd w k), (K_OK, []))
  | AsDense (RS u) =>
      match as_dense y s u with
      | Some (s', d) => (addd (sets w s') d, (K_OK, []))
      | None => (w, (K_FUEL, []))
      end
  | AsSparse (RS u) =>
      let '(h1, r) := clone (hp s) (getv s u) in (sets w (addv (seth s h1) r), (K_OK, []))
  | AsSparse (RD k) =>
      let '(h1, r) := as_sparse (hp s) (getd w k) in (sets w (addv (seth s h1) r), (K_OK, []))
  | SetAt (RS u) i v =>
      match at_ (hp s) (getv s u) i with
      | Some (h', v', l) => (sets w (seth (setv s u v') (hset h' l v)), (K_OK, []))
      | None => (w, (K_PANIC, []))
      end
  | SetAt (RD k) i v =>
      if (0 <=? i) && (i <? zlen (getd w k)) then (setd w k (upd (Z.to_nat i) v (getd w k)), (K_OK, []))
      else (w, (K_PANIC, []))
  | VSet (RS t) x => lift w (vset s t (to_op w x))
  | VSet (RD k) x => lift3 (dop (fun w' i => Some (rd w' x i)) w k [x])
  | VEquals (RS t) b e2 =>
      match vequals e2 s t (to_op w b) with
      | Some (s', Some r) => (sets w s', (K_OK, [b2z r]))
      | Some (s', None) => (sets w s', (K_PANIC, []))
      | None => (w, (K_FUEL, []))
      end
  | VEquals (RD k) b e2 =>
      match dequals e2 w k b with
      | Some r => (w, (K_OK, [b2z r]))
      | None => (w, (K_PANIC, []))
      end
  | VopV f (RS t) a b => lift w (vop3 (bop_f f) s t (to_op w a) (to_op w b))
  | VopV f (RD k) a b => lift3 (dop (fun w' i => Some (bop_f f (rd w' a i) (rd w' b i))) w k [a; b])
  | VdivV (RS t) a b => lift2 w (vdivv y s t (to_op w a) (to_op w b))
  | VdivV (RD k) a b => lift3 (dop (fun w' i => sdiv y (rd w' a i) (rd w' b i)) w k [a; b])
  | VaddS (RS t) a c => lift2 w (vopS (fun w1 i => Some (ord w1 (to_op w a) i + c)) s t (to_op w a))
  | VaddS (RD k) a c => lift3 (dop (fun w' i => Some (rd w' a i + c)) w k [a])
  | VsubS (RS t) a c => lift2 w (vopS (fun w1 i => Some (ord w1 (to_op w a) i - c)) s t (to_op w a))
  | VsubS (RD k) a c => lift3 (dop (fun w' i => Some (rd w' a i - c)) w k [a])
  | VmulS (RS t) a c => lift w (vop2 (fun x => x * c) s t (to_op w a))
  | VmulS (RD k) a c => lift3 (dop (fun w' i => Some (rd w' a i * c)) w k [a])
  | VdivS (RS t) a c => lift w (vdivs y s t (to_op w a) c)
  | VdivS (RD k) a c => lift3 (dop (fun w' i => sdiv y (rd w' a i) c) w k [a])
  | VReset (RS t) => (sets w (seth s (reset (hp s) (getv s t))), (K_OK, []))
  | VReset (RD k) => (setd w k (map (fun _ => 0) (getd w k)), (K_OK, []))
  | VIter (RS t) =>
      match iterate (hp s) (getv s t) with
      | Some (v', q) => (sets w (setv s t v'), (K_OK, seq_vals (hp s) q))
      | None => (w, (K_FUEL, []))
      end
  | VIter (RD k) =>
      (w, (K_OK, flat_map (fun i => [i; rd w (RD k) i]) (zseq 0 (length (getd w k)))))
  end.

Definition run3 (y : ty) (w : w3) (ops : list op3) : w3 := fold_left (fun w o => fst (step3 y w o)) ops w.

(* ------------------------------------------------------------ observation *)
(* sparse vectors: C11's observation (Dim, ConstAt of every index, private map,
   AVL index keys, ConstIterator sequence of a clone); dense vectors: length
   and every element *)
Definition obs_dense (d : list Z) : list Z := [zlen d; SEP] ++ d ++ [SEP].
Definition obs3 (w : w3) : list Z :=
  obs_world (sw w) ++ [SEP; SEP] ++ flat_map obs_dense (dn w).
