(* C03 (round 6) — executable model of the READ-ONLY sparse vectors
     /repo/vector_sparse_const_template.in  (SparseConst<T>Vector, 7 element types)
   and of their consumers with a dense receiver
     /repo/vector_dense_template_math.in, vector_dense_template.in (Set, AsDense<T>Vector),
     scalar_*_math.go VdotV.

   A SparseConst<T>Vector is a Go struct VALUE {values []T; indices []int;
   idxmap map[int]int; n int}: the two slices are never written after
   construction, the map is the lazily built random-access cache
   (CreateIndex: filled on the first <T>At/ConstAt call when it is empty) and
   is shared by all copies of the struct, so an object is identified with its
   map.  Model: the parallel slices as ONE list of (index, value) pairs (the
   invariant len(indices) = len(values) holds for everything the safe
   constructor builds; the unsafe constructor with different lengths is
   outside: K_NONE), the map as the list of its insertions, newest first
   (lookup = first match = the last value stored under the key; len = 0 iff
   the list is empty).

   Dense vectors are Go slices: a handle (buffer, offset, length) on a store of
   buffers, so that v.ConstSlice(i, j) = v[i:j] is a VIEW sharing its parent's
   elements.

   Carrier Z (see Model.v); the element type of the receiver matters for the
   division and for the way AsDense<T>Vector reads its source.
   No proofs in this file. *)
From Coq Require Import ZArith List Bool Lia.
From ADV Require Import C11.Model C03.Model.
Import ListNotations.
Open Scope Z_scope.

(* ------------------------------------------------------------ const object *)
Record cvec := { ce : list (Z * Z); cm : list (Z * nat); cn : Z }.
Definition nil_cvec (n : Z) : cvec := {| ce := []; cm := []; cn := n |}.
Definition with_map (v : cvec) (m : list (Z * nat)) : cvec := {| ce := ce v; cm := m; cn := cn v |}.

(* the Go map *)
Fixpoint mget (k : Z) (m : list (Z * nat)) : option nat :=
  match m with
  | [] => None
  | (k', p) :: r => if k' =? k then Some p else mget k r
  end.
(* CreateIndex: if len(idxmap) == 0 { for i, k := range indices { idxmap[k] = i } } *)
Fixpoint index_from (p : nat) (e : list (Z * Z)) (m : list (Z * nat)) : list (Z * nat) :=
  match e with
  | [] => m
  | (k, _) :: r => index_from (S p) r ((k, p) :: m)
  end.
Definition create_index (v : cvec) : cvec :=
  match cm v with
  | [] => with_map v (index_from 0 (ce v) [])
  | _ => v
  end.
(* <T>At(i) / ConstAt(i): no bounds check; the cache is built first when empty *)
Definition cat (v : cvec) (i : Z) : cvec * Z :=
  let v' := create_index v in
  (v', match mget i (cm v') with
       | Some p => snd (nth p (ce v') (0, 0))
       | None => 0
       end).

(* sort.SearchInts(indices, x): the binary search of package sort, literally
     i, j := 0, n; for i < j { h := (i+j)/2; if !(a[h] >= x) { i = h+1 } else { j = h } }; return i *)
Fixpoint bsearch (fuel : nat) (a : list Z) (x : Z) (i j : nat) : nat :=
  match fuel with
  | O => i
  | S f =>
      if Nat.ltb i j then
        let h := Nat.div2 (i + j)%nat in
        if nth h a 0 <? x then bsearch f a x (S h) j else bsearch f a x i h
      else i
  end.
Definition search_ints (a : list Z) (x : Z) : nat := bsearch (S (length a)) a x 0 (length a).
Definition keys (e : list (Z * Z)) : list Z := map fst e.
Definition sub {X} (k1 k2 : nat) (l : list X) : list X := firstn (k2 - k1)%nat (skipn k1 l).

(* ConstSlice(i, j): None = the slice expression values[k1:k2] (k1 > k2) or
   make([]int, k2-k1) panicked *)
Definition cslice (v : cvec) (i j : Z) : option cvec :=
  if i =? 0 then
    let k2 := search_ints (keys (ce v)) j in
    Some {| ce := firstn k2 (ce v); cm := []; cn := j |}
  else
    let k1 := search_ints (keys (ce v)) i in
    let k2 := search_ints (keys (ce v)) j in
    if Nat.ltb k2 k1 then None
    else Some {| ce := map (fun kx => (fst kx - i, snd kx)) (sub k1 k2 (ce v)); cm := []; cn := j - i |}.
(* Clone(): same slices, fresh map *)
Definition cclone (v : cvec) : cvec := with_map v [].

(* NewSparseConst<T>Vector(indices, values, n): sort.Sort by index (stable
   insertion sort here: the result is determined for distinct indices, which is
   all the harness generates), then the filtering loop; None = panic *)
Fixpoint ins_pair (kx : Z * Z) (l : list (Z * Z)) : list (Z * Z) :=
  match l with
  | [] => [kx]
  | y :: r => if fst kx <? fst y then kx :: y :: r else y :: ins_pair kx r
  end.
Definition sort_pairs (l : list (Z * Z)) : list (Z * Z) := fold_left (fun acc kx => ins_pair kx acc) l [].
Fixpoint new_filter (n : Z) (l : list (Z * Z)) (acc : list (Z * Z)) : option (list (Z * Z)) :=
  match l with
  | [] => Some (rev acc)
  | (k, x) :: r =>
      if n <=? k then None
      else new_filter n r (if x =? 0 then acc else (k, x) :: acc)
  end.
Definition cnew (ks xs : list Z) (n : Z) : option cvec :=
  if negb (Nat.eqb (length ks) (length xs)) then None
  else match new_filter n (sort_pairs (combine ks xs)) [] with
       | Some e => Some {| ce := e; cm := []; cn := n |}
       | None => None
       end.
(* UnsafeSparseConst<T>Vector: the slices are taken as they are *)
Definition cunsafe (ks xs : list Z) (n : Z) : option cvec :=
  if Nat.eqb (length ks) (length xs) then Some {| ce := combine ks xs; cm := []; cn := n |} else None.

(* plain iterator: position i into the slices.  ITERATOR_FROM(i): the position of
   the first index >= i, len(indices) (exhausted) when there is none (HEAD 1e92a33) *)
Fixpoint first_ge_pos (p : nat) (i : Z) (e : list (Z * Z)) : nat :=
  match e with
  | [] => p
  | (k, _) :: r => if i <=? k then p else first_ge_pos (S p) i r
  end.
Definition citer (v : cvec) : list (Z * Z) := ce v.
Definition citer_from (v : cvec) (i : Z) : list (Z * Z) := skipn (first_ge_pos 0 i (ce v)) (ce v).

(* joint iterator of a const vector with any ConstVector: both plain iterators
   are sequences of (index, value); a visit is (index, s1, s2) *)
Record cjoint := { q1 : list (Z * Z); q2 : list (Z * Z); qidx : Z; qs1 : Z; qs2 : Z; qok : bool }.
Definition cjoint_next (j : cjoint) : cjoint :=
  let ok1 := match q1 j with [] => false | _ => true end in
  let ok2 := match q2 j with [] => false | _ => true end in
  let '(idx, s1) := match q1 j with (k, x) :: _ => (k, x) | [] => (qidx j, 0) end in
  let '(idx, s1, s2, ok1, ok2) :=
    match q2 j with
    | (k2, x2) :: _ =>
        if (k2 <? idx) || negb ok1 then (k2, 0, x2, false, true)
        else if idx =? k2 then (idx, s1, x2, ok1, true)
        else (idx, s1, 0, ok1, false)
    | [] => (idx, s1, 0, ok1, false)
    end in
  {| q1 := if ok1 then tl (q1 j) else q1 j; q2 := if ok2 then tl (q2 j) else q2 j;
     qidx := idx; qs1 := s1; qs2 := s2; qok := ok1 || ok2 |}.
Definition cjoint_begin (l1 l2 : list (Z * Z)) : cjoint :=
  cjoint_next {| q1 := l1; q2 := l2; qidx := -1; qs1 := 0; qs2 := 0; qok := false |}.
Fixpoint cjoint_loop (fuel : nat) (j : cjoint) : option (list (Z * Z * Z)) :=
  if qok j then
    match fuel with
    | O => None
    | S f => match cjoint_loop f (cjoint_next j) with
             | Some r => Some ((qidx j, qs1 j, qs2 j) :: r)
             | None => None
             end
    end
  else Some [].
Definition cjoint_run (l1 l2 : list (Z * Z)) : option (list (Z * Z * Z)) :=
  cjoint_loop (S (length l1 + length l2)%nat) (cjoint_begin l1 l2).
(* Equals(b, epsilon): false at the first visit whose values differ *)
Fixpoint ceq_loop (e2 : Z) (fuel : nat) (j : cjoint) : option bool :=
  if qok j then
    match fuel with
    | O => None
    | S f => if close e2 (qs1 j) (qs2 j) then ceq_loop e2 f (cjoint_next j) else Some false
    end
  else Some true.

(* ------------------------------------------------------------------ world *)
Record dh := { db : nat; doff : nat; dlen : nat }.
Record wc := { co : list cvec; bufs : list (list Z); dv : list dh }.
Definition initc : wc := {| co := []; bufs := []; dv := [] |}.
Inductive cref := XC (h : nat) | XD (k : nat).
Definition getc (w : wc) (h : nat) : cvec := nth h (co w) (nil_cvec 0).
Definition setc (w : wc) (h : nat) (v : cvec) : wc := {| co := upd h v (co w); bufs := bufs w; dv := dv w |}.
Definition addc (w : wc) (v : cvec) : wc := {| co := co w ++ [v]; bufs := bufs w; dv := dv w |}.
Definition geth (w : wc) (k : nat) : dh := nth k (dv w) {| db := 0; doff := 0; dlen := 0 |}.
Definition getb (w : wc) (b : nat) : list Z := nth b (bufs w) [].
Definition dget (w : wc) (k : nat) (i : Z) : Z :=
  let d := geth w k in nth (doff d + Z.to_nat i)%nat (getb w (db d)) 0.
Definition dset (w : wc) (k : nat) (i : Z) (x : Z) : wc :=
  let d := geth w k in
  {| co := co w; bufs := upd (db d) (upd (doff d + Z.to_nat i)%nat x (getb w (db d))) (bufs w); dv := dv w |}.
Definition dvals (w : wc) (k : nat) : list Z :=
  let d := geth w k in firstn (dlen d) (skipn (doff d) (getb w (db d))).
Definition addd_c (w : wc) (l : list Z) : wc :=
  {| co := co w; bufs := bufs w ++ [l];
     dv := dv w ++ [{| db := length (bufs w); doff := 0; dlen := length l |}] |}.
Definition xdim (w : wc) (x : cref) : Z :=
  match x with XC h => cn (getc w h) | XD k => Z.of_nat (dlen (geth w k)) end.
Definition has (w : wc) (x : cref) : bool :=
  match x with XC h => Nat.ltb h (length (co w)) | XD k => Nat.ltb k (length (dv w)) end.
(* x.ConstAt(i), i in range for a dense x: the read of a const vector may build its cache *)
Definition rdc (w : wc) (x : cref) (i : Z) : wc * Z :=
  match x with
  | XC h => let '(v', r) := cat (getc w h) i in (setc w h v', r)
  | XD k => (w, dget w k i)
  end.
(* x.ConstIterator() as a sequence: a dense vector delivers EVERY position *)
Definition xseq (w : wc) (x : cref) : list (Z * Z) :=
  match x with
  | XC h => citer (getc w h)
  | XD k => combine (zseq 0 (dlen (geth w k))) (dvals w k)
  end.

(* for i := 0; i < n; i++ { r.AT(i).<op>(a.ConstAt(i), b.ConstAt(i)) }: operands are
   read in the CURRENT world (a view of the receiver may be among them) *)
Fixpoint cdloop (g : wc -> Z -> wc * option Z) (cnt : nat) (i : Z) (w : wc) (k : nat) : wc * bool :=
  match cnt with
  | O => (w, true)
  | S c =>
      match g w i with
      | (w1, None) => (w1, false)
      | (w1, Some x) => cdloop g c (i + 1) (dset w1 k i x) k
      end
  end.
Definition cdop (g : wc -> Z -> wc * option Z) (w : wc) (k : nat) (xs : list cref) : wc * bool :=
  let n := Z.of_nat (dlen (geth w k)) in
  if forallb (fun x => xdim w x =? n) xs then cdloop g (dlen (geth w k)) 0 w k else (w, false).
Definition g2 (f : Z -> Z -> option Z) (a b : cref) (w : wc) (i : Z) : wc * option Z :=
  let '(w1, x) := rdc w a i in let '(w2, y) := rdc w1 b i in (w2, f x y).
Definition g1 (f : Z -> option Z) (a : cref) (w : wc) (i : Z) : wc * option Z :=
  let '(w1, x) := rdc w a i in (w1, f x).
(* dense Equals: returns at the first difference *)
Fixpoint cdeq_loop (e2 : Z) (cnt : nat) (i : Z) (w : wc) (k : nat) (x : cref) : wc * bool :=
  match cnt with
  | O => (w, true)
  | S c =>
      let '(w1, y) := rdc w x i in
      if close e2 (dget w k i) y then cdeq_loop e2 c (i + 1) w1 k x else (w1, false)
  end.
(* r.VdotV(a, b): t.Mul(a.ConstAt(i), b.ConstAt(i)); r.Add(r, t) *)
Fixpoint cdot_loop (cnt : nat) (i : Z) (w : wc) (a b : cref) (acc : Z) : wc * Z :=
  match cnt with
  | O => (w, acc)
  | S c =>
      let '(w1, x) := rdc w a i in
      let '(w2, y) := rdc w1 b i in
      cdot_loop c (i + 1) w2 a b (acc + x * y)
  end.
(* values := make([]T, n); for it ... { values[it.Index()] = it.GetConst() }: None = index out of range *)
Fixpoint cfill (s : list (Z * Z)) (l : list Z) : option (list Z) :=
  match s with
  | [] => Some l
  | (k, x) :: r =>
      if (0 <=? k) && (k <? Z.of_nat (length l)) then cfill r (upd (Z.to_nat k) x l) else None
  end.
Fixpoint cat_all (cnt : nat) (i : Z) (v : cvec) (acc : list Z) : cvec * list Z :=
  match cnt with
  | O => (v, rev acc)
  | S c => let '(v', x) := cat v i in cat_all c (i + 1) v' (x :: acc)
  end.

(* --------------------------------------------------------------- operations *)
Inductive opc :=
  | CNew (ks xs : list Z) (n : Z)
  | CUnsafe (ks xs : list Z) (n : Z)
  | CNewD (xs : list Z)
  | CSlice (h : nat) (i j : Z)           (* const.ConstSlice(i, j): a new const object *)
  | DSlice (k : nat) (i j : Z)           (* dense.ConstSlice(i, j) = v[i:j]: a view *)
  | CClone (h : nat)
  | CAt (h : nat) (i : Z)                (* Float64At(i) *)
  | CIter (h : nat)                      (* full ConstIterator loop *)
  | CIterFrom (h : nat) (i : Z)          (* full ConstIteratorFrom(i) loop *)
  | CJoint (h : nat) (x : cref)          (* full ConstJointIterator(x) loop *)
  | CEquals (h : nat) (x : cref) (e2 : Z)
  | CAsDense (x : cref)                  (* AsDense<T>Vector(x), T the case's receiver type *)
  | CAsConst (k : nat)                   (* AsSparseConst<T>Vector(dense k) *)
  | DSetAt (k : nat) (i v : Z)
  | DSet (k : nat) (x : cref)
  | DEquals (k : nat) (x : cref) (e2 : Z)
  | DopV (o : bop) (k : nat) (a b : cref)
  | DdivV (k : nat) (a b : cref)
  | DaddS (k : nat) (a : cref) (s : Z)
  | DsubS (k : nat) (a : cref) (s : Z)
  | DmulS (k : nat) (a : cref) (s : Z)
  | DdivS (k : nat) (a : cref) (s : Z)
  | DdotV (a b : cref).                  (* NullScalar(T).VdotV(a, b) *)

Definition flat3 (l : list (Z * Z * Z)) : list Z :=
  flat_map (fun p => [fst (fst p); snd (fst p); snd p]) l.
Definition liftc (r : wc * bool) : wc * (Z * list Z) :=
  let '(w, ok) := r in (w, (if ok then K_OK else K_PANIC, [])).
Definition all_has (w : wc) (xs : list cref) : bool := forallb (has w) xs.

Definition stepc (y : ty) (w : wc) (o : opc) : wc * (Z * list Z) :=
  match o with
  | CNew ks xs n =>
      match cnew ks xs n with
      | Some v => (addc w v, (K_OK, []))
      | None => (w, (K_PANIC, []))
      end
  | CUnsafe ks xs n =>
      match cunsafe ks xs n with
      | Some v => (addc w v, (K_OK, []))
      | None => (w, (K_NONE, []))
      end
  | CNewD xs => (addd_c w xs, (K_OK, []))
  | CSlice h i j =>
      if negb (has w (XC h)) then (w, (K_NONE, [])) else
      match cslice (getc w h) i j with
      | Some v => (addc w v, (K_OK, []))
      | None => (w, (K_PANIC, []))
      end
  | DSlice k i j =>
      if negb (has w (XD k)) then (w, (K_NONE, [])) else
      let d := geth w k in
      if (0 <=? i) && (i <=? j) && (j <=? Z.of_nat (length (getb w (db d)) - doff d)%nat) then
        ({| co := co w; bufs := bufs w;
            dv := dv w ++ [{| db := db d; doff := (doff d + Z.to_nat i)%nat; dlen := Z.to_nat (j - i) |}] |},
         (K_OK, []))
      else (w, (K_PANIC, []))
  | CClone h =>
      if negb (has w (XC h)) then (w, (K_NONE, [])) else (addc w (cclone (getc w h)), (K_OK, []))
  | CAt h i =>
      if negb (has w (XC h)) then (w, (K_NONE, [])) else
      let '(w1, x) := rdc w (XC h) i in (w1, (K_OK, [x]))
  | CIter h =>
      if negb (has w (XC h)) then (w, (K_NONE, [])) else (w, (K_OK, flat2 (citer (getc w h))))
  | CIterFrom h i =>
      if negb (has w (XC h)) then (w, (K_NONE, [])) else (w, (K_OK, flat2 (citer_from (getc w h) i)))
  | CJoint h x =>
      if negb (all_has w [XC h; x]) then (w, (K_NONE, [])) else
      match cjoint_run (citer (getc w h)) (xseq w x) with
      | Some r => (w, (K_OK, flat3 r))
      | None => (w, (K_FUEL, []))
      end
  | CEquals h x e2 =>
      if negb (all_has w [XC h; x]) then (w, (K_NONE, [])) else
      if negb (xdim w x =? cn (getc w h)) then (w, (K_PANIC, [])) else
      let l1 := citer (getc w h) in
      let l2 := xseq w x in
      match ceq_loop e2 (S (length l1 + length l2)%nat) (cjoint_begin l1 l2) with
      | Some b => (w, (K_OK, [b2z b]))
      | None => (w, (K_FUEL, []))
      end
  | CAsDense (XD k) =>
      if negb (has w (XD k)) then (w, (K_NONE, [])) else (addd_c w (dvals w k), (K_OK, []))
  | CAsDense (XC h) =>
      if negb (has w (XC h)) then (w, (K_NONE, [])) else
      let v := getc w h in
      if cn v <? 0 then (w, (K_PANIC, [])) else
      match y with
      | TReal =>
          let '(v', l) := cat_all (Z.to_nat (cn v)) 0 v [] in (addd_c (setc w h v') l, (K_OK, []))
      | _ =>
          match cfill (citer v) (repeat 0 (Z.to_nat (cn v))) with
          | Some l => (addd_c w l, (K_OK, []))
          | None => (w, (K_PANIC, []))
          end
      end
  | CAsConst k =>
      if negb (has w (XD k)) then (w, (K_NONE, [])) else
      match cnew (zseq 0 (dlen (geth w k))) (dvals w k) (Z.of_nat (dlen (geth w k))) with
      | Some v => (addc w v, (K_OK, []))
      | None => (w, (K_PANIC, []))
      end
  | DSetAt k i v =>
      if negb (has w (XD k)) then (w, (K_NONE, [])) else
      if (0 <=? i) && (i <? Z.of_nat (dlen (geth w k))) then (dset w k i v, (K_OK, [])) else (w, (K_PANIC, []))
  | DSet k x =>
      if negb (all_has w [XD k; x]) then (w, (K_NONE, [])) else
      liftc (cdop (g1 (fun v => Some v) x) w k [x])
  | DEquals k x e2 =>
      if negb (all_has w [XD k; x]) then (w, (K_NONE, [])) else
      if negb (xdim w x =? Z.of_nat (dlen (geth w k))) then (w, (K_PANIC, [])) else
      let '(w1, b) := cdeq_loop e2 (dlen (geth w k)) 0 w k x in (w1, (K_OK, [b2z b]))
  | DopV f k a b =>
      if negb (all_has w [XD k; a; b]) then (w, (K_NONE, [])) else
      liftc (cdop (g2 (fun u v => Some (bop_f f u v)) a b) w k [a; b])
  | DdivV k a b =>
      if negb (all_has w [XD k; a; b]) then (w, (K_NONE, [])) else
      liftc (cdop (g2 (sdiv y) a b) w k [a; b])
  | DaddS k a s =>
      if negb (all_has w [XD k; a]) then (w, (K_NONE, [])) else
      liftc (cdop (g1 (fun v => Some (v + s)) a) w k [a])
  | DsubS k a s =>
      if negb (all_has w [XD k; a]) then (w, (K_NONE, [])) else
      liftc (cdop (g1 (fun v => Some (v - s)) a) w k [a])
  | DmulS k a s =>
      if negb (all_has w [XD k; a]) then (w, (K_NONE, [])) else
      liftc (cdop (g1 (fun v => Some (v * s)) a) w k [a])
  | DdivS k a s =>
      if negb (all_has w [XD k; a]) then (w, (K_NONE, [])) else
      liftc (cdop (g1 (fun v => sdiv y v s) a) w k [a])
  | DdotV a b =>
      if negb (all_has w [a; b]) then (w, (K_NONE, [])) else
      if negb (xdim w a =? xdim w b) then (w, (K_PANIC, [])) else
      let '(w1, s) := cdot_loop (Z.to_nat (xdim w a)) 0 w a b 0 in (w1, (K_OK, [s]))
  end.

Definition runc (y : ty) (w : wc) (ops : list opc) : wc := fold_left (fun w o => fst (stepc y w o)) ops w.

(* ------------------------------------------------------------ observation *)
(* a const object: n, the two slices, the cache sorted by key (hook
   VerifC03ConstDump, read-only) and Float64At of every index of a Clone() (a
   fresh cache: reading through it must not disturb the observed object) *)
Fixpoint ins_kp (kp : Z * Z) (l : list (Z * Z)) : list (Z * Z) :=
  match l with
  | [] => [kp]
  | x :: r => if fst kp <? fst x then kp :: x :: r
              else if fst kp =? fst x then x :: r
              else x :: ins_kp kp r
  end.
(* [cm] holds the insertions newest first: replay them oldest first, a newer
   binding of a key replaces the older one *)
Definition map_dump_c (m : list (Z * nat)) : list (Z * Z) :=
  fold_left (fun acc kp => ins_kp (fst kp, Z.of_nat (snd kp))
                                  (filter (fun q => negb (fst q =? fst kp)) acc)) (rev m) [].
Definition obs_cvec (v : cvec) : list Z :=
  [cn v; SEP] ++ flat2 (ce v) ++ [SEP] ++
  flat2 (map_dump_c (cm v)) ++
  [SEP] ++ snd (cat_all (Z.to_nat (cn v)) 0 (cclone v) []) ++ [SEP].
Definition obs_dh (w : wc) (k : nat) : list Z :=
  let d := geth w k in [Z.of_nat (dlen d); SEP] ++ dvals w k ++ [SEP].
Definition obsc (w : wc) : list Z :=
  flat_map obs_cvec (co w) ++ [SEP; SEP] ++ flat_map (obs_dh w) (seq 0 (length (dv w))).
