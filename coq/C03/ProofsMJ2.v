(* C03 — the TWO-way matrix joint iterator (ModelM.mj2: JOINT_ITERATOR / the public
   JointIterator, written out after Go) is the three-way iterator with an empty
   third operand — the form in which MmulS / MdivS / Equals run it in step4 and in
   which ProofsMJ proves the walk — and the visit sequence of the public iterator:
   strictly increasing positions, exactly the elements of both matrices there,
   nothing non-zero skipped, whatever the storage of the operand (zeros inside a
   dense operand, explicitly stored zeros in sparse ones). *)
From Coq Require Import ZArith List Bool Lia.
From ADV Require Import C11.Model C11.Spec C11.ProofsMap C11.ProofsIter C11.ProofsInv C11.ProofsRef
                        C03.Model C03.Spec C03.ProofsDense C03.ProofsSem C03.ProofsJoint
                        C03.ModelM C03.ProofsM C03.SpecM C03.ProofsMBase C03.ProofsMIter C03.ProofsMJ.
Import ListNotations.
Open Scope Z_scope.

Definition emb (j : mj2) : mj3 :=
  {| m1 := n1 j; m2 := n2 j; m3 := MD [] 0; midx := nidx j; ms1 := ns1 j; ms2 := ns2 j; ms3 := None |}.

Lemma mj2_ok_emb w j : mj3_ok w (emb j) = mj2_ok j.
Proof. unfold mj3_ok, mj2_ok, emb. cbn [ms1 ms2 ms3]. apply orb_false_r. Qed.

Lemma mj2_next_emb w t j :
  mj3_next w t (emb j) =
  match mj2_next w t j with Some (w', j') => Some (w', emb j') | None => None end.
Proof.
  unfold mj3_next, mj2_next, emb. cbn [m1 m2 m3 midx ms1 ms2 ms3].
  change (mi_ok (MD [] 0)) with false. cbv iota.
  destruct (n1 j) as [k|]; destruct (mi_ok (n2 j)); cbn [negb orb andb];
    repeat match goal with
           | |- context [if ?x then _ else _] => destruct x eqn:?
           end;
    repeat match goal with
           | |- context [match ?x with Some _ => _ | None => _ end] => destruct x as [[? ?]|] eqn:?
           end; try reflexivity.
Qed.

Lemma mj2_begin_emb w t o2 :
  mj3_begin w t o2 (OD []) =
  match mj2_begin w t o2 with Some (w', j') => Some (w', emb j') | None => None end.
Proof.
  unfold mj3_begin, mj2_begin.
  destruct (it_begin (hp w) (getv w t)) as [[v' c1]|]; [|reflexivity].
  destruct (mi_begin (setv w t v') o2) as [[w1 c2]|]; [|reflexivity].
  cbn [mi_begin]. change (nzfrom [] 0) with 0.
  exact (mj2_next_emb w1 t {| n1 := c1; n2 := c2; nidx := -1; ns1 := None; ns2 := None |}).
Qed.

(* ---- what a walk of the public JointIterator delivers ------------------------------
   [R], [A]: the elements of the receiver and of the operand by linear position.  The
   flattened visit list (position, s1 != nil, value of s1, value of s2) starts at or
   after [p], is strictly increasing, delivers the elements, and every position it
   leaves out is zero in both matrices. *)
Inductive visits_ok (R A : Z -> Z) (n : Z) : Z -> list Z -> Prop :=
| vo_nil p : (forall i, p <= i -> R i = 0 /\ A i = 0) -> visits_ok R A n p []
| vo_cons p k h v1 v2 rest :
    p <= k < n -> (forall i, p <= i < k -> R i = 0 /\ A i = 0) -> v2 = A k ->
    ((h = 1 /\ v1 = R k) \/ (h = 0 /\ v1 = 0 /\ R k = 0)) ->
    visits_ok R A n (k + 1) rest -> visits_ok R A n p (k :: h :: v1 :: v2 :: rest).

Lemma visits_ok_ext R R' A n p l :
  (forall i, R i = R' i) -> visits_ok R A n p l -> visits_ok R' A n p l.
Proof.
  intros E H. induction H as [p Z0|p k h v1 v2 rest Hk Zg V2 V1 _ IH].
  - constructor. intros i Hi. rewrite <- E. auto.
  - constructor; auto.
    + intros i Hi. rewrite <- E. auto.
    + rewrite <- E. exact V1.
Qed.

Section Visits.
Variable t : nat.
Variable n : Z.
Variables A B : Z -> Z.

Lemma mj2_visits_spec : forall fuel w j p acc,
  G t w -> dim (getv w t) = n -> 0 <= p -> MHead t n A B w (emb j) p ->
  (Z.to_nat (n - p) < fuel)%nat ->
  exists w' l, mj2_visits fuel w t j acc = Some (w', acc ++ l) /\ Qw w w' /\ G t w' /\
    visits_ok (fun i => peek (hp w) (getv w t) i) A n p l.
Proof.
  induction fuel as [|fu IH]; intros w j p acc HG Hn Hp HH Hf; [lia|].
  destruct HH as [(K & Z0)|(K & Hi & Zg & VA & VB & HS & HS0 & HJ)].
  - rewrite mj2_ok_emb in K. exists w, []. cbn [mj2_visits]. rewrite K, app_nil_r.
    split; [reflexivity|]. split; [apply Qw_refl|]. split; [exact HG|].
    constructor. intros i Hi. destruct (Z0 i Hi) as (X & Y & _). auto.
  - rewrite mj2_ok_emb in K. cbn [mj2_visits]. rewrite K.
    change (midx (emb j)) with (nidx j) in *. change (ms1 (emb j)) with (ns1 j) in *.
    change (ms2 (emb j)) with (ns2 j) in *.
    destruct (mnext_Head t n A B w (emb j) (nidx j + 1) HJ) as (w2 & j' & E2 & Q2 & G2 & H2).
    rewrite mj2_next_emb in E2.
    destruct (mj2_next w t j) as [[w2' j2]|] eqn:EN; [|discriminate].
    injection E2 as -> <-.
    set (r := [nidx j; match ns1 j with Some _ => 1 | None => 0 end;
               match ns1 j with Some l => hget (hp w) l | None => 0 end; jval (ns2 j)]).
    destruct (IH w2 j2 (nidx j + 1) (acc ++ r)) as (w' & l' & E3 & Q3 & G3 & V3); auto.
    + rewrite (Qw_dim w w2 t Q2). auto.
    + lia.
    + lia.
    + exists w', (r ++ l'). rewrite app_assoc. split; [exact E3|].
      split; [eapply Qw_trans; eauto|]. split; [exact G3|].
      unfold r. cbn [app]. constructor.
      * exact Hi.
      * intros i Hi'. destruct (Zg i Hi') as (X & Y & _). auto.
      * exact VA.
      * destruct (ns1 j) as [l|] eqn:E1.
        -- left. split; [reflexivity|]. unfold peek. rewrite (HS l eq_refl). reflexivity.
        -- right. split; [reflexivity|]. split; [reflexivity|]. apply HS0. reflexivity.
      * eapply visits_ok_ext; [|exact V3]. intro i. cbv beta. apply Qw_peek. exact Q2.
Qed.
End Visits.

(* the public JointIterator of a sparse matrix with values vector [t], walked to its end *)
Theorem joint_visits_correct t w o2 :
  G t w -> operand_wk w t o2 ->
  exists w1 j w' l, mj2_begin w t o2 = Some (w1, j) /\
    mj2_visits (lfuel w t) w1 t j [] = Some (w', l) /\ Qw w w' /\ G t w' /\
    visits_ok (fun i => peek (hp w) (getv w t) i) (ord w o2) (dim (getv w t)) 0 l.
Proof.
  intros HG H2.
  assert (H3 : operand_wk w t (OD [])) by (apply wk_nil; exact HG).
  destruct (mj3_begin_Head t w o2 (OD []) HG H2 H3) as (w1 & j3 & E1 & Q1 & G1 & H1).
  rewrite mj2_begin_emb in E1.
  destruct (mj2_begin w t o2) as [[w1' j]|] eqn:EB; [|discriminate].
  injection E1 as -> <-.
  set (n := dim (getv w t)) in *.
  assert (Hn0 : 0 <= n) by (destruct HG as (GI & _); destruct (GI t) as (_ & _ & _ & _ & X); auto).
  destruct (mj2_visits_spec t n (ord w o2) (ord w (OD [])) (lfuel w t) w1 j 0 [] G1) as
    (w' & l & E2 & Q2 & G2 & V2).
  - rewrite (Qw_dim w w1 t Q1). reflexivity.
  - lia.
  - exact H1.
  - unfold lfuel. fold n. lia.
  - exists w1, j, w', l. split; [reflexivity|]. split; [exact E2|].
    split; [eapply Qw_trans; eauto|]. split; [exact G2|].
    eapply visits_ok_ext; [|exact V2]. intro i. cbv beta. apply Qw_peek. exact Q1.
Qed.
