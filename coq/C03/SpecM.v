(* C03 — abstract specification for MATRICES (round 2).
   A matrix of the world stands for its row-major value list [mabs]; the
   textbook results of the matrix operations on such lists; the state a
   whole (unsliced, untransposed) sparse or dense matrix is in.  PropsM.v
   states that every operation of ModelM.v — dense or sparse receiver, dense or
   sparse operands, whatever the receiver held before — produces the textbook
   list.  Views (Slice / T) are C10's subject and are NOT representable in
   ModelM.v: every matrix here has rowOffset = colOffset = 0, rowMax = rows,
   colMax = cols, transposed = false. *)
From Coq Require Import ZArith List Bool Lia.
From ADV Require Import C11.Model C11.Spec C03.Model C03.Spec C03.ModelM C03.ProofsM.
Import ListNotations.
Open Scope Z_scope.

(* [mabs w x] (ProofsM.v): the row-major values of a matrix of the world,
   map (mrd w x) over 0 .. rows*cols - 1 *)

(* ---- textbook results on row-major lists -------------------------------------- *)
Definition lat (l : list Z) (i : Z) : Z := nth (Z.to_nat i) l 0.
Definition zsum (f : Z -> Z) (m : Z) : Z := fold_left (fun acc q => acc + f q) (zseq 0 (Z.to_nat m)) 0.
(* A is n x m, B is m x p: (A B)[i,j] = sum_q A[i,q] B[q,j] *)
Definition matmul (A B : list Z) (n m p : Z) : list Z :=
  map (fun k => zsum (fun q => lat A ((k / p) * m + q) * lat B (q * p + k mod p)) m) (zseq 0 (Z.to_nat (n * p))).
(* a (length n) outer b (length m) *)
Definition outer (a b : list Z) (n m : Z) : list Z :=
  map (fun k => lat a (k / m) * lat b (k mod m)) (zseq 0 (Z.to_nat (n * m))).
(* A (n x m) times b (length m) *)
Definition matvec (A b : list Z) (n m : Z) : list Z :=
  map (fun i => zsum (fun j => lat A (i * m + j) * lat b j) m) (zseq 0 (Z.to_nat n)).
(* a (length n) times B (n x m) *)
Definition vecmat (a B : list Z) (n m : Z) : list Z :=
  map (fun i => zsum (fun j => lat a j * lat B (j * m + i)) n) (zseq 0 (Z.to_nat m)).
Definition identity (r c : Z) : list Z :=
  map (fun k => if c =? 0 then 0 else if k / c =? k mod c then 1 else 0) (zseq 0 (Z.to_nat (r * c))).

(* ---- well-formed whole matrices -------------------------------------------------- *)
Definition hassm (w : w4) (k : nat) : Prop := (k < length (sms w))%nat.
Definition hasdm (w : w4) (k : nat) : Prop := (k < length (dms w))%nat.
(* the values vector of sparse matrix k *)
Definition mvec (w : w4) (k : nat) : nat := fst (fst (getsm w k)).
(* header consistent with the values vector: rows, cols >= 0, length rows*cols *)
Definition sm_ok (w : w4) (k : nat) : Prop :=
  hassm w k /\
  let '(u, r, c) := getsm w k in
  0 <= r /\ 0 <= c /\ has (sw (b3 w)) u /\ dim (getv (sw (b3 w)) u) = r * c.
Definition dm_ok (w : w4) (k : nat) : Prop :=
  hasdm w k /\ let '(d, r, c) := getdm w k in 0 <= r /\ 0 <= c /\ zlen d = r * c.
Definition mwf (w : w4) (x : mref) : Prop :=
  match x with XS k => sm_ok w k | XD k => dm_ok w k end.
(* x is not stored in the sparse vector t (a sparse receiver's values vector) *)
Definition mother (w : w4) (t : nat) (x : mref) : Prop :=
  match x with XS k => mvec w k <> t | XD _ => True end.
Definition vother (t : nat) (x : vref) : Prop :=
  match x with RS u => u <> t | RD _ => True end.
(* a sparse receiver matrix k in any coherent internal state: C11's invariant
   for every vector of the world, cells allocated and unique, the values vector
   shares no cell with another vector *)
Definition GoodM (w : w4) (k : nat) : Prop := sm_ok w k /\ Good (sw (b3 w)) (mvec w k).
(* a vector operand of a matrix operation *)
Definition vwf (w : w4) (x : vref) : Prop :=
  match x with
  | RS u => has (sw (b3 w)) u
  | RD k => hasd (b3 w) k
  end.

(* ---- outcomes and frames ---------------------------------------------------------- *)
Definition ok_out4 (r : w4 * (Z * list Z)) : Prop := snd r = (K_OK, []).
(* a sparse-receiver operation: headers, dense matrices, dense vectors stay; no
   vector is added, no dimension changes; every vector but t reads as before *)
Definition same_but_sm (w w' : w4) (t : nat) : Prop :=
  sms w' = sms w /\ dms w' = dms w /\ dn (b3 w') = dn (b3 w) /\
  length (vecs (sw (b3 w'))) = length (vecs (sw (b3 w))) /\
  (forall u, dim (getv (sw (b3 w')) u) = dim (getv (sw (b3 w)) u)) /\
  (forall u, u <> t -> sabs (sw (b3 w')) u = sabs (sw (b3 w)) u).
(* a dense-receiver matrix operation on dense matrix k: everything else reads as before *)
Definition same_but_dm (w w' : w4) (k : nat) : Prop :=
  sms w' = sms w /\ dn (b3 w') = dn (b3 w) /\ length (dms w') = length (dms w) /\
  (forall k', k' <> k -> getdm w' k' = getdm w k') /\
  mdims w' (XD k) = mdims w (XD k) /\
  length (vecs (sw (b3 w'))) = length (vecs (sw (b3 w))) /\
  (forall u, dim (getv (sw (b3 w')) u) = dim (getv (sw (b3 w)) u)) /\
  (forall u, sabs (sw (b3 w')) u = sabs (sw (b3 w)) u).
(* a dense-receiver vector operation (MdotV / VdotM) on dense vector k *)
Definition same_but_dv (w w' : w4) (k : nat) : Prop :=
  sms w' = sms w /\ dms w' = dms w /\ sw (b3 w') = sw (b3 w) /\
  length (dn (b3 w')) = length (dn (b3 w)) /\
  (forall k', k' <> k -> getd (b3 w') k' = getd (b3 w) k').
