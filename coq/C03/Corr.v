(* C03 correspondence: replay a whole history in the model (state threaded
   through) and compare, PER STEP, the outcome kind, the payload (Equals result,
   iteration sequence) and a checksum of the observation of the whole world:
   for every sparse vector Dim, ConstAt of every index, private map, AVL index
   keys, ConstIterator sequence of a clone; for every dense vector all elements. *)
From Coq Require Import ZArith List Bool.
From ADV Require Import Base.Corr C11.Model C03.Model.
Import ListNotations.
Open Scope Z_scope.

Definition out := (Z * list Z * Z)%type.
Definition out_eqb (a b : out) : bool :=
  let '(k1, p1, h1) := a in
  let '(k2, p2, h2) := b in
  (k1 =? k2) && list_eqb Z.eqb p1 p2 && (h1 =? h2).

Fixpoint run_obs (y : ty) (w : w3) (ops : list op3) : list out :=
  match ops with
  | [] => []
  | o :: r => let '(w', (k, p)) := step3 y w o in (k, p, hash (obs3 w')) :: run_obs y w' r
  end.

Definition case := (ty * list op3 * list out)%type.
Definition check (c : case) : bool :=
  let '(y, ops, outs) := c in list_eqb out_eqb (run_obs y init3 ops) outs.
Definition mism (cs : list case) : list nat := mismatches check cs.
Definition diverge (c : case) : option nat :=
  let '(y, ops, outs) := c in first_diff out_eqb 0 (run_obs y init3 ops) outs.
(* full observation of the model after the first [n] operations (diagnosis) *)
Definition obs_after (n : nat) (c : case) : list Z :=
  let '(y, ops, _) := c in obs3 (run3 y init3 (firstn n ops)).
