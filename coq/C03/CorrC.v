(* C03 correspondence for the read-only sparse vectors (ModelC.v): replay a
   whole history in the model and compare, PER STEP, the outcome kind, the
   payload (value read, iteration / joint-iteration sequence, Equals / VdotV
   result) and a checksum of the observation of the whole world: for every const
   object n, both slices, the random-access cache (hook) and Float64At of every
   index of a Clone(); for every dense handle all elements. *)
From Coq Require Import ZArith List Bool.
From ADV Require Import Base.Corr C11.Model C03.Model C03.ModelC C03.Corr.
Import ListNotations.
Open Scope Z_scope.

Fixpoint runc_obs (y : ty) (w : wc) (ops : list opc) : list out :=
  match ops with
  | [] => []
  | o :: r => let '(w', (k, p)) := stepc y w o in (k, p, hash (obsc w')) :: runc_obs y w' r
  end.
Definition casec := (ty * list opc * list out)%type.
Definition checkc (c : casec) : bool :=
  let '(y, ops, outs) := c in list_eqb out_eqb (runc_obs y initc ops) outs.
Definition mismc (cs : list casec) : list nat := mismatches checkc cs.
Definition divergec (c : casec) : option nat :=
  let '(y, ops, outs) := c in first_diff out_eqb 0 (runc_obs y initc ops) outs.
Definition obsc_after (n : nat) (c : casec) : list Z :=
  let '(y, ops, _) := c in obsc (runc y initc (firstn n ops)).
