(* C03 (round 6) — theorems about the read-only sparse vectors
   (SparseConst<T>Vector, /repo/vector_sparse_const_template.in) as modelled in
   ModelC.v.  [celem v i] / [cabs v] (SpecC.v) are the element at index i / the
   value list of the index/value list the object was built from; they do not
   mention the random-access cache.  Statement-only file. *)
From Coq Require Import ZArith List Bool Lia.
From ADV Require Import C11.Model C03.Model C03.ModelC C03.SpecC C03.ProofsC C03.ProofsC2.
Import ListNotations.
Open Scope Z_scope.

(* construction from index/value lists preserves every element: for ANY order of distinct indices
   below n the constructor succeeds, sorts, drops the zero values, starts with an empty cache, and
   element i is the value listed under i (0 if i is not listed) *)
Theorem const_new_preserves_elements :
  forall ks xs n, NoDup ks -> length ks = length xs -> Forall (fun k => k < n) ks ->
  exists v, cnew ks xs n = Some v /\ cm v = [] /\ cn v = n /\ asc (keys (ce v)) /\
            (forall i, celem v i = lk (combine ks xs) i) /\
            Forall (fun kx => snd kx <> 0) (ce v).
Proof. exact cnew_correct_l. Qed.
Example const_new_preserves_elements_ex :
  exists v, cnew [3; 0; 2] [5; 0; -7] 4 = Some v /\ cabs v = [0; 0; -7; 5] /\ ce v = [(2, -7); (3, 5)].
Proof. eexists. split; [reflexivity|]. split; reflexivity. Qed.

(* the guard of the constructor: an index >= n is rejected (panic), whatever its value *)
Theorem const_new_rejects_large_index :
  forall ks xs n, length ks = length xs -> ~ Forall (fun k => k < n) ks -> cnew ks xs n = None.
Proof. exact cnew_panics_l. Qed.
Example const_new_rejects_large_index_ex : cnew [1; 4] [2; 0] 4 = None.
Proof. reflexivity. Qed.

(* random access is independent of the state of the lazily built cache: with the cache empty or
   built, <T>At(i) delivers the element for EVERY i, and nothing but the cache changes (frame) *)
Theorem const_at_is_element_any_cache :
  forall v i, NoDup (keys (ce v)) -> cache_ok v ->
  snd (cat v i) = celem v i /\
  ce (fst (cat v i)) = ce v /\ cn (fst (cat v i)) = cn v /\ cache_ok (fst (cat v i)).
Proof. exact cat_correct_l. Qed.
Example const_at_is_element_any_cache_ex :
  let v := {| ce := [(1, 4); (3, -2)]; cm := []; cn := 5 |} in
  snd (cat v 3) = -2 /\ cm (fst (cat v 3)) = [(3, 1%nat); (1, 0%nat)] /\ snd (cat (fst (cat v 3)) 2) = 0.
Proof. repeat split; reflexivity. Qed.

(* sort.SearchInts as coded (binary search) on a sorted slice = number of entries below x *)
Theorem search_ints_counts_smaller :
  forall a x, sortedz a -> search_ints a x = cntlt a x.
Proof. exact search_ints_correct. Qed.
Example search_ints_counts_smaller_ex : search_ints [1; 3; 4; 8] 4 = 2%nat /\ search_ints [1; 3; 4; 8] 9 = 4%nat.
Proof. split; reflexivity. Qed.

(* ConstSlice(i, j), i <= j, prefix (i = 0) and general branch alike: the view has dimension j - i,
   an EMPTY cache of its own, ascending indices again (so views of views are covered), and element t
   of the view is element i + t of the parent *)
Theorem const_slice_is_sublist :
  forall v i j, asc (keys (ce v)) -> i <= j ->
  exists r, cslice v i j = Some r /\ cm r = [] /\ cn r = j - i /\ asc (keys (ce r)) /\
            forall t, 0 <= t < j - i -> celem r t = celem v (i + t).
Proof. exact cslice_correct_l. Qed.
Example const_slice_is_sublist_ex :
  let v := {| ce := [(0, 9); (2, 4); (3, -2); (6, 1)]; cm := [(0, 0%nat)]; cn := 7 |} in
  option_map cabs (cslice v 2 6) = Some [4; -2; 0; 0] /\ option_map cabs (cslice v 0 3) = Some [9; 0; 4].
Proof. split; reflexivity. Qed.

(* a whole sequence of reads by index (AsDenseReal*Vector, VdotV, a dense receiver's loop) delivers the
   value list, leaves slices and dimension alone and the cache coherent *)
Theorem const_reads_deliver_value_list :
  forall v, NoDup (keys (ce v)) -> cache_ok v ->
  snd (cat_all (Z.to_nat (cn v)) 0 v []) = cabs v /\
  ce (fst (cat_all (Z.to_nat (cn v)) 0 v [])) = ce v /\ cn (fst (cat_all (Z.to_nat (cn v)) 0 v [])) = cn v /\
  cache_ok (fst (cat_all (Z.to_nat (cn v)) 0 v [])).
Proof. exact reads_are_cabs. Qed.
Example const_reads_deliver_value_list_ex :
  snd (cat_all 4 0 {| ce := [(1, 4); (3, -2)]; cm := []; cn := 4 |} []) = [0; 4; 0; -2].
Proof. reflexivity. Qed.

(* access order: reading a view and its parent (any two objects) by index, once or repeatedly, in
   either order, delivers each object's own element *)
Theorem const_access_order_irrelevant :
  forall v r a b, NoDup (keys (ce v)) -> cache_ok v -> NoDup (keys (ce r)) -> cache_ok r ->
  snd (cat v a) = celem v a /\ snd (cat r b) = celem r b /\
  snd (cat (fst (cat v a)) a) = celem v a /\ snd (cat (fst (cat r b)) b) = celem r b.
Proof. exact two_reads_commute. Qed.
Example const_access_order_irrelevant_ex :
  let v := {| ce := [(0, 9); (2, 4); (3, -2)]; cm := []; cn := 4 |} in
  match cslice v 2 4 with
  | Some r => snd (cat r 0) = 4 /\ snd (cat (fst (cat v 2)) 2) = 4 /\ snd (cat v 0) = 9
  | None => False
  end.
Proof. repeat split; reflexivity. Qed.

(* the plain iterator (consumers that iterate): ascending indices, every visit delivers the element,
   every index it does not visit holds 0 *)
Theorem const_iterator_delivers_elements :
  forall v, asc (keys (ce v)) ->
  asc (keys (citer v)) /\
  (forall k x, In (k, x) (citer v) -> celem v k = x) /\
  (forall i, ~ In i (keys (citer v)) -> celem v i = 0).
Proof. exact citer_elements. Qed.
Example const_iterator_delivers_elements_ex :
  cfill (citer {| ce := [(1, 4); (3, -2)]; cm := []; cn := 4 |}) (repeat 0 4) = Some [0; 4; 0; -2].
Proof. reflexivity. Qed.

(* ConstIteratorFrom(i) (HEAD 1e92a33) enumerates exactly the stored entries with index >= i, in the
   iterator's order, for EVERY i: in particular nothing when i lies beyond the last stored index *)
Theorem const_iterator_from_is_suffix :
  forall v i, asc (keys (ce v)) ->
  citer_from v i = filter (fun kx => i <=? fst kx) (citer v) /\
  (forall k x, In (k, x) (citer_from v i) <-> In (k, x) (ce v) /\ i <= k) /\
  (Forall (fun k => k < i) (keys (ce v)) -> citer_from v i = []).
Proof. exact citer_from_correct. Qed.
Example const_iterator_from_is_suffix_ex :
  let v := {| ce := [(0, -1); (1, -4)]; cm := []; cn := 2 |} in
  citer_from v 2 = [] /\ citer_from v 1 = [(1, -4)] /\ citer_from v (-3) = [(0, -1); (1, -4)].
Proof. repeat split; reflexivity. Qed.
