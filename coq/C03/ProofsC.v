(* C03 (round 6) — lemmas about the read-only sparse vectors: random access
   through the lazily built cache, binary search, ConstSlice. *)
From Coq Require Import ZArith List Bool Lia Arith Permutation.
From ADV Require Import C11.Model C03.Model C03.ModelC C03.SpecC.
Import ListNotations.
Open Scope Z_scope.

(* ------------------------------------------------------------- asc / lk *)
Lemma asc_nodup : forall l, asc l -> NoDup l.
Proof.
  induction l as [|x r IH]; simpl; intros H; [constructor|].
  destruct H as [Hf Ha]. constructor; [|auto].
  intros Hin. rewrite Forall_forall in Hf. specialize (Hf _ Hin). lia.
Qed.
Lemma lk_notin : forall e i, ~ In i (keys e) -> lk e i = 0.
Proof.
  induction e as [|[k x] r IH]; simpl; intros i Hn; [reflexivity|].
  destruct (k =? i) eqn:E; [apply Z.eqb_eq in E; tauto|]. apply IH. tauto.
Qed.
Lemma lk_in : forall e k x, NoDup (keys e) -> In (k, x) e -> lk e k = x.
Proof.
  induction e as [|[k0 x0] r IH]; simpl; intros k x Hnd Hin; [tauto|].
  inversion Hnd as [|? ? Hni Hnd']; subst.
  destruct Hin as [Heq|Hin].
  - inversion Heq; subst. rewrite Z.eqb_refl. reflexivity.
  - destruct (k0 =? k) eqn:E.
    + apply Z.eqb_eq in E; subst. exfalso. apply Hni. unfold keys. apply in_map_iff. exists (k, x). auto.
    + apply IH; auto.
Qed.
Lemma lk_app_l : forall a b i, ~ In i (keys b) -> lk (a ++ b) i = lk a i.
Proof.
  induction a as [|[k x] r IH]; simpl; intros b i Hn; [apply lk_notin; auto|].
  destruct (k =? i); auto.
Qed.
Lemma lk_app_r : forall a b i, ~ In i (keys a) -> lk (a ++ b) i = lk b i.
Proof.
  induction a as [|[k x] r IH]; simpl; intros b i Hn; [reflexivity|].
  destruct (k =? i) eqn:E; [apply Z.eqb_eq in E; tauto|]. apply IH. tauto.
Qed.
Lemma lk_shift : forall e d t, lk (map (fun kx => (fst kx - d, snd kx)) e) t = lk e (d + t).
Proof.
  induction e as [|[k x] r IH]; simpl; intros d t; [reflexivity|].
  rewrite IH. destruct (k - d =? t) eqn:E1, (k =? d + t) eqn:E2; try reflexivity;
    [apply Z.eqb_eq in E1; apply Z.eqb_neq in E2; lia | apply Z.eqb_neq in E1; apply Z.eqb_eq in E2; lia].
Qed.

(* ---------------------------------------------------- the cache (CreateIndex) *)
Fixpoint find_pos (k : Z) (e : list (Z * Z)) : option nat :=
  match e with
  | [] => None
  | (k', _) :: r => if k' =? k then Some O else option_map S (find_pos k r)
  end.
Lemma find_pos_notin : forall e k, ~ In k (keys e) -> find_pos k e = None.
Proof.
  induction e as [|[k0 x0] r IH]; simpl; intros k Hn; [reflexivity|].
  destruct (k0 =? k) eqn:E; [apply Z.eqb_eq in E; tauto|]. rewrite IH; [reflexivity|tauto].
Qed.
Lemma mget_index_from : forall e p m k, NoDup (keys e) ->
  mget k (index_from p e m) = match find_pos k e with Some q => Some (p + q)%nat | None => mget k m end.
Proof.
  induction e as [|[k0 x0] r IH]; simpl; intros p m k Hnd; [reflexivity|].
  inversion Hnd as [|? ? Hni Hnd']; subst.
  rewrite IH by assumption. simpl.
  destruct (k0 =? k) eqn:E.
  - apply Z.eqb_eq in E; subst. rewrite find_pos_notin by assumption. f_equal. lia.
  - destruct (find_pos k r); simpl; [f_equal; lia|reflexivity].
Qed.
Lemma find_pos_lk : forall e k, lk e k = match find_pos k e with Some q => snd (nth q e (0, 0)) | None => 0 end.
Proof.
  induction e as [|[k0 x0] r IH]; simpl; intros k; [reflexivity|].
  destruct (k0 =? k); [reflexivity|]. rewrite IH. destruct (find_pos k r); reflexivity.
Qed.
Lemma cm_create_index : forall v, cache_ok v -> cm (create_index v) = index_from 0 (ce v) [].
Proof.
  intros v [H|H]; unfold create_index.
  - rewrite H. reflexivity.
  - destruct (cm v) eqn:E; [reflexivity|]. rewrite E. exact H.
Qed.
Lemma ce_create_index : forall v, ce (create_index v) = ce v /\ cn (create_index v) = cn v.
Proof. intros v. unfold create_index. destruct (cm v); auto. Qed.

(* <T>At(i) through the cache = the element, whatever the cache state; only the cache changes *)
Lemma cat_correct_l : forall v i, NoDup (keys (ce v)) -> cache_ok v ->
  snd (cat v i) = celem v i /\
  ce (fst (cat v i)) = ce v /\ cn (fst (cat v i)) = cn v /\ cache_ok (fst (cat v i)).
Proof.
  intros v i Hnd Hc. unfold cat. simpl.
  pose proof (cm_create_index v Hc) as Hm.
  destruct (ce_create_index v) as [He Hn].
  repeat split; auto.
  - rewrite Hm, He. rewrite mget_index_from by assumption. unfold celem. rewrite find_pos_lk.
    destruct (find_pos i (ce v)); reflexivity.
  - right. rewrite Hm, He. reflexivity.
Qed.

(* --------------------------------------------------- binary search (SearchInts) *)
Definition cntlt (a : list Z) (x : Z) : nat := length (filter (fun y => y <? x) a).
Fixpoint sortedz (l : list Z) : Prop :=
  match l with [] => True | y :: r => Forall (fun z => y <= z) r /\ sortedz r end.
Lemma asc_sortedz : forall l, asc l -> sortedz l.
Proof.
  induction l as [|x r IH]; simpl; auto. intros [Hf Ha]. split; auto.
  eapply Forall_impl; [|exact Hf]. simpl. intros; lia.
Qed.
Lemma cntlt_all_ge : forall r x, Forall (fun z => x <= z) r -> cntlt r x = O.
Proof.
  induction r as [|y r IH]; intros x H; [reflexivity|]. inversion H; subst. unfold cntlt in *. simpl.
  destruct (y <? x) eqn:E; [apply Z.ltb_lt in E; lia|]. apply IH; auto.
Qed.
Lemma cntlt_cons : forall y r x, cntlt (y :: r) x = if y <? x then S (cntlt r x) else cntlt r x.
Proof. intros. unfold cntlt. simpl. destruct (y <? x); reflexivity. Qed.
Lemma sorted_nth_cnt : forall a x, sortedz a -> forall h, (h < length a)%nat ->
  (nth h a 0 <? x) = (h <? cntlt a x)%nat.
Proof.
  induction a as [|y r IH]; simpl; intros x Hs h Hh; [lia|].
  destruct Hs as [Hf Hs]. rewrite cntlt_cons.
  destruct (y <? x) eqn:E.
  - destruct h as [|h']; [simpl; rewrite E; reflexivity|]. simpl nth. rewrite IH by (auto; lia). reflexivity.
  - apply Z.ltb_ge in E.
    assert (Hall : Forall (fun z => x <= z) r) by (eapply Forall_impl; [|exact Hf]; simpl; intros; lia).
    rewrite cntlt_all_ge by assumption.
    destruct h as [|h']; [apply Z.ltb_ge; lia|].
    simpl. apply Z.ltb_ge. rewrite Forall_forall in Hall. apply Hall. apply nth_In. lia.
Qed.
Lemma cntlt_le_length : forall a x, (cntlt a x <= length a)%nat.
Proof.
  induction a as [|y r IH]; intros x; [unfold cntlt; simpl; lia|].
  rewrite cntlt_cons. specialize (IH x). simpl. destruct (y <? x); lia.
Qed.
Lemma div2_between : forall i j, (i < j)%nat -> (i <= Nat.div2 (i + j) < j)%nat.
Proof.
  intros i j H. rewrite Nat.div2_div.
  pose proof (Nat.div_mod (i + j) 2 ltac:(lia)) as Hd.
  pose proof (Nat.mod_upper_bound (i + j) 2 ltac:(lia)) as Hm.
  remember ((i + j) / 2)%nat as q. remember ((i + j) mod 2)%nat as t. lia.
Qed.
Lemma bsearch_correct : forall fuel a x i j, sortedz a ->
  (i <= cntlt a x <= j)%nat -> (j <= length a)%nat -> (j - i < fuel)%nat ->
  bsearch fuel a x i j = cntlt a x.
Proof.
  induction fuel as [|f IH]; intros a x i j Hs Hc Hj Hf; [lia|].
  simpl. destruct (Nat.ltb i j) eqn:E.
  - apply Nat.ltb_lt in E. pose proof (div2_between i j E) as Hh.
    rewrite (sorted_nth_cnt a x Hs) by lia.
    destruct (Nat.ltb (Nat.div2 (i + j)) (cntlt a x)) eqn:E2.
    + apply Nat.ltb_lt in E2. apply IH; auto; lia.
    + apply Nat.ltb_ge in E2. apply IH; auto; lia.
  - apply Nat.ltb_ge in E. lia.
Qed.
Lemma search_ints_correct : forall a x, sortedz a -> search_ints a x = cntlt a x.
Proof.
  intros a x Hs. unfold search_ints. apply bsearch_correct; auto.
  - split; [lia|apply cntlt_le_length].
  - lia.
Qed.
Lemma sorted_split : forall a x, sortedz a ->
  Forall (fun y => y < x) (firstn (cntlt a x) a) /\ Forall (fun y => x <= y) (skipn (cntlt a x) a).
Proof.
  induction a as [|y r IH]; simpl; intros x Hs; [split; constructor|].
  destruct Hs as [Hf Hs]. rewrite cntlt_cons. destruct (y <? x) eqn:E.
  - apply Z.ltb_lt in E. destruct (IH x Hs) as [H1 H2]. simpl. split; [constructor; auto|auto].
  - apply Z.ltb_ge in E.
    assert (Hall : Forall (fun z => x <= z) r) by (eapply Forall_impl; [|exact Hf]; simpl; intros; lia).
    rewrite cntlt_all_ge by assumption. simpl. split; [constructor|constructor; auto].
Qed.
Lemma cntlt_mono : forall a x y, x <= y -> (cntlt a x <= cntlt a y)%nat.
Proof.
  induction a as [|z r IH]; intros x y H; [unfold cntlt; simpl; lia|].
  rewrite !cntlt_cons. specialize (IH x y H).
  destruct (z <? x) eqn:E1, (z <? y) eqn:E2; lia.
Qed.

(* ---------------------------------------------------------------- asc pieces *)
Lemma Forall_firstn_ : forall {X} (P : X -> Prop) n l, Forall P l -> Forall P (firstn n l).
Proof. induction n; intros l H; simpl; [constructor|]. destruct l; [constructor|]. inversion H; subst. constructor; auto. Qed.
Lemma Forall_skipn_ : forall {X} (P : X -> Prop) n l, Forall P l -> Forall P (skipn n l).
Proof. induction n; intros l H; simpl; [assumption|]. destruct l; [constructor|]. inversion H; subst. auto. Qed.
Lemma asc_firstn : forall n l, asc l -> asc (firstn n l).
Proof.
  induction n; intros l H; simpl; [exact I|]. destruct l as [|x r]; [exact I|].
  destruct H as [Hf Ha]. simpl. split; [apply Forall_firstn_; auto|auto].
Qed.
Lemma asc_skipn : forall n l, asc l -> asc (skipn n l).
Proof.
  induction n; intros l H; simpl; [assumption|]. destruct l as [|x r]; [exact I|]. destruct H. auto.
Qed.
Lemma asc_shift : forall l d, asc l -> asc (map (fun k => k - d) l).
Proof.
  induction l as [|x r IH]; simpl; intros d H; [exact I|]. destruct H as [Hf Ha]. split; [|auto].
  rewrite Forall_forall in *. intros y Hy. apply in_map_iff in Hy. destruct Hy as [z [Hz Hin]]. subst.
  specialize (Hf _ Hin). lia.
Qed.
Lemma keys_firstn : forall n e, keys (firstn n e) = firstn n (keys e).
Proof. intros. unfold keys. symmetry. apply firstn_map. Qed.
Lemma keys_skipn : forall n e, keys (skipn n e) = skipn n (keys e).
Proof. intros. unfold keys. symmetry. apply skipn_map. Qed.
Lemma keys_shift : forall e d, keys (map (fun kx => (fst kx - d, snd kx)) e) = map (fun k => k - d) (keys e).
Proof. intros. unfold keys. rewrite !map_map. reflexivity. Qed.

(* the entries of [sub k1 k2 e] for k1 = #keys < i, k2 = #keys < j *)
Lemma skipn_skipn_ : forall {X} k1 k2 (l : list X), (k1 <= k2)%nat -> skipn (k2 - k1) (skipn k1 l) = skipn k2 l.
Proof.
  induction k1 as [|k1 IH]; intros k2 l H; [simpl; rewrite Nat.sub_0_r; reflexivity|].
  destruct k2 as [|k2]; [lia|]. destruct l as [|x r]; [simpl; destruct (k2 - k1)%nat; reflexivity|].
  simpl. apply IH. lia.
Qed.
Lemma sub_split : forall {X} k1 k2 (l : list X), (k1 <= k2)%nat ->
  l = firstn k1 l ++ sub k1 k2 l ++ skipn k2 l.
Proof.
  intros X k1 k2 l H. unfold sub.
  rewrite <- (firstn_skipn k1 l) at 1. f_equal.
  rewrite <- (firstn_skipn (k2 - k1) (skipn k1 l)) at 1. f_equal.
  apply skipn_skipn_. exact H.
Qed.
Lemma lk_sub : forall e i j t, asc (keys e) -> i <= i + t < j ->
  lk (sub (cntlt (keys e) i) (cntlt (keys e) j) e) (i + t) = lk e (i + t).
Proof.
  intros e i j t Ha Ht.
  pose proof (asc_sortedz _ Ha) as Hs.
  assert (Hk : (cntlt (keys e) i <= cntlt (keys e) j)%nat) by (apply cntlt_mono; lia).
  destruct (sorted_split (keys e) i Hs) as [Hlo _].
  destruct (sorted_split (keys e) j Hs) as [_ Hhi].
  remember (cntlt (keys e) i) as k1. remember (cntlt (keys e) j) as k2.
  transitivity (lk (firstn k1 e ++ sub k1 k2 e ++ skipn k2 e) (i + t)); [|rewrite <- sub_split by exact Hk; reflexivity].
  rewrite lk_app_r.
  - rewrite lk_app_l; [reflexivity|].
    rewrite keys_skipn. intros Hin. rewrite Forall_forall in Hhi. specialize (Hhi _ Hin). lia.
  - rewrite keys_firstn. intros Hin. rewrite Forall_forall in Hlo. specialize (Hlo _ Hin). lia.
Qed.
Lemma lk_prefix : forall e j t, asc (keys e) -> t < j ->
  lk (firstn (cntlt (keys e) j) e) t = lk e t.
Proof.
  intros e j t Ha Ht. pose proof (asc_sortedz _ Ha) as Hs.
  destruct (sorted_split (keys e) j Hs) as [_ Hhi].
  remember (cntlt (keys e) j) as k2.
  transitivity (lk (firstn k2 e ++ skipn k2 e) t); [|rewrite firstn_skipn; reflexivity].
  rewrite lk_app_l; [reflexivity|].
  rewrite keys_skipn. intros Hin. rewrite Forall_forall in Hhi. specialize (Hhi _ Hin). lia.
Qed.

(* ConstSlice(i, j) *)
Lemma cslice_correct_l : forall v i j, asc (keys (ce v)) -> i <= j ->
  exists r, cslice v i j = Some r /\ cm r = [] /\ cn r = j - i /\ asc (keys (ce r)) /\
            forall t, 0 <= t < j - i -> celem r t = celem v (i + t).
Proof.
  intros v i j Ha Hij. pose proof (asc_sortedz _ Ha) as Hs. unfold cslice.
  rewrite !(search_ints_correct _ _ Hs).
  destruct (i =? 0) eqn:E.
  - apply Z.eqb_eq in E. subst i. eexists. split; [reflexivity|]. simpl.
    repeat split; [lia| |].
    + rewrite keys_firstn. apply asc_firstn. exact Ha.
    + intros t Ht. unfold celem. simpl. rewrite lk_prefix by (auto; lia). reflexivity.
  - assert (Hk : (cntlt (keys (ce v)) i <= cntlt (keys (ce v)) j)%nat) by (apply cntlt_mono; lia).
    destruct (Nat.ltb (cntlt (keys (ce v)) j) (cntlt (keys (ce v)) i)) eqn:E2; [apply Nat.ltb_lt in E2; lia|].
    eexists. split; [reflexivity|]. simpl. repeat split.
    + rewrite keys_shift. apply asc_shift. unfold sub. rewrite keys_firstn, keys_skipn.
      apply asc_firstn. apply asc_skipn. exact Ha.
    + intros t Ht. unfold celem. simpl. rewrite lk_shift. apply lk_sub; auto. lia.
Qed.
