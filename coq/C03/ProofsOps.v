(* C03 — the operations of [step3], one lemma per operation and receiver kind. *)
From Coq Require Import ZArith List Bool Lia.
From ADV Require Import C11.Model C11.Spec C11.ProofsMap C11.ProofsRef C03.Model C03.Spec C03.ProofsDense.
Import ListNotations.
Open Scope Z_scope.

(* ------------------------------------------------------------ dense receiver *)
Definition ok_out (r : w3 * (Z * list Z)) : Prop := snd r = (K_OK, []).

Lemma step_dense_vopv y f w k a b :
  hasd w k -> vdim w a = zlen (getd w k) -> vdim w b = zlen (getd w k) ->
  let r := step3 y w (VopV f (RD k) a b) in
  ok_out r /\ same_but w (fst r) k /\
  abs3 (fst r) (RD k) = map2 (bop_f f) (abs3 w a) (abs3 w b).
Proof.
  intros Hk Ha Hb. cbn [step3].
  destruct (dense_binary (bop_f f) w k a b Hk Ha Hb) as (w' & L & S & D).
  rewrite L. unfold lift3, ok_out. simpl. auto.
Qed.

Lemma step_dense_vdivv y w k a b :
  hasd w k -> vdim w a = zlen (getd w k) -> vdim w b = zlen (getd w k) ->
  nonzero_all (abs3 w b) ->
  let r := step3 y w (VdivV (RD k) a b) in
  ok_out r /\ same_but w (fst r) k /\
  abs3 (fst r) (RD k) = map2 Z.quot (abs3 w a) (abs3 w b).
Proof.
  intros Hk Ha Hb Hnz. cbn [step3].
  destruct (dense_divv y w k a b Hk Ha Hb Hnz) as (w' & L & S & D).
  rewrite L. unfold lift3, ok_out. simpl. auto.
Qed.

Lemma step_dense_vadds y w k a c :
  hasd w k -> vdim w a = zlen (getd w k) ->
  let r := step3 y w (VaddS (RD k) a c) in
  ok_out r /\ same_but w (fst r) k /\ abs3 (fst r) (RD k) = map (fun x => x + c) (abs3 w a).
Proof.
  intros Hk Ha. cbn [step3].
  destruct (dense_unary (fun x => x + c) w k a Hk Ha) as (w' & L & S & D). rewrite L. unfold ok_out. simpl. auto.
Qed.
Lemma step_dense_vsubs y w k a c :
  hasd w k -> vdim w a = zlen (getd w k) ->
  let r := step3 y w (VsubS (RD k) a c) in
  ok_out r /\ same_but w (fst r) k /\ abs3 (fst r) (RD k) = map (fun x => x - c) (abs3 w a).
Proof.
  intros Hk Ha. cbn [step3].
  destruct (dense_unary (fun x => x - c) w k a Hk Ha) as (w' & L & S & D). rewrite L. unfold ok_out. simpl. auto.
Qed.
Lemma step_dense_vmuls y w k a c :
  hasd w k -> vdim w a = zlen (getd w k) ->
  let r := step3 y w (VmulS (RD k) a c) in
  ok_out r /\ same_but w (fst r) k /\ abs3 (fst r) (RD k) = map (fun x => x * c) (abs3 w a).
Proof.
  intros Hk Ha. cbn [step3].
  destruct (dense_unary (fun x => x * c) w k a Hk Ha) as (w' & L & S & D). rewrite L. unfold ok_out. simpl. auto.
Qed.
Lemma step_dense_vset y w k a :
  hasd w k -> vdim w a = zlen (getd w k) ->
  let r := step3 y w (VSet (RD k) a) in
  ok_out r /\ same_but w (fst r) k /\ abs3 (fst r) (RD k) = abs3 w a.
Proof.
  intros Hk Ha. cbn [step3].
  destruct (dense_unary (fun x => x) w k a Hk Ha) as (w' & L & S & D). rewrite L. unfold ok_out. simpl.
  rewrite map_id in D. auto.
Qed.
Lemma step_dense_vdivs y w k a c :
  hasd w k -> vdim w a = zlen (getd w k) -> c <> 0 ->
  let r := step3 y w (VdivS (RD k) a c) in
  ok_out r /\ same_but w (fst r) k /\ abs3 (fst r) (RD k) = map (fun x => Z.quot x c) (abs3 w a).
Proof.
  intros Hk Ha Hc. cbn [step3].
  destruct (dense_divs y w k a c Hk Ha Hc) as (w' & L & S & D). rewrite L. unfold ok_out. simpl. auto.
Qed.

Lemma step_dense_equals y w k b e2 :
  vdim w b = zlen (getd w k) ->
  step3 y w (VEquals (RD k) b e2) = (w, (K_OK, [b2z (all_close e2 (getd w k) (abs3 w b))])).
Proof. intro H. cbn [step3]. rewrite dense_equals; auto. Qed.
