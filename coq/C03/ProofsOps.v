(* C03 — the operations of [step3], one lemma per operation and receiver kind. *)
From Coq Require Import ZArith List Bool Lia.
From ADV Require Import C11.Model C11.Spec C11.ProofsMap C11.ProofsRef C03.Model C03.Spec C03.ProofsDense
                        C03.ProofsSem C03.ProofsJoint C03.ProofsConv.
Import ListNotations.
Open Scope Z_scope.

(* ------------------------------------------------------------ dense receiver *)
Definition ok_out (r : w3 * (Z * list Z)) : Prop := snd r = (K_OK, []).

Lemma step_dense_vopv y f w k a b :
  hasd w k -> vdim w a = zlen (getd w k) -> vdim w b = zlen (getd w k) ->
  let r := step3 y w (VopV f (RD k) a b) in
  ok_out r /\ same_but w (fst r) k /\
  abs3 (fst r) (RD k) = map2 (bop_f f) (abs3 w a) (abs3 w b).
Proof.
  intros Hk Ha Hb. cbn [step3].
  destruct (dense_binary (bop_f f) w k a b Hk Ha Hb) as (w' & L & S & D).
  rewrite L. unfold lift3, ok_out. simpl. auto.
Qed.

Lemma step_dense_vdivv y w k a b :
  hasd w k -> vdim w a = zlen (getd w k) -> vdim w b = zlen (getd w k) ->
  nonzero_all (abs3 w b) ->
  let r := step3 y w (VdivV (RD k) a b) in
  ok_out r /\ same_but w (fst r) k /\
  abs3 (fst r) (RD k) = map2 Z.quot (abs3 w a) (abs3 w b).
Proof.
  intros Hk Ha Hb Hnz. cbn [step3].
  destruct (dense_divv y w k a b Hk Ha Hb Hnz) as (w' & L & S & D).
  rewrite L. unfold lift3, ok_out. simpl. auto.
Qed.

Lemma step_dense_vadds y w k a c :
  hasd w k -> vdim w a = zlen (getd w k) ->
  let r := step3 y w (VaddS (RD k) a c) in
  ok_out r /\ same_but w (fst r) k /\ abs3 (fst r) (RD k) = map (fun x => x + c) (abs3 w a).
Proof.
  intros Hk Ha. cbn [step3].
  destruct (dense_unary (fun x => x + c) w k a Hk Ha) as (w' & L & S & D). rewrite L. unfold ok_out. simpl. auto.
Qed.
Lemma step_dense_vsubs y w k a c :
  hasd w k -> vdim w a = zlen (getd w k) ->
  let r := step3 y w (VsubS (RD k) a c) in
  ok_out r /\ same_but w (fst r) k /\ abs3 (fst r) (RD k) = map (fun x => x - c) (abs3 w a).
Proof.
  intros Hk Ha. cbn [step3].
  destruct (dense_unary (fun x => x - c) w k a Hk Ha) as (w' & L & S & D). rewrite L. unfold ok_out. simpl. auto.
Qed.
Lemma step_dense_vmuls y w k a c :
  hasd w k -> vdim w a = zlen (getd w k) ->
  let r := step3 y w (VmulS (RD k) a c) in
  ok_out r /\ same_but w (fst r) k /\ abs3 (fst r) (RD k) = map (fun x => x * c) (abs3 w a).
Proof.
  intros Hk Ha. cbn [step3].
  destruct (dense_unary (fun x => x * c) w k a Hk Ha) as (w' & L & S & D). rewrite L. unfold ok_out. simpl. auto.
Qed.
Lemma step_dense_vset y w k a :
  hasd w k -> vdim w a = zlen (getd w k) ->
  let r := step3 y w (VSet (RD k) a) in
  ok_out r /\ same_but w (fst r) k /\ abs3 (fst r) (RD k) = abs3 w a.
Proof.
  intros Hk Ha. cbn [step3].
  destruct (dense_unary (fun x => x) w k a Hk Ha) as (w' & L & S & D). rewrite L. unfold ok_out. simpl.
  rewrite map_id in D. auto.
Qed.
Lemma step_dense_vdivs y w k a c :
  hasd w k -> vdim w a = zlen (getd w k) -> c <> 0 ->
  let r := step3 y w (VdivS (RD k) a c) in
  ok_out r /\ same_but w (fst r) k /\ abs3 (fst r) (RD k) = map (fun x => Z.quot x c) (abs3 w a).
Proof.
  intros Hk Ha Hc. cbn [step3].
  destruct (dense_divs y w k a c Hk Ha Hc) as (w' & L & S & D). rewrite L. unfold ok_out. simpl. auto.
Qed.

Lemma step_dense_equals y w k b e2 :
  vdim w b = zlen (getd w k) ->
  step3 y w (VEquals (RD k) b e2) = (w, (K_OK, [b2z (all_close e2 (getd w k) (abs3 w b))])).
Proof. intro H. cbn [step3]. rewrite dense_equals; auto. Qed.

(* ----------------------------------------------------------- sparse receiver *)
(* the state a sparse receiver t of the world w3 meets, and its operands *)
Definition Good3 (w : w3) (t : nat) : Prop := Good (sw w) t.
Definition operand3 (w : w3) (t : nat) (x : vref) : Prop :=
  match x with
  | RS u => u <> t /\ has (sw w) u /\ dim (getv (sw w) u) = dim (getv (sw w) t)
  | RD k => zlen (getd w k) = dim (getv (sw w) t)
  end.
Lemma operand3_ok w t x : operand3 w t x -> operand_ok3 (sw w) t (to_op w x).
Proof. destruct x; simpl; auto. Qed.
Lemma oabs_to_op w x : oabs (sw w) (to_op w x) = abs3 w x.
Proof. destruct x; simpl; auto. Qed.
(* everything but the receiver keeps its value *)
Definition same_but_s (w w' : w3) (t : nat) : Prop :=
  dn w' = dn w /\ length (vecs (sw w')) = length (vecs (sw w)) /\
  forall u, u <> t -> sabs (sw w') u = sabs (sw w) u.

Lemma step_sparse_vopv y f w t a b :
  Good3 w t -> operand3 w t a -> operand3 w t b ->
  let r := step3 y w (VopV f (RS t) a b) in
  ok_out r /\ same_but_s w (fst r) t /\ G t (sw (fst r)) /\
  abs3 (fst r) (RS t) = map2 (bop_f f) (abs3 w a) (abs3 w b).
Proof.
  intros HG Ha Hb. cbn [step3].
  destruct (vop3_correct t (bop_f f)) with (w := sw w) (o2 := to_op w a) (o3 := to_op w b)
    as (w' & E & G' & L & R & F & D).
  - destruct f; reflexivity.
  - apply Good_G. exact HG.
  - apply operand3_ok. auto.
  - apply operand3_ok. auto.
  - rewrite E. unfold lift, ok_out, same_but_s. simpl. rewrite R, !oabs_to_op. auto.
Qed.

Lemma step_sparse_unary (f : Z -> Z) w t a r :
  f 0 = 0 -> Good3 w t -> operand3 w t a ->
  r = lift w (vop2 f (sw w) t (to_op w a)) ->
  ok_out r /\ same_but_s w (fst r) t /\ G t (sw (fst r)) /\
  abs3 (fst r) (RS t) = map f (abs3 w a).
Proof.
  intros f0 HG Ha ->.
  destruct (vop2_correct t f (sw w) (to_op w a) f0 (Good_G _ _ HG) (operand3_ok _ _ _ Ha))
    as (w' & E & G' & L & R & F & D).
  rewrite E. unfold lift, ok_out, same_but_s. simpl. rewrite R, !oabs_to_op. auto.
Qed.

Lemma step_sparse_vmuls y w t a c :
  Good3 w t -> operand3 w t a ->
  let r := step3 y w (VmulS (RS t) a c) in
  ok_out r /\ same_but_s w (fst r) t /\ G t (sw (fst r)) /\
  abs3 (fst r) (RS t) = map (fun x => x * c) (abs3 w a).
Proof. intros HG Ha. apply step_sparse_unary; auto. Qed.

Lemma step_sparse_vdivs y w t a c :
  Good3 w t -> operand3 w t a -> c <> 0 ->
  let r := step3 y w (VdivS (RS t) a c) in
  ok_out r /\ same_but_s w (fst r) t /\ G t (sw (fst r)) /\
  abs3 (fst r) (RS t) = map (fun x => Z.quot x c) (abs3 w a).
Proof.
  intros HG Ha Hc. apply step_sparse_unary; auto.
  cbn [step3]. unfold vdivs. destruct (c =? 0) eqn:E; auto. apply Z.eqb_eq in E. contradiction.
Qed.

Lemma step_sparse_vset y w t a :
  Good3 w t -> operand3 w t a ->
  let r := step3 y w (VSet (RS t) a) in
  ok_out r /\ same_but_s w (fst r) t /\ G t (sw (fst r)) /\
  abs3 (fst r) (RS t) = abs3 w a.
Proof.
  intros HG Ha.
  destruct (step_sparse_unary (fun x => x) w t a (step3 y w (VSet (RS t) a)) eq_refl HG Ha) as (A & B & C & D).
  - cbn [step3]. unfold vset. destruct a as [u|k]; simpl; auto.
    destruct Ha as (N & _). destruct (Nat.eqb t u) eqn:E; auto. apply Nat.eqb_eq in E. congruence.
  - rewrite map_id in D. auto.
Qed.

Lemma step_sparse_equals y w t b e2 :
  0 < e2 -> Good3 w t -> operand3 w t b ->
  exists w', step3 y w (VEquals (RS t) b e2) =
               (w', (K_OK, [b2z (all_close e2 (abs3 w (RS t)) (abs3 w b))])) /\
             Qw (sw w) (sw w') /\ dn w' = dn w /\ G t (sw w').
Proof.
  intros He HG Hb. cbn [step3].
  destruct (vequals_correct t e2 (sw w) (to_op w b) He (Good_G _ _ HG) (operand3_ok _ _ _ Hb)) as (s' & E & HQ & G').
  rewrite E. exists (sets w s'). rewrite oabs_to_op. simpl. auto.
Qed.

(* known finding C03-EQEPS0: with epsilon = 0 the answer depends on the storage *)
Lemma equals_eps0_refuted_lemma :
  let w := run3 TFloat init3 [NewS [] [] 1; NewD [0]] in
  abs3 w (RS 0) = abs3 w (RD 0) /\
  snd (step3 TFloat w (VEquals (RS 0) (RS 0) 0)) = (K_OK, [1]) /\
  snd (step3 TFloat w (VEquals (RD 0) (RD 0) 0)) = (K_OK, [0]) /\
  snd (step3 TFloat w (VEquals (RS 0) (RD 0) 0)) = (K_OK, [0]) /\
  snd (step3 TFloat w (VEquals (RD 0) (RS 0) 0)) = (K_OK, [0]).
Proof. vm_compute. repeat split; reflexivity. Qed.

Lemma step_sparse_vadds y w t a c :
  Good3 w t -> operand3 w t a ->
  let r := step3 y w (VaddS (RS t) a c) in
  ok_out r /\ same_but_s w (fst r) t /\ G t (sw (fst r)) /\
  abs3 (fst r) (RS t) = map (fun x => x + c) (abs3 w a).
Proof.
  intros HG Ha. cbn [step3].
  destruct (vopS_correct t (fun w1 i => Some (ord w1 (to_op w a) i + c)) (fun x => x + c) (sw w) (to_op w a))
    as (w' & E & G' & L & R & F & D).
  - apply Good_G. exact HG.
  - apply operand3_ok. auto.
  - intros w1 k H. rewrite H. auto.
  - rewrite E. unfold lift2, ok_out, same_but_s. simpl. rewrite R, !oabs_to_op. auto.
Qed.
Lemma step_sparse_vsubs y w t a c :
  Good3 w t -> operand3 w t a ->
  let r := step3 y w (VsubS (RS t) a c) in
  ok_out r /\ same_but_s w (fst r) t /\ G t (sw (fst r)) /\
  abs3 (fst r) (RS t) = map (fun x => x - c) (abs3 w a).
Proof.
  intros HG Ha. cbn [step3].
  destruct (vopS_correct t (fun w1 i => Some (ord w1 (to_op w a) i - c)) (fun x => x - c) (sw w) (to_op w a))
    as (w' & E & G' & L & R & F & D).
  - apply Good_G. exact HG.
  - apply operand3_ok. auto.
  - intros w1 k H. rewrite H. auto.
  - rewrite E. unfold lift2, ok_out, same_but_s. simpl. rewrite R, !oabs_to_op. auto.
Qed.
Lemma step_sparse_vdivv y w t a b :
  Good3 w t -> operand3 w t a -> operand3 w t b -> nonzero_all (abs3 w b) ->
  let r := step3 y w (VdivV (RS t) a b) in
  ok_out r /\ same_but_s w (fst r) t /\ G t (sw (fst r)) /\
  abs3 (fst r) (RS t) = map2 Z.quot (abs3 w a) (abs3 w b).
Proof.
  intros HG Ha Hb Hnz. cbn [step3].
  destruct (vdivv_correct t y (sw w) (to_op w a) (to_op w b)) as (w' & E & G' & L & R & F & D).
  - apply Good_G. exact HG.
  - apply operand3_ok. auto.
  - apply operand3_ok. auto.
  - rewrite oabs_to_op. auto.
  - rewrite E. unfold lift2, ok_out, same_but_s. simpl. rewrite R, !oabs_to_op. auto.
Qed.

(* the property itself for the element-wise operations *)
Lemma storage_independence_lemma y f w k t a b a' b' :
  hasd w k -> vdim w a = zlen (getd w k) -> vdim w b = zlen (getd w k) ->
  Good3 w t -> operand3 w t a' -> operand3 w t b' ->
  abs3 w a = abs3 w a' -> abs3 w b = abs3 w b' ->
  abs3 (fst (step3 y w (VopV f (RD k) a b))) (RD k) =
  abs3 (fst (step3 y w (VopV f (RS t) a' b'))) (RS t).
Proof.
  intros H1 H2 H3 H4 H5 H6 E1 E2.
  destruct (step_dense_vopv y f w k a b H1 H2 H3) as (_ & _ & X).
  destruct (step_sparse_vopv y f w t a' b' H4 H5 H6) as (_ & _ & _ & Y).
  rewrite X, Y, E1, E2. reflexivity.
Qed.
Lemma storage_independence_div_lemma y w k t a b a' b' :
  hasd w k -> vdim w a = zlen (getd w k) -> vdim w b = zlen (getd w k) ->
  Good3 w t -> operand3 w t a' -> operand3 w t b' ->
  abs3 w a = abs3 w a' -> abs3 w b = abs3 w b' -> nonzero_all (abs3 w b) ->
  abs3 (fst (step3 y w (VdivV (RD k) a b))) (RD k) =
  abs3 (fst (step3 y w (VdivV (RS t) a' b'))) (RS t).
Proof.
  intros H1 H2 H3 H4 H5 H6 E1 E2 Hnz.
  destruct (step_dense_vdivv y w k a b H1 H2 H3 Hnz) as (_ & _ & X).
  destruct (step_sparse_vdivv y w t a' b' H4 H5 H6) as (_ & _ & _ & Y); [rewrite <- E2; auto|].
  rewrite X, Y, E1, E2. reflexivity.
Qed.

(* ------------------------------------------------------------------ conversions *)
Lemma getd_addd_new w l : getd (addd w l) (length (dn w)) = l.
Proof. unfold getd, addd. simpl. rewrite app_nth2 by lia. rewrite Nat.sub_diag. auto. Qed.
Lemma getv_addv_new w v : getv (addv w v) (length (vecs w)) = v.
Proof. unfold getv, addv. simpl. rewrite app_nth2 by lia. rewrite Nat.sub_diag. auto. Qed.
Lemma getv_addv_old w v u : has w u -> getv (addv w v) u = getv w u.
Proof. unfold has, getv, addv. simpl. intro H. apply app_nth1. auto. Qed.

(* AsDense<T>Vector(x): the new dense vector holds x's values; no existing value changes *)
Lemma step_asdense y w x :
  match x with RS u => Inv (getv (sw w) u) /\ has (sw w) u | RD _ => True end ->
  let r := step3 y w (AsDense x) in
  ok_out r /\ abs3 (fst r) (RD (length (dn w))) = abs3 w x /\ Qw (sw w) (sw (fst r)) /\
  (forall k, hasd w k -> getd (fst r) k = getd w k).
Proof.
  intro H. destruct x as [u|k]; cbn [step3].
  - destruct H as (HI & Hu).
    destruct (as_dense_correct y (sw w) u HI Hu) as (w' & d & E & D & HQ & _). rewrite E.
    unfold ok_out. cbn [fst snd]. split; [auto|]. split; [|split; [exact HQ|]].
    + cbn [abs3]. subst d. exact (getd_addd_new (sets w w') _).
    + intros k Hk. unfold getd, addd, sets. simpl. apply app_nth1. auto.
  - unfold ok_out. cbn [fst snd]. split; [auto|]. split; [cbn [abs3]; apply getd_addd_new|].
    split; [apply Qw_refl|]. intros k' Hk. unfold getd, addd. simpl. apply app_nth1. auto.
Qed.

(* AsSparse<T>Vector(dense): the new sparse vector holds the dense values (every
   position stored), is coherent, and no existing vector changes *)
Lemma step_assparse_dense y w k :
  WWf (sw w) ->
  let r := step3 y w (AsSparse (RD k)) in
  ok_out r /\ abs3 (fst r) (RS (length (vecs (sw w)))) = getd w k /\
  Inv (getv (sw (fst r)) (length (vecs (sw w)))) /\ dn (fst r) = dn w /\
  (forall u, has (sw w) u -> sabs (sw (fst r)) u = sabs (sw w) u).
Proof.
  intro HW. cbn [step3]. destruct (as_sparse (hp (sw w)) (getd w k)) as [h1 r] eqn:E.
  destruct (as_sparse_correct _ _ _ _ E) as (A & D & I & W & (ext & X) & C).
  assert (GN : getv (addv (seth (sw w) h1) r) (length (vecs (sw w))) = r)
    by (apply (getv_addv_new (seth (sw w) h1) r)).
  unfold ok_out. cbn [fst snd sets sw dn]. split; [auto|].
  split; [|split; [|split; [auto|]]].
  - cbn [abs3 sw sets]. unfold sabs. rewrite GN. exact A.
  - rewrite GN. exact I.
  - intros u Hu. unfold sabs. rewrite (getv_addv_old (seth (sw w) h1) r u) by auto. cbn [hp addv seth].
    change (getv (seth (sw w) h1) u) with (getv (sw w) u).
    unfold abs_vec. apply map_ext. intro i. unfold peek.
    destruct (lookup i (vals (getv (sw w) u))) as [l|] eqn:L; auto.
    subst h1. unfold hget. apply app_nth1.
    assert (Wu : Wf (hp (sw w)) (getv (sw w) u)).
    { unfold getv. apply Forall_nth_d; auto. split; simpl; intros; discriminate. }
    eapply (proj1 Wu); eauto.
Qed.

(* --------------------------------------------------------------------- Reset *)
Lemma reset_fold : forall (m : vmap) h l',
  (forall kv, In kv m -> (snd kv < length h)%nat) ->
  hget (fold_left (fun h' kv => hset h' (snd kv) 0) m h) l' =
  if existsb (Nat.eqb l') (map snd m) then 0 else hget h l'.
Proof.
  induction m as [|[k l] m IH]; intros h l' Hl; simpl; auto.
  rewrite IH.
  - destruct (existsb (Nat.eqb l') (map snd m)); [rewrite orb_true_r; auto|].
    rewrite orb_false_r. destruct (Nat.eqb l' l) eqn:E.
    + apply Nat.eqb_eq in E. subst. apply hget_hset_eq. apply (Hl (k, l)). left. auto.
    + apply hget_hset_neq. apply Nat.eqb_neq in E. auto.
  - intros kv H. rewrite hset_length. apply Hl. right. auto.
Qed.

(* v.Reset() on a sparse vector: every element reads 0 afterwards, no other vector changes *)
Lemma step_sparse_reset y w t :
  Good3 w t ->
  let r := step3 y w (VReset (RS t)) in
  ok_out r /\ dn (fst r) = dn w /\
  abs3 (fst r) (RS t) = map (fun _ => 0) (abs3 w (RS t)) /\
  (forall u, u <> t -> sabs (sw (fst r)) u = sabs (sw w) u).
Proof.
  intro HG. apply Good_G in HG. destruct HG as (GI & GW & GS & GH).
  cbn [step3]. unfold ok_out. cbn [fst snd sets sw dn abs3]. split; [auto|]. split; [auto|].
  set (s := sw w). set (h' := reset (hp s) (getv s t)).
  assert (HL : forall kv, In kv (vals (getv s t)) -> (snd kv < length (hp s))%nat).
  { intros [k l] Hin. simpl. destruct (GI t) as (_ & Hnd & _).
    eapply (proj1 (GW t)). apply In_pair_lookup; eauto. }
  assert (HC : forall l, existsb (Nat.eqb l) (map snd (vals (getv s t))) = true <-> cell_in (getv s t) l).
  { intro l. rewrite existsb_exists. split.
    - intros (x & Hin & E). apply Nat.eqb_eq in E. subst x. apply in_map_iff in Hin.
      destruct Hin as ([k l0] & E & Hin). simpl in E. subst l0. exists k.
      destruct (GI t) as (_ & Hnd & _). apply In_pair_lookup; auto.
    - intros (k & L). exists l. split; [|apply Nat.eqb_refl].
      apply in_map_iff. exists (k, l). split; auto. apply lookup_In_pair. auto. }
  split.
  - unfold sabs, abs_vec. cbn [hp seth getv vecs]. change (getv (seth s h') t) with (getv s t).
    rewrite map_map. apply map_ext. intro i. unfold peek.
    destruct (lookup i (vals (getv s t))) as [l|] eqn:L; auto.
    unfold h', reset. rewrite reset_fold by auto.
    destruct (existsb (Nat.eqb l) (map snd (vals (getv s t)))) eqn:E; auto.
    assert (X : cell_in (getv s t) l) by (exists i; auto). apply HC in X. congruence.
  - intros u N. unfold sabs, abs_vec. cbn [hp seth]. change (getv (seth s h') u) with (getv s u).
    apply map_ext. intro i. unfold peek.
    destruct (lookup i (vals (getv s u))) as [l|] eqn:L; auto.
    unfold h', reset. rewrite reset_fold by auto.
    destruct (existsb (Nat.eqb l) (map snd (vals (getv s t)))) eqn:E; auto.
    exfalso. apply HC in E. apply (GS u l N E). exists i. auto.
Qed.
Lemma step_dense_reset y w k :
  hasd w k ->
  let r := step3 y w (VReset (RD k)) in
  ok_out r /\ sw (fst r) = sw w /\ abs3 (fst r) (RD k) = map (fun _ => 0) (abs3 w (RD k)).
Proof.
  intro Hk. cbn [step3]. unfold ok_out. cbn [fst snd abs3]. split; [auto|]. split; [auto|].
  apply getd_setd_eq. auto.
Qed.
