(* C03 — matrices: the NON-joint loops a sparse matrix receiver runs on its
   values vector t (a sparse vector of the C11 world):
     acc_loop   r.AT(k).<op>(x) for a list of (k, x)
     own_map    for it := r.Iterator(); it.Ok(); it.Next() { it.Get().<set>(..) }
     mvisits / vvisits   the ConstIterator sequence of an operand
     put_loop   for it := b.ConstIterator(); ... { r.AT(i, j).<set>(value) } *)
From Coq Require Import ZArith List Bool Lia Sorted.
From ADV Require Import C11.Model C11.Spec C11.ProofsMap C11.ProofsIter C11.ProofsInv C11.ProofsRef
                        C11.ProofsDSort C11.ProofsDOut
                        C03.Model C03.Spec C03.ProofsDense C03.ProofsSem C03.ProofsJoint C03.ModelM
                        C03.ProofsMIter.
Import ListNotations.
Open Scope Z_scope.

(* ---- (1) acc_loop ----------------------------------------------------------------- *)
Lemma acc_loop_spec t (g : Z -> Z -> Z) : forall kxs w,
  G t w -> (forall k x, In (k, x) kxs -> 0 <= k < dim (getv w t)) ->
  exists w', acc_loop g w t kxs = (w', true) /\ G t w' /\ length (vecs w') = length (vecs w) /\
    (forall u, dim (getv w' u) = dim (getv w u)) /\
    (forall i, peek (hp w') (getv w' t) i =
               fold_left (fun acc kx => if fst kx =? i then g acc (snd kx) else acc) kxs (peek (hp w) (getv w t) i)) /\
    (forall u k, u <> t -> peek (hp w') (getv w' u) k = peek (hp w) (getv w u) k).
Proof.
  induction kxs as [|[k x] rest IH]; intros w HG Hk.
  - exists w. simpl. split; [auto|]. split; [auto|]. split; [auto|]. split; [auto|]. split; auto.
  - cbn [acc_loop].
    assert (Hk0 : 0 <= k < dim (getv w t)) by (apply (Hk k x); left; auto).
    destruct (at_step t w k HG Hk0) as (h' & v' & l & E & G1 & L1 & V1 & Len1 & D1 & P1).
    rewrite E. set (w1 := seth (setv w t v') h') in *.
    assert (HX : hget h' l = peek (hp w) (getv w t) k).
    { rewrite <- (P1 t k). rewrite V1. unfold peek. rewrite L1. auto. }
    destruct (wr_spec t w1 k (Some l) (g (hget h' l) x) G1) as (w2 & E2 & G2 & L2 & D2 & P2 & F1 & F2).
    { rewrite D1. auto. }
    { intros l0 X. inversion X. subst l0. rewrite V1. auto. }
    unfold wr in E2. inversion E2. clear E2.
    assert (EW : seth (setv w t v') (hset h' l (g (hget h' l) x)) = w2) by exact H0.
    rewrite EW.
    destruct (IH w2 G2) as (w' & E3 & G3 & L3 & D3 & R3 & F3).
    { intros k0 x0 Hin. rewrite D2, D1. apply (Hk k0 x0). right. auto. }
    exists w'. split; [auto|]. split; [auto|].
    split; [rewrite L3, L2; unfold w1; simpl; apply upd_length|].
    split; [intro u; rewrite D3, D2, D1; auto|]. split.
    + intro i. rewrite R3. cbn [fold_left fst snd]. f_equal.
      destruct (Z.eq_dec k i) as [->|N].
      * rewrite Z.eqb_refl, P2, HX. auto.
      * replace (k =? i) with false by (symmetry; apply Z.eqb_neq; auto).
        rewrite (proj1 (F1 i ltac:(auto))). apply P1.
    + intros u k0 N. rewrite F3 by auto. rewrite (proj1 (F2 u k0 N)). apply P1.
Qed.

(* ---- (2) own_map ------------------------------------------------------------------ *)
(* the iterator only deletes index keys *)
Lemma filter_len_kdel (q : Z -> bool) k : forall l,
  (length (filter q (kdel k l)) <= length (filter q l))%nat.
Proof.
  induction l as [|a l IH]; simpl; [lia|].
  destruct (a =? k); simpl; destruct (q a); simpl; lia.
Qed.
Lemma skip_idx_len (q : Z -> bool) : forall f h v c v' c',
  skip f h v c = Some (v', c') -> (length (filter q (idx v')) <= length (filter q (idx v)))%nat.
Proof.
  induction f as [|f IH]; intros h v c v' c' E; destruct c as [k|]; simpl in E.
  - destruct (isnull h v k); [discriminate|]. inversion E. subst. lia.
  - inversion E. subst. lia.
  - destruct (isnull h v k).
    + apply IH in E. unfold del_entry in E. cbn [idx] in E.
      pose proof (filter_len_kdel q k (idx v)). lia.
    + inversion E. subst. lia.
  - inversion E. subst. lia.
Qed.
Lemma it_next_idx_len q h v c v' c' :
  it_next h v c = Some (v', c') -> (length (filter q (idx v')) <= length (filter q (idx v)))%nat.
Proof.
  unfold it_next. destruct c as [k|].
  - apply skip_idx_len.
  - intro E. inversion E. subst. lia.
Qed.
Lemma filter_len_mono (q1 q2 : Z -> bool) : (forall x, q1 x = true -> q2 x = true) ->
  forall l, (length (filter q1 l) <= length (filter q2 l))%nat.
Proof.
  intros H l. induction l as [|a l IH]; simpl; [lia|].
  destruct (q1 a) eqn:E1.
  - rewrite (H a E1). simpl. lia.
  - destruct (q2 a); simpl; lia.
Qed.
Lemma filter_len_strict (q1 q2 : Z -> bool) k : (forall x, q1 x = true -> q2 x = true) ->
  q1 k = false -> q2 k = true ->
  forall l, In k l -> (length (filter q1 l) < length (filter q2 l))%nat.
Proof.
  intros H K1 K2 l. induction l as [|a l IH]; simpl; [tauto|].
  intros [->|Hin].
  - rewrite K1, K2. simpl. pose proof (filter_len_mono q1 q2 H l). lia.
  - specialize (IH Hin). destruct (q1 a) eqn:E1.
    + rewrite (H a E1). simpl. lia.
    + destruct (q2 a); simpl; lia.
Qed.
Lemma filter_len_le {X} (q : X -> bool) l : (length (filter q l) <= length l)%nat.
Proof. induction l as [|a l IH]; simpl; [lia|]. destruct (q a); simpl; lia. Qed.

Section Own.
Variable t : nat.
Variable g : world -> Z -> Z.
Variable F : Z -> Z.

(* positions < p are final, positions >= p are mapped: r[i] := F i where r[i] <> 0 *)
Lemma own_loop_spec : forall fuel w cur p,
  G t w -> Pos (hp w) (getv w t) cur p ->
  (length (filter (fun x => Z.leb p x) (idx (getv w t))) < fuel)%nat ->
  (forall w1 k, (forall u i, u <> t -> peek (hp w1) (getv w1 u) i = peek (hp w) (getv w u) i) -> g w1 k = F k) ->
  exists w', own_loop g fuel w t cur = Some w' /\ G t w' /\ length (vecs w') = length (vecs w) /\
    (forall u, dim (getv w' u) = dim (getv w u)) /\
    (forall i, peek (hp w') (getv w' t) i =
               if i <? p then peek (hp w) (getv w t) i
               else if peek (hp w) (getv w t) i =? 0 then 0 else F i) /\
    (forall u k, u <> t -> peek (hp w') (getv w' u) k = peek (hp w) (getv w u) k).
Proof.
  induction fuel as [|fu IH]; intros w cur p HG HP Hf Hg; [lia|].
  destruct cur as [k|].
  - cbn [own_loop]. simpl in HP. destruct HP as (P1 & P2 & P3).
    destruct (nonnull_lookup _ _ _ P2) as (l & L & NZ). rewrite L.
    pose proof HG as (GI & GW & GS & GH).
    assert (Hin : In k (idx (getv w t))) by (destruct (GI t) as (_ & _ & H & _); eauto).
    assert (Hk : 0 <= k < dim (getv w t)) by (destruct (GI t) as (_ & _ & _ & H & _); auto).
    assert (Hgk : g w k = F k) by (apply Hg; auto).
    destruct (wr_spec t w k (Some l) (g w k) HG Hk) as (w1 & E1 & G1 & L1 & D1 & Pk & F1 & F2).
    { intros l0 X. inversion X. subst l0. auto. }
    unfold wr in E1. inversion E1. clear E1. rewrite H0.
    pose proof G1 as (GI1 & _ & _ & GH1).
    destruct (it_next_pos (hp w1) (getv w1 t) k (GI1 t)) as (v' & c' & X & Y & Z1 & Z2).
    rewrite X. set (w2 := setv w1 t v').
    assert (Q2 : Qw w1 w2) by (apply Qw_setv; auto).
    assert (G2 : G t w2) by (eapply G_Qw; eauto; apply AInv_setv; auto).
    assert (V2 : getv w2 t = v') by (unfold w2; apply getv_setv_eq; auto).
    destruct (IH w2 c' (k + 1) G2) as (w' & E3 & G3 & L3 & D3 & R3 & F3).
    + change (hp w2) with (hp w1). rewrite V2. auto.
    + rewrite V2.
      pose proof (it_next_idx_len (fun x => k + 1 <=? x) _ _ _ _ _ X) as A1.
      assert (A2 : (length (filter (fun x => Z.leb (k + 1) x) (idx (getv w1 t))) <
                    length (filter (fun x => Z.leb p x) (idx (getv w1 t))))%nat).
      { apply (filter_len_strict _ _ k).
        - intros x Hx. apply Z.leb_le in Hx. apply Z.leb_le. lia.
        - apply Z.leb_gt. lia.
        - apply Z.leb_le. lia.
        - rewrite <- H0. simpl. auto. }
      assert (A3 : idx (getv w1 t) = idx (getv w t)) by (rewrite <- H0; reflexivity).
      rewrite A3 in *. lia.
    + intros w3 k3 H3. apply Hg. intros u i N. rewrite H3 by auto.
      rewrite (Qw_peek w1 w2 u i Q2). apply (proj1 (F2 u i N)).
    + exists w'. split; [auto|]. split; [auto|].
      split; [rewrite L3; destruct Q2 as (_ & Q2 & _); lia|].
      split; [intro u; rewrite D3, (Qw_dim w1 w2 u Q2); auto|]. split.
      * intro i. rewrite R3. rewrite !(Qw_peek w1 w2 t i Q2).
        destruct (Z.eq_dec i k) as [->|N].
        { replace (k <? k + 1) with true by (symmetry; apply Z.ltb_lt; lia).
          replace (k <? p) with false by (symmetry; apply Z.ltb_ge; lia).
          rewrite Pk, Hgk. unfold peek. rewrite L.
          replace (hget (hp w) l =? 0) with false by (symmetry; apply Z.eqb_neq; auto). auto. }
        { rewrite (proj1 (F1 i N)).
          destruct (i <? k + 1) eqn:A; destruct (i <? p) eqn:B; auto.
          - apply Z.ltb_lt in A. apply Z.ltb_ge in B. rewrite P3 by lia. auto.
          - apply Z.ltb_ge in A. apply Z.ltb_lt in B. lia. }
      * intros u i N. rewrite F3 by auto. rewrite (Qw_peek w1 w2 u i Q2). apply (proj1 (F2 u i N)).
  - exists w. cbn [own_loop]. split; [auto|]. split; [auto|]. split; [auto|]. split; [auto|]. split; [|auto].
    intro i. simpl in HP. destruct (i <? p) eqn:A; auto. apply Z.ltb_ge in A.
    rewrite HP by lia. auto.
Qed.

Lemma own_map_spec w :
  G t w ->
  (forall w1 k, (forall u i, u <> t -> peek (hp w1) (getv w1 u) i = peek (hp w) (getv w u) i) -> g w1 k = F k) ->
  exists w', own_map g w t = Some w' /\ G t w' /\ length (vecs w') = length (vecs w) /\
    (forall u, dim (getv w' u) = dim (getv w u)) /\
    (forall i, peek (hp w') (getv w' t) i = if peek (hp w) (getv w t) i =? 0 then 0 else F i) /\
    (forall u k, u <> t -> peek (hp w') (getv w' u) k = peek (hp w) (getv w u) k).
Proof.
  intros HG Hg. unfold own_map. pose proof HG as (GI & _ & _ & GH).
  destruct (it_begin_pos (hp w) (getv w t) (GI t)) as (v' & c' & X & Y & Z1 & Z2).
  rewrite X. set (w0 := setv w t v').
  assert (Q0 : Qw w w0) by (apply Qw_setv; auto).
  assert (G0 : G t w0) by (eapply G_Qw; eauto; apply AInv_setv; auto).
  assert (V0 : getv w0 t = v') by (unfold w0; apply getv_setv_eq; auto).
  destruct (own_loop_spec (S (length (idx (getv w t)))) w0 c' 0 G0) as (w' & E3 & G3 & L3 & D3 & R3 & F3).
  - change (hp w0) with (hp w). rewrite V0. auto.
  - rewrite V0. pose proof (filter_len_le (fun x => 0 <=? x) (idx v')) as A1.
    unfold it_begin in X. pose proof (skip_idx_len (fun _ => true) _ _ _ _ _ _ X) as A2.
    assert (A3 : forall l : list Z, filter (fun _ => true) l = l)
      by (induction l as [|a l IHl]; simpl; [auto|rewrite IHl; auto]).
    rewrite !A3 in A2. lia.
  - intros w1 k H1. apply Hg. intros u i N. rewrite H1 by auto. apply (Qw_peek w w0 u i Q0).
  - exists w'. split; [auto|]. split; [auto|].
    split; [rewrite L3; destruct Q0 as (_ & Q0 & _); lia|].
    split; [intro u; rewrite D3, (Qw_dim w w0 u Q0); auto|]. split.
    + intro i. rewrite R3. rewrite !(Qw_peek w w0 t i Q0).
      destruct (i <? 0) eqn:A; auto. apply Z.ltb_lt in A.
      assert (P0 : peek (hp w) (getv w t) i = 0).
      { apply peek_absent; [apply GI|]. intro Hin. destruct (GI t) as (_ & _ & _ & H & _). apply H in Hin. lia. }
      rewrite P0. auto.
    + intros u i N. rewrite F3 by auto. apply (Qw_peek w w0 u i Q0).
Qed.
End Own.

(* ---- (3) mvisits / vvisits -------------------------------------------------------- *)
(* the non-zero (position, value) pairs of an operand, ascending *)
Definition nzvis (w : world) (o : operand) : list (Z * Z) :=
  filter (fun kx => negb (snd kx =? 0)) (combine (zseq 0 (Z.to_nat (op_dim w o))) (oabs w o)).

Lemma filter_combine_map (f : Z -> Z) : forall l,
  filter (fun kx => negb (snd kx =? 0)) (combine l (map f l)) =
  map (fun k => (k, f k)) (filter (fun k => negb (f k =? 0)) l).
Proof.
  induction l as [|a l IH]; simpl; auto.
  destruct (f a =? 0); simpl; rewrite IH; auto.
Qed.
Lemma nzvis_ord w o :
  nzvis w o = map (fun k => (k, ord w o k))
                  (filter (fun k => negb (ord w o k =? 0)) (zseq 0 (Z.to_nat (op_dim w o)))).
Proof.
  unfold nzvis. rewrite (oabs_ord w o (op_dim w o) eq_refl). apply filter_combine_map.
Qed.
Lemma nzvis_In w o k x :
  In (k, x) (nzvis w o) <-> 0 <= k < op_dim w o /\ x = ord w o k /\ x <> 0.
Proof.
  rewrite nzvis_ord, in_map_iff. split.
  - intros (k0 & E & Hin). inversion E. subst k0 x. clear E.
    apply filter_In in Hin. destruct Hin as [Hin Hnz]. apply zseq_In in Hin.
    apply negb_true_iff, Z.eqb_neq in Hnz. split; [lia|]. split; auto.
  - intros (Hk & Hx & Hnz). exists k. split; [rewrite Hx; auto|].
    apply filter_In. split; [apply zseq_In; lia|]. apply negb_true_iff, Z.eqb_neq. rewrite <- Hx. auto.
Qed.
Lemma nzvis_sorted w o : StronglySorted Z.lt (map fst (nzvis w o)).
Proof.
  rewrite nzvis_ord, map_map. simpl. rewrite map_id. apply sset_filter. apply sset_zseq.
Qed.
Lemma nzvis_Qw w w' o : Qw w w' -> nzvis w' o = nzvis w o.
Proof.
  intro HQ. rewrite !nzvis_ord.
  assert (D : op_dim w' o = op_dim w o) by (destruct o as [u|d]; simpl; [apply Qw_dim; auto|auto]).
  rewrite D. rewrite (filter_ext _ (fun k => negb (ord w o k =? 0))) by (intro k; rewrite (ord_Qw w w' o k HQ); auto).
  apply map_ext. intro k. rewrite (ord_Qw w w' o k HQ). auto.
Qed.
(* a dense vector operand delivers every position *)
Lemma combine_zseq_ord w d :
  combine (zseq 0 (length d)) d = map (fun k => (k, ord w (OD d) k)) (zseq 0 (length d)).
Proof.
  pose proof (oabs_ord w (OD d) (Z.of_nat (length d)) eq_refl) as E. simpl in E. rewrite Nat2Z.id in E.
  rewrite E at 2. generalize (zseq 0 (length d)). intro l.
  induction l as [|a l IH]; simpl; auto. rewrite IH. auto.
Qed.

Lemma iterate_Sub h v v1 s : Inv v -> iterate h v = Some (v1, s) -> Sub v v1.
Proof.
  intros HI E. unfold iterate in E.
  destruct (it_begin_pos h v HI) as (v0 & c0 & B & (Q0 & S0) & I0 & _).
  rewrite B in E. revert E. generalize (sfuel v). intro f.
  assert (GEN : forall g v c acc v1 s, Inv v -> iter_loop g h v c acc = Some (v1, s) -> Sub v v1).
  { clear. induction g as [|g IH]; intros v c acc v1' s' Iv; simpl; destruct c as [k|];
      try (intro X; inversion X; subst; unfold Sub; auto; fail); try discriminate.
    destruct (lookup k (vals v)) as [l|]; [|discriminate].
    destruct (it_next_pos h v k Iv) as (v2 & c2 & N & (Q2 & S2) & I2 & _).
    rewrite N. intro X. apply IH in X; auto. unfold Sub in *. auto. }
  intro E. apply GEN in E; auto. unfold Sub in *. auto.
Qed.

Lemma mvisits_spec t w o :
  G t w -> match o with OS u => u <> t /\ has w u | OD _ => True end ->
  exists w' vis, mvisits w o = Some (w', vis) /\ Qw w w' /\ G t w' /\
    vis = filter (fun kx => negb (snd kx =? 0)) (combine (zseq 0 (Z.to_nat (op_dim w o))) (oabs w o)).
Proof.
  intros HG Ho. destruct o as [u|d].
  - destruct Ho as (_ & Hu). pose proof HG as (GI & _). pose proof (GI u) as HI.
    unfold mvisits.
    destruct (iterate_spec (hp w) (getv w u)) as (v' & E & Eidx & HQ); [apply HI|].
    rewrite E.
    assert (SUB : Sub (getv w u) v') by (eapply iterate_Sub; eauto).
    assert (QW : Qw w (setv w u v')) by (apply Qw_setv; [auto|split; auto]).
    eexists. eexists. split; [reflexivity|]. split; [exact QW|]. split.
    + eapply G_Qw; eauto. apply AInv_setv; auto. eapply Inv_iterate; eauto.
    + cbn [op_dim oabs]. unfold sabs, abs_vec. rewrite filter_combine_map.
      rewrite (visited_keys (hp w) (getv w u) HI).
      unfold cells. rewrite map_map. apply map_ext_in. intros k Hk. cbn [fst snd]. f_equal.
      apply filter_In in Hk. destruct Hk as [_ Hk]. apply nonnull_cell in Hk.
      unfold peek. rewrite Hk. auto.
  - exists w. eexists. split; [reflexivity|]. split; [apply Qw_refl|]. split; [auto|].
    cbn [op_dim oabs]. rewrite Nat2Z.id. auto.
Qed.
(* the same, with the visit list named *)
Lemma mvisits_nzvis t w o :
  G t w -> match o with OS u => u <> t /\ has w u | OD _ => True end ->
  exists w', mvisits w o = Some (w', nzvis w o) /\ Qw w w' /\ G t w'.
Proof.
  intros HG Ho. destruct (mvisits_spec t w o HG Ho) as (w' & vis & E & Q1 & G1 & V).
  exists w'. subst vis. auto.
Qed.

Lemma vvisits_spec t w o :
  G t w -> match o with OS u => u <> t /\ has w u | OD _ => True end ->
  exists w' vis, vvisits w o = Some (w', vis) /\ Qw w w' /\ G t w' /\
    vis = match o with
          | OS _ => filter (fun kx => negb (snd kx =? 0)) (combine (zseq 0 (Z.to_nat (op_dim w o))) (oabs w o))
          | OD d => combine (zseq 0 (length d)) d
          end.
Proof.
  intros HG Ho. destruct o as [u|d].
  - apply (mvisits_spec t w (OS u) HG Ho).
  - exists w. eexists. split; [reflexivity|]. split; [apply Qw_refl|]. split; auto.
Qed.

(* ---- (4) put_loop: r.AT(k) := b[k] at every non-zero position k of the operand ------- *)
Section Put.
Variable t : nat.
Variable n : Z.
Variable V : Z -> Z.

Lemma put_loop_spec : forall fuel w c p,
  G t w -> dim (getv w t) = n -> 0 <= p -> MPos t n w c V p ->
  (Z.to_nat (n - p) < fuel)%nat ->
  exists w', put_loop fuel w t c = Some (w', true) /\ G t w' /\ length (vecs w') = length (vecs w) /\
    (forall u, dim (getv w' u) = dim (getv w u)) /\
    (forall i, peek (hp w') (getv w' t) i =
               if (p <=? i) && negb (V i =? 0) then V i else peek (hp w) (getv w t) i) /\
    (forall u k, u <> t -> peek (hp w') (getv w' u) k = peek (hp w) (getv w u) k).
Proof.
  induction fuel as [|fu IH]; intros w c p HG Hn Hp HM Hf; [lia|].
  cbn [put_loop]. destruct (mcand c) as [k|] eqn:Ec.
  - assert (Eok : mi_ok c = true) by (unfold mcand in Ec; destruct (mi_ok c); [auto|discriminate]).
    assert (Eix : mi_index c = k) by (unfold mcand in Ec; rewrite Eok in Ec; inversion Ec; auto).
    rewrite Eok, Eix.
    destruct (MPos_cand t n w c V p k HG HM Hp Ec) as (Hk & Eg & NZ & Z0).
    rewrite Eg.
    destruct (wr_spec t w k None (V k) HG) as (w1 & E1 & G1 & L1 & D1 & Pk & F1 & F2);
      [lia|intros l X; discriminate|].
    rewrite E1.
    assert (M1 : MPos t n w1 c V p) by (eapply MPos_frame; eauto).
    destruct (MPos_next t n w1 c V p k G1 M1 Ec) as (w2 & c' & E2 & Q2 & I2 & M2).
    rewrite E2.
    assert (G2 : G t w2) by (eapply G_Qw; eauto).
    destruct (IH w2 c' (k + 1) G2) as (w' & E3 & G3 & L3 & D3 & R3 & F3); auto.
    + rewrite (Qw_dim w1 w2 t Q2), D1. auto.
    + lia.
    + lia.
    + exists w'. split; [auto|]. split; [auto|].
      split; [rewrite L3; destruct Q2 as (_ & Q2 & _); lia|].
      split; [intro u; rewrite D3, (Qw_dim w1 w2 u Q2); auto|]. split.
      * intro i. rewrite R3, (Qw_peek w1 w2 t i Q2).
        destruct (Z.eq_dec i k) as [->|N].
        { replace (k + 1 <=? k) with false by (symmetry; apply Z.leb_gt; lia).
          replace (p <=? k) with true by (symmetry; apply Z.leb_le; lia).
          replace (V k =? 0) with false by (symmetry; apply Z.eqb_neq; auto).
          cbn [andb negb]. auto. }
        { rewrite (proj1 (F1 i N)).
          destruct (k + 1 <=? i) eqn:A; destruct (p <=? i) eqn:B; cbn [andb]; auto.
          - apply Z.leb_le in A. apply Z.leb_gt in B. lia.
          - apply Z.leb_gt in A. apply Z.leb_le in B. rewrite Z0 by lia. auto. }
      * intros u i N. rewrite F3 by auto. rewrite (Qw_peek w1 w2 u i Q2). apply (proj1 (F2 u i N)).
  - assert (Eok : mi_ok c = false) by (unfold mcand in Ec; destruct (mi_ok c); [discriminate|auto]).
    rewrite Eok. exists w. split; [auto|]. split; [auto|]. split; [auto|]. split; [auto|]. split; [|auto].
    intro i. destruct (p <=? i) eqn:B; cbn [andb]; auto. apply Z.leb_le in B.
    rewrite (MPos_none t n w c V p HM Ec i B). auto.
Qed.
End Put.

(* the operand iterated from its beginning: mi_begin, then put_loop *)
Lemma put_all_spec t w o :
  G t w -> operand_wk w t o ->
  exists w0 c, mi_begin w o = Some (w0, c) /\
  exists w', put_loop (S (S (Z.to_nat (dim (getv w t))))) w0 t c = Some (w', true) /\ G t w' /\
    length (vecs w') = length (vecs w) /\
    (forall u, dim (getv w' u) = dim (getv w u)) /\
    (forall i, peek (hp w') (getv w' t) i =
               if (0 <=? i) && negb (ord w o i =? 0) then ord w o i else peek (hp w) (getv w t) i) /\
    (forall u k, u <> t -> peek (hp w') (getv w' u) k = peek (hp w) (getv w u) k).
Proof.
  intros HG HO. set (n := dim (getv w t)).
  destruct (MPos_begin t n w o HG HO eq_refl) as (w0 & c & E0 & Q0 & I0 & M0).
  exists w0, c. split; [auto|].
  assert (G0 : G t w0) by (eapply G_Qw; eauto).
  destruct (put_loop_spec t n (ord w o) (S (S (Z.to_nat n))) w0 c 0 G0) as (w' & E & G' & L & D & R & F'); auto.
  - rewrite (Qw_dim w w0 t Q0). auto.
  - lia.
  - lia.
  - exists w'. split; [auto|]. split; [auto|].
    split; [rewrite L; destruct Q0 as (_ & Q0 & _); lia|].
    split; [intro u; rewrite D, (Qw_dim w w0 u Q0); auto|]. split.
    + intro i. rewrite R, (Qw_peek w w0 t i Q0). auto.
    + intros u i N. rewrite F' by auto. apply (Qw_peek w w0 u i Q0).
Qed.
