(* C03 — step3-level statements for a sparse receiver that is also an operand
   (r.VaddV(r, b), r.VmulV(a, r), r.VsubV(r, r), r.VmulS(r, c), r.Set(r),
   r.Equals(r, eps) ...): the element-wise result is the textbook one, computed
   from the values the receiver held BEFORE the call.  Built on ProofsAlias.v. *)
From Coq Require Import ZArith List Bool Lia.
From ADV Require Import C11.Model C11.Spec C11.ProofsMap C11.ProofsRef C03.Model C03.Spec C03.ProofsDense
                        C03.ProofsSem C03.ProofsJoint C03.ProofsConv C03.ProofsOps C03.ProofsAlias.
Import ListNotations.
Open Scope Z_scope.

(* an operand of the sparse receiver t: any vector of the same dimension, the
   receiver itself included *)
Definition operand3a (w : w3) (t : nat) (x : vref) : Prop :=
  match x with
  | RS u => has (sw w) u /\ dim (getv (sw w) u) = dim (getv (sw w) t)
  | RD k => hasd w k /\ zlen (getd w k) = dim (getv (sw w) t)
  end.
Lemma operand3a_ok w t x : operand3a w t x -> operand_ok3a (sw w) t (to_op w x).
Proof. destruct x; simpl; tauto. Qed.
Lemma operand3_a w t x : operand3 w t x -> match x with RS _ => True | RD k => hasd w k end -> operand3a w t x.
Proof. destruct x; simpl; tauto. Qed.
Lemma operand3a_self w t : Good3 w t -> operand3a w t (RS t).
Proof. intros (_ & _ & _ & H). simpl. auto. Qed.

Lemma step_sparse_vopv_alias y f w t a b :
  Good3 w t -> operand3a w t a -> operand3a w t b ->
  let r := step3 y w (VopV f (RS t) a b) in
  ok_out r /\ same_but_s w (fst r) t /\ G t (sw (fst r)) /\
  abs3 (fst r) (RS t) = map2 (bop_f f) (abs3 w a) (abs3 w b).
Proof.
  intros HG Ha Hb. cbn [step3].
  destruct (vop3_correct_alias t (bop_f f)) with (w := sw w) (o2 := to_op w a) (o3 := to_op w b)
    as (w' & E & G' & L & R & F & D).
  - destruct f; reflexivity.
  - apply Good_G. exact HG.
  - apply operand3a_ok. auto.
  - apply operand3a_ok. auto.
  - rewrite E. unfold lift, ok_out, same_but_s. simpl. rewrite R, !oabs_to_op. auto.
Qed.

Lemma step_sparse_unary_alias (f : Z -> Z) w t a r :
  f 0 = 0 -> Good3 w t -> operand3a w t a ->
  r = lift w (vop2 f (sw w) t (to_op w a)) ->
  ok_out r /\ same_but_s w (fst r) t /\ G t (sw (fst r)) /\
  abs3 (fst r) (RS t) = map f (abs3 w a).
Proof.
  intros f0 HG Ha ->.
  destruct (vop2_correct_alias t f (sw w) (to_op w a) f0 (Good_G _ _ HG) (operand3a_ok _ _ _ Ha))
    as (w' & E & G' & L & R & F & D).
  rewrite E. unfold lift, ok_out, same_but_s. simpl. rewrite R, !oabs_to_op. auto.
Qed.

Lemma step_sparse_vmuls_alias y w t a c :
  Good3 w t -> operand3a w t a ->
  let r := step3 y w (VmulS (RS t) a c) in
  ok_out r /\ same_but_s w (fst r) t /\ G t (sw (fst r)) /\
  abs3 (fst r) (RS t) = map (fun x => x * c) (abs3 w a).
Proof. intros HG Ha. apply step_sparse_unary_alias; auto. Qed.

Lemma step_sparse_vdivs_alias y w t a c :
  Good3 w t -> operand3a w t a -> c <> 0 ->
  let r := step3 y w (VdivS (RS t) a c) in
  ok_out r /\ same_but_s w (fst r) t /\ G t (sw (fst r)) /\
  abs3 (fst r) (RS t) = map (fun x => Z.quot x c) (abs3 w a).
Proof.
  intros HG Ha Hc. apply step_sparse_unary_alias; auto.
  cbn [step3]. unfold vdivs. destruct (c =? 0) eqn:E; auto. apply Z.eqb_eq in E. contradiction.
Qed.

(* r.Set(x), x possibly r (then nothing happens) *)
Lemma step_sparse_vset_alias y w t a :
  Good3 w t -> operand3a w t a ->
  let r := step3 y w (VSet (RS t) a) in
  ok_out r /\ same_but_s w (fst r) t /\ G t (sw (fst r)) /\
  abs3 (fst r) (RS t) = abs3 w a.
Proof.
  intros HG Ha. cbn [step3].
  destruct (vset_correct_alias t (sw w) (to_op w a) (Good_G _ _ HG) (operand3a_ok _ _ _ Ha))
    as (w' & E & G' & L & R & F & D).
  rewrite E. unfold lift, ok_out, same_but_s. simpl. rewrite R, !oabs_to_op. auto.
Qed.

Lemma step_sparse_equals_alias y w t b e2 :
  0 < e2 -> Good3 w t -> operand3a w t b ->
  exists w', step3 y w (VEquals (RS t) b e2) =
               (w', (K_OK, [b2z (all_close e2 (abs3 w (RS t)) (abs3 w b))])) /\
             Qw (sw w) (sw w') /\ dn w' = dn w /\ G t (sw w').
Proof.
  intros He HG Hb. cbn [step3].
  destruct (vequals_alias t e2 (sw w) (to_op w b) He (Good_G _ _ HG) (operand3a_ok _ _ _ Hb)) as (s' & E & HQ & G').
  rewrite E. exists (sets w s'). rewrite oabs_to_op. simpl. auto.
Qed.
(* a vector is close to itself: r.Equals(r, eps) answers true for eps > 0 *)
Lemma all_close_refl e2 l : 0 < e2 -> all_close e2 l l = true.
Proof.
  intro He. unfold all_close. induction l as [|x l IH]; simpl; auto.
  rewrite IH, andb_true_r. unfold close. rewrite Z.sub_diag. simpl. apply Z.ltb_lt. lia.
Qed.
Lemma step_sparse_equals_self y w t e2 :
  0 < e2 -> Good3 w t ->
  exists w', step3 y w (VEquals (RS t) (RS t) e2) = (w', (K_OK, [1])) /\
             Qw (sw w) (sw w') /\ dn w' = dn w /\ G t (sw w').
Proof.
  intros He HG.
  destruct (step_sparse_equals_alias y w t (RS t) e2 He HG (operand3a_self w t HG)) as (w' & E & X).
  exists w'. rewrite all_close_refl in E by auto. auto.
Qed.

Lemma step_sparse_vadds_alias y w t a c :
  Good3 w t -> operand3a w t a ->
  let r := step3 y w (VaddS (RS t) a c) in
  ok_out r /\ same_but_s w (fst r) t /\ G t (sw (fst r)) /\
  abs3 (fst r) (RS t) = map (fun x => x + c) (abs3 w a).
Proof.
  intros HG Ha. cbn [step3].
  destruct (vopS_correct_alias t (fun w1 i => Some (ord w1 (to_op w a) i + c)) (fun x => x + c) (sw w) (to_op w a))
    as (w' & E & G' & L & R & F & D).
  - apply Good_G. exact HG.
  - apply operand3a_ok. auto.
  - intros w1 k H. rewrite H. auto.
  - rewrite E. unfold lift2, ok_out, same_but_s. simpl. rewrite R, !oabs_to_op. auto.
Qed.
Lemma step_sparse_vsubs_alias y w t a c :
  Good3 w t -> operand3a w t a ->
  let r := step3 y w (VsubS (RS t) a c) in
  ok_out r /\ same_but_s w (fst r) t /\ G t (sw (fst r)) /\
  abs3 (fst r) (RS t) = map (fun x => x - c) (abs3 w a).
Proof.
  intros HG Ha. cbn [step3].
  destruct (vopS_correct_alias t (fun w1 i => Some (ord w1 (to_op w a) i - c)) (fun x => x - c) (sw w) (to_op w a))
    as (w' & E & G' & L & R & F & D).
  - apply Good_G. exact HG.
  - apply operand3a_ok. auto.
  - intros w1 k H. rewrite H. auto.
  - rewrite E. unfold lift2, ok_out, same_but_s. simpl. rewrite R, !oabs_to_op. auto.
Qed.
(* VdivS by the scalar 0 on a non-integer element type: the index loop stores the
   code of +-Inf / NaN at EVERY position (also when a is r) *)
Definition div0 (x : Z) : Z := if 0 <? x then PINF else if x <? 0 then NINF else NAN.
Lemma step_sparse_vdivs0_alias y w t a :
  y <> TInt -> Good3 w t -> operand3a w t a ->
  let r := step3 y w (VdivS (RS t) a 0) in
  ok_out r /\ same_but_s w (fst r) t /\ G t (sw (fst r)) /\
  abs3 (fst r) (RS t) = map div0 (abs3 w a).
Proof.
  intros Hy HG Ha. cbn [step3]. unfold vdivs. cbn [Z.eqb].
  destruct (vopS_correct_alias t (fun w1 i => sdiv y (ord w1 (to_op w a) i) 0) div0 (sw w) (to_op w a))
    as (w' & E & G' & L & R & F & D).
  - apply Good_G. exact HG.
  - apply operand3a_ok. auto.
  - intros w1 k H. rewrite H. unfold sdiv, div0. cbn [Z.eqb]. destruct y; auto. congruence.
  - rewrite E. unfold lift, ok_out, same_but_s. simpl. rewrite R, !oabs_to_op. auto.
Qed.

Lemma step_sparse_vdivv_alias y w t a b :
  Good3 w t -> operand3a w t a -> operand3a w t b -> nonzero_all (abs3 w b) ->
  let r := step3 y w (VdivV (RS t) a b) in
  ok_out r /\ same_but_s w (fst r) t /\ G t (sw (fst r)) /\
  abs3 (fst r) (RS t) = map2 Z.quot (abs3 w a) (abs3 w b).
Proof.
  intros HG Ha Hb Hnz. cbn [step3].
  destruct (vdivv_correct_alias t y (sw w) (to_op w a) (to_op w b)) as (w' & E & G' & L & R & F & D).
  - apply Good_G. exact HG.
  - apply operand3a_ok. auto.
  - apply operand3a_ok. auto.
  - rewrite oabs_to_op. auto.
  - rewrite E. unfold lift2, ok_out, same_but_s. simpl. rewrite R, !oabs_to_op. auto.
Qed.

(* the property itself, receiver aliased on both sides: d.Op(d, b) on a dense d and
   s.Op(s, b') on a sparse s holding the same values give the same values *)
Lemma storage_independence_alias_lemma y f w k t a b a' b' :
  hasd w k -> vdim w a = zlen (getd w k) -> vdim w b = zlen (getd w k) ->
  Good3 w t -> operand3a w t a' -> operand3a w t b' ->
  abs3 w a = abs3 w a' -> abs3 w b = abs3 w b' ->
  abs3 (fst (step3 y w (VopV f (RD k) a b))) (RD k) =
  abs3 (fst (step3 y w (VopV f (RS t) a' b'))) (RS t).
Proof.
  intros H1 H2 H3 H4 H5 H6 E1 E2.
  destruct (step_dense_vopv y f w k a b H1 H2 H3) as (_ & _ & X).
  destruct (step_sparse_vopv_alias y f w t a' b' H4 H5 H6) as (_ & _ & _ & Y).
  rewrite X, Y, E1, E2. reflexivity.
Qed.

(* the hypotheses are satisfiable by a non-trivial instance: a receiver with a
   stored zero used as both operands / as one operand next to a dense / sparse one *)
Ltac inpairs H := simpl in H;
  repeat match type of H with
         | _ \/ _ => destruct H as [H|H]
         | (_, _) = (_, _) => inversion H; subst; clear H
         | False => contradiction
         end.
Example alias_instance_good :
  let w := run3 TFloat init3 [NewS [3; 0] [7; 5] 5; SetAt (RS 0) 1 0; NewD [0; 0; 2; 0; 4]; NewS [4; 2] [-4; 1] 5] in
  Good3 w 0.
Proof.
  intro w. unfold Good3.
  assert (E : sw w = {| hp := [7; 5; 0; -4; 1];
         vecs := [{| vals := [(1, 2%nat); (0, 1%nat); (3, 0%nat)]; idx := [0; 1; 3]; dim := 5 |};
            {| vals := [(2, 4%nat); (4, 3%nat)]; idx := [2; 4]; dim := 5 |}] |}) by (vm_compute; reflexivity).
  rewrite E. clear E w. unfold Good. split; [|split; [|split]].
  - unfold WInv. cbn [vecs]. constructor; [|constructor; [|constructor]].
    all: unfold Inv; cbn [vals idx dim map fst].
    all: split; [repeat constructor; lia|].
    all: split; [repeat constructor; simpl; intuition lia|].
    all: split; [intros k l H; apply lookup_In_pair in H; inpairs H; simpl; auto|].
    all: split; [simpl; intros k H; intuition lia|lia].
  - unfold WWf. cbn [vecs hp]. constructor; [|constructor; [|constructor]].
    all: unfold Wf; cbn [vals].
    all: split; [intros k l H; apply lookup_In_pair in H; inpairs H; simpl; lia|].
    all: intros k1 k2 l H1 H2; apply lookup_In_pair in H1; apply lookup_In_pair in H2; inpairs H1; inpairs H2; try reflexivity; try discriminate.
  - intros u l N (k1 & L1) (k2 & L2). unfold getv in *. cbn [vecs] in *.
    destruct u as [|[|u]]; [congruence| |].
    + cbn [nth vals] in *. apply lookup_In_pair in L1. apply lookup_In_pair in L2. inpairs L1; inpairs L2; discriminate.
    + cbn [nth] in L2. destruct u; simpl in L2; discriminate.
  - unfold has. simpl. lia.
Qed.
Example alias_instance :
  let w := run3 TFloat init3 [NewS [3; 0] [7; 5] 5; SetAt (RS 0) 1 0; NewD [0; 0; 2; 0; 4]; NewS [4; 2] [-4; 1] 5] in
  operand3a w 0 (RS 0) /\ operand3a w 0 (RD 0) /\ operand3a w 0 (RS 1) /\
  abs3 (fst (step3 TFloat w (VopV Add (RS 0) (RS 0) (RS 0)))) (RS 0) = [10; 0; 0; 14; 0] /\
  abs3 (fst (step3 TFloat w (VopV C03.Model.Sub (RS 0) (RD 0) (RS 0)))) (RS 0) = [-5; 0; 2; -7; 4] /\
  abs3 (fst (step3 TFloat w (VopV Mul (RS 0) (RS 0) (RS 1)))) (RS 0) = [0; 0; 0; 0; 0] /\
  abs3 (fst (step3 TFloat w (VaddS (RS 0) (RS 0) 2))) (RS 0) = [7; 2; 2; 9; 2].
Proof. vm_compute. repeat split; auto; lia. Qed.
