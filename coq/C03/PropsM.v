(* C03 — property theorems for MATRICES (round 2; statements only, proofs in
   ProofsMDense.v, ProofsMIter.v, ProofsMJ.v, ProofsMLoops.v, ProofsMSet.v,
   ProofsMDot.v, ProofsMInd.v).  Model: ModelM.v (sparse matrix = header + ONE
   sparse vector of the C11 world holding the row-major entries; dense matrix =
   row-major list).  WHOLE matrices only: every matrix of ModelM.v has
   rowOffset = colOffset = 0, rowMax = rows, colMax = cols and is not
   transposed; Slice / T views are C10's subject (its findings) and are not
   representable here.  [mabs w x] = the row-major value list of matrix x;
   matmul / outer / matvec / vecmat / identity: SpecM.v (textbook definitions).
   Sparse receiver XS k: ANY coherent internal state (GoodM: stale entries,
   stored zeros, value-less index keys), operands dense or OTHER sparse
   matrices/vectors; dense receiver XD k: operands dense or sparse, possibly the
   receiver itself. *)
From Coq Require Import ZArith List Bool Lia.
From ADV Require Import C11.Model C11.Spec C03.Model C03.Spec C03.ProofsSem C03.ModelM C03.ProofsM C03.SpecM C03.ProofsMBase
                        C03.ProofsMDense C03.ProofsMIter C03.ProofsMJ C03.ProofsMLoops C03.ProofsMSet C03.ProofsMDot C03.ProofsMDot2 C03.ProofsMInd.
Import ListNotations.
Open Scope Z_scope.

(* ---- M1. sparse receiver: element-wise operations through the MATRIX joint iterator ----------- *)
(* the matrix joint iterator itself (its Ok() is VALUE based, dense matrix operand
   iterators skip zeros): from any state in which the three iterators stand at
   "first non-zero position >= p", Next() either reports the end - then receiver
   and both operands are zero from p on - or selects the least index i >= p at
   which one of them is non-zero, hands out exactly the operands' values at i, the
   receiver's cell if it has one, and leaves the iterators at "first non-zero
   position >= i+1"; it never changes a value (Qw) *)
Theorem matrix_joint_iterator_exact : forall t n A B w j p,
  MJ3 t n A B w j p ->
  exists w' j', mj3_next w t j = Some (w', j') /\ Qw w w' /\ G t w' /\
    ((mj3_ok w' j' = false /\
      forall i, p <= i -> peek (hp w) (getv w t) i = 0 /\ A i = 0 /\ B i = 0) \/
     (mj3_ok w' j' = true /\ p <= midx j' < n /\
      (forall i, p <= i < midx j' -> peek (hp w) (getv w t) i = 0 /\ A i = 0 /\ B i = 0) /\
      jval (ms2 j') = A (midx j') /\ jval (ms3 j') = B (midx j') /\
      (forall l, ms1 j' = Some l -> lookup (midx j') (vals (getv w' t)) = Some l) /\
      (ms1 j' = None -> peek (hp w) (getv w t) (midx j') = 0) /\
      MJ3 t n A B w' j' (midx j' + 1))).
Proof. exact mj3_next_spec. Qed.
(* MaddM / MsubM / MmulM *)
Theorem sparse_matrix_elementwise : forall y f w k a b,
  GoodM w k -> mwf w a -> mwf w b -> mother w (mvec w k) a -> mother w (mvec w k) b ->
  mdims w a = mdims w (XS k) -> mdims w b = mdims w (XS k) ->
  let r := step4 y w (MopM f (XS k) a b) in
  ok_out4 r /\ same_but_sm w (fst r) (mvec w k) /\ G (mvec w k) (sw (b3 (fst r))) /\
  mabs (fst r) (XS k) = map2 (bop_f f) (mabs w a) (mabs w b).
Proof. exact step_sparse_mopm. Qed.
Theorem sparse_matrix_muls : forall y w k a c,
  GoodM w k -> mwf w a -> mother w (mvec w k) a -> mdims w a = mdims w (XS k) ->
  let r := step4 y w (MmulS (XS k) a c) in
  ok_out4 r /\ same_but_sm w (fst r) (mvec w k) /\ G (mvec w k) (sw (b3 (fst r))) /\
  mabs (fst r) (XS k) = map (fun x => x * c) (mabs w a).
Proof. exact step_sparse_mmuls. Qed.
Theorem sparse_matrix_divs : forall y w k a c,
  c <> 0 -> GoodM w k -> mwf w a -> mother w (mvec w k) a -> mdims w a = mdims w (XS k) ->
  let r := step4 y w (MdivS (XS k) a c) in
  ok_out4 r /\ same_but_sm w (fst r) (mvec w k) /\ G (mvec w k) (sw (b3 (fst r))) /\
  mabs (fst r) (XS k) = map (fun x => Z.quot x c) (mabs w a).
Proof. exact step_sparse_mdivs. Qed.
Theorem sparse_matrix_adds : forall y w k a c,
  GoodM w k -> mwf w a -> mother w (mvec w k) a -> mdims w a = mdims w (XS k) ->
  let r := step4 y w (MaddS (XS k) a c) in
  ok_out4 r /\ same_but_sm w (fst r) (mvec w k) /\ G (mvec w k) (sw (b3 (fst r))) /\
  mabs (fst r) (XS k) = map (fun x => x + c) (mabs w a).
Proof. exact step_sparse_madds. Qed.
Theorem sparse_matrix_subs : forall y w k a c,
  GoodM w k -> mwf w a -> mother w (mvec w k) a -> mdims w a = mdims w (XS k) ->
  let r := step4 y w (MsubS (XS k) a c) in
  ok_out4 r /\ same_but_sm w (fst r) (mvec w k) /\ G (mvec w k) (sw (b3 (fst r))) /\
  mabs (fst r) (XS k) = map (fun x => x - c) (mabs w a).
Proof. exact step_sparse_msubs. Qed.
Theorem sparse_matrix_division : forall y w k a b,
  GoodM w k -> mwf w a -> mother w (mvec w k) a -> mdims w a = mdims w (XS k) ->
  mwf w b -> mother w (mvec w k) b -> mdims w b = mdims w (XS k) ->
  nonzero_all (mabs w b) ->
  let r := step4 y w (MdivM (XS k) a b) in
  ok_out4 r /\ same_but_sm w (fst r) (mvec w k) /\ G (mvec w k) (sw (b3 (fst r))) /\
  mabs (fst r) (XS k) = map2 Z.quot (mabs w a) (mabs w b).
Proof. exact step_sparse_mdivm. Qed.
(* Equals is the point-wise predicate for every epsilon > 0 (HEAD, after fc1915b: an absent receiver entry counts as 0) *)
Theorem sparse_matrix_equals : forall y w k b e2,
  0 < e2 -> GoodM w k -> mwf w b -> mother w (mvec w k) b -> mdims w b = mdims w (XS k) ->
  exists w', step4 y w (MEquals (XS k) b e2) =
               (w', (K_OK, [b2z (all_close e2 (mabs w (XS k)) (mabs w b))])) /\
    sms w' = sms w /\ dms w' = dms w /\ dn (b3 w') = dn (b3 w) /\
    Qw (sw (b3 w)) (sw (b3 w')) /\ G (mvec w k) (sw (b3 w')).
Proof. exact step_sparse_mequals. Qed.
Theorem sparse_matrix_set : forall y w k a,
  GoodM w k -> mwf w a -> mother w (mvec w k) a -> mdims w a = mdims w (XS k) ->
  let r := step4 y w (MSet (XS k) a) in
  ok_out4 r /\ same_but_sm w (fst r) (mvec w k) /\ G (mvec w k) (sw (b3 (fst r))) /\
  mabs (fst r) (XS k) = mabs w a.
Proof. exact step_sparse_mset. Qed.
Theorem sparse_matrix_setidentity : forall y w k,
  GoodM w k ->
  let r := step4 y w (MSetIdentity (XS k)) in
  ok_out4 r /\ same_but_sm w (fst r) (mvec w k) /\ G (mvec w k) (sw (b3 (fst r))) /\
  mabs (fst r) (XS k) = identity (fst (mdims w (XS k))) (snd (mdims w (XS k))).
Proof. exact step_sparse_msetidentity. Qed.
Theorem sparse_matrix_reset : forall y w k,
  GoodM w k ->
  let r := step4 y w (MReset (XS k)) in
  ok_out4 r /\ same_but_sm w (fst r) (mvec w k) /\ G (mvec w k) (sw (b3 (fst r))) /\
  mabs (fst r) (XS k) = map (fun _ => 0) (mabs w (XS k)).
Proof. exact step_sparse_mreset. Qed.

(* ---- M2. sparse receiver: products ------------------------------------------------------------------ *)
(* MdotM = the matrix product sum_q a[i,q] b[q,j], whatever the receiver held before (the reset that c117908 added is part of the model); empty matrices excluded: storageLocation() panics on them, dense or sparse alike *)
Theorem sparse_matrix_mdotm : forall y w k a b n m p,
  GoodM w k -> mwf w a -> mwf w b -> mother w (mvec w k) a -> mother w (mvec w k) b ->
  mdims w (XS k) = (n, p) -> mdims w a = (n, m) -> mdims w b = (m, p) -> 0 < n -> 0 < m -> 0 < p ->
  let r := step4 y w (MdotM (XS k) a b) in
  ok_out4 r /\ same_but_sm w (fst r) (mvec w k) /\ G (mvec w k) (sw (b3 (fst r))) /\
  mabs (fst r) (XS k) = matmul (mabs w a) (mabs w b) n m p.
Proof. exact step_sparse_mdotm. Qed.
Theorem sparse_matrix_outer : forall y w k a b n m,
  GoodM w k -> vwf w a -> vwf w b -> vother (mvec w k) a -> vother (mvec w k) b ->
  mdims w (XS k) = (n, m) -> vlen w a = n -> vlen w b = m ->
  let r := step4 y w (MOuter (XS k) a b) in
  ok_out4 r /\ same_but_sm w (fst r) (mvec w k) /\ G (mvec w k) (sw (b3 (fst r))) /\
  mabs (fst r) (XS k) = outer (abs3 (b3 w) a) (abs3 (b3 w) b) n m.
Proof. exact step_sparse_mouter. Qed.
Theorem sparse_vector_mdotv : forall y w t a b n m,
  Good (sw (b3 w)) t -> mwf w a -> mother w t a -> vwf w b -> vother t b ->
  mdims w a = (n, m) -> vlen w (RS t) = n -> vlen w b = m -> 0 < n -> 0 < m ->
  let r := step4 y w (MdotV (RS t) a b) in
  ok_out4 r /\ same_but_sm w (fst r) t /\ G t (sw (b3 (fst r))) /\
  abs3 (b3 (fst r)) (RS t) = matvec (mabs w a) (abs3 (b3 w) b) n m.
Proof. exact step_sparse_mdotv. Qed.
Theorem sparse_vector_vdotm : forall y w t a b n m,
  Good (sw (b3 w)) t -> vwf w a -> vother t a -> mwf w b -> mother w t b ->
  mdims w b = (n, m) -> vlen w (RS t) = m -> vlen w a = n -> 0 < n -> 0 < m ->
  let r := step4 y w (VdotM (RS t) a b) in
  ok_out4 r /\ same_but_sm w (fst r) t /\ G t (sw (b3 (fst r))) /\
  abs3 (b3 (fst r)) (RS t) = vecmat (abs3 (b3 w) a) (mabs w b) n m.
Proof. exact step_sparse_vdotm. Qed.

(* ---- M3. dense receiver ----------------------------------------------------------------------------- *)
Theorem dense_matrix_elementwise : forall y f w k a b,
  dm_ok w k -> mwf w a -> mwf w b -> mdims w a = mdims w (XD k) -> mdims w b = mdims w (XD k) ->
  let r := step4 y w (MopM f (XD k) a b) in
  ok_out4 r /\ same_but_dm w (fst r) k /\ mabs (fst r) (XD k) = map2 (bop_f f) (mabs w a) (mabs w b).
Proof. exact step_dense_mopm. Qed.
Theorem dense_matrix_division : forall y w k a b,
  dm_ok w k -> mwf w a -> mwf w b -> mdims w a = mdims w (XD k) -> mdims w b = mdims w (XD k) ->
  nonzero_all (mabs w b) ->
  let r := step4 y w (MdivM (XD k) a b) in
  ok_out4 r /\ same_but_dm w (fst r) k /\ mabs (fst r) (XD k) = map2 Z.quot (mabs w a) (mabs w b).
Proof. exact step_dense_mdivm. Qed.
Theorem dense_matrix_adds : forall y w k a c,
  dm_ok w k -> mwf w a -> mdims w a = mdims w (XD k) ->
  let r := step4 y w (MaddS (XD k) a c) in
  ok_out4 r /\ same_but_dm w (fst r) k /\ mabs (fst r) (XD k) = map (fun x => x + c) (mabs w a).
Proof. exact step_dense_madds. Qed.
Theorem dense_matrix_subs : forall y w k a c,
  dm_ok w k -> mwf w a -> mdims w a = mdims w (XD k) ->
  let r := step4 y w (MsubS (XD k) a c) in
  ok_out4 r /\ same_but_dm w (fst r) k /\ mabs (fst r) (XD k) = map (fun x => x - c) (mabs w a).
Proof. exact step_dense_msubs. Qed.
Theorem dense_matrix_muls : forall y w k a c,
  dm_ok w k -> mwf w a -> mdims w a = mdims w (XD k) ->
  let r := step4 y w (MmulS (XD k) a c) in
  ok_out4 r /\ same_but_dm w (fst r) k /\ mabs (fst r) (XD k) = map (fun x => x * c) (mabs w a).
Proof. exact step_dense_mmuls. Qed.
Theorem dense_matrix_divs : forall y w k a c,
  dm_ok w k -> mwf w a -> mdims w a = mdims w (XD k) -> c <> 0 ->
  let r := step4 y w (MdivS (XD k) a c) in
  ok_out4 r /\ same_but_dm w (fst r) k /\ mabs (fst r) (XD k) = map (fun x => Z.quot x c) (mabs w a).
Proof. exact step_dense_mdivs. Qed.
Theorem dense_matrix_set : forall y w k a,
  dm_ok w k -> mwf w a -> mdims w a = mdims w (XD k) ->
  let r := step4 y w (MSet (XD k) a) in
  ok_out4 r /\ same_but_dm w (fst r) k /\ mabs (fst r) (XD k) = mabs w a.
Proof. exact step_dense_mset. Qed.
Theorem dense_matrix_setidentity : forall y w k,
  dm_ok w k ->
  let r := step4 y w (MSetIdentity (XD k)) in
  ok_out4 r /\ same_but_dm w (fst r) k /\
  mabs (fst r) (XD k) = identity (fst (mdims w (XD k))) (snd (mdims w (XD k))).
Proof. exact step_dense_msetidentity. Qed.
Theorem dense_matrix_reset : forall y w k,
  dm_ok w k ->
  let r := step4 y w (MReset (XD k)) in
  ok_out4 r /\ same_but_dm w (fst r) k /\ mabs (fst r) (XD k) = map (fun _ => 0) (mabs w (XD k)).
Proof. exact step_dense_mreset. Qed.
Theorem dense_matrix_equals : forall y w k b e2,
  dm_ok w k -> mwf w b -> mdims w b = mdims w (XD k) ->
  step4 y w (MEquals (XD k) b e2) = (w, (K_OK, [b2z (all_close e2 (mabs w (XD k)) (mabs w b))])).
Proof. exact step_dense_mequals. Qed.
Theorem dense_matrix_mdotm : forall y w k a b n m p,
  dm_ok w k -> mwf w a -> mwf w b ->
  mdims w (XD k) = (n, p) -> mdims w a = (n, m) -> mdims w b = (m, p) ->
  0 < n -> 0 < m -> 0 < p ->
  (forall kb, b = XS kb -> WWf (sw (b3 w))) ->
  rab_alias k a b = false ->      (* not r.MdotM(r, r): see mdotm_rr_refuted (known finding F-MDOTM-RR) *)
  let r := step4 y w (MdotM (XD k) a b) in
  ok_out4 r /\ same_but_dm w (fst r) k /\ mabs (fst r) (XD k) = matmul (mabs w a) (mabs w b) n m p.
Proof. exact step_dense_mdotm. Qed.
Theorem dense_matrix_outer : forall y w k a b n m,
  dm_ok w k -> vwf w a -> vwf w b -> mdims w (XD k) = (n, m) -> vlen w a = n -> vlen w b = m ->
  let r := step4 y w (MOuter (XD k) a b) in
  ok_out4 r /\ same_but_dm w (fst r) k /\ mabs (fst r) (XD k) = outer (abs3 (b3 w) a) (abs3 (b3 w) b) n m.
Proof. exact step_dense_mouter. Qed.
Theorem dense_vector_mdotv : forall y w k a b n m,
  hasd (b3 w) k -> mwf w a -> vwf w b -> mdims w a = (n, m) -> zlen (getd (b3 w) k) = n -> vlen w b = m ->
  0 < n -> 0 < m -> b <> RD k ->
  let r := step4 y w (MdotV (RD k) a b) in
  ok_out4 r /\ same_but_dv w (fst r) k /\ getd (b3 (fst r)) k = matvec (mabs w a) (abs3 (b3 w) b) n m.
Proof. exact step_dense_mdotv. Qed.
Theorem dense_vector_vdotm : forall y w k a b n m,
  hasd (b3 w) k -> vwf w a -> mwf w b -> mdims w b = (n, m) -> zlen (getd (b3 w) k) = m -> vlen w a = n ->
  0 < n -> 0 < m -> a <> RD k ->
  let r := step4 y w (VdotM (RD k) a b) in
  ok_out4 r /\ same_but_dv w (fst r) k /\ getd (b3 (fst r)) k = vecmat (abs3 (b3 w) a) (mabs w b) n m.
Proof. exact step_dense_vdotm. Qed.

(* ---- M4. conversions keep every element ------------------------------------------------------------ *)
(* NewSparse<T>Matrix(rows, cols) + entries: every listed entry is there, everything else reads 0, the new matrix is coherent *)
Theorem conversion_new_sparse_matrix : forall y w ks xs r c,
  WInv (sw (b3 w)) -> WWf (sw (b3 w)) ->
  NoDup ks -> length ks = length xs -> (forall k, In k ks -> 0 <= k < r * c) -> 0 <= r -> 0 <= c ->
  let res := step4 y w (NewSM ks xs r c) in
  let m := length (sms w) in
  let t := length (vecs (sw (b3 w))) in
  ok_out4 res /\ sms (fst res) = sms w ++ [(t, r, c)] /\ dms (fst res) = dms w /\ dn (b3 (fst res)) = dn (b3 w) /\
  GoodM (fst res) m /\ mvec (fst res) m = t /\ mdims (fst res) (XS m) = (r, c) /\
  G t (sw (b3 (fst res))) /\ length (vecs (sw (b3 (fst res)))) = S t /\
  (forall u, u <> t -> dim (getv (sw (b3 (fst res))) u) = dim (getv (sw (b3 w)) u)) /\
  (forall u, u <> t -> sabs (sw (b3 (fst res))) u = sabs (sw (b3 w)) u) /\
  (forall k x, In (k, x) (combine ks xs) -> lat (mabs (fst res) (XS m)) k = x) /\
  (forall i, 0 <= i < r * c -> ~ In i ks -> lat (mabs (fst res) (XS m)) i = 0).
Proof. exact step_newsm. Qed.
Theorem conversion_as_dense_matrix : forall y w x,
  mwf w x ->
  let res := step4 y w (AsDenseM x) in
  let m := length (dms w) in
  ok_out4 res /\ b3 (fst res) = b3 w /\ sms (fst res) = sms w /\
  (forall k, (k < m)%nat -> getdm (fst res) k = getdm w k) /\ length (dms (fst res)) = S m /\
  dm_ok (fst res) m /\ mdims (fst res) (XD m) = mdims w x /\
  mabs (fst res) (XD m) = mabs w x.
Proof. exact step_asdensem. Qed.
Theorem conversion_as_sparse_matrix_of_dense : forall y w k,
  WInv (sw (b3 w)) -> WWf (sw (b3 w)) -> dm_ok w k ->
  let res := step4 y w (AsSparseM (XD k)) in
  let m := length (sms w) in
  let t := length (vecs (sw (b3 w))) in
  ok_out4 res /\ dms (fst res) = dms w /\ dn (b3 (fst res)) = dn (b3 w) /\
  (exists r c, sms (fst res) = sms w ++ [(t, r, c)]) /\
  GoodM (fst res) m /\ mvec (fst res) m = t /\ mdims (fst res) (XS m) = mdims w (XD k) /\
  G t (sw (b3 (fst res))) /\ length (vecs (sw (b3 (fst res)))) = S t /\
  (forall u, u <> t -> dim (getv (sw (b3 (fst res))) u) = dim (getv (sw (b3 w)) u)) /\
  (forall u, u <> t -> sabs (sw (b3 (fst res))) u = sabs (sw (b3 w)) u) /\
  mabs (fst res) (XS m) = mabs w (XD k).
Proof. exact step_assparsem_dense. Qed.
(* AsSparse<T>Matrix of a sparse matrix is Clone of its values vector (C11: clone keeps every element) - no separate statement *)

(* ---- M5. the property: dense and sparse results coincide ------------------------------------------- *)
Theorem storage_independence_matrix : forall y f w kd ks a b a' b',
  dm_ok w kd -> dopnd w kd a -> dopnd w kd b -> GoodM w ks -> sopnd w ks a' -> sopnd w ks b' ->
  mabs w a = mabs w a' -> mabs w b = mabs w b' ->
  mabs (fst (step4 y w (MopM f (XD kd) a b))) (XD kd) = mabs (fst (step4 y w (MopM f (XS ks) a' b'))) (XS ks).
Proof. exact ind_mopm. Qed.
Theorem storage_independence_matrix_division : forall y w kd ks a b a' b',
  dm_ok w kd -> dopnd w kd a -> dopnd w kd b -> GoodM w ks -> sopnd w ks a' -> sopnd w ks b' ->
  mabs w a = mabs w a' -> mabs w b = mabs w b' -> nonzero_all (mabs w b) ->
  mabs (fst (step4 y w (MdivM (XD kd) a b))) (XD kd) = mabs (fst (step4 y w (MdivM (XS ks) a' b'))) (XS ks).
Proof. exact ind_mdivm. Qed.
Theorem storage_independence_matrix_adds : forall y w kd ks a a' c,
  dm_ok w kd -> dopnd w kd a -> GoodM w ks -> sopnd w ks a' -> mabs w a = mabs w a' ->
  mabs (fst (step4 y w (MaddS (XD kd) a c))) (XD kd) = mabs (fst (step4 y w (MaddS (XS ks) a' c))) (XS ks).
Proof. exact ind_madds. Qed.
Theorem storage_independence_matrix_subs : forall y w kd ks a a' c,
  dm_ok w kd -> dopnd w kd a -> GoodM w ks -> sopnd w ks a' -> mabs w a = mabs w a' ->
  mabs (fst (step4 y w (MsubS (XD kd) a c))) (XD kd) = mabs (fst (step4 y w (MsubS (XS ks) a' c))) (XS ks).
Proof. exact ind_msubs. Qed.
Theorem storage_independence_matrix_muls : forall y w kd ks a a' c,
  dm_ok w kd -> dopnd w kd a -> GoodM w ks -> sopnd w ks a' -> mabs w a = mabs w a' ->
  mabs (fst (step4 y w (MmulS (XD kd) a c))) (XD kd) = mabs (fst (step4 y w (MmulS (XS ks) a' c))) (XS ks).
Proof. exact ind_mmuls. Qed.
Theorem storage_independence_matrix_divs : forall y w kd ks a a' c,
  dm_ok w kd -> dopnd w kd a -> GoodM w ks -> sopnd w ks a' -> mabs w a = mabs w a' -> c <> 0 ->
  mabs (fst (step4 y w (MdivS (XD kd) a c))) (XD kd) = mabs (fst (step4 y w (MdivS (XS ks) a' c))) (XS ks).
Proof. exact ind_mdivs. Qed.
Theorem storage_independence_matrix_set : forall y w kd ks a a',
  dm_ok w kd -> dopnd w kd a -> GoodM w ks -> sopnd w ks a' -> mabs w a = mabs w a' ->
  mabs (fst (step4 y w (MSet (XD kd) a))) (XD kd) = mabs (fst (step4 y w (MSet (XS ks) a'))) (XS ks).
Proof. exact ind_mset. Qed.
Theorem storage_independence_matrix_setidentity : forall y w kd ks,
  dm_ok w kd -> GoodM w ks -> mdims w (XD kd) = mdims w (XS ks) ->
  mabs (fst (step4 y w (MSetIdentity (XD kd)))) (XD kd) = mabs (fst (step4 y w (MSetIdentity (XS ks)))) (XS ks).
Proof. exact ind_msetidentity. Qed.
Theorem storage_independence_matrix_reset : forall y w kd ks,
  dm_ok w kd -> GoodM w ks -> mdims w (XD kd) = mdims w (XS ks) ->
  mabs (fst (step4 y w (MReset (XD kd)))) (XD kd) = mabs (fst (step4 y w (MReset (XS ks)))) (XS ks).
Proof. exact ind_mreset. Qed.
Theorem storage_independence_matrix_equals : forall y w kd ks b b' e2,
  0 < e2 -> dm_ok w kd -> dopnd w kd b -> GoodM w ks -> sopnd w ks b' ->
  mabs w (XD kd) = mabs w (XS ks) -> mabs w b = mabs w b' ->
  snd (step4 y w (MEquals (XD kd) b e2)) = snd (step4 y w (MEquals (XS ks) b' e2)).
Proof. exact ind_mequals. Qed.
Theorem storage_independence_matrix_mdotm : forall y w kd ks a b a' b' n m p,
  0 < n -> 0 < m -> 0 < p -> WWf (sw (b3 w)) ->
  rab_alias kd a b = false ->     (* not r.MdotM(r, r) on the dense side: known finding F-MDOTM-RR *)
  dm_ok w kd -> mwf w a -> mwf w b -> mdims w (XD kd) = (n, p) -> mdims w a = (n, m) -> mdims w b = (m, p) ->
  GoodM w ks -> mwf w a' -> mwf w b' -> mother w (mvec w ks) a' -> mother w (mvec w ks) b' ->
  mdims w (XS ks) = (n, p) -> mdims w a' = (n, m) -> mdims w b' = (m, p) ->
  mabs w a = mabs w a' -> mabs w b = mabs w b' ->
  mabs (fst (step4 y w (MdotM (XD kd) a b))) (XD kd) = mabs (fst (step4 y w (MdotM (XS ks) a' b'))) (XS ks).
Proof. exact ind_mdotm. Qed.
Theorem storage_independence_matrix_outer : forall y w kd ks a b a' b' n m,
  dm_ok w kd -> vwf w a -> vwf w b -> mdims w (XD kd) = (n, m) -> vlen w a = n -> vlen w b = m ->
  GoodM w ks -> vwf w a' -> vwf w b' -> vother (mvec w ks) a' -> vother (mvec w ks) b' ->
  mdims w (XS ks) = (n, m) -> vlen w a' = n -> vlen w b' = m ->
  abs3 (b3 w) a = abs3 (b3 w) a' -> abs3 (b3 w) b = abs3 (b3 w) b' ->
  mabs (fst (step4 y w (MOuter (XD kd) a b))) (XD kd) = mabs (fst (step4 y w (MOuter (XS ks) a' b'))) (XS ks).
Proof. exact ind_mouter. Qed.
Theorem storage_independence_mdotv : forall y w kd t a b a' b' n m,
  0 < n -> 0 < m ->
  hasd (b3 w) kd -> mwf w a -> vwf w b -> mdims w a = (n, m) -> zlen (getd (b3 w) kd) = n -> vlen w b = m -> b <> RD kd ->
  Good (sw (b3 w)) t -> mwf w a' -> mother w t a' -> vwf w b' -> vother t b' ->
  mdims w a' = (n, m) -> vlen w (RS t) = n -> vlen w b' = m ->
  mabs w a = mabs w a' -> abs3 (b3 w) b = abs3 (b3 w) b' ->
  abs3 (b3 (fst (step4 y w (MdotV (RD kd) a b)))) (RD kd) = abs3 (b3 (fst (step4 y w (MdotV (RS t) a' b')))) (RS t).
Proof. exact ind_mdotv. Qed.
Theorem storage_independence_vdotm : forall y w kd t a b a' b' n m,
  0 < n -> 0 < m ->
  hasd (b3 w) kd -> vwf w a -> mwf w b -> mdims w b = (n, m) -> zlen (getd (b3 w) kd) = m -> vlen w a = n -> a <> RD kd ->
  Good (sw (b3 w)) t -> vwf w a' -> vother t a' -> mwf w b' -> mother w t b' ->
  mdims w b' = (n, m) -> vlen w (RS t) = m -> vlen w a' = n ->
  abs3 (b3 w) a = abs3 (b3 w) a' -> mabs w b = mabs w b' ->
  abs3 (b3 (fst (step4 y w (VdotM (RD kd) a b)))) (RD kd) = abs3 (b3 (fst (step4 y w (VdotM (RS t) a' b')))) (RS t).
Proof. exact ind_vdotm. Qed.

(* ---- M6. the hypotheses are satisfiable; regression witnesses ------------------------------------------ *)
(* a sparse matrix created by NewSparse<T>Matrix in ANY coherent world meets GoodM
   (conversion_new_sparse_matrix); a concrete instance with a stale entry, a dense
   and a second sparse matrix: *)
Example sparse_matrix_instance :
  let w := run4 TFloat init4 [NewSM [3; 0] [7; 5] 2 2; NewDM [0; 2; 0; 4] 2 2; NewSM [2] [1] 2 2] in
  mwf w (XD 0) /\ mwf w (XS 1) /\ mother w (mvec w 0) (XD 0) /\ mother w (mvec w 0) (XS 1) /\
  mdims w (XD 0) = mdims w (XS 0) /\ mdims w (XS 1) = mdims w (XS 0) /\ sm_ok w 0 /\
  mabs (fst (step4 TFloat w (MopM Add (XS 0) (XD 0) (XS 1)))) (XS 0) = [0; 2; 1; 4] /\
  mabs (fst (step4 TFloat w (MdotM (XS 0) (XD 0) (XS 1)))) (XS 0) = [2; 0; 4; 0] /\
  mabs (fst (step4 TFloat w (MdotM (XD 0) (XD 0) (XS 1)))) (XD 0) = [2; 0; 4; 0].
Proof. vm_compute. repeat split; auto; try lia; discriminate. Qed.
(* FINDING (C03-MDOTV-EMPTY, model side): MdotV with an n x 0 matrix (n > 0) and VdotM
   with a 0 x m matrix return before touching the receiver: the receiver keeps its prior
   content, dense and sparse alike, although the product is the zero vector - the result
   depends on what the receiver held before (both storages agree with each other).
   The theorems above therefore require 0 < n and 0 < m. *)
Theorem mdotv_empty_inner_refuted :
  let w := run4 TFloat init4 [NewDM [] 2 0; NewSM [] [] 2 0; V (NewD [5; 6]); V (NewS [0; 1] [5; 6] 2);
                              V (NewD []); V (NewS [] [] 0)] in
  matvec (mabs w (XD 0)) (abs3 (b3 w) (RD 1)) 2 0 = [0; 0] /\
  abs3 (b3 (fst (step4 TFloat w (MdotV (RD 0) (XD 0) (RD 1))))) (RD 0) = [5; 6] /\
  abs3 (b3 (fst (step4 TFloat w (MdotV (RS 1) (XS 0) (RS 2))))) (RS 1) = [5; 6].
Proof. vm_compute. repeat split; reflexivity. Qed.
(* KNOWN FINDING F-MDOTM-RR (listed under C08): r.MdotM(r, r) on a DENSE square matrix takes the
   column-buffered schedule (r shares storage with b) although a is r too, and returns a wrong
   product silently; a SPARSE receiver panics for r = a.  Excluded from dense_matrix_mdotm /
   storage_independence_matrix_mdotm by the hypothesis rab_alias k a b = false. *)
Theorem mdotm_rr_refuted :
  let w := run4 TFloat init4 [NewDM [1; 2; 3; 4] 2 2; NewSM [0; 1; 2; 3] [1; 2; 3; 4] 2 2] in
  mabs w (XD 0) = mabs w (XS 0) /\
  matmul (mabs w (XD 0)) (mabs w (XD 0)) 2 2 2 = [7; 10; 15; 22] /\
  mabs (fst (step4 TFloat w (MdotM (XD 0) (XD 0) (XD 0)))) (XD 0) = [7; 22; 15; 46] /\
  snd (step4 TFloat w (MdotM (XS 0) (XS 0) (XS 0))) = (K_PANIC, []).
Proof. exact mdotm_rr_refuted_lemma. Qed.
