(* C03, round 7 — Reset under live views and handles (sparse vectors).
   A sparse Reset zeroes the STORED SCALARS (heap cells); it does not touch the key -> cell map or the
   index.  Hence every object that shares cells with the receiver — a Slice / ConstSlice taken before
   (C11's [slice] copies the cell of every existing entry), the row view of a sparse matrix, the handle
   returned by At(i) — reads 0 afterwards, and a write through an old handle is seen by the receiver:
   exactly the behaviour of the dense twin, whose views share the backing array. *)
From Coq Require Import ZArith List Bool Lia.
From ADV Require Import C11.Model C11.ProofsMap C03.Model.
Import ListNotations.
Open Scope Z_scope.

Definition cells (v : svec) : list loc := map snd (vals v).
(* u is a view of v: every cell of u is a cell of v *)
Definition shares (u v : svec) : Prop := incl (cells u) (cells v).
Definition allocated (h : heap) (v : svec) : Prop := forall l, In l (cells v) -> (l < length h)%nat.

Lemma zero_loop_len (m : vmap) : forall h, length (fold_left (fun h' kv => hset h' (snd kv) 0) m h) = length h.
Proof. induction m as [|kv m IH]; intro h; simpl; auto. rewrite IH. apply hset_length. Qed.
Lemma hget_hset_zero h l' l : hget h l = 0 -> hget (hset h l' 0) l = 0.
Proof.
  intro H. destruct (Nat.eq_dec l' l) as [E|N].
  - subst l'. destruct (Nat.lt_ge_cases l (length h)) as [Lt|Ge].
    + apply hget_hset_eq. exact Lt.
    + unfold hget. apply nth_overflow. rewrite hset_length. exact Ge.
  - rewrite hget_hset_neq; auto.
Qed.
Lemma zero_loop_keeps0 (m : vmap) : forall h l,
  hget h l = 0 -> hget (fold_left (fun h' kv => hset h' (snd kv) 0) m h) l = 0.
Proof.
  induction m as [|kv m IH]; intros h l H; simpl; auto.
  apply IH. apply hget_hset_zero. exact H.
Qed.
Lemma zero_loop_other (m : vmap) : forall h l,
  ~ In l (map snd m) -> hget (fold_left (fun h' kv => hset h' (snd kv) 0) m h) l = hget h l.
Proof.
  induction m as [|kv m IH]; intros h l H; simpl; auto.
  simpl in H. rewrite IH by tauto. apply hget_hset_neq. tauto.
Qed.
Lemma zero_loop_cell (m : vmap) : forall h l,
  In l (map snd m) -> (l < length h)%nat -> hget (fold_left (fun h' kv => hset h' (snd kv) 0) m h) l = 0.
Proof.
  induction m as [|kv m IH]; intros h l Hin Hl; simpl in *; [tauto|].
  destruct (Nat.eq_dec (snd kv) l) as [E|N].
  - apply zero_loop_keeps0. rewrite E. apply hget_hset_eq. exact Hl.
  - destruct Hin as [E|Hin]; [congruence|]. apply IH; auto. rewrite hset_length. exact Hl.
Qed.

(* every stored scalar of the receiver is 0 after Reset; every other cell keeps its value *)
Lemma reset_cell_zero h v l : In l (cells v) -> (l < length h)%nat -> hget (reset h v) l = 0.
Proof. apply zero_loop_cell. Qed.
Lemma reset_cell_frame h v l : ~ In l (cells v) -> hget (reset h v) l = hget h l.
Proof. apply zero_loop_other. Qed.
Lemma reset_length h v : length (reset h v) = length h.
Proof. apply zero_loop_len. Qed.

Lemma lookup_cell i v l : lookup i (vals v) = Some l -> In l (cells v).
Proof. intro E. unfold cells. apply in_map_iff. exists (i, l). split; auto. eapply lookup_In_pair; eauto. Qed.

(* a view taken BEFORE the Reset reads 0 everywhere afterwards *)
Lemma reset_view_zero h v u : shares u v -> allocated h v -> forall i, peek (reset h v) u i = 0.
Proof.
  intros S A i. unfold peek. destruct (lookup i (vals u)) as [l|] eqn:E; auto.
  pose proof (S l (lookup_cell i u l E)) as Hin.
  apply reset_cell_zero; [exact Hin|]. apply A. exact Hin.
Qed.
Lemma shares_refl v : shares v v.
Proof. apply incl_refl. Qed.
Lemma shares_trans a b c : shares a b -> shares b c -> shares a c.
Proof. apply incl_tran. Qed.

(* C11's SLICE(i, j) shares the cells of the existing entries *)
Lemma remove_cells k (m : vmap) : incl (map snd (remove k m)) (map snd m).
Proof.
  induction m as [|[k' l] m IH]; simpl; [apply incl_refl|].
  destruct (k' =? k).
  - apply incl_tl. exact IH.
  - simpl. apply incl_cons; [left; auto|]. apply incl_tl. exact IH.
Qed.
Lemma slice_loop_shares i j m ks : forall r,
  incl (cells r) (map snd m) -> incl (cells (slice_loop i j m ks r)) (map snd m).
Proof.
  induction ks as [|k0 ks IH]; intros r Hr; simpl; [exact Hr|].
  destruct (k0 <? i); [apply IH; exact Hr|].
  destruct (j <=? k0); [exact Hr|].
  destruct (lookup k0 m) as [l0|] eqn:E0; [|apply IH; exact Hr].
  apply IH. unfold cells, insert. cbn [vals map snd]. apply incl_cons.
  - apply in_map_iff. exists (k0, l0). split; auto. eapply lookup_In_pair; eauto.
  - eapply incl_tran; [apply remove_cells|exact Hr].
Qed.
Lemma slice_shares v i j : shares (slice v i j) v.
Proof. unfold shares, slice. apply slice_loop_shares. unfold cells. simpl. intros x []. Qed.

(* the handle returned by At(k) before the Reset is still the receiver's entry k afterwards: a write through it is
   read back through the receiver (and through every view that holds that cell at some key) *)
Lemma reset_handle_write h v u k l x :
  lookup k (vals u) = Some l -> (l < length h)%nat -> peek (hset (reset h v) l x) u k = x.
Proof.
  intros E Hl. unfold peek. rewrite E. apply hget_hset_eq. rewrite reset_length. exact Hl.
Qed.

(* ------------------------------------------------------------------ the step of the C03 model *)
Lemma step_reset_views y (w : w3) t :
  let r := step3 y w (VReset (RS t)) in
  vecs (sw (fst r)) = vecs (sw w) /\ dn (fst r) = dn w /\
  (allocated (hp (sw w)) (getv (sw w) t) ->
   forall u, shares (getv (sw w) u) (getv (sw w) t) -> forall i, peek (hp (sw (fst r))) (getv (sw (fst r)) u) i = 0) /\
  (forall u i, (forall l, In l (cells (getv (sw w) u)) -> ~ In l (cells (getv (sw w) t))) ->
     peek (hp (sw (fst r))) (getv (sw (fst r)) u) i = peek (hp (sw w)) (getv (sw w) u) i).
Proof.
  cbn [step3 fst sets seth sw dn hp vecs]. split; [reflexivity|]. split; [reflexivity|]. split.
  - intros A u S i. apply reset_view_zero; auto.
  - intros u i D. change (getv (seth (sw w) (reset (hp (sw w)) (getv (sw w) t))) u) with (getv (sw w) u).
    unfold peek. destruct (lookup i (vals (getv (sw w) u))) as [l|] eqn:E; auto.
    apply reset_cell_frame. apply D. eapply lookup_cell; eauto.
Qed.

(* the dense twin: a window of the zeroed backing list reads 0 at every position, like the sparse view *)
Lemma nth_zeros {X} (l : list X) n : nth n (map (fun _ => 0) l) 0 = 0.
Proof.
  destruct (nth_in_or_default n (map (fun _ : X => 0) l) 0) as [H|H]; [|exact H].
  apply in_map_iff in H. destruct H as (x & E & _). symmetry. exact E.
Qed.
Lemma reset_slice_like_dense h v a b (d : list Z) i :
  allocated h v ->
  peek (reset h v) (slice v a b) i =
  nth (Z.to_nat i) (firstn (Z.to_nat (b - a)) (skipn (Z.to_nat a) (map (fun _ => 0) d))) 0.
Proof.
  intro A. rewrite (reset_view_zero h v (slice v a b) (slice_shares v a b) A).
  rewrite skipn_map, firstn_map. symmetry. apply nth_zeros.
Qed.
