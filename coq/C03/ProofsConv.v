(* C03 — conversions between the representations keep every element:
   AsSparse(dense) stores every position explicitly, AsDense(sparse) walks the
   iterator (template types) or reads ConstAt (Real types). *)
From Coq Require Import ZArith List Bool Lia Sorted.
From ADV Require Import C11.Model C11.Spec C11.ProofsMap C11.ProofsIter C11.ProofsInv C11.ProofsRef
                        C03.Model C03.Spec C03.ProofsDense C03.ProofsSem C03.ProofsJoint.
Import ListNotations.
Open Scope Z_scope.

(* ---- AsSparse(dense): append_fresh from position 0 ------------------------------- *)
Lemma append_fresh_spec : forall xs h k r h' r',
  append_fresh h k xs r = (h', r') -> Wf h r -> 0 <= k ->
  (exists ext, h' = h ++ ext) /\ dim r' = dim r /\ Wf h' r' /\
  (forall i, peek h' r' i =
             if (k <=? i) && (i <? k + zlen xs) then nth (Z.to_nat (i - k)) xs 0 else peek h r i).
Proof.
  induction xs as [|x xs IH]; intros h k r h' r' E W Hk.
  - simpl in E. inversion E. subst. split; [exists []; rewrite app_nil_r; auto|]. split; [auto|]. split; [auto|].
    intro i. unfold zlen. simpl. destruct (k <=? i) eqn:A; destruct (i <? k + 0) eqn:B; auto.
    apply Z.leb_le in A. apply Z.ltb_lt in B. lia.
  - cbn [append_fresh halloc] in E.
    set (h1 := h ++ [x]) in *. set (l := length h) in *.
    set (r1 := {| vals := insert k l (vals r); idx := kins k (idx r); dim := dim r |}) in *.
    assert (W1 : Wf h1 r1).
    { destruct W as (Wa & Wb). split.
      - intros k0 l0. unfold r1. cbn [vals]. rewrite lookup_insert. unfold h1. rewrite app_length. simpl.
        destruct (k =? k0); [intro X; inversion X; subst; unfold l; lia|intro X; apply Wa in X; lia].
      - intros ka kb l0. unfold r1. cbn [vals]. rewrite !lookup_insert.
        destruct (k =? ka) eqn:Ea; destruct (k =? kb) eqn:Eb; intros Xa Xb.
        + apply Z.eqb_eq in Ea, Eb. lia.
        + inversion Xa. subst l0. apply Wa in Xb. unfold l in Xb. lia.
        + inversion Xb. subst l0. apply Wa in Xa. unfold l in Xa. lia.
        + eapply Wb; eauto. }
    destruct (IH h1 (k + 1) r1 h' r' E W1) as ((ext & He) & Hd & W' & P); [lia|].
    split; [exists ([x] ++ ext); rewrite He; unfold h1; rewrite <- app_assoc; auto|].
    split; [rewrite Hd; auto|]. split; [auto|].
    intro i. rewrite P.
    assert (P1 : peek h1 r1 i = if i =? k then x else peek h r i).
    { unfold peek, r1. cbn [vals]. rewrite lookup_insert, (Z.eqb_sym k i). destruct (i =? k) eqn:Ei.
      - unfold hget, h1, l. rewrite app_nth2 by lia. rewrite Nat.sub_diag. auto.
      - destruct (lookup i (vals r)) as [l0|] eqn:L; auto.
        unfold hget, h1. apply app_nth1. eapply (proj1 W); eauto. }
    rewrite P1. unfold zlen. simpl length. rewrite Nat2Z.inj_succ.
    set (L := Z.of_nat (length xs)).
    destruct (Z.eq_dec i k) as [->|N].
    + replace (k + 1 <=? k) with false by (symmetry; apply Z.leb_gt; lia). cbn [andb].
      rewrite Z.eqb_refl.
      replace ((k <=? k) && (k <? k + Z.succ L)) with true
        by (symmetry; apply andb_true_iff; split; [apply Z.leb_le|apply Z.ltb_lt]; lia).
      rewrite Z.sub_diag. reflexivity.
    + replace (i =? k) with false by (symmetry; apply Z.eqb_neq; auto).
      destruct ((k + 1 <=? i) && (i <? k + 1 + L)) eqn:A.
      * apply andb_true_iff in A. destruct A as [A B]. apply Z.leb_le in A. apply Z.ltb_lt in B.
        replace ((k <=? i) && (i <? k + Z.succ L)) with true
          by (symmetry; apply andb_true_iff; split; [apply Z.leb_le|apply Z.ltb_lt]; lia).
        replace (Z.to_nat (i - k)) with (S (Z.to_nat (i - (k + 1)))) by lia. reflexivity.
      * replace ((k <=? i) && (i <? k + Z.succ L)) with false; [reflexivity|].
        symmetry. apply andb_false_iff. apply andb_false_iff in A.
        destruct A as [A|A]; [apply Z.leb_gt in A; left; apply Z.leb_gt; lia|
                              apply Z.ltb_ge in A; right; apply Z.ltb_ge; lia].
Qed.

Lemma append_fresh_cells : forall xs h k r0 h' r, append_fresh h k xs r0 = (h', r) ->
  forall l, cell_in r l -> cell_in r0 l \/ (length h <= l)%nat.
Proof.
  induction xs as [|x xs IH]; intros h0 k r0 h1 r1 E l C; simpl in E.
  - inversion E. subst. auto.
  - cbn [halloc] in E. destruct (IH _ _ _ _ _ E l C) as [(k0 & L)|L].
    + cbn [vals] in L. rewrite lookup_insert in L. destruct (k =? k0).
      * inversion L. right. lia.
      * left. exists k0. auto.
    + right. rewrite app_length in L. simpl in L. lia.
Qed.

Theorem as_sparse_correct h d h' r :
  as_sparse h d = (h', r) ->
  abs_vec h' r = d /\ dim r = zlen d /\ Inv r /\ Wf h' r /\ (exists ext, h' = h ++ ext) /\
  (forall l, cell_in r l -> (length h <= l)%nat).
Proof.
  unfold as_sparse. intro E.
  assert (W0 : Wf h (nil_vec (zlen d))) by (split; simpl; intros; discriminate).
  destruct (append_fresh_spec d h 0 (nil_vec (zlen d)) h' r E W0) as (X & Hd & W' & P); [lia|].
  assert (I : Inv r).
  { eapply Inv_append_fresh; [| | |exact E]; [apply Inv_nil; unfold zlen; lia|lia|simpl; unfold zlen; lia]. }
  split; [|split; [auto|split; [auto|split; [auto|split; [auto|]]]]].
  - unfold abs_vec. rewrite Hd. simpl. unfold zlen. rewrite Nat2Z.id.
    rewrite <- (nth_seq_self d) at 2. change 0 with (Z.of_nat 0) at 1. rewrite zseq_seq, map_map.
    apply map_ext_in. intros j Hj. apply in_seq in Hj. rewrite P.
    assert (A : (0 <=? Z.of_nat j) && (Z.of_nat j <? 0 + zlen d) = true).
    { apply andb_true_iff. split; [apply Z.leb_le; lia|apply Z.ltb_lt; unfold zlen; lia]. }
    rewrite A, Z.sub_0_r, Nat2Z.id. auto.
  - intros l C. destruct (append_fresh_cells d h 0 (nil_vec (zlen d)) h' r E l C) as [(k0 & Y)|Y]; auto.
    simpl in Y. discriminate.
Qed.

(* ---- AsDense(sparse): scatter the iteration sequence into a zero list -------------- *)
Definition scatter (s : list (Z * Z)) (l : list Z) : list Z :=
  fold_left (fun l kv => upd (Z.to_nat (fst kv)) (snd kv) l) s l.
Lemma scatter_length s : forall l, length (scatter s l) = length l.
Proof. induction s as [|a s IH]; intro l; simpl; auto. unfold scatter in *. simpl. rewrite IH, upd_length. auto. Qed.
Lemma scatter_miss i : forall s l,
  (forall kv, In kv s -> 0 <= fst kv) -> (forall x, ~ In (Z.of_nat i, x) s) ->
  nth i (scatter s l) 0 = nth i l 0.
Proof.
  induction s as [|[k x] s IH]; intros l Hk Hn; simpl; auto.
  unfold scatter in *. simpl. rewrite IH.
  - apply nth_upd_neq. intro E. apply (Hn x). left. f_equal.
    specialize (Hk (k, x) (or_introl eq_refl)). simpl in Hk. lia.
  - intros kv H. apply Hk. right. auto.
  - intros y H. apply (Hn y). right. auto.
Qed.
Lemma scatter_hit i x : forall s l,
  (forall kv, In kv s -> 0 <= fst kv) -> NoDup (map fst s) -> In (Z.of_nat i, x) s -> (i < length l)%nat ->
  nth i (scatter s l) 0 = x.
Proof.
  induction s as [|[k y] s IH]; intros l Hk Hd Hin Hl; [destruct Hin|].
  unfold scatter in *. simpl. inversion Hd as [|? ? Hnk Hd']. subst.
  destruct Hin as [E|Hin].
  - inversion E. subst k y. rewrite (scatter_miss i s).
    + rewrite Nat2Z.id. apply nth_upd_eq. auto.
    + intros kv H. apply Hk. right. auto.
    + intros z H. apply Hnk. simpl. apply in_map_iff. exists (Z.of_nat i, z). auto.
  - apply IH; auto.
    + intros kv H. apply Hk. right. auto.
    + rewrite upd_length. auto.
Qed.

Theorem as_dense_correct y w u :
  Inv (getv w u) -> has w u ->
  exists w' d, as_dense y w u = Some (w', d) /\ d = abs_vec (hp w) (getv w u) /\ Qw w w' /\
               Inv (getv w' u).
Proof.
  intros HI Hu. unfold as_dense.
  assert (RealCase : exists w' d, Some (w, abs_vec (hp w) (getv w u)) = Some (w', d) /\
            d = abs_vec (hp w) (getv w u) /\ Qw w w' /\ Inv (getv w' u)).
  { exists w, (abs_vec (hp w) (getv w u)). split; [auto|]. split; [auto|]. split; [apply Qw_refl|auto]. }
  assert (IterCase : exists w' d,
            match iterate (hp w) (getv w u) with
            | Some (v', s) => Some (setv w u v', fill (dim (getv w u)) (map (fun kl => (fst kl, hget (hp w) (snd kl))) s))
            | None => None end = Some (w', d) /\
            d = abs_vec (hp w) (getv w u) /\ Qw w w' /\ Inv (getv w' u)).
  { destruct (iterate_visits (hp w) (getv w u) HI) as (v1 & s & E & Hs & Hv & Ha & Hd & HI1).
    unfold abs in Hv.
    destruct (iterate_spec (hp w) (getv w u)) as (v1' & E' & _ & HQ); [apply HI|].
    rewrite E in E'. inversion E'. subst v1'. clear E'.
    assert (SUB : Sub (getv w u) v1).
    { (* iterate only deletes entries: via the position lemmas *)
      clear - E HI. unfold iterate in E.
      destruct (it_begin_pos (hp w) (getv w u) HI) as (v0 & c0 & B & (Q0 & S0) & I0 & _).
      rewrite B in E. revert E. generalize (sfuel (getv w u)). intro f.
      assert (GEN : forall g v c acc v1 s, Inv v -> iter_loop g (hp w) v c acc = Some (v1, s) -> Sub v v1).
      { induction g as [|g IH]; intros v c acc v1' s' Iv; simpl; destruct c as [k|];
          try (intro X; inversion X; subst; unfold Sub; auto; fail); try discriminate.
        destruct (lookup k (vals v)) as [l|]; [|discriminate].
        destruct (it_next_pos (hp w) v k Iv) as (v2 & c2 & N & (Q2 & S2) & I2 & _).
        rewrite N. intro X. apply IH in X; auto. unfold Sub in *. auto. }
      intro E. apply GEN in E; auto. unfold Sub in *. auto. }
    rewrite E. exists (setv w u v1). eexists. split; [reflexivity|]. split; [|split].
    - fold (visits (hp w) s). unfold fill. fold (scatter (visits (hp w) s) (repeat 0 (Z.to_nat (dim (getv w u))))).
      set (n := Z.to_nat (dim (getv w u))).
      assert (Hk : forall kv, In kv (visits (hp w) s) -> 0 <= fst kv).
      { intros [k x] H. apply Hv in H. simpl. lia. }
      assert (Hnd : NoDup (map fst (visits (hp w) s))).
      { unfold visits. rewrite map_map. simpl. apply sset_NoDup. auto. }
      apply (nth_ext _ _ 0 0).
      + rewrite scatter_length, repeat_length. unfold abs_vec. rewrite map_length, zseq_length. auto.
      + intros i Hi. rewrite scatter_length, repeat_length in Hi.
        set (x := nth i (abs_vec (hp w) (getv w u)) 0).
        destruct (Z.eq_dec x 0) as [Z0|NZ].
        * rewrite scatter_miss; auto.
          { rewrite Z0. clear. generalize n. induction i; destruct n0; simpl; auto. }
          { intros z H. apply Hv in H. rewrite Nat2Z.id in H. fold x in H. lia. }
        * apply scatter_hit; auto; [|rewrite repeat_length; auto].
          apply Hv. rewrite Nat2Z.id. fold x. split; [unfold n in Hi; lia|auto].
    - apply Qw_setv; auto. split; auto.
    - rewrite getv_setv_eq; auto. }
  destruct y; auto.
Qed.
