(* C03 — executable sanity checks of model and specification (vm_compute). *)
From Coq Require Import ZArith List Bool.
From ADV Require Import C11.Model C11.Spec C03.Model C03.Spec.
Import ListNotations.
Open Scope Z_scope.

(* sparse receiver with a stale entry (pos 3) and an explicit stored zero
   (pos 1), dense a with leading/interleaved zeros, sparse b *)
Definition h1 : list op3 :=
  [ NewS [3; 0] [7; 5] 5; SetAt (RS 0) 1 0;       (* r = [5,0(stored),0,7,0] *)
    NewD [0; 0; 2; 0; 4];                        (* a *)
    NewS [4; 2] [-4; 1] 5 ].                     (* b = [0,0,1,0,-4] *)
Definition w1 := run3 TFloat init3 h1.
Example t_abs : abs3 w1 (RS 0) = [5; 0; 0; 7; 0] /\ abs3 w1 (RD 0) = [0; 0; 2; 0; 4] /\ abs3 w1 (RS 1) = [0; 0; 1; 0; -4].
Proof. vm_compute. auto. Qed.
Example t_add_sparse_recv :
  abs3 (fst (step3 TFloat w1 (VopV Add (RS 0) (RD 0) (RS 1)))) (RS 0) = map2 Z.add (abs3 w1 (RD 0)) (abs3 w1 (RS 1)).
Proof. vm_compute. reflexivity. Qed.
Example t_mul_sparse_recv :
  abs3 (fst (step3 TFloat w1 (VopV Mul (RS 0) (RS 1) (RD 0)))) (RS 0) = [0; 0; 2; 0; -16].
Proof. vm_compute. reflexivity. Qed.
Example t_sub_dense_recv :
  abs3 (fst (step3 TFloat w1 (VopV Sub (RD 0) (RS 0) (RS 1)))) (RD 0) = [5; 0; -1; 7; 4].
Proof. vm_compute. reflexivity. Qed.
Example t_alias :
  abs3 (fst (step3 TFloat w1 (VopV Add (RS 0) (RS 0) (RS 0)))) (RS 0) = [10; 0; 0; 14; 0].
Proof. vm_compute. reflexivity. Qed.
Example t_good : forall l, ~ (cell_in (getv (sw w1) 0) l /\ cell_in (getv (sw w1) 1) l) \/ True.
Proof. auto. Qed.
(* integer division by zero panics after the entry was created; float gives codes *)
Example t_div_int :
  snd (step3 TInt w1 (VdivS (RS 1) (RD 0) 0)) = (K_PANIC, []).
Proof. vm_compute. reflexivity. Qed.
Example t_div_float :
  abs3 (fst (step3 TFloat w1 (VdivS (RS 1) (RD 0) 0))) (RS 1) = [NAN; NAN; PINF; NAN; PINF].
Proof. vm_compute. reflexivity. Qed.
Example t_equals :
  snd (step3 TFloat w1 (VEquals (RS 0) (RD 0) 1)) = (K_OK, [0]) /\
  snd (step3 TFloat (fst (step3 TFloat w1 (VSet (RS 0) (RD 0)))) (VEquals (RS 0) (RD 0) 1)) = (K_OK, [1]).
Proof. vm_compute. auto. Qed.
Example t_conv :
  let w := fst (step3 TFloat (fst (step3 TFloat w1 (AsSparse (RD 0)))) (AsDense (RS 0))) in
  abs3 w (RS 2) = abs3 w1 (RD 0) /\ abs3 w (RD 1) = abs3 w1 (RS 0).
Proof. vm_compute. auto. Qed.
