(* C03 — the sparse receiver as its own operand:  r.Op(r, b), r.Op(a, r), r.Op(r, r).
   Round 1 (ProofsJoint.v) proved the vector operations of a sparse receiver t for
   operands that are dense or OTHER sparse vectors.  Here the receiver may also be
   an operand.  Key fact (joint3_reads_before_write): the plain iterators under
   the joint iterator are always one step AHEAD of the position the loop body
   writes: Next() selects index i, reads the operand values and advances every
   delivering iterator past i BEFORE the body writes r[i]; the write changes only
   position i of t, so an iterator over the SAME vector t standing on "the first
   non-null position >= i+1" is not disturbed, and the value handed out for
   position i was read before the write.  Formally: for an aliased operand
   iterator the value function V has to describe t only at positions >= p
   (CPosA); CPosG = CPos or CPosA satisfies the same interface as CPos. *)
From Coq Require Import ZArith List Bool Lia Sorted.
From ADV Require Import C11.Model C11.Spec C11.ProofsMap C11.ProofsIter C11.ProofsInv C11.ProofsRef
                        C03.Model C03.Spec C03.ProofsDense C03.ProofsSem C03.ProofsJoint.
Import ListNotations.
Open Scope Z_scope.

(* ---- the aliased operand iterator ------------------------------------------------ *)
Definition CPosA (t : nat) (n : Z) (w : world) (c : citer) (V : Z -> Z) (p : Z) : Prop :=
  match c with
  | CS u cur => u = t /\ has w t /\ dim (getv w t) = n /\
                (forall i, p <= i -> peek (hp w) (getv w t) i = V i) /\ Pos (hp w) (getv w t) cur p
  | CD _ _ => False
  end.
Definition CPosG (t : nat) (n : Z) (w : world) (c : citer) (V : Z -> Z) (p : Z) : Prop :=
  CPos t n w c V p \/ CPosA t n w c V p.

Lemma Pos_ext_ge h v h' v' c p :
  (forall k, p <= k -> peek h' v' k = peek h v k /\ isnull h' v' k = isnull h v k) ->
  Pos h v c p -> Pos h' v' c p.
Proof.
  intro E. destruct c as [k|]; simpl.
  - intros (P1 & P2 & P3). split; [auto|]. split; [rewrite (proj2 (E k P1)); auto|].
    intros i Hi. rewrite (proj1 (E i ltac:(lia))). auto.
  - intros P i Hi. rewrite (proj1 (E i Hi)). auto.
Qed.

Section OperandG.
Variable t : nat.
Variable n : Z.

Lemma CPosA_cand w c V p k :
  G t w -> CPosA t n w c V p -> cand c = Some k ->
  p <= k < n /\ ci_get w c = Some (V k) /\ forall i, p <= i < k -> V i = 0.
Proof.
  intros HG HC. unfold cand. destruct c as [u cur|d pos]; simpl in *; [|contradiction].
  destruct cur as [k0|]; [|discriminate]. intro E. inversion E. subst k0.
  destruct HC as (-> & Hu & Hd & HV & (P1 & P2 & P3)).
  destruct (nonnull_lookup _ _ _ P2) as (l & L & NZ). rewrite L.
  assert (In k (idx (getv w t))). { destruct HG as (A & _). destruct (A t) as (_ & _ & H & _). eauto. }
  assert (0 <= k < dim (getv w t)). { destruct HG as (A & _). destruct (A t) as (_ & _ & _ & H' & _). auto. }
  split; [lia|]. split.
  - rewrite <- HV by lia. unfold peek. rewrite L. auto.
  - intros i Hi. rewrite <- HV by lia. apply P3. auto.
Qed.
Lemma CPosG_cand w c V p k :
  G t w -> CPosG t n w c V p -> 0 <= p -> cand c = Some k ->
  p <= k < n /\ ci_get w c = Some (V k) /\ forall i, p <= i < k -> V i = 0.
Proof.
  intros HG [HC|HC] Hp E; [eapply CPos_cand; eauto|eapply CPosA_cand; eauto].
Qed.
Lemma CPosG_none w c V p : CPosG t n w c V p -> cand c = None -> forall i, p <= i -> V i = 0.
Proof.
  intros [HC|HC]; [eapply CPos_none; eauto|].
  unfold cand. destruct c as [u cur|d pos]; simpl in *; [|contradiction].
  destruct cur; [discriminate|]. destruct HC as (_ & _ & _ & HV & P). intros _ i Hi. rewrite <- HV; auto.
Qed.
Lemma CPosG_Qw w w' c V p : CPosG t n w c V p -> Qw w w' -> CPosG t n w' c V p.
Proof.
  intros [HC|HC] HQ; [left; eapply CPos_Qw; eauto|right].
  destruct c as [u cur|d pos]; simpl in *; [|contradiction].
  destruct HC as (-> & Hu & Hd & HV & P). split; [auto|]. split.
  - destruct HQ as (_ & L & _). unfold has in *. lia.
  - split; [rewrite (Qw_dim w w' t HQ); auto|]. split.
    + intros i Hi. rewrite (Qw_peek w w' t i HQ). auto.
    + eapply Pos_Qw; eauto.
Qed.
Lemma CPosG_weaken w c V p p' :
  CPosG t n w c V p -> p <= p' -> (forall k, cand c = Some k -> p' <= k) -> CPosG t n w c V p'.
Proof.
  intros [HC|HC] Hp Hk; [left; eapply CPos_weaken; eauto|right].
  unfold cand in Hk. destruct c as [u cur|d pos]; simpl in *; [|contradiction].
  destruct HC as (-> & Hu & Hd & HV & P). split; [auto|]. split; [auto|]. split; [auto|]. split.
  - intros i Hi. apply HV. lia.
  - eapply Pos_weaken; eauto. intros k E. apply Hk. subst. auto.
Qed.
Lemma CPosG_next w c V p k :
  G t w -> CPosG t n w c V p -> cand c = Some k ->
  exists w' c', ci_next w c = Some (w', c') /\ Qw w w' /\ AInv w' /\ CPosG t n w' c' V (k + 1).
Proof.
  intros HG [HC|HC] E.
  - destruct (CPos_next t n w c V p k HG HC E) as (w' & c' & X1 & X2 & X3 & X4).
    exists w', c'. split; [auto|]. split; [auto|]. split; [auto|]. left. auto.
  - unfold cand in E. destruct c as [u cur|d pos]; simpl in *; [|contradiction].
    destruct cur as [k0|]; [|discriminate]. inversion E. subst k0.
    destruct HC as (-> & Hu & Hd & HV & P). pose proof HG as (A & _).
    destruct (it_next_pos (hp w) (getv w t) k (A t)) as (v' & c' & X & Y & Z1 & Z2).
    rewrite X. exists (setv w t v'), (CS t c'). split; [auto|].
    assert (HQw : Qw w (setv w t v')) by (apply Qw_setv; auto).
    split; [auto|]. split; [apply AInv_setv; auto|]. right.
    simpl. rewrite getv_setv_eq by auto. split; [auto|]. split; [apply has_setv; auto|].
    split; [destruct Y as ((_ & _ & D) & _); congruence|]. split; [|auto].
    intros i Hi. rewrite (Q_peek _ _ _ i (proj1 Y)). apply HV. simpl in P. lia.
Qed.
Lemma advc_specG w c V p i s :
  G t w -> CPosG t n w c V p -> p <= i ->
  (s <> None -> cand c = Some i) -> (s = None -> forall k, cand c = Some k -> i < k) ->
  exists w1 c', advc w s c = Some (w1, c') /\ Qw w w1 /\ AInv w1 /\ CPosG t n w1 c' V (i + 1).
Proof.
  intros HG HC Hp H1 H2. unfold advc. destruct s as [x|].
  - apply (CPosG_next w c V p i); auto. apply H1. discriminate.
  - exists w, c. split; auto. split; [apply Qw_refl|]. split; [apply HG|].
    eapply CPosG_weaken; eauto; [lia|]. intros k Hk. specialize (H2 eq_refl k Hk). lia.
Qed.
Lemma CPosG_ext w c V V' p : (forall i, V i = V' i) -> CPosG t n w c V p -> CPosG t n w c V' p.
Proof.
  intros E [HC|HC]; [left; eapply CPos_ext; eauto|right].
  destruct c as [u cur|d pos]; simpl in *; [|contradiction].
  destruct HC as (-> & Hu & Hd & HV & P). split; [auto|]. split; [auto|]. split; [auto|]. split; [|auto].
  intros i Hi. rewrite <- E. auto.
Qed.

(* THE KEY LEMMA: the body's write at position i is BEHIND every iterator of the
   joint iterator (they all stand at >= i+1), also behind an iterator over the
   receiver itself; the operand value for position i was read before *)
Lemma joint3_reads_before_write w w1 c V i :
  length (vecs w1) = length (vecs w) -> (forall u, dim (getv w1 u) = dim (getv w u)) ->
  (forall k, k <> i -> peek (hp w1) (getv w1 t) k = peek (hp w) (getv w t) k /\
                       isnull (hp w1) (getv w1 t) k = isnull (hp w) (getv w t) k) ->
  (forall u k, u <> t -> peek (hp w1) (getv w1 u) k = peek (hp w) (getv w u) k /\
                         isnull (hp w1) (getv w1 u) k = isnull (hp w) (getv w u) k) ->
  CPosG t n w c V (i + 1) -> CPosG t n w1 c V (i + 1).
Proof.
  intros Hl Hd F1 F2 [HC|HC]; [left; eapply CPos_frame; eauto|right].
  destruct c as [u cur|d pos]; simpl in *; [|contradiction].
  destruct HC as (-> & Hu & Hdim & HV & P). split; [auto|]. split; [unfold has in *; lia|].
  split; [rewrite Hd; auto|]. split.
  - intros k Hk. rewrite (proj1 (F1 k ltac:(lia))). auto.
  - eapply Pos_ext_ge; [|exact P]. intros k Hk. apply F1. lia.
Qed.

(* begin: the receiver itself may be the operand (it_begin runs on t a second time) *)
Definition operand_wka (w : world) (o : operand) : Prop :=
  match o with
  | OS u => has w u /\ dim (getv w u) = dim (getv w t)
  | OD d => zlen d <= dim (getv w t)
  end.
Lemma operand_wka_Qw w w' o : operand_wka w o -> Qw w w' -> operand_wka w' o.
Proof.
  intros H HQ. destruct o as [u|d]; simpl in *.
  - destruct H as (Hu & Hd). split.
    + destruct HQ as (_ & L & _). unfold has in *. lia.
    + rewrite !(Qw_dim w w' _ HQ). auto.
  - rewrite (Qw_dim w w' _ HQ). auto.
Qed.
Lemma CPosG_begin w o :
  G t w -> operand_wka w o -> dim (getv w t) = n ->
  exists w' c, ci_begin w o = Some (w', c) /\ Qw w w' /\ AInv w' /\ CPosG t n w' c (ord w o) 0.
Proof.
  intros HG HO Hn.
  assert (Alias : forall u, o = OS u -> u = t ->
            exists w' c, ci_begin w o = Some (w', c) /\ Qw w w' /\ AInv w' /\ CPosG t n w' c (ord w o) 0).
  { intros u -> ->. simpl in *. destruct HO as (Hu & _). pose proof HG as (A & _).
    destruct (it_begin_pos (hp w) (getv w t) (A t)) as (v' & c' & X & Y & Z1 & Z2).
    rewrite X. exists (setv w t v'), (CS t c'). split; [auto|].
    split; [apply Qw_setv; auto|]. split; [apply AInv_setv; auto|]. right.
    simpl. rewrite getv_setv_eq by auto. split; [auto|]. split; [apply has_setv; auto|].
    split; [destruct Y as ((_ & _ & D) & _); congruence|]. split; [|auto].
    intros i _. apply (Q_peek _ _ _ i (proj1 Y)). }
  destruct o as [u|d].
  - destruct (Nat.eq_dec u t) as [E|N]; [apply (Alias u eq_refl E)|].
    destruct (CPos_begin t n w (OS u) HG) as (w' & c & X1 & X2 & X3 & X4); auto.
    { simpl in *. tauto. }
    exists w', c. split; [auto|]. split; [auto|]. split; [auto|]. left. auto.
  - destruct (CPos_begin t n w (OD d) HG) as (w' & c & X1 & X2 & X3 & X4); auto.
    exists w', c. split; [auto|]. split; [auto|]. split; [auto|]. left. auto.
Qed.

(* facts about one operand at the selected index i *)
Lemma op_factsG w c V p i (d : bool) :
  G t w -> CPosG t n w c V p -> 0 <= p -> p <= i ->
  (d = true -> cand c = Some i) -> (d = false -> forall k, cand c = Some k -> i < k) ->
  (forall x, p <= x < i -> V x = 0) /\ jval (if d then ci_get w c else None) = V i /\
  (d = true -> (if d then ci_get w c else None) <> None) /\
  (d = false -> (if d then ci_get w c else None) = None).
Proof.
  intros HG HC Hp Hi H1 H2. destruct d.
  - destruct (CPosG_cand w c V p i HG HC Hp (H1 eq_refl)) as (X & Y & Z1).
    rewrite Y. simpl. split; [exact Z1|]. split; [auto|]. split; [intros _; discriminate|intro; discriminate].
  - simpl. assert (ZZ : forall x, p <= x <= i -> V x = 0).
    { destruct (cand c) as [k|] eqn:E.
      + pose proof (H2 eq_refl k eq_refl) as Hk.
        destruct (CPosG_cand w c V p k HG HC Hp E) as (X & Y & Z1). intros x Hx. apply Z1. lia.
      + pose proof (CPosG_none w c V p HC E) as Z1. intros x Hx. apply Z1. lia. }
    split; [intros x Hx; apply ZZ; lia|]. split; [symmetry; apply ZZ; lia|].
    split; [intro; discriminate|auto].
Qed.
Lemma op_rangeG w c V p i : G t w -> CPosG t n w c V p -> 0 <= p -> cand c = Some i -> p <= i < n.
Proof. intros HG HC Hp E. apply (CPosG_cand w c V p i HG HC Hp E). Qed.

(* ---- one step of the three-way joint iterator, operands possibly aliased --------- *)
Variables A B : Z -> Z.
Definition J3G (w : world) (j : joint3) (p : Z) : Prop :=
  G t w /\ dim (getv w t) = n /\ 0 <= p /\
  Pos (hp w) (getv w t) (k1 j) p /\ CPosG t n w (k2 j) A p /\ CPosG t n w (k3 j) B p.

Lemma joint3_next_specG w j p :
  J3G w j p ->
  exists w' j', joint3_next w t j = Some (w', j') /\ Qw w w' /\ G t w' /\
    ((kok j' = false /\
      forall i, p <= i -> peek (hp w) (getv w t) i = 0 /\ A i = 0 /\ B i = 0) \/
     (kok j' = true /\ p <= kidx j' < n /\
      (forall i, p <= i < kidx j' -> peek (hp w) (getv w t) i = 0 /\ A i = 0 /\ B i = 0) /\
      jval (ks2 j') = A (kidx j') /\ jval (ks3 j') = B (kidx j') /\
      (forall l, ks1 j' = Some l -> lookup (kidx j') (vals (getv w' t)) = Some l) /\
      (ks1 j' = None -> peek (hp w) (getv w t) (kidx j') = 0) /\
      J3G w' j' (kidx j' + 1))).
Proof.
  intros (HG & Hn & Hp & P1 & C2 & C3).
  rewrite joint3_next_eq.
  destruct (sel3 (k1 j) (cand (k2 j)) (cand (k3 j)) (kidx j)) as [[[i d1] d2] d3] eqn:S.
  apply sel3_spec in S. destruct S as (S1 & S1' & S2 & S2' & S3 & S3' & SO).
  cbv zeta. fold (s1_of t w (k1 j) d1).
  destruct (orb (orb d1 d2) d3) eqn:Any.
  - (* some iterator delivers *)
    assert (Hi : p <= i < n).
    { destruct d1; [rewrite (S1 eq_refl) in P1; eapply r_range; eauto|].
      destruct d2; [eapply op_rangeG; [| exact C2| |]; eauto|].
      destruct d3; [eapply op_rangeG; [| exact C3| |]; eauto|]. discriminate. }
    destruct (r_facts t n w (k1 j) p i d1 HG Hn P1 (proj1 Hi) S1 S1') as (R1 & R2 & R3).
    destruct (op_factsG w (k2 j) A p i d2 HG C2 Hp (proj1 Hi) S2 S2') as (A1 & A2 & A3 & A4).
    destruct (op_factsG w (k3 j) B p i d3 HG C3 Hp (proj1 Hi) S3 S3') as (B1 & B2 & B3 & B4).
    set (s1 := s1_of t w (k1 j) d1) in *.
    set (s2 := if d2 then ci_get w (k2 j) else None) in *.
    set (s3 := if d3 then ci_get w (k3 j) else None) in *.
    (* advance the receiver's iterator *)
    destruct (adv1_spec t w (k1 j) p i s1 HG P1 (proj1 Hi)) as (w1 & c1 & E1 & Q1 & I1 & P1').
    { intro NE. apply S1. destruct d1; [reflexivity|exfalso; apply NE; apply (proj1 (R3 eq_refl))]. }
    { intro E. apply S1'. destruct d1; [|reflexivity]. destruct (R2 eq_refl) as (l & X & _). congruence. }
    rewrite E1.
    assert (G1 : G t w1) by (eapply G_Qw; eauto).
    destruct (advc_specG w1 (k2 j) A p i s2 G1 (CPosG_Qw w w1 _ _ _ C2 Q1) (proj1 Hi))
      as (w2 & c2 & E2 & Q2 & I2 & C2').
    { intro NE. apply S2. destruct d2; [reflexivity|exfalso; apply NE; apply (A4 eq_refl)]. }
    { intro E. apply S2'. destruct d2; [|reflexivity]. exfalso. apply (A3 eq_refl E). }
    rewrite E2.
    assert (G2 : G t w2) by (eapply G_Qw; eauto).
    assert (Q02 : Qw w w2) by (eapply Qw_trans; eauto).
    destruct (advc_specG w2 (k3 j) B p i s3 G2 (CPosG_Qw w w2 _ _ _ C3 Q02) (proj1 Hi))
      as (w3 & c3 & E3 & Q3 & I3 & C3').
    { intro NE. apply S3. destruct d3; [reflexivity|exfalso; apply NE; apply (B4 eq_refl)]. }
    { intro E. apply S3'. destruct d3; [|reflexivity]. exfalso. apply (B3 eq_refl E). }
    rewrite E3.
    assert (G3 : G t w3) by (eapply G_Qw; eauto).
    assert (Q03 : Qw w w3) by (eapply Qw_trans; eauto).
    assert (Q13 : Qw w1 w3) by (eapply Qw_trans; eauto).
    eexists. eexists. split; [reflexivity|]. split; [exact Q03|]. split; [exact G3|].
    right. cbn [kok kidx ks1 ks2 ks3 k1 k2 k3].
    split.
    { destruct d1; [destruct (R2 eq_refl) as (l & X & _); rewrite X; auto|].
      destruct d2; [destruct s2; [destruct s1; auto|exfalso; apply A3; auto]|].
      destruct d3; [|discriminate]. destruct s3; [destruct s1; destruct s2; auto|exfalso; apply B3; auto]. }
    split; [exact Hi|]. split; [intros x Hx; auto|]. split; [exact A2|]. split; [exact B2|].
    split.
    { intros l El. destruct d1.
      - destruct (R2 eq_refl) as (l' & X & L & N). rewrite (Qw_lookup w w3 t i Q03 N). congruence.
      - destruct (R3 eq_refl) as (X & _). congruence. }
    split.
    { intro El. destruct d1; [destruct (R2 eq_refl) as (l' & X & _); congruence|apply R3; auto]. }
    unfold J3G. cbn [k1 k2 k3]. split; [exact G3|]. split; [rewrite (Qw_dim w w3 t Q03); auto|].
    split; [lia|]. split; [eapply Pos_Qw; eauto|]. split; [eapply CPosG_Qw; eauto|exact C3'].
  - (* nothing left *)
    apply orb_false_iff in Any. destruct Any as [Any D3]. apply orb_false_iff in Any. destruct Any as [D1 D2].
    subst d1 d2 d3. rewrite orb_false_iff in SO. destruct SO as [SO E3']. rewrite orb_false_iff in SO.
    destruct SO as [E1' E2'].
    assert (K1 : k1 j = None) by (destruct (k1 j); auto; discriminate).
    assert (K2 : cand (k2 j) = None) by (destruct (cand (k2 j)); auto; discriminate).
    assert (K3 : cand (k3 j) = None) by (destruct (cand (k3 j)); auto; discriminate).
    unfold s1_of, adv1, advc. eexists. eexists. split; [reflexivity|]. split; [apply Qw_refl|]. split; [exact HG|].
    left. cbn [kok]. split; auto. intros x Hx. rewrite K1 in P1. simpl in P1.
    split; [auto|]. split; [eapply CPosG_none; eauto|eapply CPosG_none; eauto].
Qed.
End OperandG.

(* ---- the loop: r[idx] := f(a[idx], b[idx]) at every visit ------------------------ *)
Section Loop3G.
Variable t : nat.
Variable n : Z.
Variables A B : Z -> Z.
Variable f : Z -> Z -> Z.
Hypothesis f00 : f 0 0 = 0.

Definition HeadG (w : world) (j : joint3) (p : Z) : Prop :=
  (kok j = false /\ forall i, p <= i -> peek (hp w) (getv w t) i = 0 /\ A i = 0 /\ B i = 0) \/
  (kok j = true /\ p <= kidx j < n /\
   (forall i, p <= i < kidx j -> peek (hp w) (getv w t) i = 0 /\ A i = 0 /\ B i = 0) /\
   jval (ks2 j) = A (kidx j) /\ jval (ks3 j) = B (kidx j) /\
   (forall l, ks1 j = Some l -> lookup (kidx j) (vals (getv w t)) = Some l) /\
   (ks1 j = None -> peek (hp w) (getv w t) (kidx j) = 0) /\
   J3G t n A B w j (kidx j + 1)).

Lemma next_HeadG w j p :
  J3G t n A B w j p ->
  exists w' j', joint3_next w t j = Some (w', j') /\ Qw w w' /\ G t w' /\ HeadG w' j' p.
Proof.
  intro HJ. destruct (joint3_next_specG t n A B w j p HJ) as (w' & j' & E & HQ & HG & [X|X]).
  - exists w', j'. split; [auto|]. split; [auto|]. split; [auto|]. left.
    destruct X as (X1 & X2). split; auto. intros i Hi. rewrite (Qw_peek w w' t i HQ). auto.
  - exists w', j'. split; [auto|]. split; [auto|]. split; [auto|]. right.
    destruct X as (X1 & X2 & X3 & X4 & X5 & X6 & X7 & X8).
    split; [auto|]. split; [auto|]. split; [|split; [auto|split; [auto|split; [auto|split; [|auto]]]]].
    + intros i Hi. rewrite (Qw_peek w w' t i HQ). auto.
    + intro El. rewrite (Qw_peek w w' t _ HQ). auto.
Qed.

Lemma map3_loop_specG : forall fuel w j p,
  G t w -> dim (getv w t) = n -> 0 <= p -> HeadG w j p ->
  (forall i, 0 <= i < p -> peek (hp w) (getv w t) i = f (A i) (B i)) ->
  (Z.to_nat (n - p) < fuel)%nat ->
  exists w', map3_loop f fuel w t j = Some (w', true) /\ G t w' /\ dim (getv w' t) = n /\
    length (vecs w') = length (vecs w) /\
    (forall i, 0 <= i < n -> peek (hp w') (getv w' t) i = f (A i) (B i)) /\
    (forall u k, u <> t -> peek (hp w') (getv w' u) k = peek (hp w) (getv w u) k) /\
    (forall u, dim (getv w' u) = dim (getv w u)).
Proof.
  induction fuel as [|fu IH]; intros w j p HG Hn Hp HH HD Hf; [lia|].
  destruct HH as [(K & Z0)|(K & Hi & Zg & VA & VB & HS & HS0 & HJ)].
  - exists w. cbn [map3_loop]. rewrite K. split; [auto|]. split; [auto|]. split; [auto|]. split; [auto|].
    split; [|auto]. intros i Hi. destruct (Z_lt_ge_dec i p) as [L|L]; [apply HD; lia|].
    destruct (Z0 i) as (X & Y & Z1); [lia|]. rewrite X, Y, Z1. auto.
  - cbn [map3_loop]. rewrite K.
    destruct (wr_spec t w (kidx j) (ks1 j) (f (jval (ks2 j)) (jval (ks3 j))) HG) as
      (w1 & E1 & G1 & L1 & D1 & P1 & F1 & F2); [lia|exact HS|].
    rewrite E1.
    assert (HJ1 : J3G t n A B w1 j (kidx j + 1)).
    { destruct HJ as (_ & _ & Hp' & PP & C2 & C3). unfold J3G.
      split; [auto|]. split; [rewrite D1; auto|]. split; [auto|]. split.
      - eapply Pos_ext_ge; [|exact PP]. intros k Hk. apply F1. lia.
      - split; eapply joint3_reads_before_write; eauto. }
    destruct (next_HeadG w1 j (kidx j + 1) HJ1) as (w2 & j' & E2 & Q2 & G2 & H2).
    rewrite E2.
    destruct (IH w2 j' (kidx j + 1)) as (w' & E3 & G3 & D3 & L3 & R3 & F3 & DD3); auto.
    + rewrite (Qw_dim w1 w2 t Q2), D1. auto.
    + lia.
    + intros i Hi'. rewrite (Qw_peek w1 w2 t i Q2).
      destruct (Z.eq_dec i (kidx j)) as [->|N].
      * rewrite P1, VA, VB. auto.
      * rewrite (proj1 (F1 i N)). destruct (Z_lt_ge_dec i p) as [L|L]; [apply HD; lia|].
        destruct (Zg i) as (X & Y & Z1); [lia|]. rewrite X, Y, Z1. auto.
    + lia.
    + exists w'. split; [auto|]. split; [auto|]. split; [auto|].
      split; [destruct Q2 as (_ & X & _); lia|]. split; [auto|]. split.
      * intros u k N. rewrite F3 by auto. rewrite (Qw_peek w1 w2 u k Q2). apply F2. auto.
      * intro u. rewrite DD3, (Qw_dim w1 w2 u Q2). auto.
Qed.
End Loop3G.

(* ---- the whole operation: r.Op(a, b), a and/or b possibly r itself ---------------- *)
(* an operand of a sparse receiver t: a dense value list or ANY sparse vector of the
   world of the same dimension — the receiver included *)
Definition operand_ok3a (w : world) (t : nat) (o : operand) : Prop :=
  match o with
  | OS u => has w u /\ dim (getv w u) = dim (getv w t)
  | OD d => zlen d = dim (getv w t)
  end.
Lemma operand_ok3_a w t o : operand_ok3 w t o -> operand_ok3a w t o.
Proof. destruct o; simpl; tauto. Qed.
Lemma operand_ok3a_self w t : has w t -> operand_ok3a w t (OS t).
Proof. simpl. auto. Qed.
Lemma operand_ok3a_wka w t o : operand_ok3a w t o -> operand_wka t w o.
Proof. destruct o; simpl; auto. lia. Qed.
Lemma operand_dima w t o : operand_ok3a w t o -> op_dim w o = dim (getv w t).
Proof. destruct o as [u|d]; simpl; [tauto|auto]. Qed.

Section Top3G.
Variable t : nat.
Variable f : Z -> Z -> Z.
Hypothesis f00 : f 0 0 = 0.

Lemma joint3_begin_HeadG w o2 o3 :
  G t w -> operand_wka t w o2 -> operand_wka t w o3 ->
  exists w1 j, joint3_begin w t o2 o3 = Some (w1, j) /\ Qw w w1 /\ G t w1 /\
    HeadG t (dim (getv w t)) (ord w o2) (ord w o3) w1 j 0.
Proof.
  intros HG H2 H3. set (n := dim (getv w t)). unfold joint3_begin.
  pose proof HG as (GI & _ & _ & GH).
  destruct (it_begin_pos (hp w) (getv w t) (GI t)) as (v' & c1 & E1 & Q1 & I1 & P1).
  rewrite E1. set (wA := setv w t v').
  assert (QA : Qw w wA) by (apply Qw_setv; auto).
  assert (GA : G t wA) by (eapply G_Qw; eauto; apply AInv_setv; auto).
  assert (DA : dim (getv wA t) = n) by (rewrite (Qw_dim w wA t QA); auto).
  destruct (CPosG_begin t n wA o2 GA (operand_wka_Qw t w wA o2 H2 QA) DA) as (wB & c2 & E2 & QB & IB & CB).
  rewrite E2.
  assert (GB : G t wB) by (eapply G_Qw; eauto).
  assert (Q0B : Qw w wB) by (eapply Qw_trans; eauto).
  assert (DB : dim (getv wB t) = n) by (rewrite (Qw_dim w wB t Q0B); auto).
  destruct (CPosG_begin t n wB o3 GB (operand_wka_Qw t w wB o3 H3 Q0B) DB) as (wC & c3 & E3 & QC & IC & CC).
  rewrite E3.
  assert (GC : G t wC) by (eapply G_Qw; eauto).
  assert (Q0C : Qw w wC) by (eapply Qw_trans; eauto).
  assert (QAC : Qw wA wC) by (eapply Qw_trans; eauto).
  set (j0 := {| k1 := c1; k2 := c2; k3 := c3; kidx := -1; ks1 := None; ks2 := None; ks3 := None; kok := false |}).
  assert (HJ : J3G t n (ord w o2) (ord w o3) wC j0 0).
  { unfold J3G, j0. cbn [k1 k2 k3]. split; [auto|]. split; [rewrite (Qw_dim w wC t Q0C); auto|].
    split; [lia|]. split.
    - apply (Pos_Qw t wA wC); auto. unfold wA. simpl. rewrite getv_setv_eq; auto.
    - split.
      + eapply CPosG_ext; [|eapply CPosG_Qw; [exact CB|exact QC]]. intro i. apply ord_Qw. auto.
      + eapply CPosG_ext; [|exact CC]. intro i. apply ord_Qw. auto. }
  destruct (next_HeadG t n _ _ wC j0 0 HJ) as (w1 & j & E4 & Q4 & G4 & H4).
  exists w1, j. split; [exact E4|]. split; [eapply Qw_trans; eauto|]. split; auto.
Qed.

Theorem vop3_correct_alias w o2 o3 :
  G t w -> operand_ok3a w t o2 -> operand_ok3a w t o3 ->
  exists w', vop3 f w t o2 o3 = Some (w', true) /\ G t w' /\
    length (vecs w') = length (vecs w) /\
    sabs w' t = map2 f (oabs w o2) (oabs w o3) /\
    (forall u, u <> t -> sabs w' u = sabs w u) /\
    (forall u, dim (getv w' u) = dim (getv w u)).
Proof.
  intros HG H2 H3. unfold vop3.
  rewrite (operand_dima w t o2 H2), (operand_dima w t o3 H3), Z.eqb_refl. cbn [negb orb].
  destruct (joint3_begin_HeadG w o2 o3 HG (operand_ok3a_wka _ _ _ H2) (operand_ok3a_wka _ _ _ H3)) as (w1 & j & E1 & Q1 & G1 & H1).
  rewrite E1. set (n := dim (getv w t)) in *.
  assert (Hn0 : 0 <= n) by (destruct HG as (GI & _); destruct (GI t) as (_ & _ & _ & _ & X); auto).
  destruct (map3_loop_specG t n (ord w o2) (ord w o3) f f00 (lfuel w t) w1 j 0) as
    (w' & E2 & G2 & D2 & L2 & R2 & F2 & DD2); auto.
  - rewrite (Qw_dim w w1 t Q1). auto.
  - lia.
  - intros i Hi. lia.
  - unfold lfuel. fold n. lia.
  - exists w'. split; [exact E2|]. split; [exact G2|].
    split; [destruct Q1 as (_ & X & _); lia|]. split; [|split].
    + rewrite (sabs_peek w' t n D2).
      rewrite (oabs_ord w o2 n), (oabs_ord w o3 n) by (apply operand_dima; auto).
      rewrite map2_map. apply map_ext_in. intros i Hi. apply zseq_In in Hi. apply R2. lia.
    + intros u N. assert (DU : dim (getv w' u) = dim (getv w u)) by (rewrite DD2; apply (Qw_dim w w1 u Q1)).
      rewrite (sabs_peek w' u _ DU), (sabs_peek w u _ eq_refl).
      apply map_ext. intro i. rewrite F2 by auto. apply Qw_peek. auto.
    + intro u. rewrite DD2. apply (Qw_dim w w1 u Q1).
Qed.
End Top3G.

(* ---- the two-way loops (VmulS, VdivS c <> 0, Set) --------------------------------- *)
Theorem vop2_correct_alias t (f : Z -> Z) w o :
  f 0 = 0 -> G t w -> operand_ok3a w t o ->
  exists w', vop2 f w t o = Some (w', true) /\ G t w' /\
    length (vecs w') = length (vecs w) /\
    sabs w' t = map f (oabs w o) /\
    (forall u, u <> t -> sabs w' u = sabs w u) /\
    (forall u, dim (getv w' u) = dim (getv w u)).
Proof.
  intros f0 HG H2. unfold vop2.
  rewrite (operand_dima w t o H2), Z.eqb_refl. cbn [negb].
  assert (Hn0 : 0 <= dim (getv w t)) by (destruct HG as (GI & _); destruct (GI t) as (_ & _ & _ & _ & X); auto).
  assert (H3 : operand_wka t w (OD [])) by (simpl; unfold zlen; simpl; lia).
  destruct (joint3_begin_HeadG t w o (OD []) HG (operand_ok3a_wka _ _ _ H2) H3) as (w1 & j3 & E1 & Q1 & G1 & H1).
  rewrite joint_begin_embed in E1. destruct (joint_begin w t o) as [[w1' j]|]; [|discriminate].
  simpl in E1. inversion E1. subst w1' j3. clear E1.
  rewrite map2_loop_embed. set (n := dim (getv w t)) in *.
  destruct (map3_loop_specG t n (ord w o) (ord w (OD [])) (fun a _ => f a) f0 (lfuel w t) w1 (embed j) 0) as
    (w' & E2 & G2 & D2 & L2 & R2 & F2 & DD2); auto.
  - rewrite (Qw_dim w w1 t Q1). auto.
  - lia.
  - intros i Hi. lia.
  - unfold lfuel. fold n. lia.
  - exists w'. split; [exact E2|]. split; [exact G2|].
    split; [destruct Q1 as (_ & X & _); lia|]. split; [|split].
    + rewrite (sabs_peek w' t n D2).
      rewrite (oabs_ord w o n) by (apply operand_dima; auto).
      rewrite map_map. apply map_ext_in. intros i Hi. apply zseq_In in Hi. apply R2. lia.
    + intros u N. assert (DU : dim (getv w' u) = dim (getv w u)) by (rewrite DD2; apply (Qw_dim w w1 u Q1)).
      rewrite (sabs_peek w' u _ DU), (sabs_peek w u _ eq_refl).
      apply map_ext. intro i. rewrite F2 by auto. apply Qw_peek. auto.
    + intro u. rewrite DD2. apply (Qw_dim w w1 u Q1).
Qed.

(* r.Set(x): x == r -> nothing happens *)
Theorem vset_correct_alias t w o :
  G t w -> operand_ok3a w t o ->
  exists w', vset w t o = Some (w', true) /\ G t w' /\
    length (vecs w') = length (vecs w) /\
    sabs w' t = oabs w o /\
    (forall u, u <> t -> sabs w' u = sabs w u) /\
    (forall u, dim (getv w' u) = dim (getv w u)).
Proof.
  intros HG H2.
  assert (Gen : exists w', vop2 (fun x => x) w t o = Some (w', true) /\ G t w' /\
    length (vecs w') = length (vecs w) /\ sabs w' t = oabs w o /\
    (forall u, u <> t -> sabs w' u = sabs w u) /\ (forall u, dim (getv w' u) = dim (getv w u))).
  { destruct (vop2_correct_alias t (fun x => x) w o eq_refl HG H2) as (w' & X1 & X2 & X3 & X4 & X5).
    exists w'. rewrite map_id in X4. auto. }
  unfold vset. destruct o as [u|d]; [|exact Gen].
  destruct (Nat.eqb t u) eqn:E; [|exact Gen]. apply Nat.eqb_eq in E. subst u.
  exists w. split; [reflexivity|]. split; [exact HG|]. split; [reflexivity|]. split; [reflexivity|].
  split; [intros u _; reflexivity|intro u; reflexivity].
Qed.

(* ---- Equals --------------------------------------------------------------------- *)
Section EqualsG.
Variable t : nat.
Variable n : Z.
Variable A : Z -> Z.
Variable e2 : Z.
Hypothesis He : 0 < e2.

Lemma eq_loop_specG : forall fuel w j p,
  G t w -> dim (getv w t) = n -> 0 <= p -> HeadG t n A (fun _ => 0) w (embed j) p ->
  (forall i, 0 <= i < p -> close e2 (peek (hp w) (getv w t) i) (A i) = true) ->
  (Z.to_nat (n - p) < fuel)%nat ->
  exists w' b, eq_loop e2 fuel w t j = Some (w', b) /\ Qw w w' /\ G t w' /\
    (b = true <-> forall i, 0 <= i < n -> close e2 (peek (hp w) (getv w t) i) (A i) = true).
Proof.
  induction fuel as [|fu IH]; intros w j p HG Hn Hp HH HD Hf; [lia|].
  destruct HH as [(K & Z0)|(K & Hi & Zg & VA & VB & HS & HS0 & HJ)]; cbn [embed kok kidx ks1 ks2] in *.
  - exists w, true. cbn [eq_loop]. rewrite K. split; [auto|]. split; [apply Qw_refl|]. split; [auto|].
    split; auto. intros _ i Hi. destruct (Z_lt_ge_dec i p) as [L|L]; [apply HD; lia|].
    destruct (Z0 i) as (X & Y & _); [lia|]. rewrite X, Y. apply close00. auto.
  - cbn [eq_loop]. rewrite K.
    assert (EX : (match js1 j with Some l => hget (hp w) l | None => 0 end) = peek (hp w) (getv w t) (jidx j)).
    { destruct (js1 j) as [l|] eqn:E.
      - unfold peek. rewrite (HS l eq_refl). auto.
      - symmetry. apply HS0. auto. }
    rewrite EX, VA.
    destruct (close e2 (peek (hp w) (getv w t) (jidx j)) (A (jidx j))) eqn:C.
    + destruct (next_HeadG t n A (fun _ => 0) w (embed j) (jidx j + 1) HJ) as (w2 & j3 & E2 & Q2 & G2 & H2).
      rewrite joint_next_embed in E2. destruct (joint_next w t j) as [[w2' j']|]; [|discriminate].
      simpl in E2. inversion E2. subst w2' j3. clear E2.
      destruct (IH w2 j' (jidx j + 1)) as (w' & b & E3 & Q3 & G3 & R3); auto.
      * rewrite (Qw_dim w w2 t Q2). auto.
      * lia.
      * intros i Hi'. rewrite (Qw_peek w w2 t i Q2).
        destruct (Z.eq_dec i (jidx j)) as [->|N]; [auto|].
        destruct (Z_lt_ge_dec i p) as [L|L]; [apply HD; lia|].
        destruct (Zg i) as (X & Y & _); [lia|]. rewrite X, Y. apply close00. auto.
      * lia.
      * exists w', b. split; [auto|]. split; [eapply Qw_trans; eauto|]. split; [auto|].
        rewrite R3. split; intros HA i Hi'.
        { rewrite <- (Qw_peek w w2 t i Q2). auto. }
        { rewrite (Qw_peek w w2 t i Q2). auto. }
    + exists w, false. split; [auto|]. split; [apply Qw_refl|]. split; [auto|].
      split; [discriminate|]. intro HA. rewrite HA in C by lia. discriminate.
Qed.
End EqualsG.

Theorem vequals_alias t e2 w o :
  0 < e2 -> G t w -> operand_ok3a w t o ->
  exists w', vequals e2 w t o = Some (w', Some (all_close e2 (sabs w t) (oabs w o))) /\
             Qw w w' /\ G t w'.
Proof.
  intros He HG H2. unfold vequals.
  rewrite (operand_dima w t o H2), Z.eqb_refl. cbn [negb].
  assert (Hn0 : 0 <= dim (getv w t)) by (destruct HG as (GI & _); destruct (GI t) as (_ & _ & _ & _ & X); auto).
  assert (H3 : operand_wka t w (OD [])) by (simpl; unfold zlen; simpl; lia).
  destruct (joint3_begin_HeadG t w o (OD []) HG (operand_ok3a_wka _ _ _ H2) H3) as (w1 & j3 & E1 & Q1 & G1 & H1).
  rewrite joint_begin_embed in E1. destruct (joint_begin w t o) as [[w1' j]|]; [|discriminate].
  simpl in E1. inversion E1. subst w1' j3. clear E1.
  set (n := dim (getv w t)) in *.
  assert (HH : HeadG t n (ord w o) (fun _ => 0) w1 (embed j) 0).
  { destruct H1 as [(K & Z0)|(K & Hi & Zg & VA & VB & HS & HS0 & HJ)]; [left|right].
    - split; auto. intros i Hi. destruct (Z0 i Hi) as (X & Y & _). auto.
    - split; [auto|]. split; [auto|]. split.
      + intros i Hi'. destruct (Zg i Hi') as (X & Y & _). auto.
      + split; [auto|]. split; [auto|]. split; [auto|]. split; [auto|].
        destruct HJ as (J1 & J2 & J3' & J4 & J5 & J6). unfold J3G. split; [auto|]. split; [auto|].
        split; [auto|]. split; [auto|]. split; [auto|].
        eapply CPosG_ext; [|exact J6]. intro i. simpl. destruct (Z.to_nat i); auto. }
  destruct (eq_loop_specG t n (ord w o) e2 He (lfuel w t) w1 j 0) as (w' & b & E2 & Q2 & G2 & R2); auto.
  - rewrite (Qw_dim w w1 t Q1). auto.
  - lia.
  - intros i Hi. lia.
  - unfold lfuel. fold n. lia.
  - rewrite E2. exists w'. split; [|split; [eapply Qw_trans; eauto|auto]].
    f_equal. f_equal. f_equal.
    rewrite (sabs_peek w t n eq_refl), (oabs_ord w o n) by (apply operand_dima; auto).
    unfold all_close.
    assert (RB : b = true <-> forall i, In i (zseq 0 (Z.to_nat n)) ->
                   close e2 (peek (hp w) (getv w t) i) (ord w o i) = true).
    { rewrite R2. split; intros HA i Hi.
      - apply zseq_In in Hi. rewrite <- (Qw_peek w w1 t i Q1). apply HA. lia.
      - rewrite (Qw_peek w w1 t i Q1). apply HA. apply zseq_In. lia. }
    clear - RB. revert RB. generalize (zseq 0 (Z.to_nat n)). intros s RB.
    assert (E : forallb (fun p => close e2 (fst p) (snd p))
                  (combine (map (peek (hp w) (getv w t)) s) (map (ord w o) s)) =
                forallb (fun i => close e2 (peek (hp w) (getv w t) i) (ord w o i)) s).
    { clear RB. induction s as [|x s IH]; simpl; auto. rewrite IH. auto. }
    rewrite E. destruct b.
    + symmetry. apply forallb_forall. apply RB. auto.
    + destruct (forallb (fun i => close e2 (peek (hp w) (getv w t) i) (ord w o i)) s) eqn:F; auto.
      rewrite forallb_forall in F. apply RB in F. discriminate.
Qed.

(* ---- index loops: r.AT(i).<op>(a.ConstAt(i), ...) for i = 0 .. n-1 ----------------- *)
(* the operand is read in the CURRENT world at position i, before r[i] is written:
   the invariant only needs the operand to be unchanged at positions >= i *)
Lemma ord_frame_ge t o (A : Z -> Z) w w1 i :
  (forall k, k <> i -> peek (hp w1) (getv w1 t) k = peek (hp w) (getv w t) k) ->
  (forall u k, u <> t -> peek (hp w1) (getv w1 u) k = peek (hp w) (getv w u) k) ->
  (forall k, i <= k -> ord w o k = A k) -> forall k, i + 1 <= k -> ord w1 o k = A k.
Proof.
  intros F1 F2 H k Hk. rewrite <- H by lia. destruct o as [u|d]; simpl; auto.
  destruct (Nat.eq_dec u t) as [->|N]; [apply F1; lia|apply F2; auto].
Qed.

Section IndexLoopsA.
Variable t : nat.
Variable n : Z.
Variable o : operand.
Variable A : Z -> Z.
Variable g : world -> Z -> option Z.
Variable F : Z -> Z.
Hypothesis Hg : forall w1 k, ord w1 o k = A k -> g w1 k = Some (F k).

Lemma at_loop_specA : forall cnt i w,
  G t w -> dim (getv w t) = n -> 0 <= i -> i + Z.of_nat cnt = n -> (forall k, i <= k -> ord w o k = A k) ->
  exists w', at_loop g cnt i w t = (w', true) /\ G t w' /\ length (vecs w') = length (vecs w) /\
    (forall u, dim (getv w' u) = dim (getv w u)) /\
    (forall k, i <= k < n -> peek (hp w') (getv w' t) k = F k) /\
    (forall k, k < i -> peek (hp w') (getv w' t) k = peek (hp w) (getv w t) k) /\
    (forall u k, u <> t -> peek (hp w') (getv w' u) k = peek (hp w) (getv w u) k).
Proof.
  induction cnt as [|c IH]; intros i w HG Hn Hi Hc HA.
  - exists w. simpl. split; [auto|]. split; [auto|]. split; [auto|]. split; [auto|].
    split; [intros k Hk; lia|]. auto.
  - cbn [at_loop].
    destruct (at_step t w i HG) as (h' & v' & l & E & G1 & L1 & V1 & Len1 & D1 & P1); [lia|].
    rewrite E. set (w1 := seth (setv w t v') h') in *.
    assert (HA1 : forall k, i <= k -> ord w1 o k = A k).
    { intros k Hk. rewrite <- (HA k Hk). destruct o as [u|d]; simpl; [apply P1|reflexivity]. }
    rewrite (Hg w1 i (HA1 i ltac:(lia))).
    destruct (wr_spec t w1 i (Some l) (F i) G1) as (w2 & E2 & G2 & L2 & D2 & P2 & F1 & F2).
    { rewrite D1. lia. }
    { intros l0 X. inversion X. subst l0. rewrite V1. auto. }
    unfold wr in E2. inversion E2. clear E2. change (hp w1) with h' in H0. rewrite H0.
    destruct (IH (i + 1) w2) as (w' & E3 & G3 & L3 & D3 & R3 & S3 & F3); auto.
    + rewrite D2, D1. auto.
    + lia.
    + lia.
    + apply (ord_frame_ge t o A w1 w2 i); auto.
      * intros k N. apply F1. auto.
      * intros u k N. apply F2. auto.
    + exists w'. split; [auto|]. split; [auto|].
      split; [rewrite L3, L2; unfold w1; simpl; apply upd_length|].
      split; [intro u; rewrite D3, D2, D1; auto|]. split; [|split].
      * intros k Hk. destruct (Z.eq_dec k i) as [->|N]; [|apply R3; lia].
        rewrite S3 by lia. auto.
      * intros k Hk. rewrite S3 by lia. rewrite (proj1 (F1 k ltac:(lia))). apply P1.
      * intros u k N. rewrite F3 by auto. rewrite (proj1 (F2 u k N)). apply P1.
Qed.
End IndexLoopsA.

(* VaddS / VsubS / VdivS by zero: r[i] := F(a[i]) for every i; a may be r *)
Theorem vopS_correct_alias t (g : world -> Z -> option Z) (F : Z -> Z) w o :
  G t w -> operand_ok3a w t o ->
  (forall w1 k, ord w1 o k = ord w o k -> g w1 k = Some (F (ord w o k))) ->
  exists w', vopS g w t o = (w', true) /\ G t w' /\ length (vecs w') = length (vecs w) /\
    sabs w' t = map F (oabs w o) /\
    (forall u, u <> t -> sabs w' u = sabs w u) /\
    (forall u, dim (getv w' u) = dim (getv w u)).
Proof.
  intros HG H2 Hg. unfold vopS. rewrite (operand_dima w t o H2), Z.eqb_refl. cbn [negb].
  set (n := dim (getv w t)).
  assert (Hn0 : 0 <= n) by (destruct HG as (GI & _); destruct (GI t) as (_ & _ & _ & _ & X); auto).
  destruct (at_loop_specA t n o (ord w o) g (fun k => F (ord w o k)) Hg (Z.to_nat n) 0 w)
    as (w' & E & G' & L & D & R & S & F'); auto.
  - lia.
  - lia.
  - exists w'. split; [auto|]. split; [auto|]. split; [auto|]. split; [|split; [|auto]].
    + rewrite (sabs_peek w' t n) by (rewrite D; auto).
      rewrite (oabs_ord w o n) by (apply operand_dima; auto). rewrite map_map.
      apply map_ext_in. intros i Hi. apply zseq_In in Hi. apply R. lia.
    + intros u N. rewrite (sabs_peek w' u _ (D u)), (sabs_peek w u _ eq_refl).
      apply map_ext. intro i. apply F'. auto.
Qed.

(* ---- VdivV ------------------------------------------------------------------------ *)
Section DivVA.
Variable t : nat.
Variable n : Z.
Variable y : ty.
Variables o2 o3 : operand.
Variables A B : Z -> Z.
Hypothesis HB : forall k, 0 <= k < n -> B k <> 0.

Lemma divv_loop_specA : forall cnt i w,
  G t w -> dim (getv w t) = n -> 0 <= i -> i + Z.of_nat cnt = n ->
  (forall k, i <= k -> ord w o2 k = A k) -> (forall k, i <= k -> ord w o3 k = B k) ->
  exists w', divv_loop y cnt i w t o2 o3 = (w', true) /\ G t w' /\ length (vecs w') = length (vecs w) /\
    (forall u, dim (getv w' u) = dim (getv w u)) /\
    (forall k, i <= k < n -> peek (hp w') (getv w' t) k = Z.quot (A k) (B k)) /\
    (forall k, k < i -> peek (hp w') (getv w' t) k = peek (hp w) (getv w t) k) /\
    (forall u k, u <> t -> peek (hp w') (getv w' u) k = peek (hp w) (getv w u) k).
Proof.
  induction cnt as [|c IH]; intros i w HG Hn Hi Hc HA HBo.
  - exists w. simpl. split; [auto|]. split; [auto|]. split; [auto|]. split; [auto|].
    split; [intros k Hk; lia|]. auto.
  - cbn [divv_loop]. rewrite (HA i), (HBo i) by lia.
    assert (Bi : B i <> 0) by (apply HB; lia).
    assert (EB : (B i =? 0) = false) by (apply Z.eqb_neq; auto).
    rewrite EB, orb_false_r.
    assert (Step : forall x, x = Z.quot (A i) (B i) ->
              forall w2, wr w t i None x = Some w2 ->
              exists w', divv_loop y c (i + 1) w2 t o2 o3 = (w', true) /\ G t w' /\
                length (vecs w') = length (vecs w) /\
                (forall u, dim (getv w' u) = dim (getv w u)) /\
                (forall k, i <= k < n -> peek (hp w') (getv w' t) k = Z.quot (A k) (B k)) /\
                (forall k, k < i -> peek (hp w') (getv w' t) k = peek (hp w) (getv w t) k) /\
                (forall u k, u <> t -> peek (hp w') (getv w' u) k = peek (hp w) (getv w u) k)).
    { intros x Hx w2 E2.
      destruct (wr_spec t w i None x HG) as (w2' & E2' & G2 & L2 & D2 & P2 & F1 & F2);
        [lia|intros l X; discriminate|].
      rewrite E2 in E2'. inversion E2'. subst w2'. clear E2'.
      destruct (IH (i + 1) w2) as (w' & E3 & G3 & L3 & D3 & R3 & S3 & F3); auto.
      - rewrite D2. auto.
      - lia.
      - lia.
      - apply (ord_frame_ge t o2 A w w2 i); auto; [intros k N; apply F1; auto|intros u k N; apply F2; auto].
      - apply (ord_frame_ge t o3 B w w2 i); auto; [intros k N; apply F1; auto|intros u k N; apply F2; auto].
      - exists w'. split; [auto|]. split; [auto|]. split; [lia|].
        split; [intro u; rewrite D3, D2; auto|]. split; [|split].
        + intros k Hk. destruct (Z.eq_dec k i) as [->|N]; [|apply R3; lia].
          rewrite S3 by lia. rewrite P2. auto.
        + intros k Hk. rewrite S3 by lia. apply (proj1 (F1 k ltac:(lia))).
        + intros u k N. rewrite F3 by auto. apply (proj1 (F2 u k N)). }
    destruct (A i =? 0) eqn:EA; cbn [negb].
    + apply Z.eqb_eq in EA.
      destruct (peek (hp w) (getv w t) i =? 0) eqn:ER; cbn [negb].
      * apply Z.eqb_eq in ER.
        destruct (IH (i + 1) w) as (w' & E3 & G3 & L3 & D3 & R3 & S3 & F3); auto; try lia.
        { intros k Hk. apply HA. lia. }
        { intros k Hk. apply HBo. lia. }
        exists w'. split; [auto|]. split; [auto|]. split; [auto|]. split; [auto|]. split; [|split; auto].
        { intros k Hk. destruct (Z.eq_dec k i) as [->|N]; [|apply R3; lia].
          rewrite S3 by lia. rewrite ER, EA. symmetry. apply Z.quot_0_l. auto. }
        { intros k Hk. apply S3. lia. }
      * destruct (wr_spec t w i None 0 HG) as (w2 & E2 & _); [lia|intros l X; discriminate|].
        pose proof E2 as E2'. unfold wr in E2'.
        destruct (at_ (hp w) (getv w t) i) as [[[h' v'] l]|]; [|discriminate].
        inversion E2'. apply (Step 0); [rewrite EA; symmetry; apply Z.quot_0_l; auto|rewrite E2; f_equal; rewrite <- H0; reflexivity].
    + destruct (wr_spec t w i None (Z.quot (A i) (B i)) HG) as (w2 & E2 & _); [lia|intros l X; discriminate|].
      pose proof E2 as E2'. unfold wr in E2'.
      destruct (at_ (hp w) (getv w t) i) as [[[h' v'] l]|]; [|discriminate].
      rewrite sdiv_nonzero by auto.
      inversion E2'. apply (Step (Z.quot (A i) (B i))); [reflexivity|rewrite E2; f_equal; rewrite <- H0; reflexivity].
Qed.
End DivVA.

Theorem vdivv_correct_alias t y w o2 o3 :
  G t w -> operand_ok3a w t o2 -> operand_ok3a w t o3 -> nonzero_all (oabs w o3) ->
  exists w', vdivv y w t o2 o3 = (w', true) /\ G t w' /\ length (vecs w') = length (vecs w) /\
    sabs w' t = map2 Z.quot (oabs w o2) (oabs w o3) /\
    (forall u, u <> t -> sabs w' u = sabs w u) /\
    (forall u, dim (getv w' u) = dim (getv w u)).
Proof.
  intros HG H2 H3 Hnz. unfold vdivv.
  rewrite (operand_dima w t o2 H2), (operand_dima w t o3 H3), Z.eqb_refl. cbn [negb orb].
  set (n := dim (getv w t)).
  assert (Hn0 : 0 <= n) by (destruct HG as (GI & _); destruct (GI t) as (_ & _ & _ & _ & X); auto).
  destruct (divv_loop_specA t n y o2 o3 (ord w o2) (ord w o3)) with (cnt := Z.to_nat n) (i := 0) (w := w)
    as (w' & E & G' & L & D & R & S & F'); auto.
  - intros k Hk. unfold nonzero_all in Hnz. rewrite (oabs_ord w o3 n) in Hnz by (apply operand_dima; auto).
    rewrite Forall_forall in Hnz. apply Hnz. apply in_map. apply zseq_In. lia.
  - lia.
  - lia.
  - exists w'. split; [auto|]. split; [auto|]. split; [auto|]. split; [|split; [|auto]].
    + rewrite (sabs_peek w' t n) by (rewrite D; auto).
      rewrite (oabs_ord w o2 n), (oabs_ord w o3 n) by (apply operand_dima; auto). rewrite map2_map.
      apply map_ext_in. intros i Hi. apply zseq_In in Hi. apply R. lia.
    + intros u N. rewrite (sabs_peek w' u _ (D u)), (sabs_peek w u _ eq_refl).
      apply map_ext. intro i. apply F'. auto.
Qed.
