(* C03 — semantics of iterator positions.
   A plain iterator of a sparse vector is described by WHAT IT STANDS FOR, not
   by the shape of the index: [Pos h v c p] says "c is the first non-zero
   position >= p" (all positions in between read zero).  skip() keeps this
   reading while it deletes null entries.  On top: the world-level relation
   Qw (iterators only remove null entries), the operand iterators (sparse or
   dense) behind one interface, and the "advance if it delivered" steps of the
   joint iterators. *)
From Coq Require Import ZArith List Bool Lia Sorted.
From ADV Require Import C11.Model C11.Spec C11.ProofsMap C11.ProofsIter C11.ProofsInv C11.ProofsRef
                        C03.Model C03.Spec.
Import ListNotations.
Open Scope Z_scope.

(* ---- v' is v with some null entries removed ---------------------------------- *)
Definition Sub (v v' : svec) : Prop :=
  forall k l, lookup k (vals v') = Some l -> lookup k (vals v) = Some l.
Definition QS (h : heap) (v v' : svec) : Prop := Q h v v' /\ Sub v v'.
Lemma QS_refl h v : QS h v v.
Proof. split; [apply Q_refl|]. unfold Sub. auto. Qed.
Lemma QS_trans h a b c : QS h a b -> QS h b c -> QS h a c.
Proof. intros [A1 A2] [B1 B2]. split; [eapply Q_trans; eauto|]. unfold Sub in *. auto. Qed.
Lemma QS_del h v k : isnull h v k = true -> QS h v (del_entry k v).
Proof.
  intro H. split; [apply Q_del; auto|]. unfold Sub, del_entry. cbn [vals].
  intros k' l. rewrite lookup_remove. destruct (k =? k'); [discriminate|auto].
Qed.

Definition Pos (h : heap) (v : svec) (c : option Z) (p : Z) : Prop :=
  match c with
  | Some k => p <= k /\ isnull h v k = false /\ forall i, p <= i < k -> peek h v i = 0
  | None => forall i, p <= i -> peek h v i = 0
  end.

Lemma Pos_Q h v v' c p : Q h v v' -> Pos h v c p -> Pos h v' c p.
Proof.
  intros HQ. pose proof (fun k => Q_peek h v v' k HQ) as P. destruct HQ as (A & _).
  destruct c as [k|]; simpl.
  - intros (B & C & D). rewrite A. repeat split; auto. intros i Hi. rewrite P; auto.
  - intros D i Hi. rewrite P; auto.
Qed.
Lemma Pos_weaken h v c p p' :
  Pos h v c p -> p <= p' -> (forall k, c = Some k -> p' <= k) -> Pos h v c p'.
Proof.
  destruct c as [k|]; simpl.
  - intros (B & C & D) Hp Hk. repeat split; auto. intros i Hi. apply D. lia.
  - intros D Hp _ i Hi. apply D. lia.
Qed.
(* a non-null key is stored *)
Lemma nonnull_lookup h v k : isnull h v k = false -> exists l, lookup k (vals v) = Some l /\ hget h l <> 0.
Proof.
  unfold isnull. destruct (lookup k (vals v)) as [l|]; [|discriminate].
  intro H. exists l. split; auto. apply Z.eqb_neq. auto.
Qed.
Lemma peek_absent h v k : Inv v -> ~ In k (idx v) -> peek h v k = 0.
Proof.
  intros (_ & _ & H & _) N. unfold peek. destruct (lookup k (vals v)) as [l|] eqn:L; auto.
  exfalso. apply N. eauto.
Qed.

(* ---- skip() from a split of the index ---------------------------------------- *)
Lemma skip_none f h v : skip f h v None = Some (v, None).
Proof. destruct f; auto. Qed.
Lemma skip_nonnull f h v k : isnull h v k = false -> skip f h v (Some k) = Some (v, Some k).
Proof. intro H. destruct f; simpl; rewrite H; auto. Qed.

Lemma skip_pos h : forall rest pre v f p,
  Inv v -> idx v = pre ++ rest ->
  (forall x, In x pre -> x < p) -> (forall x, In x rest -> p <= x) ->
  (length rest <= f)%nat ->
  exists v' c', skip f h v (hd_error rest) = Some (v', c') /\ QS h v v' /\ Inv v' /\ Pos h v' c' p.
Proof.
  induction rest as [|k r IH]; intros pre v f p HI Hidx Hpre Hrest Hf.
  - exists v, None. simpl. rewrite skip_none.
    split; [auto|]. split; [apply QS_refl|]. split; [auto|].
    intros i Hi. apply peek_absent; auto. rewrite Hidx, app_nil_r. intro HH. apply Hpre in HH. lia.
  - assert (Hs : sset (pre ++ k :: r)) by (rewrite <- Hidx; apply HI).
    assert (Hr : forall x, In x r -> k < x).
    { apply sset_app_r in Hs. apply sset_cons in Hs. destruct Hs as [_ Hf']. rewrite Forall_forall in Hf'. auto. }
    simpl. destruct (isnull h v k) eqn:N.
    + destruct f as [|f]; [simpl in Hf; lia|].
      cbn [skip]. rewrite N.
      assert (E1 : first_gt k (idx v) = hd_error r) by (rewrite Hidx; apply first_gt_mid; auto).
      rewrite E1.
      destruct (IH pre (del_entry k v) f p) as (v' & c' & A & B & C & D).
      * apply Inv_del; auto.
      * unfold del_entry. cbn [idx]. rewrite Hidx. apply kdel_mid; auto.
      * auto.
      * intros x Hx. apply Hrest. simpl. auto.
      * simpl in Hf. lia.
      * exists v', c'. split; [exact A|]. split; [|split; [exact C|exact D]].
        eapply QS_trans; [apply (QS_del h v k N)|exact B].
    + exists v, (Some k). rewrite skip_nonnull by auto.
      split; [auto|]. split; [apply QS_refl|]. split; [auto|].
      split; [apply Hrest; simpl; auto|]. split; [auto|].
      intros i Hi. apply peek_absent; auto. rewrite Hidx. intro HH. apply in_app_or in HH.
        destruct HH as [HH|[HH|HH]]; [apply Hpre in HH; lia|lia|apply Hr in HH; lia].
Qed.

Lemma it_begin_pos h v :
  Inv v -> exists v' c', it_begin h v = Some (v', c') /\ QS h v v' /\ Inv v' /\ Pos h v' c' 0.
Proof.
  intro HI. unfold it_begin.
  apply (skip_pos h (idx v) [] v (sfuel v) 0); auto.
  - intros x [].
  - intros x Hx. destruct HI as (_ & _ & _ & H & _). apply H in Hx. lia.
  - unfold sfuel. lia.
Qed.

Lemma sset_split_gt k : forall l, sset l ->
  exists pre rest, l = pre ++ rest /\ (forall x, In x pre -> x <= k) /\ (forall x, In x rest -> k < x) /\
                   first_gt k l = hd_error rest.
Proof.
  induction l as [|x l IH]; intro Hs.
  - exists [], []. simpl. repeat split; auto; intros y [].
  - apply sset_cons in Hs. destruct Hs as [Hs Hf]. rewrite Forall_forall in Hf.
    destruct (k <? x) eqn:E.
    + apply Z.ltb_lt in E. exists [], (x :: l). simpl. repeat split; auto.
      * intros y [].
      * intros y [<-|Hy]; auto. apply Hf in Hy. lia.
      * unfold first_gt. simpl. apply Z.ltb_lt in E. rewrite E. auto.
    + destruct (IH Hs) as (pre & rest & A & B & C & D).
      exists (x :: pre), rest. simpl. repeat split; auto.
      * rewrite A. auto.
      * apply Z.ltb_ge in E. intros y [<-|Hy]; auto.
      * unfold first_gt in *. simpl. rewrite E. auto.
Qed.

Lemma it_next_pos h v k :
  Inv v -> exists v' c', it_next h v (Some k) = Some (v', c') /\ QS h v v' /\ Inv v' /\ Pos h v' c' (k + 1).
Proof.
  intro HI. unfold it_next.
  destruct (sset_split_gt k (idx v)) as (pre & rest & A & B & C & D); [apply HI|].
  rewrite D. apply (skip_pos h rest pre v (sfuel v) (k + 1)); auto.
  - intros x Hx. apply B in Hx. lia.
  - intros x Hx. apply C in Hx. lia.
  - unfold sfuel. rewrite A, app_length. lia.
Qed.

(* ---- worlds ------------------------------------------------------------------ *)
Lemma getv_setv_eq w u v : has w u -> getv (setv w u v) u = v.
Proof. unfold has, getv, setv. simpl. intro H. apply nth_upd_eq. auto. Qed.
Lemma getv_setv_neq w u u' v : u <> u' -> getv (setv w u v) u' = getv w u'.
Proof. unfold getv, setv. simpl. intro H. apply nth_upd_neq. auto. Qed.
Lemma getv_seth w h u : getv (seth w h) u = getv w u.
Proof. auto. Qed.
Lemma has_setv w u v u' : has (setv w u v) u' <-> has w u'.
Proof. unfold has, setv. simpl. rewrite upd_length. tauto. Qed.

Definition Qw (w w' : world) : Prop :=
  hp w' = hp w /\ length (vecs w') = length (vecs w) /\ forall u, QS (hp w) (getv w u) (getv w' u).
Lemma Qw_refl w : Qw w w.
Proof. unfold Qw. split; [auto|split; [auto|intro u; apply QS_refl]]. Qed.
Lemma Qw_trans a b c : Qw a b -> Qw b c -> Qw a c.
Proof.
  intros (A1 & A2 & A3) (B1 & B2 & B3). unfold Qw. split; [congruence|split; [congruence|]].
  intro u. eapply QS_trans; [apply A3|]. rewrite <- A1. apply B3.
Qed.
Lemma Qw_setv w u v' : has w u -> QS (hp w) (getv w u) v' -> Qw w (setv w u v').
Proof.
  intros Hu HQ. unfold Qw. split; [auto|split].
  - unfold setv. simpl. apply upd_length.
  - intro u'. destruct (Nat.eq_dec u u') as [<-|N].
    + rewrite getv_setv_eq; auto.
    + rewrite getv_setv_neq; auto. apply QS_refl.
Qed.

(* the state of a sparse receiver t, vector by vector *)
Definition AInv (w : world) : Prop := forall u, Inv (getv w u).
Definition AWf (w : world) : Prop := forall u, Wf (hp w) (getv w u).
Definition G (t : nat) (w : world) : Prop := AInv w /\ AWf w /\ Sep w t /\ has w t.

Lemma Good_G w t : Good w t -> G t w.
Proof.
  intros (A & B & C & D). split; [|split; [|split; [exact C|exact D]]].
  - intro u. apply WInv_getv; auto.
  - intro u. unfold getv. apply Forall_nth_d; auto. split; simpl; intros; discriminate.
Qed.
Lemma Wf_sub h v v' : Wf h v -> Sub v v' -> Wf h v'.
Proof. intros (A & B) S. split; intros; eauto. Qed.
Lemma G_Qw t w w' : G t w -> Qw w w' -> AInv w' -> G t w'.
Proof.
  intros (A & B & C & D) (E1 & E2 & E3) I. split; [exact I|split; [|split]].
  - intro u. rewrite E1. eapply Wf_sub; [apply B|apply E3].
  - intros u l N (k1 & L1) (k2 & L2). apply (C u l N).
    + exists k1. apply (proj2 (E3 t)). auto.
    + exists k2. apply (proj2 (E3 u)). auto.
  - unfold has in *. lia.
Qed.
Lemma upd_ge {X} (x : X) : forall l n, (length l <= n)%nat -> upd n x l = l.
Proof.
  induction l as [|y l IH]; intros n H; [destruct n; auto|].
  destruct n; simpl in *; [lia|]. f_equal. apply IH. lia.
Qed.
Lemma AInv_setv w u v : AInv w -> Inv v -> AInv (setv w u v).
Proof.
  intros A I u'. destruct (Nat.eq_dec u u') as [<-|N].
  - destruct (Nat.lt_ge_cases u (length (vecs w))) as [L|L].
    + rewrite getv_setv_eq; auto.
    + unfold getv, setv. simpl.
      rewrite upd_ge by lia. apply A.
  - rewrite getv_setv_neq; auto.
Qed.

(* an operand as the iterators need it: a dense list may be SHORTER than the
   receiver (it reads 0 beyond its end) — used for the two-way joint iterator,
   which is the three-way one with an empty third operand *)
Definition operand_wk (w : world) (t : nat) (o : operand) : Prop :=
  match o with
  | OS u => u <> t /\ has w u /\ dim (getv w u) = dim (getv w t)
  | OD d => zlen d <= dim (getv w t)
  end.
Lemma operand_ok3_wk w t o : operand_ok3 w t o -> operand_wk w t o.
Proof. destruct o; simpl; auto. lia. Qed.

(* ---- operand iterators behind one interface ---------------------------------- *)
Definition cand (c : citer) : option Z := if ci_ok c then Some (ci_index c) else None.

Section Operand.
Variable t : nat.
Variable n : Z.

Definition CPos (w : world) (c : citer) (V : Z -> Z) (p : Z) : Prop :=
  match c with
  | CS u cur => u <> t /\ has w u /\ dim (getv w u) = n /\
                (forall i, peek (hp w) (getv w u) i = V i) /\ Pos (hp w) (getv w u) cur p
  | CD d pos => zlen d <= n /\ (forall i, 0 <= i -> nth (Z.to_nat i) d 0 = V i) /\ 0 <= pos /\
                (pos < zlen d -> p <= pos /\ forall i, p <= i < pos -> V i = 0) /\
                (zlen d <= pos -> forall i, p <= i -> V i = 0)
  end.

Lemma CPos_cand w c V p k :
  G t w -> CPos w c V p -> 0 <= p -> cand c = Some k ->
  p <= k < n /\ ci_get w c = Some (V k) /\ forall i, p <= i < k -> V i = 0.
Proof.
  intros HG HC Hp. unfold cand. destruct c as [u cur|d pos]; simpl in *.
  - destruct cur as [k0|]; [|discriminate]. intro E. inversion E. subst k0.
    destruct HC as (N & Hu & Hd & HV & (P1 & P2 & P3)).
    destruct (nonnull_lookup _ _ _ P2) as (l & L & NZ). rewrite L.
    assert (In k (idx (getv w u))). { destruct HG as (A & _). destruct (A u) as (_ & _ & H & _). eauto. }
    assert (0 <= k < dim (getv w u)). { destruct HG as (A & _). destruct (A u) as (_ & _ & _ & H' & _). auto. }
    repeat split; try lia.
    + rewrite <- HV. unfold peek. rewrite L. auto.
    + intros i Hi. rewrite <- HV. auto.
  - destruct HC as (Hd & HV & H0 & H1 & H2). unfold zlen in *.
    destruct (pos <? Z.of_nat (length d)) eqn:E; [|discriminate]. apply Z.ltb_lt in E.
    intro E'. inversion E'. subst k. destruct (H1 E) as (A & B). repeat split; auto; try lia.
    rewrite HV; auto.
Qed.
Lemma CPos_none w c V p : CPos w c V p -> cand c = None -> forall i, p <= i -> V i = 0.
Proof.
  unfold cand. destruct c as [u cur|d pos]; simpl.
  - destruct cur; [discriminate|]. intros (_ & _ & _ & HV & P) _ i Hi. rewrite <- HV. auto.
  - intros (Hd & HV & H0 & H1 & H2). unfold zlen in *.
    destruct (pos <? Z.of_nat (length d)) eqn:E; [discriminate|]. apply Z.ltb_ge in E. auto.
Qed.
Lemma CPos_Qw w w' c V p : CPos w c V p -> Qw w w' -> CPos w' c V p.
Proof.
  intros HC (E1 & E2 & E3). destruct c as [u cur|d pos]; simpl in *; auto.
  destruct HC as (N & Hu & Hd & HV & P). destruct (E3 u) as (HQ & _). rewrite E1.
  repeat split; auto.
  - unfold has in *. lia.
  - destruct HQ as (_ & _ & D). congruence.
  - intro i. rewrite (Q_peek _ _ _ i HQ). auto.
  - eapply Pos_Q; eauto.
Qed.
Lemma CPos_weaken w c V p p' :
  CPos w c V p -> p <= p' -> (forall k, cand c = Some k -> p' <= k) -> CPos w c V p'.
Proof.
  unfold cand. destruct c as [u cur|d pos]; simpl.
  - intros (N & Hu & Hd & HV & P) Hp Hk. repeat split; auto.
    eapply Pos_weaken; eauto. intros k E. apply Hk. subst. auto.
  - intros (Hd & HV & H0 & H1 & H2) Hp Hk. unfold zlen in *. repeat split; auto.
    + apply Hk. apply Z.ltb_lt in H. rewrite H. auto.
    + intros i Hi. apply (proj2 (H1 H)). lia.
    + intros H i Hi. apply H2; auto. lia.
Qed.
Lemma CPos_next w c V p k :
  G t w -> CPos w c V p -> cand c = Some k ->
  exists w' c', ci_next w c = Some (w', c') /\ Qw w w' /\ AInv w' /\ CPos w' c' V (k + 1).
Proof.
  intros HG HC. unfold cand. destruct c as [u cur|d pos]; simpl in *.
  - destruct cur as [k0|]; [|discriminate]. intro E. inversion E. subst k0.
    destruct HC as (N & Hu & Hd & HV & P). destruct HG as (A & _).
    destruct (it_next_pos (hp w) (getv w u) k (A u)) as (v' & c' & X & Y & Z1 & Z2).
    rewrite X. exists (setv w u v'), (CS u c'). split; auto.
    assert (HQw : Qw w (setv w u v')) by (apply Qw_setv; auto).
    split; auto. split; [apply AInv_setv; auto|].
    simpl. rewrite getv_setv_eq by auto. repeat split; auto.
    + apply has_setv. auto.
    + destruct Y as ((_ & _ & D) & _). congruence.
    + intro i. rewrite (Q_peek _ _ _ i (proj1 Y)). auto.
  - destruct HC as (Hd & HV & H0 & H1 & H2). unfold zlen in *.
    destruct (pos <? Z.of_nat (length d)) eqn:E; [|discriminate]. intro E'. inversion E'. subst k.
    exists w, (CD d (pos + 1)). split; auto. split; [apply Qw_refl|]. split; [apply HG|].
    simpl. unfold zlen. repeat split; auto; try lia.
    intros H i Hi. rewrite <- HV by lia. apply nth_overflow. lia.
Qed.
Lemma CPos_begin w o :
  G t w -> operand_wk w t o -> dim (getv w t) = n ->
  exists w' c, ci_begin w o = Some (w', c) /\ Qw w w' /\ AInv w' /\ CPos w' c (ord w o) 0.
Proof.
  intros HG HO Hn. destruct o as [u|d]; simpl in *.
  - destruct HO as (N & Hu & Hd). destruct HG as (A & _).
    destruct (it_begin_pos (hp w) (getv w u) (A u)) as (v' & c' & X & Y & Z1 & Z2).
    rewrite X. exists (setv w u v'), (CS u c'). split; auto.
    split; [apply Qw_setv; auto|]. split; [apply AInv_setv; auto|].
    simpl. rewrite getv_setv_eq by auto. repeat split; auto.
    + apply has_setv. auto.
    + destruct Y as ((_ & _ & D) & _). congruence.
    + intro i. rewrite (Q_peek _ _ _ i (proj1 Y)). auto.
  - exists w, (CD d 0). split; auto. split; [apply Qw_refl|]. split; [apply HG|].
    simpl. repeat split; auto; try lia.
    intros H i Hi. apply nth_overflow. unfold zlen in H. lia.
Qed.

(* "advance if it delivered" *)
Definition advc (w : world) (s : option Z) (c : citer) : option (world * citer) :=
  match s with Some _ => ci_next w c | None => Some (w, c) end.
Lemma advc_spec w c V p i s :
  G t w -> CPos w c V p -> p <= i ->
  (s <> None -> cand c = Some i) -> (s = None -> forall k, cand c = Some k -> i < k) ->
  exists w1 c', advc w s c = Some (w1, c') /\ Qw w w1 /\ AInv w1 /\ CPos w1 c' V (i + 1).
Proof.
  intros HG HC Hp H1 H2. unfold advc. destruct s as [x|].
  - apply (CPos_next w c V p i); auto. apply H1. discriminate.
  - exists w, c. split; auto. split; [apply Qw_refl|]. split; [apply HG|].
    eapply CPos_weaken; eauto; [lia|]. intros k Hk. specialize (H2 eq_refl k Hk). lia.
Qed.

(* the receiver's own iterator *)
Definition adv1 (w : world) (s : option loc) (c : option Z) : option (world * option Z) :=
  match s with
  | Some _ => match it_next (hp w) (getv w t) c with
              | Some (v', c') => Some (setv w t v', c')
              | None => None end
  | None => Some (w, c)
  end.
Lemma adv1_spec w c p i s :
  G t w -> Pos (hp w) (getv w t) c p -> p <= i ->
  (s <> None -> c = Some i) -> (s = None -> forall k, c = Some k -> i < k) ->
  exists w1 c', adv1 w s c = Some (w1, c') /\ Qw w w1 /\ AInv w1 /\ Pos (hp w1) (getv w1 t) c' (i + 1).
Proof.
  intros HG HP Hp H1 H2. unfold adv1. destruct s as [x|].
  - rewrite (H1 ltac:(discriminate)). destruct HG as (A & _ & _ & Ht).
    destruct (it_next_pos (hp w) (getv w t) i (A t)) as (v' & c' & X & Y & Z1 & Z2).
    rewrite X. exists (setv w t v'), c'. split; auto. split; [apply Qw_setv; auto|].
    split; [apply AInv_setv; auto|]. simpl. rewrite getv_setv_eq by auto. auto.
  - exists w, c. split; auto. split; [apply Qw_refl|]. split; [apply HG|].
    eapply Pos_weaken; eauto; [lia|]. intros k Hk. specialize (H2 eq_refl k Hk). lia.
Qed.
End Operand.
