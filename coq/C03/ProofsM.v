(* C03 — matrices: executable examples (regression witnesses of fixed defects). *)
From Coq Require Import ZArith List Bool.
From ADV Require Import C11.Model C03.Model C03.ModelM.
Import ListNotations.
Open Scope Z_scope.

(* row-major values of a matrix of the world *)
Definition mabs (w : w4) (x : mref) : list Z :=
  let '(r, c) := mdims w x in map (mrd w x) (zseq 0 (Z.to_nat (r * c))).

(* regression witnesses of two defects fixed in /repo by c117908 (sparse MdotM
   accumulated onto the prior content of the receiver) and fc1915b (sparse
   matrix Equals answered false wherever the receiver had no entry): at HEAD
   both storages agree *)
Lemma mdotm_stale_fixed_lemma :
  let w := run4 TFloat init4 [NewSM [0] [7] 1 1; NewDM [7] 1 1; NewDM [2] 1 1; NewDM [3] 1 1] in
  mabs w (XS 0) = mabs w (XD 0) /\
  mabs (fst (step4 TFloat w (MdotM (XD 0) (XD 1) (XD 2)))) (XD 0) = [6] /\
  mabs (fst (step4 TFloat w (MdotM (XS 0) (XD 1) (XD 2)))) (XS 0) = [6].
Proof. vm_compute. repeat split; reflexivity. Qed.
Lemma mequals_absent_fixed_lemma :
  let w := run4 TFloat init4 [NewSM [] [] 1 1; NewDM [0] 1 1; NewDM [1] 1 1] in
  mabs w (XS 0) = mabs w (XD 0) /\
  snd (step4 TFloat w (MEquals (XD 0) (XD 1) 5)) = (K_OK, [1]) /\
  snd (step4 TFloat w (MEquals (XS 0) (XD 1) 5)) = (K_OK, [1]).
Proof. vm_compute. repeat split; reflexivity. Qed.

(* sanity: where no finding applies the storages agree (examples) *)
Example maddm_example :
  let w := run4 TFloat init4 [NewSM [3; 0] [7; 5] 2 2; MSetAt (XS 0) 1 0; NewDM [0; 2; 0; 4] 2 2; NewSM [2] [1] 2 2;
                              NewDM [9; 9; 9; 9] 2 2] in
  mabs (fst (step4 TFloat w (MopM Add (XS 0) (XD 0) (XS 1)))) (XS 0) = [0; 2; 1; 4] /\
  mabs (fst (step4 TFloat w (MopM Add (XD 1) (XD 0) (XS 1)))) (XD 1) = [0; 2; 1; 4] /\
  mabs (fst (step4 TFloat w (MdotM (XD 1) (XD 0) (XS 1)))) (XD 1) = [2; 0; 4; 0].
Proof. vm_compute. repeat split; reflexivity. Qed.
