(* C03 — round 3: the matrix joint iterators at HEAD (after e83c5e9: Ok() is the flag
   "some iterator delivered an element", not a test of the values) and the visit
   sequence of the public two-way JointIterator of a sparse matrix.  Statements only;
   proofs in ProofsMJ2.v (on top of ProofsMJ.v). *)
From Coq Require Import ZArith List Bool Lia.
From ADV Require Import C11.Model C11.Spec C03.Model C03.Spec C03.ProofsSem C03.ProofsJoint
                        C03.ModelM C03.SpecM C03.ProofsMJ C03.ProofsMJ2.
Import ListNotations.
Open Scope Z_scope.

(* Ok() of the matrix joint iterators does not look at the heap: no stored value —
   zero or not — can end the walk *)
Theorem matrix_joint_ok_ignores_values : forall (w w' : world) (j : mj3), mj3_ok w j = mj3_ok w' j.
Proof. exact (fun _ _ _ => eq_refl). Qed.

(* the two-way iterator written out after Go is the three-way iterator with an empty
   third operand (how MmulS / MdivS / Equals run it in step4) — state by state *)
Theorem matrix_joint2_next_is_joint3 : forall w t j,
  mj3_next w t (emb j) = match mj2_next w t j with Some (w', j') => Some (w', emb j') | None => None end.
Proof. exact mj2_next_emb. Qed.
Theorem matrix_joint2_begin_is_joint3 : forall w t o2,
  mj3_begin w t o2 (OD []) = match mj2_begin w t o2 with Some (w', j') => Some (w', emb j') | None => None end.
Proof. exact mj2_begin_emb. Qed.
Theorem matrix_joint2_ok_is_joint3 : forall w j, mj3_ok w (emb j) = mj2_ok j.
Proof. exact mj2_ok_emb. Qed.

(* a.JointIterator(b) of a sparse matrix a (values vector t, any content incl. stored
   zeros) with ANY operand b of the same shape — sparse (o2 = OS u) or dense (OD d, zeros
   inside): the walk terminates within the fuel, changes no element of any vector
   (Qw: only null entries are dropped) and its visit sequence is strictly increasing in
   the (row-major) position, delivers exactly the elements of a and b there (an absent
   first scalar only where a is zero) and leaves out only positions where BOTH are zero *)
Theorem public_joint_iterator_visits : forall t w o2,
  G t w -> operand_wk w t o2 ->
  exists w1 j w' l, mj2_begin w t o2 = Some (w1, j) /\
    mj2_visits (lfuel w t) w1 t j [] = Some (w', l) /\ Qw w w' /\ G t w' /\
    visits_ok (fun i => peek (hp w) (getv w t) i) (ord w o2) (dim (getv w t)) 0 l.
Proof. exact joint_visits_correct. Qed.

(* non-trivial instance: 2x3 receiver {(0,2)=5, (1,1)=7}, operand {(1,0)=2, (1,1)=4}
   (receiver entry in an earlier row but later column than the operand's first entry, a later
   position stored in both), an explicit stored zero at (0,0): visits 2, 3, 4 in this order *)
Example public_joint_iterator_interleaved :
  let w := run4 TFloat init4 [NewSM [2; 4] [5; 7] 2 3; MSetAt (XS 0) 0 0; NewSM [4; 3] [4; 2] 2 3; NewDM [0; 0; 0; 2; 4; 0] 2 3] in
  snd (step4 TFloat w (MJoint 0 (XS 1))) = (K_OK, [2; 1; 5; 0;  3; 0; 0; 2;  4; 1; 7; 4]) /\
  snd (step4 TFloat w (MJoint 0 (XD 0))) = (K_OK, [2; 1; 5; 0;  3; 0; 0; 2;  4; 1; 7; 4]).
Proof. vm_compute. split; reflexivity. Qed.
