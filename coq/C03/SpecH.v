(* C03 (round 2) — whole histories.  A history mixes the 25 container operations
   of the shared sparse-vector model (C11.Model.op: New, At, Set, Swap, Permute,
   Sort, Slice, Append*, Map*, iterators ...) with the mathematical vector
   operations of C03 (Model.op3: VaddV .. VdivS, Set, Equals, Reset, conversions,
   with dense or sparse receivers and operands).  [hrun] runs it on the model
   (heap of cells + sparse vectors + dense vectors); [drun] runs it on PLAIN
   VALUE LISTS (every vector, whatever its storage, is the list of its
   elements; an operation is the textbook one).  PropsH.v: for every history
   whose operations are in range (and, for in-place writes, whose receiver
   shares no scalar with another vector — C11's [safe]), the world reads
   exactly like the plain run, and C11's coherence invariant + well-formedness
   hold after every step: coherence and separation are an invariant of whole
   histories, not a hypothesis to be re-established per call. *)
From Coq Require Import ZArith List Bool Lia.
From ADV Require Import C11.Model C11.Spec C11.Dense C03.Model C03.Spec.
Import ListNotations.
Open Scope Z_scope.

Inductive hop := HC (o : op) | HM (o : op3).
Definition hstep (y : ty) (w : w3) (o : hop) : w3 :=
  match o with
  | HC o => sets w (fst (step (sw w) o))
  | HM o => fst (step3 y w o)
  end.
Definition hrun (y : ty) (w : w3) (ops : list hop) : w3 := fold_left (hstep y) ops w.

(* ---- the plain run: value lists only ------------------------------------------ *)
Record dw3 := { ds : dworld; dd : list (list Z) }.
Definition absh (w : w3) : dw3 := {| ds := absw (sw w); dd := dn w |}.
Definition dget3 (d : dw3) (x : vref) : list Z :=
  match x with RS u => nth u (ds d) [] | RD k => nth k (dd d) [] end.
Definition dset3 (d : dw3) (x : vref) (l : list Z) : dw3 :=
  match x with
  | RS u => {| ds := upd u l (ds d); dd := dd d |}
  | RD k => {| ds := ds d; dd := upd k l (dd d) |}
  end.
(* division as the element type does it: truncating for the integer types
   (divisor non-zero), x/0 = +-Inf / NaN (codes) for the float types *)
Definition qdiv (y : ty) (a b : Z) : Z :=
  match y with
  | TInt => Z.quot a b
  | _ => if b =? 0 then (if 0 <? a then PINF else if a <? 0 then NINF else NAN) else Z.quot a b
  end.
Definition dstep3 (y : ty) (d : dw3) (o : op3) : dw3 :=
  match o with
  | NewS ks xs n => {| ds := ds d ++ [dnew ks xs n]; dd := dd d |}
  | NewD xs => {| ds := ds d; dd := dd d ++ [xs] |}
  | AsDense x => {| ds := ds d; dd := dd d ++ [dget3 d x] |}
  | AsSparse x => {| ds := ds d ++ [dget3 d x]; dd := dd d |}
  | Model.SetAt x i v => dset3 d x (upd (Z.to_nat i) v (dget3 d x))
  | VSet r x => dset3 d r (dget3 d x)
  | VEquals _ _ _ | VIter _ => d
  | VopV f r a b => dset3 d r (map2 (bop_f f) (dget3 d a) (dget3 d b))
  | VdivV r a b => dset3 d r (map2 (qdiv y) (dget3 d a) (dget3 d b))
  | VaddS r a c => dset3 d r (map (fun x => x + c) (dget3 d a))
  | VsubS r a c => dset3 d r (map (fun x => x - c) (dget3 d a))
  | VmulS r a c => dset3 d r (map (fun x => x * c) (dget3 d a))
  | VdivS r a c => dset3 d r (map (fun x => qdiv y x c) (dget3 d a))
  | VReset r => dset3 d r (map (fun _ => 0) (dget3 d r))
  end.
Definition dhstep (y : ty) (d : dw3) (o : hop) : dw3 :=
  match o with
  | HC o => {| ds := dstep (ds d) o; dd := dd d |}
  | HM o => dstep3 y d o
  end.
Definition drun (y : ty) (d : dw3) (ops : list hop) : dw3 := fold_left (dhstep y) ops d.
(* what Equals answers, on the plain side *)
Definition dequals3 (d : dw3) (a b : vref) (e2 : Z) : Z := b2z (all_close e2 (dget3 d a) (dget3 d b)).

(* ---- in-range operations ---------------------------------------------------------- *)
Definition exists3 (w : w3) (x : vref) : Prop :=
  match x with RS u => has (sw w) u | RD k => hasd w k end.
(* the receiver exists; a sparse receiver shares no scalar with another vector
   (sharing arises only from Slice / AppendVector(sparse): C11) *)
Definition recv_ok (w : w3) (r : vref) : Prop :=
  match r with RS t => has (sw w) t /\ unshared (sw w) t | RD k => hasd w k end.
(* an operand: an existing vector of the receiver's dimension (the receiver
   itself is allowed) *)
Definition opnd_ok (w : w3) (r x : vref) : Prop := exists3 w x /\ vdim w x = vdim w r.
(* x is not the sparse receiver r itself *)
Definition noalias (r x : vref) : Prop :=
  match r, x with RS t, RS u => u <> t | _, _ => True end.
Definition hok3 (y : ty) (w : w3) (o : op3) : Prop :=
  match o with
  | NewS ks xs n => in_range (sw w) (New ks xs n)
  | NewD _ => True
  | AsDense x | AsSparse x | VIter x => exists3 w x
  | Model.SetAt (RS u) i v => in_range (sw w) (C11.Model.SetAt u i v) /\ unshared (sw w) u
  | Model.SetAt (RD k) i v => hasd w k /\ 0 <= i < zlen (getd w k)
  | VSet r x | VaddS r x _ | VsubS r x _ | VmulS r x _ => recv_ok w r /\ opnd_ok w r x
  | VEquals a b e2 => 0 < e2 /\ recv_ok w a /\ opnd_ok w a b
  | VopV _ r a b => recv_ok w r /\ opnd_ok w r a /\ opnd_ok w r b
  | VdivV r a b => recv_ok w r /\ opnd_ok w r a /\ opnd_ok w r b /\
                   (* divisors non-zero, or a float type (x/0 = +-Inf / NaN) with operands other than a sparse receiver *)
                   (nonzero_all (abs3 w b) \/ (y <> TInt /\ noalias r a /\ noalias r b))
  | VdivS r a c => recv_ok w r /\ opnd_ok w r a /\ (y = TInt -> c <> 0)
  | VReset r => recv_ok w r
  end.
Definition hok (y : ty) (w : w3) (o : hop) : Prop :=
  match o with
  | HC o => in_range (sw w) o /\ safe (sw w) o
  | HM o => hok3 y w o
  end.
Fixpoint hvalid (y : ty) (w : w3) (ops : list hop) : Prop :=
  match ops with
  | [] => True
  | o :: r => hok y w o /\ hvalid y (hstep y w o) r
  end.
(* the invariant: C11's coherence invariant and cell well-formedness of every sparse vector *)
Definition HI (w : w3) : Prop := WInv (sw w) /\ WWf (sw w).
