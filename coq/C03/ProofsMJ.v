(* C03 — matrices: the MATRIX three-way joint iterator (Ok() = the explicit flag of
   HEAD: some iterator delivered an element; dense operand iterators skip zero elements) on a sparse receiver, the loops built on
   it (element-wise operations, Equals) and the step4-level lemmas of the
   operations that run through it.  Twin of ProofsJoint.v. *)
From Coq Require Import ZArith List Bool Lia Sorted.
From ADV Require Import C11.Model C11.Spec C11.ProofsMap C11.ProofsIter C11.ProofsInv C11.ProofsRef
                        C03.Model C03.Spec C03.ProofsDense C03.ProofsSem C03.ProofsJoint
                        C03.ModelM C03.ProofsM C03.SpecM C03.ProofsMBase C03.ProofsMIter.
Import ListNotations.
Open Scope Z_scope.

(* MATRIX_JOINT3_ITERATOR.Next() in terms of the selection and the three advances *)
Lemma mj3_next_eq w t j :
  mj3_next w t j =
  let '(i, d1, d2, d3) := sel3 (m1 j) (mcand (m2 j)) (mcand (m3 j)) (midx j) in
  let s1 := if d1 then match m1 j with Some k => lookup k (vals (getv w t)) | None => None end else None in
  let s2 := if d2 then mi_get w (m2 j) else None in
  let s3 := if d3 then mi_get w (m3 j) else None in
  match adv1 t w s1 (m1 j) with
  | None => None
  | Some (w1, c1) =>
      match madvc w1 s2 (m2 j) with
      | None => None
      | Some (w2, c2) =>
          match madvc w2 s3 (m3 j) with
          | None => None
          | Some (w3, c3) =>
              Some (w3, {| m1 := c1; m2 := c2; m3 := c3; midx := i; ms1 := s1; ms2 := s2; ms3 := s3 |})
          end
      end
  end.
Proof.
  unfold mj3_next, sel3, mcand, adv1, madvc.
  destruct (m1 j) as [a|]; destruct (mi_ok (m2 j)); destruct (mi_ok (m3 j));
    cbn [isS negb andb orb]; rewrite ?orb_false_r, ?orb_true_r, ?andb_false_r;
    repeat match goal with
           | |- context [if ?x then _ else _] => destruct x eqn:?
           end; reflexivity.
Qed.

Section MJoint3.
Variable t : nat.
Variable n : Z.

(* facts about one operand at the selected index i *)
Lemma mop_facts w c V p i (d : bool) :
  G t w -> MPos t n w c V p -> 0 <= p -> p <= i ->
  (d = true -> mcand c = Some i) -> (d = false -> forall k, mcand c = Some k -> i < k) ->
  (forall x, p <= x < i -> V x = 0) /\ jval (if d then mi_get w c else None) = V i /\
  (d = true -> (if d then mi_get w c else None) <> None /\ V i <> 0) /\
  (d = false -> (if d then mi_get w c else None) = None).
Proof.
  intros HG HC Hp Hi H1 H2. destruct d.
  - destruct (MPos_cand t n w c V p i HG HC Hp (H1 eq_refl)) as (X & Y & NZ & Z1).
    rewrite Y. simpl. split; [exact Z1|]. split; [auto|].
    split; [intros _; split; [discriminate|exact NZ]|intro; discriminate].
  - simpl. assert (ZZ : forall x, p <= x <= i -> V x = 0).
    { destruct (mcand c) as [k|] eqn:E.
      + pose proof (H2 eq_refl k eq_refl) as Hk.
        destruct (MPos_cand t n w c V p k HG HC Hp E) as (X & Y & _ & Z1). intros x Hx. apply Z1. lia.
      + pose proof (MPos_none t n w c V p HC E) as Z1. intros x Hx. apply Z1. lia. }
    split; [intros x Hx; apply ZZ; lia|]. split; [symmetry; apply ZZ; lia|].
    split; [intro; discriminate|auto].
Qed.
Lemma mop_range w c V p i : G t w -> MPos t n w c V p -> 0 <= p -> mcand c = Some i -> p <= i < n.
Proof. intros HG HC Hp E. apply (MPos_cand t n w c V p i HG HC Hp E). Qed.

Variables A B : Z -> Z.
Definition MJ3 (w : world) (j : mj3) (p : Z) : Prop :=
  G t w /\ dim (getv w t) = n /\ 0 <= p /\
  Pos (hp w) (getv w t) (m1 j) p /\ MPos t n w (m2 j) A p /\ MPos t n w (m3 j) B p.

Lemma mj3_next_spec w j p :
  MJ3 w j p ->
  exists w' j', mj3_next w t j = Some (w', j') /\ Qw w w' /\ G t w' /\
    ((mj3_ok w' j' = false /\
      forall i, p <= i -> peek (hp w) (getv w t) i = 0 /\ A i = 0 /\ B i = 0) \/
     (mj3_ok w' j' = true /\ p <= midx j' < n /\
      (forall i, p <= i < midx j' -> peek (hp w) (getv w t) i = 0 /\ A i = 0 /\ B i = 0) /\
      jval (ms2 j') = A (midx j') /\ jval (ms3 j') = B (midx j') /\
      (forall l, ms1 j' = Some l -> lookup (midx j') (vals (getv w' t)) = Some l) /\
      (ms1 j' = None -> peek (hp w) (getv w t) (midx j') = 0) /\
      MJ3 w' j' (midx j' + 1))).
Proof.
  intros (HG & Hn & Hp & P1 & C2 & C3).
  rewrite mj3_next_eq.
  destruct (sel3 (m1 j) (mcand (m2 j)) (mcand (m3 j)) (midx j)) as [[[i d1] d2] d3] eqn:S.
  apply sel3_spec in S. destruct S as (S1 & S1' & S2 & S2' & S3 & S3' & SO).
  cbv zeta. fold (s1_of t w (m1 j) d1).
  destruct (orb (orb d1 d2) d3) eqn:Any.
  - (* some iterator delivers *)
    assert (Hi : p <= i < n).
    { destruct d1; [rewrite (S1 eq_refl) in P1; eapply r_range; eauto|].
      destruct d2; [eapply mop_range; [| exact C2| |]; eauto|].
      destruct d3; [eapply mop_range; [| exact C3| |]; eauto|]. discriminate. }
    destruct (r_facts t n w (m1 j) p i d1 HG Hn P1 (proj1 Hi) S1 S1') as (R1 & R2 & R3).
    destruct (mop_facts w (m2 j) A p i d2 HG C2 Hp (proj1 Hi) S2 S2') as (A1 & A2 & A3 & A4).
    destruct (mop_facts w (m3 j) B p i d3 HG C3 Hp (proj1 Hi) S3 S3') as (B1 & B2 & B3 & B4).
    set (s1 := s1_of t w (m1 j) d1) in *.
    set (s2 := if d2 then mi_get w (m2 j) else None) in *.
    set (s3 := if d3 then mi_get w (m3 j) else None) in *.
    (* advance the receiver's iterator *)
    destruct (adv1_spec t w (m1 j) p i s1 HG P1 (proj1 Hi)) as (w1 & c1 & E1 & Q1 & I1 & P1').
    { intro NE. apply S1. destruct d1; [reflexivity|exfalso; apply NE; apply (proj1 (R3 eq_refl))]. }
    { intro E. apply S1'. destruct d1; [|reflexivity]. destruct (R2 eq_refl) as (l & X & _). congruence. }
    rewrite E1.
    assert (G1 : G t w1) by (eapply G_Qw; eauto).
    destruct (madvc_spec t n w1 (m2 j) A p i s2 G1 (MPos_Qw t n w w1 _ _ _ C2 Q1) (proj1 Hi))
      as (w2 & c2 & E2 & Q2 & I2 & C2').
    { intro NE. apply S2. destruct d2; [reflexivity|exfalso; apply NE; apply (A4 eq_refl)]. }
    { intro E. apply S2'. destruct d2; [|reflexivity]. exfalso. apply (proj1 (A3 eq_refl) E). }
    rewrite E2.
    assert (G2 : G t w2) by (eapply G_Qw; eauto).
    assert (Q02 : Qw w w2) by (eapply Qw_trans; eauto).
    destruct (madvc_spec t n w2 (m3 j) B p i s3 G2 (MPos_Qw t n w w2 _ _ _ C3 Q02) (proj1 Hi))
      as (w3 & c3 & E3 & Q3 & I3 & C3').
    { intro NE. apply S3. destruct d3; [reflexivity|exfalso; apply NE; apply (B4 eq_refl)]. }
    { intro E. apply S3'. destruct d3; [|reflexivity]. exfalso. apply (proj1 (B3 eq_refl) E). }
    rewrite E3.
    assert (G3 : G t w3) by (eapply G_Qw; eauto).
    assert (Q03 : Qw w w3) by (eapply Qw_trans; eauto).
    assert (Q13 : Qw w1 w3) by (eapply Qw_trans; eauto).
    eexists. eexists. split; [reflexivity|]. split; [exact Q03|]. split; [exact G3|].
    right. unfold mj3_ok. cbn [midx ms1 ms2 ms3 m1 m2 m3].
    split.
    { (* Ok() = the flag: some iterator delivered (HEAD, e83c5e9) — no look at the values *)
      destruct d1.
      - destruct (R2 eq_refl) as (l & X & L & N). rewrite X. reflexivity.
      - destruct d2.
        + pose proof (proj1 (A3 eq_refl)) as NE. destruct s2; [|contradiction].
          apply orb_true_iff. left. apply orb_true_iff. right. reflexivity.
        + destruct d3; [|discriminate]. pose proof (proj1 (B3 eq_refl)) as NE. destruct s3; [|contradiction].
          apply orb_true_iff. right. reflexivity. }
    split; [exact Hi|]. split; [intros x Hx; auto|]. split; [exact A2|]. split; [exact B2|].
    split.
    { intros l El. destruct d1.
      - destruct (R2 eq_refl) as (l' & X & L & N). rewrite (Qw_lookup w w3 t i Q03 N). congruence.
      - destruct (R3 eq_refl) as (X & _). congruence. }
    split.
    { intro El. destruct d1; [destruct (R2 eq_refl) as (l' & X & _); congruence|apply R3; auto]. }
    unfold MJ3. cbn [m1 m2 m3]. split; [exact G3|]. split; [rewrite (Qw_dim w w3 t Q03); auto|].
    split; [lia|]. split; [eapply Pos_Qw; eauto|]. split; [eapply MPos_Qw; eauto|exact C3'].
  - (* nothing left *)
    apply orb_false_iff in Any. destruct Any as [Any D3]. apply orb_false_iff in Any. destruct Any as [D1 D2].
    subst d1 d2 d3. rewrite orb_false_iff in SO. destruct SO as [SO E3']. rewrite orb_false_iff in SO.
    destruct SO as [E1' E2'].
    assert (K1 : m1 j = None) by (destruct (m1 j); auto; discriminate).
    assert (K2 : mcand (m2 j) = None) by (destruct (mcand (m2 j)); auto; discriminate).
    assert (K3 : mcand (m3 j) = None) by (destruct (mcand (m3 j)); auto; discriminate).
    unfold s1_of, adv1, madvc. eexists. eexists. split; [reflexivity|]. split; [apply Qw_refl|]. split; [exact HG|].
    left. split; [reflexivity|]. intros x Hx. rewrite K1 in P1. simpl in P1.
    split; [auto|]. split; [eapply MPos_none; eauto|eapply MPos_none; eauto].
Qed.
End MJoint3.

(* ---- the loop: r[idx] := f(a[idx], b[idx]) at every visit ------------------------ *)
Section MLoop3.
Variable t : nat.
Variable n : Z.
Variables A B : Z -> Z.
Variable f : Z -> Z -> Z.
Hypothesis f00 : f 0 0 = 0.

(* the state at the loop head: what the last Next() left *)
Definition MHead (w : world) (j : mj3) (p : Z) : Prop :=
  (mj3_ok w j = false /\ forall i, p <= i -> peek (hp w) (getv w t) i = 0 /\ A i = 0 /\ B i = 0) \/
  (mj3_ok w j = true /\ p <= midx j < n /\
   (forall i, p <= i < midx j -> peek (hp w) (getv w t) i = 0 /\ A i = 0 /\ B i = 0) /\
   jval (ms2 j) = A (midx j) /\ jval (ms3 j) = B (midx j) /\
   (forall l, ms1 j = Some l -> lookup (midx j) (vals (getv w t)) = Some l) /\
   (ms1 j = None -> peek (hp w) (getv w t) (midx j) = 0) /\
   MJ3 t n A B w j (midx j + 1)).

Lemma mnext_Head w j p :
  MJ3 t n A B w j p ->
  exists w' j', mj3_next w t j = Some (w', j') /\ Qw w w' /\ G t w' /\ MHead w' j' p.
Proof.
  intro HJ. destruct (mj3_next_spec t n A B w j p HJ) as (w' & j' & E & HQ & HG & [X|X]).
  - exists w', j'. split; [auto|]. split; [auto|]. split; [auto|]. left.
    destruct X as (X1 & X2). split; auto. intros i Hi. rewrite (Qw_peek w w' t i HQ). auto.
  - exists w', j'. split; [auto|]. split; [auto|]. split; [auto|]. right.
    destruct X as (X1 & X2 & X3 & X4 & X5 & X6 & X7 & X8).
    split; [auto|]. split; [auto|]. split; [|split; [auto|split; [auto|split; [auto|split; [|auto]]]]].
    + intros i Hi. rewrite (Qw_peek w w' t i HQ). auto.
    + intro El. rewrite (Qw_peek w w' t _ HQ). auto.
Qed.

Lemma mmap3_loop_spec : forall fuel w j p,
  G t w -> dim (getv w t) = n -> 0 <= p -> MHead w j p ->
  (forall i, 0 <= i < p -> peek (hp w) (getv w t) i = f (A i) (B i)) ->
  (Z.to_nat (n - p) < fuel)%nat ->
  exists w', mmap3_loop f fuel w t j = Some (w', true) /\ G t w' /\ dim (getv w' t) = n /\
    length (vecs w') = length (vecs w) /\
    (forall i, 0 <= i < n -> peek (hp w') (getv w' t) i = f (A i) (B i)) /\
    (forall u k, u <> t -> peek (hp w') (getv w' u) k = peek (hp w) (getv w u) k) /\
    (forall u, dim (getv w' u) = dim (getv w u)).
Proof.
  induction fuel as [|fu IH]; intros w j p HG Hn Hp HH HD Hf; [lia|].
  destruct HH as [(K & Z0)|(K & Hi & Zg & VA & VB & HS & HS0 & HJ)].
  - exists w. cbn [mmap3_loop]. rewrite K. split; [auto|]. split; [auto|]. split; [auto|]. split; [auto|].
    split; [|auto]. intros i Hi. destruct (Z_lt_ge_dec i p) as [L|L]; [apply HD; lia|].
    destruct (Z0 i) as (X & Y & Z1); [lia|]. rewrite X, Y, Z1. auto.
  - cbn [mmap3_loop]. rewrite K.
    destruct (wr_spec t w (midx j) (ms1 j) (f (jval (ms2 j)) (jval (ms3 j))) HG) as
      (w1 & E1 & G1 & L1 & D1 & P1 & F1 & F2); [lia|exact HS|].
    rewrite E1.
    assert (HJ1 : MJ3 t n A B w1 j (midx j + 1)).
    { destruct HJ as (_ & _ & Hp' & PP & C2 & C3). unfold MJ3.
      split; [auto|]. split; [rewrite D1; auto|]. split; [auto|]. split.
      - destruct (m1 j) as [k|]; simpl in *.
        + destruct PP as (Q1 & Q2 & Q3). split; [auto|]. split.
          * rewrite (proj2 (F1 k ltac:(lia))). auto.
          * intros i Hi'. rewrite (proj1 (F1 i ltac:(lia))). auto.
        + intros i Hi'. rewrite (proj1 (F1 i ltac:(lia))). auto.
      - split; eapply MPos_frame; eauto. }
    destruct (mnext_Head w1 j (midx j + 1) HJ1) as (w2 & j' & E2 & Q2 & G2 & H2).
    rewrite E2.
    destruct (IH w2 j' (midx j + 1)) as (w' & E3 & G3 & D3 & L3 & R3 & F3 & DD3); auto.
    + rewrite (Qw_dim w1 w2 t Q2), D1. auto.
    + lia.
    + intros i Hi'. rewrite (Qw_peek w1 w2 t i Q2).
      destruct (Z.eq_dec i (midx j)) as [->|N].
      * rewrite P1, VA, VB. auto.
      * rewrite (proj1 (F1 i N)). destruct (Z_lt_ge_dec i p) as [L|L]; [apply HD; lia|].
        destruct (Zg i) as (X & Y & Z1); [lia|]. rewrite X, Y, Z1. auto.
    + lia.
    + exists w'. split; [auto|]. split; [auto|]. split; [auto|].
      split; [destruct Q2 as (_ & X & _); lia|]. split; [auto|]. split.
      * intros u k N. rewrite F3 by auto. rewrite (Qw_peek w1 w2 u k Q2). apply F2. auto.
      * intro u. rewrite DD3, (Qw_dim w1 w2 u Q2). auto.
Qed.
End MLoop3.

(* ---- the whole operation through the matrix three-way joint iterator -------------- *)
Lemma mj3_begin_Head t w o2 o3 :
  G t w -> operand_wk w t o2 -> operand_wk w t o3 ->
  exists w1 j, mj3_begin w t o2 o3 = Some (w1, j) /\ Qw w w1 /\ G t w1 /\
    MHead t (dim (getv w t)) (ord w o2) (ord w o3) w1 j 0.
Proof.
  intros HG H2 H3. set (n := dim (getv w t)). unfold mj3_begin.
  pose proof HG as (GI & _ & _ & GH).
  destruct (it_begin_pos (hp w) (getv w t) (GI t)) as (v' & c1 & E1 & Q1 & I1 & P1).
  rewrite E1. set (wA := setv w t v').
  assert (QA : Qw w wA) by (apply Qw_setv; auto).
  assert (GA : G t wA) by (eapply G_Qw; eauto; apply AInv_setv; auto).
  assert (DA : dim (getv wA t) = n) by (rewrite (Qw_dim w wA t QA); auto).
  destruct (MPos_begin t n wA o2 GA (operand_wk_Qw w wA t o2 H2 QA) DA) as (wB & c2 & E2 & QB & IB & CB).
  rewrite E2.
  assert (GB : G t wB) by (eapply G_Qw; eauto).
  assert (Q0B : Qw w wB) by (eapply Qw_trans; eauto).
  assert (DB : dim (getv wB t) = n) by (rewrite (Qw_dim w wB t Q0B); auto).
  destruct (MPos_begin t n wB o3 GB (operand_wk_Qw w wB t o3 H3 Q0B) DB) as (wC & c3 & E3 & QC & IC & CC).
  rewrite E3.
  assert (GC : G t wC) by (eapply G_Qw; eauto).
  assert (Q0C : Qw w wC) by (eapply Qw_trans; eauto).
  assert (QAC : Qw wA wC) by (eapply Qw_trans; eauto).
  set (j0 := {| m1 := c1; m2 := c2; m3 := c3; midx := -1; ms1 := None; ms2 := None; ms3 := None |}).
  assert (HJ : MJ3 t n (ord w o2) (ord w o3) wC j0 0).
  { unfold MJ3, j0. cbn [m1 m2 m3]. split; [auto|]. split; [rewrite (Qw_dim w wC t Q0C); auto|].
    split; [lia|]. split.
    - apply (Pos_Qw t wA wC); auto. unfold wA. simpl. rewrite getv_setv_eq; auto.
    - split.
      + eapply MPos_ext; [|eapply MPos_Qw; [exact CB|exact QC]]. intro i. apply ord_Qw. auto.
      + eapply MPos_ext; [|exact CC]. intro i. apply ord_Qw. auto. }
  destruct (mnext_Head t n _ _ wC j0 0 HJ) as (w1 & j & E4 & Q4 & G4 & H4).
  exists w1, j. split; [exact E4|]. split; [eapply Qw_trans; eauto|]. split; auto.
Qed.

Theorem mop3_correct t (f : Z -> Z -> Z) w o2 o3 :
  f 0 0 = 0 -> G t w -> operand_wk w t o2 -> operand_wk w t o3 ->
  exists w', mop3 f w t o2 o3 = Some (w', true) /\ G t w' /\ length (vecs w') = length (vecs w) /\
    (forall i, 0 <= i < dim (getv w t) -> peek (hp w') (getv w' t) i = f (ord w o2 i) (ord w o3 i)) /\
    (forall u k, u <> t -> peek (hp w') (getv w' u) k = peek (hp w) (getv w u) k) /\
    (forall u, dim (getv w' u) = dim (getv w u)).
Proof.
  intros f00 HG H2 H3. unfold mop3.
  destruct (mj3_begin_Head t w o2 o3 HG H2 H3) as (w1 & j & E1 & Q1 & G1 & H1).
  rewrite E1. set (n := dim (getv w t)) in *.
  assert (Hn0 : 0 <= n) by (destruct HG as (GI & _); destruct (GI t) as (_ & _ & _ & _ & X); auto).
  destruct (mmap3_loop_spec t n (ord w o2) (ord w o3) f f00 (lfuel w t) w1 j 0) as
    (w' & E2 & G2 & D2 & L2 & R2 & F2 & DD2); auto.
  - rewrite (Qw_dim w w1 t Q1). auto.
  - lia.
  - intros i Hi. lia.
  - unfold lfuel. fold n. lia.
  - exists w'. split; [exact E2|]. split; [exact G2|].
    split; [destruct Q1 as (_ & X & _); lia|]. split; [exact R2|]. split.
    + intros u k N. rewrite F2 by auto. apply Qw_peek. auto.
    + intro u. rewrite DD2. apply (Qw_dim w w1 u Q1).
Qed.

(* ---- step4: element-wise operations of a sparse receiver matrix ------------------- *)
Lemma getsm_mvec w k : exists r c, getsm w k = (mvec w k, r, c) /\ mdims w (XS k) = (r, c).
Proof.
  unfold mvec, mdims. destruct (getsm w k) as [[u r] c]. simpl. eauto.
Qed.
Lemma sm_ok_setsw w s' k :
  sm_ok w k -> length (vecs s') = length (vecs (sw (b3 w))) ->
  (forall u, dim (getv s' u) = dim (getv (sw (b3 w)) u)) -> sm_ok (setsw w s') k.
Proof.
  unfold sm_ok, hassm, getsm. cbn [setsw setb sets sms b3 sw].
  destruct (nth k (sms w) (0%nat, 0, 0)) as [[u r] c].
  intros (A & B & C & D & E) L Dm. split; [auto|]. split; [auto|]. split; [auto|].
  split; [unfold has in *; lia|]. rewrite Dm. auto.
Qed.
Lemma mvec_setsw w s' k : mvec (setsw w s') k = mvec w k.
Proof. reflexivity. Qed.

(* the common part: r := f(a, b) element-wise through mop3 *)
Lemma sparse_mop3 w k (f : Z -> Z -> Z) o2 o3 :
  GoodM w k -> f 0 0 = 0 ->
  operand_wk (sw (b3 w)) (mvec w k) o2 -> operand_wk (sw (b3 w)) (mvec w k) o3 ->
  let r := liftm w (mop3 f (sw (b3 w)) (mvec w k) o2 o3) in
  ok_out4 r /\ same_but_sm w (fst r) (mvec w k) /\ G (mvec w k) (sw (b3 (fst r))) /\
  mabs (fst r) (XS k) =
    map (fun i => f (ord (sw (b3 w)) o2 i) (ord (sw (b3 w)) o3 i))
        (zseq 0 (Z.to_nat (dim (getv (sw (b3 w)) (mvec w k))))).
Proof.
  intros (Hk & HGd) f00 H2 H3. set (s := sw (b3 w)) in *. set (t := mvec w k) in *.
  destruct (mop3_correct t f s o2 o3 f00 (Good_G _ _ HGd) H2 H3) as (s' & E & G' & L & R & F & D).
  rewrite E. unfold liftm. cbv zeta. cbn [fst snd].
  assert (Hk' : sm_ok (setsw w s') k) by (apply sm_ok_setsw; auto).
  split; [reflexivity|]. split; [|split].
  - unfold same_but_sm. cbn [setsw setb sets sms dms b3 sw dn].
    split; [auto|]. split; [auto|]. split; [auto|]. split; [exact L|]. split; [exact D|].
    intros u N. fold s. rewrite (sabs_peek s' u _ (D u)), (sabs_peek s u _ eq_refl).
    apply map_ext. intro i. apply F. auto.
  - exact G'.
  - rewrite (mabs_sparse _ k Hk'). rewrite mvec_setsw. fold t.
    change (sw (b3 (setsw w s'))) with s'.
    rewrite (sabs_peek s' t _ (D t)). apply map_ext_in. intros i Hi. apply zseq_In in Hi.
    apply R. lia.
Qed.

Lemma mabs_ord w k x :
  sm_ok w k -> mwf w x -> mother w (mvec w k) x -> mdims w x = mdims w (XS k) ->
  mabs w x = map (ord (sw (b3 w)) (mop w x)) (zseq 0 (Z.to_nat (dim (getv (sw (b3 w)) (mvec w k))))).
Proof.
  intros Hk Hx Ho Hd. rewrite (mabs_oabs w x Hx). apply oabs_ord.
  apply operand_dim. apply mop_operand; auto.
Qed.

Lemma step_sparse_mopm y f w k a b :
  GoodM w k -> mwf w a -> mwf w b -> mother w (mvec w k) a -> mother w (mvec w k) b ->
  mdims w a = mdims w (XS k) -> mdims w b = mdims w (XS k) ->
  let r := step4 y w (MopM f (XS k) a b) in
  ok_out4 r /\ same_but_sm w (fst r) (mvec w k) /\ G (mvec w k) (sw (b3 (fst r))) /\
  mabs (fst r) (XS k) = map2 (bop_f f) (mabs w a) (mabs w b).
Proof.
  intros HG Ha Hb Oa Ob Da Db. pose proof HG as (Hk & _).
  destruct (getsm_mvec w k) as (r0 & c0 & Ek & Dk).
  cbn [step4]. rewrite Ek. cbv beta iota zeta. rewrite Da, Db, dims_eqb_refl. cbn [andb].
  assert (f00 : bop_f f 0 0 = 0) by (destruct f; reflexivity).
  pose proof (sparse_mop3 w k (bop_f f) (mop w a) (mop w b) HG f00
                (operand_ok3_wk _ _ _ (mop_operand w k a Hk Ha Oa Da))
                (operand_ok3_wk _ _ _ (mop_operand w k b Hk Hb Ob Db))) as S.
  cbv zeta in S. destruct S as (S1 & S2 & S3 & S4).
  split; [exact S1|]. split; [exact S2|]. split; [exact S3|].
  rewrite S4, (mabs_ord w k a), (mabs_ord w k b) by auto. rewrite map2_map. reflexivity.
Qed.

Lemma nth_nil_Z (i : nat) : nth i (@nil Z) 0 = 0.
Proof. destruct i; reflexivity. Qed.
Lemma wk_nil w t : G t w -> operand_wk w t (OD []).
Proof.
  intros (GI & _). destruct (GI t) as (_ & _ & _ & _ & X). simpl. unfold zlen. simpl. auto.
Qed.

(* r := g(a) element-wise through the two-way joint iterator (third operand empty) *)
Lemma step_sparse_munary w k (g : Z -> Z) a :
  g 0 = 0 -> GoodM w k -> mwf w a -> mother w (mvec w k) a -> mdims w a = mdims w (XS k) ->
  let r := liftm w (mop3 (fun x _ => g x) (sw (b3 w)) (mvec w k) (mop w a) (OD [])) in
  ok_out4 r /\ same_but_sm w (fst r) (mvec w k) /\ G (mvec w k) (sw (b3 (fst r))) /\
  mabs (fst r) (XS k) = map g (mabs w a).
Proof.
  intros g0 HG Ha Oa Da. pose proof HG as (Hk & HGd).
  pose proof (sparse_mop3 w k (fun x _ => g x) (mop w a) (OD []) HG g0
                (operand_ok3_wk _ _ _ (mop_operand w k a Hk Ha Oa Da))
                (wk_nil _ _ (Good_G _ _ HGd))) as S.
  cbv zeta in S. destruct S as (S1 & S2 & S3 & S4). cbv zeta.
  split; [exact S1|]. split; [exact S2|]. split; [exact S3|].
  rewrite S4, (mabs_ord w k a) by auto. rewrite map_map. reflexivity.
Qed.

Lemma step_sparse_mmuls y w k a c :
  GoodM w k -> mwf w a -> mother w (mvec w k) a -> mdims w a = mdims w (XS k) ->
  let r := step4 y w (MmulS (XS k) a c) in
  ok_out4 r /\ same_but_sm w (fst r) (mvec w k) /\ G (mvec w k) (sw (b3 (fst r))) /\
  mabs (fst r) (XS k) = map (fun x => x * c) (mabs w a).
Proof.
  intros HG Ha Oa Da.
  destruct (getsm_mvec w k) as (r0 & c0 & Ek & Dk).
  cbn [step4]. rewrite Ek. cbv beta iota zeta. rewrite Da, Dk, dims_eqb_refl.
  apply (step_sparse_munary w k (fun x => x * c) a); auto.
Qed.

Lemma step_sparse_mdivs y w k a c :
  c <> 0 -> GoodM w k -> mwf w a -> mother w (mvec w k) a -> mdims w a = mdims w (XS k) ->
  let r := step4 y w (MdivS (XS k) a c) in
  ok_out4 r /\ same_but_sm w (fst r) (mvec w k) /\ G (mvec w k) (sw (b3 (fst r))) /\
  mabs (fst r) (XS k) = map (fun x => Z.quot x c) (mabs w a).
Proof.
  intros Hc HG Ha Oa Da.
  destruct (getsm_mvec w k) as (r0 & c0 & Ek & Dk).
  cbn [step4]. rewrite Ek. cbv beta iota zeta. rewrite Da, Dk, dims_eqb_refl.
  apply Z.eqb_neq in Hc. rewrite Hc.
  apply (step_sparse_munary w k (fun x => Z.quot x c) a); auto.
Qed.

(* ---- Equals: the loop decides the point-wise predicate ---------------------------- *)
Section MEquals.
Variable t : nat.
Variable n : Z.
Variables A B : Z -> Z.
Variable e2 : Z.
Hypothesis He : 0 < e2.

Lemma meq_loop_spec : forall fuel w j p,
  G t w -> dim (getv w t) = n -> 0 <= p -> MHead t n A B w j p ->
  (forall i, 0 <= i < p -> close e2 (peek (hp w) (getv w t) i) (A i) = true) ->
  (Z.to_nat (n - p) < fuel)%nat ->
  exists w' b, meq_loop e2 fuel w t j = Some (w', b) /\ Qw w w' /\ G t w' /\
    (b = true <-> forall i, 0 <= i < n -> close e2 (peek (hp w) (getv w t) i) (A i) = true).
Proof.
  induction fuel as [|fu IH]; intros w j p HG Hn Hp HH HD Hf; [lia|].
  destruct HH as [(K & Z0)|(K & Hi & Zg & VA & VB & HS & HS0 & HJ)].
  - exists w, true. cbn [meq_loop]. rewrite K. split; [auto|]. split; [apply Qw_refl|]. split; [auto|].
    split; auto. intros _ i Hi. destruct (Z_lt_ge_dec i p) as [L|L]; [apply HD; lia|].
    destruct (Z0 i) as (X & Y & _); [lia|]. rewrite X, Y. apply close00. exact He.
  - cbn [meq_loop]. rewrite K.
    assert (EX : (match ms1 j with Some l => hget (hp w) l | None => 0 end) = peek (hp w) (getv w t) (midx j)).
    { destruct (ms1 j) as [l|] eqn:E.
      - unfold peek. rewrite (HS l eq_refl). auto.
      - symmetry. apply HS0. auto. }
    rewrite EX, VA.
    destruct (close e2 (peek (hp w) (getv w t) (midx j)) (A (midx j))) eqn:C.
    + destruct (mnext_Head t n A B w j (midx j + 1) HJ) as (w2 & j' & E2 & Q2 & G2 & H2).
      rewrite E2.
      destruct (IH w2 j' (midx j + 1)) as (w' & b & E3 & Q3 & G3 & R3); auto.
      * rewrite (Qw_dim w w2 t Q2). auto.
      * lia.
      * intros i Hi'. rewrite (Qw_peek w w2 t i Q2).
        destruct (Z.eq_dec i (midx j)) as [->|N]; [auto|].
        destruct (Z_lt_ge_dec i p) as [L|L]; [apply HD; lia|].
        destruct (Zg i) as (X & Y & _); [lia|]. rewrite X, Y. apply close00. exact He.
      * lia.
      * exists w', b. split; [auto|]. split; [eapply Qw_trans; eauto|]. split; [auto|].
        rewrite R3. split; intros HA i Hi'.
        { rewrite <- (Qw_peek w w2 t i Q2). auto. }
        { rewrite (Qw_peek w w2 t i Q2). auto. }
    + exists w, false. split; [auto|]. split; [apply Qw_refl|]. split; [auto|].
      split; [discriminate|]. intro HA. rewrite HA in C by lia. discriminate.
Qed.
End MEquals.

Theorem mequals_correct t e2 w o :
  0 < e2 -> G t w -> operand_ok3 w t o ->
  exists w1 j w', mj3_begin w t o (OD []) = Some (w1, j) /\
    meq_loop e2 (lfuel w t) w1 t j = Some (w', all_close e2 (sabs w t) (oabs w o)) /\
    Qw w w' /\ G t w'.
Proof.
  intros He HG H2.
  assert (Hn0 : 0 <= dim (getv w t)) by (destruct HG as (GI & _); destruct (GI t) as (_ & _ & _ & _ & X); auto).
  destruct (mj3_begin_Head t w o (OD []) HG (operand_ok3_wk _ _ _ H2) (wk_nil _ _ HG)) as (w1 & j & E1 & Q1 & G1 & H1).
  set (n := dim (getv w t)) in *.
  destruct (meq_loop_spec t n (ord w o) (ord w (OD [])) e2 He (lfuel w t) w1 j 0) as (w' & b & E2 & Q2 & G2 & R2); auto.
  - rewrite (Qw_dim w w1 t Q1). auto.
  - lia.
  - intros i Hi. lia.
  - unfold lfuel. fold n. lia.
  - exists w1, j, w'. split; [exact E1|]. split; [|split; [eapply Qw_trans; eauto|auto]].
    rewrite E2. f_equal. f_equal.
    rewrite (sabs_peek w t n eq_refl), (oabs_ord w o n) by (apply operand_dim; auto).
    unfold all_close.
    assert (RB : b = true <-> forall i, In i (zseq 0 (Z.to_nat n)) ->
                   close e2 (peek (hp w) (getv w t) i) (ord w o i) = true).
    { rewrite R2. split; intros HA i Hi.
      - apply zseq_In in Hi. rewrite <- (Qw_peek w w1 t i Q1). apply HA. lia.
      - rewrite (Qw_peek w w1 t i Q1). apply HA. apply zseq_In. lia. }
    clear - RB. revert RB. generalize (zseq 0 (Z.to_nat n)). intros s RB.
    assert (E : forallb (fun p => close e2 (fst p) (snd p))
                  (combine (map (peek (hp w) (getv w t)) s) (map (ord w o) s)) =
                forallb (fun i => close e2 (peek (hp w) (getv w t) i) (ord w o i)) s).
    { clear RB. induction s as [|x s IH]; simpl; auto. rewrite IH. auto. }
    rewrite E. destruct b.
    + symmetry. apply forallb_forall. apply RB. auto.
    + destruct (forallb (fun i => close e2 (peek (hp w) (getv w t) i) (ord w o i)) s) eqn:F; auto.
      rewrite forallb_forall in F. apply RB in F. discriminate.
Qed.

Lemma step_sparse_mequals y w k b e2 :
  0 < e2 -> GoodM w k -> mwf w b -> mother w (mvec w k) b -> mdims w b = mdims w (XS k) ->
  exists w', step4 y w (MEquals (XS k) b e2) =
               (w', (K_OK, [b2z (all_close e2 (mabs w (XS k)) (mabs w b))])) /\
    sms w' = sms w /\ dms w' = dms w /\ dn (b3 w') = dn (b3 w) /\
    Qw (sw (b3 w)) (sw (b3 w')) /\ G (mvec w k) (sw (b3 w')).
Proof.
  intros He HG Hb Ob Db. pose proof HG as (Hk & HGd).
  destruct (getsm_mvec w k) as (r0 & c0 & Ek & Dk).
  cbn [step4]. rewrite Ek. cbv beta iota zeta. rewrite Db, Dk, dims_eqb_refl.
  destruct (mequals_correct (mvec w k) e2 (sw (b3 w)) (mop w b) He (Good_G _ _ HGd)
              (mop_operand w k b Hk Hb Ob Db)) as (s1 & j & s2 & E1 & E2 & HQ & G2).
  rewrite E1, E2. exists (setsw w s2).
  rewrite (mabs_sparse w k Hk), (mabs_oabs w b Hb).
  split; [reflexivity|]. cbn [setsw setb sets sms dms b3 sw dn]. auto.
Qed.
