(* C03 correspondence for histories with matrices (see Corr.v): per step the
   outcome kind, the payload and a checksum of the observation of the whole
   world — every vector (the values vectors of the sparse matrices are among
   them, with map / index keys), every dense matrix element. *)
From Coq Require Import ZArith List Bool.
From ADV Require Import Base.Corr C11.Model C03.Model C03.ModelM C03.Corr.
Import ListNotations.
Open Scope Z_scope.

Fixpoint run_obs4 (y : ty) (w : w4) (ops : list mop4) : list out :=
  match ops with
  | [] => []
  | o :: r => let '(w', (k, p)) := step4 y w o in (k, p, hash (obs4 w')) :: run_obs4 y w' r
  end.
Definition case4 := (ty * list mop4 * list out)%type.
Definition check4 (c : case4) : bool :=
  let '(y, ops, outs) := c in list_eqb out_eqb (run_obs4 y init4 ops) outs.
Definition mism4 (cs : list case4) : list nat := mismatches check4 cs.
Definition diverge4 (c : case4) : option nat :=
  let '(y, ops, outs) := c in first_diff out_eqb 0 (run_obs4 y init4 ops) outs.
Definition obs_after4 (n : nat) (c : case4) : list Z :=
  let '(y, ops, _) := c in obs4 (run4 y init4 (firstn n ops)).
