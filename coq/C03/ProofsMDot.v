(* C03 — matrices: the PRODUCT operations with a sparse receiver (MdotV, VdotM,
   MdotM, Outer): whatever the receiver held before and whatever the storage of
   the operands, the result is the textbook product.
     part A  sums over index ranges, AT on any vector of the world
     part B  MdotV / VdotM (sparse vector receiver)
     part C  MdotM (row_loop, mdot_loop, storageLocation) *)
From Coq Require Import ZArith List Bool Lia Sorted.
From ADV Require Import C11.Model C11.Spec C11.ProofsMap C11.ProofsIter C11.ProofsInv C11.ProofsRef
                        C03.Model C03.Spec C03.ProofsDense C03.ProofsSem C03.ProofsJoint C03.ProofsOps
                        C03.ModelM C03.ProofsM C03.SpecM C03.ProofsMBase C03.ProofsMIter C03.ProofsMLoops
                        C03.ProofsMJ.
Import ListNotations.
Open Scope Z_scope.

(* ================================================================ part A: sums *)
Definition zs (T : Z -> Z) (L : list Z) : Z := fold_left (fun acc k => acc + T k) L 0.

Lemma zs_init T : forall L a, fold_left (fun acc k => acc + T k) L a = a + zs T L.
Proof.
  unfold zs. induction L as [|x L IH]; intro a; [simpl; lia|].
  cbn [fold_left]. rewrite (IH (a + T x)), (IH (0 + T x)). lia.
Qed.
Lemma zs_cons T x L : zs T (x :: L) = T x + zs T L.
Proof. unfold zs at 1. simpl. rewrite zs_init. lia. Qed.
Lemma zs_nil T : zs T [] = 0.
Proof. reflexivity. Qed.
Lemma zs_app T L1 L2 : zs T (L1 ++ L2) = zs T L1 + zs T L2.
Proof. induction L1 as [|x L1 IH]; cbn [app]; [rewrite zs_nil; lia|]. rewrite !zs_cons, IH. lia. Qed.
Lemma zs_ext_in T T' L : (forall k, In k L -> T k = T' k) -> zs T L = zs T' L.
Proof.
  induction L as [|x L IH]; intro H; [reflexivity|].
  assert (H' : forall k, In k L -> T k = T' k) by (intros k Hk; apply H; simpl; auto).
  rewrite !zs_cons, (IH H'), (H x) by (simpl; auto). reflexivity.
Qed.
Lemma zs_zero T L : (forall k, In k L -> T k = 0) -> zs T L = 0.
Proof.
  induction L as [|x L IH]; intro H; [reflexivity|].
  assert (H' : forall k, In k L -> T k = 0) by (intros k Hk; apply H; simpl; auto).
  rewrite zs_cons, (IH H'), (H x) by (simpl; auto). reflexivity.
Qed.
Lemma zs_filter T (p : Z -> bool) L : (forall k, In k L -> p k = false -> T k = 0) -> zs T (filter p L) = zs T L.
Proof.
  induction L as [|x L IH]; intro H; [reflexivity|]. simpl.
  assert (H' : forall k, In k L -> p k = false -> T k = 0) by (intros k Hk; apply H; simpl; auto).
  destruct (p x) eqn:E.
  - rewrite !zs_cons, IH by auto. reflexivity.
  - rewrite zs_cons, IH, (H x) by (simpl; auto). lia.
Qed.
Lemma zs_map T (g : Z -> Z) L : zs T (map g L) = zs (fun k => T (g k)) L.
Proof. induction L as [|x L IH]; [reflexivity|]. simpl. rewrite !zs_cons, IH. reflexivity. Qed.
Lemma zsum_zs f m : zsum f m = zs f (zseq 0 (Z.to_nat m)).
Proof. reflexivity. Qed.

Lemma zseq_app : forall n1 n2 a, zseq a (n1 + n2) = zseq a n1 ++ zseq (a + Z.of_nat n1) n2.
Proof.
  induction n1 as [|n1 IH]; intros n2 a.
  - simpl. f_equal. lia.
  - cbn [plus zseq app]. f_equal. rewrite IH. f_equal. f_equal. lia.
Qed.
Lemma zseq_shift : forall n a, zseq a n = map (fun j => a + j) (zseq 0 n).
Proof.
  intros n a.
  assert (GEN : forall n b, zseq (a + b) n = map (fun j => a + j) (zseq b n)).
  { clear n. induction n as [|n IH]; intro b; simpl; auto.
    f_equal. replace (a + b + 1) with (a + (b + 1)) by lia. apply IH. }
  rewrite <- GEN. f_equal. lia.
Qed.
Lemma zseq_length : forall n a, length (zseq a n) = n.
Proof. induction n; simpl; auto. Qed.

(* one block of a row-major range *)
Lemma divmod_block m r j : 0 < m -> 0 <= j < m -> (r * m + j) / m = r /\ (r * m + j) mod m = j.
Proof.
  intros Hm Hj. split.
  - rewrite Z.div_add_l by lia. rewrite Z.div_small by lia. lia.
  - rewrite Z.add_comm, Z.mod_add by lia. apply Z.mod_small. lia.
Qed.
Lemma divmod_inv m k : 0 < m -> k = (k / m) * m + k mod m /\ 0 <= k mod m < m.
Proof. intro Hm. split; [rewrite Z.mul_comm; apply Z.div_mod; lia|apply Z.mod_pos_bound; lia]. Qed.

(* sum over the row-major range of the terms of row i *)
Lemma zs_rows (U : Z -> Z) m i : 0 < m -> 0 <= i -> forall nn,
  zs (fun k => if k / m =? i then U (k mod m) else 0) (zseq 0 (nn * Z.to_nat m)) =
  if i <? Z.of_nat nn then zs U (zseq 0 (Z.to_nat m)) else 0.
Proof.
  intros Hm Hi. induction nn as [|nn IH].
  - simpl. destruct (i <? 0) eqn:E; auto. apply Z.ltb_lt in E. lia.
  - replace (S nn * Z.to_nat m)%nat with (nn * Z.to_nat m + Z.to_nat m)%nat by lia.
    rewrite zseq_app, zs_app, IH. rewrite (zseq_shift (Z.to_nat m) (0 + Z.of_nat (nn * Z.to_nat m))), zs_map.
    replace (0 + Z.of_nat (nn * Z.to_nat m)) with (Z.of_nat nn * m) by (rewrite Nat2Z.inj_mul, Z2Nat.id; lia).
    destruct (Z.eq_dec i (Z.of_nat nn)) as [->|N].
    + replace (Z.of_nat nn <? Z.of_nat nn) with false by (symmetry; apply Z.ltb_ge; lia).
      replace (Z.of_nat nn <? Z.of_nat (S nn)) with true by (symmetry; apply Z.ltb_lt; lia).
      cbv iota. match goal with |- _ + zs ?T ?L = _ => rewrite (zs_ext_in T U L) end; [lia|]. intros j Hj. apply zseq_In in Hj.
      destruct (divmod_block m (Z.of_nat nn) j Hm ltac:(lia)) as (A & B). rewrite A, B, Z.eqb_refl. auto.
    + match goal with |- _ + zs ?T ?L = _ => rewrite (zs_zero T L) end.
      * destruct (Z.ltb_spec i (Z.of_nat nn)); destruct (Z.ltb_spec i (Z.of_nat (S nn))); lia.
      * intros j Hj. apply zseq_In in Hj.
        destruct (divmod_block m (Z.of_nat nn) j Hm ltac:(lia)) as (A & B). rewrite A.
        replace (Z.of_nat nn =? i) with false by (symmetry; apply Z.eqb_neq; lia). auto.
Qed.
(* the single non-zero term of an indicator sum *)
Lemma zs_delta c i : forall n a, a <= i < a + Z.of_nat n -> zs (fun j => if j =? i then c else 0) (zseq a n) = c.
Proof.
  induction n as [|n IH]; intros a Hi; [simpl in Hi; lia|].
  cbn [zseq]. rewrite zs_cons. destruct (Z.eq_dec a i) as [->|N].
  - rewrite Z.eqb_refl, zs_zero; [lia|]. intros j Hj. apply zseq_In in Hj.
    replace (j =? i) with false by (symmetry; apply Z.eqb_neq; lia). auto.
  - replace (a =? i) with false by (symmetry; apply Z.eqb_neq; lia). rewrite IH; lia.
Qed.
(* sum over the row-major range of the terms of column i *)
Lemma zs_cols (U : Z -> Z) m i : 0 < m -> 0 <= i < m -> forall nn,
  zs (fun k => if k mod m =? i then U (k / m) else 0) (zseq 0 (nn * Z.to_nat m)) = zs U (zseq 0 nn).
Proof.
  intros Hm Hi. induction nn as [|nn IH]; [reflexivity|].
  replace (S nn * Z.to_nat m)%nat with (nn * Z.to_nat m + Z.to_nat m)%nat by lia.
  rewrite zseq_app, zs_app, IH. replace (S nn) with (nn + 1)%nat by lia. rewrite zseq_app, zs_app.
  f_equal. cbn [zseq]. rewrite zs_cons, zs_nil.
  rewrite (zseq_shift (Z.to_nat m) (0 + Z.of_nat (nn * Z.to_nat m))), zs_map.
  replace (0 + Z.of_nat (nn * Z.to_nat m)) with (Z.of_nat nn * m) by (rewrite Nat2Z.inj_mul, Z2Nat.id; lia).
  rewrite (zs_ext_in _ (fun j => if j =? i then U (0 + Z.of_nat nn) else 0)).
  - rewrite zs_delta; lia.
  - intros j Hj. apply zseq_In in Hj.
    destruct (divmod_block m (Z.of_nat nn) j Hm ltac:(lia)) as (A & B). rewrite A, B.
    replace (0 + Z.of_nat nn) with (Z.of_nat nn) by lia. auto.
Qed.

(* the folds of acc_loop_spec *)
Lemma fold_add_zs (K X : Z -> Z) i : forall L a,
  fold_left (fun acc (kx : Z * Z) => if fst kx =? i then acc + snd kx else acc) (map (fun k => (K k, X k)) L) a =
  a + zs (fun k => if K k =? i then X k else 0) L.
Proof.
  induction L as [|x L IH]; intro a; [simpl; rewrite zs_nil; lia|].
  cbn [map fold_left fst snd]. rewrite zs_cons. destruct (K x =? i); rewrite IH; lia.
Qed.
Lemma fold_set_const (c : Z) i : forall L a,
  fold_left (fun acc (kx : Z * Z) => if fst kx =? i then snd kx else acc) (map (fun k => (k, c)) L) a =
  if existsb (fun k => k =? i) L then c else a.
Proof.
  induction L as [|x L IH]; intro a; [reflexivity|].
  cbn [map fold_left fst snd existsb]. rewrite IH. destruct (x =? i); simpl; auto.
  destruct (existsb _ L); auto.
Qed.
Lemma lat_map_zseq (f : Z -> Z) N x : 0 <= x < N -> lat (map f (zseq 0 (Z.to_nat N))) x = f x.
Proof.
  intro Hx. unfold lat. change 0 with (Z.of_nat 0) at 1. rewrite zseq_seq, map_map.
  rewrite (nth_indep _ 0 (f (Z.of_nat 0))) by (rewrite map_length, seq_length; lia).
  rewrite (map_nth (fun j => f (Z.of_nat j))). rewrite seq_nth by lia. f_equal. lia.
Qed.

(* ============================================== part A2: AT on any vector of the world *)
(* frame: nothing readable changed *)
Definition Fr (w w' : world) : Prop :=
  length (vecs w') = length (vecs w) /\ (forall u, dim (getv w' u) = dim (getv w u)) /\
  (forall u k, peek (hp w') (getv w' u) k = peek (hp w) (getv w u) k).
Lemma Fr_refl w : Fr w w.
Proof. unfold Fr. auto. Qed.
Lemma Fr_trans a b c : Fr a b -> Fr b c -> Fr a c.
Proof.
  intros (A1 & A2 & A3) (B1 & B2 & B3). split; [congruence|]. split; intros; [rewrite B2|rewrite B3]; auto.
Qed.

Lemma at_any t w u i :
  G t w -> has w u -> 0 <= i < dim (getv w u) ->
  exists h' v' l, at_ (hp w) (getv w u) i = Some (h', v', l) /\
    G t (seth (setv w u v') h') /\ Fr w (seth (setv w u v') h').
Proof.
  intros (GI & GW & GS & GH) Hu Hi. unfold at_, in_bounds.
  assert (E : (0 <=? i) && (i <? dim (getv w u)) = true)
    by (apply andb_true_iff; split; [apply Z.leb_le|apply Z.ltb_lt]; lia).
  rewrite E. destruct (lookup i (vals (getv w u))) as [l|] eqn:L.
  - exists (hp w), (getv w u), l. split; [auto|].
    assert (V : forall x, getv (seth (setv w u (getv w u)) (hp w)) x = getv w x).
    { intro x. rewrite getv_seth. destruct (Nat.eq_dec u x) as [<-|N]; [apply getv_setv_eq; auto|apply getv_setv_neq; auto]. }
    split.
    + split; [intro x; rewrite V; auto|]. split; [intro x; rewrite V; apply GW|]. split.
      * intros x l' N. rewrite !V. apply GS. auto.
      * unfold has in *. simpl. rewrite upd_length. auto.
    + split; [simpl; apply upd_length|]. split; intros; rewrite V; auto.
  - cbn [halloc]. set (h := hp w). set (v := getv w u).
    set (v' := {| vals := insert i (length h) (vals v); idx := kins i (idx v); dim := dim v |}).
    set (w1 := seth (setv w u v') (h ++ [0])).
    exists (h ++ [0]), v', (length h). split; [auto|]. fold w1.
    assert (Vu : getv w1 u = v') by (unfold w1; rewrite getv_seth; apply getv_setv_eq; auto).
    assert (Vo : forall x, x <> u -> getv w1 x = getv w x)
      by (intros x N; unfold w1; rewrite getv_seth; apply getv_setv_neq; auto).
    assert (Hold : forall x k l', lookup k (vals (getv w x)) = Some l' -> (l' < length h)%nat)
      by (intros x k l' L'; eapply (proj1 (GW x)); eauto).
    assert (Hget : forall l', (l' < length h)%nat -> hget (h ++ [0]) l' = hget h l')
      by (intros l' A; unfold hget; apply app_nth1; auto).
    assert (Hnew : hget (h ++ [0]) (length h) = 0)
      by (unfold hget; rewrite app_nth2 by lia; rewrite Nat.sub_diag; auto).
    (* a cell of the new world is the new one (in u) or an old one *)
    assert (Hcell : forall x k l', lookup k (vals (getv w1 x)) = Some l' ->
               (x = u /\ k = i /\ l' = length h) \/ lookup k (vals (getv w x)) = Some l').
    { intros x k l' L'. destruct (Nat.eq_dec x u) as [->|N].
      - rewrite Vu in L'. unfold v' in L'. cbn [vals] in L'. destruct (Z.eq_dec i k) as [<-|NK].
        + rewrite lookup_insert_eq in L'. inversion L'. left. auto.
        + rewrite lookup_insert_neq in L' by auto. right. auto.
      - rewrite Vo in L' by auto. right. auto. }
    split; [split; [|split; [|split]]|split; [|split]].
    + intro x. destruct (Nat.eq_dec x u) as [->|N]; [rewrite Vu; unfold v'; apply Inv_add; [apply GI|auto]|rewrite Vo; auto].
    + intro x. change (hp w1) with (h ++ [0]). split.
      * intros k l' L'. rewrite app_length. simpl. destruct (Hcell x k l' L') as [(_ & _ & ->)|O]; [lia|].
        apply Hold in O. lia.
      * intros k1 k2 l' L1 L2.
        destruct (Hcell x k1 l' L1) as [(X1 & -> & Y1)|O1]; destruct (Hcell x k2 l' L2) as [(X2 & -> & Y2)|O2]; auto.
        { subst l'. apply Hold in O2. lia. }
        { subst l'. apply Hold in O1. lia. }
        { eapply (proj2 (GW x)); eauto. }
    + intros x l' N (k1 & L1) (k2 & L2).
      destruct (Hcell t k1 l' L1) as [(X1 & _ & Y1)|O1]; destruct (Hcell x k2 l' L2) as [(X2 & _ & Y2)|O2].
      * congruence.
      * subst l'. apply Hold in O2. lia.
      * subst l'. apply Hold in O1. lia.
      * apply (GS x l' N); [exists k1|exists k2]; auto.
    + unfold has in *. unfold w1. simpl. rewrite upd_length. auto.
    + unfold w1. simpl. apply upd_length.
    + intro x. destruct (Nat.eq_dec x u) as [->|N]; [rewrite Vu; auto|rewrite Vo; auto].
    + intros x k. change (hp w1) with (h ++ [0]). unfold peek.
      destruct (lookup k (vals (getv w1 x))) as [l'|] eqn:L'.
      * destruct (Hcell x k l' L') as [(-> & -> & ->)|O].
        { rewrite L. exact Hnew. }
        { rewrite O. apply Hget. eapply Hold; eauto. }
      * destruct (Nat.eq_dec x u) as [->|N].
        { rewrite Vu in L'. unfold v' in L'. cbn [vals] in L'. destruct (Z.eq_dec i k) as [<-|NK].
          - rewrite lookup_insert_eq in L'. discriminate.
          - rewrite lookup_insert_neq in L' by auto. unfold v in L'. rewrite L'. auto. }
        { rewrite Vo in L' by auto. rewrite L'. auto. }
Qed.

(* r.AT(k) followed by a store into the cell: one step of every accumulating loop *)
Lemma acc_step t w k :
  G t w -> 0 <= k < dim (getv w t) ->
  exists h' v' l, at_ (hp w) (getv w t) k = Some (h', v', l) /\ hget h' l = peek (hp w) (getv w t) k /\
    forall x, let w1 := seth (setv w t v') (hset h' l x) in
      G t w1 /\ length (vecs w1) = length (vecs w) /\ (forall u, dim (getv w1 u) = dim (getv w u)) /\
      peek (hp w1) (getv w1 t) k = x /\
      (forall k', k' <> k -> peek (hp w1) (getv w1 t) k' = peek (hp w) (getv w t) k' /\
                             isnull (hp w1) (getv w1 t) k' = isnull (hp w) (getv w t) k') /\
      (forall u k', u <> t -> peek (hp w1) (getv w1 u) k' = peek (hp w) (getv w u) k' /\
                              isnull (hp w1) (getv w1 u) k' = isnull (hp w) (getv w u) k').
Proof.
  intros HG Hk.
  destruct (at_step t w k HG Hk) as (h' & v' & l & E & G1 & L1 & V1 & Len1 & D1 & P1).
  exists h', v', l. split; [exact E|]. split.
  - rewrite <- (P1 t k). rewrite V1. unfold peek. rewrite L1. auto.
  - intros x w1.
    destruct (wr_spec t w k None x HG Hk) as (w2 & E2 & R); [intros l0 X; discriminate|].
    unfold wr in E2. rewrite E in E2. inversion E2. subst w2. exact R.
Qed.

(* ============================================================ part B: MdotV / VdotM *)
(* the sum over the visited (non-zero) entries of a row-major matrix = the sum over a row *)
Lemma zs_vis_rows (A T : Z -> Z) n m i : 0 < n -> 0 < m -> 0 <= i < n ->
  zs (fun k => if k / m =? i then A k * T (k mod m) else 0)
     (filter (fun k => negb (A k =? 0)) (zseq 0 (Z.to_nat (n * m)))) =
  zs (fun j => A (i * m + j) * T j) (zseq 0 (Z.to_nat m)).
Proof.
  intros Hn Hm Hi. rewrite zs_filter.
  - set (U := fun j => A (i * m + j) * T j).
    rewrite (zs_ext_in _ (fun k => if k / m =? i then U (k mod m) else 0)).
    + rewrite Z2Nat.inj_mul by lia. rewrite (zs_rows U m i Hm (proj1 Hi)).
      replace (i <? Z.of_nat (Z.to_nat n)) with true by (symmetry; apply Z.ltb_lt; lia). auto.
    + intros k _. destruct (Z.eqb_spec (k / m) i) as [E|E]; auto. unfold U.
      destruct (divmod_inv m k Hm) as (X & _). rewrite E in X. rewrite <- X. auto.
  - intros k _ E. apply negb_false_iff, Z.eqb_eq in E. rewrite E. destruct (k / m =? i); lia.
Qed.
Lemma zs_vis_cols (Bm T : Z -> Z) n m i : 0 < n -> 0 < m -> 0 <= i < m ->
  zs (fun k => if k mod m =? i then T (k / m) * Bm k else 0)
     (filter (fun k => negb (Bm k =? 0)) (zseq 0 (Z.to_nat (n * m)))) =
  zs (fun j => T j * Bm (j * m + i)) (zseq 0 (Z.to_nat n)).
Proof.
  intros Hn Hm Hi. rewrite zs_filter.
  - set (U := fun j => T j * Bm (j * m + i)).
    rewrite (zs_ext_in _ (fun k => if k mod m =? i then U (k / m) else 0)).
    + rewrite Z2Nat.inj_mul by lia. apply (zs_cols U m i Hm Hi).
    + intros k _. destruct (Z.eqb_spec (k mod m) i) as [E|E]; auto. unfold U.
      destruct (divmod_inv m k Hm) as (X & _). rewrite E in X. rewrite <- X. auto.
  - intros k _ E. apply negb_false_iff, Z.eqb_eq in E. rewrite E. destruct (k mod m =? i); lia.
Qed.

Definition op_other (t : nat) (w : world) (o : operand) : Prop :=
  match o with OS u => u <> t /\ has w u | OD _ => True end.
Lemma op_other_len t w w' o : op_other t w o -> length (vecs w') = length (vecs w) -> op_other t w' o.
Proof. destruct o as [u|d]; simpl; auto. unfold has. intros (A & B) L. split; [auto|lia]. Qed.
Lemma ord_same t w w' o :
  op_other t w o -> (forall u k, u <> t -> peek (hp w') (getv w' u) k = peek (hp w) (getv w u) k) ->
  forall k, ord w' o k = ord w o k.
Proof. destruct o as [u|d]; simpl; auto. intros (A & _) F k. apply F. auto. Qed.
Lemma op_dim_same w w' o : (forall u, dim (getv w' u) = dim (getv w u)) -> op_dim w' o = op_dim w o.
Proof. destruct o as [u|d]; simpl; auto. Qed.

Lemma mop_info w t x r c :
  mwf w x -> mother w t x -> mdims w x = (r, c) ->
  op_other t (sw (b3 w)) (mop w x) /\ op_dim (sw (b3 w)) (mop w x) = r * c /\ 0 <= r /\ 0 <= c /\
  mabs w x = map (ord (sw (b3 w)) (mop w x)) (zseq 0 (Z.to_nat (r * c))).
Proof.
  intros Hx Ho Hd. pose proof (mop_dim w x Hx) as D. rewrite Hd in D. cbn [fst snd] in D.
  split; [|split; [exact D|]].
  - unfold mwf, mother, mvec, mop, sm_ok in *. destruct x as [k|k]; [|destruct (getdm w k) as [[d r'] c']; exact I].
    destruct (getsm w k) as [[u r'] c']. simpl in *. split; [auto|tauto].
  - assert (0 <= r /\ 0 <= c).
    { unfold mwf, mdims in *. destruct x as [k|k].
      - unfold sm_ok in Hx. destruct (getsm w k) as [[u r'] c']. inversion Hd. subst. tauto.
      - unfold dm_ok in Hx. destruct (getdm w k) as [[d r'] c']. inversion Hd. subst. tauto. }
    split; [tauto|]. split; [tauto|]. rewrite (mabs_oabs w x Hx). apply oabs_ord. exact D.
Qed.
Lemma vop_info w t x n :
  vwf w x -> vother t x -> vlen w x = n ->
  op_other t (sw (b3 w)) (vop_of w x) /\ op_dim (sw (b3 w)) (vop_of w x) = n /\
  abs3 (b3 w) x = map (ord (sw (b3 w)) (vop_of w x)) (zseq 0 (Z.to_nat n)).
Proof.
  intros Hx Ho Hd. unfold vop_of. rewrite <- oabs_to_op.
  assert (D : op_dim (sw (b3 w)) (to_op (b3 w) x) = n) by (destruct x; simpl in *; auto).
  split; [|split; [exact D|apply oabs_ord; exact D]].
  destruct x as [u|k]; simpl in *; auto.
Qed.
Lemma existsb_zseq i n : 0 <= i < n -> existsb (fun k => k =? i) (zseq 0 (Z.to_nat n)) = true.
Proof.
  intro Hi. apply existsb_exists. exists i. split; [apply zseq_In; lia|apply Z.eqb_refl].
Qed.

(* the receiver vector after the reset loop r.AT(i).Reset() for every i *)
Lemma reset_all_spec t w n :
  G t w -> dim (getv w t) = n ->
  exists w', acc_loop (fun _ x => x) w t (map (fun i => (i, 0)) (zseq 0 (Z.to_nat n))) = (w', true) /\
    G t w' /\ length (vecs w') = length (vecs w) /\ (forall u, dim (getv w' u) = dim (getv w u)) /\
    (forall i, 0 <= i < n -> peek (hp w') (getv w' t) i = 0) /\
    (forall u k, u <> t -> peek (hp w') (getv w' u) k = peek (hp w) (getv w u) k).
Proof.
  intros HG Hn.
  destruct (acc_loop_spec t (fun _ x => x) (map (fun i => (i, 0)) (zseq 0 (Z.to_nat n))) w HG)
    as (w' & E & G' & L & D & R & F).
  { intros k x Hin. apply in_map_iff in Hin. destruct Hin as (i & Ei & Hi). inversion Ei. subst.
    apply zseq_In in Hi. lia. }
  exists w'. split; [exact E|]. split; [exact G'|]. split; [exact L|]. split; [exact D|]. split; [|exact F].
  intros i Hi. rewrite R. rewrite (fold_set_const 0 i). rewrite existsb_zseq by lia. auto.
Qed.

Lemma step_sparse_mdotv y w t a b n m :
  Good (sw (b3 w)) t -> mwf w a -> mother w t a -> vwf w b -> vother t b ->
  mdims w a = (n, m) -> vlen w (RS t) = n -> vlen w b = m -> 0 < n -> 0 < m ->
  let r := step4 y w (MdotV (RS t) a b) in
  ok_out4 r /\ same_but_sm w (fst r) t /\ G t (sw (b3 (fst r))) /\
  abs3 (b3 (fst r)) (RS t) = matvec (mabs w a) (abs3 (b3 w) b) n m.
Proof.
  intros HGd Ha Oa Hb Ob Da Dt Db Hn Hm.
  pose proof (Good_G _ _ HGd) as HG.
  destruct (mop_info w t a n m Ha Oa Da) as (Oa' & Na & _ & _ & Aa).
  destruct (vop_info w t b m Hb Ob Db) as (Ob' & Nb & Ab).
  assert (Dt' : dim (getv (sw (b3 w)) t) = n) by exact Dt.
  cbn [step4]. rewrite Da. cbv beta iota zeta. rewrite Dt, Db, !Z.eqb_refl. cbn [andb negb].
  replace (n =? 0) with false by (symmetry; apply Z.eqb_neq; lia).
  replace (m =? 0) with false by (symmetry; apply Z.eqb_neq; lia). cbn [orb].
  replace (match b with RS u => Nat.eqb t u | RD _ => false end) with false
    by (destruct b as [u|kb]; auto; symmetry; apply Nat.eqb_neq; simpl in Ob; auto).
  set (s := sw (b3 w)) in *.
  destruct (reset_all_spec t s n HG Dt') as (s1 & E1 & G1 & L1 & D1 & R1 & F1).
  rewrite E1. cbn [negb].
  assert (Oa1 : op_other t s1 (mop w a)) by (eapply op_other_len; eauto).
  destruct (mvisits_nzvis t s1 (mop w a) G1 Oa1) as (s2 & E2 & Q2 & G2).
  rewrite E2. rewrite nzvis_ord, map_map. cbn [fst snd].
  set (A1 := ord s1 (mop w a)). set (B2 := ord s2 (vop_of w b)).
  set (L := filter (fun k => negb (A1 k =? 0)) (zseq 0 (Z.to_nat (op_dim s1 (mop w a))))).
  assert (NA1 : op_dim s1 (mop w a) = n * m) by (rewrite (op_dim_same s s1); auto).
  destruct (acc_loop_spec t Z.add (map (fun k => (k / m, A1 k * B2 (k mod m))) L) s2 G2)
    as (s3 & E3 & G3 & L3 & D3 & R3 & F3).
  { intros k x Hin. apply in_map_iff in Hin. destruct Hin as (k0 & Ek & Hk). inversion Ek. subst k x.
    apply filter_In in Hk. destruct Hk as [Hk _]. apply zseq_In in Hk. rewrite NA1 in Hk.
    rewrite (Qw_dim s1 s2 t Q2), D1, Dt'.
    split; [apply Z.div_pos; lia|apply Z.div_lt_upper_bound; nia]. }
  rewrite E3. unfold liftm2, ok_out4. cbn [fst snd].
  assert (L03 : length (vecs s3) = length (vecs s)) by (rewrite L3; destruct Q2 as (_ & X & _); lia).
  assert (D03 : forall u, dim (getv s3 u) = dim (getv s u)) by (intro u; rewrite D3, (Qw_dim s1 s2 u Q2); auto).
  assert (F03 : forall u k, u <> t -> peek (hp s3) (getv s3 u) k = peek (hp s) (getv s u) k).
  { intros u k N. rewrite F3 by auto. rewrite (Qw_peek s1 s2 u k Q2). auto. }
  split; [reflexivity|]. split; [|split; [exact G3|]].
  - unfold same_but_sm. cbn [setsw setb sets sms dms b3 sw dn]. fold s.
    split; [auto|]. split; [auto|]. split; [auto|]. split; [exact L03|]. split; [exact D03|].
    intros u N. rewrite (sabs_peek s3 u _ (D03 u)), (sabs_peek s u _ eq_refl).
    apply map_ext. intro i. apply F03. auto.
  - cbn [abs3 setsw setb sets b3 sw]. rewrite (sabs_peek s3 t n) by (rewrite D03; auto).
    unfold matvec. apply map_ext_in. intros i Hi. apply zseq_In in Hi.
    rewrite R3, (fold_add_zs (fun k => k / m) (fun k => A1 k * B2 (k mod m)) i).
    rewrite (Qw_peek s1 s2 t i Q2), R1 by lia.
    unfold L. rewrite NA1, (zs_vis_rows A1 B2 n m i) by lia. rewrite zsum_zs.
    rewrite Z.add_0_l. apply zs_ext_in. intros j Hj. apply zseq_In in Hj.
    rewrite Aa, Ab, !lat_map_zseq by nia. f_equal.
    + unfold A1. apply ord_same with (t := t); auto.
    + unfold B2. fold s. rewrite (ord_Qw s1 s2 _ _ Q2). apply ord_same with (t := t); auto.
Qed.

Lemma step_sparse_vdotm y w t a b n m :
  Good (sw (b3 w)) t -> vwf w a -> vother t a -> mwf w b -> mother w t b ->
  mdims w b = (n, m) -> vlen w (RS t) = m -> vlen w a = n -> 0 < n -> 0 < m ->
  let r := step4 y w (VdotM (RS t) a b) in
  ok_out4 r /\ same_but_sm w (fst r) t /\ G t (sw (b3 (fst r))) /\
  abs3 (b3 (fst r)) (RS t) = vecmat (abs3 (b3 w) a) (mabs w b) n m.
Proof.
  intros HGd Ha Oa Hb Ob Db Dt Da Hn Hm.
  pose proof (Good_G _ _ HGd) as HG.
  destruct (mop_info w t b n m Hb Ob Db) as (Ob' & Nb & _ & _ & Ab).
  destruct (vop_info w t a n Ha Oa Da) as (Oa' & Na & Aa).
  assert (Dt' : dim (getv (sw (b3 w)) t) = m) by exact Dt.
  cbn [step4]. rewrite Db. cbv beta iota zeta. rewrite Dt, Da, !Z.eqb_refl. cbn [andb negb].
  replace (n =? 0) with false by (symmetry; apply Z.eqb_neq; lia).
  replace (m =? 0) with false by (symmetry; apply Z.eqb_neq; lia). cbn [orb].
  replace (match a with RS u => Nat.eqb t u | RD _ => false end) with false
    by (destruct a as [u|ka]; auto; symmetry; apply Nat.eqb_neq; simpl in Oa; auto).
  set (s := sw (b3 w)) in *.
  destruct (reset_all_spec t s m HG Dt') as (s1 & E1 & G1 & L1 & D1 & R1 & F1).
  rewrite E1. cbn [negb].
  assert (Ob1 : op_other t s1 (mop w b)) by (eapply op_other_len; eauto).
  destruct (mvisits_nzvis t s1 (mop w b) G1 Ob1) as (s2 & E2 & Q2 & G2).
  rewrite E2. rewrite nzvis_ord, map_map. cbn [fst snd].
  set (B1 := ord s1 (mop w b)). set (A2 := ord s2 (vop_of w a)).
  set (L := filter (fun k => negb (B1 k =? 0)) (zseq 0 (Z.to_nat (op_dim s1 (mop w b))))).
  assert (NB1 : op_dim s1 (mop w b) = n * m) by (rewrite (op_dim_same s s1); auto).
  destruct (acc_loop_spec t Z.add (map (fun k => (k mod m, A2 (k / m) * B1 k)) L) s2 G2)
    as (s3 & E3 & G3 & L3 & D3 & R3 & F3).
  { intros k x Hin. apply in_map_iff in Hin. destruct Hin as (k0 & Ek & Hk). inversion Ek. subst k x.
    rewrite (Qw_dim s1 s2 t Q2), D1, Dt'. apply Z.mod_pos_bound. lia. }
  rewrite E3. unfold liftm2, ok_out4. cbn [fst snd].
  assert (L03 : length (vecs s3) = length (vecs s)) by (rewrite L3; destruct Q2 as (_ & X & _); lia).
  assert (D03 : forall u, dim (getv s3 u) = dim (getv s u)) by (intro u; rewrite D3, (Qw_dim s1 s2 u Q2); auto).
  assert (F03 : forall u k, u <> t -> peek (hp s3) (getv s3 u) k = peek (hp s) (getv s u) k).
  { intros u k N. rewrite F3 by auto. rewrite (Qw_peek s1 s2 u k Q2). auto. }
  split; [reflexivity|]. split; [|split; [exact G3|]].
  - unfold same_but_sm. cbn [setsw setb sets sms dms b3 sw dn]. fold s.
    split; [auto|]. split; [auto|]. split; [auto|]. split; [exact L03|]. split; [exact D03|].
    intros u N. rewrite (sabs_peek s3 u _ (D03 u)), (sabs_peek s u _ eq_refl).
    apply map_ext. intro i. apply F03. auto.
  - cbn [abs3 setsw setb sets b3 sw]. rewrite (sabs_peek s3 t m) by (rewrite D03; auto).
    unfold vecmat. apply map_ext_in. intros i Hi. apply zseq_In in Hi.
    rewrite R3, (fold_add_zs (fun k => k mod m) (fun k => A2 (k / m) * B1 k) i).
    rewrite (Qw_peek s1 s2 t i Q2), R1 by lia.
    unfold L. rewrite NB1, (zs_vis_cols B1 A2 n m i) by lia. rewrite zsum_zs.
    rewrite Z.add_0_l. apply zs_ext_in. intros j Hj. apply zseq_In in Hj.
    rewrite Aa, Ab, !lat_map_zseq by nia. f_equal.
    + unfold A2. fold s. rewrite (ord_Qw s1 s2 _ _ Q2). apply ord_same with (t := t); auto.
    + unfold B1. apply ord_same with (t := t); auto.
Qed.
