(* C03 — dense receiver: the index loop r[i] := g(operands at i) computes the
   point-wise function of the operands' ORIGINAL values, also when the
   receiver is one of the operands, and touches nothing else. *)
From Coq Require Import ZArith List Bool Lia.
From ADV Require Import C11.Model C11.Spec C11.ProofsMap C11.ProofsRef C03.Model C03.Spec.
Import ListNotations.
Open Scope Z_scope.

Lemma getd_setd_eq w k l : hasd w k -> getd (setd w k l) k = l.
Proof. unfold hasd, getd, setd. simpl. intro H. apply nth_upd_eq. auto. Qed.
Lemma getd_setd_neq w k k' l : k <> k' -> getd (setd w k l) k' = getd w k'.
Proof. unfold getd, setd. simpl. intro H. apply nth_upd_neq. auto. Qed.
Lemma firstn_upd {X} (x : X) : forall l m, (m < length l)%nat -> firstn (S m) (upd m x l) = firstn m l ++ [x].
Proof.
  induction l as [|y l IH]; intros m H; simpl in *; [lia|].
  destruct m as [|m]; simpl; auto. rewrite IH by lia. auto.
Qed.
Lemma zseq_seq : forall n a, zseq (Z.of_nat a) n = map Z.of_nat (seq a n).
Proof.
  induction n as [|n IH]; intro a; simpl; auto. f_equal.
  replace (Z.of_nat a + 1) with (Z.of_nat (S a)) by lia. apply IH.
Qed.
Lemma nth_seq_self (l : list Z) : map (fun j => nth j l 0) (seq 0 (length l)) = l.
Proof.
  induction l as [|x l IH]; simpl; auto. f_equal.
  rewrite <- seq_shift, map_map. auto.
Qed.
Lemma map2_map {A B C D} (f : B -> C -> D) (g1 : A -> B) (g2 : A -> C) (s : list A) :
  map2 f (map g1 s) (map g2 s) = map (fun j => f (g1 j) (g2 j)) s.
Proof. induction s as [|a s IH]; simpl; auto. f_equal. auto. Qed.

(* the values a vector stands for, read through ConstAt *)
Lemma abs3_rd w x n :
  vdim w x = Z.of_nat n ->
  abs3 w x = map (fun j => rd w x (Z.of_nat j)) (seq 0 n).
Proof.
  destruct x as [u|k]; simpl; intro H.
  - unfold sabs, abs_vec. rewrite H, Nat2Z.id.
    change 0 with (Z.of_nat 0). rewrite zseq_seq, map_map. auto.
  - unfold zlen in H. apply Nat2Z.inj in H. subst n.
    rewrite <- (nth_seq_self (getd w k)) at 1. apply map_ext. intro j. rewrite Nat2Z.id. auto.
Qed.

Section Dense.
Variable k : nat.
Variable w0 : w3.
Variable n : nat.
Hypothesis Hk : hasd w0 k.
Hypothesis Hn : length (getd w0 k) = n.

(* w agrees with w0 except on positions < i of the receiver *)
Definition agree (i : nat) (w : w3) : Prop :=
  sw w = sw w0 /\ length (dn w) = length (dn w0) /\
  (forall k', k' <> k -> getd w k' = getd w0 k') /\
  length (getd w k) = n /\
  (forall j, (i <= j)%nat -> nth j (getd w k) 0 = nth j (getd w0 k) 0).

Lemma agree_refl : agree 0 w0.
Proof. unfold agree. auto. Qed.

Lemma rd_agree i w x : agree i w -> rd w x (Z.of_nat i) = rd w0 x (Z.of_nat i).
Proof.
  clear Hk Hn. intros (A & B & C & D & E). destruct x as [u|k']; simpl.
  - rewrite A. auto.
  - rewrite Nat2Z.id. destruct (Nat.eq_dec k' k) as [->|N]; [apply E; lia|rewrite C; auto].
Qed.
Variable g : w3 -> Z -> option Z.
Variable G : nat -> Z.
Hypothesis Hg : forall w j, (j < n)%nat -> agree j w -> g w (Z.of_nat j) = Some (G j).

Lemma dloop_spec : forall cnt m w,
  agree m w -> (m + cnt = n)%nat ->
  exists w', dloop g cnt (Z.of_nat m) w k = (w', true) /\
    sw w' = sw w0 /\ length (dn w') = length (dn w0) /\
    (forall k', k' <> k -> getd w' k' = getd w0 k') /\
    getd w' k = firstn m (getd w k) ++ map G (seq m cnt).
Proof.
  induction cnt as [|c IH]; intros m w Ha Hm.
  - exists w. destruct Ha as (A & B & C & D & E). simpl. repeat split; auto.
    rewrite app_nil_r. rewrite firstn_all2; auto. lia.
  - cbn [dloop]. rewrite (Hg w m) by (auto; lia).
    assert (Hkw : hasd w k) by (destruct Ha as (_ & B & _); unfold hasd in *; lia).
    set (w1 := setd w k (upd (Z.to_nat (Z.of_nat m)) (G m) (getd w k))).
    assert (Ha1 : agree (S m) w1).
    { destruct Ha as (A & B & C & D & E). unfold agree, w1. rewrite Nat2Z.id. repeat split.
      - auto.
      - unfold setd. simpl. rewrite upd_length. auto.
      - intros k' N. rewrite getd_setd_neq by auto. auto.
      - rewrite getd_setd_eq by auto. rewrite upd_length. auto.
      - intros j Hj. rewrite getd_setd_eq by auto. rewrite nth_upd_neq by lia. apply E. lia. }
    replace (Z.of_nat m + 1) with (Z.of_nat (S m)) by lia.
    destruct (IH (S m) w1 Ha1) as (w' & L & A' & B' & C' & D'); [lia|].
    exists w'. rewrite L. repeat split; auto.
    rewrite D'. unfold w1. rewrite getd_setd_eq by auto. rewrite Nat2Z.id.
    destruct Ha as (_ & _ & _ & D & _).
    rewrite firstn_upd by lia. rewrite <- app_assoc. auto.
Qed.

Lemma dop_spec xs :
  Forall (fun x => vdim w0 x = Z.of_nat n) xs ->
  exists w', dop g w0 k xs = (w', true) /\
    sw w' = sw w0 /\ length (dn w') = length (dn w0) /\
    (forall k', k' <> k -> getd w' k' = getd w0 k') /\
    getd w' k = map G (seq 0 n).
Proof.
  intro Hx. unfold dop.
  assert (E : forallb (fun x => vdim w0 x =? zlen (getd w0 k)) xs = true).
  { apply forallb_forall. intros x Hin. rewrite Forall_forall in Hx. apply Z.eqb_eq.
    rewrite (Hx x Hin). unfold zlen. rewrite Hn. auto. }
  rewrite E. unfold zlen. rewrite Hn, Nat2Z.id.
  destruct (dloop_spec n 0%nat w0 agree_refl) as (w' & L & A & B & C & D); [lia|].
  exists w'. simpl in L. rewrite L. repeat split; auto.
Qed.
End Dense.

(* ---- the operations with a dense receiver ------------------------------------ *)
Definition same_but (w w' : w3) (k : nat) : Prop :=
  sw w' = sw w /\ length (dn w') = length (dn w) /\ forall k', k' <> k -> getd w' k' = getd w k'.

(* two operands, total scalar operation *)
Lemma dense_binary (f : Z -> Z -> Z) w k a b :
  hasd w k -> vdim w a = zlen (getd w k) -> vdim w b = zlen (getd w k) ->
  exists w', dop (fun w' i => Some (f (rd w' a i) (rd w' b i))) w k [a; b] = (w', true) /\
    same_but w w' k /\ getd w' k = map2 f (abs3 w a) (abs3 w b).
Proof.
  intros Hk Ha Hb.
  destruct (dop_spec k w (length (getd w k)) Hk eq_refl
              (fun w' i => Some (f (rd w' a i) (rd w' b i)))
              (fun j => f (rd w a (Z.of_nat j)) (rd w b (Z.of_nat j)))) with (xs := [a; b])
    as (w' & L & A & B & C & D).
  - intros w1 j Hj Hag. rewrite !(rd_agree k w (length (getd w k)) j w1) by auto. auto.
  - repeat constructor; auto.
  - exists w'. split; [exact L|]. split; [unfold same_but; auto|].
    rewrite D. rewrite (abs3_rd w a (length (getd w k))), (abs3_rd w b (length (getd w k))) by auto.
    symmetry. apply map2_map.
Qed.

(* one operand (Set, VaddS, VsubS, VmulS) *)
Lemma dense_unary (f : Z -> Z) w k a :
  hasd w k -> vdim w a = zlen (getd w k) ->
  exists w', dop (fun w' i => Some (f (rd w' a i))) w k [a] = (w', true) /\
    same_but w w' k /\ getd w' k = map f (abs3 w a).
Proof.
  intros Hk Ha.
  destruct (dop_spec k w (length (getd w k)) Hk eq_refl
              (fun w' i => Some (f (rd w' a i)))
              (fun j => f (rd w a (Z.of_nat j)))) with (xs := [a])
    as (w' & L & A & B & C & D).
  - intros w1 j Hj Hag. rewrite !(rd_agree k w (length (getd w k)) j w1) by auto. auto.
  - repeat constructor; auto.
  - exists w'. split; [exact L|]. split; [unfold same_but; auto|].
    rewrite D. rewrite (abs3_rd w a (length (getd w k))) by auto. rewrite map_map. auto.
Qed.

(* division: every divisor non-zero -> no panic, the quotient at every position *)
Lemma sdiv_nonzero y a b : b <> 0 -> sdiv y a b = Some (Z.quot a b).
Proof. intro H. unfold sdiv. destruct (b =? 0) eqn:E; auto. apply Z.eqb_eq in E. contradiction. Qed.

Lemma dense_divv y w k a b :
  hasd w k -> vdim w a = zlen (getd w k) -> vdim w b = zlen (getd w k) ->
  nonzero_all (abs3 w b) ->
  exists w', dop (fun w' i => sdiv y (rd w' a i) (rd w' b i)) w k [a; b] = (w', true) /\
    same_but w w' k /\ getd w' k = map2 Z.quot (abs3 w a) (abs3 w b).
Proof.
  intros Hk Ha Hb Hnz.
  destruct (dop_spec k w (length (getd w k)) Hk eq_refl
              (fun w' i => sdiv y (rd w' a i) (rd w' b i))
              (fun j => Z.quot (rd w a (Z.of_nat j)) (rd w b (Z.of_nat j)))) with (xs := [a; b])
    as (w' & L & A & B & C & D).
  - intros w1 j Hj Hag. rewrite !(rd_agree k w (length (getd w k)) j w1) by auto.
    apply sdiv_nonzero.
    unfold nonzero_all in Hnz. rewrite (abs3_rd w b (length (getd w k))) in Hnz by auto.
    rewrite Forall_forall in Hnz. apply Hnz. apply in_map_iff. exists j. split; auto.
    apply in_seq. lia.
  - repeat constructor; auto.
  - exists w'. split; [exact L|]. split; [unfold same_but; auto|].
    rewrite D. rewrite (abs3_rd w a (length (getd w k))), (abs3_rd w b (length (getd w k))) by auto.
    symmetry. apply map2_map.
Qed.

Lemma dense_divs y w k a c :
  hasd w k -> vdim w a = zlen (getd w k) -> c <> 0 ->
  exists w', dop (fun w' i => sdiv y (rd w' a i) c) w k [a] = (w', true) /\
    same_but w w' k /\ getd w' k = map (fun x => Z.quot x c) (abs3 w a).
Proof.
  intros Hk Ha Hc.
  destruct (dop_spec k w (length (getd w k)) Hk eq_refl
              (fun w' i => sdiv y (rd w' a i) c)
              (fun j => Z.quot (rd w a (Z.of_nat j)) c)) with (xs := [a])
    as (w' & L & A & B & C & D).
  - intros w1 j Hj Hag. rewrite !(rd_agree k w (length (getd w k)) j w1) by auto.
    apply sdiv_nonzero; auto.
  - repeat constructor; auto.
  - exists w'. split; [exact L|]. split; [unfold same_but; auto|].
    rewrite D. rewrite (abs3_rd w a (length (getd w k))) by auto. rewrite map_map. auto.
Qed.

(* Equals with a dense receiver is the point-wise predicate *)
Lemma dense_equals e2 w k x :
  vdim w x = zlen (getd w k) ->
  dequals e2 w k x = Some (all_close e2 (getd w k) (abs3 w x)).
Proof.
  intro H. unfold dequals. rewrite H, Z.eqb_refl. f_equal.
  unfold all_close, zlen. rewrite Nat2Z.id.
  rewrite (abs3_rd w x (length (getd w k))) by auto.
  pose proof (nth_seq_self (getd w k)) as E.
  remember (length (getd w k)) as n eqn:Hn.
  rewrite <- E.
  replace (zseq 0 n) with (map Z.of_nat (seq 0 n)) by (symmetry; apply (zseq_seq n 0%nat)).
  clear E Hn. generalize (seq 0 n). intro s.
  induction s as [|j s IH]; cbn [forallb map combine fst snd]; auto. rewrite IH. f_equal.
  simpl. rewrite Nat2Z.id. auto.
Qed.
