(* C03 — executable model of the MATRIX operations of
     /repo/matrix_sparse_template_math.in + Set / SetIdentity / Reset / AS_MATRIX /
     NEW_MATRIX of matrix_sparse_template.in          (sparse receiver)
     /repo/matrix_dense_template_math.in + matrix_dense_template.in (dense receiver)
   and of MdotV / VdotM of the vector templates, on top of Model.v.

   A sparse matrix is what it is in Go: a header over ONE sparse vector
   ([values], a vector of the C11 world) — here for matrices that are neither
   sliced nor transposed (views are C10's subject): rowOffset = colOffset = 0,
   rowMax = rows, colMax = cols, so index(i,j) = i*cols + j and
   ij(k) = (k / cols, k mod cols).  A dense matrix is its row-major value list.
   The matrix joint iterators compare (i, j) lexicographically; for matrices of
   equal shape that is the order of k = i*cols + j, which is what the model
   compares.  Their Ok() is the explicit flag of HEAD (after e83c5e9): some
   underlying iterator delivered an element, like the vector joint iterators (it
   was value based before: an element of value 0 ended the walk).  The dense matrix iterator
   skips zero elements.  JOINT_ITERATOR is modelled as JOINT3_ITERATOR with an
   empty third operand (Props.joint_is_joint3 proves this for the vector twins).

   No proofs in this file. *)
From Coq Require Import ZArith List Bool Lia.
From ADV Require Import C11.Model C03.Model.
Import ListNotations.
Open Scope Z_scope.

Record w4 := { b3 : w3; sms : list (nat * Z * Z); dms : list (list Z * Z * Z) }.
Definition init4 : w4 := {| b3 := init3; sms := []; dms := [] |}.
Inductive mref := XS (k : nat) | XD (k : nat).
Definition getsm (w : w4) (k : nat) : nat * Z * Z := nth k (sms w) (O, 0, 0).
Definition getdm (w : w4) (k : nat) : list Z * Z * Z := nth k (dms w) ([], 0, 0).
Definition setb (w : w4) (b : w3) : w4 := {| b3 := b; sms := sms w; dms := dms w |}.
Definition setsw (w : w4) (s : world) : w4 := setb w (sets (b3 w) s).
Definition setdm (w : w4) (k : nat) (d : list Z) : w4 :=
  let '(_, r, c) := getdm w k in {| b3 := b3 w; sms := sms w; dms := upd k (d, r, c) (dms w) |}.
Definition mdims (w : w4) (x : mref) : Z * Z :=
  match x with XS k => let '(_, r, c) := getsm w k in (r, c) | XD k => let '(_, r, c) := getdm w k in (r, c) end.
Definition dims_eqb (a b : Z * Z) : bool := (fst a =? fst b) && (snd a =? snd b).
(* the operand as linear (row-major) vector: the values vector of a sparse matrix, the list of a dense one *)
Definition mop (w : w4) (x : mref) : operand :=
  match x with XS k => let '(u, _, _) := getsm w k in OS u | XD k => let '(d, _, _) := getdm w k in OD d end.
(* x.ConstAt(i, j) at the linear position k *)
Definition mrd (w : w4) (x : mref) (k : Z) : Z := ord (sw (b3 w)) (mop w x) k.

(* ------------------------------------------------- matrix operand iterators *)
Inductive miter := MS (u : nat) (cur : option Z) | MD (d : list Z) (pos : Z).
(* first position >= p holding a non-zero element, else the length *)
Definition nzfrom (d : list Z) (p : Z) : Z :=
  match List.find (fun k => negb (nth (Z.to_nat k) d 0 =? 0)) (zseq p (Z.to_nat (zlen d - p))) with
  | Some k => k
  | None => Z.max p (zlen d)
  end.
Definition mi_ok (c : miter) : bool :=
  match c with MS _ cur => match cur with Some _ => true | None => false end | MD d p => p <? zlen d end.
Definition mi_index (c : miter) : Z :=
  match c with MS _ cur => match cur with Some k => k | None => 0 end | MD _ p => p end.
Definition mi_get (w : world) (c : miter) : option Z :=
  match c with
  | MS u cur => match cur with
                | Some k => match lookup k (vals (getv w u)) with Some l => Some (hget (hp w) l) | None => None end
                | None => None end
  | MD d p => Some (nth (Z.to_nat p) d 0)
  end.
Definition mi_next (w : world) (c : miter) : option (world * miter) :=
  match c with
  | MS u cur => match it_next (hp w) (getv w u) cur with
                | Some (v', cur') => Some (setv w u v', MS u cur')
                | None => None end
  | MD d p => Some (w, MD d (nzfrom d (p + 1)))
  end.
Definition mi_begin (w : world) (o : operand) : option (world * miter) :=
  match o with
  | OS u => match it_begin (hp w) (getv w u) with
            | Some (v', cur) => Some (setv w u v', MS u cur)
            | None => None end
  | OD d => Some (w, MD d (nzfrom d 0))
  end.
(* ConstIteratorFrom(i, j) at linear position k0 *)
Definition mi_from (w : world) (o : operand) (k0 : Z) : option (world * miter) :=
  match o with
  | OS u => match it_from (hp w) (getv w u) k0 with
            | Some (v', cur) => Some (setv w u v', MS u cur)
            | None => None end
  | OD d => Some (w, MD d (nzfrom d k0))
  end.

(* --------------------------------------------------- MATRIX_JOINT3_ITERATOR *)
Record mj3 := { m1 : option Z; m2 : miter; m3 : miter; midx : Z;
                ms1 : option loc; ms2 : option Z; ms3 : option Z }.
Definition mj3_next (w : world) (t : nat) (j : mj3) : option (world * mj3) :=
  let ok1 := match m1 j with Some _ => true | None => false end in
  let ok2 := mi_ok (m2 j) in
  let ok3 := mi_ok (m3 j) in
  let '(i0, s1) := match m1 j with
                   | Some k => (k, lookup k (vals (getv w t)))
                   | None => (midx j, None) end in
  let '(i1, s1a, s2a) :=
    if ok2 then
      let i := mi_index (m2 j) in
      if (i <? i0) || negb ok1 then (i, None, mi_get w (m2 j))
      else if i0 =? i then (i0, s1, mi_get w (m2 j))
      else (i0, s1, None)
    else (i0, s1, None) in
  let '(i2, s1b, s2b, s3b) :=
    if ok3 then
      let i := mi_index (m3 j) in
      if (i <? i1) || (negb ok1 && negb ok2) then (i, None, None, mi_get w (m3 j))
      else if i1 =? i then (i1, s1a, s2a, mi_get w (m3 j))
      else (i1, s1a, s2a, None)
    else (i1, s1a, s2a, None) in
  match (match s1b with
         | Some _ => match it_next (hp w) (getv w t) (m1 j) with
                     | Some (v', c') => Some (setv w t v', c')
                     | None => None end
         | None => Some (w, m1 j) end) with
  | None => None
  | Some (w1, c1) =>
      match (match s2b with Some _ => mi_next w1 (m2 j) | None => Some (w1, m2 j) end) with
      | None => None
      | Some (w2, c2) =>
          match (match s3b with Some _ => mi_next w2 (m3 j) | None => Some (w2, m3 j) end) with
          | None => None
          | Some (w3, c3) =>
              Some (w3, {| m1 := c1; m2 := c2; m3 := c3; midx := i2; ms1 := s1b; ms2 := s2b; ms3 := s3b |})
          end
      end
  end.
(* Ok() (HEAD, after e83c5e9): the flag recorded by Next() BEFORE it advances the
   underlying iterators: obj.ok = obj.s1.ptr != nil || obj.s2 != nil || obj.s3 != nil
   — some iterator delivered an element; the VALUES are not looked at (an element
   with value 0 does not end the walk).  [ms1]/[ms2]/[ms3] are exactly what Next()
   selected (the later replacement of a nil s2/s3 by the constant 0 is [jval]). *)
Definition mj3_ok (w : world) (j : mj3) : bool :=
  (match ms1 j with Some _ => true | None => false end) ||
  (match ms2 j with Some _ => true | None => false end) ||
  (match ms3 j with Some _ => true | None => false end).
Definition mj3_begin (w : world) (t : nat) (o2 o3 : operand) : option (world * mj3) :=
  match it_begin (hp w) (getv w t) with
  | None => None
  | Some (v', c1) =>
      match mi_begin (setv w t v') o2 with
      | None => None
      | Some (w1, c2) =>
          match mi_begin w1 o3 with
          | None => None
          | Some (w2, c3) =>
              mj3_next w2 t {| m1 := c1; m2 := c2; m3 := c3; midx := -1; ms1 := None; ms2 := None; ms3 := None |}
          end
      end
  end.

(* for it := r.JOINT3_ITERATOR(a, b); it.Ok(); it.Next() { s_r.<f>(s_a, s_b) } *)
Fixpoint mmap3_loop (f : Z -> Z -> Z) (fuel : nat) (w : world) (t : nat) (j : mj3) : option (world * bool) :=
  if mj3_ok w j then
    match fuel with
    | O => None
    | S fu =>
        match wr w t (midx j) (ms1 j) (f (jval (ms2 j)) (jval (ms3 j))) with
        | None => Some (w, false)
        | Some w1 =>
            match mj3_next w1 t j with
            | None => None
            | Some (w2, j') => mmap3_loop f fu w2 t j'
            end
        end
    end
  else Some (w, true).
Definition mop3 (f : Z -> Z -> Z) (w : world) (t : nat) (o2 o3 : operand) : option (world * bool) :=
  match mj3_begin w t o2 o3 with
  | None => None
  | Some (w1, j) => mmap3_loop f (lfuel w t) w1 t j
  end.
(* Equals (HEAD, after fc1915b): an absent receiver entry counts as 0; the
   loop returns false at the first visit whose values differ *)
Fixpoint meq_loop (e2 : Z) (fuel : nat) (w : world) (t : nat) (j : mj3) : option (world * bool) :=
  if mj3_ok w j then
    match fuel with
    | O => None
    | S fu =>
        let x := match ms1 j with Some l => hget (hp w) l | None => 0 end in
        if close e2 x (jval (ms2 j)) then
          match mj3_next w t j with
          | None => None
          | Some (w', j') => meq_loop e2 fu w' t j'
          end
        else Some (w, false)
    end
  else Some (w, true).

(* ---------------------------------------------------- MATRIX_JOINT_ITERATOR *)
(* The TWO-way iterator (JOINT_ITERATOR / the public JointIterator), written out
   as in Go at HEAD:
     ok1 := it1.Ok(); ok2 := it2.Ok(); s1 = nil; s2 = nil
     if ok1 { i, j = it1.Index(); s1 = it1.GET() }
     if ok2 { i', j' := it2.Index()
       switch { case obj.i > i' || (obj.i == i' && obj.j > j') || !ok1: take it2 only
                case obj.i == i' && obj.j == j':                       take both } }
     obj.ok = s1 != nil || s2 != nil; advance the iterators that delivered
   (lexicographic order of (i, j) = order of the linear index for equal shapes).
   MmulS / MdivS / Equals above run it as the three-way iterator with an empty
   third operand; ProofsMJ2.mj2_next_emb proves that this is the same machine. *)
Record mj2 := { n1 : option Z; n2 : miter; nidx : Z; ns1 : option loc; ns2 : option Z }.
Definition mj2_next (w : world) (t : nat) (j : mj2) : option (world * mj2) :=
  let ok1 := match n1 j with Some _ => true | None => false end in
  let ok2 := mi_ok (n2 j) in
  let '(i0, s1) := match n1 j with
                   | Some k => (k, lookup k (vals (getv w t)))
                   | None => (nidx j, None) end in
  let '(i1, s1a, s2a) :=
    if ok2 then
      let i := mi_index (n2 j) in
      if (i <? i0) || negb ok1 then (i, None, mi_get w (n2 j))
      else if i0 =? i then (i0, s1, mi_get w (n2 j))
      else (i0, s1, None)
    else (i0, s1, None) in
  match (match s1a with
         | Some _ => match it_next (hp w) (getv w t) (n1 j) with
                     | Some (v', c') => Some (setv w t v', c')
                     | None => None end
         | None => Some (w, n1 j) end) with
  | None => None
  | Some (w1, c1) =>
      match (match s2a with Some _ => mi_next w1 (n2 j) | None => Some (w1, n2 j) end) with
      | None => None
      | Some (w2, c2) => Some (w2, {| n1 := c1; n2 := c2; nidx := i1; ns1 := s1a; ns2 := s2a |})
      end
  end.
Definition mj2_ok (j : mj2) : bool :=
  (match ns1 j with Some _ => true | None => false end) || (match ns2 j with Some _ => true | None => false end).
Definition mj2_begin (w : world) (t : nat) (o2 : operand) : option (world * mj2) :=
  match it_begin (hp w) (getv w t) with
  | None => None
  | Some (v', c1) =>
      match mi_begin (setv w t v') o2 with
      | None => None
      | Some (w1, c2) => mj2_next w1 t {| n1 := c1; n2 := c2; nidx := -1; ns1 := None; ns2 := None |}
      end
  end.
(* for it := a.JointIterator(b); it.Ok(); it.Next() { i, j := it.Index(); s1, s2 := it.GetConst(); ... }:
   per visit the linear index, whether s1 is non-nil, its value, the value of s2 (never nil: 0 when absent) *)
Fixpoint mj2_visits (fuel : nat) (w : world) (t : nat) (j : mj2) (acc : list Z) : option (world * list Z) :=
  if mj2_ok j then
    match fuel with
    | O => None
    | S fu =>
        let r := [nidx j; match ns1 j with Some _ => 1 | None => 0 end;
                  match ns1 j with Some l => hget (hp w) l | None => 0 end; jval (ns2 j)] in
        match mj2_next w t j with
        | None => None
        | Some (w', j') => mj2_visits fu w' t j' (acc ++ r)
        end
    end
  else Some (w, acc).

(* ------------------------------------- loops over the receiver's own entries *)
(* for it := m.Iterator(); it.Ok(); it.Next() { it.Get().<set>(g k) } *)
Fixpoint own_loop (g : world -> Z -> Z) (fuel : nat) (w : world) (t : nat) (cur : option Z) : option world :=
  match cur with
  | None => Some w
  | Some k =>
      match fuel with
      | O => None
      | S fu =>
          match lookup k (vals (getv w t)) with
          | None => None
          | Some l =>
              let w1 := seth w (hset (hp w) l (g w k)) in
              match it_next (hp w1) (getv w1 t) cur with
              | None => None
              | Some (v', cur') => own_loop g fu (setv w1 t v') t cur'
              end
          end
      end
  end.
Definition own_map (g : world -> Z -> Z) (w : world) (t : nat) : option world :=
  match it_begin (hp w) (getv w t) with
  | None => None
  | Some (v', cur) => own_loop g (S (length (idx (getv w t)))) (setv w t v') t cur
  end.
(* for it := b.ConstIterator(); it.Ok(); it.Next() { r.AT(i, j).<set>(value) } *)
Fixpoint put_loop (fuel : nat) (w : world) (t : nat) (c : miter) : option (world * bool) :=
  if mi_ok c then
    match fuel with
    | O => None
    | S fu =>
        match mi_get w c with
        | None => None
        | Some x =>
            match wr w t (mi_index c) None x with
            | None => Some (w, false)
            | Some w1 =>
                match mi_next w1 c with
                | None => None
                | Some (w2, c') => put_loop fu w2 t c'
                end
            end
        end
    end
  else Some (w, true).

(* ----------------------------------------------------------------- MdotM etc. *)
(* the non-zero entries (k, value) of a matrix operand in iteration order; a
   sparse operand loses its null entries *)
Definition mvisits (w : world) (o : operand) : option (world * list (Z * Z)) :=
  match o with
  | OS u => match iterate (hp w) (getv w u) with
            | Some (v', s) => Some (setv w u v', map (fun kl => (fst kl, hget (hp w) (snd kl))) s)
            | None => None end
  | OD d => Some (w, filter (fun kx => negb (snd kx =? 0)) (combine (zseq 0 (length d)) d))
  end.
(* vector ConstIterator: a dense vector delivers EVERY position *)
Definition vvisits (w : world) (o : operand) : option (world * list (Z * Z)) :=
  match o with
  | OS _ => mvisits w o
  | OD d => Some (w, combine (zseq 0 (length d)) d)
  end.
(* inner loop of MdotM: for is := b.ConstIteratorFrom(j, 0); is.Ok(); is.Next()
     { p, q := is.Index(); if p != j { break }; r.At(i, q) += a_ij * b_pq } *)
Fixpoint row_loop (fuel : nat) (w : world) (t : nat) (c : miter) (cb cr i j aij : Z) : option (world * bool) :=
  if mi_ok c then
    match fuel with
    | O => None
    | S fu =>
        let k := mi_index c in
        if negb (k / cb =? j) then Some (w, true)
        else
          match mi_get w c with
          | None => None
          | Some x =>
              let kr := i * cr + k mod cb in
              match at_ (hp w) (getv w t) kr with
              | None => Some (w, false)
              | Some (h', v', l) =>
                  let w1 := seth (setv w t v') (hset h' l (hget h' l + aij * x)) in
                  match mi_next w1 c with
                  | None => None
                  | Some (w2, c') => row_loop fu w2 t c' cb cr i j aij
                  end
              end
          end
    end
  else Some (w, true).
Fixpoint mdot_loop (w : world) (t : nat) (vis : list (Z * Z)) (ob : operand) (ca cb cr : Z) : option (world * bool) :=
  match vis with
  | [] => Some (w, true)
  | (k, aij) :: rest =>
      let i := k / ca in
      let j := k mod ca in
      (* ConstIteratorFrom(j, 0): index(j, 0) panics when b has no column *)
      if cb <=? 0 then Some (w, false) else
      match mi_from w ob (j * cb) with
      | None => None
      | Some (w1, c) =>
          match row_loop (S (Z.to_nat cb)) w1 t c cb cr i j aij with
          | None => None
          | Some (w2, false) => Some (w2, false)
          | Some (w2, true) => mdot_loop w2 t rest ob ca cb cr
          end
      end
  end.

(* r.AT(k).<op> for a list of (k, x): r[k] := g (old r[k]) x *)
Fixpoint acc_loop (g : Z -> Z -> Z) (w : world) (t : nat) (kxs : list (Z * Z)) : world * bool :=
  match kxs with
  | [] => (w, true)
  | (k, x) :: rest =>
      match at_ (hp w) (getv w t) k with
      | None => (w, false)
      | Some (h', v', l) => acc_loop g (seth (setv w t v') (hset h' l (g (hget h' l) x))) t rest
      end
  end.

(* ------------------------------------------------------------------ operations *)
Inductive mop4 :=
  | V (o : op3)                                  (* a vector operation of Model.v *)
  | NewSM (ks xs : list Z) (r c : Z)             (* NewSparse<T>Matrix, entries given by linear index i*c+j *)
  | NewDM (xs : list Z) (r c : Z)
  | AsDenseM (x : mref)
  | AsSparseM (x : mref)
  | MSetAt (x : mref) (k v : Z)                  (* x.At(i, j).SetFloat64(v), k = i*cols + j *)
  | MopM (o : bop) (r a b : mref)                (* MaddM / MsubM / MmulM *)
  | MdivM (r a b : mref)
  | MaddS (r a : mref) (s : Z)
  | MsubS (r a : mref) (s : Z)
  | MmulS (r a : mref) (s : Z)
  | MdivS (r a : mref) (s : Z)
  | MSet (r a : mref)
  | MSetIdentity (r : mref)
  | MReset (r : mref)
  | MEquals (a b : mref) (e2 : Z)
  | MdotM (r a b : mref)
  | MOuter (r : mref) (a b : vref)
  | MdotV (r : vref) (a : mref) (b : vref)
  | VdotM (r : vref) (a : vref) (b : mref)
  | MJoint (k : nat) (b : mref).                 (* walk sparse matrix k's public JointIterator(b): payload = visit sequence *)

Definition liftm (w : w4) (r : option (world * bool)) : w4 * (Z * list Z) :=
  match r with
  | Some (s, ok) => (setsw w s, (if ok then K_OK else K_PANIC, []))
  | None => (w, (K_FUEL, []))
  end.
Definition liftm2 (w : w4) (r : world * bool) : w4 * (Z * list Z) :=
  let '(s, ok) := r in (setsw w s, (if ok then K_OK else K_PANIC, [])).
Definition panic (w : w4) : w4 * (Z * list Z) := (w, (K_PANIC, [])).
Definition okm (w : w4) : w4 * (Z * list Z) := (w, (K_OK, [])).

(* dense receiver: for i, j: r.At(i,j).<op>(...) in row-major order; g reads the CURRENT world *)
Fixpoint dmloop (g : w4 -> Z -> option Z) (cnt : nat) (k : Z) (w : w4) (r : nat) : w4 * bool :=
  match cnt with
  | O => (w, true)
  | S c =>
      match g w k with
      | None => (w, false)
      | Some x => let '(d, _, _) := getdm w r in dmloop g c (k + 1) (setdm w r (upd (Z.to_nat k) x d)) r
      end
  end.
Definition dmop (g : w4 -> Z -> option Z) (w : w4) (r : nat) (xs : list mref) : w4 * (Z * list Z) :=
  let dr := mdims w (XD r) in
  if forallb (fun x => dims_eqb (mdims w x) dr) xs then
    let '(w', ok) := dmloop g (Z.to_nat (fst dr * snd dr)) 0 w r in (w', (if ok then K_OK else K_PANIC, []))
  else panic w.
(* sum_k a[i,k] * b[k,j] *)
Definition dotrow (w : w4) (a b : mref) (m1 cb i j : Z) : Z :=
  fold_left (fun acc k => acc + mrd w a (i * m1 + k) * mrd w b (k * cb + j)) (zseq 0 (Z.to_nat m1)) 0.
Definition vrd (w : w4) (x : vref) (i : Z) : Z := rd (b3 w) x i.
Definition vlen (w : w4) (x : vref) : Z := vdim (b3 w) x.
Definition vop_of (w : w4) (x : vref) : operand := to_op (b3 w) x.
(* storageLocation(): dense &values[0] panics on an empty matrix; sparse values.AT(0)
   creates entry 0 (panics on an empty matrix).  Result: world, identity *)
Definition sloc (w : w4) (x : mref) : option (w4 * (bool * nat)) :=
  match x with
  | XD k => let '(d, _, _) := getdm w k in if zlen d =? 0 then None else Some (w, (false, k))
  | XS k => let '(u, _, _) := getsm w k in
            match at_ (hp (sw (b3 w))) (getv (sw (b3 w)) u) 0 with
            | Some (h', v', _) => Some (setsw w (seth (setv (sw (b3 w)) u v') h'), (true, u))
            | None => None
            end
  end.
Definition same_loc (a b : bool * nat) : bool := Bool.eqb (fst a) (fst b) && Nat.eqb (snd a) (snd b).
(* dense MdotM when r shares storage with b: column buffer t3.  for j { for i { t3[i] = sum_q a[i,q] b[q,j] };
   for i { r[i,j] = t3[i] } } — the reads see the CURRENT content.  This is harmless when only b is r (column j of
   b is needed for column j of the result only), but when a is r too (r.MdotM(r, r), known finding F-MDOTM-RR) the
   columns of the LEFT factor already overwritten are read for the later columns.  [d] is the one row-major list that
   is r, a and b at once (n x n, n = m1 = m). *)
Definition rab_alias (k : nat) (a b : mref) : bool :=
  match a, b with XD ka, XD kb => Nat.eqb ka k && Nat.eqb kb k | _, _ => false end.
Definition col_buf (d : list Z) (n m1 m j : Z) : list Z :=
  map (fun i => fold_left (fun acc q => acc + nth (Z.to_nat (i * m1 + q)) d 0 * nth (Z.to_nat (q * m + j)) d 0)
                          (zseq 0 (Z.to_nat m1)) 0) (zseq 0 (Z.to_nat n)).
Fixpoint col_flush (t3 : list Z) (i j m : Z) (d : list Z) : list Z :=
  match t3 with [] => d | v :: rest => col_flush rest (i + 1) j m (upd (Z.to_nat (i * m + j)) v d) end.
Fixpoint mdot_cols (cnt : nat) (j : Z) (d : list Z) (n m1 m : Z) : list Z :=
  match cnt with
  | O => d
  | S c => mdot_cols c (j + 1) (col_flush (col_buf d n m1 m j) 0 j m d) n m1 m
  end.

Definition step4 (y : ty) (w : w4) (o : mop4) : w4 * (Z * list Z) :=
  let s := sw (b3 w) in
  match o with
  | V o3 => let '(b', out) := step3 y (b3 w) o3 in (setb w b', out)
  | NewSM ks xs r c =>
      (* NULL_MATRIX(r, c), then m.At(i, j).Set(v) for the non-zero values *)
      let v0 := nil_vec (r * c) in
      let s0 := addv s v0 in
      let t := length (vecs s) in
      let kxs := filter (fun kx => negb (snd kx =? 0)) (combine ks xs) in
      let '(s1, ok) := acc_loop (fun _ x => x) s0 t kxs in
      if ok then ({| b3 := sets (b3 w) s1; sms := sms w ++ [(t, r, c)]; dms := dms w |}, (K_OK, []))
      else panic w
  | NewDM xs r c =>
      if zlen xs =? r * c then ({| b3 := b3 w; sms := sms w; dms := dms w ++ [(xs, r, c)] |}, (K_OK, []))
      else panic w
  | AsDenseM x =>
      let '(r, c) := mdims w x in
      ({| b3 := b3 w; sms := sms w; dms := dms w ++ [(map (mrd w x) (zseq 0 (Z.to_nat (r * c))), r, c)] |}, (K_OK, []))
  | AsSparseM (XS k) =>
      let '(u, r, c) := getsm w k in
      let '(h1, v) := clone (hp s) (getv s u) in
      ({| b3 := sets (b3 w) (addv (seth s h1) v); sms := sms w ++ [(length (vecs s), r, c)]; dms := dms w |}, (K_OK, []))
  | AsSparseM (XD k) =>
      (* r := NULL_MATRIX; for it := dense.ConstIterator() { r.AT(i,j).Set(value) }: non-zero elements only *)
      let '(d, r, c) := getdm w k in
      let s0 := addv s (nil_vec (r * c)) in
      let t := length (vecs s) in
      let '(s1, ok) := acc_loop (fun _ x => x) s0 t
                         (filter (fun kx => negb (snd kx =? 0)) (combine (zseq 0 (length d)) d)) in
      if ok then ({| b3 := sets (b3 w) s1; sms := sms w ++ [(t, r, c)]; dms := dms w |}, (K_OK, []))
      else panic w
  | MSetAt (XS k) i v =>
      let '(u, _, _) := getsm w k in
      match at_ (hp s) (getv s u) i with
      | Some (h', v', l) => okm (setsw w (seth (setv s u v') (hset h' l v)))
      | None => panic w
      end
  | MSetAt (XD k) i v =>
      let '(d, _, _) := getdm w k in
      if (0 <=? i) && (i <? zlen d) then okm (setdm w k (upd (Z.to_nat i) v d)) else panic w
  | MopM f (XS k) a b =>
      let '(t, _, _) := getsm w k in
      let dr := mdims w (XS k) in
      if dims_eqb (mdims w a) dr && dims_eqb (mdims w b) dr
      then liftm w (mop3 (bop_f f) s t (mop w a) (mop w b)) else panic w
  | MopM f (XD k) a b => dmop (fun w' i => Some (bop_f f (mrd w' a i) (mrd w' b i))) w k [a; b]
  | MdivM (XS k) a b =>
      let '(t, r, c) := getsm w k in
      if dims_eqb (mdims w a) (r, c) && dims_eqb (mdims w b) (r, c)
      then liftm2 w (divv_loop y (Z.to_nat (r * c)) 0 s t (mop w a) (mop w b)) else panic w
  | MdivM (XD k) a b => dmop (fun w' i => sdiv y (mrd w' a i) (mrd w' b i)) w k [a; b]
  | MaddS (XS k) a c =>
      let '(t, r, cc) := getsm w k in
      if dims_eqb (mdims w a) (r, cc)
      then liftm2 w (at_loop (fun w1 i => Some (ord w1 (mop w a) i + c)) (Z.to_nat (r * cc)) 0 s t) else panic w
  | MaddS (XD k) a c => dmop (fun w' i => Some (mrd w' a i + c)) w k [a]
  | MsubS (XS k) a c =>
      let '(t, r, cc) := getsm w k in
      if dims_eqb (mdims w a) (r, cc)
      then liftm2 w (at_loop (fun w1 i => Some (ord w1 (mop w a) i - c)) (Z.to_nat (r * cc)) 0 s t) else panic w
  | MsubS (XD k) a c => dmop (fun w' i => Some (mrd w' a i - c)) w k [a]
  | MmulS (XS k) a c =>
      let '(t, r, cc) := getsm w k in
      if dims_eqb (mdims w a) (r, cc)
      then liftm w (mop3 (fun x _ => x * c) s t (mop w a) (OD [])) else panic w
  | MmulS (XD k) a c => dmop (fun w' i => Some (mrd w' a i * c)) w k [a]
  | MdivS (XS k) a c =>
      let '(t, r, cc) := getsm w k in
      if dims_eqb (mdims w a) (r, cc) then
        if c =? 0
        then liftm2 w (at_loop (fun w1 i => sdiv y (ord w1 (mop w a) i) 0) (Z.to_nat (r * cc)) 0 s t)
        else liftm w (mop3 (fun x _ => Z.quot x c) s t (mop w a) (OD []))
      else panic w
  | MdivS (XD k) a c => dmop (fun w' i => sdiv y (mrd w' a i) c) w k [a]
  | MSet (XS k) a =>
      let '(t, r, c) := getsm w k in
      if dims_eqb (mdims w a) (r, c) then
        match own_map (fun w1 i => ord w1 (mop w a) i) s t with
        | None => (w, (K_FUEL, []))
        | Some s1 =>
            match mi_begin s1 (mop w a) with
            | None => (w, (K_FUEL, []))
            | Some (s2, it) => liftm w (put_loop (S (S (Z.to_nat (r * c)))) s2 t it)
            end
        end
      else panic w
  | MSet (XD k) a => dmop (fun w' i => Some (mrd w' a i)) w k [a]
  | MSetIdentity (XS k) =>
      let '(t, r, c) := getsm w k in
      match own_map (fun _ i => if (c =? 0) then 0 else if i / c =? i mod c then 1 else 0) s t with
      | None => (w, (K_FUEL, []))
      | Some s1 =>
          liftm2 w (acc_loop (fun _ x => x) s1 t
                      (map (fun i => (i * c + i, 1)) (zseq 0 (Z.to_nat (Z.min r c)))))
      end
  | MSetIdentity (XD k) =>
      let '(_, _, c) := getdm w k in
      dmop (fun _ i => Some (if c =? 0 then 0 else if i / c =? i mod c then 1 else 0)) w k []
  | MReset (XS k) =>
      let '(t, _, _) := getsm w k in
      match own_map (fun _ _ => 0) s t with
      | None => (w, (K_FUEL, []))
      | Some s1 => okm (setsw w s1)
      end
  | MReset (XD k) => dmop (fun _ _ => Some 0) w k []
  | MEquals (XS k) b e2 =>
      let '(t, r, c) := getsm w k in
      if dims_eqb (mdims w b) (r, c) then
        match mj3_begin s t (mop w b) (OD []) with
        | None => (w, (K_FUEL, []))
        | Some (s1, j) =>
            match meq_loop e2 (lfuel s t) s1 t j with
            | None => (w, (K_FUEL, []))
            | Some (s2, res) => (setsw w s2, (K_OK, [b2z res]))
            end
        end
      else panic w
  | MEquals (XD k) b e2 =>
      let '(d, r, c) := getdm w k in
      if dims_eqb (mdims w b) (r, c)
      then (w, (K_OK, [b2z (forallb (fun i => close e2 (nth (Z.to_nat i) d 0) (mrd w b i)) (zseq 0 (length d)))]))
      else panic w
  | MdotM r a b =>
      let '(n, m) := mdims w r in
      let '(n1, m1) := mdims w a in
      let '(n2, m2) := mdims w b in
      if negb ((n1 =? n) && (m2 =? m) && (m1 =? n2)) then panic w else
      match r with
      | XS k =>
          (* r.storageLocation() == a.storageLocation() || r.storageLocation() == b.storageLocation() *)
          let '(t, _, _) := getsm w k in
          match sloc w r with
          | None => panic w
          | Some (w1, lr) =>
              match sloc w1 a with
              | None => panic w1
              | Some (w2, la) =>
                  if same_loc lr la then panic w2 else
                  match sloc w2 b with
                  | None => panic w2
                  | Some (w3, lb) =>
                      if same_loc lr lb then panic w3 else
                      (* HEAD (after c117908): for it := r.Iterator() { it.Get().Reset() } *)
                      match own_map (fun _ _ => 0) (sw (b3 w3)) t with
                      | None => (w, (K_FUEL, []))
                      | Some s0 =>
                          match mvisits s0 (mop w3 a) with
                          | None => (w, (K_FUEL, []))
                          | Some (s1, vis) => liftm w3 (mdot_loop s1 t vis (mop w3 b) m1 m2 m)
                          end
                      end
                  end
              end
          end
      | XD k =>
          (* dense receiver: row buffer (column buffer when r and b share storage): both schedules give the
             closed form computed from the old world — except when r is a AND b *)
          match sloc w r with
          | None => panic w
          | Some (w1, lr) =>
              match sloc w1 b with
              | None => panic w1
              | Some (w2, lb) =>
                  if rab_alias k a b
                  then (* r.MdotM(r, r): the column-buffered schedule on the one shared list (F-MDOTM-RR) *)
                       okm (setdm w2 k (mdot_cols (Z.to_nat m) 0 (fst (fst (getdm w2 k))) n m1 m))
                  else okm (setdm w2 k (map (fun i => dotrow w2 a b m1 m2 (i / m) (i mod m)) (zseq 0 (Z.to_nat (n * m)))))
              end
          end
      end
  | MOuter (XS k) a b =>
      let '(t, n, m) := getsm w k in
      if negb ((vlen w a =? n) && (vlen w b =? m)) then panic w else
      match own_map (fun _ _ => 0) s t with
      | None => (w, (K_FUEL, []))
      | Some s1 =>
          match vvisits s1 (vop_of w a) with
          | None => (w, (K_FUEL, []))
          | Some (s2, va) =>
              (* b is iterated once per entry of a: its null entries go at the first pass *)
              match (match va with [] => Some (s2, []) | _ => vvisits s2 (vop_of w b) end) with
              | None => (w, (K_FUEL, []))
              | Some (s3, vb) =>
                  liftm2 w (acc_loop (fun _ x => x) s3 t
                              (flat_map (fun ip => map (fun jq => (fst ip * m + fst jq, snd ip * snd jq)) vb) va))
              end
          end
      end
  | MOuter (XD k) a b =>
      let '(_, n, m) := getdm w k in
      if negb ((vlen w a =? n) && (vlen w b =? m)) then panic w else
      let '(w', ok) := dmloop (fun w' i => Some (vrd w' a (i / m) * vrd w' b (i mod m))) (Z.to_nat (n * m)) 0 w k in
      (w', (if ok then K_OK else K_PANIC, []))
  | MdotV r a b =>
      let '(n, m) := mdims w a in
      if negb ((vlen w r =? n) && (vlen w b =? m)) then panic w else
      if (n =? 0) || (m =? 0) then okm w else
      match r with
      | RS t =>
          (* r.AT(0) == b.ConstAt(0): creates entry 0; then r.AT(i).Reset() for every i *)
          if (match b with RS u => Nat.eqb t u | RD _ => false end) then
            match at_ (hp s) (getv s t) 0 with
            | Some (h', v', _) => panic (setsw w (seth (setv s t v') h'))
            | None => panic w
            end
          else
          let '(s1, ok) := acc_loop (fun _ x => x) s t (map (fun i => (i, 0)) (zseq 0 (Z.to_nat n))) in
          if negb ok then panic (setsw w s1) else
          match mvisits s1 (mop w a) with
          | None => (w, (K_FUEL, []))
          | Some (s2, vis) =>
              liftm2 w (acc_loop Z.add s2 t (map (fun kx => (fst kx / m, snd kx * ord s2 (vop_of w b) (fst kx mod m))) vis))
          end
      | RD k =>
          if (match b with RD u => Nat.eqb k u | RS _ => false end) then panic w else
          okm (setb w (setd (b3 w) k (map (fun i =>
                 fold_left (fun acc j => acc + mrd w a (i * m + j) * vrd w b j) (zseq 0 (Z.to_nat m)) 0)
                 (zseq 0 (Z.to_nat n)))))
      end
  | VdotM r a b =>
      let '(n, m) := mdims w b in
      if negb ((vlen w r =? m) && (vlen w a =? n)) then panic w else
      if (n =? 0) || (m =? 0) then okm w else
      match r with
      | RS t =>
          if (match a with RS u => Nat.eqb t u | RD _ => false end) then
            match at_ (hp s) (getv s t) 0 with
            | Some (h', v', _) => panic (setsw w (seth (setv s t v') h'))
            | None => panic w
            end
          else
          let '(s1, ok) := acc_loop (fun _ x => x) s t (map (fun i => (i, 0)) (zseq 0 (Z.to_nat m))) in
          if negb ok then panic (setsw w s1) else
          match mvisits s1 (mop w b) with
          | None => (w, (K_FUEL, []))
          | Some (s2, vis) =>
              liftm2 w (acc_loop Z.add s2 t (map (fun kx => (fst kx mod m, ord s2 (vop_of w a) (fst kx / m) * snd kx)) vis))
          end
      | RD k =>
          if (match a with RD u => Nat.eqb k u | RS _ => false end) then panic w else
          okm (setb w (setd (b3 w) k (map (fun i =>
                 fold_left (fun acc j => acc + vrd w a j * mrd w b (j * m + i)) (zseq 0 (Z.to_nat n)) 0)
                 (zseq 0 (Z.to_nat m)))))
      end
  | MJoint k b =>
      let '(t, r, c) := getsm w k in
      if dims_eqb (mdims w b) (r, c) then
        match mj2_begin s t (mop w b) with
        | None => (w, (K_FUEL, []))
        | Some (s1, j) =>
            match mj2_visits (lfuel s t) s1 t j [] with
            | None => (w, (K_FUEL, []))
            | Some (s2, l) => (setsw w s2, (K_OK, l))
            end
        end
      else panic w
  end.

Definition run4 (y : ty) (w : w4) (ops : list mop4) : w4 := fold_left (fun w o => fst (step4 y w o)) ops w.

(* ------------------------------------------------------------ observation *)
(* the values vectors of the sparse matrices are vectors of the world (observed
   with their private state by obs3); dense matrices: shape and every element *)
Definition obs4 (w : w4) : list Z :=
  obs3 (b3 w) ++ [SEP; SEP] ++
  flat_map (fun m => let '(u, r, c) := m in [Z.of_nat u; r; c; SEP]) (sms w) ++ [SEP] ++
  flat_map (fun m => let '(d, r, c) := m in [r; c; SEP] ++ d ++ [SEP]) (dms w).
