(* C03 — matrices: MdotM with a sparse receiver: storageLocation() of the three
   matrices, the receiver reset, the walk over a's non-zero entries and, for
   each, over the non-zero entries of the matching row of b. *)
From Coq Require Import ZArith List Bool Lia Sorted.
From ADV Require Import C11.Model C11.Spec C11.ProofsMap C11.ProofsIter C11.ProofsInv C11.ProofsRef
                        C03.Model C03.Spec C03.ProofsDense C03.ProofsSem C03.ProofsJoint C03.ProofsOps
                        C03.ModelM C03.ProofsM C03.SpecM C03.ProofsMBase C03.ProofsMIter C03.ProofsMLoops
                        C03.ProofsMJ C03.ProofsMDot.
Import ListNotations.
Open Scope Z_scope.

(* an operand of another shape than the receiver: ConstIteratorFrom *)
Definition op_wk2 (t : nat) (nb : Z) (w : world) (o : operand) : Prop :=
  match o with
  | OS u => u <> t /\ has w u /\ dim (getv w u) = nb
  | OD d => zlen d <= nb
  end.
Lemma op_wk2_frame t nb w w' o :
  op_wk2 t nb w o -> length (vecs w') = length (vecs w) -> (forall u, dim (getv w' u) = dim (getv w u)) ->
  op_wk2 t nb w' o.
Proof.
  destruct o as [u|d]; simpl; auto. intros (A & B & C) L D. split; [auto|]. split; [unfold has in *; lia|].
  rewrite D. auto.
Qed.
Lemma op_wk2_other t nb w o : op_wk2 t nb w o -> op_other t w o.
Proof. destruct o as [u|d]; simpl; tauto. Qed.
Lemma MPos_from2 t nb w o k0 :
  G t w -> op_wk2 t nb w o -> 0 <= k0 ->
  exists w' c, mi_from w o k0 = Some (w', c) /\ Qw w w' /\ AInv w' /\ MPos t nb w' c (ord w o) k0.
Proof.
  intros HG HO Hk. destruct o as [u|d]; simpl in *.
  - destruct HO as (N & Hu & Hd). destruct HG as (A & _).
    destruct (it_from_pos (hp w) (getv w u) k0 (A u)) as (v' & c' & X & Y & Z1 & Z2).
    rewrite X. exists (setv w u v'), (MS u c'). split; auto.
    split; [apply Qw_setv; auto|]. split; [apply AInv_setv; auto|].
    simpl. rewrite getv_setv_eq by auto. repeat split; auto.
    + apply has_setv. auto.
    + destruct Y as ((_ & _ & D) & _). congruence.
    + intro i. rewrite (Q_peek _ _ _ i (proj1 Y)). auto.
  - exists w, (MD d (nzfrom d k0)). split; auto. split; [apply Qw_refl|]. split; [apply HG|].
    apply MPos_MD; auto; lia.
Qed.

(* ---- the inner loop: r[i, q] += a_ij * b[j, q] for the non-zero b[j, q] ------------- *)
Section RowLoop.
Variable t : nat.
Variable nb : Z.
Variables p i j aij : Z.
Variable B : Z -> Z.
Hypothesis Hp : 0 < p.
Hypothesis Hi : 0 <= i.
Hypothesis Hj : 0 <= j.

Definition rterm (pos i' q' : Z) : Z :=
  if (i =? i') && (pos <=? j * p + q') then aij * B (j * p + q') else 0.

Lemma rowcol_unique i1 q1 i2 q2 : 0 <= q1 < p -> 0 <= q2 < p -> i1 * p + q1 = i2 * p + q2 -> i1 = i2 /\ q1 = q2.
Proof. intros H1 H2 E. assert (i1 = i2) by nia. subst. lia. Qed.

Lemma row_loop_spec : forall fuel w c pos,
  G t w -> (i + 1) * p <= dim (getv w t) -> MPos t nb w c B pos -> j * p <= pos <= (j + 1) * p ->
  (Z.to_nat ((j + 1) * p - pos) < fuel)%nat ->
  exists w', row_loop fuel w t c p p i j aij = Some (w', true) /\ G t w' /\
    length (vecs w') = length (vecs w) /\ (forall u, dim (getv w' u) = dim (getv w u)) /\
    (forall i' q', 0 <= q' < p ->
       peek (hp w') (getv w' t) (i' * p + q') = peek (hp w) (getv w t) (i' * p + q') + rterm pos i' q') /\
    (forall u k, u <> t -> peek (hp w') (getv w' u) k = peek (hp w) (getv w u) k).
Proof.
  induction fuel as [|fu IH]; intros w c pos HG Hd HC Hpos Hf; [lia|].
  assert (Hpos0 : 0 <= pos) by nia.
  cbn [row_loop]. destruct (mi_ok c) eqn:Ok.
  - assert (Ec : mcand c = Some (mi_index c)) by (unfold mcand; rewrite Ok; auto).
    set (k := mi_index c) in *. cbv zeta.
    destruct (MPos_cand t nb w c B pos k HG HC Hpos0 Ec) as (Hk & Eg & NZ & Z0).
    destruct (Z.eqb_spec (k / p) j) as [Ej|Ej]; cbn [negb].
    + (* an entry of row j *)
      destruct (divmod_inv p k Hp) as (Ek & Hq). rewrite Ej in Ek. set (q := k mod p) in *.
      rewrite Eg.
      destruct (acc_step t w (i * p + q) HG ltac:(nia)) as (h' & v' & l & E & Ho & R).
      rewrite E. rewrite Ho.
      set (x := peek (hp w) (getv w t) (i * p + q) + aij * B k).
      destruct (R x) as (G1 & L1 & D1 & P1 & F1 & F2).
      set (w1 := seth (setv w t v') (hset h' l x)) in *.
      assert (C1 : MPos t nb w1 c B pos) by (eapply MPos_frame; eauto).
      destruct (MPos_next t nb w1 c B pos k G1 C1 Ec) as (w2 & c' & E2 & Q2 & I2 & C2).
      rewrite E2.
      assert (G2 : G t w2) by (eapply G_Qw; eauto).
      destruct (IH w2 c' (k + 1) G2) as (w' & E3 & G3 & L3 & D3 & R3 & F3).
      * rewrite (Qw_dim w1 w2 t Q2), D1. auto.
      * exact C2.
      * nia.
      * assert (k + 1 <= (j + 1) * p) by nia. lia.
      * exists w'. split; [exact E3|]. split; [exact G3|].
        split; [rewrite L3; destruct Q2 as (_ & X & _); lia|].
        split; [intro u; rewrite D3, (Qw_dim w1 w2 u Q2); auto|]. split.
        { intros i' q' Hq'. rewrite R3 by auto. rewrite (Qw_peek w1 w2 t _ Q2).
          unfold rterm.
          destruct (Z.eq_dec (i' * p + q') (i * p + q)) as [EE|NE].
          - destruct (rowcol_unique i' q' i q Hq' Hq EE) as (-> & ->).
            rewrite P1. rewrite Z.eqb_refl. cbn [andb].
            replace (pos <=? j * p + q) with true by (symmetry; apply Z.leb_le; lia).
            replace (k + 1 <=? j * p + q) with false by (symmetry; apply Z.leb_gt; lia).
            unfold x. rewrite <- Ek. lia.
          - rewrite (proj1 (F1 _ NE)).
            destruct (Z.eqb_spec i i') as [<-|Ni]; cbn [andb]; [|lia].
            assert (q' <> q) by (intro; subst; lia).
            destruct (Z.leb_spec (k + 1) (j * p + q')); destruct (Z.leb_spec pos (j * p + q')); try lia.
            rewrite (Z0 (j * p + q')) by lia. lia. }
        { intros u k0 N. rewrite F3 by auto. rewrite (Qw_peek w1 w2 u k0 Q2). apply F2. auto. }
    + (* the first entry of a later row: break *)
      exists w. split; [auto|]. split; [auto|]. split; [auto|]. split; [auto|]. split; [|auto].
      intros i' q' Hq'. unfold rterm.
      destruct ((i =? i') && (pos <=? j * p + q')) eqn:Cnd; [|lia].
      apply andb_true_iff in Cnd. destruct Cnd as [_ Cnd]. apply Z.leb_le in Cnd.
      assert (HK : (j + 1) * p <= k).
      { destruct (Z_lt_ge_dec k ((j + 1) * p)) as [LT|GE]; [|lia]. exfalso. apply Ej.
        destruct (divmod_inv p k Hp) as (Ek & Hq). nia. }
      rewrite (Z0 (j * p + q')) by lia. lia.
  - assert (Ec : mcand c = None) by (unfold mcand; rewrite Ok; auto).
    pose proof (MPos_none t nb w c B pos HC Ec) as Z0.
    exists w. split; [auto|]. split; [auto|]. split; [auto|]. split; [auto|]. split; [|auto].
    intros i' q' Hq'. unfold rterm.
    destruct ((i =? i') && (pos <=? j * p + q')) eqn:Cnd; [|lia].
    apply andb_true_iff in Cnd. destruct Cnd as [_ Cnd]. apply Z.leb_le in Cnd.
    rewrite (Z0 (j * p + q')) by lia. lia.
Qed.
End RowLoop.

(* ---- the outer loop over a's non-zero entries ---------------------------------------- *)
Section MdotLoop.
Variable t : nat.
Variables n m p : Z.
Variable ob : operand.
Variable B : Z -> Z.
Hypothesis Hm : 0 < m.
Hypothesis Hp : 0 < p.

Definition mterm (i' q' : Z) (kx : Z * Z) : Z :=
  if fst kx / m =? i' then snd kx * B ((fst kx mod m) * p + q') else 0.

Lemma mdot_loop_spec : forall vis w,
  G t w -> dim (getv w t) = n * p -> op_wk2 t (m * p) w ob -> (forall k, ord w ob k = B k) ->
  (forall k x, In (k, x) vis -> 0 <= k < n * m) ->
  exists w', mdot_loop w t vis ob m p p = Some (w', true) /\ G t w' /\
    length (vecs w') = length (vecs w) /\ (forall u, dim (getv w' u) = dim (getv w u)) /\
    (forall i' q', 0 <= q' < p ->
       peek (hp w') (getv w' t) (i' * p + q') =
       fold_left (fun acc kx => acc + mterm i' q' kx) vis (peek (hp w) (getv w t) (i' * p + q'))) /\
    (forall u k, u <> t -> peek (hp w') (getv w' u) k = peek (hp w) (getv w u) k).
Proof.
  induction vis as [|[k aij] rest IH]; intros w HG Hd HO HB Hv.
  - exists w. simpl. split; [auto|]. split; [auto|]. split; [auto|]. split; [auto|]. split; auto.
  - cbn [mdot_loop]. cbv zeta.
    assert (Hk : 0 <= k < n * m) by (apply (Hv k aij); left; auto).
    destruct (divmod_inv m k Hm) as (Ek & Hj). set (i := k / m) in *. set (j := k mod m) in *.
    assert (Hi : 0 <= i < n) by nia.
    replace (p <=? 0) with false by (symmetry; apply Z.leb_gt; lia).
    destruct (MPos_from2 t (m * p) w ob (j * p) HG HO ltac:(nia)) as (w1 & c & E1 & Q1 & I1 & C1).
    rewrite E1.
    assert (G1 : G t w1) by (eapply G_Qw; eauto).
    assert (C1' : MPos t (m * p) w1 c B (j * p)) by (eapply MPos_ext; [exact HB|exact C1]).
    destruct (row_loop_spec t (m * p) p i j aij B Hp (proj1 Hi) (proj1 Hj) (S (Z.to_nat p)) w1 c (j * p) G1)
      as (w2 & E2 & G2 & L2 & D2 & R2 & F2).
    + rewrite (Qw_dim w w1 t Q1), Hd. nia.
    + exact C1'.
    + nia.
    + replace ((j + 1) * p - j * p) with p by nia. lia.
    + rewrite E2.
      destruct (IH w2 G2) as (w' & E3 & G3 & L3 & D3 & R3 & F3).
      * rewrite D2, (Qw_dim w w1 t Q1). auto.
      * apply (op_wk2_frame t (m * p) w); auto.
        { rewrite L2. destruct Q1 as (_ & X & _). lia. }
        { intro u. rewrite D2. apply (Qw_dim w w1 u Q1). }
      * intro k0. rewrite <- HB. apply ord_same with (t := t); [apply (op_wk2_other t (m * p)); auto|].
        intros u k1 N. rewrite F2 by auto. apply (Qw_peek w w1 u k1 Q1).
      * intros k0 x0 Hin. apply (Hv k0 x0). right. auto.
      * exists w'. split; [exact E3|]. split; [exact G3|].
        split; [rewrite L3, L2; destruct Q1 as (_ & X & _); lia|].
        split; [intro u; rewrite D3, D2; apply (Qw_dim w w1 u Q1)|]. split.
        { intros i' q' Hq'. rewrite R3 by auto. cbn [fold_left]. f_equal.
          rewrite R2 by auto. rewrite (Qw_peek w w1 t _ Q1). f_equal.
          unfold rterm, mterm. cbn [fst snd]. fold i. fold j.
          replace (j * p <=? j * p + q') with true by (symmetry; apply Z.leb_le; lia).
          rewrite andb_true_r. auto. }
        { intros u k0 N. rewrite F3, F2 by auto. apply (Qw_peek w w1 u k0 Q1). }
Qed.
End MdotLoop.

(* ---- storageLocation() ----------------------------------------------------------------- *)
Definition Same4 (w w' : w4) : Prop := sms w' = sms w /\ dms w' = dms w /\ dn (b3 w') = dn (b3 w).
Lemma Same4_refl w : Same4 w w.
Proof. unfold Same4. auto. Qed.
Lemma Same4_trans a b c : Same4 a b -> Same4 b c -> Same4 a c.
Proof. unfold Same4. intros (A1 & A2 & A3) (B1 & B2 & B3). repeat split; congruence. Qed.
Lemma Same4_getsm w w' k : Same4 w w' -> getsm w' k = getsm w k.
Proof. intros (A & _). unfold getsm. rewrite A. auto. Qed.
Lemma Same4_getdm w w' k : Same4 w w' -> getdm w' k = getdm w k.
Proof. intros (_ & A & _). unfold getdm. rewrite A. auto. Qed.
Lemma Same4_mop w w' x : Same4 w w' -> mop w' x = mop w x.
Proof. intro S. destruct x as [k|k]; unfold mop; [rewrite (Same4_getsm w w' k S)|rewrite (Same4_getdm w w' k S)]; auto. Qed.
Lemma Same4_mdims w w' x : Same4 w w' -> mdims w' x = mdims w x.
Proof. intro S. destruct x as [k|k]; unfold mdims; [rewrite (Same4_getsm w w' k S)|rewrite (Same4_getdm w w' k S)]; auto. Qed.
Lemma Same4_mwf w w' x : Same4 w w' -> Fr (sw (b3 w)) (sw (b3 w')) -> mwf w x -> mwf w' x.
Proof.
  intros S (L & D & _). pose proof S as (S1 & S2 & _). destruct x as [k|k]; unfold mwf.
  - unfold sm_ok, hassm. rewrite (Same4_getsm w w' k S), S1. destruct (getsm w k) as [[u r] c].
    intros (A & B & C & H & E). split; [auto|]. split; [auto|]. split; [auto|]. split; [unfold has in *; lia|].
    rewrite D. auto.
  - unfold dm_ok, hasdm. rewrite (Same4_getdm w w' k S), S2. auto.
Qed.

Lemma sloc_spec t w x r c :
  G t (sw (b3 w)) -> mwf w x -> mdims w x = (r, c) -> 0 < r -> 0 < c ->
  exists w' l, sloc w x = Some (w', l) /\ Same4 w w' /\ G t (sw (b3 w')) /\ Fr (sw (b3 w)) (sw (b3 w')) /\
    l = match x with XS k => (true, mvec w k) | XD k => (false, k) end.
Proof.
  intros HG Hx Hd Hr Hc. destruct x as [k|k]; unfold sloc, mwf, mdims, mvec in *.
  - unfold sm_ok in Hx. destruct (getsm w k) as [[u r'] c']. inversion Hd. subst r' c'.
    destruct Hx as (_ & _ & _ & Hu & Du).
    destruct (at_any t (sw (b3 w)) u 0 HG Hu ltac:(nia)) as (h' & v' & l & E & G' & F').
    rewrite E. eexists. eexists. split; [reflexivity|].
    split; [unfold Same4; cbn [setsw setb sets sms dms b3 sw dn]; auto|].
    split; [exact G'|]. split; [exact F'|]. reflexivity.
  - unfold dm_ok in Hx. destruct (getdm w k) as [[d r'] c']. inversion Hd. subst r' c'.
    destruct Hx as (_ & _ & _ & Dd).
    replace (zlen d =? 0) with false by (symmetry; apply Z.eqb_neq; nia).
    exists w. eexists. split; [reflexivity|]. split; [apply Same4_refl|]. split; [exact HG|].
    split; [apply Fr_refl|reflexivity].
Qed.
Lemma same_loc_other w t x :
  mother w t x -> same_loc (true, t) (match x with XS k => (true, mvec w k) | XD k => (false, k) end) = false.
Proof.
  destruct x as [k|k]; unfold same_loc, mother; cbn [fst snd Bool.eqb andb]; auto.
  intro N. apply Nat.eqb_neq. auto.
Qed.

Lemma fold_pair_zs (F : Z * Z -> Z) (g : Z -> Z * Z) : forall L a,
  fold_left (fun acc kx => acc + F kx) (map g L) a = a + zs (fun k => F (g k)) L.
Proof.
  induction L as [|x L IH]; intro a; [simpl; rewrite zs_nil; lia|].
  cbn [map fold_left]. rewrite zs_cons, IH. lia.
Qed.
Lemma mabs_sparse_peek w k t r c :
  getsm w k = (t, r, c) ->
  mabs w (XS k) = map (peek (hp (sw (b3 w))) (getv (sw (b3 w)) t)) (zseq 0 (Z.to_nat (r * c))).
Proof. intro E. unfold mabs, mdims, mrd, mop. rewrite E. reflexivity. Qed.

(* ---- MdotM ------------------------------------------------------------------------------- *)
Lemma step_sparse_mdotm y w k a b n m p :
  GoodM w k -> mwf w a -> mwf w b -> mother w (mvec w k) a -> mother w (mvec w k) b ->
  mdims w (XS k) = (n, p) -> mdims w a = (n, m) -> mdims w b = (m, p) -> 0 < n -> 0 < m -> 0 < p ->
  let r := step4 y w (MdotM (XS k) a b) in
  ok_out4 r /\ same_but_sm w (fst r) (mvec w k) /\ G (mvec w k) (sw (b3 (fst r))) /\
  mabs (fst r) (XS k) = matmul (mabs w a) (mabs w b) n m p.
Proof.
  intros (Hk & HGd) Ha Hb Oa Ob Dk Da Db Hn Hm Hp.
  pose proof (Good_G _ _ HGd) as HG.
  destruct (getsm w k) as [[t r0] c0] eqn:Ek.
  assert (Et : mvec w k = t) by (unfold mvec; rewrite Ek; auto). rewrite Et in *.
  assert (Erc : r0 = n /\ c0 = p) by (unfold mdims in Dk; rewrite Ek in Dk; inversion Dk; auto).
  destruct Erc as (-> & ->).
  assert (Dt : dim (getv (sw (b3 w)) t) = n * p) by (unfold sm_ok in Hk; rewrite Ek in Hk; tauto).
  destruct (mop_info w t a n m Ha Oa Da) as (Oa' & Na & _ & _ & Aa).
  destruct (mop_info w t b m p Hb Ob Db) as (Ob' & Nb & _ & _ & Ab).
  set (s := sw (b3 w)) in *.
  (* the three storageLocation() calls *)
  destruct (sloc_spec t w (XS k) n p HG Hk Dk Hn Hp) as (w1 & l1 & S1 & Q1 & G1 & F1 & El1).
  rewrite Et in El1.
  assert (Ha1 : mwf w1 a) by (eapply Same4_mwf; eauto).
  assert (Da1 : mdims w1 a = (n, m)) by (rewrite (Same4_mdims w w1 a Q1); auto).
  destruct (sloc_spec t w1 a n m G1 Ha1 Da1 Hn Hm) as (w2 & l2 & S2 & Q2 & G2 & F2 & El2).
  assert (Q02 : Same4 w w2) by (eapply Same4_trans; eauto).
  assert (F02 : Fr s (sw (b3 w2))) by (eapply Fr_trans; eauto).
  assert (Hb2 : mwf w2 b) by (eapply Same4_mwf; eauto).
  assert (Db2 : mdims w2 b = (m, p)) by (rewrite (Same4_mdims w w2 b Q02); auto).
  destruct (sloc_spec t w2 b m p G2 Hb2 Db2 Hm Hp) as (w3 & l3 & S3 & Q3 & G3 & F3 & El3).
  assert (Q03 : Same4 w w3) by (eapply Same4_trans; eauto).
  assert (F03 : Fr s (sw (b3 w3))) by (eapply Fr_trans; eauto).
  assert (X2 : same_loc l1 l2 = false).
  { rewrite El1, El2. replace (match a with XS k0 => (true, mvec w1 k0) | XD k0 => (false, k0) end)
      with (match a with XS k0 => (true, mvec w k0) | XD k0 => (false, k0) end).
    - apply same_loc_other. auto.
    - destruct a as [ka|ka]; auto. unfold mvec. rewrite (Same4_getsm w w1 ka Q1). auto. }
  assert (X3 : same_loc l1 l3 = false).
  { rewrite El1, El3. replace (match b with XS k0 => (true, mvec w2 k0) | XD k0 => (false, k0) end)
      with (match b with XS k0 => (true, mvec w k0) | XD k0 => (false, k0) end).
    - apply same_loc_other. auto.
    - destruct b as [kb|kb]; auto. unfold mvec. rewrite (Same4_getsm w w2 kb Q02). auto. }
  cbn [step4]. rewrite Dk, Da, Db. cbv beta iota zeta. rewrite !Z.eqb_refl. cbn [andb negb].
  rewrite Ek, S1, S2, X2, S3, X3.
  rewrite (Same4_mop w w3 a Q03), (Same4_mop w w3 b Q03).
  set (s3 := sw (b3 w3)) in *. destruct F03 as (L3 & D3 & P3).
  (* the reset *)
  destruct (own_map_spec t (fun _ _ => 0) (fun _ => 0) s3 G3) as (s0 & E0 & G0 & L0 & D0 & R0 & F0); [auto|].
  rewrite E0.
  assert (L00 : length (vecs s0) = length (vecs s)) by lia.
  assert (D00 : forall u, dim (getv s0 u) = dim (getv s u)) by (intro u; rewrite D0; auto).
  assert (P00 : forall u i, u <> t -> peek (hp s0) (getv s0 u) i = peek (hp s) (getv s u) i)
    by (intros u i N; rewrite F0 by auto; auto).
  assert (Z00 : forall i, peek (hp s0) (getv s0 t) i = 0) by (intro i; rewrite R0; destruct (_ =? 0); auto).
  (* a's visit list *)
  assert (Oa0 : op_other t s0 (mop w a)) by (eapply op_other_len; eauto).
  destruct (mvisits_nzvis t s0 (mop w a) G0 Oa0) as (sA & EA & QA & GA).
  rewrite EA.
  set (A0 := ord s0 (mop w a)).
  assert (NA0 : op_dim s0 (mop w a) = n * m) by (rewrite (op_dim_same s s0); auto).
  set (B1 := ord sA (mop w b)).
  assert (Ob1 : op_wk2 t (m * p) sA (mop w b)).
  { destruct (mop w b) as [u|d]; simpl in *.
    - destruct Ob' as (N & Hu). split; [auto|]. split.
      + destruct QA as (_ & X & _). unfold has in *. lia.
      + rewrite (Qw_dim s0 sA u QA), D00. auto.
    - unfold zlen. lia. }
  destruct (mdot_loop_spec t n m p (mop w b) B1 Hm Hp (nzvis s0 (mop w a)) sA GA) as
    (s' & E' & G' & L' & D' & R' & F').
  { rewrite (Qw_dim s0 sA t QA), D00. auto. }
  { exact Ob1. }
  { auto. }
  { intros k0 x0 Hin. apply nzvis_In in Hin. lia. }
  rewrite E'. unfold liftm, ok_out4. cbn [fst snd].
  assert (L0' : length (vecs s') = length (vecs s)) by (rewrite L'; destruct QA as (_ & X & _); lia).
  assert (D0' : forall u, dim (getv s' u) = dim (getv s u))
    by (intro u; rewrite D', (Qw_dim s0 sA u QA); auto).
  assert (P0' : forall u i, u <> t -> peek (hp s') (getv s' u) i = peek (hp s) (getv s u) i).
  { intros u i N. rewrite F' by auto. rewrite (Qw_peek s0 sA u i QA). auto. }
  destruct Q03 as (M1 & M2 & M3).
  split; [reflexivity|]. split; [|split; [exact G'|]].
  - unfold same_but_sm. cbn [setsw setb sets sms dms b3 sw dn]. fold s.
    split; [auto|]. split; [auto|]. split; [auto|]. split; [exact L0'|]. split; [exact D0'|].
    intros u N. rewrite (sabs_peek s' u _ (D0' u)), (sabs_peek s u _ eq_refl).
    apply map_ext. intro i. apply P0'. auto.
  - rewrite (mabs_sparse_peek _ k t n p).
    2:{ unfold getsm. cbn [setsw setb sets sms]. rewrite M1. exact Ek. }
    cbn [setsw setb sets b3 sw]. unfold matmul. apply map_ext_in. intros kk Hkk. apply zseq_In in Hkk.
    destruct (divmod_inv p kk Hp) as (Ekk & Hq). set (i' := kk / p) in *. set (q' := kk mod p) in *.
    assert (Hi' : 0 <= i' < n) by nia.
    rewrite Ekk at 1. rewrite R' by auto. rewrite (Qw_peek s0 sA t _ QA), Z00.
    rewrite nzvis_ord. fold A0. rewrite (fold_pair_zs (mterm m p B1 i' q') (fun k0 => (k0, A0 k0))).
    unfold mterm. cbn [fst snd]. rewrite NA0.
    rewrite (zs_vis_rows A0 (fun j => B1 (j * p + q')) n m i') by lia.
    rewrite zsum_zs, Z.add_0_l. apply zs_ext_in. intros j Hj. apply zseq_In in Hj.
    rewrite Aa, Ab, !lat_map_zseq by nia. f_equal.
    + unfold A0. apply ord_same with (t := t); auto.
    + unfold B1. rewrite (ord_Qw s0 sA _ _ QA). apply ord_same with (t := t); auto.
Qed.

(* ---- Outer ------------------------------------------------------------------------------- *)
(* a ConstIterator sequence of a vector: every entry is (k, v_k); every non-zero v_k is there *)
Definition Vis (V : Z -> Z) (N : Z) (l : list (Z * Z)) : Prop :=
  (forall k x, In (k, x) l -> 0 <= k < N /\ x = V k) /\ (forall k, 0 <= k < N -> In (k, V k) l \/ V k = 0).
Lemma Vis_ext V V' N N' l : (forall k, V k = V' k) -> N = N' -> Vis V N l -> Vis V' N' l.
Proof.
  intros E <- (A & B). split.
  - intros k x Hin. rewrite <- E. auto.
  - intros k Hk. rewrite <- E. auto.
Qed.
Lemma vvisits_Vis t w o :
  G t w -> op_other t w o ->
  exists w' vis, vvisits w o = Some (w', vis) /\ Qw w w' /\ G t w' /\ Vis (ord w o) (op_dim w o) vis.
Proof.
  intros HG Ho. destruct (vvisits_spec t w o HG Ho) as (w' & vis & E & Q1 & G1 & V).
  exists w', vis. split; [exact E|]. split; [exact Q1|]. split; [exact G1|]. subst vis.
  destruct o as [u|d].
  - fold (nzvis w (OS u)). split.
    + intros k x Hin. apply nzvis_In in Hin. destruct Hin as (A & B & _). auto.
    + intros k Hk. destruct (Z.eq_dec (ord w (OS u) k) 0) as [Z0|NZ]; [right; auto|left].
      apply nzvis_In. auto.
  - rewrite (combine_zseq_ord w d). cbn [op_dim]. split.
    + intros k x Hin. apply in_map_iff in Hin. destruct Hin as (k0 & Ek & Hk). inversion Ek. subst.
      apply zseq_In in Hk. split; [lia|auto].
    + intros k Hk. left. apply in_map_iff. exists k. split; [auto|]. apply zseq_In. lia.
Qed.
(* "last write wins": every write to position kk stores v, and there is one unless v is what was there *)
Lemma lw_fold kk v init : forall L,
  (forall k x, In (k, x) L -> k = kk -> x = v) -> (In (kk, v) L \/ v = init) ->
  fold_left (fun acc (kx : Z * Z) => if fst kx =? kk then snd kx else acc) L init = v.
Proof.
  induction L as [|[k x] L IH] using rev_ind; intros H1 H2.
  - simpl. destruct H2 as [[]|H2]; auto.
  - rewrite fold_left_app. cbn [fold_left fst snd].
    destruct (Z.eqb_spec k kk) as [E|N].
    + apply (H1 k x); auto. apply in_or_app. right. left. auto.
    + apply IH.
      * intros k0 x0 Hin. apply H1. apply in_or_app. left. auto.
      * destruct H2 as [H2|H2]; [|auto]. apply in_app_or in H2. destruct H2 as [H2|[H2|[]]]; [auto|].
        inversion H2. congruence.
Qed.

Lemma step_sparse_mouter y w k a b n m :
  GoodM w k -> vwf w a -> vwf w b -> vother (mvec w k) a -> vother (mvec w k) b ->
  mdims w (XS k) = (n, m) -> vlen w a = n -> vlen w b = m ->
  let r := step4 y w (MOuter (XS k) a b) in
  ok_out4 r /\ same_but_sm w (fst r) (mvec w k) /\ G (mvec w k) (sw (b3 (fst r))) /\
  mabs (fst r) (XS k) = outer (abs3 (b3 w) a) (abs3 (b3 w) b) n m.
Proof.
  intros (Hk & HGd) Ha Hb Oa Ob Dk Da Db.
  pose proof (Good_G _ _ HGd) as HG.
  destruct (getsm w k) as [[t r0] c0] eqn:Ek.
  assert (Et : mvec w k = t) by (unfold mvec; rewrite Ek; auto). rewrite Et in *.
  assert (Erc : r0 = n /\ c0 = m) by (unfold mdims in Dk; rewrite Ek in Dk; inversion Dk; auto).
  destruct Erc as (-> & ->).
  assert (Hnm : 0 <= n /\ 0 <= m /\ dim (getv (sw (b3 w)) t) = n * m) by (unfold sm_ok in Hk; rewrite Ek in Hk; tauto).
  destruct Hnm as (Hn & Hm & Dt).
  destruct (vop_info w t a n Ha Oa Da) as (Oa' & Na & Aa).
  destruct (vop_info w t b m Hb Ob Db) as (Ob' & Nb & Ab).
  cbn [step4]. rewrite Ek. cbv beta iota zeta. rewrite Da, Db, !Z.eqb_refl. cbn [andb negb].
  set (s := sw (b3 w)) in *. set (oa := vop_of w a) in *. set (ob := vop_of w b) in *.
  set (A := ord s oa). set (Bv := ord s ob).
  (* the reset *)
  destruct (own_map_spec t (fun _ _ => 0) (fun _ => 0) s HG) as (s1 & E1 & G1 & L1 & D1 & R1 & F1); [auto|].
  rewrite E1.
  assert (Z1 : forall i, peek (hp s1) (getv s1 t) i = 0) by (intro i; rewrite R1; destruct (_ =? 0); auto).
  (* a's sequence *)
  assert (Oa1 : op_other t s1 oa) by (eapply op_other_len; eauto).
  destruct (vvisits_Vis t s1 oa G1 Oa1) as (s2 & va & E2 & Q2 & G2 & VA0).
  rewrite E2.
  assert (VA : Vis A n va).
  { eapply Vis_ext; [| |exact VA0].
    - intro i. apply ord_same with (t := t); auto.
    - rewrite (op_dim_same s s1); auto. }
  (* b's sequence, if a's is not empty *)
  assert (Ob2 : op_other t s2 ob).
  { eapply op_other_len; [exact Ob'|]. destruct Q2 as (_ & X & _). lia. }
  assert (HB : exists s3 vb, (match va with [] => Some (s2, []) | _ :: _ => vvisits s2 ob end) = Some (s3, vb) /\
                             Qw s2 s3 /\ G t s3 /\ (va <> [] -> Vis Bv m vb)).
  { destruct (vvisits_Vis t s2 ob G2 Ob2) as (s3 & vb & E3 & Q3 & G3 & VB0).
    destruct va as [|ip va'].
    - exists s2, []. split; [auto|]. split; [apply Qw_refl|]. split; [auto|]. intro X. exfalso. apply X. auto.
    - exists s3, vb. split; [exact E3|]. split; [exact Q3|]. split; [exact G3|]. intros _.
      eapply Vis_ext; [| |exact VB0].
      + intro i. rewrite (ord_Qw s1 s2 ob i Q2). apply ord_same with (t := t); auto.
      + rewrite (op_dim_same s1 s2) by (intro u; apply (Qw_dim s1 s2 u Q2)).
        rewrite (op_dim_same s s1); auto. }
  destruct HB as (s3 & vb & E3 & Q3 & G3 & VB).
  rewrite E3.
  set (kxs := flat_map (fun ip : Z * Z => map (fun jq : Z * Z => (fst ip * m + fst jq, snd ip * snd jq)) vb) va).
  assert (Q13 : Qw s1 s3) by (eapply Qw_trans; eauto).
  assert (IN : forall key x, In (key, x) kxs ->
            exists ia jb, 0 <= ia < n /\ 0 <= jb < m /\ key = ia * m + jb /\ x = A ia * Bv jb).
  { intros key x Hin. unfold kxs in Hin. apply in_flat_map in Hin. destruct Hin as ([ia xa] & Hia & Hin).
    apply in_map_iff in Hin. destruct Hin as ([jb xb] & Ekx & Hjb). cbn [fst snd] in Ekx. inversion Ekx.
    assert (NE : va <> []) by (intro X; rewrite X in Hia; destruct Hia).
    destruct (proj1 VA ia xa Hia) as (X1 & X2). destruct (proj1 (VB NE) jb xb Hjb) as (Y1 & Y2).
    exists ia, jb. subst. auto. }
  destruct (acc_loop_spec t (fun _ x => x) kxs s3 G3) as (s4 & E4 & G4 & L4 & D4 & R4 & F4).
  { intros key x Hin. destruct (IN key x Hin) as (ia & jb & X1 & Y1 & -> & _).
    rewrite (Qw_dim s1 s3 t Q13), D1, Dt. nia. }
  rewrite E4. unfold liftm2, ok_out4. cbn [fst snd].
  assert (L04 : length (vecs s4) = length (vecs s)) by (rewrite L4; destruct Q13 as (_ & X & _); lia).
  assert (D04 : forall u, dim (getv s4 u) = dim (getv s u)) by (intro u; rewrite D4, (Qw_dim s1 s3 u Q13); auto).
  assert (P04 : forall u i, u <> t -> peek (hp s4) (getv s4 u) i = peek (hp s) (getv s u) i).
  { intros u i N. rewrite F4 by auto. rewrite (Qw_peek s1 s3 u i Q13). auto. }
  split; [reflexivity|]. split; [|split; [exact G4|]].
  - unfold same_but_sm. cbn [setsw setb sets sms dms b3 sw dn]. fold s.
    split; [auto|]. split; [auto|]. split; [auto|]. split; [exact L04|]. split; [exact D04|].
    intros u N. rewrite (sabs_peek s4 u _ (D04 u)), (sabs_peek s u _ eq_refl).
    apply map_ext. intro i. apply P04. auto.
  - rewrite (mabs_sparse_peek _ k t n m) by exact Ek.
    cbn [setsw setb sets b3 sw]. unfold outer. apply map_ext_in. intros kk Hkk. apply zseq_In in Hkk.
    assert (Hm' : 0 < m) by nia.
    destruct (divmod_inv m kk Hm') as (Ekk & Hj). set (i := kk / m) in *. set (j := kk mod m) in *.
    assert (Hi : 0 <= i < n) by nia.
    rewrite Aa, Ab, !lat_map_zseq by lia. fold A. fold Bv.
    rewrite R4. rewrite (Qw_peek s1 s3 t kk Q13), Z1.
    apply lw_fold.
    + intros key x Hin Ekey. destruct (IN key x Hin) as (ia & jb & X1 & Y1 & Ek' & ->).
      assert (ia * m + jb = i * m + j) by lia.
      destruct (rowcol_unique m Hm' ia jb i j Y1 Hj H) as (-> & ->). auto.
    + destruct (proj2 VA i Hi) as [InA|ZA]; [|right; rewrite ZA; lia].
      assert (NE : va <> []) by (intro X; rewrite X in InA; destruct InA).
      destruct (proj2 (VB NE) j Hj) as [InB|ZB]; [|right; rewrite ZB; lia].
      left. rewrite Ekk. unfold kxs. apply in_flat_map. exists (i, A i). split; [exact InA|].
      apply in_map_iff. exists (j, Bv j). split; [reflexivity|exact InB].
Qed.
