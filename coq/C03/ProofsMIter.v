(* C03 — matrices: the operand iterators of the MATRIX joint iterators behind one
   interface (the twin of CPos in ProofsSem.v).  A sparse operand iterator is
   the vector one; a DENSE MATRIX iterator skips zero elements: it stands on
   the first position >= p holding a non-zero (nzfrom), or beyond the end. *)
From Coq Require Import ZArith List Bool Lia Sorted.
From ADV Require Import C11.Model C11.Spec C11.ProofsMap C11.ProofsIter C11.ProofsInv C11.ProofsRef
                        C03.Model C03.Spec C03.ProofsDense C03.ProofsSem C03.ProofsJoint C03.ModelM.
Import ListNotations.
Open Scope Z_scope.

(* ---- nzfrom ------------------------------------------------------------------------ *)
Lemma find_zseq (P : Z -> bool) : forall n a,
  match List.find P (zseq a n) with
  | Some k => a <= k < a + Z.of_nat n /\ P k = true /\ forall i, a <= i < k -> P i = false
  | None => forall i, a <= i < a + Z.of_nat n -> P i = false
  end.
Proof.
  induction n as [|n IH]; intro a; simpl; [intros; lia|].
  destruct (P a) eqn:E.
  - split; [lia|]. split; [auto|]. intros; lia.
  - specialize (IH (a + 1)). destruct (List.find P (zseq (a + 1) n)) as [k|].
    + destruct IH as (A & B & C). split; [lia|]. split; [auto|].
      intros i Hi. destruct (Z.eq_dec i a) as [->|N]; auto. apply C. lia.
    + intros i Hi. destruct (Z.eq_dec i a) as [->|N]; auto. apply IH. lia.
Qed.

Lemma nzfrom_spec d p :
  p <= nzfrom d p /\
  (forall i, p <= i < nzfrom d p -> nth (Z.to_nat i) d 0 = 0) /\
  (nzfrom d p < zlen d -> nth (Z.to_nat (nzfrom d p)) d 0 <> 0) /\
  (zlen d <= nzfrom d p -> forall i, 0 <= p <= i -> nth (Z.to_nat i) d 0 = 0).
Proof.
  unfold nzfrom.
  pose proof (find_zseq (fun k => negb (nth (Z.to_nat k) d 0 =? 0)) (Z.to_nat (zlen d - p)) p) as F.
  destruct (List.find _ _) as [k|].
  - destruct F as (A & B & C).
    assert (C' : forall i, p <= i < k -> nth (Z.to_nat i) d 0 = 0).
    { intros i Hi. specialize (C i Hi). apply negb_false_iff in C. apply Z.eqb_eq in C. auto. }
    split; [lia|]. split; [exact C'|]. split.
    + intros _. apply negb_true_iff in B. apply Z.eqb_neq in B. auto.
    + intros H i Hi. lia.
  - assert (F' : forall i, p <= i < p + Z.of_nat (Z.to_nat (zlen d - p)) -> nth (Z.to_nat i) d 0 = 0).
    { intros i Hi. specialize (F i Hi). apply negb_false_iff in F. apply Z.eqb_eq in F. auto. }
    assert (ZZ : forall i, 0 <= p <= i -> nth (Z.to_nat i) d 0 = 0).
    { intros i Hi. destruct (Z_lt_ge_dec i (zlen d)) as [L|L].
      - apply F'. lia.
      - apply nth_overflow. unfold zlen in L. lia. }
    split; [lia|]. split.
    + intros i Hi. destruct (Z_lt_ge_dec i (zlen d)) as [L|L].
      * apply F'. lia.
      * apply nth_overflow. unfold zlen in L. lia.
    + split; [lia|]. intros _. exact ZZ.
Qed.

(* ---- IteratorFrom ------------------------------------------------------------------- *)
Lemma sset_split_ge k : forall l, sset l ->
  exists pre rest, l = pre ++ rest /\ (forall x, In x pre -> x < k) /\ (forall x, In x rest -> k <= x) /\
                   first_ge k l = hd_error rest.
Proof.
  induction l as [|x l IH]; intro Hs.
  - exists [], []. simpl. repeat split; auto; intros y [].
  - apply sset_cons in Hs. destruct Hs as [Hs Hf]. rewrite Forall_forall in Hf.
    destruct (k <=? x) eqn:E.
    + apply Z.leb_le in E. exists [], (x :: l). simpl. repeat split; auto.
      * intros y [].
      * intros y [<-|Hy]; auto. apply Hf in Hy. lia.
      * unfold first_ge. simpl. apply Z.leb_le in E. rewrite E. auto.
    + destruct (IH Hs) as (pre & rest & A & B & C & D).
      exists (x :: pre), rest. simpl. repeat split; auto.
      * rewrite A. auto.
      * apply Z.leb_gt in E. intros y [<-|Hy]; auto.
      * unfold first_ge in *. simpl. rewrite E. auto.
Qed.
Lemma it_from_pos h v k :
  Inv v -> exists v' c', it_from h v k = Some (v', c') /\ QS h v v' /\ Inv v' /\ Pos h v' c' k.
Proof.
  intro HI. unfold it_from.
  destruct (sset_split_ge k (idx v)) as (pre & rest & A & B & C & D); [apply HI|].
  rewrite D. apply (skip_pos h rest pre v (sfuel v) k); auto.
  unfold sfuel. rewrite A, app_length. lia.
Qed.

(* ---- operand iterators behind one interface ------------------------------------------ *)
Definition mcand (c : miter) : option Z := if mi_ok c then Some (mi_index c) else None.

Section MOperand.
Variable t : nat.
Variable n : Z.

Definition MPos (w : world) (c : miter) (V : Z -> Z) (p : Z) : Prop :=
  match c with
  | MS u cur => u <> t /\ has w u /\ dim (getv w u) = n /\
                (forall i, peek (hp w) (getv w u) i = V i) /\ Pos (hp w) (getv w u) cur p
  | MD d pos => zlen d <= n /\ (forall i, 0 <= i -> nth (Z.to_nat i) d 0 = V i) /\ 0 <= pos /\
                (pos < zlen d -> p <= pos /\ V pos <> 0 /\ forall i, p <= i < pos -> V i = 0) /\
                (zlen d <= pos -> forall i, p <= i -> V i = 0)
  end.

Lemma MPos_cand w c V p k :
  G t w -> MPos w c V p -> 0 <= p -> mcand c = Some k ->
  p <= k < n /\ mi_get w c = Some (V k) /\ V k <> 0 /\ forall i, p <= i < k -> V i = 0.
Proof.
  intros HG HC Hp. unfold mcand. destruct c as [u cur|d pos]; simpl in *.
  - destruct cur as [k0|]; [|discriminate]. intro E. inversion E. subst k0.
    destruct HC as (N & Hu & Hd & HV & (P1 & P2 & P3)).
    destruct (nonnull_lookup _ _ _ P2) as (l & L & NZ). rewrite L.
    assert (In k (idx (getv w u))). { destruct HG as (A & _). destruct (A u) as (_ & _ & H & _). eauto. }
    assert (0 <= k < dim (getv w u)). { destruct HG as (A & _). destruct (A u) as (_ & _ & _ & H' & _). auto. }
    assert (EV : hget (hp w) l = V k) by (rewrite <- HV; unfold peek; rewrite L; auto).
    split; [lia|]. split; [rewrite EV; auto|]. split; [rewrite <- EV; auto|].
    intros i Hi. rewrite <- HV. auto.
  - destruct HC as (Hd & HV & H0 & H1 & H2).
    destruct (pos <? zlen d) eqn:E; [|discriminate]. apply Z.ltb_lt in E.
    intro E'. inversion E'. subst k. destruct (H1 E) as (A & B & C).
    split; [lia|]. split; [rewrite HV; auto|]. split; auto.
Qed.
Lemma MPos_none w c V p : MPos w c V p -> mcand c = None -> forall i, p <= i -> V i = 0.
Proof.
  unfold mcand. destruct c as [u cur|d pos]; simpl.
  - destruct cur; [discriminate|]. intros (_ & _ & _ & HV & P) _ i Hi. rewrite <- HV. auto.
  - intros (Hd & HV & H0 & H1 & H2).
    destruct (pos <? zlen d) eqn:E; [discriminate|]. apply Z.ltb_ge in E. auto.
Qed.
Lemma MPos_Qw w w' c V p : MPos w c V p -> Qw w w' -> MPos w' c V p.
Proof.
  intros HC (E1 & E2 & E3). destruct c as [u cur|d pos]; simpl in *; auto.
  destruct HC as (N & Hu & Hd & HV & P). destruct (E3 u) as (HQ & _). rewrite E1.
  repeat split; auto.
  - unfold has in *. lia.
  - destruct HQ as (_ & _ & D). congruence.
  - intro i. rewrite (Q_peek _ _ _ i HQ). auto.
  - eapply Pos_Q; eauto.
Qed.
Lemma MPos_weaken w c V p p' :
  MPos w c V p -> p <= p' -> (forall k, mcand c = Some k -> p' <= k) -> MPos w c V p'.
Proof.
  unfold mcand. destruct c as [u cur|d pos]; simpl.
  - intros (N & Hu & Hd & HV & P) Hp Hk. repeat split; auto.
    eapply Pos_weaken; eauto. intros k E. apply Hk. subst. auto.
  - intros (Hd & HV & H0 & H1 & H2) Hp Hk.
    split; [auto|]. split; [auto|]. split; [auto|]. split.
    + intro H. destruct (H1 H) as (A & B & C). split.
      * apply Hk. apply Z.ltb_lt in H. rewrite H. auto.
      * split; [auto|]. intros i Hi. apply C. lia.
    + intros H i Hi. apply H2; auto. lia.
Qed.
Lemma MPos_MD d p V :
  zlen d <= n -> 0 <= p -> (forall i, 0 <= i -> nth (Z.to_nat i) d 0 = V i) ->
  forall w, MPos w (MD d (nzfrom d p)) V p.
Proof.
  intros Hd Hp HV w. destruct (nzfrom_spec d p) as (A & B & C & D). simpl.
  split; [auto|]. split; [auto|]. split; [lia|]. split.
  - intro H. split; [auto|]. split; [rewrite <- HV by lia; auto|].
    intros i Hi. rewrite <- HV by lia. auto.
  - intros H i Hi. rewrite <- HV by lia. apply D; [auto|lia].
Qed.
Lemma MPos_next w c V p k :
  G t w -> MPos w c V p -> mcand c = Some k ->
  exists w' c', mi_next w c = Some (w', c') /\ Qw w w' /\ AInv w' /\ MPos w' c' V (k + 1).
Proof.
  intros HG HC. unfold mcand. destruct c as [u cur|d pos]; simpl in *.
  - destruct cur as [k0|]; [|discriminate]. intro E. inversion E. subst k0.
    destruct HC as (N & Hu & Hd & HV & P). destruct HG as (A & _).
    destruct (it_next_pos (hp w) (getv w u) k (A u)) as (v' & c' & X & Y & Z1 & Z2).
    rewrite X. exists (setv w u v'), (MS u c'). split; auto.
    assert (HQw : Qw w (setv w u v')) by (apply Qw_setv; auto).
    split; auto. split; [apply AInv_setv; auto|].
    simpl. rewrite getv_setv_eq by auto. repeat split; auto.
    + apply has_setv. auto.
    + destruct Y as ((_ & _ & D) & _). congruence.
    + intro i. rewrite (Q_peek _ _ _ i (proj1 Y)). auto.
  - destruct HC as (Hd & HV & H0 & H1 & H2).
    destruct (pos <? zlen d) eqn:E; [|discriminate]. intro E'. inversion E'. subst k.
    exists w, (MD d (nzfrom d (pos + 1))). split; auto. split; [apply Qw_refl|]. split; [apply HG|].
    apply MPos_MD; auto. lia.
Qed.
Lemma MPos_begin w o :
  G t w -> operand_wk w t o -> dim (getv w t) = n ->
  exists w' c, mi_begin w o = Some (w', c) /\ Qw w w' /\ AInv w' /\ MPos w' c (ord w o) 0.
Proof.
  intros HG HO Hn. destruct o as [u|d]; simpl in *.
  - destruct HO as (N & Hu & Hd). destruct HG as (A & _).
    destruct (it_begin_pos (hp w) (getv w u) (A u)) as (v' & c' & X & Y & Z1 & Z2).
    rewrite X. exists (setv w u v'), (MS u c'). split; auto.
    split; [apply Qw_setv; auto|]. split; [apply AInv_setv; auto|].
    simpl. rewrite getv_setv_eq by auto. repeat split; auto.
    + apply has_setv. auto.
    + destruct Y as ((_ & _ & D) & _). congruence.
    + intro i. rewrite (Q_peek _ _ _ i (proj1 Y)). auto.
  - exists w, (MD d (nzfrom d 0)). split; auto. split; [apply Qw_refl|]. split; [apply HG|].
    apply MPos_MD; auto; lia.
Qed.
Lemma MPos_from w o k0 :
  G t w -> operand_wk w t o -> dim (getv w t) = n -> 0 <= k0 ->
  exists w' c, mi_from w o k0 = Some (w', c) /\ Qw w w' /\ AInv w' /\ MPos w' c (ord w o) k0.
Proof.
  intros HG HO Hn Hk. destruct o as [u|d]; simpl in *.
  - destruct HO as (N & Hu & Hd). destruct HG as (A & _).
    destruct (it_from_pos (hp w) (getv w u) k0 (A u)) as (v' & c' & X & Y & Z1 & Z2).
    rewrite X. exists (setv w u v'), (MS u c'). split; auto.
    split; [apply Qw_setv; auto|]. split; [apply AInv_setv; auto|].
    simpl. rewrite getv_setv_eq by auto. repeat split; auto.
    + apply has_setv. auto.
    + destruct Y as ((_ & _ & D) & _). congruence.
    + intro i. rewrite (Q_peek _ _ _ i (proj1 Y)). auto.
  - exists w, (MD d (nzfrom d k0)). split; auto. split; [apply Qw_refl|]. split; [apply HG|].
    apply MPos_MD; auto; lia.
Qed.
Lemma MPos_ext w c V V' p : (forall i, V i = V' i) -> MPos w c V p -> MPos w c V' p.
Proof.
  intro E. destruct c as [u cur|d pos]; simpl.
  - intros (N & Hu & Hd & HV & P). repeat split; auto. intro i. rewrite <- E. auto.
  - intros (Hd & HV & H0 & H1 & H2). split; [auto|]. split; [intros i Hi; rewrite <- E; auto|].
    split; [auto|]. split.
    + intro H. destruct (H1 H) as (X & Y & Z1). split; auto. split; [rewrite <- E; auto|].
      intros i Hi. rewrite <- E. auto.
    + intros H i Hi. rewrite <- E. auto.
Qed.
(* an operand's iterator does not see the receiver's write *)
Lemma MPos_frame w w1 c V p :
  length (vecs w1) = length (vecs w) -> (forall u, dim (getv w1 u) = dim (getv w u)) ->
  (forall u k, u <> t -> peek (hp w1) (getv w1 u) k = peek (hp w) (getv w u) k /\
                         isnull (hp w1) (getv w1 u) k = isnull (hp w) (getv w u) k) ->
  MPos w c V p -> MPos w1 c V p.
Proof.
  intros Hl Hd Hf. destruct c as [u cur|d pos]; simpl; auto.
  intros (N & Hu & Hdim & HV & P). split; [auto|]. split; [unfold has in *; lia|].
  split; [rewrite Hd; auto|]. split.
  - intro i. rewrite (proj1 (Hf u i N)). auto.
  - eapply Pos_ext; [|exact P]. intro k. apply Hf. auto.
Qed.

(* "advance if it delivered" *)
Definition madvc (w : world) (s : option Z) (c : miter) : option (world * miter) :=
  match s with Some _ => mi_next w c | None => Some (w, c) end.
Lemma madvc_spec w c V p i s :
  G t w -> MPos w c V p -> p <= i ->
  (s <> None -> mcand c = Some i) -> (s = None -> forall k, mcand c = Some k -> i < k) ->
  exists w1 c', madvc w s c = Some (w1, c') /\ Qw w w1 /\ AInv w1 /\ MPos w1 c' V (i + 1).
Proof.
  intros HG HC Hp H1 H2. unfold madvc. destruct s as [x|].
  - apply (MPos_next w c V p i); auto. apply H1. discriminate.
  - exists w, c. split; auto. split; [apply Qw_refl|]. split; [apply HG|].
    eapply MPos_weaken; eauto; [lia|]. intros k Hk. specialize (H2 eq_refl k Hk). lia.
Qed.
End MOperand.
