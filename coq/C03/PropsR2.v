(* C03 — property theorems, round 2 (statements only; proofs in ProofsAlias*.v,
   ProofsDiv.v, ProofsH.v).  Continues Props.v (sections A-E); matrices: PropsM.v. *)
From Coq Require Import ZArith List Bool Lia.
From ADV Require Import C11.Model C11.Spec C11.Dense C03.Model C03.Spec C03.ProofsDense C03.ProofsSem C03.ProofsJoint
                        C03.ProofsOps C03.ProofsAlias C03.ProofsAlias2 C03.ProofsDiv C03.SpecH C03.ProofsH.
Import ListNotations.
Open Scope Z_scope.

(* ---- F. a sparse receiver that is ALSO an operand ---------------------------------
   r.Op(a, b) with r = a, r = b or r = a = b (operand3a: ANY vector of the
   receiver's dimension, the receiver included): the result is the textbook
   element-wise one computed from the values r held BEFORE the call — the same
   formula as for separate operands (the sparse_receiver_... theorems of Props.v), so aliasing the
   receiver changes nothing. *)
(* the key fact: the joint iterator reads an entry before the loop body writes
   it.  An operand iterator over the receiver's own vector t standing at "first
   non-null position >= i+1", with values V on positions > i, is not disturbed
   by the body's write to position i *)
Theorem joint_iterator_reads_before_write : forall t n w w1 c V i,
  length (vecs w1) = length (vecs w) ->
  (forall u, dim (getv w1 u) = dim (getv w u)) ->
  (forall k, k <> i -> peek (hp w1) (getv w1 t) k = peek (hp w) (getv w t) k /\
                       isnull (hp w1) (getv w1 t) k = isnull (hp w) (getv w t) k) ->
  (forall u k, u <> t -> peek (hp w1) (getv w1 u) k = peek (hp w) (getv w u) k /\
                         isnull (hp w1) (getv w1 u) k = isnull (hp w) (getv w u) k) ->
  CPosG t n w c V (i + 1) -> CPosG t n w1 c V (i + 1).
Proof. exact joint3_reads_before_write. Qed.
Theorem aliased_receiver_elementwise : forall y f w t a b,
  Good3 w t -> operand3a w t a -> operand3a w t b ->
  let r := step3 y w (VopV f (RS t) a b) in
  ok_out r /\ same_but_s w (fst r) t /\ G t (sw (fst r)) /\
  abs3 (fst r) (RS t) = map2 (bop_f f) (abs3 w a) (abs3 w b).
Proof. exact step_sparse_vopv_alias. Qed.
Theorem aliased_receiver_division : forall y w t a b,
  Good3 w t -> operand3a w t a -> operand3a w t b -> nonzero_all (abs3 w b) ->
  let r := step3 y w (VdivV (RS t) a b) in
  ok_out r /\ same_but_s w (fst r) t /\ G t (sw (fst r)) /\
  abs3 (fst r) (RS t) = map2 Z.quot (abs3 w a) (abs3 w b).
Proof. exact step_sparse_vdivv_alias. Qed.
Theorem aliased_receiver_adds : forall y w t a c,
  Good3 w t -> operand3a w t a ->
  let r := step3 y w (VaddS (RS t) a c) in
  ok_out r /\ same_but_s w (fst r) t /\ G t (sw (fst r)) /\
  abs3 (fst r) (RS t) = map (fun x => x + c) (abs3 w a).
Proof. exact step_sparse_vadds_alias. Qed.
Theorem aliased_receiver_subs : forall y w t a c,
  Good3 w t -> operand3a w t a ->
  let r := step3 y w (VsubS (RS t) a c) in
  ok_out r /\ same_but_s w (fst r) t /\ G t (sw (fst r)) /\
  abs3 (fst r) (RS t) = map (fun x => x - c) (abs3 w a).
Proof. exact step_sparse_vsubs_alias. Qed.
Theorem aliased_receiver_muls : forall y w t a c,
  Good3 w t -> operand3a w t a ->
  let r := step3 y w (VmulS (RS t) a c) in
  ok_out r /\ same_but_s w (fst r) t /\ G t (sw (fst r)) /\
  abs3 (fst r) (RS t) = map (fun x => x * c) (abs3 w a).
Proof. exact step_sparse_vmuls_alias. Qed.
Theorem aliased_receiver_divs : forall y w t a c,
  Good3 w t -> operand3a w t a -> c <> 0 ->
  let r := step3 y w (VdivS (RS t) a c) in
  ok_out r /\ same_but_s w (fst r) t /\ G t (sw (fst r)) /\
  abs3 (fst r) (RS t) = map (fun x => Z.quot x c) (abs3 w a).
Proof. exact step_sparse_vdivs_alias. Qed.
Theorem aliased_receiver_set : forall y w t a,
  Good3 w t -> operand3a w t a ->
  let r := step3 y w (VSet (RS t) a) in
  ok_out r /\ same_but_s w (fst r) t /\ G t (sw (fst r)) /\ abs3 (fst r) (RS t) = abs3 w a.
Proof. exact step_sparse_vset_alias. Qed.
Theorem aliased_receiver_equals : forall y w t b e2,
  0 < e2 -> Good3 w t -> operand3a w t b ->
  exists w', step3 y w (VEquals (RS t) b e2) =
               (w', (K_OK, [b2z (all_close e2 (abs3 w (RS t)) (abs3 w b))])) /\
             Qw (sw w) (sw w') /\ dn w' = dn w /\ G t (sw w').
Proof. exact step_sparse_equals_alias. Qed.
(* hence d.Op(d, b) on a dense d and s.Op(s, b') on a sparse s agree *)
Theorem storage_independence_aliased : forall y f w k t a b a' b',
  hasd w k -> vdim w a = zlen (getd w k) -> vdim w b = zlen (getd w k) ->
  Good3 w t -> operand3a w t a' -> operand3a w t b' ->
  abs3 w a = abs3 w a' -> abs3 w b = abs3 w b' ->
  abs3 (fst (step3 y w (VopV f (RD k) a b))) (RD k) =
  abs3 (fst (step3 y w (VopV f (RS t) a' b'))) (RS t).
Proof. exact storage_independence_alias_lemma. Qed.
Example aliased_receiver_instance :
  let w := run3 TFloat init3 [NewS [3; 0] [7; 5] 5; Model.SetAt (RS 0) 1 0; NewD [0; 0; 2; 0; 4]; NewS [4; 2] [-4; 1] 5] in
  Good3 w 0 /\ operand3a w 0 (RS 0) /\ operand3a w 0 (RD 0) /\
  abs3 (fst (step3 TFloat w (VopV C03.Model.Sub (RS 0) (RD 0) (RS 0)))) (RS 0) = [-5; 0; 2; -7; 4].
Proof.
  split; [exact alias_instance_good|]. vm_compute. repeat split; auto; try lia; discriminate.
Qed.

(* ---- G. division by zero on the float types, extended carrier -------------------------
   carrier Z + the codes NAN / PINF / NINF (Model.v) of the non-finite results:
   fdiv x 0 = +Inf (x > 0), -Inf (x < 0), NaN (x = 0); operands finite.  No
   hypothesis on the divisor: dense and sparse receivers give the same list —
   also at positions ABSENT in the sparse receiver and in sparse operands
   (0/0 = NaN and x/0 = +-Inf are materialised by the sparse path). *)
Theorem sparse_receiver_division_total : forall y w t a b,
  y <> TInt -> Good3 w t -> operand3 w t a -> operand3 w t b ->
  let r := step3 y w (VdivV (RS t) a b) in
  ok_out r /\ same_but_s w (fst r) t /\ G t (sw (fst r)) /\
  abs3 (fst r) (RS t) = map2 fdiv (abs3 w a) (abs3 w b).
Proof. exact step_sparse_vdivv_total. Qed.
Theorem dense_receiver_division_total : forall y w k a b,
  y <> TInt -> hasd w k -> vdim w a = zlen (getd w k) -> vdim w b = zlen (getd w k) ->
  let r := step3 y w (VdivV (RD k) a b) in
  ok_out r /\ same_but w (fst r) k /\ abs3 (fst r) (RD k) = map2 fdiv (abs3 w a) (abs3 w b).
Proof. exact step_dense_vdivv_total. Qed.
Theorem sparse_receiver_divs_total : forall y w t a c,
  y <> TInt -> Good3 w t -> operand3 w t a ->
  let r := step3 y w (VdivS (RS t) a c) in
  ok_out r /\ same_but_s w (fst r) t /\ G t (sw (fst r)) /\
  abs3 (fst r) (RS t) = map (fun x => fdiv x c) (abs3 w a).
Proof. exact step_sparse_vdivs_total. Qed.
Theorem storage_independence_division_total : forall y w k t a b a' b',
  y <> TInt ->
  hasd w k -> vdim w a = zlen (getd w k) -> vdim w b = zlen (getd w k) ->
  Good3 w t -> operand3 w t a' -> operand3 w t b' ->
  abs3 w a = abs3 w a' -> abs3 w b = abs3 w b' ->
  abs3 (fst (step3 y w (VdivV (RD k) a b))) (RD k) =
  abs3 (fst (step3 y w (VdivV (RS t) a' b'))) (RS t).
Proof. exact storage_independence_div_total_lemma. Qed.
Theorem storage_independence_divs_total : forall y w k t a a' c,
  y <> TInt ->
  hasd w k -> vdim w a = zlen (getd w k) ->
  Good3 w t -> operand3 w t a' -> abs3 w a = abs3 w a' ->
  abs3 (fst (step3 y w (VdivS (RD k) a c))) (RD k) =
  abs3 (fst (step3 y w (VdivS (RS t) a' c))) (RS t).
Proof. exact storage_independence_divs_total_lemma. Qed.
Theorem division_by_zero_materialised :
  let w := run3 TFloat init3 [NewS [] [] 3; NewS [1] [5] 3; NewS [] [] 3; NewD [7; 7; 7]; NewD [0; 5; 0]; NewD [0; 0; 0]] in
  abs3 (fst (step3 TFloat w (VdivV (RS 0) (RS 1) (RS 2)))) (RS 0) = [NAN; PINF; NAN] /\
  abs3 (fst (step3 TFloat w (VdivV (RD 0) (RD 1) (RD 2)))) (RD 0) = [NAN; PINF; NAN] /\
  abs3 (fst (step3 TFloat w (VdivS (RS 0) (RS 1) 0))) (RS 0) = [NAN; PINF; NAN].
Proof. exact division_by_zero_example. Qed.
(* the three-way joint loop with ANY scalar function f, f 0 0 = 0: the sparse
   loop creates the entry whenever ONE operand has one, so it computes map2 f
   like the dense index loop — whatever f does with a single zero argument
   (e.g. a multiplication with 0 * Inf = NaN: [xmul], instance below).  This is
   the class of a regression that skips zero-valued operands. *)
Theorem elementwise_any_function : forall (f : Z -> Z -> Z) w k t a b a' b',
  f 0 0 = 0 ->
  hasd w k -> vdim w a = zlen (getd w k) -> vdim w b = zlen (getd w k) ->
  Good3 w t -> operand3 w t a' -> operand3 w t b' ->
  abs3 w a = abs3 w a' -> abs3 w b = abs3 w b' ->
  exists s' w', vop3 f (sw w) t (to_op w a') (to_op w b') = Some (s', true) /\
    dop (fun w' i => Some (f (rd w' a i) (rd w' b i))) w k [a; b] = (w', true) /\
    sabs s' t = getd w' k /\ getd w' k = map2 f (abs3 w a) (abs3 w b).
Proof. exact any_function_lemma. Qed.
Example zero_times_inf_materialised :
  xmul 0 0 = 0 /\
  let w := run3 TFloat init3 [NewS [2] [9] 3; NewS [] [] 3; NewS [0] [PINF] 3] in
  match vop3 xmul (sw w) 0 (OS 1) (OS 2) with
  | Some (s', true) => sabs s' 0 = [NAN; 0; 0]
  | _ => False
  end.
Proof. split; [exact xmul_00|exact xmul_example]. Qed.

(* ---- H. whole histories ------------------------------------------------------------------
   histories mixing C11's 25 container operations (HC) and the mathematical
   vector operations (HM), every receiver/operand storage combination, the
   receiver possibly among its operands: if every operation is in range in the
   state it meets (SpecH.hok: vectors exist, dimensions match, Equals with
   epsilon > 0, integer division by non-zero, and an in-place write goes to a
   vector sharing no scalar with another one — sharing only arises from Slice /
   AppendVector(sparse), C11), then after EVERY prefix the world reads exactly
   like the run on plain value lists (SpecH.drun: no storage at all), and C11's
   coherence invariant and cell well-formedness hold — they are invariants of
   histories, so the per-call hypotheses of the theorems above (Good3) hold at
   every call of a valid history. *)
Theorem history_step : forall y w o,
  HI w -> hok y w o -> absh (hstep y w o) = dhstep y (absh w) o /\ HI (hstep y w o).
Proof. exact hstep_refines. Qed.
Theorem history_all : forall y ops,
  hvalid y init3 ops ->
  absh (hrun y init3 ops) = drun y {| ds := []; dd := [] |} ops /\ HI (hrun y init3 ops).
Proof. intros y ops V. exact (hrun_refines y ops init3 HI_init V). Qed.
(* the hypothesis of every single-call theorem is available along a valid history *)
Theorem history_gives_good : forall y ops t,
  hvalid y init3 ops -> has (sw (hrun y init3 ops)) t -> unshared (sw (hrun y init3 ops)) t ->
  Good3 (hrun y init3 ops) t.
Proof.
  intros y ops t V Ht U. apply HI_Good; auto. apply (hrun_refines y ops init3 HI_init V).
Qed.
(* Equals along a history answers the point-wise predicate of the plain lists *)
Theorem history_equals : forall y w a b e2,
  HI w -> hok y w (HM (VEquals a b e2)) ->
  snd (step3 y w (VEquals a b e2)) = (K_OK, [dequals3 (absh w) a b e2]).
Proof.
  intros y w a b e2 H (K1 & K2 & K3). apply (ref_VEquals y w a b e2 H K1 K2 K3).
Qed.
Example history_instance :
  let ops := [HM (NewS [3; 0] [7; 5] 5); HM (NewD [0; 0; 2; 0; 4]); HC (Swap 0 0 4); HM (VopV Add (RS 0) (RS 0) (RD 0));
              HC (Sort 0 false); HM (VdivS (RD 0) (RS 0) 0); HM (VEquals (RS 0) (RD 0) 1)] in
  hvalid TFloat init3 ops /\
  dd (drun TFloat {| ds := []; dd := [] |} ops) = [[NAN; NAN; PINF; PINF; PINF]].
Proof.
  vm_compute. repeat split; auto; try lia; try discriminate.
  all: try (intros u l N Hl Hu; simpl in *; repeat (destruct u as [|u]; simpl in *; try tauto; try lia)).
  - repeat constructor; simpl; intuition lia.
  - repeat constructor; discriminate.
Qed.
