(* C03 — matrices: the operations of [step4] whose sparse receiver runs NON-joint
   loops on its values vector (Reset, SetIdentity, MaddS, MsubS, MdivM, Set) and
   the conversions, one lemma per operation. *)
From Coq Require Import ZArith List Bool Lia Sorted.
From ADV Require Import C11.Model C11.Spec C11.ProofsMap C11.ProofsIter C11.ProofsInv C11.ProofsRef C11.ProofsDSort
                        C03.Model C03.Spec C03.ProofsDense C03.ProofsSem C03.ProofsJoint
                        C03.ModelM C03.ProofsM C03.SpecM C03.ProofsMBase C03.ProofsMIter C03.ProofsMLoops.
Import ListNotations.
Open Scope Z_scope.

(* ---- from a loop result on the values vector to the matrix-level statement ---------- *)
Lemma sparse_result w k t r c s' (V : Z -> Z) :
  GoodM w k -> getsm w k = (t, r, c) ->
  G t s' -> length (vecs s') = length (vecs (sw (b3 w))) ->
  (forall u, dim (getv s' u) = dim (getv (sw (b3 w)) u)) ->
  (forall i, 0 <= i < r * c -> peek (hp s') (getv s' t) i = V i) ->
  (forall u i, u <> t -> peek (hp s') (getv s' u) i = peek (hp (sw (b3 w))) (getv (sw (b3 w)) u) i) ->
  same_but_sm w (setsw w s') (mvec w k) /\ G (mvec w k) (sw (b3 (setsw w s'))) /\
  mabs (setsw w s') (XS k) = map V (zseq 0 (Z.to_nat (r * c))).
Proof.
  intros (Hsm & HGood) Ek G' L D R F'.
  assert (Et : mvec w k = t) by (unfold mvec; rewrite Ek; auto).
  rewrite Et. split; [|split].
  - unfold same_but_sm. cbn [setsw setb sets sms dms b3 sw dn].
    split; [auto|]. split; [auto|]. split; [auto|]. split; [auto|]. split; [auto|].
    intros u N. rewrite (sabs_peek s' u _ (D u)), (sabs_peek (sw (b3 w)) u _ eq_refl).
    apply map_ext. intro i. apply F'. auto.
  - exact G'.
  - unfold mabs, mdims, mrd, mop, getsm. cbn [setsw setb sets sms dms b3 sw dn].
    fold (getsm w k). rewrite Ek. cbn [ord]. apply map_ext_in. intros i Hi. apply zseq_In in Hi.
    apply R. unfold sm_ok in Hsm. rewrite Ek in Hsm. lia.
Qed.
Lemma GoodM_parts w k t r c :
  GoodM w k -> getsm w k = (t, r, c) ->
  mvec w k = t /\ mdims w (XS k) = (r, c) /\ 0 <= r /\ 0 <= c /\ G t (sw (b3 w)) /\
  dim (getv (sw (b3 w)) t) = r * c.
Proof.
  intros (Hsm & HGood) Ek. assert (Et : mvec w k = t) by (unfold mvec; rewrite Ek; auto).
  unfold sm_ok in Hsm. rewrite Ek in Hsm. destruct Hsm as (_ & A & B & _ & D).
  split; [auto|]. split; [unfold mdims; rewrite Ek; auto|]. split; [auto|]. split; [auto|].
  split; [rewrite <- Et; apply Good_G; auto|auto].
Qed.
Lemma mabs_mrd w x r c : mdims w x = (r, c) -> mabs w x = map (mrd w x) (zseq 0 (Z.to_nat (r * c))).
Proof. intro E. unfold mabs. rewrite E. auto. Qed.
(* an operand matrix of a sparse receiver *)
Lemma mop_other w k t r c x :
  GoodM w k -> getsm w k = (t, r, c) -> mwf w x -> mother w (mvec w k) x -> mdims w x = mdims w (XS k) ->
  operand_ok3 (sw (b3 w)) t (mop w x) /\ match mop w x with OS u => u <> t | OD _ => True end /\
  mdims w x = (r, c).
Proof.
  intros HG Ek Hx Ho Hd. destruct (GoodM_parts w k t r c HG Ek) as (Et & Ed & _).
  pose proof (mop_operand w k x (proj1 HG) Hx Ho Hd) as H. rewrite Et in H.
  split; [auto|]. split; [|congruence].
  destruct (mop w x) as [u|d]; simpl in *; tauto.
Qed.

(* ---- Reset ---------------------------------------------------------------------------- *)
Lemma step_sparse_mreset y w k :
  GoodM w k ->
  let r := step4 y w (MReset (XS k)) in
  ok_out4 r /\ same_but_sm w (fst r) (mvec w k) /\ G (mvec w k) (sw (b3 (fst r))) /\
  mabs (fst r) (XS k) = map (fun _ => 0) (mabs w (XS k)).
Proof.
  intros HG. destruct (getsm w k) as [[t r] c] eqn:Ek.
  destruct (GoodM_parts w k t r c HG Ek) as (Et & Ed & Hr & Hc & Gt & Dt).
  cbn [step4]. rewrite Ek.
  destruct (own_map_spec t (fun _ _ => 0) (fun _ => 0) (sw (b3 w)) Gt) as (s1 & E & G1 & L1 & D1 & R1 & F1); [auto|].
  rewrite E. cbv zeta. unfold okm, ok_out4. cbn [fst snd]. split; [auto|].
  destruct (sparse_result w k t r c s1 (fun _ => 0) HG Ek G1 L1 D1) as (A & B & C); auto.
  - intros i Hi. rewrite R1. destruct (_ =? 0); auto.
  - split; [auto|]. split; [auto|]. rewrite C, (mabs_mrd w (XS k) r c Ed), map_map. auto.
Qed.

(* ---- SetIdentity ------------------------------------------------------------------------ *)
Lemma fold_put_ones (f : Z -> Z) i : forall l a,
  fold_left (fun acc kx => if fst kx =? i then snd kx else acc) (map (fun j => (f j, 1)) l) a =
  if existsb (fun j => f j =? i) l then 1 else a.
Proof.
  induction l as [|j l IH]; intro a; simpl; auto.
  rewrite IH. destruct (f j =? i); simpl; auto. destruct (existsb _ l); auto.
Qed.
Lemma diag_index r c i :
  0 < c -> 0 <= r -> 0 <= i < r * c ->
  existsb (fun j => j * c + j =? i) (zseq 0 (Z.to_nat (Z.min r c))) = (i / c =? i mod c).
Proof.
  intros Hc Hr Hi.
  pose proof (Z.div_mod i c ltac:(lia)) as DM. pose proof (Z.mod_pos_bound i c Hc) as MB.
  assert (DB : 0 <= i / c < r).
  { split; [apply Z.div_pos; lia|apply Z.div_lt_upper_bound; lia]. }
  destruct (i / c =? i mod c) eqn:E.
  - apply Z.eqb_eq in E. apply existsb_exists. exists (i / c). split.
    + apply zseq_In. lia.
    + apply Z.eqb_eq. rewrite E at 2. lia.
  - apply Z.eqb_neq in E. destruct (existsb _ _) eqn:X; auto.
    apply existsb_exists in X. destruct X as (j & Hj & Ej). apply zseq_In in Hj. apply Z.eqb_eq in Ej.
    exfalso. apply E.
    assert (Q : i / c = j).
    { symmetry. apply (Z.div_unique i c j j); lia. }
    assert (M : i mod c = j).
    { symmetry. apply (Z.mod_unique i c j j); lia. }
    lia.
Qed.

Lemma step_sparse_msetidentity y w k :
  GoodM w k ->
  let r := step4 y w (MSetIdentity (XS k)) in
  ok_out4 r /\ same_but_sm w (fst r) (mvec w k) /\ G (mvec w k) (sw (b3 (fst r))) /\
  mabs (fst r) (XS k) = identity (fst (mdims w (XS k))) (snd (mdims w (XS k))).
Proof.
  intros HG. destruct (getsm w k) as [[t r] c] eqn:Ek.
  destruct (GoodM_parts w k t r c HG Ek) as (Et & Ed & Hr & Hc & Gt & Dt).
  cbn [step4]. rewrite Ek.
  set (Id := fun i : Z => if c =? 0 then 0 else if i / c =? i mod c then 1 else 0).
  destruct (own_map_spec t (fun _ => Id) Id (sw (b3 w)) Gt) as (s1 & E & G1 & L1 & D1 & R1 & F1); [auto|].
  rewrite E.
  destruct (acc_loop_spec t (fun _ x => x) (map (fun i => (i * c + i, 1)) (zseq 0 (Z.to_nat (Z.min r c)))) s1 G1)
    as (s2 & E2 & G2 & L2 & D2 & R2 & F2).
  { intros k0 x Hin. apply in_map_iff in Hin. destruct Hin as (j & Ej & Hj). inversion Ej. subst k0 x.
    apply zseq_In in Hj. rewrite D1, Dt. nia. }
  rewrite E2. unfold liftm2, ok_out4. cbn [fst snd]. split; [auto|].
  destruct (sparse_result w k t r c s2 Id HG Ek G2) as (A & B & C).
  - lia.
  - intro u. rewrite D2. auto.
  - intros i Hi. rewrite R2. cbn [snd]. rewrite (fold_put_ones (fun j => j * c + j)).
    destruct (Z.eq_dec c 0) as [->|Nc]; [lia|].
    rewrite (diag_index r c i) by lia. rewrite R1. unfold Id.
    replace (c =? 0) with false by (symmetry; apply Z.eqb_neq; auto).
    destruct (i / c =? i mod c); auto. destruct (peek _ _ i =? 0); auto.
  - intros u i N. rewrite F2 by auto. auto.
  - split; [auto|]. split; [auto|]. rewrite C, Ed. reflexivity.
Qed.

(* ---- MaddS / MsubS: the index loop r.AT(i).<op>(a[i], c) -------------------------------- *)
Lemma sparse_index_loop w k t r c a (h : Z -> Z) :
  GoodM w k -> getsm w k = (t, r, c) ->
  mwf w a -> mother w (mvec w k) a -> mdims w a = mdims w (XS k) ->
  exists s', at_loop (fun w1 i => Some (h (ord w1 (mop w a) i))) (Z.to_nat (r * c)) 0 (sw (b3 w)) t = (s', true) /\
    same_but_sm w (setsw w s') (mvec w k) /\ G (mvec w k) (sw (b3 (setsw w s'))) /\
    mabs (setsw w s') (XS k) = map h (mabs w a).
Proof.
  intros HG Ek Ha Ho Hd.
  destruct (GoodM_parts w k t r c HG Ek) as (Et & Ed & Hr & Hc & Gt & Dt).
  destruct (mop_other w k t r c a HG Ek Ha Ho Hd) as (O3 & Ot & Da).
  set (s := sw (b3 w)) in *.
  destruct (at_loop_spec t (r * c) (mop w a) (ord s (mop w a)) Ot
              (fun w1 i => Some (h (ord w1 (mop w a) i))) (fun i => h (ord s (mop w a) i)))
    with (cnt := Z.to_nat (r * c)) (i := 0) (w := s) as (s' & E & G' & L & D & R & S & F'); auto.
  - intros w1 i H. rewrite H. auto.
  - lia.
  - nia.
  - exists s'. split; [auto|].
    destruct (sparse_result w k t r c s' (fun i => h (ord s (mop w a) i)) HG Ek G' L D) as (A & B & C); auto.
    split; [auto|]. split; [auto|]. rewrite C, (mabs_mrd w a r c Da), map_map. reflexivity.
Qed.
Lemma step_sparse_madds y w k a c :
  GoodM w k -> mwf w a -> mother w (mvec w k) a -> mdims w a = mdims w (XS k) ->
  let r := step4 y w (MaddS (XS k) a c) in
  ok_out4 r /\ same_but_sm w (fst r) (mvec w k) /\ G (mvec w k) (sw (b3 (fst r))) /\
  mabs (fst r) (XS k) = map (fun x => x + c) (mabs w a).
Proof.
  intros HG Ha Ho Hd. destruct (getsm w k) as [[t r] cc] eqn:Ek.
  destruct (mop_other w k t r cc a HG Ek Ha Ho Hd) as (_ & _ & Da).
  cbn [step4]. rewrite Ek, Da, dims_eqb_refl.
  destruct (sparse_index_loop w k t r cc a (fun x => x + c) HG Ek Ha Ho Hd) as (s' & E & A & B & C).
  rewrite E. unfold liftm2, ok_out4. cbn [fst snd]. auto.
Qed.
Lemma step_sparse_msubs y w k a c :
  GoodM w k -> mwf w a -> mother w (mvec w k) a -> mdims w a = mdims w (XS k) ->
  let r := step4 y w (MsubS (XS k) a c) in
  ok_out4 r /\ same_but_sm w (fst r) (mvec w k) /\ G (mvec w k) (sw (b3 (fst r))) /\
  mabs (fst r) (XS k) = map (fun x => x - c) (mabs w a).
Proof.
  intros HG Ha Ho Hd. destruct (getsm w k) as [[t r] cc] eqn:Ek.
  destruct (mop_other w k t r cc a HG Ek Ha Ho Hd) as (_ & _ & Da).
  cbn [step4]. rewrite Ek, Da, dims_eqb_refl.
  destruct (sparse_index_loop w k t r cc a (fun x => x - c) HG Ek Ha Ho Hd) as (s' & E & A & B & C).
  rewrite E. unfold liftm2, ok_out4. cbn [fst snd]. auto.
Qed.

(* ---- MdivM ------------------------------------------------------------------------------- *)
Lemma step_sparse_mdivm y w k a b :
  GoodM w k -> mwf w a -> mother w (mvec w k) a -> mdims w a = mdims w (XS k) ->
  mwf w b -> mother w (mvec w k) b -> mdims w b = mdims w (XS k) ->
  nonzero_all (mabs w b) ->
  let r := step4 y w (MdivM (XS k) a b) in
  ok_out4 r /\ same_but_sm w (fst r) (mvec w k) /\ G (mvec w k) (sw (b3 (fst r))) /\
  mabs (fst r) (XS k) = map2 Z.quot (mabs w a) (mabs w b).
Proof.
  intros HG Ha Hoa Hda Hb Hob Hdb Hnz. destruct (getsm w k) as [[t r] c] eqn:Ek.
  destruct (GoodM_parts w k t r c HG Ek) as (Et & Ed & Hr & Hc & Gt & Dt).
  destruct (mop_other w k t r c a HG Ek Ha Hoa Hda) as (_ & Ota & Da).
  destruct (mop_other w k t r c b HG Ek Hb Hob Hdb) as (_ & Otb & Db).
  cbn [step4]. rewrite Ek, Da, Db, dims_eqb_refl. cbn [andb].
  set (s := sw (b3 w)) in *.
  destruct (divv_loop_spec t (r * c) y (mop w a) (mop w b) (ord s (mop w a)) (ord s (mop w b)) Ota Otb)
    with (cnt := Z.to_nat (r * c)) (i := 0) (w := s) as (s' & E & G' & L & D & R & S & F'); auto.
  - intros i Hi. unfold nonzero_all in Hnz. rewrite (mabs_mrd w b r c Db) in Hnz.
    rewrite Forall_forall in Hnz. apply (Hnz (mrd w b i)). apply in_map. apply zseq_In. lia.
  - lia.
  - nia.
  - rewrite E. unfold liftm2, ok_out4. cbn [fst snd]. split; [auto|].
    destruct (sparse_result w k t r c s' (fun i => Z.quot (ord s (mop w a) i) (ord s (mop w b) i)) HG Ek G' L D)
      as (A & B & C); auto.
    split; [auto|]. split; [auto|].
    rewrite C, (mabs_mrd w a r c Da), (mabs_mrd w b r c Db), map2_map. reflexivity.
Qed.

(* ---- Set: the receiver's own entries first, then the operand's non-zero entries ---------- *)
Lemma step_sparse_mset y w k a :
  GoodM w k -> mwf w a -> mother w (mvec w k) a -> mdims w a = mdims w (XS k) ->
  let r := step4 y w (MSet (XS k) a) in
  ok_out4 r /\ same_but_sm w (fst r) (mvec w k) /\ G (mvec w k) (sw (b3 (fst r))) /\
  mabs (fst r) (XS k) = mabs w a.
Proof.
  intros HG Ha Ho Hd. destruct (getsm w k) as [[t r] c] eqn:Ek.
  destruct (GoodM_parts w k t r c HG Ek) as (Et & Ed & Hr & Hc & Gt & Dt).
  destruct (mop_other w k t r c a HG Ek Ha Ho Hd) as (O3 & Ot & Da).
  cbn [step4]. rewrite Ek, Da, dims_eqb_refl.
  set (s := sw (b3 w)) in *. set (o := mop w a) in *.
  assert (Fr : forall w1, (forall u i, u <> t -> peek (hp w1) (getv w1 u) i = peek (hp s) (getv s u) i) ->
                          forall i, ord w1 o i = ord s o i).
  { intros w1 H i. destruct o as [u|d]; simpl; auto. }
  destruct (own_map_spec t (fun w1 i => ord w1 o i) (ord s o) s Gt) as (s1 & E1 & G1 & L1 & D1 & R1 & F1).
  { intros w1 i H. apply Fr. auto. }
  rewrite E1.
  assert (O1 : operand_wk s1 t o).
  { destruct o as [u|d]; simpl in *.
    - destruct O3 as (N & Hu & Hdim). split; [auto|]. split; [unfold has in *; lia|]. rewrite !D1. auto.
    - rewrite D1. lia. }
  destruct (put_all_spec t s1 o G1 O1) as (s2 & it & E2 & s3 & E3 & G3 & L3 & D3 & R3 & F3).
  rewrite E2. rewrite (D1 t), Dt in E3. rewrite E3.
  unfold liftm, ok_out4. cbn [fst snd]. split; [auto|].
  destruct (sparse_result w k t r c s3 (ord s o) HG Ek G3) as (A & B & C).
  - rewrite L3, L1. reflexivity.
  - intro u. rewrite D3. auto.
  - intros i Hi. rewrite R3, R1. rewrite (Fr s1 F1 i).
    replace (0 <=? i) with true by (symmetry; apply Z.leb_le; lia). cbn [andb].
    destruct (ord s o i =? 0) eqn:Z0; cbn [negb]; auto.
    apply Z.eqb_eq in Z0. rewrite Z0. destruct (peek _ _ i =? 0); auto.
  - intros u i N. rewrite F3 by auto. auto.
  - split; [auto|]. split; [auto|]. rewrite C, (mabs_mrd w a r c Da). reflexivity.
Qed.

(* ---- conversions --------------------------------------------------------------------------- *)
(* G is Good, vector by vector *)
Lemma G_Good t w : G t w -> Good w t.
Proof.
  intros (A & B & C & D). split; [|split; [|split; [exact C|exact D]]].
  - apply Forall_forall. intros v Hv. destruct (In_nth _ _ (nil_vec 0) Hv) as (u & _ & E). rewrite <- E. apply A.
  - apply Forall_forall. intros v Hv. destruct (In_nth _ _ (nil_vec 0) Hv) as (u & _ & E). rewrite <- E. apply B.
Qed.
(* a fresh empty vector appended to a coherent world is a separate receiver *)
Lemma G_addv_nil s n :
  WInv s -> WWf s -> 0 <= n -> G (length (vecs s)) (addv s (nil_vec n)).
Proof.
  intros HI HW Hn. set (t := length (vecs s)).
  assert (Et : getv (addv s (nil_vec n)) t = nil_vec n).
  { unfold getv, addv. cbn [vecs]. unfold t. rewrite app_nth2 by lia. rewrite Nat.sub_diag. auto. }
  split; [|split; [|split]].
  - intro u. apply WInv_getv. apply WInv_addv; auto. apply Inv_nil. auto.
  - intro u. unfold getv, addv. cbn [vecs hp]. apply Forall_nth_d.
    + apply Forall_app. split; [exact HW|]. constructor; [|constructor]. split; simpl; intros; discriminate.
    + split; simpl; intros; discriminate.
  - intros u l N (k & L) _. rewrite Et in L. simpl in L. discriminate.
  - unfold has, addv. cbn [vecs]. rewrite app_length. simpl. unfold t. lia.
Qed.
Lemma getv_addv_other s v u : u <> length (vecs s) -> getv (addv s v) u = getv s u.
Proof.
  intro N. unfold getv, addv. cbn [vecs].
  destruct (Nat.lt_ge_cases u (length (vecs s))) as [L|L].
  - apply app_nth1. auto.
  - rewrite (nth_overflow (vecs s ++ [v])) by (rewrite app_length; simpl; lia).
    rewrite nth_overflow by lia. auto.
Qed.

(* r.AT(k).Set(x) for a list of pairs with distinct keys: every pair is stored *)
Definition putf (i : Z) (acc : Z) (kx : Z * Z) : Z := if fst kx =? i then snd kx else acc.
Lemma put_miss i : forall l a, (forall kx, In kx l -> fst kx <> i) -> fold_left (putf i) l a = a.
Proof.
  induction l as [|kx l IH]; intros a H; simpl; auto.
  rewrite IH by (intros kx' H'; apply H; right; auto).
  unfold putf. replace (fst kx =? i) with false; auto.
  symmetry. apply Z.eqb_neq. apply H. left. auto.
Qed.
Lemma put_hit i x : forall l a, NoDup (map fst l) -> In (i, x) l -> fold_left (putf i) l a = x.
Proof.
  induction l as [|kx l IH]; intros a ND Hin; [destruct Hin|].
  simpl in ND. inversion ND as [|? ? Hn ND']. subst. simpl. destruct Hin as [->|Hin].
  - assert (EP : putf i a (i, x) = x) by (unfold putf; cbn [fst snd]; rewrite Z.eqb_refl; auto).
    rewrite EP. apply put_miss.
    intros kx' H' E. apply Hn. cbn [fst]. rewrite <- E. apply in_map. auto.
  - apply IH; auto.
Qed.
Lemma NoDup_keys_filter (p : Z * Z -> bool) : forall l, NoDup (map fst l) -> NoDup (map fst (filter p l)).
Proof.
  induction l as [|kx l IH]; intro ND; simpl; [constructor|].
  simpl in ND. inversion ND as [|? ? Hn ND']. subst.
  destruct (p kx); simpl; auto. constructor; auto.
  intro H. apply Hn. apply in_map_iff in H. destruct H as (kx' & E & H). apply filter_In in H.
  apply in_map_iff. exists kx'. tauto.
Qed.
Lemma NoDup_keys_unique : forall (l : list (Z * Z)) k x x',
  NoDup (map fst l) -> In (k, x) l -> In (k, x') l -> x = x'.
Proof.
  induction l as [|kx l IH]; intros k x x' ND H1 H2; [destruct H1|].
  simpl in ND. inversion ND as [|? ? Hn ND']. subst.
  destruct H1 as [->|H1]; destruct H2 as [E|H2].
  - inversion E. auto.
  - exfalso. apply Hn. simpl. apply in_map_iff. exists (k, x'). auto.
  - subst kx. exfalso. apply Hn. simpl. apply in_map_iff. exists (k, x). auto.
  - eapply IH; eauto.
Qed.
Lemma put_nz_hit i x l :
  NoDup (map fst l) -> In (i, x) l ->
  fold_left (putf i) (filter (fun kx => negb (snd kx =? 0)) l) 0 = x.
Proof.
  intros ND Hin. destruct (Z.eq_dec x 0) as [->|NZ].
  - apply put_miss. intros [k x'] H E. simpl in E. subst k. apply filter_In in H. destruct H as [H NZ].
    simpl in NZ. apply negb_true_iff, Z.eqb_neq in NZ. apply NZ.
    apply (NoDup_keys_unique l i x' 0 ND H Hin).
  - apply put_hit; [apply NoDup_keys_filter; auto|].
    apply filter_In. split; auto. simpl. apply negb_true_iff, Z.eqb_neq. auto.
Qed.
Lemma put_nz_miss i l :
  (forall x, ~ In (i, x) l) -> fold_left (putf i) (filter (fun kx => negb (snd kx =? 0)) l) 0 = 0.
Proof.
  intro H. apply put_miss. intros [k x] Hin E. simpl in E. subst k. apply filter_In in Hin. apply (H x). tauto.
Qed.

(* NULL_MATRIX(r, c), then r.AT(k).Set(x) for a list of pairs *)
Lemma new_sparse_spec s n kxs :
  WInv s -> WWf s -> 0 <= n -> (forall k x, In (k, x) kxs -> 0 <= k < n) ->
  exists s1, acc_loop (fun _ x => x) (addv s (nil_vec n)) (length (vecs s)) kxs = (s1, true) /\
    G (length (vecs s)) s1 /\ length (vecs s1) = S (length (vecs s)) /\
    dim (getv s1 (length (vecs s))) = n /\
    (forall u, u <> length (vecs s) -> dim (getv s1 u) = dim (getv s u)) /\
    (forall i, peek (hp s1) (getv s1 (length (vecs s))) i = fold_left (putf i) kxs 0) /\
    (forall u i, u <> length (vecs s) -> peek (hp s1) (getv s1 u) i = peek (hp s) (getv s u) i).
Proof.
  intros HI HW Hn Hk. set (t := length (vecs s)). set (s0 := addv s (nil_vec n)).
  assert (G0 : G t s0) by (apply G_addv_nil; auto).
  assert (Et : getv s0 t = nil_vec n).
  { unfold getv, s0, addv. cbn [vecs]. unfold t. rewrite app_nth2 by lia. rewrite Nat.sub_diag. auto. }
  destruct (acc_loop_spec t (fun _ x => x) kxs s0 G0) as (s1 & E & G1 & L1 & D1 & R1 & F1).
  { rewrite Et. simpl. auto. }
  exists s1. split; [auto|]. split; [auto|].
  split; [rewrite L1; unfold s0, addv; cbn [vecs]; rewrite app_length; simpl; lia|].
  split; [rewrite D1, Et; auto|].
  split; [intros u N; rewrite D1; unfold s0; rewrite getv_addv_other; auto|]. split.
  - intro i. rewrite R1, Et. reflexivity.
  - intros u i N. rewrite F1 by auto. unfold s0. rewrite getv_addv_other by auto. reflexivity.
Qed.

Lemma nth_map_zseq (f : Z -> Z) N k :
  0 <= k < Z.of_nat N -> nth (Z.to_nat k) (map f (zseq 0 N)) 0 = f k.
Proof.
  intro H. rewrite (nth_indep _ 0 (f 0)) by (rewrite map_length, zseq_length; lia).
  rewrite map_nth, nth_zseq by lia. f_equal. lia.
Qed.

(* the matrix-level reading of a sparse matrix appended to the world *)
Lemma new_sm_result w s1 t r c (V : Z -> Z) :
  0 <= r -> 0 <= c -> G t s1 -> dim (getv s1 t) = r * c ->
  (forall i, 0 <= i < r * c -> peek (hp s1) (getv s1 t) i = V i) ->
  let w' := {| b3 := sets (b3 w) s1; sms := sms w ++ [(t, r, c)]; dms := dms w |} in
  let m := length (sms w) in
  GoodM w' m /\ mvec w' m = t /\ mdims w' (XS m) = (r, c) /\
  mabs w' (XS m) = map V (zseq 0 (Z.to_nat (r * c))).
Proof.
  intros Hr Hc G1 D1 R1 w' m.
  assert (Eg : getsm w' m = (t, r, c)).
  { unfold getsm, w', m. cbn [sms]. rewrite app_nth2 by lia. rewrite Nat.sub_diag. auto. }
  assert (Et : mvec w' m = t) by (unfold mvec; rewrite Eg; auto).
  split; [|split; [auto|split]].
  - split.
    + unfold sm_ok. rewrite Eg. split.
      * unfold hassm, w', m. cbn [sms]. rewrite app_length. simpl. lia.
      * split; [auto|]. split; [auto|]. split; [apply G1|exact D1].
    + rewrite Et. apply G_Good. exact G1.
  - unfold mdims. rewrite Eg. auto.
  - unfold mabs, mdims, mrd, mop. rewrite Eg. cbn [ord].
    apply map_ext_in. intros i Hi. apply zseq_In in Hi. apply R1. nia.
Qed.

Lemma map_fst_combine {A B} : forall (l1 : list A) (l2 : list B),
  length l1 = length l2 -> map fst (combine l1 l2) = l1.
Proof.
  induction l1 as [|a l1 IH]; intros [|b l2] H; simpl in *; auto; try discriminate. f_equal. apply IH. lia.
Qed.

(* NewSparse<T>Matrix: entries given by distinct linear positions *)
Lemma step_newsm y w ks xs r c :
  WInv (sw (b3 w)) -> WWf (sw (b3 w)) ->
  NoDup ks -> length ks = length xs -> (forall k, In k ks -> 0 <= k < r * c) -> 0 <= r -> 0 <= c ->
  let res := step4 y w (NewSM ks xs r c) in
  let m := length (sms w) in
  let t := length (vecs (sw (b3 w))) in
  ok_out4 res /\ sms (fst res) = sms w ++ [(t, r, c)] /\ dms (fst res) = dms w /\ dn (b3 (fst res)) = dn (b3 w) /\
  GoodM (fst res) m /\ mvec (fst res) m = t /\ mdims (fst res) (XS m) = (r, c) /\
  G t (sw (b3 (fst res))) /\ length (vecs (sw (b3 (fst res)))) = S t /\
  (forall u, u <> t -> dim (getv (sw (b3 (fst res))) u) = dim (getv (sw (b3 w)) u)) /\
  (forall u, u <> t -> sabs (sw (b3 (fst res))) u = sabs (sw (b3 w)) u) /\
  (forall k x, In (k, x) (combine ks xs) -> lat (mabs (fst res) (XS m)) k = x) /\
  (forall i, 0 <= i < r * c -> ~ In i ks -> lat (mabs (fst res) (XS m)) i = 0).
Proof.
  intros HI HW ND Hl Hk Hr Hc. cbn [step4].
  set (s := sw (b3 w)). set (l := combine ks xs).
  assert (Hkeys : map fst l = ks) by (apply map_fst_combine; auto).
  assert (Hn : 0 <= r * c) by nia.
  destruct (new_sparse_spec s (r * c) (filter (fun kx => negb (snd kx =? 0)) l) HI HW Hn)
    as (s1 & E & G1 & L1 & Dt & D1 & R1 & F1).
  { intros k x Hin. apply filter_In in Hin. destruct Hin as [Hin _]. apply Hk. rewrite <- Hkeys.
    apply in_map_iff. exists (k, x). auto. }
  rewrite E. cbv zeta. unfold ok_out4. cbn [fst snd sms dms b3 sets sw dn].
  destruct (new_sm_result w s1 (length (vecs s)) r c (fun i => fold_left (putf i) (filter (fun kx => negb (snd kx =? 0)) l) 0)
              Hr Hc G1 Dt) as (A & B & C & D).
  { intros i Hi. apply R1. }
  cbv zeta in A, B, C, D.
  split; [auto|]. split; [auto|]. split; [auto|]. split; [auto|]. split; [exact A|]. split; [exact B|].
  split; [exact C|]. split; [exact G1|]. split; [exact L1|]. split; [exact D1|]. split; [|split].
  - intros u N. rewrite (sabs_peek s1 u _ (D1 u N)), (sabs_peek s u _ eq_refl).
    apply map_ext. intro i. apply F1. auto.
  - intros k x Hin. rewrite D. unfold lat.
    assert (Hk' : 0 <= k < r * c).
    { apply Hk. rewrite <- Hkeys. apply in_map_iff. exists (k, x). auto. }
    rewrite nth_map_zseq by lia. apply put_nz_hit; auto. rewrite Hkeys. auto.
  - intros i Hi Hnot. rewrite D. unfold lat. rewrite nth_map_zseq by lia.
    apply put_nz_miss. intros x Hin. apply Hnot. rewrite <- Hkeys. apply in_map_iff. exists (i, x). auto.
Qed.

(* AsDense<T>Matrix *)
Lemma step_asdensem y w x :
  mwf w x ->
  let res := step4 y w (AsDenseM x) in
  let m := length (dms w) in
  ok_out4 res /\ b3 (fst res) = b3 w /\ sms (fst res) = sms w /\
  (forall k, (k < m)%nat -> getdm (fst res) k = getdm w k) /\ length (dms (fst res)) = S m /\
  dm_ok (fst res) m /\ mdims (fst res) (XD m) = mdims w x /\
  mabs (fst res) (XD m) = mabs w x.
Proof.
  intros Hx. cbn [step4]. destruct (mdims w x) as [r c] eqn:Ed.
  assert (Hrc : 0 <= r /\ 0 <= c).
  { unfold mwf, mdims in *. destruct x as [k|k].
    - unfold sm_ok in Hx. destruct (getsm w k) as [[u r'] c']. inversion Ed. subst. tauto.
    - unfold dm_ok in Hx. destruct (getdm w k) as [[d r'] c']. inversion Ed. subst. tauto. }
  cbv zeta. unfold ok_out4. cbn [fst snd b3 sms dms].
  set (d := map (mrd w x) (zseq 0 (Z.to_nat (r * c)))).
  set (w' := {| b3 := b3 w; sms := sms w; dms := dms w ++ [(d, r, c)] |}).
  assert (Eg : getdm w' (length (dms w)) = (d, r, c)).
  { unfold getdm, w'. cbn [dms]. rewrite app_nth2 by lia. rewrite Nat.sub_diag. auto. }
  assert (Hok : dm_ok w' (length (dms w))).
  { unfold dm_ok. rewrite Eg. split.
    - unfold hasdm, w'. cbn [dms]. rewrite app_length. simpl. lia.
    - split; [tauto|]. split; [tauto|]. unfold zlen, d. rewrite map_length, zseq_length. nia. }
  split; [auto|]. split; [auto|]. split; [auto|]. split.
  { intros k Hk. unfold getdm, w'. cbn [dms]. apply app_nth1. auto. }
  split; [rewrite app_length; simpl; lia|]. split; [exact Hok|]. split.
  - unfold mdims. rewrite Eg. auto.
  - rewrite (mabs_dense w' _ Hok), Eg. cbn [fst]. unfold d. rewrite (mabs_mrd w x r c Ed). auto.
Qed.

(* AsSparse<T>Matrix of a dense matrix: the non-zero elements are stored *)
Lemma step_assparsem_dense y w k :
  WInv (sw (b3 w)) -> WWf (sw (b3 w)) -> dm_ok w k ->
  let res := step4 y w (AsSparseM (XD k)) in
  let m := length (sms w) in
  let t := length (vecs (sw (b3 w))) in
  ok_out4 res /\ dms (fst res) = dms w /\ dn (b3 (fst res)) = dn (b3 w) /\
  (exists r c, sms (fst res) = sms w ++ [(t, r, c)]) /\
  GoodM (fst res) m /\ mvec (fst res) m = t /\ mdims (fst res) (XS m) = mdims w (XD k) /\
  G t (sw (b3 (fst res))) /\ length (vecs (sw (b3 (fst res)))) = S t /\
  (forall u, u <> t -> dim (getv (sw (b3 (fst res))) u) = dim (getv (sw (b3 w)) u)) /\
  (forall u, u <> t -> sabs (sw (b3 (fst res))) u = sabs (sw (b3 w)) u) /\
  mabs (fst res) (XS m) = mabs w (XD k).
Proof.
  intros HI HW Hk. cbn [step4]. pose proof (mabs_dense w k Hk) as Hm.
  assert (Edm : mdims w (XD k) = (snd (fst (getdm w k)), snd (getdm w k)))
    by (unfold mdims; destruct (getdm w k) as [[d r] c]; auto).
  unfold dm_ok in Hk. destruct (getdm w k) as [[d r] c] eqn:Eg. cbn [fst snd] in *.
  destruct Hk as (_ & Hr & Hc & Hd).
  set (s := sw (b3 w)). set (l := combine (zseq 0 (length d)) d).
  assert (El : l = map (fun i => (i, ord s (OD d) i)) (zseq 0 (length d))) by apply combine_zseq_ord.
  assert (Hkeys : map fst l = zseq 0 (length d)).
  { rewrite El, map_map. simpl. apply map_id. }
  assert (Hn : 0 <= r * c) by nia.
  destruct (new_sparse_spec s (r * c) (filter (fun kx => negb (snd kx =? 0)) l) HI HW Hn)
    as (s1 & E & G1 & L1 & Dt & D1 & R1 & F1).
  { intros i x Hin. apply filter_In in Hin. destruct Hin as [Hin _].
    assert (H : In i (map fst l)) by (apply in_map_iff; exists (i, x); auto).
    rewrite Hkeys in H. apply zseq_In in H. unfold zlen in Hd. lia. }
  rewrite E. cbv zeta. unfold ok_out4. cbn [fst snd sms dms b3 sets sw dn].
  destruct (new_sm_result w s1 (length (vecs s)) r c (fun i => nth (Z.to_nat i) d 0) Hr Hc G1 Dt) as (A & B & C & D).
  { intros i Hi. rewrite R1. apply put_nz_hit.
    - rewrite Hkeys. apply sset_NoDup. apply sset_zseq.
    - rewrite El. apply in_map_iff. exists i. split; [reflexivity|]. apply zseq_In. unfold zlen in Hd. lia. }
  cbv zeta in A, B, C, D.
  split; [auto|]. split; [auto|]. split; [auto|]. split; [exists r, c; auto|]. split; [exact A|]. split; [exact B|].
  split; [rewrite C, Edm; auto|]. split; [exact G1|]. split; [exact L1|]. split; [exact D1|]. split.
  - intros u N. rewrite (sabs_peek s1 u _ (D1 u N)), (sabs_peek s u _ eq_refl).
    apply map_ext. intro i. apply F1. auto.
  - rewrite D, Hm.
    pose proof (oabs_ord s (OD d) (r * c)) as O. simpl in O. symmetry. apply O. exact Hd.
Qed.
(* AsSparseM (XS k) is C11's Clone of the values vector: C11's subject, not treated here. *)
