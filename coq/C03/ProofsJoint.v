(* C03 — the joint iterators: which index is visited next, which iterators
   deliver, and the loops built on them. *)
From Coq Require Import ZArith List Bool Lia Sorted.
From ADV Require Import C11.Model C11.Spec C11.ProofsMap C11.ProofsIter C11.ProofsInv C11.ProofsRef
                        C03.Model C03.Spec C03.ProofsSem.
Import ListNotations.
Open Scope Z_scope.

(* ---- the selection of JOINT3_ITERATOR.Next() on candidate indices ------------- *)
Definition isS {X} (o : option X) : bool := match o with Some _ => true | None => false end.
Definition sel3 (c1 c2 c3 : option Z) (stale : Z) : Z * bool * bool * bool :=
  let ok1 := isS c1 in
  let i0 := match c1 with Some k => k | None => stale end in
  let '(i1, d1a, d2a) :=
    match c2 with
    | Some i2 => if (i2 <? i0) || negb ok1 then (i2, false, true)
                 else if i0 =? i2 then (i0, ok1, true) else (i0, ok1, false)
    | None => (i0, ok1, false)
    end in
  match c3 with
  | Some i => if (i <? i1) || (negb ok1 && negb (isS c2)) then (i, false, false, true)
              else if i1 =? i then (i1, d1a, d2a, true) else (i1, d1a, d2a, false)
  | None => (i1, d1a, d2a, false)
  end.

Lemma sel3_spec c1 c2 c3 stale i d1 d2 d3 :
  sel3 c1 c2 c3 stale = (i, d1, d2, d3) ->
  (d1 = true -> c1 = Some i) /\ (d1 = false -> forall k, c1 = Some k -> i < k) /\
  (d2 = true -> c2 = Some i) /\ (d2 = false -> forall k, c2 = Some k -> i < k) /\
  (d3 = true -> c3 = Some i) /\ (d3 = false -> forall k, c3 = Some k -> i < k) /\
  (isS c1 || isS c2 || isS c3 = d1 || d2 || d3).
Proof.
  unfold sel3. destruct c1 as [a|], c2 as [b|], c3 as [c|]; cbn [isS negb andb orb];
    rewrite ?orb_false_r, ?orb_true_r, ?andb_false_r;
    repeat match goal with
           | |- context [if ?x then _ else _] => destruct x eqn:?
           end;
    intro E; inversion E; subst; clear E;
    repeat match goal with
           | H : (_ <? _) = true |- _ => apply Z.ltb_lt in H
           | H : (_ <? _) = false |- _ => apply Z.ltb_ge in H
           | H : (_ =? _) = true |- _ => apply Z.eqb_eq in H
           | H : (_ =? _) = false |- _ => apply Z.eqb_neq in H
           end;
    repeat split; intros; try discriminate; try congruence;
    try match goal with H : Some _ = Some _ |- _ => inversion H; subst; clear H end; try lia;
    try (f_equal; lia).
Qed.

(* JOINT3_ITERATOR.Next() in terms of the selection and the three advances *)
Lemma joint3_next_eq w t j :
  joint3_next w t j =
  let '(i, d1, d2, d3) := sel3 (k1 j) (cand (k2 j)) (cand (k3 j)) (kidx j) in
  let s1 := if d1 then match k1 j with Some k => lookup k (vals (getv w t)) | None => None end else None in
  let s2 := if d2 then ci_get w (k2 j) else None in
  let s3 := if d3 then ci_get w (k3 j) else None in
  let ok := match s1, s2, s3 with None, None, None => false | _, _, _ => true end in
  match adv1 t w s1 (k1 j) with
  | None => None
  | Some (w1, c1) =>
      match advc w1 s2 (k2 j) with
      | None => None
      | Some (w2, c2) =>
          match advc w2 s3 (k3 j) with
          | None => None
          | Some (w3, c3) =>
              Some (w3, {| k1 := c1; k2 := c2; k3 := c3; kidx := i; ks1 := s1; ks2 := s2; ks3 := s3; kok := ok |})
          end
      end
  end.
Proof.
  unfold joint3_next, sel3, cand, adv1, advc.
  destruct (k1 j) as [a|]; destruct (ci_ok (k2 j)); destruct (ci_ok (k3 j));
    cbn [isS negb andb orb]; rewrite ?orb_false_r, ?orb_true_r, ?andb_false_r;
    repeat match goal with
           | |- context [if ?x then _ else _] => destruct x eqn:?
           end; reflexivity.
Qed.

(* ---- the body's write: s_r (the delivered cell or r.AT(idx)) := x -------------- *)
Section Write.
Variable t : nat.

(* what both routes of [wr] have in common *)
Lemma write_frame w w1 h' v' l i x :
  G t w ->
  hp w1 = hset h' l x ->
  (length (hp w) <= length h')%nat ->
  (forall l', (l' < length (hp w))%nat -> hget h' l' = hget (hp w) l') ->
  length (vecs w1) = length (vecs w) ->
  (forall u, u <> t -> getv w1 u = getv w u) -> getv w1 t = v' ->
  lookup i (vals v') = Some l ->
  (forall k, k <> i -> lookup k (vals v') = lookup k (vals (getv w t))) ->
  (l < length h')%nat -> Inv v' ->
  (forall k, k <> i -> lookup k (vals (getv w t)) <> Some l) ->
  (forall u, u <> t -> ~ cell_in (getv w u) l) ->
  G t w1 /\
  peek (hp w1) (getv w1 t) i = x /\
  (forall k, k <> i -> peek (hp w1) (getv w1 t) k = peek (hp w) (getv w t) k /\
                       isnull (hp w1) (getv w1 t) k = isnull (hp w) (getv w t) k) /\
  (forall u k, u <> t -> peek (hp w1) (getv w1 u) k = peek (hp w) (getv w u) k /\
                         isnull (hp w1) (getv w1 u) k = isnull (hp w) (getv w u) k).
Proof.
  intros (GI & GW & GS & GH) Hh Hlen Hext Hvl Hu Ht Li Lk Ll Iv' Dr Du.
  assert (Hold : forall u k l', lookup k (vals (getv w u)) = Some l' -> (l' < length (hp w))%nat)
    by (intros u k l' L; eapply (proj1 (GW u)); eauto).
  assert (Hget : forall l', (l' < length (hp w))%nat -> l' <> l -> hget (hp w1) l' = hget (hp w) l').
  { intros l' A B. rewrite Hh, hget_hset_neq by auto. auto. }
  split; [split; [|split; [|split]]|split; [|split]].
  - intro u. destruct (Nat.eq_dec u t) as [->|N]; [rewrite Ht; auto|rewrite Hu; auto].
  - intro u. rewrite Hh. destruct (Nat.eq_dec u t) as [->|N].
    + rewrite Ht. split.
      * intros k l' L. rewrite hset_length. destruct (Z.eq_dec k i) as [->|NK].
        { rewrite Li in L. inversion L. subst. auto. }
        { rewrite Lk in L by auto. apply Hold in L. lia. }
      * intros ka kb l' La Lb.
        destruct (Z.eq_dec ka i) as [->|Na]; destruct (Z.eq_dec kb i) as [->|Nb]; auto.
        { rewrite Li in La. inversion La. subst l'. rewrite Lk in Lb by auto. exfalso. eapply Dr; eauto. }
        { rewrite Li in Lb. inversion Lb. subst l'. rewrite Lk in La by auto. exfalso. eapply Dr; eauto. }
        { rewrite Lk in La, Lb by auto. eapply (proj2 (GW t)); eauto. }
    + rewrite Hu by auto. split.
      * intros k l' L. rewrite hset_length. apply Hold in L. lia.
      * apply (proj2 (GW u)).
  - intros u l' N (ka & La) (kb & Lb). rewrite Ht in La. rewrite Hu in Lb by auto.
    destruct (Z.eq_dec ka i) as [->|Na].
    + rewrite Li in La. inversion La. subst l'. apply (Du u N). exists kb. auto.
    + rewrite Lk in La by auto. apply (GS u l' N); [exists ka|exists kb]; auto.
  - unfold has in *. lia.
  - unfold peek. rewrite Ht, Li, Hh. apply hget_hset_eq. auto.
  - intros k N. unfold peek, isnull. rewrite Ht, Lk by auto.
    destruct (lookup k (vals (getv w t))) as [l'|] eqn:L; auto.
    rewrite Hget; auto.
    + eapply Hold; eauto.
    + intro. subst l'. eapply Dr; eauto.
  - intros u k N. unfold peek, isnull. rewrite Hu by auto.
    destruct (lookup k (vals (getv w u))) as [l'|] eqn:L; auto.
    rewrite Hget; auto.
    + eapply Hold; eauto.
    + intro. subst l'. apply (Du u N). exists k. auto.
Qed.

Lemma wr_spec w i s1 x :
  G t w -> 0 <= i < dim (getv w t) ->
  (forall l, s1 = Some l -> lookup i (vals (getv w t)) = Some l) ->
  exists w1, wr w t i s1 x = Some w1 /\ G t w1 /\
    length (vecs w1) = length (vecs w) /\
    (forall u, dim (getv w1 u) = dim (getv w u)) /\
    peek (hp w1) (getv w1 t) i = x /\
    (forall k, k <> i -> peek (hp w1) (getv w1 t) k = peek (hp w) (getv w t) k /\
                         isnull (hp w1) (getv w1 t) k = isnull (hp w) (getv w t) k) /\
    (forall u k, u <> t -> peek (hp w1) (getv w1 u) k = peek (hp w) (getv w u) k /\
                           isnull (hp w1) (getv w1 u) k = isnull (hp w) (getv w u) k).
Proof.
  intros HG Hi Hs. pose proof HG as (GI & GW & GS & GH).
  assert (Case1 : forall l, lookup i (vals (getv w t)) = Some l ->
            forall w1, hp w1 = hset (hp w) l x -> length (vecs w1) = length (vecs w) ->
            (forall u, getv w1 u = getv w u) ->
            G t w1 /\ length (vecs w1) = length (vecs w) /\
            (forall u, dim (getv w1 u) = dim (getv w u)) /\
            peek (hp w1) (getv w1 t) i = x /\
            (forall k, k <> i -> peek (hp w1) (getv w1 t) k = peek (hp w) (getv w t) k /\
                                 isnull (hp w1) (getv w1 t) k = isnull (hp w) (getv w t) k) /\
            (forall u k, u <> t -> peek (hp w1) (getv w1 u) k = peek (hp w) (getv w u) k /\
                                   isnull (hp w1) (getv w1 u) k = isnull (hp w) (getv w u) k)).
  { intros l L w1 Hh Hl Hv.
    destruct (write_frame w w1 (hp w) (getv w t) l i x) as (A & B & C & D); auto.
    - eapply (proj1 (GW t)); eauto.
    - intros k N L'. apply N. eapply (proj2 (GW t)); eauto.
    - intros u N (k & L'). apply (GS u l N); [exists i|exists k]; auto.
    - split; [exact A|]. split; [exact Hl|]. split; [intro u; rewrite Hv; auto|].
      split; [exact B|]. split; [exact C|exact D]. }
  unfold wr. destruct s1 as [l|].
  - eexists. split; [reflexivity|]. apply (Case1 l); auto.
  - unfold at_, in_bounds.
    assert (E : (0 <=? i) && (i <? dim (getv w t)) = true)
      by (apply andb_true_iff; split; [apply Z.leb_le|apply Z.ltb_lt]; lia).
    rewrite E. destruct (lookup i (vals (getv w t))) as [l|] eqn:L.
    + eexists. split; [reflexivity|]. apply (Case1 l); auto.
      * simpl. apply upd_length.
      * intro u. simpl. destruct (Nat.eq_dec t u) as [<-|N].
        { rewrite getv_seth, getv_setv_eq; auto. }
        { rewrite getv_seth, getv_setv_neq; auto. }
    + cbn [halloc]. eexists. split; [reflexivity|].
      set (h := hp w). set (v := getv w t).
      set (v' := {| vals := insert i (length h) (vals v); idx := kins i (idx v); dim := dim v |}).
      set (w1 := seth (setv w t v') (hset (h ++ [0]) (length h) x)).
      assert (Ht : getv w1 t = v') by (unfold w1; rewrite getv_seth, getv_setv_eq; auto).
      assert (Hu : forall u, u <> t -> getv w1 u = getv w u)
        by (intros u N; unfold w1; rewrite getv_seth, getv_setv_neq; auto).
      destruct (write_frame w w1 (h ++ [0]) v' (length h) i x) as (A & B & C & D); auto.
      * unfold h. rewrite app_length. simpl. lia.
      * intros l' Hl'. unfold hget. apply app_nth1. auto.
      * unfold w1. simpl. apply upd_length.
      * unfold v'. cbn [vals]. apply lookup_insert_eq.
      * intros k N. unfold v'. cbn [vals]. apply lookup_insert_neq. auto.
      * rewrite app_length. simpl. lia.
      * unfold v'. apply Inv_add; [apply GI|auto].
      * intros k N L'. apply (proj1 (GW t)) in L'. fold h in L'. lia.
      * intros u N (k & L'). apply (proj1 (GW u)) in L'. fold h in L'. lia.
      * split; [exact A|]. split; [unfold w1; simpl; apply upd_length|].
        split; [intro u; destruct (Nat.eq_dec u t) as [->|N]; [rewrite Ht; auto|rewrite Hu; auto]|].
        split; [exact B|]. split; [exact C|exact D].
Qed.
End Write.
