(* C03 — the joint iterators: which index is visited next, which iterators
   deliver, and the loops built on them. *)
From Coq Require Import ZArith List Bool Lia Sorted.
From ADV Require Import C11.Model C11.Spec C11.ProofsMap C11.ProofsIter C11.ProofsInv C11.ProofsRef
                        C03.Model C03.Spec C03.ProofsSem.
Import ListNotations.
Open Scope Z_scope.

(* ---- the selection of JOINT3_ITERATOR.Next() on candidate indices ------------- *)
Definition isS {X} (o : option X) : bool := match o with Some _ => true | None => false end.
Definition sel3 (c1 c2 c3 : option Z) (stale : Z) : Z * bool * bool * bool :=
  let ok1 := isS c1 in
  let i0 := match c1 with Some k => k | None => stale end in
  let '(i1, d1a, d2a) :=
    match c2 with
    | Some i2 => if (i2 <? i0) || negb ok1 then (i2, false, true)
                 else if i0 =? i2 then (i0, ok1, true) else (i0, ok1, false)
    | None => (i0, ok1, false)
    end in
  match c3 with
  | Some i => if (i <? i1) || (negb ok1 && negb (isS c2)) then (i, false, false, true)
              else if i1 =? i then (i1, d1a, d2a, true) else (i1, d1a, d2a, false)
  | None => (i1, d1a, d2a, false)
  end.

Lemma sel3_spec c1 c2 c3 stale i d1 d2 d3 :
  sel3 c1 c2 c3 stale = (i, d1, d2, d3) ->
  (d1 = true -> c1 = Some i) /\ (d1 = false -> forall k, c1 = Some k -> i < k) /\
  (d2 = true -> c2 = Some i) /\ (d2 = false -> forall k, c2 = Some k -> i < k) /\
  (d3 = true -> c3 = Some i) /\ (d3 = false -> forall k, c3 = Some k -> i < k) /\
  (isS c1 || isS c2 || isS c3 = d1 || d2 || d3).
Proof.
  unfold sel3. destruct c1 as [a|], c2 as [b|], c3 as [c|]; cbn [isS negb andb orb];
    rewrite ?orb_false_r, ?orb_true_r, ?andb_false_r;
    repeat match goal with
           | |- context [if ?x then _ else _] => destruct x eqn:?
           end;
    intro E; inversion E; subst; clear E;
    repeat match goal with
           | H : (_ <? _) = true |- _ => apply Z.ltb_lt in H
           | H : (_ <? _) = false |- _ => apply Z.ltb_ge in H
           | H : (_ =? _) = true |- _ => apply Z.eqb_eq in H
           | H : (_ =? _) = false |- _ => apply Z.eqb_neq in H
           end;
    repeat split; intros; try discriminate; try congruence;
    try match goal with H : Some _ = Some _ |- _ => inversion H; subst; clear H end; try lia;
    try (f_equal; lia).
Qed.

(* JOINT3_ITERATOR.Next() in terms of the selection and the three advances *)
Lemma joint3_next_eq w t j :
  joint3_next w t j =
  let '(i, d1, d2, d3) := sel3 (k1 j) (cand (k2 j)) (cand (k3 j)) (kidx j) in
  let s1 := if d1 then match k1 j with Some k => lookup k (vals (getv w t)) | None => None end else None in
  let s2 := if d2 then ci_get w (k2 j) else None in
  let s3 := if d3 then ci_get w (k3 j) else None in
  let ok := match s1, s2, s3 with None, None, None => false | _, _, _ => true end in
  match adv1 t w s1 (k1 j) with
  | None => None
  | Some (w1, c1) =>
      match advc w1 s2 (k2 j) with
      | None => None
      | Some (w2, c2) =>
          match advc w2 s3 (k3 j) with
          | None => None
          | Some (w3, c3) =>
              Some (w3, {| k1 := c1; k2 := c2; k3 := c3; kidx := i; ks1 := s1; ks2 := s2; ks3 := s3; kok := ok |})
          end
      end
  end.
Proof.
  unfold joint3_next, sel3, cand, adv1, advc.
  destruct (k1 j) as [a|]; destruct (ci_ok (k2 j)); destruct (ci_ok (k3 j));
    cbn [isS negb andb orb]; rewrite ?orb_false_r, ?orb_true_r, ?andb_false_r;
    repeat match goal with
           | |- context [if ?x then _ else _] => destruct x eqn:?
           end; reflexivity.
Qed.

(* ---- the body's write: s_r (the delivered cell or r.AT(idx)) := x -------------- *)
Section Write.
Variable t : nat.

(* what both routes of [wr] have in common *)
Lemma write_frame w w1 h' v' l i x :
  G t w ->
  hp w1 = hset h' l x ->
  (length (hp w) <= length h')%nat ->
  (forall l', (l' < length (hp w))%nat -> hget h' l' = hget (hp w) l') ->
  length (vecs w1) = length (vecs w) ->
  (forall u, u <> t -> getv w1 u = getv w u) -> getv w1 t = v' ->
  lookup i (vals v') = Some l ->
  (forall k, k <> i -> lookup k (vals v') = lookup k (vals (getv w t))) ->
  (l < length h')%nat -> Inv v' ->
  (forall k, k <> i -> lookup k (vals (getv w t)) <> Some l) ->
  (forall u, u <> t -> ~ cell_in (getv w u) l) ->
  G t w1 /\
  peek (hp w1) (getv w1 t) i = x /\
  (forall k, k <> i -> peek (hp w1) (getv w1 t) k = peek (hp w) (getv w t) k /\
                       isnull (hp w1) (getv w1 t) k = isnull (hp w) (getv w t) k) /\
  (forall u k, u <> t -> peek (hp w1) (getv w1 u) k = peek (hp w) (getv w u) k /\
                         isnull (hp w1) (getv w1 u) k = isnull (hp w) (getv w u) k).
Proof.
  intros (GI & GW & GS & GH) Hh Hlen Hext Hvl Hu Ht Li Lk Ll Iv' Dr Du.
  assert (Hold : forall u k l', lookup k (vals (getv w u)) = Some l' -> (l' < length (hp w))%nat)
    by (intros u k l' L; eapply (proj1 (GW u)); eauto).
  assert (Hget : forall l', (l' < length (hp w))%nat -> l' <> l -> hget (hp w1) l' = hget (hp w) l').
  { intros l' A B. rewrite Hh, hget_hset_neq by auto. auto. }
  split; [split; [|split; [|split]]|split; [|split]].
  - intro u. destruct (Nat.eq_dec u t) as [->|N]; [rewrite Ht; auto|rewrite Hu; auto].
  - intro u. rewrite Hh. destruct (Nat.eq_dec u t) as [->|N].
    + rewrite Ht. split.
      * intros k l' L. rewrite hset_length. destruct (Z.eq_dec k i) as [->|NK].
        { rewrite Li in L. inversion L. subst. auto. }
        { rewrite Lk in L by auto. apply Hold in L. lia. }
      * intros ka kb l' La Lb.
        destruct (Z.eq_dec ka i) as [->|Na]; destruct (Z.eq_dec kb i) as [->|Nb]; auto.
        { rewrite Li in La. inversion La. subst l'. rewrite Lk in Lb by auto. exfalso. eapply Dr; eauto. }
        { rewrite Li in Lb. inversion Lb. subst l'. rewrite Lk in La by auto. exfalso. eapply Dr; eauto. }
        { rewrite Lk in La, Lb by auto. eapply (proj2 (GW t)); eauto. }
    + rewrite Hu by auto. split.
      * intros k l' L. rewrite hset_length. apply Hold in L. lia.
      * apply (proj2 (GW u)).
  - intros u l' N (ka & La) (kb & Lb). rewrite Ht in La. rewrite Hu in Lb by auto.
    destruct (Z.eq_dec ka i) as [->|Na].
    + rewrite Li in La. inversion La. subst l'. apply (Du u N). exists kb. auto.
    + rewrite Lk in La by auto. apply (GS u l' N); [exists ka|exists kb]; auto.
  - unfold has in *. lia.
  - unfold peek. rewrite Ht, Li, Hh. apply hget_hset_eq. auto.
  - intros k N. unfold peek, isnull. rewrite Ht, Lk by auto.
    destruct (lookup k (vals (getv w t))) as [l'|] eqn:L; auto.
    rewrite Hget; auto.
    + eapply Hold; eauto.
    + intro. subst l'. eapply Dr; eauto.
  - intros u k N. unfold peek, isnull. rewrite Hu by auto.
    destruct (lookup k (vals (getv w u))) as [l'|] eqn:L; auto.
    rewrite Hget; auto.
    + eapply Hold; eauto.
    + intro. subst l'. apply (Du u N). exists k. auto.
Qed.

Lemma wr_spec w i s1 x :
  G t w -> 0 <= i < dim (getv w t) ->
  (forall l, s1 = Some l -> lookup i (vals (getv w t)) = Some l) ->
  exists w1, wr w t i s1 x = Some w1 /\ G t w1 /\
    length (vecs w1) = length (vecs w) /\
    (forall u, dim (getv w1 u) = dim (getv w u)) /\
    peek (hp w1) (getv w1 t) i = x /\
    (forall k, k <> i -> peek (hp w1) (getv w1 t) k = peek (hp w) (getv w t) k /\
                         isnull (hp w1) (getv w1 t) k = isnull (hp w) (getv w t) k) /\
    (forall u k, u <> t -> peek (hp w1) (getv w1 u) k = peek (hp w) (getv w u) k /\
                           isnull (hp w1) (getv w1 u) k = isnull (hp w) (getv w u) k).
Proof.
  intros HG Hi Hs. pose proof HG as (GI & GW & GS & GH).
  assert (Case1 : forall l, lookup i (vals (getv w t)) = Some l ->
            forall w1, hp w1 = hset (hp w) l x -> length (vecs w1) = length (vecs w) ->
            (forall u, getv w1 u = getv w u) ->
            G t w1 /\ length (vecs w1) = length (vecs w) /\
            (forall u, dim (getv w1 u) = dim (getv w u)) /\
            peek (hp w1) (getv w1 t) i = x /\
            (forall k, k <> i -> peek (hp w1) (getv w1 t) k = peek (hp w) (getv w t) k /\
                                 isnull (hp w1) (getv w1 t) k = isnull (hp w) (getv w t) k) /\
            (forall u k, u <> t -> peek (hp w1) (getv w1 u) k = peek (hp w) (getv w u) k /\
                                   isnull (hp w1) (getv w1 u) k = isnull (hp w) (getv w u) k)).
  { intros l L w1 Hh Hl Hv.
    destruct (write_frame w w1 (hp w) (getv w t) l i x) as (A & B & C & D); auto.
    - eapply (proj1 (GW t)); eauto.
    - intros k N L'. apply N. eapply (proj2 (GW t)); eauto.
    - intros u N (k & L'). apply (GS u l N); [exists i|exists k]; auto.
    - split; [exact A|]. split; [exact Hl|]. split; [intro u; rewrite Hv; auto|].
      split; [exact B|]. split; [exact C|exact D]. }
  unfold wr. destruct s1 as [l|].
  - eexists. split; [reflexivity|]. apply (Case1 l); auto.
  - unfold at_, in_bounds.
    assert (E : (0 <=? i) && (i <? dim (getv w t)) = true)
      by (apply andb_true_iff; split; [apply Z.leb_le|apply Z.ltb_lt]; lia).
    rewrite E. destruct (lookup i (vals (getv w t))) as [l|] eqn:L.
    + eexists. split; [reflexivity|]. apply (Case1 l); auto.
      * simpl. apply upd_length.
      * intro u. simpl. destruct (Nat.eq_dec t u) as [<-|N].
        { rewrite getv_seth, getv_setv_eq; auto. }
        { rewrite getv_seth, getv_setv_neq; auto. }
    + cbn [halloc]. eexists. split; [reflexivity|].
      set (h := hp w). set (v := getv w t).
      set (v' := {| vals := insert i (length h) (vals v); idx := kins i (idx v); dim := dim v |}).
      set (w1 := seth (setv w t v') (hset (h ++ [0]) (length h) x)).
      assert (Ht : getv w1 t = v') by (unfold w1; rewrite getv_seth, getv_setv_eq; auto).
      assert (Hu : forall u, u <> t -> getv w1 u = getv w u)
        by (intros u N; unfold w1; rewrite getv_seth, getv_setv_neq; auto).
      destruct (write_frame w w1 (h ++ [0]) v' (length h) i x) as (A & B & C & D); auto.
      * unfold h. rewrite app_length. simpl. lia.
      * intros l' Hl'. unfold hget. apply app_nth1. auto.
      * unfold w1. simpl. apply upd_length.
      * unfold v'. cbn [vals]. apply lookup_insert_eq.
      * intros k N. unfold v'. cbn [vals]. apply lookup_insert_neq. auto.
      * rewrite app_length. simpl. lia.
      * unfold v'. apply Inv_add; [apply GI|auto].
      * intros k N L'. apply (proj1 (GW t)) in L'. fold h in L'. lia.
      * intros u N (k & L'). apply (proj1 (GW u)) in L'. fold h in L'. lia.
      * split; [exact A|]. split; [unfold w1; simpl; apply upd_length|].
        split; [intro u; destruct (Nat.eq_dec u t) as [->|N]; [rewrite Ht; auto|rewrite Hu; auto]|].
        split; [exact B|]. split; [exact C|exact D].
Qed.
End Write.

(* ---- one step of the three-way joint iterator ---------------------------------- *)
Lemma Pos_Qw t w w' c p : Pos (hp w) (getv w t) c p -> Qw w w' -> Pos (hp w') (getv w' t) c p.
Proof. intros P (E1 & _ & E3). rewrite E1. eapply Pos_Q; [apply E3|auto]. Qed.
Lemma Qw_dim w w' u : Qw w w' -> dim (getv w' u) = dim (getv w u).
Proof. intros (_ & _ & E3). destruct (E3 u) as ((_ & _ & D) & _). auto. Qed.
Lemma Qw_lookup w w' u k :
  Qw w w' -> isnull (hp w) (getv w u) k = false -> lookup k (vals (getv w' u)) = lookup k (vals (getv w u)).
Proof. intros (_ & _ & E3) N. destruct (E3 u) as ((_ & C & _) & _). auto. Qed.
Lemma Qw_peek w w' u k : Qw w w' -> peek (hp w') (getv w' u) k = peek (hp w) (getv w u) k.
Proof. intros (E1 & _ & E3). rewrite E1. apply Q_peek. apply E3. Qed.

Section Joint3.
Variable t : nat.
Variable n : Z.

(* facts about one operand at the selected index i *)
Lemma op_facts w c V p i (d : bool) :
  G t w -> CPos t n w c V p -> 0 <= p -> p <= i ->
  (d = true -> cand c = Some i) -> (d = false -> forall k, cand c = Some k -> i < k) ->
  (forall x, p <= x < i -> V x = 0) /\ jval (if d then ci_get w c else None) = V i /\
  (d = true -> (if d then ci_get w c else None) <> None) /\
  (d = false -> (if d then ci_get w c else None) = None).
Proof.
  intros HG HC Hp Hi H1 H2. destruct d.
  - destruct (CPos_cand t n w c V p i HG HC Hp (H1 eq_refl)) as (X & Y & Z1).
    rewrite Y. simpl. split; [exact Z1|]. split; [auto|]. split; [intros _; discriminate|intro; discriminate].
  - simpl. assert (ZZ : forall x, p <= x <= i -> V x = 0).
    { destruct (cand c) as [k|] eqn:E.
      + pose proof (H2 eq_refl k eq_refl) as Hk.
        destruct (CPos_cand t n w c V p k HG HC Hp E) as (X & Y & Z1). intros x Hx. apply Z1. lia.
      + pose proof (CPos_none t n w c V p HC E) as Z1. intros x Hx. apply Z1. lia. }
    split; [intros x Hx; apply ZZ; lia|]. split; [symmetry; apply ZZ; lia|].
    split; [intro; discriminate|auto].
Qed.
Lemma op_range w c V p i : G t w -> CPos t n w c V p -> 0 <= p -> cand c = Some i -> p <= i < n.
Proof. intros HG HC Hp E. apply (CPos_cand t n w c V p i HG HC Hp E). Qed.

Definition s1_of (w : world) (c : option Z) (d : bool) : option loc :=
  if d then match c with Some k => lookup k (vals (getv w t)) | None => None end else None.
Lemma r_facts w c p i (d : bool) :
  G t w -> dim (getv w t) = n -> Pos (hp w) (getv w t) c p -> p <= i ->
  (d = true -> c = Some i) -> (d = false -> forall k, c = Some k -> i < k) ->
  (forall x, p <= x < i -> peek (hp w) (getv w t) x = 0) /\
  (d = true -> exists l, s1_of w c d = Some l /\ lookup i (vals (getv w t)) = Some l /\
                         isnull (hp w) (getv w t) i = false) /\
  (d = false -> s1_of w c d = None /\ peek (hp w) (getv w t) i = 0).
Proof.
  intros HG Hn HP Hi H1 H2. unfold s1_of. destruct d.
  - rewrite (H1 eq_refl) in *. simpl in HP. destruct HP as (P1 & P2 & P3).
    destruct (nonnull_lookup _ _ _ P2) as (l & L & _).
    split; [exact P3|]. split; [intros _; exists l; auto|intro; discriminate].
  - assert (ZZ : forall x, p <= x <= i -> peek (hp w) (getv w t) x = 0).
    { destruct c as [k|]; simpl in HP.
      + pose proof (H2 eq_refl k eq_refl) as Hk. destruct HP as (P1 & P2 & P3).
        intros x Hx. apply P3. lia.
      + intros x Hx. apply HP. lia. }
    split; [intros x Hx; apply ZZ; lia|]. split; [intro; discriminate|].
    intros _. split; [auto|apply ZZ; lia].
Qed.
Lemma r_range w p i :
  G t w -> dim (getv w t) = n -> 0 <= p -> Pos (hp w) (getv w t) (Some i) p -> p <= i < n.
Proof.
  intros (GI & _) Hn Hp (P1 & P2 & _). destruct (nonnull_lookup _ _ _ P2) as (l & L & _).
  destruct (GI t) as (_ & _ & H3 & H4 & _). apply H3 in L. apply H4 in L. lia.
Qed.

Variables A B : Z -> Z.
Definition J3 (w : world) (j : joint3) (p : Z) : Prop :=
  G t w /\ dim (getv w t) = n /\ 0 <= p /\
  Pos (hp w) (getv w t) (k1 j) p /\ CPos t n w (k2 j) A p /\ CPos t n w (k3 j) B p.

Lemma joint3_next_spec w j p :
  J3 w j p ->
  exists w' j', joint3_next w t j = Some (w', j') /\ Qw w w' /\ G t w' /\
    ((kok j' = false /\
      forall i, p <= i -> peek (hp w) (getv w t) i = 0 /\ A i = 0 /\ B i = 0) \/
     (kok j' = true /\ p <= kidx j' < n /\
      (forall i, p <= i < kidx j' -> peek (hp w) (getv w t) i = 0 /\ A i = 0 /\ B i = 0) /\
      jval (ks2 j') = A (kidx j') /\ jval (ks3 j') = B (kidx j') /\
      (forall l, ks1 j' = Some l -> lookup (kidx j') (vals (getv w' t)) = Some l) /\
      J3 w' j' (kidx j' + 1))).
Proof.
  intros (HG & Hn & Hp & P1 & C2 & C3).
  rewrite joint3_next_eq.
  destruct (sel3 (k1 j) (cand (k2 j)) (cand (k3 j)) (kidx j)) as [[[i d1] d2] d3] eqn:S.
  apply sel3_spec in S. destruct S as (S1 & S1' & S2 & S2' & S3 & S3' & SO).
  cbv zeta. fold (s1_of w (k1 j) d1).
  destruct (orb (orb d1 d2) d3) eqn:Any.
  - (* some iterator delivers *)
    assert (Hi : p <= i < n).
    { destruct d1; [rewrite (S1 eq_refl) in P1; eapply r_range; eauto|].
      destruct d2; [eapply op_range; [| exact C2| |]; eauto|].
      destruct d3; [eapply op_range; [| exact C3| |]; eauto|]. discriminate. }
    destruct (r_facts w (k1 j) p i d1 HG Hn P1 (proj1 Hi) S1 S1') as (R1 & R2 & R3).
    destruct (op_facts w (k2 j) A p i d2 HG C2 Hp (proj1 Hi) S2 S2') as (A1 & A2 & A3 & A4).
    destruct (op_facts w (k3 j) B p i d3 HG C3 Hp (proj1 Hi) S3 S3') as (B1 & B2 & B3 & B4).
    set (s1 := s1_of w (k1 j) d1) in *.
    set (s2 := if d2 then ci_get w (k2 j) else None) in *.
    set (s3 := if d3 then ci_get w (k3 j) else None) in *.
    (* advance the receiver's iterator *)
    destruct (adv1_spec t w (k1 j) p i s1 HG P1 (proj1 Hi)) as (w1 & c1 & E1 & Q1 & I1 & P1').
    { intro NE. apply S1. destruct d1; [reflexivity|exfalso; apply NE; apply (proj1 (R3 eq_refl))]. }
    { intro E. apply S1'. destruct d1; [|reflexivity]. destruct (R2 eq_refl) as (l & X & _). congruence. }
    rewrite E1.
    assert (G1 : G t w1) by (eapply G_Qw; eauto).
    destruct (advc_spec t n w1 (k2 j) A p i s2 G1 (CPos_Qw t n w w1 _ _ _ C2 Q1) (proj1 Hi))
      as (w2 & c2 & E2 & Q2 & I2 & C2').
    { intro NE. apply S2. destruct d2; [reflexivity|exfalso; apply NE; apply (A4 eq_refl)]. }
    { intro E. apply S2'. destruct d2; [|reflexivity]. exfalso. apply (A3 eq_refl E). }
    rewrite E2.
    assert (G2 : G t w2) by (eapply G_Qw; eauto).
    assert (Q02 : Qw w w2) by (eapply Qw_trans; eauto).
    destruct (advc_spec t n w2 (k3 j) B p i s3 G2 (CPos_Qw t n w w2 _ _ _ C3 Q02) (proj1 Hi))
      as (w3 & c3 & E3 & Q3 & I3 & C3').
    { intro NE. apply S3. destruct d3; [reflexivity|exfalso; apply NE; apply (B4 eq_refl)]. }
    { intro E. apply S3'. destruct d3; [|reflexivity]. exfalso. apply (B3 eq_refl E). }
    rewrite E3.
    assert (G3 : G t w3) by (eapply G_Qw; eauto).
    assert (Q03 : Qw w w3) by (eapply Qw_trans; eauto).
    assert (Q13 : Qw w1 w3) by (eapply Qw_trans; eauto).
    eexists. eexists. split; [reflexivity|]. split; [exact Q03|]. split; [exact G3|].
    right. cbn [kok kidx ks1 ks2 ks3 k1 k2 k3].
    split.
    { destruct d1; [destruct (R2 eq_refl) as (l & X & _); rewrite X; auto|].
      destruct d2; [destruct s2; [destruct s1; auto|exfalso; apply A3; auto]|].
      destruct d3; [|discriminate]. destruct s3; [destruct s1; destruct s2; auto|exfalso; apply B3; auto]. }
    split; [exact Hi|]. split; [intros x Hx; auto|]. split; [exact A2|]. split; [exact B2|].
    split.
    { intros l El. destruct d1.
      - destruct (R2 eq_refl) as (l' & X & L & N). rewrite (Qw_lookup w w3 t i Q03 N). congruence.
      - destruct (R3 eq_refl) as (X & _). congruence. }
    unfold J3. cbn [k1 k2 k3]. split; [exact G3|]. split; [rewrite (Qw_dim w w3 t Q03); auto|].
    split; [lia|]. split; [eapply Pos_Qw; eauto|]. split; [eapply CPos_Qw; eauto|exact C3'].
  - (* nothing left *)
    apply orb_false_iff in Any. destruct Any as [Any D3]. apply orb_false_iff in Any. destruct Any as [D1 D2].
    subst d1 d2 d3. rewrite orb_false_iff in SO. destruct SO as [SO E3']. rewrite orb_false_iff in SO.
    destruct SO as [E1' E2'].
    assert (K1 : k1 j = None) by (destruct (k1 j); auto; discriminate).
    assert (K2 : cand (k2 j) = None) by (destruct (cand (k2 j)); auto; discriminate).
    assert (K3 : cand (k3 j) = None) by (destruct (cand (k3 j)); auto; discriminate).
    unfold s1_of, adv1, advc. eexists. eexists. split; [reflexivity|]. split; [apply Qw_refl|]. split; [exact HG|].
    left. cbn [kok]. split; auto. intros x Hx. rewrite K1 in P1. simpl in P1.
    split; [auto|]. split; [eapply CPos_none; eauto|eapply CPos_none; eauto].
Qed.
End Joint3.

(* ---- frames ---------------------------------------------------------------------- *)
Lemma Pos_ext h v h' v' c p :
  (forall k, peek h' v' k = peek h v k /\ isnull h' v' k = isnull h v k) -> Pos h v c p -> Pos h' v' c p.
Proof.
  intro E. destruct c as [k|]; simpl.
  - intros (P1 & P2 & P3). split; [auto|]. split; [rewrite (proj2 (E k)); auto|].
    intros i Hi. rewrite (proj1 (E i)). auto.
  - intros P i Hi. rewrite (proj1 (E i)). auto.
Qed.
Lemma CPos_ext t n w c V V' p : (forall i, V i = V' i) -> CPos t n w c V p -> CPos t n w c V' p.
Proof.
  intro E. destruct c as [u cur|d pos]; simpl.
  - intros (N & Hu & Hd & HV & P). repeat split; auto. intro i. rewrite <- E. auto.
  - intros (Hd & HV & H0 & H1 & H2). split; [auto|]. split; [intros i Hi; rewrite <- E; auto|].
    split; [auto|]. split.
    + intro H. destruct (H1 H) as (X & Y). split; auto. intros i Hi. rewrite <- E. auto.
    + intros H i Hi. rewrite <- E. auto.
Qed.
(* an operand's iterator does not see the receiver's write *)
Lemma CPos_frame t n w w1 c V p :
  length (vecs w1) = length (vecs w) -> (forall u, dim (getv w1 u) = dim (getv w u)) ->
  (forall u k, u <> t -> peek (hp w1) (getv w1 u) k = peek (hp w) (getv w u) k /\
                         isnull (hp w1) (getv w1 u) k = isnull (hp w) (getv w u) k) ->
  CPos t n w c V p -> CPos t n w1 c V p.
Proof.
  intros Hl Hd Hf. destruct c as [u cur|d pos]; simpl; auto.
  intros (N & Hu & Hdim & HV & P). split; [auto|]. split; [unfold has in *; lia|].
  split; [rewrite Hd; auto|]. split.
  - intro i. rewrite (proj1 (Hf u i N)). auto.
  - eapply Pos_ext; [|exact P]. intro k. apply Hf. auto.
Qed.

(* ---- the loop: r[idx] := f(a[idx], b[idx]) at every visit ------------------------ *)
Section Loop3.
Variable t : nat.
Variable n : Z.
Variables A B : Z -> Z.
Variable f : Z -> Z -> Z.
Hypothesis f00 : f 0 0 = 0.

(* the state at the loop head: what the last Next() left *)
Definition Head (w : world) (j : joint3) (p : Z) : Prop :=
  (kok j = false /\ forall i, p <= i -> peek (hp w) (getv w t) i = 0 /\ A i = 0 /\ B i = 0) \/
  (kok j = true /\ p <= kidx j < n /\
   (forall i, p <= i < kidx j -> peek (hp w) (getv w t) i = 0 /\ A i = 0 /\ B i = 0) /\
   jval (ks2 j) = A (kidx j) /\ jval (ks3 j) = B (kidx j) /\
   (forall l, ks1 j = Some l -> lookup (kidx j) (vals (getv w t)) = Some l) /\
   J3 t n A B w j (kidx j + 1)).

Lemma next_Head w j p :
  J3 t n A B w j p ->
  exists w' j', joint3_next w t j = Some (w', j') /\ Qw w w' /\ G t w' /\ Head w' j' p.
Proof.
  intro HJ. destruct (joint3_next_spec t n A B w j p HJ) as (w' & j' & E & HQ & HG & [X|X]).
  - exists w', j'. split; [auto|]. split; [auto|]. split; [auto|]. left.
    destruct X as (X1 & X2). split; auto. intros i Hi. rewrite (Qw_peek w w' t i HQ). auto.
  - exists w', j'. split; [auto|]. split; [auto|]. split; [auto|]. right.
    destruct X as (X1 & X2 & X3 & X4 & X5 & X6 & X7).
    split; [auto|]. split; [auto|]. split; [|auto].
    intros i Hi. rewrite (Qw_peek w w' t i HQ). auto.
Qed.

Lemma map3_loop_spec : forall fuel w j p,
  G t w -> dim (getv w t) = n -> 0 <= p -> Head w j p ->
  (forall i, 0 <= i < p -> peek (hp w) (getv w t) i = f (A i) (B i)) ->
  (Z.to_nat (n - p) < fuel)%nat ->
  exists w', map3_loop f fuel w t j = Some (w', true) /\ G t w' /\ dim (getv w' t) = n /\
    length (vecs w') = length (vecs w) /\
    (forall i, 0 <= i < n -> peek (hp w') (getv w' t) i = f (A i) (B i)) /\
    (forall u k, u <> t -> peek (hp w') (getv w' u) k = peek (hp w) (getv w u) k) /\
    (forall u, dim (getv w' u) = dim (getv w u)).
Proof.
  induction fuel as [|fu IH]; intros w j p HG Hn Hp HH HD Hf; [lia|].
  destruct HH as [(K & Z0)|(K & Hi & Zg & VA & VB & HS & HJ)].
  - exists w. cbn [map3_loop]. rewrite K. split; [auto|]. split; [auto|]. split; [auto|]. split; [auto|].
    split; [|auto]. intros i Hi. destruct (Z_lt_ge_dec i p) as [L|L]; [apply HD; lia|].
    destruct (Z0 i) as (X & Y & Z1); [lia|]. rewrite X, Y, Z1. auto.
  - cbn [map3_loop]. rewrite K.
    destruct (wr_spec t w (kidx j) (ks1 j) (f (jval (ks2 j)) (jval (ks3 j))) HG) as
      (w1 & E1 & G1 & L1 & D1 & P1 & F1 & F2); [lia|exact HS|].
    rewrite E1.
    assert (HJ1 : J3 t n A B w1 j (kidx j + 1)).
    { destruct HJ as (_ & _ & Hp' & PP & C2 & C3). unfold J3.
      split; [auto|]. split; [rewrite D1; auto|]. split; [auto|]. split.
      - destruct (k1 j) as [k|]; simpl in *.
        + destruct PP as (Q1 & Q2 & Q3). split; [auto|]. split.
          * rewrite (proj2 (F1 k ltac:(lia))). auto.
          * intros i Hi'. rewrite (proj1 (F1 i ltac:(lia))). auto.
        + intros i Hi'. rewrite (proj1 (F1 i ltac:(lia))). auto.
      - split; eapply CPos_frame; eauto. }
    destruct (next_Head w1 j (kidx j + 1) HJ1) as (w2 & j' & E2 & Q2 & G2 & H2).
    rewrite E2.
    destruct (IH w2 j' (kidx j + 1)) as (w' & E3 & G3 & D3 & L3 & R3 & F3 & DD3); auto.
    + rewrite (Qw_dim w1 w2 t Q2), D1. auto.
    + lia.
    + intros i Hi'. rewrite (Qw_peek w1 w2 t i Q2).
      destruct (Z.eq_dec i (kidx j)) as [->|N].
      * rewrite P1, VA, VB. auto.
      * rewrite (proj1 (F1 i N)). apply HD. lia.
    + lia.
    + exists w'. split; [auto|]. split; [auto|]. split; [auto|].
      split; [destruct Q2 as (_ & X & _); lia|]. split; [auto|]. split.
      * intros u k N. rewrite F3 by auto. rewrite (Qw_peek w1 w2 u k Q2). apply F2. auto.
      * intro u. rewrite DD3, (Qw_dim w1 w2 u Q2). auto.
Qed.
End Loop3.
