(* C03 — the joint iterators: which index is visited next, which iterators
   deliver, and the loops built on them. *)
From Coq Require Import ZArith List Bool Lia Sorted.
From ADV Require Import C11.Model C11.Spec C11.ProofsMap C11.ProofsIter C11.ProofsInv C11.ProofsRef
                        C03.Model C03.Spec C03.ProofsDense C03.ProofsSem.
Import ListNotations.
Open Scope Z_scope.

(* ---- the selection of JOINT3_ITERATOR.Next() on candidate indices ------------- *)
Definition isS {X} (o : option X) : bool := match o with Some _ => true | None => false end.
Definition sel3 (c1 c2 c3 : option Z) (stale : Z) : Z * bool * bool * bool :=
  let ok1 := isS c1 in
  let i0 := match c1 with Some k => k | None => stale end in
  let '(i1, d1a, d2a) :=
    match c2 with
    | Some i2 => if (i2 <? i0) || negb ok1 then (i2, false, true)
                 else if i0 =? i2 then (i0, ok1, true) else (i0, ok1, false)
    | None => (i0, ok1, false)
    end in
  match c3 with
  | Some i => if (i <? i1) || (negb ok1 && negb (isS c2)) then (i, false, false, true)
              else if i1 =? i then (i1, d1a, d2a, true) else (i1, d1a, d2a, false)
  | None => (i1, d1a, d2a, false)
  end.

Lemma sel3_spec c1 c2 c3 stale i d1 d2 d3 :
  sel3 c1 c2 c3 stale = (i, d1, d2, d3) ->
  (d1 = true -> c1 = Some i) /\ (d1 = false -> forall k, c1 = Some k -> i < k) /\
  (d2 = true -> c2 = Some i) /\ (d2 = false -> forall k, c2 = Some k -> i < k) /\
  (d3 = true -> c3 = Some i) /\ (d3 = false -> forall k, c3 = Some k -> i < k) /\
  (isS c1 || isS c2 || isS c3 = d1 || d2 || d3).
Proof.
  unfold sel3. destruct c1 as [a|], c2 as [b|], c3 as [c|]; cbn [isS negb andb orb];
    rewrite ?orb_false_r, ?orb_true_r, ?andb_false_r;
    repeat match goal with
           | |- context [if ?x then _ else _] => destruct x eqn:?
           end;
    intro E; inversion E; subst; clear E;
    repeat match goal with
           | H : (_ <? _) = true |- _ => apply Z.ltb_lt in H
           | H : (_ <? _) = false |- _ => apply Z.ltb_ge in H
           | H : (_ =? _) = true |- _ => apply Z.eqb_eq in H
           | H : (_ =? _) = false |- _ => apply Z.eqb_neq in H
           end;
    repeat split; intros; try discriminate; try congruence;
    try match goal with H : Some _ = Some _ |- _ => inversion H; subst; clear H end; try lia;
    try (f_equal; lia).
Qed.

(* JOINT3_ITERATOR.Next() in terms of the selection and the three advances *)
Lemma joint3_next_eq w t j :
  joint3_next w t j =
  let '(i, d1, d2, d3) := sel3 (k1 j) (cand (k2 j)) (cand (k3 j)) (kidx j) in
  let s1 := if d1 then match k1 j with Some k => lookup k (vals (getv w t)) | None => None end else None in
  let s2 := if d2 then ci_get w (k2 j) else None in
  let s3 := if d3 then ci_get w (k3 j) else None in
  let ok := match s1, s2, s3 with None, None, None => false | _, _, _ => true end in
  match adv1 t w s1 (k1 j) with
  | None => None
  | Some (w1, c1) =>
      match advc w1 s2 (k2 j) with
      | None => None
      | Some (w2, c2) =>
          match advc w2 s3 (k3 j) with
          | None => None
          | Some (w3, c3) =>
              Some (w3, {| k1 := c1; k2 := c2; k3 := c3; kidx := i; ks1 := s1; ks2 := s2; ks3 := s3; kok := ok |})
          end
      end
  end.
Proof.
  unfold joint3_next, sel3, cand, adv1, advc.
  destruct (k1 j) as [a|]; destruct (ci_ok (k2 j)); destruct (ci_ok (k3 j));
    cbn [isS negb andb orb]; rewrite ?orb_false_r, ?orb_true_r, ?andb_false_r;
    repeat match goal with
           | |- context [if ?x then _ else _] => destruct x eqn:?
           end; reflexivity.
Qed.

(* ---- the body's write: s_r (the delivered cell or r.AT(idx)) := x -------------- *)
Section Write.
Variable t : nat.

(* what both routes of [wr] have in common *)
Lemma write_frame w w1 h' v' l i x :
  G t w ->
  hp w1 = hset h' l x ->
  (length (hp w) <= length h')%nat ->
  (forall l', (l' < length (hp w))%nat -> hget h' l' = hget (hp w) l') ->
  length (vecs w1) = length (vecs w) ->
  (forall u, u <> t -> getv w1 u = getv w u) -> getv w1 t = v' ->
  lookup i (vals v') = Some l ->
  (forall k, k <> i -> lookup k (vals v') = lookup k (vals (getv w t))) ->
  (l < length h')%nat -> Inv v' ->
  (forall k, k <> i -> lookup k (vals (getv w t)) <> Some l) ->
  (forall u, u <> t -> ~ cell_in (getv w u) l) ->
  G t w1 /\
  peek (hp w1) (getv w1 t) i = x /\
  (forall k, k <> i -> peek (hp w1) (getv w1 t) k = peek (hp w) (getv w t) k /\
                       isnull (hp w1) (getv w1 t) k = isnull (hp w) (getv w t) k) /\
  (forall u k, u <> t -> peek (hp w1) (getv w1 u) k = peek (hp w) (getv w u) k /\
                         isnull (hp w1) (getv w1 u) k = isnull (hp w) (getv w u) k).
Proof.
  intros (GI & GW & GS & GH) Hh Hlen Hext Hvl Hu Ht Li Lk Ll Iv' Dr Du.
  assert (Hold : forall u k l', lookup k (vals (getv w u)) = Some l' -> (l' < length (hp w))%nat)
    by (intros u k l' L; eapply (proj1 (GW u)); eauto).
  assert (Hget : forall l', (l' < length (hp w))%nat -> l' <> l -> hget (hp w1) l' = hget (hp w) l').
  { intros l' A B. rewrite Hh, hget_hset_neq by auto. auto. }
  split; [split; [|split; [|split]]|split; [|split]].
  - intro u. destruct (Nat.eq_dec u t) as [->|N]; [rewrite Ht; auto|rewrite Hu; auto].
  - intro u. rewrite Hh. destruct (Nat.eq_dec u t) as [->|N].
    + rewrite Ht. split.
      * intros k l' L. rewrite hset_length. destruct (Z.eq_dec k i) as [->|NK].
        { rewrite Li in L. inversion L. subst. auto. }
        { rewrite Lk in L by auto. apply Hold in L. lia. }
      * intros ka kb l' La Lb.
        destruct (Z.eq_dec ka i) as [->|Na]; destruct (Z.eq_dec kb i) as [->|Nb]; auto.
        { rewrite Li in La. inversion La. subst l'. rewrite Lk in Lb by auto. exfalso. eapply Dr; eauto. }
        { rewrite Li in Lb. inversion Lb. subst l'. rewrite Lk in La by auto. exfalso. eapply Dr; eauto. }
        { rewrite Lk in La, Lb by auto. eapply (proj2 (GW t)); eauto. }
    + rewrite Hu by auto. split.
      * intros k l' L. rewrite hset_length. apply Hold in L. lia.
      * apply (proj2 (GW u)).
  - intros u l' N (ka & La) (kb & Lb). rewrite Ht in La. rewrite Hu in Lb by auto.
    destruct (Z.eq_dec ka i) as [->|Na].
    + rewrite Li in La. inversion La. subst l'. apply (Du u N). exists kb. auto.
    + rewrite Lk in La by auto. apply (GS u l' N); [exists ka|exists kb]; auto.
  - unfold has in *. lia.
  - unfold peek. rewrite Ht, Li, Hh. apply hget_hset_eq. auto.
  - intros k N. unfold peek, isnull. rewrite Ht, Lk by auto.
    destruct (lookup k (vals (getv w t))) as [l'|] eqn:L; auto.
    rewrite Hget; auto.
    + eapply Hold; eauto.
    + intro. subst l'. eapply Dr; eauto.
  - intros u k N. unfold peek, isnull. rewrite Hu by auto.
    destruct (lookup k (vals (getv w u))) as [l'|] eqn:L; auto.
    rewrite Hget; auto.
    + eapply Hold; eauto.
    + intro. subst l'. apply (Du u N). exists k. auto.
Qed.

Lemma wr_spec w i s1 x :
  G t w -> 0 <= i < dim (getv w t) ->
  (forall l, s1 = Some l -> lookup i (vals (getv w t)) = Some l) ->
  exists w1, wr w t i s1 x = Some w1 /\ G t w1 /\
    length (vecs w1) = length (vecs w) /\
    (forall u, dim (getv w1 u) = dim (getv w u)) /\
    peek (hp w1) (getv w1 t) i = x /\
    (forall k, k <> i -> peek (hp w1) (getv w1 t) k = peek (hp w) (getv w t) k /\
                         isnull (hp w1) (getv w1 t) k = isnull (hp w) (getv w t) k) /\
    (forall u k, u <> t -> peek (hp w1) (getv w1 u) k = peek (hp w) (getv w u) k /\
                           isnull (hp w1) (getv w1 u) k = isnull (hp w) (getv w u) k).
Proof.
  intros HG Hi Hs. pose proof HG as (GI & GW & GS & GH).
  assert (Case1 : forall l, lookup i (vals (getv w t)) = Some l ->
            forall w1, hp w1 = hset (hp w) l x -> length (vecs w1) = length (vecs w) ->
            (forall u, getv w1 u = getv w u) ->
            G t w1 /\ length (vecs w1) = length (vecs w) /\
            (forall u, dim (getv w1 u) = dim (getv w u)) /\
            peek (hp w1) (getv w1 t) i = x /\
            (forall k, k <> i -> peek (hp w1) (getv w1 t) k = peek (hp w) (getv w t) k /\
                                 isnull (hp w1) (getv w1 t) k = isnull (hp w) (getv w t) k) /\
            (forall u k, u <> t -> peek (hp w1) (getv w1 u) k = peek (hp w) (getv w u) k /\
                                   isnull (hp w1) (getv w1 u) k = isnull (hp w) (getv w u) k)).
  { intros l L w1 Hh Hl Hv.
    destruct (write_frame w w1 (hp w) (getv w t) l i x) as (A & B & C & D); auto.
    - eapply (proj1 (GW t)); eauto.
    - intros k N L'. apply N. eapply (proj2 (GW t)); eauto.
    - intros u N (k & L'). apply (GS u l N); [exists i|exists k]; auto.
    - split; [exact A|]. split; [exact Hl|]. split; [intro u; rewrite Hv; auto|].
      split; [exact B|]. split; [exact C|exact D]. }
  unfold wr. destruct s1 as [l|].
  - eexists. split; [reflexivity|]. apply (Case1 l); auto.
  - unfold at_, in_bounds.
    assert (E : (0 <=? i) && (i <? dim (getv w t)) = true)
      by (apply andb_true_iff; split; [apply Z.leb_le|apply Z.ltb_lt]; lia).
    rewrite E. destruct (lookup i (vals (getv w t))) as [l|] eqn:L.
    + eexists. split; [reflexivity|]. apply (Case1 l); auto.
      * simpl. apply upd_length.
      * intro u. simpl. destruct (Nat.eq_dec t u) as [<-|N].
        { rewrite getv_seth, getv_setv_eq; auto. }
        { rewrite getv_seth, getv_setv_neq; auto. }
    + cbn [halloc]. eexists. split; [reflexivity|].
      set (h := hp w). set (v := getv w t).
      set (v' := {| vals := insert i (length h) (vals v); idx := kins i (idx v); dim := dim v |}).
      set (w1 := seth (setv w t v') (hset (h ++ [0]) (length h) x)).
      assert (Ht : getv w1 t = v') by (unfold w1; rewrite getv_seth, getv_setv_eq; auto).
      assert (Hu : forall u, u <> t -> getv w1 u = getv w u)
        by (intros u N; unfold w1; rewrite getv_seth, getv_setv_neq; auto).
      destruct (write_frame w w1 (h ++ [0]) v' (length h) i x) as (A & B & C & D); auto.
      * unfold h. rewrite app_length. simpl. lia.
      * intros l' Hl'. unfold hget. apply app_nth1. auto.
      * unfold w1. simpl. apply upd_length.
      * unfold v'. cbn [vals]. apply lookup_insert_eq.
      * intros k N. unfold v'. cbn [vals]. apply lookup_insert_neq. auto.
      * rewrite app_length. simpl. lia.
      * unfold v'. apply Inv_add; [apply GI|auto].
      * intros k N L'. apply (proj1 (GW t)) in L'. fold h in L'. lia.
      * intros u N (k & L'). apply (proj1 (GW u)) in L'. fold h in L'. lia.
      * split; [exact A|]. split; [unfold w1; simpl; apply upd_length|].
        split; [intro u; destruct (Nat.eq_dec u t) as [->|N]; [rewrite Ht; auto|rewrite Hu; auto]|].
        split; [exact B|]. split; [exact C|exact D].
Qed.
End Write.

(* ---- one step of the three-way joint iterator ---------------------------------- *)
Lemma Pos_Qw t w w' c p : Pos (hp w) (getv w t) c p -> Qw w w' -> Pos (hp w') (getv w' t) c p.
Proof. intros P (E1 & _ & E3). rewrite E1. eapply Pos_Q; [apply E3|auto]. Qed.
Lemma Qw_dim w w' u : Qw w w' -> dim (getv w' u) = dim (getv w u).
Proof. intros (_ & _ & E3). destruct (E3 u) as ((_ & _ & D) & _). auto. Qed.
Lemma Qw_lookup w w' u k :
  Qw w w' -> isnull (hp w) (getv w u) k = false -> lookup k (vals (getv w' u)) = lookup k (vals (getv w u)).
Proof. intros (_ & _ & E3) N. destruct (E3 u) as ((_ & C & _) & _). auto. Qed.
Lemma Qw_peek w w' u k : Qw w w' -> peek (hp w') (getv w' u) k = peek (hp w) (getv w u) k.
Proof. intros (E1 & _ & E3). rewrite E1. apply Q_peek. apply E3. Qed.

Section Joint3.
Variable t : nat.
Variable n : Z.

(* facts about one operand at the selected index i *)
Lemma op_facts w c V p i (d : bool) :
  G t w -> CPos t n w c V p -> 0 <= p -> p <= i ->
  (d = true -> cand c = Some i) -> (d = false -> forall k, cand c = Some k -> i < k) ->
  (forall x, p <= x < i -> V x = 0) /\ jval (if d then ci_get w c else None) = V i /\
  (d = true -> (if d then ci_get w c else None) <> None) /\
  (d = false -> (if d then ci_get w c else None) = None).
Proof.
  intros HG HC Hp Hi H1 H2. destruct d.
  - destruct (CPos_cand t n w c V p i HG HC Hp (H1 eq_refl)) as (X & Y & Z1).
    rewrite Y. simpl. split; [exact Z1|]. split; [auto|]. split; [intros _; discriminate|intro; discriminate].
  - simpl. assert (ZZ : forall x, p <= x <= i -> V x = 0).
    { destruct (cand c) as [k|] eqn:E.
      + pose proof (H2 eq_refl k eq_refl) as Hk.
        destruct (CPos_cand t n w c V p k HG HC Hp E) as (X & Y & Z1). intros x Hx. apply Z1. lia.
      + pose proof (CPos_none t n w c V p HC E) as Z1. intros x Hx. apply Z1. lia. }
    split; [intros x Hx; apply ZZ; lia|]. split; [symmetry; apply ZZ; lia|].
    split; [intro; discriminate|auto].
Qed.
Lemma op_range w c V p i : G t w -> CPos t n w c V p -> 0 <= p -> cand c = Some i -> p <= i < n.
Proof. intros HG HC Hp E. apply (CPos_cand t n w c V p i HG HC Hp E). Qed.

Definition s1_of (w : world) (c : option Z) (d : bool) : option loc :=
  if d then match c with Some k => lookup k (vals (getv w t)) | None => None end else None.
Lemma r_facts w c p i (d : bool) :
  G t w -> dim (getv w t) = n -> Pos (hp w) (getv w t) c p -> p <= i ->
  (d = true -> c = Some i) -> (d = false -> forall k, c = Some k -> i < k) ->
  (forall x, p <= x < i -> peek (hp w) (getv w t) x = 0) /\
  (d = true -> exists l, s1_of w c d = Some l /\ lookup i (vals (getv w t)) = Some l /\
                         isnull (hp w) (getv w t) i = false) /\
  (d = false -> s1_of w c d = None /\ peek (hp w) (getv w t) i = 0).
Proof.
  intros HG Hn HP Hi H1 H2. unfold s1_of. destruct d.
  - rewrite (H1 eq_refl) in *. simpl in HP. destruct HP as (P1 & P2 & P3).
    destruct (nonnull_lookup _ _ _ P2) as (l & L & _).
    split; [exact P3|]. split; [intros _; exists l; auto|intro; discriminate].
  - assert (ZZ : forall x, p <= x <= i -> peek (hp w) (getv w t) x = 0).
    { destruct c as [k|]; simpl in HP.
      + pose proof (H2 eq_refl k eq_refl) as Hk. destruct HP as (P1 & P2 & P3).
        intros x Hx. apply P3. lia.
      + intros x Hx. apply HP. lia. }
    split; [intros x Hx; apply ZZ; lia|]. split; [intro; discriminate|].
    intros _. split; [auto|apply ZZ; lia].
Qed.
Lemma r_range w p i :
  G t w -> dim (getv w t) = n -> 0 <= p -> Pos (hp w) (getv w t) (Some i) p -> p <= i < n.
Proof.
  intros (GI & _) Hn Hp (P1 & P2 & _). destruct (nonnull_lookup _ _ _ P2) as (l & L & _).
  destruct (GI t) as (_ & _ & H3 & H4 & _). apply H3 in L. apply H4 in L. lia.
Qed.

Variables A B : Z -> Z.
Definition J3 (w : world) (j : joint3) (p : Z) : Prop :=
  G t w /\ dim (getv w t) = n /\ 0 <= p /\
  Pos (hp w) (getv w t) (k1 j) p /\ CPos t n w (k2 j) A p /\ CPos t n w (k3 j) B p.

Lemma joint3_next_spec w j p :
  J3 w j p ->
  exists w' j', joint3_next w t j = Some (w', j') /\ Qw w w' /\ G t w' /\
    ((kok j' = false /\
      forall i, p <= i -> peek (hp w) (getv w t) i = 0 /\ A i = 0 /\ B i = 0) \/
     (kok j' = true /\ p <= kidx j' < n /\
      (forall i, p <= i < kidx j' -> peek (hp w) (getv w t) i = 0 /\ A i = 0 /\ B i = 0) /\
      jval (ks2 j') = A (kidx j') /\ jval (ks3 j') = B (kidx j') /\
      (forall l, ks1 j' = Some l -> lookup (kidx j') (vals (getv w' t)) = Some l) /\
      (ks1 j' = None -> peek (hp w) (getv w t) (kidx j') = 0) /\
      J3 w' j' (kidx j' + 1))).
Proof.
  intros (HG & Hn & Hp & P1 & C2 & C3).
  rewrite joint3_next_eq.
  destruct (sel3 (k1 j) (cand (k2 j)) (cand (k3 j)) (kidx j)) as [[[i d1] d2] d3] eqn:S.
  apply sel3_spec in S. destruct S as (S1 & S1' & S2 & S2' & S3 & S3' & SO).
  cbv zeta. fold (s1_of w (k1 j) d1).
  destruct (orb (orb d1 d2) d3) eqn:Any.
  - (* some iterator delivers *)
    assert (Hi : p <= i < n).
    { destruct d1; [rewrite (S1 eq_refl) in P1; eapply r_range; eauto|].
      destruct d2; [eapply op_range; [| exact C2| |]; eauto|].
      destruct d3; [eapply op_range; [| exact C3| |]; eauto|]. discriminate. }
    destruct (r_facts w (k1 j) p i d1 HG Hn P1 (proj1 Hi) S1 S1') as (R1 & R2 & R3).
    destruct (op_facts w (k2 j) A p i d2 HG C2 Hp (proj1 Hi) S2 S2') as (A1 & A2 & A3 & A4).
    destruct (op_facts w (k3 j) B p i d3 HG C3 Hp (proj1 Hi) S3 S3') as (B1 & B2 & B3 & B4).
    set (s1 := s1_of w (k1 j) d1) in *.
    set (s2 := if d2 then ci_get w (k2 j) else None) in *.
    set (s3 := if d3 then ci_get w (k3 j) else None) in *.
    (* advance the receiver's iterator *)
    destruct (adv1_spec t w (k1 j) p i s1 HG P1 (proj1 Hi)) as (w1 & c1 & E1 & Q1 & I1 & P1').
    { intro NE. apply S1. destruct d1; [reflexivity|exfalso; apply NE; apply (proj1 (R3 eq_refl))]. }
    { intro E. apply S1'. destruct d1; [|reflexivity]. destruct (R2 eq_refl) as (l & X & _). congruence. }
    rewrite E1.
    assert (G1 : G t w1) by (eapply G_Qw; eauto).
    destruct (advc_spec t n w1 (k2 j) A p i s2 G1 (CPos_Qw t n w w1 _ _ _ C2 Q1) (proj1 Hi))
      as (w2 & c2 & E2 & Q2 & I2 & C2').
    { intro NE. apply S2. destruct d2; [reflexivity|exfalso; apply NE; apply (A4 eq_refl)]. }
    { intro E. apply S2'. destruct d2; [|reflexivity]. exfalso. apply (A3 eq_refl E). }
    rewrite E2.
    assert (G2 : G t w2) by (eapply G_Qw; eauto).
    assert (Q02 : Qw w w2) by (eapply Qw_trans; eauto).
    destruct (advc_spec t n w2 (k3 j) B p i s3 G2 (CPos_Qw t n w w2 _ _ _ C3 Q02) (proj1 Hi))
      as (w3 & c3 & E3 & Q3 & I3 & C3').
    { intro NE. apply S3. destruct d3; [reflexivity|exfalso; apply NE; apply (B4 eq_refl)]. }
    { intro E. apply S3'. destruct d3; [|reflexivity]. exfalso. apply (B3 eq_refl E). }
    rewrite E3.
    assert (G3 : G t w3) by (eapply G_Qw; eauto).
    assert (Q03 : Qw w w3) by (eapply Qw_trans; eauto).
    assert (Q13 : Qw w1 w3) by (eapply Qw_trans; eauto).
    eexists. eexists. split; [reflexivity|]. split; [exact Q03|]. split; [exact G3|].
    right. cbn [kok kidx ks1 ks2 ks3 k1 k2 k3].
    split.
    { destruct d1; [destruct (R2 eq_refl) as (l & X & _); rewrite X; auto|].
      destruct d2; [destruct s2; [destruct s1; auto|exfalso; apply A3; auto]|].
      destruct d3; [|discriminate]. destruct s3; [destruct s1; destruct s2; auto|exfalso; apply B3; auto]. }
    split; [exact Hi|]. split; [intros x Hx; auto|]. split; [exact A2|]. split; [exact B2|].
    split.
    { intros l El. destruct d1.
      - destruct (R2 eq_refl) as (l' & X & L & N). rewrite (Qw_lookup w w3 t i Q03 N). congruence.
      - destruct (R3 eq_refl) as (X & _). congruence. }
    split.
    { intro El. destruct d1; [destruct (R2 eq_refl) as (l' & X & _); congruence|apply R3; auto]. }
    unfold J3. cbn [k1 k2 k3]. split; [exact G3|]. split; [rewrite (Qw_dim w w3 t Q03); auto|].
    split; [lia|]. split; [eapply Pos_Qw; eauto|]. split; [eapply CPos_Qw; eauto|exact C3'].
  - (* nothing left *)
    apply orb_false_iff in Any. destruct Any as [Any D3]. apply orb_false_iff in Any. destruct Any as [D1 D2].
    subst d1 d2 d3. rewrite orb_false_iff in SO. destruct SO as [SO E3']. rewrite orb_false_iff in SO.
    destruct SO as [E1' E2'].
    assert (K1 : k1 j = None) by (destruct (k1 j); auto; discriminate).
    assert (K2 : cand (k2 j) = None) by (destruct (cand (k2 j)); auto; discriminate).
    assert (K3 : cand (k3 j) = None) by (destruct (cand (k3 j)); auto; discriminate).
    unfold s1_of, adv1, advc. eexists. eexists. split; [reflexivity|]. split; [apply Qw_refl|]. split; [exact HG|].
    left. cbn [kok]. split; auto. intros x Hx. rewrite K1 in P1. simpl in P1.
    split; [auto|]. split; [eapply CPos_none; eauto|eapply CPos_none; eauto].
Qed.
End Joint3.

(* ---- frames ---------------------------------------------------------------------- *)
Lemma Pos_ext h v h' v' c p :
  (forall k, peek h' v' k = peek h v k /\ isnull h' v' k = isnull h v k) -> Pos h v c p -> Pos h' v' c p.
Proof.
  intro E. destruct c as [k|]; simpl.
  - intros (P1 & P2 & P3). split; [auto|]. split; [rewrite (proj2 (E k)); auto|].
    intros i Hi. rewrite (proj1 (E i)). auto.
  - intros P i Hi. rewrite (proj1 (E i)). auto.
Qed.
Lemma CPos_ext t n w c V V' p : (forall i, V i = V' i) -> CPos t n w c V p -> CPos t n w c V' p.
Proof.
  intro E. destruct c as [u cur|d pos]; simpl.
  - intros (N & Hu & Hd & HV & P). repeat split; auto. intro i. rewrite <- E. auto.
  - intros (Hd & HV & H0 & H1 & H2). split; [auto|]. split; [intros i Hi; rewrite <- E; auto|].
    split; [auto|]. split.
    + intro H. destruct (H1 H) as (X & Y). split; auto. intros i Hi. rewrite <- E. auto.
    + intros H i Hi. rewrite <- E. auto.
Qed.
(* an operand's iterator does not see the receiver's write *)
Lemma CPos_frame t n w w1 c V p :
  length (vecs w1) = length (vecs w) -> (forall u, dim (getv w1 u) = dim (getv w u)) ->
  (forall u k, u <> t -> peek (hp w1) (getv w1 u) k = peek (hp w) (getv w u) k /\
                         isnull (hp w1) (getv w1 u) k = isnull (hp w) (getv w u) k) ->
  CPos t n w c V p -> CPos t n w1 c V p.
Proof.
  intros Hl Hd Hf. destruct c as [u cur|d pos]; simpl; auto.
  intros (N & Hu & Hdim & HV & P). split; [auto|]. split; [unfold has in *; lia|].
  split; [rewrite Hd; auto|]. split.
  - intro i. rewrite (proj1 (Hf u i N)). auto.
  - eapply Pos_ext; [|exact P]. intro k. apply Hf. auto.
Qed.

(* ---- the loop: r[idx] := f(a[idx], b[idx]) at every visit ------------------------ *)
Section Loop3.
Variable t : nat.
Variable n : Z.
Variables A B : Z -> Z.
Variable f : Z -> Z -> Z.
Hypothesis f00 : f 0 0 = 0.

(* the state at the loop head: what the last Next() left *)
Definition Head (w : world) (j : joint3) (p : Z) : Prop :=
  (kok j = false /\ forall i, p <= i -> peek (hp w) (getv w t) i = 0 /\ A i = 0 /\ B i = 0) \/
  (kok j = true /\ p <= kidx j < n /\
   (forall i, p <= i < kidx j -> peek (hp w) (getv w t) i = 0 /\ A i = 0 /\ B i = 0) /\
   jval (ks2 j) = A (kidx j) /\ jval (ks3 j) = B (kidx j) /\
   (forall l, ks1 j = Some l -> lookup (kidx j) (vals (getv w t)) = Some l) /\
   (ks1 j = None -> peek (hp w) (getv w t) (kidx j) = 0) /\
   J3 t n A B w j (kidx j + 1)).

Lemma next_Head w j p :
  J3 t n A B w j p ->
  exists w' j', joint3_next w t j = Some (w', j') /\ Qw w w' /\ G t w' /\ Head w' j' p.
Proof.
  intro HJ. destruct (joint3_next_spec t n A B w j p HJ) as (w' & j' & E & HQ & HG & [X|X]).
  - exists w', j'. split; [auto|]. split; [auto|]. split; [auto|]. left.
    destruct X as (X1 & X2). split; auto. intros i Hi. rewrite (Qw_peek w w' t i HQ). auto.
  - exists w', j'. split; [auto|]. split; [auto|]. split; [auto|]. right.
    destruct X as (X1 & X2 & X3 & X4 & X5 & X6 & X7 & X8).
    split; [auto|]. split; [auto|]. split; [|split; [auto|split; [auto|split; [auto|split; [|auto]]]]].
    + intros i Hi. rewrite (Qw_peek w w' t i HQ). auto.
    + intro El. rewrite (Qw_peek w w' t _ HQ). auto.
Qed.

Lemma map3_loop_spec : forall fuel w j p,
  G t w -> dim (getv w t) = n -> 0 <= p -> Head w j p ->
  (forall i, 0 <= i < p -> peek (hp w) (getv w t) i = f (A i) (B i)) ->
  (Z.to_nat (n - p) < fuel)%nat ->
  exists w', map3_loop f fuel w t j = Some (w', true) /\ G t w' /\ dim (getv w' t) = n /\
    length (vecs w') = length (vecs w) /\
    (forall i, 0 <= i < n -> peek (hp w') (getv w' t) i = f (A i) (B i)) /\
    (forall u k, u <> t -> peek (hp w') (getv w' u) k = peek (hp w) (getv w u) k) /\
    (forall u, dim (getv w' u) = dim (getv w u)).
Proof.
  induction fuel as [|fu IH]; intros w j p HG Hn Hp HH HD Hf; [lia|].
  destruct HH as [(K & Z0)|(K & Hi & Zg & VA & VB & HS & HS0 & HJ)].
  - exists w. cbn [map3_loop]. rewrite K. split; [auto|]. split; [auto|]. split; [auto|]. split; [auto|].
    split; [|auto]. intros i Hi. destruct (Z_lt_ge_dec i p) as [L|L]; [apply HD; lia|].
    destruct (Z0 i) as (X & Y & Z1); [lia|]. rewrite X, Y, Z1. auto.
  - cbn [map3_loop]. rewrite K.
    destruct (wr_spec t w (kidx j) (ks1 j) (f (jval (ks2 j)) (jval (ks3 j))) HG) as
      (w1 & E1 & G1 & L1 & D1 & P1 & F1 & F2); [lia|exact HS|].
    rewrite E1.
    assert (HJ1 : J3 t n A B w1 j (kidx j + 1)).
    { destruct HJ as (_ & _ & Hp' & PP & C2 & C3). unfold J3.
      split; [auto|]. split; [rewrite D1; auto|]. split; [auto|]. split.
      - destruct (k1 j) as [k|]; simpl in *.
        + destruct PP as (Q1 & Q2 & Q3). split; [auto|]. split.
          * rewrite (proj2 (F1 k ltac:(lia))). auto.
          * intros i Hi'. rewrite (proj1 (F1 i ltac:(lia))). auto.
        + intros i Hi'. rewrite (proj1 (F1 i ltac:(lia))). auto.
      - split; eapply CPos_frame; eauto. }
    destruct (next_Head w1 j (kidx j + 1) HJ1) as (w2 & j' & E2 & Q2 & G2 & H2).
    rewrite E2.
    destruct (IH w2 j' (kidx j + 1)) as (w' & E3 & G3 & D3 & L3 & R3 & F3 & DD3); auto.
    + rewrite (Qw_dim w1 w2 t Q2), D1. auto.
    + lia.
    + intros i Hi'. rewrite (Qw_peek w1 w2 t i Q2).
      destruct (Z.eq_dec i (kidx j)) as [->|N].
      * rewrite P1, VA, VB. auto.
      * rewrite (proj1 (F1 i N)). destruct (Z_lt_ge_dec i p) as [L|L]; [apply HD; lia|].
        destruct (Zg i) as (X & Y & Z1); [lia|]. rewrite X, Y, Z1. auto.
    + lia.
    + exists w'. split; [auto|]. split; [auto|]. split; [auto|].
      split; [destruct Q2 as (_ & X & _); lia|]. split; [auto|]. split.
      * intros u k N. rewrite F3 by auto. rewrite (Qw_peek w1 w2 u k Q2). apply F2. auto.
      * intro u. rewrite DD3, (Qw_dim w1 w2 u Q2). auto.
Qed.
End Loop3.

(* ---- the whole operation: r.Op(a, b) through the three-way joint iterator -------- *)
Lemma zseq_In : forall n a i, In i (zseq a n) <-> a <= i < a + Z.of_nat n.
Proof.
  induction n as [|n IH]; intros a i; simpl; [lia|].
  rewrite IH. lia.
Qed.
Lemma ord_Qw w w' o i : Qw w w' -> ord w' o i = ord w o i.
Proof. intro HQ. destruct o as [u|d]; simpl; auto. apply Qw_peek. auto. Qed.
Lemma operand_wk_Qw w w' t o : operand_wk w t o -> Qw w w' -> operand_wk w' t o.
Proof.
  intros H HQ. destruct o as [u|d]; simpl in *.
  - destruct H as (N & Hu & Hd). split; [auto|]. split.
    + destruct HQ as (_ & L & _). unfold has in *. lia.
    + rewrite !(Qw_dim w w' _ HQ). auto.
  - rewrite (Qw_dim w w' _ HQ). auto.
Qed.
Lemma operand_dim w t o : operand_ok3 w t o -> op_dim w o = dim (getv w t).
Proof. destruct o as [u|d]; simpl; [tauto|auto]. Qed.
Lemma oabs_ord w o n :
  op_dim w o = n -> oabs w o = map (ord w o) (zseq 0 (Z.to_nat n)).
Proof.
  destruct o as [u|d]; simpl; intro H.
  - unfold sabs, abs_vec. rewrite H. auto.
  - subst n. unfold zlen. rewrite Nat2Z.id. change 0 with (Z.of_nat 0) at 1. rewrite zseq_seq, map_map.
    rewrite <- (nth_seq_self d) at 1. apply map_ext. intro j. simpl. rewrite Nat2Z.id. auto.
Qed.
Lemma sabs_peek w u n :
  dim (getv w u) = n -> sabs w u = map (peek (hp w) (getv w u)) (zseq 0 (Z.to_nat n)).
Proof. intro H. unfold sabs, abs_vec. rewrite H. auto. Qed.

Section Top3.
Variable t : nat.
Variable f : Z -> Z -> Z.
Hypothesis f00 : f 0 0 = 0.

Lemma joint3_begin_Head w o2 o3 :
  G t w -> operand_wk w t o2 -> operand_wk w t o3 ->
  exists w1 j, joint3_begin w t o2 o3 = Some (w1, j) /\ Qw w w1 /\ G t w1 /\
    Head t (dim (getv w t)) (ord w o2) (ord w o3) w1 j 0.
Proof.
  intros HG H2 H3. set (n := dim (getv w t)). unfold joint3_begin.
  pose proof HG as (GI & _ & _ & GH).
  destruct (it_begin_pos (hp w) (getv w t) (GI t)) as (v' & c1 & E1 & Q1 & I1 & P1).
  rewrite E1. set (wA := setv w t v').
  assert (QA : Qw w wA) by (apply Qw_setv; auto).
  assert (GA : G t wA) by (eapply G_Qw; eauto; apply AInv_setv; auto).
  assert (DA : dim (getv wA t) = n) by (rewrite (Qw_dim w wA t QA); auto).
  destruct (CPos_begin t n wA o2 GA (operand_wk_Qw w wA t o2 H2 QA) DA) as (wB & c2 & E2 & QB & IB & CB).
  rewrite E2.
  assert (GB : G t wB) by (eapply G_Qw; eauto).
  assert (Q0B : Qw w wB) by (eapply Qw_trans; eauto).
  assert (DB : dim (getv wB t) = n) by (rewrite (Qw_dim w wB t Q0B); auto).
  destruct (CPos_begin t n wB o3 GB (operand_wk_Qw w wB t o3 H3 Q0B) DB) as (wC & c3 & E3 & QC & IC & CC).
  rewrite E3.
  assert (GC : G t wC) by (eapply G_Qw; eauto).
  assert (Q0C : Qw w wC) by (eapply Qw_trans; eauto).
  assert (QAC : Qw wA wC) by (eapply Qw_trans; eauto).
  set (j0 := {| k1 := c1; k2 := c2; k3 := c3; kidx := -1; ks1 := None; ks2 := None; ks3 := None; kok := false |}).
  assert (HJ : J3 t n (ord w o2) (ord w o3) wC j0 0).
  { unfold J3, j0. cbn [k1 k2 k3]. split; [auto|]. split; [rewrite (Qw_dim w wC t Q0C); auto|].
    split; [lia|]. split.
    - apply (Pos_Qw t wA wC); auto. unfold wA. simpl. rewrite getv_setv_eq; auto.
    - split.
      + eapply CPos_ext; [|eapply CPos_Qw; [exact CB|exact QC]]. intro i. apply ord_Qw. auto.
      + eapply CPos_ext; [|exact CC]. intro i. apply ord_Qw. auto. }
  destruct (next_Head t n _ _ wC j0 0 HJ) as (w1 & j & E4 & Q4 & G4 & H4).
  exists w1, j. split; [exact E4|]. split; [eapply Qw_trans; eauto|]. split; auto.
Qed.

Theorem vop3_correct w o2 o3 :
  G t w -> operand_ok3 w t o2 -> operand_ok3 w t o3 ->
  exists w', vop3 f w t o2 o3 = Some (w', true) /\ G t w' /\
    length (vecs w') = length (vecs w) /\
    sabs w' t = map2 f (oabs w o2) (oabs w o3) /\
    (forall u, u <> t -> sabs w' u = sabs w u) /\
    (forall u, dim (getv w' u) = dim (getv w u)).
Proof.
  intros HG H2 H3. unfold vop3.
  rewrite (operand_dim w t o2 H2), (operand_dim w t o3 H3), Z.eqb_refl. cbn [negb orb].
  destruct (joint3_begin_Head w o2 o3 HG (operand_ok3_wk _ _ _ H2) (operand_ok3_wk _ _ _ H3)) as (w1 & j & E1 & Q1 & G1 & H1).
  rewrite E1. set (n := dim (getv w t)) in *.
  assert (Hn0 : 0 <= n) by (destruct HG as (GI & _); destruct (GI t) as (_ & _ & _ & _ & X); auto).
  destruct (map3_loop_spec t n (ord w o2) (ord w o3) f f00 (lfuel w t) w1 j 0) as
    (w' & E2 & G2 & D2 & L2 & R2 & F2 & DD2); auto.
  - rewrite (Qw_dim w w1 t Q1). auto.
  - lia.
  - intros i Hi. lia.
  - unfold lfuel. fold n. lia.
  - exists w'. split; [exact E2|]. split; [exact G2|].
    split; [destruct Q1 as (_ & X & _); lia|]. split; [|split].
    + rewrite (sabs_peek w' t n D2).
      rewrite (oabs_ord w o2 n), (oabs_ord w o3 n) by (apply operand_dim; auto).
      rewrite map2_map. apply map_ext_in. intros i Hi. apply zseq_In in Hi. apply R2. lia.
    + intros u N. assert (DU : dim (getv w' u) = dim (getv w u)) by (rewrite DD2; apply (Qw_dim w w1 u Q1)).
      rewrite (sabs_peek w' u _ DU), (sabs_peek w u _ eq_refl).
      apply map_ext. intro i. rewrite F2 by auto. apply Qw_peek. auto.
    + intro u. rewrite DD2. apply (Qw_dim w w1 u Q1).
Qed.
End Top3.

(* ---- JOINT_ITERATOR is JOINT3_ITERATOR with an empty third operand ---------------- *)
Definition embed (j : joint) : joint3 :=
  {| k1 := j1 j; k2 := j2 j; k3 := CD [] 0; kidx := jidx j;
     ks1 := js1 j; ks2 := js2 j; ks3 := None; kok := jok j |}.
Definition lift_e (r : option (world * joint)) : option (world * joint3) :=
  match r with Some (w, j) => Some (w, embed j) | None => None end.

Lemma joint_next_embed w t j : joint3_next w t (embed j) = lift_e (joint_next w t j).
Proof.
  unfold joint3_next, joint_next, embed, lift_e. cbn [k1 k2 k3 kidx ci_ok length Z.of_nat Z.ltb Z.compare].
  destruct (j1 j) as [a|]; destruct (ci_ok (j2 j));
    cbn [negb andb orb]; rewrite ?orb_false_r, ?orb_true_r;
    repeat match goal with
           | |- context [if ?x then _ else _] => destruct x eqn:?
           end;
    repeat match goal with
           | |- context [match ?x with Some _ => _ | None => _ end] => destruct x eqn:?
           | |- context [let '(_, _) := ?x in _] => destruct x eqn:?
           end;
    repeat match goal with
           | H : Some _ = Some _ |- _ => inversion H; subst; clear H
           | H : (_, _) = (_, _) |- _ => inversion H; subst; clear H
           | H : Some _ = None |- _ => discriminate H
           | H : None = Some _ |- _ => discriminate H
           end; try reflexivity.
Qed.
Lemma joint_begin_embed w t o : joint3_begin w t o (OD []) = lift_e (joint_begin w t o).
Proof.
  unfold joint3_begin, joint_begin.
  destruct (it_begin (hp w) (getv w t)) as [[v' c1]|]; [|reflexivity].
  destruct (ci_begin (setv w t v') o) as [[w1 c2]|]; [|reflexivity].
  cbn [ci_begin]. apply (joint_next_embed w1 t {| j1 := c1; j2 := c2; jidx := -1; js1 := None; js2 := None; jok := false |}).
Qed.
Lemma map2_loop_embed (f : Z -> Z) : forall fuel w t j,
  map2_loop f fuel w t j = map3_loop (fun a _ => f a) fuel w t (embed j).
Proof.
  induction fuel as [|fu IH]; intros w t [a b c d e g];
    cbn [map2_loop map3_loop embed kok kidx ks1 ks2 ks3 jok jidx js1 js2 j1 j2]; destruct g; auto.
  destruct (wr w t c d (f (jval e))) as [w1|]; auto.
  change {| k1 := a; k2 := b; k3 := CD [] 0; kidx := c; ks1 := d; ks2 := e; ks3 := None; kok := true |}
    with (embed {| j1 := a; j2 := b; jidx := c; js1 := d; js2 := e; jok := true |}).
  rewrite joint_next_embed.
  destruct (joint_next w1 t {| j1 := a; j2 := b; jidx := c; js1 := d; js2 := e; jok := true |}) as [[w2 j']|];
    simpl; auto.
Qed.

Theorem vop2_correct t (f : Z -> Z) w o :
  f 0 = 0 -> G t w -> operand_ok3 w t o ->
  exists w', vop2 f w t o = Some (w', true) /\ G t w' /\
    length (vecs w') = length (vecs w) /\
    sabs w' t = map f (oabs w o) /\
    (forall u, u <> t -> sabs w' u = sabs w u) /\
    (forall u, dim (getv w' u) = dim (getv w u)).
Proof.
  intros f0 HG H2. unfold vop2.
  rewrite (operand_dim w t o H2), Z.eqb_refl. cbn [negb].
  assert (Hn0 : 0 <= dim (getv w t)) by (destruct HG as (GI & _); destruct (GI t) as (_ & _ & _ & _ & X); auto).
  assert (H3 : operand_wk w t (OD [])) by (simpl; unfold zlen; simpl; lia).
  destruct (joint3_begin_Head t w o (OD []) HG (operand_ok3_wk _ _ _ H2) H3) as (w1 & j3 & E1 & Q1 & G1 & H1).
  rewrite joint_begin_embed in E1. destruct (joint_begin w t o) as [[w1' j]|]; [|discriminate].
  simpl in E1. inversion E1. subst w1' j3. clear E1.
  rewrite map2_loop_embed. set (n := dim (getv w t)) in *.
  destruct (map3_loop_spec t n (ord w o) (ord w (OD [])) (fun a _ => f a) f0 (lfuel w t) w1 (embed j) 0) as
    (w' & E2 & G2 & D2 & L2 & R2 & F2 & DD2); auto.
  - rewrite (Qw_dim w w1 t Q1). auto.
  - lia.
  - intros i Hi. lia.
  - unfold lfuel. fold n. lia.
  - exists w'. split; [exact E2|]. split; [exact G2|].
    split; [destruct Q1 as (_ & X & _); lia|]. split; [|split].
    + rewrite (sabs_peek w' t n D2).
      rewrite (oabs_ord w o n) by (apply operand_dim; auto).
      rewrite map_map. apply map_ext_in. intros i Hi. apply zseq_In in Hi. apply R2. lia.
    + intros u N. assert (DU : dim (getv w' u) = dim (getv w u)) by (rewrite DD2; apply (Qw_dim w w1 u Q1)).
      rewrite (sabs_peek w' u _ DU), (sabs_peek w u _ eq_refl).
      apply map_ext. intro i. rewrite F2 by auto. apply Qw_peek. auto.
    + intro u. rewrite DD2. apply (Qw_dim w w1 u Q1).
Qed.

(* ---- Equals: the loop decides the point-wise predicate ---------------------------- *)
Section Equals.
Variable t : nat.
Variable n : Z.
Variable A : Z -> Z.
Variable e2 : Z.
Hypothesis He : 0 < e2.

Lemma close00 : close e2 0 0 = true.
Proof. unfold close. simpl. apply Z.ltb_lt. lia. Qed.

Lemma eq_loop_spec : forall fuel w j p,
  G t w -> dim (getv w t) = n -> 0 <= p -> Head t n A (fun _ => 0) w (embed j) p ->
  (forall i, 0 <= i < p -> close e2 (peek (hp w) (getv w t) i) (A i) = true) ->
  (Z.to_nat (n - p) < fuel)%nat ->
  exists w' b, eq_loop e2 fuel w t j = Some (w', b) /\ Qw w w' /\ G t w' /\
    (b = true <-> forall i, 0 <= i < n -> close e2 (peek (hp w) (getv w t) i) (A i) = true).
Proof.
  induction fuel as [|fu IH]; intros w j p HG Hn Hp HH HD Hf; [lia|].
  destruct HH as [(K & Z0)|(K & Hi & Zg & VA & VB & HS & HS0 & HJ)]; cbn [embed kok kidx ks1 ks2] in *.
  - exists w, true. cbn [eq_loop]. rewrite K. split; [auto|]. split; [apply Qw_refl|]. split; [auto|].
    split; auto. intros _ i Hi. destruct (Z_lt_ge_dec i p) as [L|L]; [apply HD; lia|].
    destruct (Z0 i) as (X & Y & _); [lia|]. rewrite X, Y. apply close00.
  - cbn [eq_loop]. rewrite K.
    assert (EX : (match js1 j with Some l => hget (hp w) l | None => 0 end) = peek (hp w) (getv w t) (jidx j)).
    { destruct (js1 j) as [l|] eqn:E.
      - unfold peek. rewrite (HS l eq_refl). auto.
      - symmetry. apply HS0. auto. }
    rewrite EX, VA.
    destruct (close e2 (peek (hp w) (getv w t) (jidx j)) (A (jidx j))) eqn:C.
    + destruct (next_Head t n A (fun _ => 0) w (embed j) (jidx j + 1) HJ) as (w2 & j3 & E2 & Q2 & G2 & H2).
      rewrite joint_next_embed in E2. destruct (joint_next w t j) as [[w2' j']|]; [|discriminate].
      simpl in E2. inversion E2. subst w2' j3. clear E2.
      destruct (IH w2 j' (jidx j + 1)) as (w' & b & E3 & Q3 & G3 & R3); auto.
      * rewrite (Qw_dim w w2 t Q2). auto.
      * lia.
      * intros i Hi'. rewrite (Qw_peek w w2 t i Q2).
        destruct (Z.eq_dec i (jidx j)) as [->|N]; [auto|].
        destruct (Z_lt_ge_dec i p) as [L|L]; [apply HD; lia|].
        destruct (Zg i) as (X & Y & _); [lia|]. rewrite X, Y. apply close00.
      * lia.
      * exists w', b. split; [auto|]. split; [eapply Qw_trans; eauto|]. split; [auto|].
        rewrite R3. split; intros HA i Hi'.
        { rewrite <- (Qw_peek w w2 t i Q2). auto. }
        { rewrite (Qw_peek w w2 t i Q2). auto. }
    + exists w, false. split; [auto|]. split; [apply Qw_refl|]. split; [auto|].
      split; [discriminate|]. intro HA. rewrite HA in C by lia. discriminate.
Qed.
End Equals.

Theorem vequals_correct t e2 w o :
  0 < e2 -> G t w -> operand_ok3 w t o ->
  exists w', vequals e2 w t o = Some (w', Some (all_close e2 (sabs w t) (oabs w o))) /\
             Qw w w' /\ G t w'.
Proof.
  intros He HG H2. unfold vequals.
  rewrite (operand_dim w t o H2), Z.eqb_refl. cbn [negb].
  assert (Hn0 : 0 <= dim (getv w t)) by (destruct HG as (GI & _); destruct (GI t) as (_ & _ & _ & _ & X); auto).
  assert (H3 : operand_wk w t (OD [])) by (simpl; unfold zlen; simpl; lia).
  destruct (joint3_begin_Head t w o (OD []) HG (operand_ok3_wk _ _ _ H2) H3) as (w1 & j3 & E1 & Q1 & G1 & H1).
  rewrite joint_begin_embed in E1. destruct (joint_begin w t o) as [[w1' j]|]; [|discriminate].
  simpl in E1. inversion E1. subst w1' j3. clear E1.
  set (n := dim (getv w t)) in *.
  assert (HH : Head t n (ord w o) (fun _ => 0) w1 (embed j) 0).
  { destruct H1 as [(K & Z0)|(K & Hi & Zg & VA & VB & HS & HS0 & HJ)]; [left|right].
    - split; auto. intros i Hi. destruct (Z0 i Hi) as (X & Y & _). auto.
    - split; [auto|]. split; [auto|]. split.
      + intros i Hi'. destruct (Zg i Hi') as (X & Y & _). auto.
      + split; [auto|]. split; [auto|]. split; [auto|]. split; [auto|].
        destruct HJ as (J1 & J2 & J3' & J4 & J5 & J6). unfold J3. split; [auto|]. split; [auto|].
        split; [auto|]. split; [auto|]. split; [auto|].
        eapply CPos_ext; [|exact J6]. intro i. simpl. destruct (Z.to_nat i); auto. }
  destruct (eq_loop_spec t n (ord w o) e2 He (lfuel w t) w1 j 0) as (w' & b & E2 & Q2 & G2 & R2); auto.
  - rewrite (Qw_dim w w1 t Q1). auto.
  - lia.
  - intros i Hi. lia.
  - unfold lfuel. fold n. lia.
  - rewrite E2. exists w'. split; [|split; [eapply Qw_trans; eauto|auto]].
    f_equal. f_equal. f_equal.
    rewrite (sabs_peek w t n eq_refl), (oabs_ord w o n) by (apply operand_dim; auto).
    unfold all_close.
    assert (RB : b = true <-> forall i, In i (zseq 0 (Z.to_nat n)) ->
                   close e2 (peek (hp w) (getv w t) i) (ord w o i) = true).
    { rewrite R2. split; intros HA i Hi.
      - apply zseq_In in Hi. rewrite <- (Qw_peek w w1 t i Q1). apply HA. lia.
      - rewrite (Qw_peek w w1 t i Q1). apply HA. apply zseq_In. lia. }
    clear - RB. revert RB. generalize (zseq 0 (Z.to_nat n)). intros s RB.
    assert (E : forallb (fun p => close e2 (fst p) (snd p))
                  (combine (map (peek (hp w) (getv w t)) s) (map (ord w o) s)) =
                forallb (fun i => close e2 (peek (hp w) (getv w t) i) (ord w o i)) s).
    { clear RB. induction s as [|x s IH]; simpl; auto. rewrite IH. auto. }
    rewrite E. destruct b.
    + symmetry. apply forallb_forall. apply RB. auto.
    + destruct (forallb (fun i => close e2 (peek (hp w) (getv w t) i) (ord w o i)) s) eqn:F; auto.
      rewrite forallb_forall in F. apply RB in F. discriminate.
Qed.

(* ---- index loops on a sparse receiver: r.AT(i).<op>(...) for i = 0 .. n-1 ---------- *)
Lemma upd_same : forall (h : heap) l, upd l (nth l h 0) h = h.
Proof.
  induction h as [|y h IH]; intro l; [destruct l; auto|].
  destruct l; simpl; auto. f_equal. apply IH.
Qed.
Lemma hset_same h l : hset h l (hget h l) = h.
Proof. apply upd_same. Qed.

Section IndexLoops.
Variable t : nat.
Variable n : Z.

(* r.AT(i): the entry exists afterwards, no value changes *)
Lemma at_step w i :
  G t w -> 0 <= i < dim (getv w t) ->
  exists h' v' l, at_ (hp w) (getv w t) i = Some (h', v', l) /\
    G t (seth (setv w t v') h') /\
    lookup i (vals v') = Some l /\ getv (seth (setv w t v') h') t = v' /\
    length (vecs (setv w t v')) = length (vecs w) /\
    (forall u, dim (getv (seth (setv w t v') h') u) = dim (getv w u)) /\
    (forall u k, peek h' (getv (seth (setv w t v') h') u) k = peek (hp w) (getv w u) k).
Proof.
  intros HG Hi. pose proof HG as (GI & GW & GS & GH).
  destruct (wr_spec t w i None (peek (hp w) (getv w t) i) HG Hi) as (w1 & E & G1 & L1 & D1 & P1 & F1 & F2);
    [intros l X; discriminate|].
  unfold wr in E. destruct (at_ (hp w) (getv w t) i) as [[[h' v'] l]|] eqn:A; [|discriminate].
  inversion E. clear E.
  assert (X : hget h' l = peek (hp w) (getv w t) i /\ lookup i (vals v') = Some l).
  { revert A. unfold at_. destruct (in_bounds (getv w t) i); [|discriminate]. unfold peek.
    destruct (lookup i (vals (getv w t))) as [l0|] eqn:L.
    - intro X. inversion X. subst. auto.
    - cbn [halloc]. intro X. inversion X. subst. cbn [vals]. split; [|apply lookup_insert_eq].
      unfold hget. rewrite app_nth2 by lia. rewrite Nat.sub_diag. auto. }
  destruct X as (X1 & X2). rewrite <- X1, hset_same in H0. subst w1.
  exists h', v', l. split; [auto|]. split; [auto|]. split; [auto|].
  split; [change (getv (setv w t v') t = v'); apply getv_setv_eq; auto|]. split; [simpl; apply upd_length|].
  split; [auto|]. intros u k.
  change h' with (hp (seth (setv w t v') h')) at 1.
  destruct (Nat.eq_dec u t) as [->|N].
  - destruct (Z.eq_dec k i) as [->|NK]; [auto|apply F1; auto].
  - apply F2. auto.
Qed.

Variable o : operand.
Variable A : Z -> Z.
Hypothesis Ho : match o with OS u => u <> t | OD _ => True end.

Lemma ord_frame w w1 :
  (forall u k, u <> t -> peek (hp w1) (getv w1 u) k = peek (hp w) (getv w u) k) ->
  (forall k, ord w o k = A k) -> forall k, ord w1 o k = A k.
Proof. intros F H k. rewrite <- H. destruct o as [u|d]; simpl; auto. Qed.

Variable g : world -> Z -> option Z.
Variable F : Z -> Z.
Hypothesis Hg : forall w1 k, (forall k', ord w1 o k' = A k') -> g w1 k = Some (F k).

Lemma at_loop_spec : forall cnt i w,
  G t w -> dim (getv w t) = n -> 0 <= i -> i + Z.of_nat cnt = n -> (forall k, ord w o k = A k) ->
  exists w', at_loop g cnt i w t = (w', true) /\ G t w' /\ length (vecs w') = length (vecs w) /\
    (forall u, dim (getv w' u) = dim (getv w u)) /\
    (forall k, i <= k < n -> peek (hp w') (getv w' t) k = F k) /\
    (forall k, k < i -> peek (hp w') (getv w' t) k = peek (hp w) (getv w t) k) /\
    (forall u k, u <> t -> peek (hp w') (getv w' u) k = peek (hp w) (getv w u) k).
Proof.
  induction cnt as [|c IH]; intros i w HG Hn Hi Hc HA.
  - exists w. simpl. split; [auto|]. split; [auto|]. split; [auto|]. split; [auto|].
    split; [intros k Hk; lia|]. auto.
  - cbn [at_loop].
    destruct (at_step w i HG) as (h' & v' & l & E & G1 & L1 & V1 & Len1 & D1 & P1); [lia|].
    rewrite E. set (w1 := seth (setv w t v') h') in *.
    assert (HA1 : forall k, ord w1 o k = A k).
    { apply (ord_frame w w1); auto; intros u k _; apply P1. }
    rewrite (Hg w1 i HA1).
    destruct (wr_spec t w1 i (Some l) (F i) G1) as (w2 & E2 & G2 & L2 & D2 & P2 & F1 & F2).
    { rewrite D1. lia. }
    { intros l0 X. inversion X. subst l0. rewrite V1. auto. }
    unfold wr in E2. inversion E2. clear E2. change (hp w1) with h' in H0. rewrite H0.
    destruct (IH (i + 1) w2) as (w' & E3 & G3 & L3 & D3 & R3 & S3 & F3); auto.
    + rewrite D2, D1. auto.
    + lia.
    + lia.
    + apply (ord_frame w1 w2); auto; intros u k N; apply F2; auto.
    + exists w'. split; [auto|]. split; [auto|].
      split; [rewrite L3, L2; unfold w1; simpl; apply upd_length|].
      split; [intro u; rewrite D3, D2, D1; auto|]. split; [|split].
      * intros k Hk. destruct (Z.eq_dec k i) as [->|N]; [|apply R3; lia].
        rewrite S3 by lia. auto.
      * intros k Hk. rewrite S3 by lia. rewrite (proj1 (F1 k ltac:(lia))). apply P1.
      * intros u k N. rewrite F3 by auto. rewrite (proj1 (F2 u k N)). apply P1.
Qed.
End IndexLoops.

(* VaddS / VsubS and friends: r[i] := F(a[i]) for every i *)
Theorem vopS_correct t (g : world -> Z -> option Z) (F : Z -> Z) w o :
  G t w -> operand_ok3 w t o ->
  (forall w1 k, (forall k', ord w1 o k' = ord w o k') -> g w1 k = Some (F (ord w o k))) ->
  exists w', vopS g w t o = (w', true) /\ G t w' /\ length (vecs w') = length (vecs w) /\
    sabs w' t = map F (oabs w o) /\
    (forall u, u <> t -> sabs w' u = sabs w u) /\
    (forall u, dim (getv w' u) = dim (getv w u)).
Proof.
  intros HG H2 Hg. unfold vopS. rewrite (operand_dim w t o H2), Z.eqb_refl. cbn [negb].
  set (n := dim (getv w t)).
  assert (Hn0 : 0 <= n) by (destruct HG as (GI & _); destruct (GI t) as (_ & _ & _ & _ & X); auto).
  destruct (at_loop_spec t n o (ord w o)) with (g := g) (F := fun k => F (ord w o k)) (cnt := Z.to_nat n) (i := 0) (w := w)
    as (w' & E & G' & L & D & R & S & F'); auto.
  - destruct o as [u|d]; simpl in *; tauto.
  - lia.
  - lia.
  - exists w'. split; [auto|]. split; [auto|]. split; [auto|]. split; [|split; [|auto]].
    + rewrite (sabs_peek w' t n) by (rewrite D; auto).
      rewrite (oabs_ord w o n) by (apply operand_dim; auto). rewrite map_map.
      apply map_ext_in. intros i Hi. apply zseq_In in Hi. apply R. lia.
    + intros u N. rewrite (sabs_peek w' u _ (D u)), (sabs_peek w u _ eq_refl).
      apply map_ext. intro i. apply F'. auto.
Qed.

(* ---- VdivV on a sparse receiver (index loop with the zero-dividend shortcut) ------- *)
Section DivV.
Variable t : nat.
Variable n : Z.
Variable y : ty.
Variables o2 o3 : operand.
Variables A B : Z -> Z.
Hypothesis Ho2 : match o2 with OS u => u <> t | OD _ => True end.
Hypothesis Ho3 : match o3 with OS u => u <> t | OD _ => True end.
Hypothesis HB : forall k, 0 <= k < n -> B k <> 0.

Lemma divv_loop_spec : forall cnt i w,
  G t w -> dim (getv w t) = n -> 0 <= i -> i + Z.of_nat cnt = n ->
  (forall k, ord w o2 k = A k) -> (forall k, ord w o3 k = B k) ->
  exists w', divv_loop y cnt i w t o2 o3 = (w', true) /\ G t w' /\ length (vecs w') = length (vecs w) /\
    (forall u, dim (getv w' u) = dim (getv w u)) /\
    (forall k, i <= k < n -> peek (hp w') (getv w' t) k = Z.quot (A k) (B k)) /\
    (forall k, k < i -> peek (hp w') (getv w' t) k = peek (hp w) (getv w t) k) /\
    (forall u k, u <> t -> peek (hp w') (getv w' u) k = peek (hp w) (getv w u) k).
Proof.
  induction cnt as [|c IH]; intros i w HG Hn Hi Hc HA HBo.
  - exists w. simpl. split; [auto|]. split; [auto|]. split; [auto|]. split; [auto|].
    split; [intros k Hk; lia|]. auto.
  - cbn [divv_loop]. rewrite HA, HBo.
    assert (Bi : B i <> 0) by (apply HB; lia).
    assert (EB : (B i =? 0) = false) by (apply Z.eqb_neq; auto).
    rewrite EB, orb_false_r.
    (* the three branches all leave r[i] = A i / B i; the first two write through AT *)
    assert (Step : forall x, x = Z.quot (A i) (B i) ->
              forall w2, wr w t i None x = Some w2 ->
              exists w', divv_loop y c (i + 1) w2 t o2 o3 = (w', true) /\ G t w' /\
                length (vecs w') = length (vecs w) /\
                (forall u, dim (getv w' u) = dim (getv w u)) /\
                (forall k, i <= k < n -> peek (hp w') (getv w' t) k = Z.quot (A k) (B k)) /\
                (forall k, k < i -> peek (hp w') (getv w' t) k = peek (hp w) (getv w t) k) /\
                (forall u k, u <> t -> peek (hp w') (getv w' u) k = peek (hp w) (getv w u) k)).
    { intros x Hx w2 E2.
      destruct (wr_spec t w i None x HG) as (w2' & E2' & G2 & L2 & D2 & P2 & F1 & F2);
        [lia|intros l X; discriminate|].
      rewrite E2 in E2'. inversion E2'. subst w2'. clear E2'.
      destruct (IH (i + 1) w2) as (w' & E3 & G3 & L3 & D3 & R3 & S3 & F3); auto.
      - rewrite D2. auto.
      - lia.
      - lia.
      - apply (ord_frame t o2 A Ho2 w w2); auto; intros u k N; apply F2; auto.
      - apply (ord_frame t o3 B Ho3 w w2); auto; intros u k N; apply F2; auto.
      - exists w'. split; [auto|]. split; [auto|]. split; [lia|].
        split; [intro u; rewrite D3, D2; auto|]. split; [|split].
        + intros k Hk. destruct (Z.eq_dec k i) as [->|N]; [|apply R3; lia].
          rewrite S3 by lia. rewrite P2. auto.
        + intros k Hk. rewrite S3 by lia. apply (proj1 (F1 k ltac:(lia))).
        + intros u k N. rewrite F3 by auto. apply (proj1 (F2 u k N)). }
    destruct (A i =? 0) eqn:EA; cbn [negb].
    + apply Z.eqb_eq in EA.
      destruct (peek (hp w) (getv w t) i =? 0) eqn:ER; cbn [negb].
      * (* nothing to do: r[i] is already 0 *)
        apply Z.eqb_eq in ER.
        destruct (IH (i + 1) w) as (w' & E3 & G3 & L3 & D3 & R3 & S3 & F3); auto; try lia.
        exists w'. split; [auto|]. split; [auto|]. split; [auto|]. split; [auto|]. split; [|split; auto].
        { intros k Hk. destruct (Z.eq_dec k i) as [->|N]; [|apply R3; lia].
          rewrite S3 by lia. rewrite ER, EA. symmetry. apply Z.quot_0_l. auto. }
        { intros k Hk. apply S3. lia. }
      * (* r.At(i).Reset() *)
        destruct (wr_spec t w i None 0 HG) as (w2 & E2 & _); [lia|intros l X; discriminate|].
        pose proof E2 as E2'. unfold wr in E2'.
        destruct (at_ (hp w) (getv w t) i) as [[[h' v'] l]|]; [|discriminate].
        inversion E2'. apply (Step 0); [rewrite EA; symmetry; apply Z.quot_0_l; auto|rewrite E2; f_equal; rewrite <- H0; reflexivity].
    + destruct (wr_spec t w i None (Z.quot (A i) (B i)) HG) as (w2 & E2 & _); [lia|intros l X; discriminate|].
      pose proof E2 as E2'. unfold wr in E2'.
      destruct (at_ (hp w) (getv w t) i) as [[[h' v'] l]|]; [|discriminate].
      rewrite sdiv_nonzero by auto.
      inversion E2'. apply (Step (Z.quot (A i) (B i))); [reflexivity|rewrite E2; f_equal; rewrite <- H0; reflexivity].
Qed.
End DivV.

Theorem vdivv_correct t y w o2 o3 :
  G t w -> operand_ok3 w t o2 -> operand_ok3 w t o3 -> nonzero_all (oabs w o3) ->
  exists w', vdivv y w t o2 o3 = (w', true) /\ G t w' /\ length (vecs w') = length (vecs w) /\
    sabs w' t = map2 Z.quot (oabs w o2) (oabs w o3) /\
    (forall u, u <> t -> sabs w' u = sabs w u) /\
    (forall u, dim (getv w' u) = dim (getv w u)).
Proof.
  intros HG H2 H3 Hnz. unfold vdivv.
  rewrite (operand_dim w t o2 H2), (operand_dim w t o3 H3), Z.eqb_refl. cbn [negb orb].
  set (n := dim (getv w t)).
  assert (Hn0 : 0 <= n) by (destruct HG as (GI & _); destruct (GI t) as (_ & _ & _ & _ & X); auto).
  destruct (divv_loop_spec t n y o2 o3 (ord w o2) (ord w o3)) with (cnt := Z.to_nat n) (i := 0) (w := w)
    as (w' & E & G' & L & D & R & S & F'); auto.
  - destruct o2 as [u|d]; simpl in *; tauto.
  - destruct o3 as [u|d]; simpl in *; tauto.
  - intros k Hk. unfold nonzero_all in Hnz. rewrite (oabs_ord w o3 n) in Hnz by (apply operand_dim; auto).
    rewrite Forall_forall in Hnz. apply Hnz. apply in_map. apply zseq_In. lia.
  - lia.
  - lia.
  - exists w'. split; [auto|]. split; [auto|]. split; [auto|]. split; [|split; [|auto]].
    + rewrite (sabs_peek w' t n) by (rewrite D; auto).
      rewrite (oabs_ord w o2 n), (oabs_ord w o3 n) by (apply operand_dim; auto). rewrite map2_map.
      apply map_ext_in. intros i Hi. apply zseq_In in Hi. apply R. lia.
    + intros u N. rewrite (sabs_peek w' u _ (D u)), (sabs_peek w u _ eq_refl).
      apply map_ext. intro i. apply F'. auto.
Qed.
