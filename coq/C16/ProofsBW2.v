(* C16 — Baum-Welch ascent, part 2: the chain bound in index form, instantiated at the HMM
   factors f_t(i,j) = Tr(i,j) e(j,t+1), a_0(i) = Pi(i) e(i,0): for one sequence,

     sum_i g0_0(i) (ln Pi'(i) - ln Pi(i)) + sum_t sum_ij x0_t(i,j) (ln Tr'(i,j) - ln Tr(i,j))
       + sum_k sum_j g0_k(j) (ln e'(j,k) - ln e(j,k))   <=   L (ln L' - ln L)

   with g0_k(j) = alpha_k(j) beta_k(j) and x0_t(i,j) = alpha_t(i) Tr(i,j) beta_{t+1}(j) e(j,t+1), the
   unnormalised expected counts of baumWelchThread; both normalisers the code uses (sum_i g0_k(i) at
   every position k, sum_ij x0_t(i,j) at every transition t) equal the likelihood L. *)
From Coq Require Import Reals List Lra Lia Psatz.
From ADV Require Import Base.Num C16.Model C16.ModelHmm C16.Spec C16.ProofsMax C16.ProofsEM C16.ProofsBW.
Import ListNotations.
Open Scope R_scope.

Lemma rsum_shift n g : rsum (S n) g = g 0%nat + rsum n (fun t => g (S t)).
Proof.
  induction n as [|n IH]; [simpl; lra|].
  change (rsum (S (S n)) g) with (rsum (S n) g + g (S n)). rewrite IH. simpl. lra.
Qed.

Lemma rsum_shift' n g : (1 <= n)%nat -> rsum n g = g 0%nat + rsum (n - 1) (fun t => g (S t)).
Proof. intros H. destruct n as [|m]; [lia|]. replace (S m - 1)%nat with m by lia. apply rsum_shift. Qed.

Lemma Forall_skipn' {X} (P : X -> Prop) k : forall l, Forall P l -> Forall P (skipn k l).
Proof. induction k as [|k IH]; intros l H; [exact H|]. destruct l; [exact H|]. inversion H; subst. simpl. apply IH. assumption. Qed.

Definition d0 : nat -> nat -> R := fun _ _ => 0.

Section ChainIndex.
Variable M : nat.
Local Notation fwd := (c_fwd NumR M).
Local Notation bwd := (c_bwd NumR M).

Definition c_mass (a : nat -> R) fs (t i j : nat) : R := fwd a fs t i * nth t fs d0 i j * bwd (skipn (S t) fs) j.

Lemma c_Q_index fs : forall fs' a, length fs = length fs' ->
  c_Q M a fs fs' = rsum (length fs) (fun t => rsum M (fun i => rsum M (fun j =>
     c_mass a fs t i j * (ln (nth t fs' d0 i j) - ln (nth t fs d0 i j))))).
Proof.
  induction fs as [|f r IH]; intros fs' a Hl; [reflexivity|].
  destruct fs' as [|f' r']; [discriminate|]. simpl in Hl. simpl length. rewrite rsum_shift.
  simpl c_Q. rewrite (IH r' _ (eq_add_S _ _ Hl)). reflexivity.
Qed.

Lemma c_supp_index fs : forall fs' a, length fs = length fs' ->
  (forall t i j, (t < length fs)%nat -> (i < M)%nat -> (j < M)%nat -> 0 < c_mass a fs t i j -> 0 < nth t fs' d0 i j) ->
  c_supp M a fs fs'.
Proof.
  induction fs as [|f r IH]; intros fs' a Hl H; [exact I|].
  destruct fs' as [|f' r']; [exact I|]. simpl in Hl. split.
  - intros i j Hi Hj Hm. apply (H 0%nat i j); [simpl; lia|assumption|assumption|exact Hm].
  - apply IH; [lia|]. intros t i j Ht Hi Hj Hm. apply (H (S t) i j); [simpl; lia|assumption|assumption|exact Hm].
Qed.
End ChainIndex.

Section OneSequence.
Variables (M n : nat).
Variables (pi pi' : nat -> R) (tr tr' : nat -> nat -> R) (e e' : nat -> nat -> R).
Hypothesis Hn : (1 <= n)%nat.
Hypothesis Hpi : nonneg1 M pi.
Hypothesis Hpi' : nonneg1 M pi'.
Hypothesis Htr : nonneg2 M tr.
Hypothesis Htr' : nonneg2 M tr'.
Hypothesis He : forall j k, (j < M)%nat -> 0 <= e j k.
Hypothesis He' : forall j k, (j < M)%nat -> 0 <= e' j k.

Local Notation fwd := (c_fwd NumR M).
Local Notation bwd := (c_bwd NumR M).
Let a0 := h_a0 NumR pi e.
Let fs := h_fs NumR tr e n.
Let a0' := h_a0 NumR pi' e'.
Let fs' := h_fs NumR tr' e' n.
Definition sq_al (k : nat) := fwd a0 fs k.
Definition sq_be (k : nat) := bwd (skipn k fs).
Definition sq_g0 (k j : nat) := sq_al k j * sq_be k j.
Definition sq_x0 (t i j : nat) := sq_al t i * tr i j * sq_be (S t) j * e j (S t).
Definition sq_L := c_L M a0 fs.
Definition sq_L' := c_L M a0' fs'.

Lemma hfs_len tr0 e0 : length (h_fs NumR tr0 e0 n) = (n - 1)%nat.
Proof. unfold h_fs. rewrite map_length, seq_length. reflexivity. Qed.
Lemma hfs_nth tr0 e0 t : (t < n - 1)%nat -> nth t (h_fs NumR tr0 e0 n) d0 = fun i j => tr0 i j * e0 j (S t).
Proof.
  intros Ht. unfold h_fs. rewrite nth_map_seq by assumption. reflexivity.
Qed.
Lemma hfs_nonneg tr0 e0 : nonneg2 M tr0 -> (forall j k, (j < M)%nat -> 0 <= e0 j k) -> Forall (nonneg2 M) (h_fs NumR tr0 e0 n).
Proof.
  intros H1 H2. apply Forall_forall. intros f Hf. unfold h_fs in Hf. apply in_map_iff in Hf.
  destruct Hf as (k & <- & _). intros i j Hi Hj. simpl. apply Rmult_le_pos; [apply H1|apply H2]; assumption.
Qed.
Lemma ha0_nonneg p0 e0 : nonneg1 M p0 -> (forall j k, (j < M)%nat -> 0 <= e0 j k) -> nonneg1 M (h_a0 NumR p0 e0).
Proof. intros H1 H2 i Hi. unfold h_a0. simpl. apply Rmult_le_pos; [apply H1|apply H2]; assumption. Qed.

Lemma al_nonneg k : nonneg1 M (sq_al k).
Proof. apply fwd_nonneg; [apply ha0_nonneg|apply hfs_nonneg]; assumption. Qed.
Lemma be_nonneg k j : (j < M)%nat -> 0 <= sq_be k j.
Proof. apply bwd_nonneg. apply Forall_skipn'. apply hfs_nonneg; assumption. Qed.
Lemma g0_nonneg k j : (j < M)%nat -> 0 <= sq_g0 k j.
Proof. intros Hj. apply Rmult_le_pos; [apply al_nonneg|apply be_nonneg]; assumption. Qed.
Lemma x0_nonneg t i j : (i < M)%nat -> (j < M)%nat -> 0 <= sq_x0 t i j.
Proof.
  intros Hi Hj. unfold sq_x0.
  apply Rmult_le_pos; [apply Rmult_le_pos; [apply Rmult_le_pos; [apply al_nonneg|apply Htr]|apply be_nonneg]|apply He]; assumption.
Qed.

Lemma mass_x0 t i j : (t < n - 1)%nat -> c_mass M a0 fs t i j = sq_x0 t i j.
Proof. intros Ht. unfold c_mass, sq_x0, sq_al, sq_be, fs. rewrite hfs_nth by assumption. ring. Qed.

(* sum_i x0_t(i,j) = g0_{t+1}(j) *)
Lemma x0_sum t j : (t < n - 1)%nat -> (j < M)%nat -> rsum M (fun i => sq_x0 t i j) = sq_g0 (S t) j.
Proof.
  intros Ht Hj. unfold sq_g0, sq_al. rewrite (fwd_S M fs a0 t) by (unfold fs; rewrite hfs_len; assumption).
  rewrite step_R by assumption. unfold fs at 2. rewrite hfs_nth by assumption. rewrite <- rsum_scal_r.
  apply rsum_ext. intros i Hi. unfold sq_x0, sq_al. ring.
Qed.
(* both normalisers of the code are the likelihood *)
Lemma g0_total k : (k <= n - 1)%nat -> rsum M (sq_g0 k) = sq_L.
Proof. intros Hk. unfold sq_g0, sq_al, sq_be, sq_L. apply fwd_bwd_const. unfold fs. rewrite hfs_len. assumption. Qed.
Lemma x0_total t : (t < n - 1)%nat -> rsum M (fun i => rsum M (fun j => sq_x0 t i j)) = sq_L.
Proof.
  intros Ht. rewrite rsum_swap. rewrite <- (g0_total (S t)) by lia.
  apply rsum_ext. intros j Hj. apply x0_sum; assumption.
Qed.
Lemma lik_is_L : rsum M (sq_al (n - 1)) = sq_L.
Proof. unfold sq_al, sq_L. rewrite <- (c_L_fwd M a0 fs). replace (length fs) with (n - 1)%nat by (unfold fs; rewrite hfs_len; reflexivity). reflexivity. Qed.

Lemma x0_le_g0 t i j : (t < n - 1)%nat -> (i < M)%nat -> (j < M)%nat -> sq_x0 t i j <= sq_g0 (S t) j.
Proof.
  intros Ht Hi Hj. rewrite <- x0_sum by assumption.
  apply (rsum_term_le M (fun i0 => sq_x0 t i0 j)); [intros; apply x0_nonneg; assumption|assumption].
Qed.

Hypothesis S1 : forall i, (i < M)%nat -> 0 < sq_g0 0 i -> 0 < pi' i.
Hypothesis S2 : forall t i j, (t < n - 1)%nat -> (i < M)%nat -> (j < M)%nat -> 0 < sq_x0 t i j -> 0 < tr' i j.
Hypothesis S3 : forall k j, (k < n)%nat -> (j < M)%nat -> 0 < sq_g0 k j -> 0 < e' j k.

Lemma g00 i : sq_g0 0 i = pi i * e i 0%nat * bwd fs i.
Proof. unfold sq_g0, sq_al, sq_be. destruct fs; reflexivity. Qed.

Theorem sequence_bound :
  rsum M (fun i => sq_g0 0 i * (ln (pi' i) - ln (pi i)))
  + rsum (n - 1) (fun t => rsum M (fun i => rsum M (fun j => sq_x0 t i j * (ln (tr' i j) - ln (tr i j)))))
  + rsum n (fun k => rsum M (fun j => sq_g0 k j * (ln (e' j k) - ln (e j k))))
  <= sq_L * (ln sq_L' - ln sq_L).
Proof.
  pose proof (chain_bound M fs fs' a0 a0') as CB.
  assert (Hlen : length fs = length fs') by (unfold fs, fs'; rewrite !hfs_len; reflexivity).
  assert (C1 : forall i, (i < M)%nat -> 0 < a0 i * bwd fs i -> 0 < a0' i).
  { intros i Hi Hm. assert (Hg : 0 < sq_g0 0 i) by (rewrite g00; exact Hm).
    unfold a0', h_a0. simpl. apply Rmult_lt_0_compat; [apply S1; assumption|apply S3; [lia|assumption|assumption]]. }
  assert (C2 : c_supp M a0 fs fs').
  { apply c_supp_index; [exact Hlen|]. intros t i j Ht Hi Hj Hm. unfold fs in Ht. rewrite hfs_len in Ht.
    rewrite mass_x0 in Hm by assumption. unfold fs'. rewrite hfs_nth by assumption.
    apply Rmult_lt_0_compat; [apply (S2 t i j); assumption|].
    apply S3; [lia|assumption|]. apply Rlt_le_trans with (sq_x0 t i j); [assumption|apply x0_le_g0; assumption]. }
  specialize (CB Hlen (ha0_nonneg pi e Hpi He) (ha0_nonneg pi' e' Hpi' He')
                 (hfs_nonneg tr e Htr He) (hfs_nonneg tr' e' Htr' He') C1 C2).
  fold sq_L sq_L' in CB.
  eapply Rle_trans; [|exact CB]. right.
  (* start-vector term *)
  assert (T0 : rsum M (fun i => a0 i * bwd fs i * (ln (a0' i) - ln (a0 i)))
               = rsum M (fun i => sq_g0 0 i * (ln (pi' i) - ln (pi i)))
                 + rsum M (fun j => sq_g0 0 j * (ln (e' j 0%nat) - ln (e j 0%nat)))).
  { rewrite <- rsum_plus. apply rsum_ext. intros i Hi. cbv beta.
    destruct (Rle_lt_or_eq_dec _ _ (g0_nonneg 0 i Hi)) as [Hg|Hg].
    - pose proof Hg as Hg'. rewrite g00 in Hg'.
      destruct (pos_of_prod _ _ (Rmult_le_pos _ _ (Hpi i Hi) (He i 0%nat Hi)) (bwd_nonneg M fs (hfs_nonneg tr e Htr He) i Hi) Hg') as [Hpe _].
      destruct (pos_of_prod _ _ (Hpi i Hi) (He i 0%nat Hi) Hpe) as [P1 P2].
      unfold a0, a0', h_a0. simpl mul. rewrite !ln_mult; try assumption; [rewrite g00; ring|apply S1; assumption|apply S3; [lia|assumption|assumption]].
    - rewrite <- Hg. rewrite g00 in Hg. unfold a0 at 1, h_a0. simpl mul. rewrite <- Hg. ring. }
  (* transition terms *)
  assert (T1 : c_Q M a0 fs fs'
               = rsum (n - 1) (fun t => rsum M (fun i => rsum M (fun j => sq_x0 t i j * (ln (tr' i j) - ln (tr i j)))))
                 + rsum (n - 1) (fun t => rsum M (fun j => sq_g0 (S t) j * (ln (e' j (S t)) - ln (e j (S t)))))).
  { rewrite c_Q_index by exact Hlen. unfold fs at 1. rewrite hfs_len. rewrite <- rsum_plus.
    apply rsum_ext. intros t Ht. cbv beta.
    transitivity (rsum M (fun i => rsum M (fun j => sq_x0 t i j * (ln (tr' i j) - ln (tr i j))))
                  + rsum M (fun i => rsum M (fun j => sq_x0 t i j * (ln (e' j (S t)) - ln (e j (S t)))))).
    - rewrite <- rsum_plus. apply rsum_ext. intros i Hi. cbv beta. rewrite <- rsum_plus. apply rsum_ext. intros j Hj. cbv beta.
      rewrite mass_x0 by assumption. unfold fs, fs'. rewrite !hfs_nth by assumption.
      destruct (Rle_lt_or_eq_dec _ _ (x0_nonneg t i j Hi Hj)) as [Hx|Hx].
      + pose proof Hx as Hx'. unfold sq_x0 in Hx'.
        destruct (pos_of_prod _ _ (Rmult_le_pos _ _ (Rmult_le_pos _ _ (al_nonneg t i Hi) (Htr i j Hi Hj)) (be_nonneg (S t) j Hj)) (He j (S t) Hj) Hx') as [Hx2 P4].
        destruct (pos_of_prod _ _ (Rmult_le_pos _ _ (al_nonneg t i Hi) (Htr i j Hi Hj)) (be_nonneg (S t) j Hj) Hx2) as [Hx3 _].
        destruct (pos_of_prod _ _ (al_nonneg t i Hi) (Htr i j Hi Hj) Hx3) as [_ P2].
        rewrite !ln_mult; try assumption; [ring|apply (S2 t i j); assumption|].
        apply S3; [lia|assumption|]. apply Rlt_le_trans with (sq_x0 t i j); [assumption|apply x0_le_g0; assumption].
      + rewrite <- Hx. ring.
    - f_equal. rewrite rsum_swap. apply rsum_ext. intros j Hj. cbv beta.
      rewrite rsum_scal_r. rewrite x0_sum by assumption. reflexivity. }
  rewrite T0, T1, (rsum_shift' n (fun k => rsum M (fun j => sq_g0 k j * (ln (e' j k) - ln (e j k)))) Hn). lra.
Qed.

End OneSequence.
