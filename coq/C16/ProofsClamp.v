(* C16 — the SigmaMin clamp of normal.go as modelled ([normal_update]): the comparison is made on the
   STANDARD DEVIATION sqrt(E[x^2] - E[x]^2), not on the variance, and the value returned is
   max(sqrt(var), SigmaMin) — the constrained maximiser of [normal_estimate_is_constrained_maximiser]. *)
From Coq Require Import Reals List Lra Lia Bool Floats.
From ADV Require Import Base.Num C16.Model C16.Spec.
Import ListNotations.
Open Scope R_scope.

Lemma normal_update_clamps_std_dev smin acc mu sg :
  normal_update NumR smin acc = Some (mu, sg) ->
  let s1 := (0 + sum_m acc) / (0 + sum_g acc) in
  let s2 := (0 + sum_s acc) / (0 + sum_g acc) in
  mu = s1 /\ sg = Rmax (R_sqrt.sqrt (s2 - s1 * s1)) smin /\ 0 < sg.
Proof.
  unfold normal_update. simpl.
  set (s1 := (0 + sum_m acc) / (0 + sum_g acc)). set (s2 := (0 + sum_s acc) / (0 + sum_g acc)).
  set (sd := R_sqrt.sqrt (s2 - s1 * s1)).
  destruct (Rltb sd smin) eqn:E.
  - apply Rltb_true in E. destruct (Rleb smin 0) eqn:E0; [discriminate|]. intros H; injection H as <- <-.
    split; [reflexivity|]. split.
    + unfold Rmax. destruct (Rle_dec sd smin); lra.
    + destruct (Rle_or_lt smin 0) as [Hc|Hc]; [apply Rleb_true in Hc; congruence|exact Hc].
  - destruct (Rleb sd 0) eqn:E0; [discriminate|]. intros H; injection H as <- <-.
    assert (Hge : ~ sd < smin) by (intros Hc; apply Rltb_true in Hc; congruence).
    split; [reflexivity|]. split.
    + unfold Rmax. destruct (Rle_dec sd smin); lra.
    + destruct (Rle_or_lt sd 0) as [Hc|Hc]; [apply Rleb_true in Hc; congruence|exact Hc].
Qed.

(* the comparison is on the standard deviation: variance 1/4 (sd 1/2), SigmaMin = 3/8.  sd >= SigmaMin, so the
   estimate keeps sd = 1/2; a comparison of the VARIANCE 1/4 < 3/8 would clamp to 3/8 (seeded regression of round 1) *)
Example clamp_compares_std_dev_not_variance :
  normal_update NumF 0x1.8p-2%float (mkNacc 0%float 0x1p-1%float 2%float) = Some (0%float, 0x1p-1%float).
Proof. vm_compute. reflexivity. Qed.

(* ---- the normal M-step inside EM: the clamped estimate satisfies the component hypothesis of
   [em_step_never_decreases_likelihood] against every admissible (mu, sigma >= SigmaMin) ---- *)
From ADV Require Import C16.ProofsMax C16.ProofsEM.

Definition normal_pdf (mu sigma x : R) : R :=
  / (sigma * R_sqrt.sqrt (2 * PI)) * exp (- ((x - mu) * (x - mu) / (2 * (sigma * sigma)))).

Lemma ln_normal_pdf mu sigma x : 0 < sigma ->
  ln (normal_pdf mu sigma x) = (- ln sigma - (x - mu) * (x - mu) / (2 * (sigma * sigma))) - ln (R_sqrt.sqrt (2 * PI)).
Proof.
  intros Hs. unfold normal_pdf.
  assert (Hp : 0 < R_sqrt.sqrt (2 * PI)) by (apply sqrt_lt_R0; pose proof PI_RGT_0; lra).
  rewrite ln_mult; [|apply Rinv_0_lt_compat; apply Rmult_lt_0_compat; assumption|apply exp_pos].
  rewrite ln_exp. rewrite ln_Rinv by (apply Rmult_lt_0_compat; assumption).
  rewrite ln_mult by assumption. lra.
Qed.

Theorem em_normal_mstep_is_exact n (r x : nat -> R) smin mu sigma :
  (forall l, (l < n)%nat -> 0 <= r l) -> 0 < rsum n r -> 0 <= smin ->
  let d := map (fun l => (r l, x l)) (seq 0 n) in
  0 < mle_sigma smin d -> 0 < sigma -> smin <= sigma ->
  comp_ll n r (fun l => normal_pdf mu sigma (x l))
  <= comp_ll n r (fun l => normal_pdf (mle_mu d) (mle_sigma smin d) (x l)).
Proof.
  intros Hr HR Hsm d Hms Hs Hle.
  assert (Hw : nonneg_w d).
  { intros p Hp. unfold d in Hp. apply in_map_iff in Hp. destruct Hp as (l & <- & Hl). apply in_seq in Hl. simpl. apply Hr. lia. }
  assert (HW : sumw d = rsum n r).
  { unfold sumw, d. rewrite (lsum_seq (fun l => (r l, x l))). reflexivity. }
  pose proof (normal_max smin d Hw) as NM. rewrite HW in NM. specialize (NM HR Hsm Hms mu sigma Hs Hle).
  assert (E : forall m s, 0 < s ->
     comp_ll n r (fun l => normal_pdf m s (x l)) = ll_normal d m s - rsum n r * ln (R_sqrt.sqrt (2 * PI))).
  { intros m s Hsp. unfold comp_ll, ll_normal, d. rewrite (lsum_seq (fun l => (r l, x l))). simpl.
    rewrite <- rsum_scal_r, <- rsum_minus. apply rsum_ext. intros l Hl. cbv beta. rewrite ln_normal_pdf by assumption. ring. }
  rewrite (E mu sigma Hs), (E _ _ Hms). lra.
Qed.
