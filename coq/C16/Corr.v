(* C16 correspondence: what the Go estimators / EM driver returned, compared with
   the executable model.

   - normal estimator: bit-exact replay on primitive floats (the single exp per
     observation is looked up in a table of (argument, Go's math.Exp) pairs that
     is certified entry by entry with Coq-Interval in a separate shard);
   - log-scale families (exponential, Poisson, geometric, categorical): Go's
     result against the linear-scale closed form evaluated in Q with the
     certified table values as weights, tolerance decided in Q;
   - perturbation check: the weighted log-likelihood at Go's returned
     parameters against multiplicative perturbations (1 +- 2^-10), decided in Q
     with certified rational bounds for ln(1 +- 2^-10);
   - EM: hook trace (iteration, parameters, likelihood, change) against the
     single-step Q model started from Go's state, the driver model and the
     monotonicity of Go's reported likelihoods. *)
From Coq Require Import ZArith QArith Qabs Floats List Bool.
From ADV Require Import Base.Num Base.Corr C16.Model.
Import ListNotations.

Definition exptab := list (float * float).

Definition tab_lookup (tab : exptab) (d : float) : option float :=
  if feqb d neg_infinity then Some 0%float else
  match find (fun p => feqb (fst p) d) tab with Some p => Some (snd p) | None => None end.
Definition tabexp (tab : exptab) (d : float) : float :=
  match tab_lookup tab d with Some e => e | None => nan end.

Definition f2lw (x : float) : option float := if feqb x neg_infinity then None else Some x.

Definition fpair_eqb (a b : float * float) : bool := feqb (fst a) (fst b) && feqb (snd a) (snd b).

(* ---------------- Q helpers ---------------- *)
Definition Qadd' := add NumQ. Definition Qmul' := mul NumQ. Definition Qdiv' := div NumQ. Definition Qsub' := sub NumQ.
Definition tolQ : Q := 1 # 1000000000.
Definition closeQ (tol go model : Q) : bool := Qle_bool (Qabs (go - model)) (tol * Qabs model).

(* weight exp(gamma) in Q from the certified table; gamma = nil means weight 1 *)
Definition wq (tab : exptab) (g : float) : option Q :=
  match tab_lookup tab g with Some e => F2Q e | None => None end.

Fixpoint all_some {X} (l : list (option X)) : option (list X) :=
  match l with
  | [] => Some []
  | Some x :: r => match all_some r with Some r' => Some (x :: r') | None => None end
  | None :: _ => None
  end.

Definition weights (tab : exptab) (n : nat) (g : option (list float)) : option (list Q) :=
  match g with
  | None => Some (repeat 1%Q n)
  | Some gs => if Nat.eqb (length gs) n then all_some (map (wq tab) gs) else None
  end.

Definition qdata (tab : exptab) (xs : list float) (g : option (list float)) : option (list (Q * Q)) :=
  match weights tab (length xs) g, all_some (map F2Q xs) with
  | Some ws, Some qs => Some (combine ws qs)
  | _, _ => None
  end.

Definition opt_closeQ (go : option float) (model : option Q) : bool :=
  match go, model with
  | None, None => true
  | Some g, Some m => match F2Q g with Some gq => closeQ tolQ gq m | None => false end
  | _, _ => false
  end.

(* ---------------- perturbation check (Q) ---------------- *)
(* certified in ProofsCorr.v:  lnp_lo <= ln(1+2^-10) <= lnp_hi,  lnm_lo <= ln(1-2^-10) <= lnm_hi *)
Definition delta : Q := 1 # 1024.
Definition lnp_lo : Q := 976085973 # 1000000000000.   (* ln(1+2^-10) = 0.000976085973055... *)
Definition lnp_hi : Q := 976085974 # 1000000000000.
Definition lnm_lo : Q := (-977039648) # 1000000000000.  (* ln(1-2^-10) = -0.000977039647826... *)
Definition lnm_hi : Q := (-977039647) # 1000000000000.

Definition qW (d : list (Q * Q)) := cf_W NumQ d.
Definition qM (d : list (Q * Q)) := cf_M NumQ d.
Definition qQ (d : list (Q * Q)) := cf_Q NumQ d.
Definition nonneg_hi (w : Q) (lo hi : Q) : Q := if Qle_bool 0 w then w * hi else w * lo. (* upper bound of w*ln(.) *)

(* normal: ll(mu,sigma) = -W ln sigma - S(mu)/(2 sigma^2).  mu +- sigma*delta must not decrease S;
   sigma(1+-delta): -W ln(1+-delta) - S/(2 sigma^2) (1/(1+-delta)^2 - 1) <= 0 (minus direction only when
   sigma(1-delta) >= sigma_min). *)
Definition perturb_normal (smin : Q) (d : list (Q * Q)) (mu sigma : Q) : bool :=
  let W := qW d in let M := qM d in let S2 := qQ d in
  let S := fun m => S2 - 2 * m * M + m * m * W in
  let dm := sigma * delta in
  let s2 := sigma * sigma in
  let up := - (W * lnp_lo) - S mu / (2 * s2) * (1 / ((1 + delta) * (1 + delta)) - 1) in
  let dn := - (W * lnm_lo) - S mu / (2 * s2) * (1 / ((1 - delta) * (1 - delta)) - 1) in
  Qle_bool (S mu) (S (mu + dm)) && Qle_bool (S mu) (S (mu - dm)) &&
  Qle_bool up 0 && (if Qle_bool smin (sigma * (1 - delta)) then Qle_bool dn 0 else true).

(* exponential: ll = W ln lam - lam M;  lam(1+-delta): W ln(1+-delta) -+ delta lam M <= 0 *)
Definition perturb_exponential (lmax : Q) (d : list (Q * Q)) (lam : Q) : bool :=
  let W := qW d in let M := qM d in
  (if Qle_bool (lam * (1 + delta)) lmax then Qle_bool (W * lnp_hi - delta * lam * M) 0 else true) &&
  Qle_bool (W * lnm_hi + delta * lam * M) 0.

(* Poisson: ll = M ln lam - lam W *)
Definition perturb_poisson (d : list (Q * Q)) (lam : Q) : bool :=
  let d := filter (fun p => Qle_bool 0 (snd p)) d in
  let W := qW d in let M := qM d in
  Qle_bool (M * lnp_hi - delta * lam * W) 0 && Qle_bool (M * lnm_hi + delta * lam * W) 0.

(* geometric: ll = W ln p + M ln(1-p); ln((1-p')/(1-p)) <= (1-p')/(1-p) - 1 *)
Definition perturb_geometric (d : list (Q * Q)) (p : Q) : bool :=
  let W := qW d in let M := qM d in
  if Qle_bool 1 p then Qle_bool (W * lnm_hi) 0 &&
       (Qeq_bool M 0 || Qle_bool (M * 9007199254740992) W)
       (* p = 1 is only optimal without mass above 0 - or, for a binary64 estimate, when the exact optimum W/(W+M)
          is within 2^-53 of 1 and therefore not representable below 1 (e.g. a log-weight of -700 next to 1.5) *)
  else
    (if Qlt_le_dec (p * (1 + delta)) 1 then Qle_bool (W * lnp_hi - M * (delta * p / (1 - p))) 0 else true) &&
    Qle_bool (W * lnm_hi + M * (delta * p / (1 - p))) 0.

(* ---------------- estimator cases ---------------- *)
Inductive case :=
| CNormal (pert : bool) (smin : float) (xs : list float) (g : option (list float)) (res : option (float * float))
| CRate (fam : Z) (bound : float) (xs : list float) (g : option (list float)) (res : option float)
| CCat (k : nat) (xs : list nat) (g : option (list float)) (res : option (list float))
| CEm (fam : Z) (K J : nat) (xs : list nat) (eps : float) (max_steps : option nat)
      (trace : list (nat * list float * list (list float) * float * float)).

(* The perturbation check needs a well-conditioned variance: the estimator computes
   sqrt(E[x^2] - E[x]^2) in binary64, which loses everything when the exact variance is below
   2^-20 E[x^2] (then only the bit-exact replay is checked; the theorems are over R). *)
Definition well_conditioned (d : list (Q * Q)) : bool :=
  let W := qW d in
  if Qle_bool W 0 then false else
  let m := qM d / W in let q := qQ d / W in
  Qle_bool (q * (1 # 1048576)) (q - m * m) && negb (Qeq_bool q 0).

Definition check_normal (tab : exptab) (pert : bool) smin xs g res : bool :=
  let model := normal_est NumF (tabexp tab) smin xs (option_map (map f2lw) g) in
  option_eqb fpair_eqb model res &&
  (negb pert ||
   match res, qdata tab xs g, F2Q smin with
   | Some (mu, sigma), Some d, Some sq =>
       if well_conditioned d then
         match F2Q mu, F2Q sigma with
         | Some m, Some s => perturb_normal sq d m s
         | _, _ => false
         end
       else true
   | _, _, _ => true     (* error outcome, or weights outside the Q table: float replay only *)
   end).

Definition check_rate (tab : exptab) (fam : Z) bound xs g res : bool :=
  match qdata tab xs g, F2Q bound with
  | Some d, Some b =>
      let model := if (fam =? 0)%Z then cf_exponential NumQ b d
                   else if (fam =? 1)%Z then cf_poisson NumQ d else cf_geometric NumQ d in
      opt_closeQ res model &&
      match res with
      | Some r => match F2Q r with
                  | Some rq => if (fam =? 0)%Z then perturb_exponential b d rq
                               else if (fam =? 1)%Z then perturb_poisson d rq else perturb_geometric d rq
                  | None => false end
      | None => true
      end
  | _, _ => false
  end.

Definition check_cat (tab : exptab) (k : nat) (xs : list nat) g (res : option (list float)) : bool :=
  match weights tab (length xs) g with
  | Some ws =>
      let model := cf_categorical NumQ k (combine ws xs) in
      match res, model with
      | None, None => true
      | Some r, Some m =>
          Nat.eqb (length r) (length m) &&
          forallb (fun p => match F2Q (fst p) with
                            | Some gq => Qle_bool (Qabs (gq - snd p)) tolQ   (* probabilities: absolute tolerance *)
                            | None => false end) (combine r m)
      | _, _ => false
      end
  | None => false
  end.

(* Q with results rounded to ~100 significant bits (towards -inf): keeps the rationals of the EM replay
   small; the relative error of 2^-100 per operation is far below the comparison tolerance 1e-9. *)
Definition rndQ (q : Q) : Q :=
  let n := Qnum q in let d := Zpos (Qden q) in
  if (n =? 0)%Z then 0 else
  let e := (Z.log2 (Z.abs n) - Z.log2 d)%Z in
  let s := (100 - e)%Z in
  if (0 <=? s)%Z then Qmake ((n * 2 ^ s) / d) (Z.to_pos (2 ^ s))
  else Qmake ((n / (d * 2 ^ (- s))) * 2 ^ (- s)) 1.
Definition NumQr : Num Q :=
  mkNum Q 0 1 (fun x y => rndQ (x + y)) (fun x y => rndQ (x - y)) (fun x y => rndQ (x * y)) (fun x y => rndQ (x / y))
        Qopp Qabs qsqrt Qltb Qlebb Qeq_bool inject_Z (fun _ => false).

(* ---------------- EM traces ---------------- *)
(* hook record: (iteration, log-weights, per-component parameters, likelihood, change).
   fam 1: Poisson components (one rate each); fam 3: categorical components (J log-probabilities each). *)
Fixpoint qfact (n : nat) : Q := match n with O => 1 | S m => mul NumQr (qfact m) (inject_Z (Z.of_nat n)) end.
Fixpoint qpow (x : Q) (n : nat) : Q := match n with O => 1 | S m => mul NumQr (qpow x m) x end.

Definition nthQ (l : list Q) (i : nat) : Q := nth i l 0.

(* linear-scale state from a hook record through the table *)
Definition lin_state (tab : exptab) (fam : Z) (lws : list float) (ps : list (list float))
  : option (list Q * list (list Q) * list Q (* exp(-lambda) for Poisson *)) :=
  match all_some (map (wq tab) lws) with
  | None => None
  | Some pis =>
      if (fam =? 1)%Z then
        match all_some (map (fun p => F2Q (nth 0 p nan)) ps),
              all_some (map (fun p => wq tab (- (nth 0 p nan))%float) ps) with
        | Some ls, Some es => Some (pis, map (fun l => [l]) ls, es)
        | _, _ => None
        end
      else
        match all_some (map (fun p => all_some (map (wq tab) p)) ps) with
        | Some th => Some (pis, th, [])
        | None => None
        end
  end.

Definition dens (fam : Z) (ps : list (list Q)) (es : list Q) (xs : list nat) (k l : nat) : Q :=
  let x := nth l xs O in
  if (fam =? 1)%Z then div NumQr (mul NumQr (qpow (nthQ (nth k ps []) 0) x) (nthQ es k)) (qfact x)
  else nthQ (nth k ps []) x.

Definition em_step_q (fam : Z) (K J : nat) (xs : list nat) (st : list Q * list (list Q) * list Q)
  : list Q * list (list Q) * Q (* likelihood, linear scale *) :=
  let '(pis, ps, es) := st in
  let n := length xs in
  let pi := nthQ pis in
  (* densities and responsibilities are tabulated once (vm_compute is call-by-value) *)
  let ftab := map (fun k => map (fun l => dens fam ps es xs k l) (seq 0 n)) (seq 0 K) in
  let f := fun k l => nthQ (nth k ftab []) l in
  let c := fun _ : nat => 1%Q in
  let rtab := map (fun k => map (fun l => g_resp NumQr K c pi f k l) (seq 0 n)) (seq 0 K) in
  let r := fun k l => nthQ (nth k rtab []) l in
  let rs := map (fun k => gsum NumQr n (r k)) (seq 0 K) in
  let tot := gsum NumQr K (nthQ rs) in
  let newpi := map (fun k => div NumQr (nthQ rs k) tot) (seq 0 K) in     (* = g_new_pi, shared sums *)
  let newps := map (fun k =>
                 if (fam =? 1)%Z then [g_mstep_mean NumQr n (r k) (fun l => inject_Z (Z.of_nat (nth l xs O)))]
                 else map (g_mstep_cat NumQr n (r k) (fun l => nth l xs O)) (seq 0 J)) (seq 0 K) in
  (newpi, newps, g_lik NumQr n K pi f).

Definition closeQ_abs (a b : Q) : bool := Qle_bool (Qabs (a - b)) tolQ.

Definition state_close (a : list Q * list (list Q)) (b : list Q * list (list Q)) : bool :=
  list_eqb (fun x y => closeQ tolQ x y || closeQ_abs x y) (fst a) (fst b) &&
  list_eqb (list_eqb (fun x y => closeQ tolQ x y || closeQ_abs x y)) (snd a) (snd b).

Definition hook := (nat * list float * list (list float) * float * float)%type.
Definition hk_iter (h : hook) := let '(i, _, _, _, _) := h in i.
Definition hk_lw (h : hook) := let '(_, w, _, _, _) := h in w.
Definition hk_ps (h : hook) := let '(_, _, p, _, _) := h in p.
Definition hk_lik (h : hook) := let '(_, _, _, l, _) := h in l.
Definition hk_eps (h : hook) := let '(_, _, _, _, e) := h in e.

(* one transition of the trace: Go's state at hook t-1 --model step--> Go's state at hook t, and the
   likelihood handed to hook t is the likelihood of the state at hook t-1 *)
Definition check_transition (tab : exptab) (fam : Z) (K J : nat) (xs : list nat) (h0 h1 : hook) : bool :=
  match lin_state tab fam (hk_lw h0) (hk_ps h0), lin_state tab fam (hk_lw h1) (hk_ps h1), wq tab (hk_lik h1) with
  | Some st0, Some (pis1, ps1, _), Some lik1 =>
      let '(npi, nps, lik) := em_step_q fam K J xs st0 in
      state_close (pis1, ps1) (npi, nps) && closeQ tolQ lik1 lik
  | _, _, _ => false
  end.

Fixpoint check_transitions tab fam K J xs (hs : list hook) : bool :=
  match hs with
  | h0 :: ((h1 :: _) as r) => check_transition tab fam K J xs h0 h1 && check_transitions tab fam K J xs r
  | _ => true
  end.

Fixpoint list_eqb2 {X Y} (e : X -> Y -> bool) (a : list X) (b : list Y) : bool :=
  match a, b with
  | [], [] => true
  | x :: a', y :: b' => e x y && list_eqb2 e a' b'
  | _, _ => false
  end.

(* the driver: replay emAlgorithm with Go's recorded (likelihood, state index) as the step function *)
Definition check_driver (eps : float) (max_steps : option nat) (hs : list hook) : bool :=
  let liks := map hk_lik hs in
  let step := fun t : nat => match nth_error liks (S t) with
                             | Some l => Some (l, S t)
                             | None => None end in
  let '(model, _, ex) :=
    em_algorithm step PrimFloat.sub (fun d => PrimFloat.ltb d eps) neg_infinity nan
                 (S (length hs)) false max_steps O in
  negb ex &&
  list_eqb2 (fun (m : hookcall (P:=nat) (L:=float)) (h : hook) =>
              Nat.eqb (h_iter m) (hk_iter h) && Nat.eqb (h_mix m) (hk_iter h) &&
              feqb (h_lik m) (hk_lik h) && feqb (h_eps m) (hk_eps h)) model hs &&
  (* Go stopped where the model stops: either max_steps reached, or converged, or the step after the
     last recorded one does not exist in the model either *)
  match max_steps, rev hs with
  | Some ms, h :: _ => Nat.eqb (hk_iter h) ms || PrimFloat.ltb (hk_eps h) eps
  | None, h :: _ => PrimFloat.ltb (hk_eps h) eps
  | _, [] => false
  end.

(* EM ascent observed on Go's own trace: lik_t >= lik_{t-1} - 1e-9 (|lik_{t-1}| + 1)  (the absolute part covers a
   log-likelihood that is exactly 0 up to rounding: one datum explained with probability 1) *)
Fixpoint check_monotone (ls : list float) : bool :=
  match ls with
  | a :: ((b :: _) as r) =>
      match F2Q a, F2Q b with
      | Some qa, Some qb => Qle_bool (qa - tolQ * Qabs qa - tolQ) qb && check_monotone r
      | _, _ => false
      end
  | _ => true
  end.

Definition check_em tab fam K J xs eps max_steps (hs : list hook) : bool :=
  check_transitions tab fam K J xs hs && check_driver eps max_steps hs && check_monotone (map hk_lik (tl hs)).

Definition check (tab : exptab) (c : case) : bool :=
  match c with
  | CNormal pert smin xs g res => check_normal tab pert smin xs g res
  | CRate fam b xs g res => check_rate tab fam b xs g res
  | CCat k xs g res => check_cat tab k xs g res
  | CEm fam K J xs eps ms tr => check_em tab fam K J xs eps ms tr
  end.

Definition mism (tab : exptab) (cs : list case) : list nat := mismatches (check tab) cs.
