(* C16 — EM ascent for finite mixtures: one E-step + M-step (weights updated to the
   normalised responsibility sums, every component updated to parameters that do
   not decrease its responsibility-weighted log-likelihood) never decreases the
   data log-likelihood.  Zeros (weights, densities, responsibilities) allowed. *)
From Coq Require Import Reals List Lra Psatz Lia.
From ADV Require Import C16.Spec C16.ProofsMax.
Import ListNotations.
Open Scope R_scope.

(* ---- rsum algebra ---- *)
Lemma rsum_ext n f g : (forall i, (i < n)%nat -> f i = g i) -> rsum n f = rsum n g.
Proof. induction n as [|n IH]; simpl; intros H; [reflexivity|]. rewrite IH by (intros; apply H; lia). rewrite H by lia. reflexivity. Qed.
Lemma rsum_plus n f g : rsum n (fun i => f i + g i) = rsum n f + rsum n g.
Proof. induction n as [|n IH]; simpl; [lra|]. rewrite IH. lra. Qed.
Lemma rsum_minus n f g : rsum n (fun i => f i - g i) = rsum n f - rsum n g.
Proof. induction n as [|n IH]; simpl; [lra|]. rewrite IH. lra. Qed.
Lemma rsum_scal n a f : rsum n (fun i => a * f i) = a * rsum n f.
Proof. induction n as [|n IH]; simpl; [lra|]. rewrite IH. lra. Qed.
Lemma rsum_scal_r n a f : rsum n (fun i => f i * a) = rsum n f * a.
Proof. induction n as [|n IH]; simpl; [lra|]. rewrite IH. lra. Qed.
Lemma rsum_le n f g : (forall i, (i < n)%nat -> f i <= g i) -> rsum n f <= rsum n g.
Proof.
  induction n as [|n IH]; simpl; intros H; [lra|].
  assert (rsum n f <= rsum n g) by (apply IH; intros; apply H; lia). assert (f n <= g n) by (apply H; lia). lra.
Qed.
Lemma rsum_nonneg n f : (forall i, (i < n)%nat -> 0 <= f i) -> 0 <= rsum n f.
Proof.
  induction n as [|n IH]; simpl; intros H; [lra|].
  assert (0 <= rsum n f) by (apply IH; intros; apply H; lia). assert (0 <= f n) by (apply H; lia). lra.
Qed.
Lemma rsum_zero n f : (forall i, (i < n)%nat -> f i = 0) -> rsum n f = 0.
Proof. induction n as [|n IH]; simpl; intros H; [reflexivity|]. rewrite IH by (intros; apply H; lia). rewrite H by lia. lra. Qed.
Lemma rsum_term_le n f k : (forall i, (i < n)%nat -> 0 <= f i) -> (k < n)%nat -> f k <= rsum n f.
Proof.
  induction n as [|n IH]; simpl; intros H Hk; [lia|].
  assert (0 <= rsum n f) by (apply rsum_nonneg; intros; apply H; lia).
  assert (0 <= f n) by (apply H; lia).
  destruct (Nat.eq_dec k n) as [->|Hne]; [lra|].
  assert (f k <= rsum n f) by (apply IH; [intros; apply H; lia|lia]). lra.
Qed.
Lemma rsum_swap n m (f : nat -> nat -> R) :
  rsum n (fun i => rsum m (fun j => f i j)) = rsum m (fun j => rsum n (fun i => f i j)).
Proof.
  induction n as [|n IH]; simpl.
  - symmetry. apply rsum_zero. reflexivity.
  - rewrite IH. rewrite <- rsum_plus. reflexivity.
Qed.
Lemma rsum_pos_exists n f : 0 < rsum n f -> (forall i, (i < n)%nat -> 0 <= f i) -> exists k, (k < n)%nat /\ 0 < f k.
Proof.
  induction n as [|n IH]; simpl; intros Hp H; [lra|].
  destruct (Rlt_dec 0 (f n)) as [Hf|Hf].
  - exists n. split; [lia|assumption].
  - assert (f n = 0) by (assert (0 <= f n) by (apply H; lia); lra).
    destruct IH as (k & Hk & Hfk); [lra|intros; apply H; lia|]. exists k. split; [lia|assumption].
Qed.

(* lsum over an index range *)
Lemma lsum_app f a b : lsum f (a ++ b) = lsum f a + lsum f b.
Proof. induction a as [|p r IH]; simpl; [lra|]. rewrite IH. lra. Qed.
Lemma lsum_seq (g : nat -> R * R) f K : lsum f (map g (seq 0 K)) = rsum K (fun k => f (g k)).
Proof.
  induction K as [|K IH]; [reflexivity|].
  rewrite seq_S, map_app, lsum_app, IH. simpl. lra.
Qed.

(* Gibbs' inequality over an index range: sum c ln t <= sum c ln (c / C) for sub-probability t *)
Lemma gibbs_index K (c t : nat -> R) :
  (forall k, (k < K)%nat -> 0 <= c k /\ 0 <= t k /\ (0 < c k -> 0 < t k)) ->
  0 < rsum K c -> rsum K t <= 1 ->
  rsum K (fun k => c k * ln (t k)) <= rsum K (fun k => c k * ln (c k / rsum K c)).
Proof.
  intros H HC Ht.
  pose proof (gibbs_list (rsum K c) (map (fun k => (c k, t k)) (seq 0 K)) HC) as G.
  rewrite !(lsum_seq (fun k => (c k, t k))) in G. simpl in G.
  assert (Hall : forall q, In q (map (fun k => (c k, t k)) (seq 0 K)) ->
                           0 <= fst q /\ 0 <= snd q /\ (0 < fst q -> 0 < snd q)).
  { intros q Hq. apply in_map_iff in Hq. destruct Hq as (k & <- & Hk). apply in_seq in Hk. simpl. apply H. lia. }
  specialize (G Hall).
  change (fun k : nat => t k) with t in G. change (fun k : nat => c k) with c in G.
  assert (rsum K c * rsum K t <= rsum K c * 1) by (apply Rmult_le_compat_l; lra).
  lra.
Qed.

(* ---- one datum: Jensen for ln with zeros ---- *)
Lemma em_datum K (a a' : nat -> R) :
  (forall k, (k < K)%nat -> 0 <= a k) -> (forall k, (k < K)%nat -> 0 <= a' k) ->
  0 < rsum K a -> (forall k, (k < K)%nat -> 0 < a k -> 0 < a' k) ->
  0 < rsum K a' /\
  rsum K (fun k => a k / rsum K a * (ln (a' k) - ln (a k))) <= ln (rsum K a') - ln (rsum K a).
Proof.
  intros Ha Ha' HA Hpos.
  set (A := rsum K a) in *. set (A' := rsum K a').
  assert (HA' : 0 < A').
  { destruct (rsum_pos_exists K a HA Ha) as (k & Hk & Hak).
    apply Rlt_le_trans with (a' k); [apply Hpos; assumption|]. apply rsum_term_le; assumption. }
  split; [exact HA'|].
  (* termwise: (a/A)(ln a' - ln a - (ln A' - ln A)) <= a'/A' - a/A *)
  assert (T : forall k, (k < K)%nat ->
      a k / A * (ln (a' k) - ln (a k)) - a k / A * (ln A' - ln A) <= a' k / A' - a k / A).
  { intros k Hk. destruct (Rle_lt_or_eq_dec 0 (a k) (Ha k Hk)) as [Hp|Hz].
    - assert (Hp' := Hpos k Hk Hp).
      assert (Hq : 0 < (a' k / A') / (a k / A)).
      { apply Rdiv_lt_0_compat; apply Rdiv_lt_0_compat; assumption. }
      pose proof (ln_le_sub1 _ Hq) as L.
      assert (E : ln ((a' k / A') / (a k / A)) = ln (a' k) - ln (a k) - (ln A' - ln A)).
      { unfold Rdiv. rewrite ln_mult; [|apply Rmult_lt_0_compat; [assumption|apply Rinv_0_lt_compat; assumption]
                                       |apply Rinv_0_lt_compat; apply Rmult_lt_0_compat; [assumption|apply Rinv_0_lt_compat; assumption]].
        rewrite ln_Rinv by (apply Rmult_lt_0_compat; [assumption|apply Rinv_0_lt_compat; assumption]).
        rewrite !ln_mult; try assumption; try (apply Rinv_0_lt_compat; assumption).
        rewrite !ln_Rinv by assumption. lra. }
      rewrite E in L.
      assert (Hr : 0 < a k / A) by (apply Rdiv_lt_0_compat; assumption).
      assert (M : a k / A * (ln (a' k) - ln (a k) - (ln A' - ln A)) <= a k / A * ((a' k / A') / (a k / A) - 1))
        by (apply Rmult_le_compat_l; lra).
      assert (E2 : a k / A * ((a' k / A') / (a k / A) - 1) = a' k / A' - a k / A) by (field; lra).
      lra.
    - rewrite <- Hz. unfold Rdiv at 1 2 4. rewrite !Rmult_0_l.
      assert (0 <= a' k / A') by (apply Rmult_le_pos; [apply Ha'; assumption|left; apply Rinv_0_lt_compat; assumption]).
      lra. }
  assert (S1 : rsum K (fun k => a k / A * (ln (a' k) - ln (a k)) - a k / A * (ln A' - ln A))
               <= rsum K (fun k => a' k / A' - a k / A)) by (apply rsum_le; exact T).
  rewrite !rsum_minus in S1.
  rewrite (rsum_scal_r K (ln A' - ln A)) in S1.
  assert (N1 : rsum K (fun k => a k / A) = 1).
  { unfold Rdiv. rewrite rsum_scal_r. fold A. field. lra. }
  assert (N2 : rsum K (fun k => a' k / A') = 1).
  { unfold Rdiv. rewrite rsum_scal_r. fold A'. field. lra. }
  rewrite N1, N2 in S1. lra.
Qed.

(* ---- EM ascent ---- *)
Section Ascent.
Variables (n K : nat) (c pi pi' : nat -> R) (f f' : nat -> nat -> R).
Hypothesis Hc : forall l, (l < n)%nat -> 0 <= c l.
Hypothesis Hpi : forall k, (k < K)%nat -> 0 <= pi k.
Hypothesis Hpi1 : rsum K pi <= 1.
Hypothesis Hf : forall k l, (k < K)%nat -> (l < n)%nat -> 0 <= f k l.
Hypothesis Hf' : forall k l, (k < K)%nat -> (l < n)%nat -> 0 <= f' k l.
Hypothesis Hmix : forall l, (l < n)%nat -> 0 < mix K pi f l.
Hypothesis Hmass : 0 < rsum K (resp_sum n K c pi f).
Hypothesis Hnew : forall k, (k < K)%nat -> pi' k = new_pi n K c pi f k.
Hypothesis Hsupp : forall k l, (k < K)%nat -> (l < n)%nat -> 0 < resp K c pi f k l -> 0 < f' k l.
Hypothesis Hcomp : forall k, (k < K)%nat ->
  comp_ll n (resp K c pi f k) (f k) <= comp_ll n (resp K c pi f k) (f' k).

Let r := resp K c pi f.
Let Rk := resp_sum n K c pi f.

Lemma r_nonneg k l : (k < K)%nat -> (l < n)%nat -> 0 <= r k l.
Proof.
  intros Hk Hl. unfold r, resp. apply Rmult_le_pos; [apply Hc; assumption|].
  apply Rmult_le_pos; [apply Rmult_le_pos; [apply Hpi|apply Hf]; assumption|].
  left. apply Rinv_0_lt_compat. apply Hmix; assumption.
Qed.

Lemma r_pos_inv k l : (k < K)%nat -> (l < n)%nat -> 0 < r k l -> 0 < c l /\ 0 < pi k /\ 0 < f k l.
Proof.
  intros Hk Hl Hr. unfold r, resp in Hr.
  pose proof (Hc l Hl) as H1. pose proof (Hpi k Hk) as H2. pose proof (Hf k l Hk Hl) as H3.
  pose proof (Hmix l Hl) as H4.
  assert (H5 : 0 < / mix K pi f l) by (apply Rinv_0_lt_compat; assumption).
  destruct (Rle_lt_or_eq_dec _ _ H1) as [?|E1]; [|rewrite <- E1 in Hr; lra].
  destruct (Rle_lt_or_eq_dec _ _ H2) as [?|E2]; [|rewrite <- E2 in Hr; unfold Rdiv in Hr; rewrite !Rmult_0_l, Rmult_0_r in Hr; lra].
  destruct (Rle_lt_or_eq_dec _ _ H3) as [?|E3]; [|rewrite <- E3 in Hr; unfold Rdiv in Hr; rewrite Rmult_0_r, Rmult_0_l, Rmult_0_r in Hr; lra].
  auto.
Qed.

Lemma Rk_nonneg k : (k < K)%nat -> 0 <= Rk k.
Proof. intros Hk. apply rsum_nonneg. intros l Hl. apply r_nonneg; assumption. Qed.

Lemma pi'_pos k l : (k < K)%nat -> (l < n)%nat -> 0 < r k l -> 0 < pi' k.
Proof.
  intros Hk Hl Hr. rewrite Hnew by assumption. unfold new_pi. apply Rdiv_lt_0_compat; [|exact Hmass].
  apply Rlt_le_trans with (r k l); [assumption|].
  apply (rsum_term_le n (fun l => resp K c pi f k l)); [intros; apply r_nonneg; assumption|assumption].
Qed.

Lemma pi'_nonneg k : (k < K)%nat -> 0 <= pi' k.
Proof.
  intros Hk. rewrite Hnew by assumption. unfold new_pi.
  apply Rmult_le_pos; [apply Rk_nonneg; assumption|left; apply Rinv_0_lt_compat; exact Hmass].
Qed.

(* per datum *)
Lemma datum_bound l : (l < n)%nat ->
  rsum K (fun k => r k l * (ln (pi' k * f' k l) - ln (pi k * f k l)))
  <= c l * (ln (mix K pi' f' l) - ln (mix K pi f l)).
Proof.
  intros Hl.
  destruct (Rle_lt_or_eq_dec 0 (c l) (Hc l Hl)) as [Hcp|Hc0].
  - pose proof (em_datum K (fun k => pi k * f k l) (fun k => pi' k * f' k l)) as D.
    destruct D as [_ D].
    + intros k Hk. apply Rmult_le_pos; [apply Hpi|apply Hf]; assumption.
    + intros k Hk. apply Rmult_le_pos; [apply pi'_nonneg|apply Hf']; assumption.
    + apply Hmix; assumption.
    + intros k Hk Ha.
      assert (Hr : 0 < r k l).
      { unfold r, resp. apply Rmult_lt_0_compat; [assumption|]. apply Rdiv_lt_0_compat; [assumption|apply Hmix; assumption]. }
      apply Rmult_lt_0_compat; [apply (pi'_pos k l); assumption|apply Hsupp; assumption].
    + fold (mix K pi f l) in D. fold (mix K pi' f' l) in D.
      apply (Rmult_le_compat_l (c l)) in D; [|lra].
      rewrite <- rsum_scal in D.
      erewrite rsum_ext; [exact D|]. intros k Hk. cbv beta. unfold r, resp. field.
      apply Rgt_not_eq. apply Hmix; assumption.
  - rewrite <- Hc0. rewrite Rmult_0_l. right. apply rsum_zero. intros k Hk. unfold r, resp. rewrite <- Hc0. ring.
Qed.

(* split of the log of the product, valid termwise because a zero responsibility kills the term *)
Lemma term_split k l : (k < K)%nat -> (l < n)%nat ->
  r k l * (ln (pi' k * f' k l) - ln (pi k * f k l))
  = r k l * (ln (pi' k) - ln (pi k)) + (r k l * ln (f' k l) - r k l * ln (f k l)).
Proof.
  intros Hk Hl. destruct (Rle_lt_or_eq_dec 0 (r k l) (r_nonneg k l Hk Hl)) as [Hr|Hr0].
  - destruct (r_pos_inv k l Hk Hl Hr) as (_ & Hp & Hfp).
    rewrite !ln_mult; try assumption; [ring|apply (pi'_pos k l); assumption|apply Hsupp; assumption].
  - rewrite <- Hr0. ring.
Qed.

Theorem em_ascent_main : loglik n K c pi f <= loglik n K c pi' f'.
Proof.
  unfold loglik.
  assert (B : rsum n (fun l => rsum K (fun k => r k l * (ln (pi' k * f' k l) - ln (pi k * f k l))))
              <= rsum n (fun l => c l * (ln (mix K pi' f' l) - ln (mix K pi f l)))).
  { apply rsum_le. intros l Hl. apply datum_bound; assumption. }
  assert (E : rsum n (fun l => rsum K (fun k => r k l * (ln (pi' k * f' k l) - ln (pi k * f k l))))
            = rsum K (fun k => Rk k * (ln (pi' k) - ln (pi k)))
              + rsum K (fun k => comp_ll n (r k) (f' k) - comp_ll n (r k) (f k))).
  { rewrite (rsum_swap n K (fun l k => r k l * (ln (pi' k * f' k l) - ln (pi k * f k l)))).
    rewrite <- rsum_plus. apply rsum_ext. intros k Hk. cbv beta.
    unfold comp_ll. rewrite <- rsum_minus. unfold Rk, resp_sum. rewrite <- rsum_scal_r. rewrite <- rsum_plus.
    apply rsum_ext. intros l Hl. cbv beta. apply term_split; assumption. }
  assert (G1 : 0 <= rsum K (fun k => Rk k * (ln (pi' k) - ln (pi k)))).
  { pose proof (gibbs_index K Rk pi) as G.
    assert (Hyp : forall k, (k < K)%nat -> 0 <= Rk k /\ 0 <= pi k /\ (0 < Rk k -> 0 < pi k)).
    { intros k Hk. split; [apply Rk_nonneg; assumption|]. split; [apply Hpi; assumption|].
      intros HR. destruct (rsum_pos_exists n (fun l => resp K c pi f k l) HR) as (l & Hl & Hrl).
      - intros l Hl. apply r_nonneg; assumption.
      - destruct (r_pos_inv k l Hk Hl Hrl) as (_ & Hp & _). exact Hp. }
    specialize (G Hyp Hmass Hpi1).
    assert (E1 : rsum K (fun k => Rk k * (ln (pi' k) - ln (pi k)))
                 = rsum K (fun k => Rk k * ln (Rk k / rsum K Rk)) - rsum K (fun k => Rk k * ln (pi k))).
    { rewrite <- rsum_minus. apply rsum_ext. intros k Hk. cbv beta. rewrite (Hnew k Hk). unfold new_pi. fold Rk.
      replace (rsum K (fun j => Rk j)) with (rsum K Rk) by (apply rsum_ext; reflexivity). ring. }
    rewrite E1. lra. }
  assert (G2 : 0 <= rsum K (fun k => comp_ll n (r k) (f' k) - comp_ll n (r k) (f k))).
  { apply rsum_nonneg. intros k Hk. pose proof (Hcomp k Hk). unfold r. lra. }
  assert (E3 : rsum n (fun l => c l * (ln (mix K pi' f' l) - ln (mix K pi f l)))
               = rsum n (fun l => c l * ln (mix K pi' f' l)) - rsum n (fun l => c l * ln (mix K pi f l))).
  { rewrite <- rsum_minus. apply rsum_ext. intros; ring. }
  lra.
Qed.

End Ascent.
