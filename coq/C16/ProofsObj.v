(* C16 (round 6) — facts about the estimator OBJECT model (ModelObj.v) and about the model the EM driver
   returns (Model.em_algorithm): no call history survives into an estimate; the returned mixture is the one
   handed to the last hook call and, with an ascending step, its likelihood is not below any reported one. *)
From Coq Require Import Reals ZArith List Lra Lia Bool.
From ADV Require Import Base.Num C16.Model C16.ModelObj C16.ProofsModel.
Import ListNotations.

Section ObjFacts.
Context {D G ACC PRE P : Type}.
Variable F : family D G ACC PRE P.

Notation obj := (obj ACC PRE P).
Notation op := (op D G).
Notation outcome := (outcome P).

(* the outcome of Estimate reads nothing of the object but the installed data handle *)
Lemma estimate_reads_only_the_data_handle h (st st' : obj) g :
  o_x st = o_x st' -> snd (estimate F h st g) = snd (estimate F h st' g).
Proof.
  intros E. unfold estimate. rewrite E. destruct (o_x st'); [|reflexivity].
  destruct (nth_error h n); [|reflexivity]. unfold update_estimate. simpl.
  destruct (f_update F _); reflexivity.
Qed.

Lemma estimate_is_pure h (st : obj) g v xs :
  o_x st = Some v -> nth_error h v = Some xs ->
  snd (estimate F h st g) = outcome_of (pure_estimate F xs g).
Proof.
  intros E Hn. unfold estimate. rewrite E, Hn. unfold update_estimate, pure_estimate. simpl.
  destruct (f_update F _); reflexivity.
Qed.

(* the data handle after an estimate is the one before *)
Lemma estimate_keeps_handle h (st : obj) g : o_x (fst (estimate F h st g)) = o_x st.
Proof.
  unfold estimate. destruct (o_x st) eqn:E; [|reflexivity].
  destruct (nth_error h n); [|reflexivity]. unfold update_estimate. simpl.
  destruct (f_update F _); reflexivity.
Qed.

(* ---- histories ---- *)
Definition is_write (o : op) : bool := match o with OpWrite _ _ _ => true | _ => false end.

(* the heap after a history: only the caller's writes touch it *)
Fixpoint heap_of (ops : list op) (h : heap) : heap :=
  match ops with
  | [] => h
  | OpWrite v i x :: r => heap_of r (heap_write h v i x)
  | _ :: r => heap_of r h
  end.

Lemma step_heap h (st : obj) o : fst (fst (step F (h, st) o)) = heap_of [o] h.
Proof.
  destruct o; simpl; try reflexivity.
  - destruct (estimate F h st g); reflexivity.
  - destruct (estimate F h (set_data st v) g); reflexivity.
  - destruct (o_acc st); reflexivity.
  - destruct (o_acc st); [|reflexivity]. destruct (update_estimate F st a); reflexivity.
Qed.

Lemma heap_of_app a b h : heap_of (a ++ b) h = heap_of b (heap_of a h).
Proof. revert h; induction a as [|o a IH]; intros h; simpl; [reflexivity|]. destruct o; apply IH. Qed.

Lemma run_cons hs o r :
  run F hs (o :: r) = let '(hs1, x) := step F hs o in let '(hs2, xs) := run F hs1 r in (hs2, x :: xs).
Proof. reflexivity. Qed.

Lemma run_heap ops : forall h (st : obj), fst (fst (run F (h, st) ops)) = heap_of ops h.
Proof.
  induction ops as [|o ops IH]; intros h st; [reflexivity|]. rewrite run_cons.
  destruct (step F (h, st) o) as [[h1 st1] x] eqn:Es.
  destruct (run F (h1, st1) ops) as [[h2 st2] xs] eqn:Er.
  pose proof (IH h1 st1) as H. rewrite Er in H. cbn [fst] in H.
  pose proof (step_heap h st o) as Hs. rewrite Es in Hs. cbn [fst] in Hs.
  cbn [fst]. rewrite H, Hs. destruct o; reflexivity.
Qed.

Lemma run_app a : forall hs b,
  run F hs (a ++ b) = let '(hs1, xs) := run F hs a in let '(hs2, ys) := run F hs1 b in (hs2, xs ++ ys).
Proof.
  induction a as [|o a IH]; intros hs b.
  - simpl. destruct (run F hs b); reflexivity.
  - rewrite <- app_comm_cons, !run_cons. destruct (step F hs o) as [hs1 x]. rewrite IH.
    destruct (run F hs1 a) as [hs2 xs]. destruct (run F hs2 b) as [hs3 ys]. reflexivity.
Qed.

(* writes leave the object alone *)
Lemma run_writes ws : forall h (st : obj), forallb is_write ws = true ->
  run F (h, st) ws = ((heap_of ws h, st), repeat RNone (length ws)).
Proof.
  induction ws as [|o ws IH]; intros h st Hw; simpl; [reflexivity|].
  simpl in Hw. apply andb_prop in Hw. destruct Hw as [Ho Hw].
  destruct o; try discriminate. simpl. rewrite (IH _ _ Hw). reflexivity.
Qed.

Definition last_outcome (r : (heap (D:=D) * obj) * list outcome) : outcome := last (snd r) RNone.
Definition final (hs : heap (D:=D) * obj) (ops : list op) : heap (D:=D) * obj := fst (run F hs ops).

Lemma final_app hs a b : final hs (a ++ b) = final (final hs a) b.
Proof.
  unfold final. rewrite run_app. destruct (run F hs a) as [hs1 xs]. simpl.
  destruct (run F hs1 b) as [hs2 ys]. reflexivity.
Qed.
Lemma final_heap ops h st : fst (final (h, st) ops) = heap_of ops h.
Proof. apply run_heap. Qed.
Lemma final_writes ws h st : forallb is_write ws = true -> final (h, st) ws = (heap_of ws h, st).
Proof. intros Hw. unfold final. rewrite (run_writes ws h st Hw). reflexivity. Qed.

Lemma last_outcome_snoc hs a o : last_outcome (run F hs (a ++ [o])) = snd (step F (final hs a) o).
Proof.
  unfold last_outcome, final. rewrite run_app. destruct (run F hs a) as [hs1 xs]. simpl.
  destruct (step F hs1 o) as [hs2 x]. simpl. apply last_last.
Qed.

Lemma step_estimate h (st : obj) g : snd (step F (h, st) (OpEstimate g)) = snd (estimate F h st g).
Proof. simpl. destruct (estimate F h st g); reflexivity. Qed.
Lemma step_estimate_state h (st : obj) g : step F (h, st) (OpEstimate g) = ((h, fst (estimate F h st g)), snd (estimate F h st g)).
Proof. simpl. destruct (estimate F h st g); reflexivity. Qed.

(* MAIN: after ANY history on the object (any earlier data vectors, estimates with other weights, batch use,
   failed estimates), SetData(v); caller writes; Estimate(g) returns the pure estimate of the CURRENT contents
   of v under g — nothing of the history survives. *)
Theorem history_does_not_survive (prefix ws : list op) h0 (st0 : obj) v g xs :
  forallb is_write ws = true ->
  nth_error (heap_of (prefix ++ ws) h0) v = Some xs ->
  last_outcome (run F (h0, st0) (prefix ++ OpSetData v :: ws ++ [OpEstimate g])) = outcome_of (pure_estimate F xs g).
Proof.
  intros Hw Hn.
  replace (prefix ++ OpSetData v :: ws ++ [OpEstimate g]) with ((prefix ++ [OpSetData v] ++ ws) ++ [OpEstimate g])
    by (rewrite <- !app_assoc; reflexivity).
  rewrite last_outcome_snoc, !final_app.
  destruct (final (h0, st0) prefix) as [h1 st1] eqn:Ep.
  pose proof (final_heap prefix h0 st0) as Hh. rewrite Ep in Hh. simpl in Hh.
  change (final (h1, st1) [OpSetData v]) with (h1, set_data st1 v).
  rewrite (final_writes ws _ _ Hw), step_estimate.
  apply (estimate_is_pure (heap_of ws h1) (set_data st1 v) g v xs eq_refl).
  rewrite heap_of_app in Hn. rewrite Hh. exact Hn.
Qed.

(* ... the same call sequence on a NEW object gives the same: reused = fresh *)
Corollary reused_object_equals_fresh_object (prefix ws : list op) h0 (st0 : obj) v g xs pre p0 :
  forallb is_write ws = true ->
  nth_error (heap_of (prefix ++ ws) h0) v = Some xs ->
  last_outcome (run F (h0, st0) (prefix ++ OpSetData v :: ws ++ [OpEstimate g])) =
  last_outcome (run F (heap_of prefix h0, fresh pre p0) (OpSetData v :: ws ++ [OpEstimate g])).
Proof.
  intros Hw Hn. rewrite (history_does_not_survive prefix ws h0 st0 v g xs Hw Hn).
  symmetry. apply (history_does_not_survive [] ws (heap_of prefix h0) (fresh pre p0) v g xs Hw).
  simpl. rewrite heap_of_app in Hn. exact Hn.
Qed.

(* EstimateOnData(v, g) after any history *)
Theorem estimate_on_data_after_any_history (prefix : list op) h0 (st0 : obj) v g xs :
  nth_error (heap_of prefix h0) v = Some xs ->
  last_outcome (run F (h0, st0) (prefix ++ [OpEstimateOnData v g])) = outcome_of (pure_estimate F xs g).
Proof.
  intros Hn. rewrite last_outcome_snoc.
  destruct (final (h0, st0) prefix) as [h1 st1] eqn:Ep.
  pose proof (final_heap prefix h0 st0) as Hh. rewrite Ep in Hh. simpl in Hh.
  simpl. destruct (estimate F h1 (set_data st1 v) g) as [st' r] eqn:Ee. simpl.
  pose proof (estimate_is_pure h1 (set_data st1 v) g v xs eq_refl) as Hp. rewrite Ee in Hp. apply Hp.
  rewrite Hh. exact Hn.
Qed.

(* a second Estimate with OTHER weights on the same object, data untouched or rewritten in place *)
Theorem second_estimate_with_other_weights (prefix ws : list op) h0 (st0 : obj) v g1 g2 xs :
  forallb is_write ws = true ->
  nth_error (heap_of (prefix ++ ws) h0) v = Some xs ->
  last_outcome (run F (h0, st0) (prefix ++ OpSetData v :: OpEstimate g1 :: ws ++ [OpEstimate g2]))
  = outcome_of (pure_estimate F xs g2).
Proof.
  intros Hw Hn.
  replace (prefix ++ OpSetData v :: OpEstimate g1 :: ws ++ [OpEstimate g2])
    with ((prefix ++ [OpSetData v] ++ [OpEstimate g1] ++ ws) ++ [OpEstimate g2])
    by (rewrite <- !app_assoc; reflexivity).
  rewrite last_outcome_snoc, !final_app.
  destruct (final (h0, st0) prefix) as [h1 st1] eqn:Ep.
  pose proof (final_heap prefix h0 st0) as Hh. rewrite Ep in Hh. simpl in Hh.
  change (final (h1, st1) [OpSetData v]) with (h1, set_data st1 v).
  assert (Ef : final (h1, set_data st1 v) [OpEstimate g1] = (h1, fst (estimate F h1 (set_data st1 v) g1))).
  { unfold final. rewrite run_cons, step_estimate_state. reflexivity. }
  rewrite Ef, (final_writes ws _ _ Hw), step_estimate.
  apply (estimate_is_pure (heap_of ws h1) _ g2 v xs).
  - rewrite estimate_keeps_handle. reflexivity.
  - rewrite heap_of_app in Hn. rewrite Hh. exact Hn.
Qed.

(* batch use: Initialize; NewObservation ...; GetEstimate after any history *)
Definition batch_ops (obs : list (D * option G)) : list op :=
  OpInitialize :: map (fun xg => OpNewObservation (fst xg) (snd xg)) obs ++ [OpGetEstimate].

Lemma final_observations obs : forall h (st : obj) acc, o_acc st = Some acc ->
  exists st', final (h, st) (map (fun xg => OpNewObservation (fst xg) (snd xg)) obs) = (h, st') /\
    o_pre st' = o_pre st /\
    o_acc st' = Some (fold_left (fun a xg => f_obs F (o_pre st) a (fst xg) (snd xg)) obs acc).
Proof.
  induction obs as [|[x g] obs IH]; intros h st acc Ha.
  - exists st. simpl. auto.
  - set (st1 := mkObj (o_x st) (Some (f_obs F (o_pre st) acc x g)) (o_pre st) (o_dist st)).
    destruct (IH h st1 (f_obs F (o_pre st) acc x g) eq_refl) as (st' & E1 & E2 & E3).
    exists st'. split; [|split; [exact E2|exact E3]].
    change (map (fun xg => OpNewObservation (fst xg) (snd xg)) ((x, g) :: obs))
      with ([OpNewObservation x g] ++ map (fun xg : D * option G => OpNewObservation (fst xg) (snd xg)) obs).
    rewrite final_app.
    replace (final (h, st) [OpNewObservation x g]) with (h, st1); [exact E1|].
    unfold final. simpl. rewrite Ha. reflexivity.
Qed.

Theorem batch_estimate_after_any_history (prefix : list op) h0 (st0 : obj) obs :
  last_outcome (run F (h0, st0) (prefix ++ batch_ops obs)) = outcome_of (pure_batch F obs).
Proof.
  unfold batch_ops.
  replace (prefix ++ OpInitialize :: map (fun xg => OpNewObservation (fst xg) (snd xg)) obs ++ [OpGetEstimate])
    with ((prefix ++ [OpInitialize] ++ map (fun xg : D * option G => OpNewObservation (fst xg) (snd xg)) obs) ++ [OpGetEstimate])
    by (rewrite <- !app_assoc; reflexivity).
  rewrite last_outcome_snoc, !final_app.
  destruct (final (h0, st0) prefix) as [h1 st1].
  set (sti := mkObj (o_x st1) (Some (f_init F)) (f_pre0 F) (o_dist st1)).
  change (final (h1, st1) [OpInitialize]) with (h1, sti).
  destruct (final_observations obs h1 sti (f_init F) eq_refl) as (st' & E1 & E2 & E3).
  rewrite E1. simpl. rewrite E3. unfold update_estimate, pure_batch. simpl.
  destruct (f_update F _); reflexivity.
Qed.

(* GetEstimate after a successful estimate returns the estimate again and changes nothing *)
Lemma get_estimate_after_success h (st st' : obj) g p :
  estimate F h st g = (st', RParams p) -> step F (h, st') OpGetEstimate = ((h, st'), RParams p).
Proof.
  unfold estimate. destruct (o_x st); [|discriminate]. destruct (nth_error h n); [|discriminate].
  unfold update_estimate. simpl. destruct (f_update F _); [|discriminate].
  intros H. inversion H; subst. reflexivity.
Qed.

(* ... and after a FAILED estimate GetEstimate fails again (the accumulators are kept): the stale parameters
   are not handed out as an estimate *)
Lemma get_estimate_after_failure h (st st' : obj) g :
  estimate F h st g = (st', RErr) -> snd (step F (h, st') OpGetEstimate) = RErr.
Proof.
  unfold estimate. destruct (o_x st); [|discriminate]. destruct (nth_error h n); [|discriminate].
  unfold update_estimate. simpl. destruct (f_update F _) eqn:E; [discriminate|].
  intros H. inversion H; subst. simpl. unfold update_estimate. simpl. rewrite E. reflexivity.
Qed.

Lemma get_estimate_repeats h (st st' : obj) g :
  (forall p, estimate F h st g = (st', RParams p) -> step F (h, st') OpGetEstimate = ((h, st'), RParams p)) /\
  (estimate F h st g = (st', RErr) -> snd (step F (h, st') OpGetEstimate) = RErr).
Proof.
  split.
  - intros p. exact (get_estimate_after_success h st st' g p).
  - exact (get_estimate_after_failure h st st' g).
Qed.

End ObjFacts.

(* ------------------------------------------------------------------ *)
(* the families' pure estimates are the estimator functions of Model.v (which the maximiser theorems and the
   per-case checks are about) *)
Section FamilyLinks.
Context {A : Type} (N : Num A).
Variables (EXP LOG LOG1P : A -> A).

Lemma normal_obs_all smin pre : forall xs acc g,
  obs_all (normal_family N EXP smin) pre acc xs (Some g) = normal_acc N acc xs (Some (map (rescaled N EXP pre) g)).
Proof.
  induction xs as [|x xs IH]; intros acc g; simpl; [reflexivity|].
  destruct g as [|w g]; simpl; [reflexivity|]. apply IH.
Qed.
Lemma normal_obs_all_none smin pre : forall xs acc,
  obs_all (normal_family N EXP smin) pre acc xs None = normal_acc N acc xs None.
Proof. induction xs as [|x xs IH]; intros acc; simpl; [reflexivity|]. apply IH. Qed.

Theorem normal_family_is_normal_est smin xs g :
  pure_estimate (normal_family N EXP smin) xs g = normal_est N EXP smin xs g.
Proof.
  unfold pure_estimate, normal_est. destruct g as [g|]; simpl.
  - rewrite normal_obs_all. reflexivity.
  - rewrite normal_obs_all_none. reflexivity.
Qed.

Lemma lstep_obs_all (Fm : family A (lw (A:=A)) (lw (A:=A) * lw (A:=A) * Z) unit A) f :
  f_obs Fm = (fun _ => lstep N EXP LOG1P f) ->
  forall xs m s c gs, obs_all Fm tt (m, s, c) xs gs = lacc N EXP LOG1P f m s c xs gs.
Proof.
  intros Ef. induction xs as [|x xs IH]; intros m s c gs; simpl; [reflexivity|].
  destruct gs as [[|w gs]|]; simpl; [reflexivity| |]; rewrite Ef; simpl; apply IH.
Qed.

Theorem exponential_family_is_exponential_est lmax xs g :
  pure_estimate (exponential_family N EXP LOG LOG1P lmax) xs g = exponential_est N EXP LOG LOG1P lmax xs g.
Proof.
  unfold pure_estimate, exponential_est. simpl.
  replace (pre_of (exponential_family N EXP LOG LOG1P lmax) g) with tt by (destruct g; reflexivity).
  rewrite (lstep_obs_all (exponential_family N EXP LOG LOG1P lmax) (logx N LOG) eq_refl). reflexivity.
Qed.

Theorem geometric_family_is_geometric_est xs g :
  pure_estimate (geometric_family N EXP LOG LOG1P) xs g = geometric_est N EXP LOG LOG1P xs g.
Proof.
  unfold pure_estimate, geometric_est. simpl.
  replace (pre_of (geometric_family N EXP LOG LOG1P) g) with tt by (destruct g; reflexivity).
  rewrite (lstep_obs_all (geometric_family N EXP LOG LOG1P) (fun x => logx N LOG (add N x (one N))) eq_refl). reflexivity.
Qed.

Lemma poisson_obs_all_none : forall xs m s c,
  obs_all (poisson_family N EXP LOG LOG1P) tt (m, s, c) xs None =
  lacc N EXP LOG1P (logx N LOG) m s c (filter (fun x => negb (ltb N x (zero N))) xs) None.
Proof.
  induction xs as [|x xs IH]; intros m s c; simpl; [reflexivity|].
  destruct (ltb N x (zero N)); simpl; apply IH.
Qed.
Lemma poisson_obs_all_some : forall xs g m s c, length g = length xs ->
  obs_all (poisson_family N EXP LOG LOG1P) tt (m, s, c) xs (Some g) =
  let xg := filter (fun p => negb (ltb N (fst p) (zero N))) (combine xs g) in
  lacc N EXP LOG1P (logx N LOG) m s c (map fst xg) (Some (map snd xg)).
Proof.
  induction xs as [|x xs IH]; intros g m s c Hl; simpl; [reflexivity|].
  destruct g as [|w g]; [discriminate|]. simpl in Hl. injection Hl as Hl. simpl.
  destruct (ltb N x (zero N)); simpl; apply IH; exact Hl.
Qed.

(* Poisson (observations below zero are skipped): for gamma of the data's length *)
Theorem poisson_family_is_poisson_est xs g :
  match g with Some gs => length gs = length xs | None => True end ->
  pure_estimate (poisson_family N EXP LOG LOG1P) xs g = poisson_est N EXP LOG LOG1P xs g.
Proof.
  intros Hl. unfold pure_estimate, poisson_est, poisson_keep.
  replace (pre_of (poisson_family N EXP LOG LOG1P) g) with tt by (destruct g; reflexivity).
  destruct g as [gs|]; simpl.
  - rewrite (poisson_obs_all_some xs gs _ _ _ Hl). reflexivity.
  - rewrite poisson_obs_all_none. reflexivity.
Qed.
End FamilyLinks.

Lemma families_are_estimator_functions (A : Type) (N : Num A) (EXP LOG LOG1P : A -> A) xs g :
  (forall smin, pure_estimate (normal_family N EXP smin) xs g = normal_est N EXP smin xs g) /\
  (forall lmax, pure_estimate (exponential_family N EXP LOG LOG1P lmax) xs g = exponential_est N EXP LOG LOG1P lmax xs g) /\
  pure_estimate (geometric_family N EXP LOG LOG1P) xs g = geometric_est N EXP LOG LOG1P xs g /\
  (match g with Some gs => length gs = length xs | None => True end ->
   pure_estimate (poisson_family N EXP LOG LOG1P) xs g = poisson_est N EXP LOG LOG1P xs g).
Proof.
  split; [|split; [|split]].
  - intros smin. exact (normal_family_is_normal_est N EXP smin xs g).
  - intros lmax. exact (exponential_family_is_exponential_est N EXP LOG LOG1P lmax xs g).
  - exact (geometric_family_is_geometric_est N EXP LOG LOG1P xs g).
  - exact (poisson_family_is_poisson_est N EXP LOG LOG1P xs g).
Qed.

(* ------------------------------------------------------------------ *)
(* the EM driver: which mixture is RETURNED *)
Section DriverFinal.
Context {P L : Type}.
Variables (ell : P -> L) (upd : P -> P).
Variables (lsubL : L -> L -> L) (conv : L -> bool).

Lemma em_loop_final fuel : forall k ms th lold hs thf ex,
  em_loop (step_of ell upd) lsubL conv fuel k ms th lold = (hs, thf, ex) ->
  thf = iter_l upd (length hs) th.
Proof.
  induction fuel as [|fuel IH]; intros k ms th lold hs thf ex H; simpl in H.
  - inversion H; subst. reflexivity.
  - destruct (match ms with None => false | Some ms0 => Nat.leb ms0 k end).
    + inversion H; subst. reflexivity.
    + unfold step_of in H; fold (step_of ell upd) in H.
      destruct (conv (lsubL (ell th) lold)).
      * inversion H; subst. reflexivity.
      * destruct (em_loop (step_of ell upd) lsubL conv fuel (S k) ms (upd th) (ell th)) as [[hs' thf'] ex'] eqn:Hr.
        inversion H; subst. simpl. apply (IH _ _ _ _ _ _ _ Hr).
Qed.

(* the mixture the algorithm leaves in the estimator (GetEstimate / GetParameters afterwards) is the one handed
   to the LAST hook call — also when the convergence test fires, when maxSteps is reached, and when the fuel of
   the model runs out *)
Theorem em_returns_the_last_hooked_mixture fuel nested ms th0 nanL neg_inf hs thf ex :
  em_algorithm (step_of ell upd) lsubL conv neg_inf nanL fuel nested ms th0 = (hs, thf, ex) ->
  exists h, nth_error hs (length hs - 1) = Some h /\ h_mix h = thf /\ thf = iter_l upd (length hs - 1) th0.
Proof.
  intros H. pose proof (em_algorithm_hooks ell upd lsubL conv fuel nested ms th0 nanL neg_inf hs thf ex H) as Hk.
  unfold em_algorithm in H.
  destruct (em_loop (step_of ell upd) lsubL conv fuel 0 (if nested then Some 1%nat else ms) th0 neg_inf)
    as [[hs' thf'] ex'] eqn:Hr.
  inversion H; subst. simpl. rewrite Nat.sub_0_r.
  pose proof (em_loop_final _ _ _ _ _ _ _ _ Hr) as Hf.
  destruct (nth_error (mkHook 0 th0 nanL nanL :: hs') (length hs')) as [h|] eqn:Hn.
  - exists h. split; [reflexivity|]. destruct (Hk (length hs') h Hn) as (_ & B & _). rewrite B. auto.
  - exfalso. apply nth_error_None in Hn. simpl in Hn. lia.
Qed.
End DriverFinal.

Section DriverAscent.
Context {P : Type}.
Variables (ell : P -> R) (upd : P -> P).
Variables (lsubL : R -> R -> R) (conv : R -> bool).
Hypothesis ascent : forall th, ell th <= ell (upd th).

Lemma iter_l_snoc i : forall th, iter_l upd (S i) th = upd (iter_l upd i th).
Proof. induction i as [|i IH]; intros th; [reflexivity|]. simpl. simpl in IH. rewrite IH. reflexivity. Qed.

Lemma iter_ascent i j th : (i <= j)%nat -> ell (iter_l upd i th) <= ell (iter_l upd j th).
Proof.
  induction 1 as [|j Hle IH]; [lra|].
  rewrite iter_l_snoc. eapply Rle_trans; [exact IH|apply ascent].
Qed.

(* with a step that never decreases the likelihood (em_step_never_decreases_likelihood, the Baum-Welch and the
   nested versions), the likelihood of the RETURNED mixture is not below ANY likelihood reported to a hook —
   in particular not below the one whose increment fired the convergence test *)
Theorem em_returned_mixture_is_at_least_as_likely_as_reported fuel nested ms th0 nanL neg_inf hs thf ex :
  em_algorithm (step_of ell upd) lsubL conv neg_inf nanL fuel nested ms th0 = (hs, thf, ex) ->
  forall t h, nth_error hs (S t) = Some h -> h_lik h <= ell thf.
Proof.
  intros H t h Hn.
  destruct (em_returns_the_last_hooked_mixture ell upd lsubL conv fuel nested ms th0 nanL neg_inf hs thf ex H)
    as (hl & _ & _ & Hf).
  destruct (em_algorithm_hooks ell upd lsubL conv fuel nested ms th0 nanL neg_inf hs thf ex H (S t) h Hn)
    as (_ & _ & C).
  destruct (C t eq_refl) as [Cl _]. rewrite Cl, Hf.
  apply iter_ascent. assert (S t < length hs)%nat by (apply nth_error_Some; rewrite Hn; discriminate). lia.
Qed.
End DriverAscent.
