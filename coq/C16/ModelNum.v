(* C16 (round 7) — scalarEstimator/numeric.go: the objective NumericEstimator.Estimate hands to the optimizers
   (newton / bfgs / rprop), ONE worker thread:

     r := 0
     for k := 0 .. m-1:
       if gamma != nil { if !IsInf(gamma[k], -1) { t := LogPdf(x[k]); s := Exp(gamma[k]); t := t*s; r := r + t } }
       else            { t := LogPdf(x[k]); r := r + t }
     Hook(variables, r);  r := -r;  r := r / float64(n);  return r

   An observation with log-weight -Inf is SKIPPED: it may lie outside the family's support (log-density -Inf), and
   -Inf * exp(-Inf) = NaN would poison the sum.  The per-observation log-densities at the current variables are DATA
   of the model (extended values: None = -Inf = outside the support).  No proofs in this file. *)
From Coq Require Import ZArith List.
From ADV Require Import Base.Num C16.Model.
Import ListNotations.

Section Numeric.
Context {A : Type} (N : Num A).
Variable EXP : A -> A.

(* t.Mul(t, s) on an extended log-density, s = Exp(gamma) > 0 *)
Definition lscale (lp : lw (A:=A)) (s : A) : lw (A:=A) := option_map (fun t => mul N t s) lp.

Fixpoint num_acc (r : lw (A:=A)) (lps : list (lw (A:=A))) (gs : option (list (lw (A:=A)))) : lw (A:=A) :=
  match lps with
  | [] => r
  | lp :: lps' =>
      match gs with
      | None => num_acc (ladd N r lp) lps' None
      | Some [] => r                                         (* gamma shorter than x: index panic, never generated *)
      | Some (None :: gs') => num_acc r lps' (Some gs')      (* log-weight -Inf: skipped *)
      | Some (Some g :: gs') => num_acc (ladd N r (lscale lp (EXP g))) lps' (Some gs')
      end
  end.

(* what the Hook is handed: the weighted log-likelihood at the current variables *)
Definition num_hook (lps : list (lw (A:=A))) (gs : option (list (lw (A:=A)))) : lw (A:=A) :=
  num_acc (Some (zero N)) lps gs.

(* the objective value: None = +Inf (the negated -Inf) *)
Definition num_objective (n : Z) (lps : list (lw (A:=A))) (gs : option (list (lw (A:=A)))) : option A :=
  option_map (fun r => div N (neg N r) (of_Z N n)) (num_hook lps gs).
End Numeric.
