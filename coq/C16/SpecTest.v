(* C16 — the specification and the model on concrete instances (sanity of the statements). *)
From Coq Require Import Reals QArith List Lra.
From ADV Require Import Base.Num C16.Model C16.ModelHmm C16.Spec.
Import ListNotations.

(* closed forms in Q: data (weight, x) *)
Example cf_poisson_ex : cf_poisson NumQ [(1, 2); (3, 4); (1, -1)]%Q = Some (7 # 2)%Q.
Proof. vm_compute. reflexivity. Qed.
Example cf_geometric_ex : cf_geometric NumQ [(1, 0); (1, 3)]%Q = Some (2 # 5)%Q.
Proof. vm_compute. reflexivity. Qed.
Example cf_exponential_clamped : cf_exponential NumQ (1 # 4) [(1, 1); (1, 1)]%Q = Some (1 # 4)%Q.
Proof. vm_compute. reflexivity. Qed.
Example cf_exponential_allzero : cf_exponential NumQ 4%Q [(1, 0); (2, 0)]%Q = Some 4%Q.
Proof. vm_compute. reflexivity. Qed.
Example cf_poisson_allzero : cf_poisson NumQ [(1, 0); (2, 0)]%Q = None.
Proof. vm_compute. reflexivity. Qed.
Example cf_categorical_ex : cf_categorical NumQ 3 [(1, 2%nat); (1, 2%nat); (2, 0%nat)]%Q = Some [1 # 2; 0; 1 # 2]%Q.
Proof. vm_compute. reflexivity. Qed.
(* one EM weight update in Q: two components, densities f k l *)
Example em_pi_ex :
  let f := fun k l : nat => match k, l with O, O => 1 | O, _ => 0 | _, O => 1 | _, _ => 1 end%Q in
  g_new_pi NumQ 2 2 (fun _ => 1%Q) (fun _ => (1 # 2)%Q) f 0 = (1 # 4)%Q.
Proof. vm_compute. reflexivity. Qed.
(* driver: two steps allowed, never converged: hook calls 0,1,2 with likelihoods of the previous state *)
Example driver_ex :
  let '(hs, thf, ex) := em_algorithm (fun th : nat => Some (th * 10, S th))%nat Nat.sub (fun _ => false) 0%nat 0%nat 5 false (Some 2%nat) 1%nat in
  map (fun h => (h_iter h, h_mix h, h_lik h)) hs = [(0, 1, 0); (1, 2, 10); (2, 3, 20)]%nat /\ thf = 3%nat /\ ex = false.
Proof. vm_compute. auto. Qed.

(* regression (former finding F-GEOM-ALLZERO, fixed in /repo 936dc43): nine unweighted zeros have the maximiser p = 1 *)
Example cf_geometric_nine_zeros : cf_geometric NumQ (repeat (1, 0)%Q 9) = Some 1%Q.
Proof. vm_compute. reflexivity. Qed.
(* one Baum-Welch step in Q: two states, left-to-right zero pattern, one sequence (0,1) with state 0 emitting only 0 and
   state 1 only 1: every expected count is 0 or 1 *)
Example bw_step_ex :
  let pi := fun i : nat => match i with O => 1 | _ => 0 end%Q in
  let tr := fun i j : nat => match i, j with O, O => (1 # 2) | O, _ => (1 # 2) | _, O => 0 | _, _ => 1 end%Q in
  let e := fun (s j k : nat) => (if Nat.eqb j k then 1 else 0)%Q in
  let len := fun _ : nat => 2%nat in
  (map (bw_pi_new NumQ 2 1 len pi tr e) [0; 1], map (bw_tr_new NumQ 2 1 len pi tr e 0) [0; 1],
   map (bw_tr_new NumQ 2 1 len pi tr e 1) [0; 1], bw_lik NumQ 2 len pi tr e 0)%nat
  = ([1; 0], [0; 1], [0; 1], 1 # 2)%Q.
Proof. vm_compute. reflexivity. Qed.

Open Scope R_scope.
(* the spec sums on a two-point data set *)
Example sums_ex : sumw [(1, 2); (3, 4)] = 4 /\ sumwx [(1, 2); (3, 4)] = 14 /\ mle_poisson [(1, 2); (3, 4)] = 14 / 4.
Proof. unfold mle_poisson, sumw, sumwx; simpl. repeat split; lra. Qed.

(* round 3: vector normal model in Q (no exp needed without log-weights), products, negative binomial *)
From ADV Require Import C16.ModelVec.
Example vn_est_clamped_ex :
  vn_est NumQ (fun q => q) 2 2%Q [[2; 1]; [-2; -1]]%Q None = ([0; 0], [[4; 2]; [2; 2]])%Q.
Proof. vm_compute. reflexivity. Qed.
Example vn_est_dim1_ex : vn_est NumQ (fun q => q) 1 0%Q [[1]; [3]]%Q None = ([2], [[1]])%Q.
Proof. vm_compute. reflexivity. Qed.
Example cf_negbin_ex : cf_negbin NumQ 2%Q [(1, 3); (1, 1)]%Q = Some (1 # 2)%Q.
Proof. vm_compute. reflexivity. Qed.
Example scalar_id_ex :
  scalar_id_est [(fun (c : list nat) (_ : unit) => Some (length c)); (fun c _ => Some (fold_left Nat.add c 0%nat))]
                [[1; 2]; [3; 4]; [5; 6]]%nat tt = Some [3; 12]%nat.
Proof. vm_compute. reflexivity. Qed.
Example scalar_id_error_ex :
  scalar_id_est [(fun (c : list nat) (_ : unit) => Some 0%nat); (fun c _ => None)] [[1; 2]]%nat tt = None.
Proof. vm_compute. reflexivity. Qed.
Example scalar_iid_ex : scalar_iid_est (fun (c : list nat) (_ : unit) => Some (length c)) [[1; 2]; [3]; [4; 5; 6]]%nat tt = Some 6%nat.
Proof. vm_compute. reflexivity. Qed.
