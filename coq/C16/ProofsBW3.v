(* C16 — Baum-Welch ascent, part 3: the step of the model (ModelHmm.v at R) on several sequences:
   Pi' and Tr' are the normalised expected counts (a Tr row without expected transitions becomes the
   identity row), the emission densities e' are any that do not decrease the gamma-weighted
   log-likelihood (exact M-steps of the component estimators) and are positive where gamma is.
   Then sum_s ln L_s(theta') >= sum_s ln L_s(theta). *)
From Coq Require Import Reals List Lra Lia Psatz.
From ADV Require Import Base.Num C16.Model C16.ModelHmm C16.Spec C16.ProofsMax C16.ProofsEM C16.ProofsBW C16.ProofsBW2.
Import ListNotations.
Open Scope R_scope.

Lemma rsum_swap3 b m1 m2 (q : nat -> nat -> nat -> R) :
  rsum b (fun t => rsum m1 (fun i => rsum m2 (fun j => q t i j)))
  = rsum m1 (fun i => rsum m2 (fun j => rsum b (fun t => q t i j))).
Proof. rewrite rsum_swap. apply rsum_ext; intros i _. apply rsum_swap. Qed.

Lemma Rdiv_pos_pos a b : 0 < a -> 0 < b -> 0 < a / b.
Proof. intros. apply Rdiv_lt_0_compat; assumption. Qed.
Lemma Rdiv_nonneg a b : 0 <= a -> 0 < b -> 0 <= a / b.
Proof. intros. apply Rmult_le_pos; [assumption|left; apply Rinv_0_lt_compat; assumption]. Qed.

Section Ascent.
Variables (M nseq : nat) (len : nat -> nat).
Variables (pi : nat -> R) (tr : nat -> nat -> R) (e e' : nat -> nat -> nat -> R).
Hypothesis Hlen : forall s, (s < nseq)%nat -> (1 <= len s)%nat.
Hypothesis Hpi : nonneg1 M pi.
Hypothesis Hpi1 : rsum M pi <= 1.
Hypothesis Htr : nonneg2 M tr.
Hypothesis Htr1 : forall i, (i < M)%nat -> rsum M (tr i) <= 1.
Hypothesis He : forall s j k, (j < M)%nat -> 0 <= e s j k.
Hypothesis He' : forall s j k, (j < M)%nat -> 0 <= e' s j k.
Hypothesis Hlik : forall s, (s < nseq)%nat -> 0 < bw_lik NumR M len pi tr e s.

Local Notation gam := (bw_gamma NumR M len pi tr e).
Local Notation xi := (bw_xi NumR M len pi tr e).
Local Notation pi' := (bw_pi_new NumR M nseq len pi tr e).
Local Notation tr' := (bw_tr_new NumR M nseq len pi tr e).
Local Notation praw := (bw_pi_raw NumR M nseq len pi tr e).
Local Notation traw := (bw_tr_raw NumR M nseq len pi tr e).

Hypothesis Hsupp : forall s k j, (s < nseq)%nat -> (k < len s)%nat -> (j < M)%nat -> 0 < gam s k j -> 0 < e' s j k.
Hypothesis Hem :
  rsum nseq (fun s => rsum (len s) (fun k => rsum M (fun j => gam s k j * ln (e s j k))))
  <= rsum nseq (fun s => rsum (len s) (fun k => rsum M (fun j => gam s k j * ln (e' s j k)))).

Let G s := sq_g0 M (len s) pi tr (e s).
Let X s := sq_x0 M (len s) pi tr (e s).
Let Ls s := sq_L M (len s) pi tr (e s).

Lemma lik_eq p0 t0 e0 s : bw_lik NumR M len p0 t0 e0 s = sq_L M (len s) p0 t0 (e0 s).
Proof. unfold bw_lik. rewrite gsum_R. exact (lik_is_L M (len s) p0 t0 (e0 s)). Qed.
Lemma Ls_pos s : (s < nseq)%nat -> 0 < Ls s.
Proof. intros Hs. unfold Ls. rewrite <- lik_eq. apply Hlik. assumption. Qed.
Lemma gam_eq s k j : (k <= len s - 1)%nat -> gam s k j = G s k j / Ls s.
Proof.
  intros Hk. unfold bw_gamma.
  assert (E : bw_gnorm NumR M len pi tr e s k = Ls s).
  { unfold bw_gnorm. rewrite gsum_R. exact (g0_total M (len s) pi tr (e s) k Hk). }
  rewrite E. reflexivity.
Qed.
Lemma xi_eq s t i j : (s < nseq)%nat -> (t < len s - 1)%nat -> xi s t i j = X s t i j / Ls s.
Proof.
  intros Hs Ht. unfold bw_xi.
  assert (E : bw_xnorm NumR M len pi tr e s t = Ls s).
  { unfold bw_xnorm. rewrite gsum_R. unfold Ls.
    rewrite <- (x0_total M (len s) pi tr (e s) (Hlen s Hs) t Ht).
    apply rsum_ext. intros i0 Hi0. rewrite gsum_R. reflexivity. }
  rewrite E. reflexivity.
Qed.

Lemma G_nonneg s k j : (j < M)%nat -> 0 <= G s k j.
Proof. intros Hj. apply g0_nonneg; try assumption. intros; apply He; assumption. Qed.
Lemma X_nonneg s t i j : (i < M)%nat -> (j < M)%nat -> 0 <= X s t i j.
Proof. intros Hi Hj. apply x0_nonneg; try assumption. intros; apply He; assumption. Qed.
Lemma gam_nonneg s k j : (s < nseq)%nat -> (k <= len s - 1)%nat -> (j < M)%nat -> 0 <= gam s k j.
Proof. intros Hs Hk Hj. rewrite gam_eq by assumption. apply Rdiv_nonneg; [apply G_nonneg; assumption|apply Ls_pos; assumption]. Qed.
Lemma xi_nonneg s t i j : (s < nseq)%nat -> (t < len s - 1)%nat -> (i < M)%nat -> (j < M)%nat -> 0 <= xi s t i j.
Proof. intros Hs Ht Hi Hj. rewrite xi_eq by assumption. apply Rdiv_nonneg; [apply X_nonneg; assumption|apply Ls_pos; assumption]. Qed.

Lemma praw_R i : praw i = rsum nseq (fun s => gam s 0 i).
Proof. unfold bw_pi_raw. apply gsum_R. Qed.
Lemma traw_R i j : traw i j = rsum nseq (fun s => rsum (len s - 1) (fun t => xi s t i j)).
Proof. unfold bw_tr_raw. rewrite gsum_R. apply rsum_ext. intros s Hs. apply gsum_R. Qed.

Lemma praw_nonneg i : (i < M)%nat -> 0 <= praw i.
Proof. intros Hi. rewrite praw_R. apply rsum_nonneg. intros s Hs. apply gam_nonneg; [assumption|lia|assumption]. Qed.
Lemma traw_nonneg i j : (i < M)%nat -> (j < M)%nat -> 0 <= traw i j.
Proof.
  intros Hi Hj. rewrite traw_R. apply rsum_nonneg. intros s Hs. apply rsum_nonneg. intros t Ht.
  apply xi_nonneg; assumption.
Qed.
Lemma gam_le_praw s i : (s < nseq)%nat -> (i < M)%nat -> gam s 0 i <= praw i.
Proof.
  intros Hs Hi. rewrite praw_R. apply (rsum_term_le nseq (fun s0 => gam s0 0%nat i)); [|assumption].
  intros s0 Hs0. apply gam_nonneg; [assumption|lia|assumption].
Qed.
Lemma xi_le_traw s t i j : (s < nseq)%nat -> (t < len s - 1)%nat -> (i < M)%nat -> (j < M)%nat -> xi s t i j <= traw i j.
Proof.
  intros Hs Ht Hi Hj. rewrite traw_R.
  apply Rle_trans with (rsum (len s - 1) (fun t0 => xi s t0 i j)).
  - apply (rsum_term_le (len s - 1) (fun t0 => xi s t0 i j)); [|assumption]. intros t0 Ht0. apply xi_nonneg; assumption.
  - apply (rsum_term_le nseq (fun s0 => rsum (len s0 - 1) (fun t0 => xi s0 t0 i j))); [|assumption].
    intros s0 Hs0. apply rsum_nonneg. intros t0 Ht0. apply xi_nonneg; assumption.
Qed.

(* the total of the Pi counts is the number of sequences *)
Lemma praw_total : rsum M praw = INR nseq.
Proof.
  transitivity (rsum M (fun i => rsum nseq (fun s => gam s 0%nat i))).
  { apply rsum_ext. intros i Hi. apply praw_R. }
  rewrite rsum_swap.
  transitivity (rsum nseq (fun _ => 1)).
  - apply rsum_ext. intros s Hs. cbv beta.
    transitivity (rsum M (fun i => G s 0%nat i / Ls s)).
    { apply rsum_ext. intros i Hi. apply gam_eq. lia. }
    unfold Rdiv. rewrite rsum_scal_r. unfold G, Ls. rewrite g0_total by lia.
    field. apply Rgt_not_eq. apply (Ls_pos s Hs).
  - clear. induction nseq as [|m IH]; [reflexivity|]. rewrite S_INR. simpl. rewrite IH. reflexivity.
Qed.

Lemma pi'_eq i : pi' i = praw i / rsum M praw.
Proof. unfold bw_pi_new. rewrite gsum_R. reflexivity. Qed.
Definition rowsum i := rsum M (traw i).
Lemma tr'_eq i j : tr' i j = if Reqb (rowsum i) 0 then (if Nat.eqb i j then 1 else 0) else traw i j / rowsum i.
Proof. unfold bw_tr_new, rowsum. rewrite gsum_R. reflexivity. Qed.
Lemma rowsum_nonneg i : (i < M)%nat -> 0 <= rowsum i.
Proof. intros Hi. apply rsum_nonneg. intros j Hj. apply traw_nonneg; assumption. Qed.

Lemma pi'_nonneg : 0 < INR nseq -> nonneg1 M pi'.
Proof. intros Hn i Hi. rewrite pi'_eq, praw_total. apply Rdiv_nonneg; [apply praw_nonneg; assumption|assumption]. Qed.
Lemma tr'_nonneg : nonneg2 M tr'.
Proof.
  intros i j Hi Hj. rewrite tr'_eq. destruct (Reqb (rowsum i) 0) eqn:E.
  - destruct (Nat.eqb i j); lra.
  - assert (rowsum i <> 0) by (intros H0; apply Reqb_true in H0; congruence).
    pose proof (rowsum_nonneg i Hi). apply Rdiv_nonneg; [apply traw_nonneg; assumption|lra].
Qed.
Lemma tr'_pos i j : (i < M)%nat -> (j < M)%nat -> 0 < traw i j -> 0 < tr' i j.
Proof.
  intros Hi Hj Hp. rewrite tr'_eq.
  assert (Hr : traw i j <= rowsum i).
  { apply (rsum_term_le M (traw i)); [intros; apply traw_nonneg; assumption|assumption]. }
  destruct (Reqb (rowsum i) 0) eqn:E; [apply Reqb_true in E; lra|].
  apply Rdiv_pos_pos; lra.
Qed.

(* positive expected counts need positive old parameters *)
Lemma G0_pos_pi s i : 0 < G s 0 i -> (i < M)%nat -> 0 < pi i.
Proof.
  intros Hg Hi. unfold G in Hg. rewrite g00 in Hg.
  destruct (Rle_lt_or_eq_dec _ _ (Hpi i Hi)) as [H|H]; [exact H|]. rewrite <- H in Hg. lra.
Qed.
Lemma X_pos_tr s t i j : 0 < X s t i j -> (i < M)%nat -> (j < M)%nat -> 0 < tr i j.
Proof.
  intros Hx Hi Hj. unfold X, sq_x0 in Hx.
  destruct (Rle_lt_or_eq_dec _ _ (Htr i j Hi Hj)) as [H|H]; [exact H|]. rewrite <- H in Hx. lra.
Qed.

(* per sequence, normalised *)
Lemma seq_norm s : (s < nseq)%nat -> 0 < INR nseq ->
  rsum M (fun i => gam s 0 i * (ln (pi' i) - ln (pi i)))
  + rsum (len s - 1) (fun t => rsum M (fun i => rsum M (fun j => xi s t i j * (ln (tr' i j) - ln (tr i j)))))
  + rsum (len s) (fun k => rsum M (fun j => gam s k j * (ln (e' s j k) - ln (e s j k))))
  <= ln (bw_lik NumR M len pi' tr' e' s) - ln (bw_lik NumR M len pi tr e s).
Proof.
  intros Hs Hn. pose proof (Ls_pos s Hs) as HL.
  pose proof (sequence_bound M (len s) pi pi' tr tr' (e s) (e' s) (Hlen s Hs) Hpi (pi'_nonneg Hn) Htr tr'_nonneg
                             (He s) (He' s)) as SB.
  assert (A1 : forall i, (i < M)%nat -> 0 < G s 0 i -> 0 < pi' i).
  { intros i Hi Hg. rewrite pi'_eq, praw_total. apply Rdiv_pos_pos; [|assumption].
    apply Rlt_le_trans with (gam s 0%nat i); [|apply gam_le_praw; assumption].
    rewrite gam_eq by lia. apply Rdiv_pos_pos; assumption. }
  assert (A2 : forall t i j, (t < len s - 1)%nat -> (i < M)%nat -> (j < M)%nat -> 0 < X s t i j -> 0 < tr' i j).
  { intros t i j Ht Hi Hj Hx. apply tr'_pos; try assumption.
    apply Rlt_le_trans with (xi s t i j); [|apply xi_le_traw; assumption].
    rewrite xi_eq by assumption. apply Rdiv_pos_pos; assumption. }
  assert (A3 : forall k j, (k < len s)%nat -> (j < M)%nat -> 0 < G s k j -> 0 < e' s j k).
  { intros k j Hk Hj Hg. apply Hsupp; try assumption. rewrite gam_eq by lia. apply Rdiv_pos_pos; assumption. }
  specialize (SB A1 A2 A3). fold (Ls s) in SB.
  rewrite !lik_eq. fold (Ls s).
  change (sq_L' M (len s) pi' tr' (e' s)) with (sq_L M (len s) pi' tr' (e' s)) in SB.
  apply (Rmult_le_compat_l (/ Ls s)) in SB; [|left; apply Rinv_0_lt_compat; assumption].
  replace (/ Ls s * (Ls s * (ln (sq_L M (len s) pi' tr' (e' s)) - ln (Ls s))))
    with (ln (sq_L M (len s) pi' tr' (e' s)) - ln (Ls s)) in SB by (field; lra).
  eapply Rle_trans; [|exact SB]. right.
  rewrite !Rmult_plus_distr_l. f_equal; [f_equal|].
  - rewrite <- rsum_scal. apply rsum_ext. intros i Hi. cbv beta. rewrite gam_eq by lia. fold (G s). unfold Rdiv. ring.
  - rewrite <- rsum_scal. apply rsum_ext. intros t Ht. cbv beta.
    rewrite <- rsum_scal. apply rsum_ext. intros i Hi. cbv beta.
    rewrite <- rsum_scal. apply rsum_ext. intros j Hj. cbv beta.
    rewrite xi_eq by assumption. fold (X s). unfold Rdiv. ring.
  - rewrite <- rsum_scal. apply rsum_ext. intros k Hk. cbv beta.
    rewrite <- rsum_scal. apply rsum_ext. intros j Hj. cbv beta.
    rewrite gam_eq by lia. fold (G s). unfold Rdiv. ring.
Qed.

(* Pi' maximises sum_i praw(i) ln p(i) over the sub-probability vectors (Gibbs) *)
Lemma pi_part : 0 < INR nseq -> 0 <= rsum M (fun i => praw i * (ln (pi' i) - ln (pi i))).
Proof.
  intros Hn.
  pose proof (gibbs_index M praw pi) as Gb.
  assert (Hyp : forall k, (k < M)%nat -> 0 <= praw k /\ 0 <= pi k /\ (0 < praw k -> 0 < pi k)).
  { intros k Hk. split; [apply praw_nonneg; assumption|]. split; [apply Hpi; assumption|].
    intros Hp. rewrite praw_R in Hp.
    destruct (rsum_pos_exists nseq _ Hp) as (s & Hs & Hg).
    { intros s Hs. apply gam_nonneg; [assumption|lia|assumption]. }
    rewrite gam_eq in Hg by lia. apply (G0_pos_pi s k); [|assumption].
    pose proof (Ls_pos s Hs) as HL. pose proof (G_nonneg s 0%nat k Hk) as HG.
    destruct (Rle_lt_or_eq_dec _ _ HG) as [H|H]; [exact H|]. rewrite <- H in Hg. unfold Rdiv in Hg. lra. }
  assert (Htot : 0 < rsum M praw) by (rewrite praw_total; assumption).
  specialize (Gb Hyp Htot Hpi1).
  assert (E : rsum M (fun i => praw i * (ln (pi' i) - ln (pi i)))
              = rsum M (fun k => praw k * ln (praw k / rsum M praw)) - rsum M (fun k => praw k * ln (pi k))).
  { rewrite <- rsum_minus. apply rsum_ext. intros i Hi. cbv beta. rewrite pi'_eq. ring. }
  rewrite E. lra.
Qed.

Lemma tr_part i : (i < M)%nat -> 0 <= rsum M (fun j => traw i j * (ln (tr' i j) - ln (tr i j))).
Proof.
  intros Hi. destruct (Rle_lt_or_eq_dec _ _ (rowsum_nonneg i Hi)) as [Hr|Hr].
  - pose proof (gibbs_index M (traw i) (tr i)) as Gb.
    assert (Hyp : forall k, (k < M)%nat -> 0 <= traw i k /\ 0 <= tr i k /\ (0 < traw i k -> 0 < tr i k)).
    { intros j Hj. split; [apply traw_nonneg; assumption|]. split; [apply Htr; assumption|].
      intros Hp. rewrite traw_R in Hp.
      destruct (rsum_pos_exists nseq _ Hp) as (s & Hs & Hg).
      { intros s Hs. apply rsum_nonneg. intros t Ht. apply xi_nonneg; assumption. }
      destruct (rsum_pos_exists (len s - 1) _ Hg) as (t & Ht & Hx).
      { intros t Ht. apply xi_nonneg; assumption. }
      rewrite xi_eq in Hx by assumption. apply (X_pos_tr s t i j); [|assumption|assumption].
      pose proof (Ls_pos s Hs) as HL. pose proof (X_nonneg s t i j Hi Hj) as HX.
      destruct (Rle_lt_or_eq_dec _ _ HX) as [H|H]; [exact H|]. rewrite <- H in Hx. unfold Rdiv in Hx. lra. }
    specialize (Gb Hyp Hr (Htr1 i Hi)). fold (rowsum i) in Gb.
    assert (E : rsum M (fun j => traw i j * (ln (tr' i j) - ln (tr i j)))
                = rsum M (fun k => traw i k * ln (traw i k / rowsum i)) - rsum M (fun k => traw i k * ln (tr i k))).
    { rewrite <- rsum_minus. apply rsum_ext. intros j Hj. cbv beta. rewrite tr'_eq.
      destruct (Reqb (rowsum i) 0) eqn:E0; [apply Reqb_true in E0; lra|]. ring. }
    rewrite E. lra.
  - right. symmetry. apply rsum_zero. intros j Hj.
    assert (traw i j = 0).
    { apply (rsum_zero_all M (traw i)); [intros; apply traw_nonneg; assumption|symmetry; exact Hr|assumption]. }
    rewrite H. ring.
Qed.

Theorem baum_welch_ascent :
  rsum nseq (fun s => ln (bw_lik NumR M len pi tr e s)) <= rsum nseq (fun s => ln (bw_lik NumR M len pi' tr' e' s)).
Proof.
  destruct (Nat.eq_dec nseq 0) as [Hz|Hz].
  { clear Hem Hsupp Hlik Hlen G X Ls. subst nseq. simpl. lra. }
  assert (Hn : 0 < INR nseq) by (apply lt_0_INR; lia).
  assert (B : rsum nseq (fun s =>
      rsum M (fun i => gam s 0 i * (ln (pi' i) - ln (pi i)))
      + rsum (len s - 1) (fun t => rsum M (fun i => rsum M (fun j => xi s t i j * (ln (tr' i j) - ln (tr i j)))))
      + rsum (len s) (fun k => rsum M (fun j => gam s k j * (ln (e' s j k) - ln (e s j k)))))
      <= rsum nseq (fun s => ln (bw_lik NumR M len pi' tr' e' s) - ln (bw_lik NumR M len pi tr e s))).
  { apply rsum_le. intros s Hs. apply seq_norm; assumption. }
  rewrite rsum_minus in B. rewrite !rsum_plus in B.
  (* the three groups are non-negative *)
  assert (P : rsum nseq (fun s => rsum M (fun i => gam s 0 i * (ln (pi' i) - ln (pi i))))
              = rsum M (fun i => praw i * (ln (pi' i) - ln (pi i)))).
  { rewrite rsum_swap. apply rsum_ext. intros i Hi. cbv beta. rewrite praw_R. rewrite rsum_scal_r. reflexivity. }
  assert (T : rsum nseq (fun s => rsum (len s - 1) (fun t => rsum M (fun i => rsum M (fun j =>
                 xi s t i j * (ln (tr' i j) - ln (tr i j))))))
              = rsum M (fun i => rsum M (fun j => traw i j * (ln (tr' i j) - ln (tr i j))))).
  { transitivity (rsum nseq (fun s => rsum M (fun i => rsum M (fun j => rsum (len s - 1) (fun t =>
                    xi s t i j * (ln (tr' i j) - ln (tr i j))))))).
    { apply rsum_ext. intros s Hs. apply rsum_swap3. }
    rewrite rsum_swap3. apply rsum_ext. intros i Hi. apply rsum_ext. intros j Hj. cbv beta.
    rewrite traw_R. rewrite <- rsum_scal_r. apply rsum_ext. intros s Hs. cbv beta. rewrite rsum_scal_r. reflexivity. }
  assert (Em : rsum nseq (fun s => rsum (len s) (fun k => rsum M (fun j => gam s k j * (ln (e' s j k) - ln (e s j k)))))
               = rsum nseq (fun s => rsum (len s) (fun k => rsum M (fun j => gam s k j * ln (e' s j k))))
                 - rsum nseq (fun s => rsum (len s) (fun k => rsum M (fun j => gam s k j * ln (e s j k))))).
  { rewrite <- rsum_minus. apply rsum_ext. intros s Hs. cbv beta.
    rewrite <- rsum_minus. apply rsum_ext. intros k Hk. cbv beta.
    rewrite <- rsum_minus. apply rsum_ext. intros j Hj. cbv beta. ring. }
  rewrite P, T, Em in B.
  pose proof (pi_part Hn) as P0.
  assert (T0 : 0 <= rsum M (fun i => rsum M (fun j => traw i j * (ln (tr' i j) - ln (tr i j))))).
  { apply rsum_nonneg. intros i Hi. apply tr_part. assumption. }
  lra.
Qed.

End Ascent.
