(* C16 — executable linear-scale model of one Baum-Welch step of /repo
   (statistics/generic/hmm_baumWelch.go: baumWelchThread + BaumWelchStep with ONE
   worker thread, finalStates = startStates = nil; hmm_optimized.go:
   float64Forward / float64Backward; hmm_utility.go: Normalize of Pi and Tr;
   statistics/vectorEstimator/hmm.go: Emissions).

   What the log-scale code computes when exp / log are exact (LogAdd = +,
   Add = *, Sub = /, -Inf = 0), in the style of [EmLinear] of Model.v: index
   functions, carrier-generic (run in Q by the correspondence, read over R by
   the theorems).  No proofs in this file.

   States i, j < M; sequences s < nseq of length len s >= 1; e s j k = density of
   the emission distribution of state j (= Edist[StateMap[j]]) at position k of
   sequence s. *)
From Coq Require Import ZArith List Bool.
From ADV Require Import Base.Num C16.Model.
Import ListNotations.

Section HmmLinear.
Context {A : Type} (N : Num A).
Local Notation "x +! y" := (add N x y) (at level 50, left associativity).
Local Notation "x *! y" := (mul N x y) (at level 40, left associativity).
Local Notation "x /! y" := (div N x y) (at level 40, left associativity).
Variable M : nat.

(* ---- a chain of non-negative factors: f_t (i, j) couples position t with t+1 ---- *)
(* a vector of M values, tabulated once (the Go code fills alpha / beta column by column; under
   call-by-value evaluation this keeps the recursions below linear in the length of the chain) *)
Definition tabn (g : nat -> A) : nat -> A :=
  let l := map g (seq 0 M) in fun j => nth j l (zero N).
(* one forward step: alpha_{t+1}(j) = sum_i alpha_t(i) f_t(i,j) *)
Definition c_step (a : nat -> A) (f : nat -> nat -> A) : nat -> A :=
  tabn (fun j => gsum N M (fun i => a i *! f i j)).
(* forward vector after t steps *)
Fixpoint c_fwd (a : nat -> A) (fs : list (nat -> nat -> A)) (t : nat) : nat -> A :=
  match t, fs with
  | S t', f :: r => c_fwd (c_step a f) r t'
  | _, _ => a
  end.
(* backward vector of the remaining factors: beta(i) = sum_j f(i,j) beta'(j), 1 at the end *)
Fixpoint c_bwd (fs : list (nat -> nat -> A)) : nat -> A :=
  match fs with
  | [] => fun _ => one N
  | f :: r => let b := c_bwd r in tabn (fun i => gsum N M (fun j => f i j *! b j))
  end.

(* ---- the HMM as a chain: a_0(i) = Pi(i) e(i,0), f_t(i,j) = Tr(i,j) e(j,t+1) ---- *)
Definition h_a0 (pi : nat -> A) (e : nat -> nat -> A) : nat -> A := fun i => pi i *! e i 0.
Definition h_fs (tr : nat -> nat -> A) (e : nat -> nat -> A) (n : nat) : list (nat -> nat -> A) :=
  map (fun k => fun i j => tr i j *! e j k) (seq 1 (n - 1)).

Section Step.
Variables (nseq : nat) (len : nat -> nat).
Variables (pi : nat -> A) (tr : nat -> nat -> A) (e : nat -> nat -> nat -> A).

(* float64ForwardBackward under hmm2 (the parameters BEFORE the step) *)
Definition bw_alpha (s k : nat) : nat -> A := c_fwd (h_a0 pi (e s)) (h_fs tr (e s) (len s)) k.
Definition bw_beta (s k : nat) : nat -> A := c_bwd (skipn k (h_fs tr (e s) (len s))).
(* gamma at position k: alpha * beta, normalised by its own sum t1 over the states *)
Definition bw_gnorm (s k : nat) : A := gsum N M (fun i => bw_alpha s k i *! bw_beta s k i).
Definition bw_gamma (s k i : nat) : A := bw_alpha s k i *! bw_beta s k i /! bw_gnorm s k.
(* xi for the transition k -> k+1: alpha_k(i) Tr(i,j) beta_{k+1}(j) e(j,k+1), normalised by its own sum xiz *)
Definition bw_xi0 (s k i j : nat) : A := bw_alpha s k i *! tr i j *! bw_beta s (S k) j *! e s j (S k).
Definition bw_xnorm (s k : nat) : A := gsum N M (fun i => gsum N M (fun j => bw_xi0 s k i j)).
Definition bw_xi (s k i j : nat) : A := bw_xi0 s k i j /! bw_xnorm s k.
(* likelihood of sequence s (not its logarithm): sum_i alpha(i, n-1) *)
Definition bw_lik (s : nat) : A := gsum N M (bw_alpha s (len s - 1)).

(* accumulated over the sequences, then Pi.Normalize / Tr.Normalize (a row without any expected
   transition becomes the identity row: Tr(i,i) = log 1) *)
Definition bw_pi_raw (i : nat) : A := gsum N nseq (fun s => bw_gamma s 0 i).
Definition bw_pi_new (i : nat) : A := bw_pi_raw i /! gsum N M bw_pi_raw.
Definition bw_tr_raw (i j : nat) : A := gsum N nseq (fun s => gsum N (len s - 1) (fun k => bw_xi s k i j)).
Definition bw_tr_new (i j : nat) : A :=
  let r := gsum N M (bw_tr_raw i) in
  if eqb N r (zero N) then (if Nat.eqb i j then one N else zero N) else bw_tr_raw i j /! r.
(* weight handed to the estimator of emission class c for position k of sequence s:
   gamma[c][l] = sum over the states mapped to c *)
Definition bw_eweight (smap : nat -> nat) (c s k : nat) : A :=
  gsum N M (fun i => if Nat.eqb (smap i) c then bw_gamma s k i else zero N).
End Step.

End HmmLinear.
