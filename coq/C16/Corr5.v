(* C16 correspondence, round 5: NESTED EM estimators (mixture estimators as components of a mixture estimator or as
   emission estimators of an HMM estimator), plain and summarised (DiscreteMixtureEstimator), on data with repeats.

   One case = one configuration tree, run twice by the harness on the real code:
     [run] the configuration as given (some mixtures summarised), [ref] the same tree with every summary erased.
   Checked here, per case:
     - the guard: [run] ended with an error  <->  the model's [top_refuses] says the configuration is refused;
       [ref] is never refused;
     - [ref] replays, hook by hook, against the linear-scale nested step of ModelNest.v evaluated in 100-bit
       rationals from Go's own state (outer E-step, outer weights, inner E-step with the outer responsibilities as
       weights, inner weights, leaf M-steps: Poisson mean, categorical frequencies, clamped normal moments; for an
       HMM the outer step is the Baum-Welch model ModelHmm.v with the inner mixture densities as emissions), the
       likelihood handed to hook t+1 being the likelihood of the state at hook t; the driver model; monotone
       likelihoods;
     - a [run] that is not refused reports the same trajectory as [ref] (every parameter and every likelihood).
   Plus the summary itself: NewMixtureSummarizedDataSet's (values, counts) against [summ_values] / [summ_counts]. *)
From Coq Require Import ZArith QArith Qabs Floats List Bool.
From ADV Require Import Base.Num Base.Corr C16.Model C16.Corr C16.ModelHmm C16.Corr2 C16.Corr3 C16.ModelNest.
Import ListNotations.

(* component as reported by Go: (is a mixture, inner log-weights, parameters of the leaves) *)
Definition ncomp := (bool * list float * list (list float))%type.
Definition nc_mix (c : ncomp) := let '(b, _, _) := c in b.
Definition nc_lw (c : ncomp) := let '(_, w, _) := c in w.
Definition nc_ps (c : ncomp) := let '(_, _, p) := c in p.
(* hook: (iteration, outer block [mixture: log-weights; HMM: log Pi ++ log Tr row-major], components, likelihood, change) *)
Definition nhook := (nat * list float * list ncomp * float * float)%type.
Definition nh_iter (h : nhook) := let '(i, _, _, _, _) := h in i.
Definition nh_out (h : nhook) := let '(_, o, _, _, _) := h in o.
Definition nh_comps (h : nhook) := let '(_, _, c, _, _) := h in c.
Definition nh_lik (h : nhook) := let '(_, _, _, l, _) := h in l.
Definition nh_eps (h : nhook) := let '(_, _, _, _, e) := h in e.

Definition f2nat (x : float) : nat :=
  match F2Q x with Some q => Z.to_nat (Qnum q / Zpos (Qden q)) | None => O end.

(* normal density without 1/sqrt(2 pi), as Corr3.en_dens; the binary64 argument of exp is checked against its exact value to
   2^-40 while it is above -745, below that exp underflows (table value 0 or a subnormal; the exact argument must be below
   -745 as well, where exp < 2^-1074) *)
Definition en_dens5 (tab : exptab) (x mu s : float) : option Q :=
  match F2Q x, F2Q mu, F2Q s, F2Q (en_arg x mu s), wq tab (en_arg x mu s) with
  | Some xq, Some mq, Some sq, Some aq, Some e =>
      if Qle_bool sq 0 then None else
      let exact := - (((xq - mq) * (xq - mq)) / (2 * (sq * sq))) in
      if Qle_bool (Qabs (exact - aq)) (1 # 1099511627776) then Some (rndQ (e / sq))
      else if Qle_bool aq (-745) && Qle_bool exact (-745) then Some (rndQ (e / sq)) else None
  | _, _, _, _, _ => None
  end.

(* leaf families: 1 Poisson [lambda], 3 categorical [log theta_0 ..], 4 normal [mu; sigma] (density without 1/sqrt(2 pi)) *)
Definition leaf_dens (tab : exptab) (fam : Z) (p : list float) (x : float) : option Q :=
  if (fam =? 1)%Z then
    match F2Q (nth 0 p nan), wq tab (- (nth 0 p nan))%float with
    | Some l, Some e => let k := f2nat x in Some (div NumQr (mul NumQr (qpow l k) e) (qfact k))
    | _, _ => None
    end
  else if (fam =? 3)%Z then wq tab (nth (f2nat x) p nan)
  else en_dens5 tab x (nth 0 p nan) (nth 1 p nan).

Definition comp_lin (tab : exptab) (fam : Z) (xs : list float) (c : ncomp) : option (list Q * list (list Q)) :=
  match (if nc_mix c then all_some (map (wq tab) (nc_lw c)) else Some [1%Q]),
        all_some2 (map (fun p => map (leaf_dens tab fam p) xs) (nc_ps c)) with
  | Some pin, Some ft => if Nat.eqb (length pin) (length ft) then Some (pin, ft) else None
  | _, _ => None
  end.

(* n_dens, tabulated *)
Definition comp_dens (n : nat) (st : list Q * list (list Q)) : list Q :=
  let '(pin, ft) := st in
  map (fun l => gsum NumQr (length pin) (fun j => mul NumQr (nthQ pin j) (nthQ (nth j ft []) l))) (seq 0 n).

Definition leaf_check (tab : exptab) (fam : Z) (J : nat) (sminq : Q) (xs : list float) (xq : list Q)
    (w : list Q) (ws : Q) (p1 : list float) : bool :=
  let n := length xs in
  if (fam =? 1)%Z then
    match F2Q (nth 0 p1 nan) with
    | Some g => qclose g (div NumQr (gsum NumQr n (fun l => mul NumQr (nthQ w l) (nthQ xq l))) ws)
    | None => false
    end
  else if (fam =? 3)%Z then
    Nat.eqb (length p1) J &&
    forallb (fun i => match wq tab (nth i p1 nan) with
                      | Some g => closeQ_abs g (div NumQr (gsum NumQr n (fun l => if Nat.eqb (f2nat (nth l xs nan)) i then nthQ w l else 0)) ws)
                      | None => false end) (seq 0 J)
  else
    let m := div NumQr (gsum NumQr n (fun l => mul NumQr (nthQ w l) (nthQ xq l))) ws in
    let q := div NumQr (gsum NumQr n (fun l => mul NumQr (mul NumQr (nthQ w l) (nthQ xq l)) (nthQ xq l))) ws in
    let var := q - m * m in
    let scale := q + 1 in
    match F2Q (nth 0 p1 nan), F2Q (nth 1 p1 nan) with
    | Some gm, Some gs =>
        Qle_bool (Qabs (gm - m)) (tolQ * (Qabs m + 1)) &&
        ((Qle_bool (sminq * sminq - tolQ * scale) var && Qle_bool (Qabs (gs * gs - var)) (tolQ * scale)) ||
         (Qle_bool var (sminq * sminq + tolQ * scale) && Qeq_bool gs sminq))
    | _, _ => false
    end.

(* the inner EM step of one component: weights r (outer responsibilities), old state st0 with density table fk,
   against the component Go reports at the next hook *)
Definition inner_check (tab : exptab) (fam : Z) (J : nat) (sminq : Q) (xs : list float) (xq : list Q)
    (r fk : list Q) (st0 : list Q * list (list Q)) (c1 : ncomp) : bool :=
  let '(pin, ft) := st0 in
  let n := length xs in
  let Kin := length pin in
  let rin := map (fun j => map (fun l => mul NumQr (nthQ r l)
                                   (div NumQr (mul NumQr (nthQ pin j) (nthQ (nth j ft []) l)) (nthQ fk l))) (seq 0 n)) (seq 0 Kin) in
  let rs := map (fun row => gsum NumQr n (nthQ row)) rin in
  let tot := gsum NumQr Kin (nthQ rs) in
  (if nc_mix c1 then
     match all_some (map (wq tab) (nc_lw c1)) with
     | Some p1 => Nat.eqb (length p1) Kin && forallb (fun j => qclose (nthQ p1 j) (div NumQr (nthQ rs j) tot)) (seq 0 Kin)
     | None => false
     end
   else true) &&
  Nat.eqb (length (nc_ps c1)) Kin &&
  forallb (fun j => leaf_check tab fam J sminq xs xq (nth j rin []) (nthQ rs j) (nth j (nc_ps c1) [])) (seq 0 Kin).

Definition dflt_comp : ncomp := (false, [], []).
Definition dflt_st : list Q * list (list Q) := ([], []).

Definition norm_const (fam : Z) (n : nat) (lik : Q) : Q :=
  if (fam =? 4)%Z then mul NumQr lik (qpow inv_sqrt_2pi_q n) else lik.

(* outer = mixture *)
Definition nstep_mix (tab : exptab) (fam : Z) (J : nat) (sminq : Q) (xs : list float) (xq : list Q) (h0 h1 : nhook) : bool :=
  let n := length xs in
  match all_some (map (wq tab) (nh_out h0)), all_some (map (wq tab) (nh_out h1)),
        all_some (map (comp_lin tab fam xs) (nh_comps h0)), wq tab (nh_lik h1) with
  | Some pis0, Some pis1, Some sts, Some lik1 =>
      let K := length pis0 in
      let fks := map (comp_dens n) sts in
      let mixl := map (fun l => gsum NumQr K (fun k => mul NumQr (nthQ pis0 k) (nthQ (nth k fks []) l))) (seq 0 n) in
      let rk := map (fun k => map (fun l => div NumQr (mul NumQr (nthQ pis0 k) (nthQ (nth k fks []) l)) (nthQ mixl l)) (seq 0 n)) (seq 0 K) in
      let rs := map (fun row => gsum NumQr n (nthQ row)) rk in
      let tot := gsum NumQr K (nthQ rs) in
      closeQ tolQ lik1 (norm_const fam n (gprod NumQr n (nthQ mixl))) &&
      Nat.eqb (length sts) K && Nat.eqb (length pis1) K && Nat.eqb (length (nh_comps h1)) K &&
      forallb (fun k => qclose (nthQ pis1 k) (div NumQr (nthQ rs k) tot) &&
                        inner_check tab fam J sminq xs xq (nth k rk []) (nth k fks []) (nth k sts dflt_st)
                                    (nth k (nh_comps h1) dflt_comp)) (seq 0 K)
  | _, _, _, _ => false
  end.

(* outer = HMM (no start / final states): Pi, Tr by the Baum-Welch model, emission class c = component c *)
Fixpoint offsets_from (o : nat) (lens : list nat) : list nat :=
  match lens with [] => [] | a :: r => o :: offsets_from (o + a) r end.

(* binary64 versions of the densities, for the Baum-Welch part of the non-exact cases (as in Corr2.v: all operations are
   + * / on non-negative numbers; the error bound is not machine-checked, which is why the small cases are decided in NumQr) *)
Fixpoint fpow (x : float) (n : nat) : float := match n with O => 1%float | S m => (fpow x m * x)%float end.
Fixpoint ffact (n : nat) : float := match n with O => 1%float | S m => (ffact m * of_Z NumF (Z.of_nat n))%float end.
Definition leaf_dens_f (tab : exptab) (fam : Z) (p : list float) (x : float) : float :=
  if (fam =? 1)%Z then let l := nth 0 p nan in let k := f2nat x in (fpow l k * tabexp tab (- l) / ffact k)%float
  else if (fam =? 3)%Z then tabexp tab (nth (f2nat x) p nan)
  else (tabexp tab (en_arg x (nth 0 p nan) (nth 1 p nan)) / nth 1 p nan)%float.
Definition comp_dens_f (tab : exptab) (fam : Z) (xs : list float) (c : ncomp) : list float :=
  let pin := if nc_mix c then map (tabexp tab) (nc_lw c) else [1%float] in
  map (fun x => fold_left (fun a pj => (a + fst pj * leaf_dens_f tab fam (snd pj) x)%float) (combine pin (nc_ps c)) 0%float) xs.

Section BwOuter.
Context {A : Type} (N : Num A).
(* the outer Baum-Welch step on tabulated parameters: new Pi, new Tr (row-major), class weights per mapped position, likelihood *)
Definition bw_outer (M C : nat) (smap lens : list nat) (o0 : list A) (fks : list (list A)) : list A * list A * list (list A) * A :=
  let z := zero N in
  let nseq := length lens in
  let len := fun s => nth s lens O in
  let offs := offsets_from 0 lens in
  let pi := fun i => nth i o0 z in
  let tr := fun i j => nth (M + i * M + j) o0 z in
  let sm := fun j => nth j smap O in
  let e := fun s j k => nth (nth s offs O + k) (nth (sm j) fks []) z in
  let pos := flat_map (fun s => map (fun k => (s, k)) (seq 0 (len s))) (seq 0 nseq) in
  (map (bw_pi_new N M nseq len pi tr e) (seq 0 M),
   flat_map (fun i => map (bw_tr_new N M nseq len pi tr e i) (seq 0 M)) (seq 0 M),
   map (fun c => map (fun sk => bw_eweight N M len pi tr e sm c (fst sk) (snd sk)) pos) (seq 0 C),
   fold_left (fun a s => mul N a (bw_lik N M len pi tr e s)) (seq 0 nseq) (one N)).
End BwOuter.

Definition nstep_hmm (exact : bool) (tab : exptab) (fam : Z) (J : nat) (sminq : Q) (M : nat) (smap lens : list nat)
    (xs : list float) (xq : list Q) (h0 h1 : nhook) : bool :=
  let n := length xs in
  match all_some (map (wq tab) (nh_out h0)), all_some (map (wq tab) (nh_out h1)),
        all_some (map (comp_lin tab fam xs) (nh_comps h0)), wq tab (nh_lik h1) with
  | Some o0, Some o1, Some sts, Some lik1 =>
      let C := length sts in
      let fks := map (comp_dens n) sts in
      let outer :=
        if exact then Some (bw_outer NumQr M C smap lens o0 fks)
        else
          let '(npi, ntr, rk, lik) := bw_outer NumF M C smap lens (map (tabexp tab) (nh_out h0))
                                               (map (comp_dens_f tab fam xs) (nh_comps h0)) in
          match all_some (map F2Q npi), all_some (map F2Q ntr), all_some2 (map (map F2Q) rk), F2Q lik with
          | Some a, Some b, Some c, Some d => Some (a, b, c, d)
          | _, _, _, _ => None
          end in
      match outer with
      | Some (npi, ntr, rk, lik) =>
          closeQ tolQ lik1 (norm_const fam n lik) &&
          Nat.eqb (length o0) (M + M * M) && Nat.eqb (length o1) (M + M * M) && Nat.eqb (length (nh_comps h1)) C &&
          list_eqb qclose (firstn M o1) npi && list_eqb qclose (skipn M o1) ntr &&
          forallb (fun c => inner_check tab fam J sminq xs xq (nth c rk []) (nth c fks []) (nth c sts dflt_st)
                                        (nth c (nh_comps h1) dflt_comp)) (seq 0 C)
      | None => false
      end
  | _, _, _, _ => false
  end.

Fixpoint nsteps (step : nhook -> nhook -> bool) (hs : list nhook) : bool :=
  match hs with
  | h0 :: ((h1 :: _) as r) => step h0 h1 && nsteps step r
  | _ => true
  end.

Definition nhook_of (h : nhook) : hook := (nh_iter h, [], [], nh_lik h, nh_eps h).

(* two trajectories agree: same hooks, every number equal up to 1e-7 (absolute + relative) *)
Definition tol7 : Q := 1 # 10000000.
Definition fclose (a b : float) : bool :=
  feqb a b ||
  match F2Q a, F2Q b with
  | Some x, Some y => Qle_bool (Qabs (x - y)) (tol7 * (Qabs y + 1))
  | _, _ => false
  end.
Definition ncomp_close (a b : ncomp) : bool :=
  list_eqb fclose (nc_lw a) (nc_lw b) && list_eqb (list_eqb fclose) (nc_ps a) (nc_ps b).
Definition nhook_close (a b : nhook) : bool :=
  Nat.eqb (nh_iter a) (nh_iter b) && list_eqb fclose (nh_out a) (nh_out b) &&
  list_eqb ncomp_close (nh_comps a) (nh_comps b) &&
  (Nat.eqb (nh_iter a) 0 || (fclose (nh_lik a) (nh_lik b))).

(* the convergence test (change < epsilon) of one run can fall on the other side of the threshold by rounding: the trajectories
   must agree as long as both go on, and where only one stops the change it saw must be within 1e-7 of epsilon *)
Definition borderline (eps : float) (h : nhook) : bool :=
  match F2Q (nh_eps h), F2Q eps, F2Q (nh_lik h) with
  | Some d, Some e, Some l => Qle_bool (Qabs (d - e)) (tol7 * (Qabs l + 1))
  | _, _, _ => false
  end.
Fixpoint trace_close (eps : float) (a b : list nhook) : bool :=
  match a, b with
  | [], [] => true
  | x :: a', y :: b' =>
      nhook_close x y &&
      match a', b' with
      | [], [] => true
      | [], _ => borderline eps y
      | _, [] => borderline eps x
      | _, _ => trace_close eps a' b'
      end
  | _, _ => false
  end.

Inductive case5 :=
| C5Nest (hmm exact : bool) (fam : Z) (J : nat) (smin : float) (M : nat) (smap lens : list nat) (xs : list float)
         (via_set : bool) (cfg : top) (eps : float) (max_steps : option nat)
         (degenerate : bool) (ref run : option (list nhook))
| C5Summ (xs vals : list float) (cnts : list nat).

(* the configuration as the code sees it: DiscreteMixtureEstimator.EstimateOnData installs the plain data set *)
Definition effective (via_set : bool) (t : top) : top :=
  match t with TMix s cs => TMix (s && via_set) cs | THmm cs => THmm cs end.

Definition check_ref tab (hmm exact : bool) fam J smin M smap lens xs eps ms (tr : list nhook) : bool :=
  match all_some (map F2Q xs), F2Q smin with
  | Some xq, Some sminq =>
      nsteps (if hmm then nstep_hmm exact tab fam J sminq M smap lens xs xq else nstep_mix tab fam J sminq xs xq) tr &&
      check_driver eps ms (map nhook_of tr) && check_monotone (map nh_lik (tl tr))
  | _, _ => false
  end.

Definition check5 (tab : exptab) (c : case5) : bool :=
  match c with
  | C5Nest hmm exact fam J smin M smap lens xs via_set cfg eps ms degenerate ref run =>
      let eff := effective via_set cfg in
      negb (top_refuses (top_plain eff)) &&
      match ref with
      | None => degenerate       (* an inner mixture lost all its mass on a datum: error outcome outside the quantifier *)
      | Some tr =>
          check_ref tab hmm exact fam J smin M smap lens xs eps ms tr &&
          match run with
          | None => top_refuses eff
          | Some tr' => negb (top_refuses eff) && trace_close eps tr' tr && check_monotone (map nh_lik (tl tr'))
          end
      end
  | C5Summ xs vals cnts =>
      list_eqb feqb (summ_values PrimFloat.eqb xs) vals && list_eqb Nat.eqb (summ_counts PrimFloat.eqb xs) cnts
  end.

Definition mism5 (tab : exptab) (cs : list case5) : list nat := mismatches (check5 tab) cs.
