(* C16 round 5 — NESTED EM estimators on SUMMARISED data: the index conventions.

   statistics/scalarEstimator/mixture_data.go: NewMixtureSummarizedDataSet replaces the n observations
   x_0 .. x_{n-1} by the m unique values v_0 .. v_{m-1} (first-occurrence order) and their counts; the map
   observation -> unique value is [summ_index].  mixture_em.go: EmStep on such a data set loops over the UNIQUE
   values l < m, adds meta(l) (outer log-weight) and log counts(l) to the responsibilities, multiplies the
   per-value log-likelihood by counts(l).  mixture.go / mixture_discrete.go / vectorEstimator/hmm.go: an estimator
   used as a component of another EM estimator receives  SetData(data of the outer estimator)  and then, every outer
   iteration,  Estimate(gamma[c])  with gamma[c] indexed like the OUTER data.  A DiscreteMixtureEstimator in that
   position summarises what it is given a second time, so that its own index (unique values of its input) is not
   the index of gamma any more: MixtureEstimator.Estimate refuses that configuration
       if obj.data.GetCounts() != nil && gamma != nil { return error "cannot nest mixture estimator if data is summarized" }.

   This file: the summary (executable, carrier-generic), the per-observation / per-unique-value weight conventions
   on index functions (aggregated weights [agg], what the code WOULD read without the guard [misindexed]), the
   configuration tree with the guard [refuses], and the linear-scale nested EM step (outer mixture whose
   components are mixtures; emission mixtures of an HMM use the same inner step with the Baum-Welch gamma as
   weights).  No proofs in this file. *)
From Coq Require Import ZArith List Bool Arith.
From ADV Require Import Base.Num C16.Model.
Import ListNotations.

(* ------------------------------------------------------------------ *)
(* NewMixtureSummarizedDataSet                                          *)
Section Summary.
Context {X : Type} (eqbX : X -> X -> bool).     (* Go: map key equality of float64 *)

(* xMap[v]: index of the (unique) stored value equal to v *)
Fixpoint summ_lookup (v : X) (vals : list X) : option nat :=
  match vals with
  | [] => None
  | u :: r => if eqbX u v then Some O else option_map S (summ_lookup v r)
  end.

(* left to right over the observations; [vals] = the unique values found so far *)
Fixpoint summ_idx (xs : list X) (vals : list X) : list nat * list X :=
  match xs with
  | [] => ([], vals)
  | x :: r =>
      match summ_lookup x vals with
      | Some i => let '(is, vs) := summ_idx r vals in (i :: is, vs)
      | None => let '(is, vs) := summ_idx r (vals ++ [x]) in (length vals :: is, vs)
      end
  end.

Definition summ_index (xs : list X) : list nat := fst (summ_idx xs []).     (* observation -> unique value *)
Definition summ_values (xs : list X) : list X := snd (summ_idx xs []).
Definition summ_counts (xs : list X) : list nat :=
  map (fun u => count_occ Nat.eq_dec (summ_index xs) u) (seq 0 (length (summ_values xs))).
End Summary.

(* ------------------------------------------------------------------ *)
(* weights per observation vs weights per unique value                  *)
Section Weights.
Context {A : Type} (N : Num A).
Local Notation "x +! y" := (add N x y) (at level 50, left associativity).
Local Notation "x *! y" := (mul N x y) (at level 40, left associativity).

(* correctly aggregated weight of unique value u: the sum of the weights of its occurrences
   (with all weights 1: the count) *)
Definition agg (n : nat) (idx : nat -> nat) (w : nat -> A) (u : nat) : A :=
  gsum N n (fun l => if Nat.eqb (idx l) u then w l else zero N).

(* what EmStep would use on a summarised data set when handed per-OBSERVATION outer weights (the configuration
   the guard refuses): exp(meta(u) + log counts(u)) = w u * counts u, the outer weight read at the unique index *)
Definition misindexed (cnt : nat -> A) (w : nat -> A) (u : nat) : A := w u *! cnt u.
End Weights.

(* ------------------------------------------------------------------ *)
(* configuration tree and the guard                                     *)
Inductive nest :=
| NLeaf                                   (* closed-form estimator *)
| NMix (summarized : bool) (comps : list nest).   (* MixtureEstimator (false) / DiscreteMixtureEstimator (true) *)

(* Estimate(gamma): [nested] = gamma is not nil.  A mixture estimator hands non-nil gamma to all its components. *)
Fixpoint refuses (nested : bool) (e : nest) : bool :=
  match e with
  | NLeaf => false
  | NMix s cs => (s && nested) || existsb (refuses true) cs
  end.

(* top level: a mixture estimator (DiscreteMixtureEstimator.EstimateOnData is the inherited method and installs the
   PLAIN data set; only SetData + Estimate uses the summary) or an HMM estimator over emission estimators *)
Inductive top :=
| TMix (summarized : bool) (comps : list nest)
| THmm (emissions : list nest).
Definition top_refuses (t : top) : bool :=
  match t with
  | TMix s cs => refuses false (NMix s cs)
  | THmm cs => existsb (refuses true) cs
  end.
(* the reference configuration: the same tree without any summary *)
Fixpoint plain (e : nest) : nest :=
  match e with NLeaf => NLeaf | NMix _ cs => NMix false (map plain cs) end.
Definition top_plain (t : top) : top :=
  match t with TMix _ cs => TMix false (map plain cs) | THmm cs => THmm (map plain cs) end.

(* ------------------------------------------------------------------ *)
(* linear-scale nested EM step (index functions, style of [EmLinear]):
   outer component k is a mixture of Kin k leaves with weights pin k j and leaf densities fin k j l.       *)
Section NestLinear.
Context {A : Type} (N : Num A).
Local Notation "x *! y" := (mul N x y) (at level 40, left associativity).
Local Notation "x /! y" := (div N x y) (at level 40, left associativity).

(* density of outer component k at datum l *)
Definition n_dens (Kin : nat -> nat) (pin : nat -> nat -> A) (fin : nat -> nat -> nat -> A) (k l : nat) : A :=
  g_mix N (Kin k) (pin k) (fin k) l.
(* outer responsibilities (c = outer weights / multiplicities) *)
Definition n_resp (K : nat) c pi Kin pin fin (k l : nat) : A := g_resp N K c pi (n_dens Kin pin fin) k l.
(* inner E-step of component k: ONE EM step (emAlgorithm: meta != nil => maxSteps = 1) with the outer
   responsibilities as weights *)
Definition n_resp_in (K : nat) c pi Kin pin fin (k j l : nat) : A :=
  g_resp N (Kin k) (n_resp K c pi Kin pin fin k) (pin k) (fin k) j l.
Definition n_new_pi (n K : nat) c pi Kin pin fin (k : nat) : A := g_new_pi N n K c pi (n_dens Kin pin fin) k.
Definition n_new_pin (n K : nat) c pi Kin pin fin (k j : nat) : A :=
  g_new_pi N n (Kin k) (n_resp K c pi Kin pin fin k) (pin k) (fin k) j.
End NestLinear.
