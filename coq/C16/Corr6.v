(* C16 correspondence, round 6:
   - CALL SEQUENCES ON ONE ESTIMATOR OBJECT (SetData / caller writes into the installed vector / Estimate /
     EstimateOnData / Initialize / NewObservation / GetEstimate) replayed on the object model of ModelObj.v:
       * normal: the object model instantiated with normal.go's family on binary64 — every outcome of every
         call bit-exact (panics and errors included);
       * every family: the object model instantiated with the RECORDING family, updateEstimate's verdict
         taken from Go and JUDGED: the parameters Go returned must pass the family's per-case check of
         rounds 1-5 (closed form in Q at 1e-9, certified perturbation check) on exactly the observations the
         model says reached the accumulators since the last Initialize — a cache of earlier data, weights or
         sufficient statistics shows up as a mismatch at the call where it is used;
   - the mixture the EM driver RETURNS (GetParameters after Estimate): it is bitwise the mixture of the last
     hook call, the driver model returns that index, and its likelihood, evaluated in Q from its raw parameters,
     is not below the last reported likelihood (the iteration where the convergence test fired included);
   - cases of rounds 1-3 whose estimator object went through other calls before (wrapped unchanged). *)
From Coq Require Import ZArith QArith Qabs Floats List Bool.
From ADV Require Import Base.Num Base.Corr C16.Model C16.Corr C16.ModelVec C16.Corr3 C16.ModelObj C16.ModelNum.
Import ListNotations.

(* what Go let the caller observe at a call *)
Inductive gout := GNone | GPanic | GErr | GOk (ps : list float).

Inductive fam6 :=
| F6Normal (pert : bool) (smin : float)
| F6Rate (fam : Z) (bound : float).       (* 0 exponential (LambdaMax), 1 Poisson, 2 geometric *)

Inductive case6 :=
| C6Seq (f : fam6) (hp : list (list float)) (ops : list (op float float)) (outs : list gout)
| C6SeqCat (k : nat) (hp : list (list nat)) (ops : list (op nat float)) (outs : list gout)
| C6EmFinal (fam : Z) (K J : nat) (xs : list nat) (eps : float) (max_steps : option nat)
            (trace : list hook) (final : list float * list (list float))
| C6Num (gs : option (list float)) (calls : list (list float * float))   (* round 7: NumericEstimator's objective *)
| C6Base (c : Corr.case)
| C6R3 (c : case3).

(* ---------------- bit-exact normal object ---------------- *)
Definition cvt_op (o : op float float) : op float (option float) :=
  match o with
  | OpSetData v => OpSetData v
  | OpWrite v i x => OpWrite v i x
  | OpEstimate g => OpEstimate (option_map (map f2lw) g)
  | OpEstimateOnData v g => OpEstimateOnData v (option_map (map f2lw) g)
  | OpInitialize => OpInitialize
  | OpNewObservation x g => OpNewObservation x (option_map f2lw g)
  | OpGetEstimate => OpGetEstimate
  end.

Definition out_eq_normal (m : outcome (float * float)) (g : gout) : bool :=
  match m, g with
  | RNone, GNone => true
  | RPanic, GPanic => true
  | RErr, GErr => true
  | RParams (mu, sg), GOk [a; b] => feqb mu a && feqb sg b
  | _, _ => false
  end.

Definition normal_obj_outcomes (tab : exptab) (smin : float) (hp : list (list float)) (ops : list (op float float)) :=
  snd (run (normal_family NumF (tabexp tab) smin) (hp, fresh (Some 0%float) (0%float, 1%float)) (map cvt_op ops)).

(* ---------------- judged recording object ---------------- *)
Section Judged.
Context {D : Type}.
Variable judge : rec_acc (D:=D) (G:=float) -> option (list float) -> bool.   (* is this Go outcome the estimate of these observations? *)
Variable init_ok : list float -> bool.                                         (* parameters of the constructor *)

Definition jP := (bool * rec_acc (D:=D) (G:=float))%type.
Definition jfam (g : gout) : family D float (rec_acc (D:=D) (G:=float)) (option (list float)) jP :=
  rec_family (fun acc => match g with
                         | GOk _ => Some (true, acc)
                         | _ => if judge acc None then None else Some (true, acc)
                         end).

Fixpoint run_judged (hs : heap (D:=D) * obj (rec_acc (D:=D) (G:=float)) (option (list float)) jP)
                    (ops : list (op D float)) (outs : list gout) : bool :=
  match ops, outs with
  | [], [] => true
  | o :: r, g :: gr =>
      let '(hs', m) := step (jfam g) hs o in
      match m, g with
      | RNone, GNone => true
      | RPanic, GPanic => true
      | RErr, GErr => true
      | RParams (true, acc), GOk ps => judge acc (Some ps)
      | RParams (false, _), GOk ps => init_ok ps
      | _, _ => false
      end && run_judged hs' r gr
  | _, _ => false
  end.

Definition judged_start (hp : heap (D:=D)) : heap (D:=D) * obj (rec_acc (D:=D) (G:=float)) (option (list float)) jP :=
  (hp, mkObj None None None (false, (None, []))).
End Judged.

(* effective weights of the recorded observations: all without gamma -> none; otherwise a missing gamma counts
   with weight 1 = exp 0 (the count branch adds log(count) to the same log-sum) *)
Definition eff_gamma {D} (obs : list (D * option float)) : option (list float) :=
  if forallb (fun p => match snd p with None => true | Some _ => false end) obs then None
  else Some (map (fun p => match snd p with None => 0%float | Some g => g end) obs).

Definition has_nan (ps : list float) : bool := existsb (fun x => negb (PrimFloat.eqb x x)) ps.

Definition judge_rate (tab : exptab) (fam : Z) (bound : float) (acc : rec_acc (D:=float) (G:=float)) (res : option (list float)) : bool :=
  let obs := snd acc in
  let r := match res with
           | Some [v] => if has_nan [v] then None else Some v     (* a NaN parameter counts as a failure, as in round 1 *)
           | _ => None end in
  match res with Some [_] | None => check_rate tab fam bound (map fst obs) (eff_gamma obs) r | _ => false end.

Definition judge_normal (tab : exptab) (pert : bool) (smin : float) (acc : rec_acc (D:=float) (G:=float)) (res : option (list float)) : bool :=
  let obs := snd acc in
  let r := match res with Some [a; b] => Some (a, b) | _ => None end in
  match res with
  | Some [_; _] | None =>
      match fst acc with
      | Some gs => check_normal tab pert smin (map fst obs) (Some gs) r              (* Estimate(gamma) *)
      | None => match eff_gamma obs with
                | None => check_normal tab pert smin (map fst obs) None r
                | Some _ => true      (* batch use with weights (gamma_max = 0.0): decided by the bit-exact object alone *)
                end
      end
  | _ => false
  end.

Definition judge_cat (tab : exptab) (k : nat) (acc : rec_acc (D:=nat) (G:=float)) (res : option (list float)) : bool :=
  let obs := snd acc in
  let r := match res with Some ps => if has_nan ps then None else Some ps | None => None end in
  check_cat tab k (map fst obs) (eff_gamma obs) r.

Definition init_rate (fam : Z) (ps : list float) : bool :=
  match ps with [v] => feqb v (if (fam =? 2)%Z then 0.5%float else 1%float) | _ => false end.

Definition check_seq (tab : exptab) (f : fam6) hp ops outs : bool :=
  match f with
  | F6Normal pert smin =>
      list_eqb2 out_eq_normal (normal_obj_outcomes tab smin hp ops) outs &&
      run_judged (judge_normal tab pert smin)
                 (fun ps => match ps with [a; b] => feqb a 0%float && feqb b 1%float | _ => false end)
                 (judged_start hp) ops outs
  | F6Rate fam bound => run_judged (judge_rate tab fam bound) (init_rate fam) (judged_start hp) ops outs
  end.

Definition check_seq_cat (tab : exptab) (k : nat) hp ops outs : bool :=
  run_judged (judge_cat tab k) (fun ps => Nat.eqb (length ps) k) (judged_start hp) ops outs.

(* ---------------- the mixture EM returns ---------------- *)
Definition check_final (tab : exptab) (fam : Z) (K J : nat) (xs : list nat) (eps : float) (max_steps : option nat)
                       (hs : list hook) (final : list float * list (list float)) : bool :=
  match rev hs with
  | [] => false
  | hl :: _ =>
      (* bitwise the mixture of the last hook call *)
      list_eqb feqb (fst final) (hk_lw hl) && list_eqb (list_eqb feqb) (snd final) (hk_ps hl) &&
      (* the driver model, run on Go's recorded likelihoods, returns that index *)
      (let liks := map hk_lik hs in
       let stepf := fun t : nat => match nth_error liks (S t) with Some l => Some (l, S t) | None => None end in
       let '(_, thf, ex) := em_algorithm stepf PrimFloat.sub (fun d => PrimFloat.ltb d eps) neg_infinity nan
                                         (S (length hs)) false max_steps O in
       negb ex && Nat.eqb thf (hk_iter hl)) &&
      (* its likelihood from its RAW parameters is not below the last reported one *)
      match hs with
      | [_] => true                                      (* no iteration ran: nothing was reported *)
      | _ =>
          match lin_state tab fam (fst final) (snd final), wq tab (hk_lik hl) with
          | Some st, Some lik_last =>
              let '(_, _, lik_final) := em_step_q fam K J xs st in
              Qle_bool (lik_last - tolQ * Qabs lik_last) lik_final
          | _, _ => false
          end
      end
  end.

(* ---------------- round 7: the objective of NumericEstimator (numeric.go) ---------------- *)
(* every evaluation observed through the Hook: the reported weighted log-likelihood is BIT-EXACTLY the model's fold over
   Go's per-observation log-densities at the same variables (-Inf = None on both sides; a NaN never matches) *)
Definition lwf_eqb (a b : option float) : bool :=
  match a, b with
  | None, None => true
  | Some x, Some y => PrimFloat.eqb x y || (feqb x y && PrimFloat.eqb x x)
  | _, _ => false
  end.
Definition check_num (tab : exptab) (gs : option (list float)) (calls : list (list float * float)) : bool :=
  forallb (fun c : list float * float =>
             lwf_eqb (num_hook NumF (tabexp tab) (map f2lw (fst c)) (option_map (map f2lw) gs)) (f2lw (snd c))) calls.

Definition check6 (tab : exptab) (c : case6) : bool :=
  match c with
  | C6Seq f hp ops outs => check_seq tab f hp ops outs
  | C6SeqCat k hp ops outs => check_seq_cat tab k hp ops outs
  | C6EmFinal fam K J xs eps ms tr final => check_em tab fam K J xs eps ms tr && check_final tab fam K J xs eps ms tr final
  | C6Num gs calls => check_num tab gs calls
  | C6Base c => Corr.check tab c
  | C6R3 c => check3 tab c
  end.

Definition mism6 (tab : exptab) (cs : list case6) : list nat := mismatches (check6 tab) cs.
