(* C16 — certified constants used by the Q-decided perturbation check of Corr.v. *)
From Coq Require Import Reals QArith Qreals.
From Interval Require Import Tactic.
From ADV Require Import C16.Corr.
Open Scope R_scope.

Lemma lnp_bounds : Q2R lnp_lo <= ln (1 + Q2R delta) <= Q2R lnp_hi.
Proof. unfold lnp_lo, lnp_hi, delta, Q2R; simpl. split; interval with (i_prec 80). Qed.
Lemma lnm_bounds : Q2R lnm_lo <= ln (1 - Q2R delta) <= Q2R lnm_hi.
Proof. unfold lnm_lo, lnm_hi, delta, Q2R; simpl. split; interval with (i_prec 80). Qed.
