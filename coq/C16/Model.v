(* C16 — executable model of the closed-form estimators and of the mixture EM
   step + driver of /repo (statistics/scalarEstimator/*.go,
   statistics/generic/mixture_em*.go), ONE worker thread (pool size 1; the
   thread-merge is C17's), mirroring accumulation order, the gamma_max
   rescaling, the log-scale accumulation through LogAdd, the clamps
   (SigmaMin, LambdaMax) and the constructor guards that turn a degenerate
   estimate into an error.

   Carrier-generic (ADV.Base.Num): instantiated at R (theorems) and at
   primitive floats (bit-exact replay of the normal estimator, whose arithmetic
   is + * / sqrt plus one exp per observation that is supplied as a table).
   Log-weights live in [option A]: [None] is Go's -Inf (the only non-finite
   log-weight that is modelled).  No proofs in this file. *)
From Coq Require Import ZArith List Bool.
From ADV Require Import Base.Num.
Import ListNotations.

Section Generic.
Context {A : Type} (N : Num A).
Variables (EXP LOG LOG1P : A -> A).

Local Notation "x +! y" := (add N x y) (at level 50, left associativity).
Local Notation "x -! y" := (sub N x y) (at level 50, left associativity).
Local Notation "x *! y" := (mul N x y) (at level 40, left associativity).
Local Notation "x /! y" := (div N x y) (at level 40, left associativity).

Definition lw := option A.              (* extended log value, None = -Inf *)

Definition nanA : A := zero N /! zero N.

(* a > b on extended log values *)
Definition lgt (a b : lw) : bool :=
  match a, b with
  | None, _ => false
  | Some _, None => true
  | Some x, Some y => ltb N y x
  end.

(* logarithmetic.LogAdd *)
Definition logadd (a b : lw) : lw :=
  let '(a, b) := if lgt a b then (b, a) else (a, b) in
  match a with
  | None => b
  | Some a' =>
      match b with
      | Some b' => Some (b' +! LOG1P (EXP (a' -! b')))
      | None => None
      end
  end.

(* g + x on extended values (Go: -Inf + finite = -Inf) *)
Definition ladd (a b : lw) : lw :=
  match a, b with Some x, Some y => Some (x +! y) | _, _ => None end.

(* math.Log of a non-negative datum: Log(0) = -Inf *)
Definition logx (x : A) : lw := if eqb N x (zero N) then None else Some (LOG x).

(* math.Exp of an extended value; [None] (= -Inf) gives 0 *)
Definition lexp (a : lw) : A := match a with None => zero N | Some x => EXP x end.

(* ------------------------------------------------------------------ *)
(* normal.go                                                            *)

(* Estimate(): gamma_max = -Inf; for g in gamma: if gamma_max < g then gamma_max = g *)
Definition gamma_max (g : list lw) : lw :=
  fold_left (fun m x => if lgt x m then x else m) g None.

(* NewObservation: g := math.Exp(gamma - gamma_max) *)
Definition rescaled (gm : lw) (g : lw) : A :=
  match g, gm with
  | None, Some _ => zero N
  | Some a, Some m => EXP (a -! m)
  | _, None => nanA               (* -Inf - -Inf = NaN *)
  end.

Record nacc := mkNacc { sum_m : A; sum_s : A; sum_g : A }.

(* NewObservation with and without gamma *)
Definition normal_obs (acc : nacc) (x : A) (g : option A) : nacc :=
  match g with
  | None => mkNacc (sum_m acc +! x) (sum_s acc +! x *! x) (sum_g acc +! one N)
  | Some g => mkNacc (sum_m acc +! g *! x) (sum_s acc +! g *! x *! x) (sum_g acc +! g)
  end.

Fixpoint normal_acc (acc : nacc) (xs : list A) (gs : option (list A)) : nacc :=
  match xs with
  | [] => acc
  | x :: xs' =>
      match gs with
      | None => normal_acc (normal_obs acc x None) xs' None
      | Some [] => acc                                    (* index panic; lengths agree in every caller *)
      | Some (g :: gs') => normal_acc (normal_obs acc x (Some g)) xs' (Some gs')
      end
  end.

(* updateEstimate: merge of the (single) thread into 0.0, moments, clamp, constructor guard *)
Definition normal_update (sigma_min : A) (acc : nacc) : option (A * A) :=
  let sg := zero N +! sum_g acc in
  let sm := zero N +! sum_m acc in
  let ss := zero N +! sum_s acc in
  let s1 := sm /! sg in
  let s2 := ss /! sg in
  let sigma := nsqrt N (s2 -! s1 *! s1) in
  let sigma := if is_nan N sigma || ltb N sigma sigma_min then sigma_min else sigma in
  if leb N sigma (zero N) then None else Some (s1, sigma).

Definition normal_est (sigma_min : A) (xs : list A) (gamma : option (list lw)) : option (A * A) :=
  let z := mkNacc (zero N) (zero N) (zero N) in
  match gamma with
  | None => normal_update sigma_min (normal_acc z xs None)
  | Some g =>
      let gm := gamma_max g in
      normal_update sigma_min (normal_acc z xs (Some (map (rescaled gm) g)))
  end.

(* ------------------------------------------------------------------ *)
(* exponential.go / poisson.go / geometric.go: log-scale accumulation   *)

(* one thread: sum_m = LogAdd-fold of (g + f x), sum_g = LogAdd-fold of g, count *)
Fixpoint lacc (f : A -> lw) (m g : lw) (c : Z) (xs : list A) (gs : option (list lw)) : lw * lw * Z :=
  match xs with
  | [] => (m, g, c)
  | x :: xs' =>
      match gs with
      | None => lacc f (logadd m (f x)) g (c + 1)%Z xs' None
      | Some [] => (m, g, c)
      | Some (w :: gs') => lacc f (logadd m (ladd w (f x))) (logadd g w) c xs' (Some gs')
      end
  end.

(* updateEstimate's merge: sum_m = LogAdd(-Inf, sum_m[0]); sum_g = LogAdd(LogAdd(-Inf, sum_g[0]), Log(float(sum_c[0]))) *)
Definition lmerge (r : lw * lw * Z) : lw * lw :=
  let '(m, g, c) := r in
  (logadd None m, logadd (logadd None g) (logx (of_Z N c))).

(* exp(a - b) on extended values; the callers' guards decide what happens with the
   infinite cases: [inl true] = +Inf, [inl false] = NaN, [inr v] = finite *)
Definition lratio (a b : lw) : bool + A :=
  match a, b with
  | Some x, Some y => inr (EXP (x -! y))
  | None, Some _ => inr (zero N)
  | Some _, None => inl true
  | None, None => inl false
  end.

(* exponential: lambda = exp(sum_g - sum_m), clamp at LambdaMax, constructor rejects lambda <= 0 / NaN passes the
   guard `lambda <= 0` as false: modelled as an error as well (Go would build a NaN distribution) *)
Definition exponential_est (lambda_max : A) (xs : list A) (gamma : option (list lw)) : option A :=
  let '(m, g) := lmerge (lacc logx None None 0%Z xs gamma) in
  match lratio g m with
  | inr v => let v := if ltb N lambda_max v then lambda_max else v in
             if leb N v (zero N) then None else Some v
  | inl true => if leb N lambda_max (zero N) then None else Some lambda_max    (* +Inf > LambdaMax *)
  | inl false => None
  end.

(* poisson: observations x < 0 are skipped; mu = exp(sum_m - sum_g); constructor rejects mu <= 0 *)
Definition poisson_keep (xs : list A) (gamma : option (list lw)) : list A * option (list lw) :=
  match gamma with
  | None => (filter (fun x => negb (ltb N x (zero N))) xs, None)
  | Some g =>
      let xg := filter (fun p => negb (ltb N (fst p) (zero N))) (combine xs g) in
      (map fst xg, Some (map snd xg))
  end.
Definition poisson_est (xs : list A) (gamma : option (list lw)) : option A :=
  let '(xs, gamma) := poisson_keep xs gamma in
  let '(m, g) := lmerge (lacc logx None None 0%Z xs gamma) in
  match lratio m g with
  | inr v => if leb N v (zero N) then None else Some v
  | inl _ => None
  end.

(* geometric (HEAD 936dc43): f x = Log(x + 1); p = exp(math.Min(sum_g - sum_m, 0.0)); constructor rejects
   p <= 0 and p > 1.  math.Min: a positive difference (rounding of the LogAdd sums, or sum_m = -Inf) becomes 0,
   -Inf stays -Inf (p = 0, rejected), NaN (-Inf - -Inf) stays NaN. *)
Definition lmin0 (d : A) : A := if ltb N (zero N) d then zero N else d.
Definition lratio_min0 (a b : lw) : bool + A :=
  match a, b with
  | Some x, Some y => inr (EXP (lmin0 (x -! y)))
  | None, Some _ => inr (zero N)
  | Some _, None => inr (EXP (zero N))      (* Min(+Inf, 0) = 0 *)
  | None, None => inl false
  end.
Definition geometric_est (xs : list A) (gamma : option (list lw)) : option A :=
  let '(m, g) := lmerge (lacc (fun x => logx (x +! one N)) None None 0%Z xs gamma) in
  match lratio_min0 g m with
  | inr v => if leb N v (zero N) || ltb N (one N) v then None else Some v
  | inl _ => None
  end.
(* the estimator before the fix (kept for the regression lemma: it could return an error where p = 1 is optimal) *)
Definition geometric_est_prefix (xs : list A) (gamma : option (list lw)) : option A :=
  let '(m, g) := lmerge (lacc (fun x => logx (x +! one N)) None None 0%Z xs gamma) in
  match lratio g m with
  | inr v => if leb N v (zero N) || ltb N (one N) v then None else Some v
  | inl _ => None
  end.

(* ------------------------------------------------------------------ *)
(* categorical.go: per-category LogAdd of gamma / counts, normalisation  *)

Fixpoint upd {X} (l : list X) (i : nat) (f : X -> X) : list X :=
  match l, i with
  | [], _ => []
  | x :: r, O => f x :: r
  | x :: r, S j => x :: upd r j f
  end.

Fixpoint cat_acc (t : list lw) (c : list Z) (xs : list nat) (gs : option (list lw)) : list lw * list Z :=
  match xs with
  | [] => (t, c)
  | x :: xs' =>
      match gs with
      | None => cat_acc t (upd c x (fun v => (v + 1)%Z)) xs' None
      | Some [] => (t, c)
      | Some (w :: gs') => cat_acc (upd t x (fun v => logadd v w)) c xs' (Some gs')
      end
  end.

Definition cat_est (k : nat) (xs : list nat) (gamma : option (list lw)) : list A :=
  let '(t, c) := cat_acc (repeat None k) (repeat 0%Z k) xs gamma in
  let st := map (fun tc => logadd (logadd None (fst tc)) (logx (of_Z N (snd tc)))) (combine t c) in
  let s := fold_left logadd st None in
  map (fun v => match lratio v s with inr e => e | inl _ => nanA end) st.

(* ------------------------------------------------------------------ *)
(* mixture_em.go: EmStep with one thread.  lp k l = data.LogPdf(k, l) under
   mixture2 (the OLD parameters), lw2 = mixture2.LogWeights, meta / counts as
   optional per-datum log-weights.                                        *)

Section EmStep.
Variables (K n : nat).
Variable lp : nat -> nat -> lw.
Variable lw2 : nat -> lw.
Variable dw : nat -> lw.          (* meta(l) + log counts(l); Some 0 when both absent *)
Variable cnt : nat -> A.          (* counts[l] as float; 1 when absent *)

Definition gammaTmp0 (l k : nat) : lw := ladd (lp k l) (lw2 k).
Definition norm_l (l : nat) : lw := fold_left logadd (map (gammaTmp0 l) (seq 0 K)) None.
Definition lsub (a b : lw) : lw :=
  match a, b with Some x, Some y => Some (x -! y) | None, Some _ => None | _, None => None end.
Definition gamma_kl (k l : nat) : lw := ladd (lsub (gammaTmp0 l k) (norm_l l)) (dw l).

(* likelihood accumulated in data order, starting at 0.0 *)
Definition em_lik : option A :=
  fold_left (fun acc l => match acc, norm_l l with
                          | Some a, Some t => Some (a +! t *! cnt l)
                          | _, _ => None end) (seq 0 n) (Some (zero N)).
(* posterior weights: per component LogAdd over the data, merge into -Inf, normalize() *)
Definition em_lw_raw (k : nat) : lw :=
  logadd None (fold_left logadd (map (gamma_kl k) (seq 0 n)) None).
Definition em_lw_sum : lw := fold_left logadd (map em_lw_raw (seq 0 K)) None.
Definition em_lw_new (k : nat) : lw := lsub (em_lw_raw k) em_lw_sum.
End EmStep.

End Generic.

(* ------------------------------------------------------------------ *)
(* Linear-scale closed forms of the same estimators (what the log-scale
   accumulations compute when exp/log are exact).  Carrier-generic: run in Q by
   the correspondence check, read over R by the theorems.  Data are
   (weight, observation) pairs with weight = exp(log-weight), exp(-Inf) = 0. *)
Section ClosedForm.
Context {A : Type} (N : Num A).
Local Notation "x +! y" := (add N x y) (at level 50, left associativity).
Local Notation "x *! y" := (mul N x y) (at level 40, left associativity).
Local Notation "x /! y" := (div N x y) (at level 40, left associativity).

Definition cf_W (d : list (A * A)) : A := fold_left (fun a p => a +! fst p) d (zero N).
Definition cf_M (d : list (A * A)) : A := fold_left (fun a p => a +! fst p *! snd p) d (zero N).
Definition cf_Q (d : list (A * A)) : A := fold_left (fun a p => a +! fst p *! snd p *! snd p) d (zero N).

Definition cf_exponential (lam_max : A) (d : list (A * A)) : option A :=
  let W := cf_W d in let M := cf_M d in
  if leb N W (zero N) then None                       (* no weight at all: NaN in Go *)
  else if leb N M (zero N) then (if leb N lam_max (zero N) then None else Some lam_max)
  else let v := W /! M in
       let v := if ltb N lam_max v then lam_max else v in
       if leb N v (zero N) then None else Some v.

Definition cf_poisson (d : list (A * A)) : option A :=
  let d := filter (fun p => negb (ltb N (snd p) (zero N))) d in
  let W := cf_W d in let M := cf_M d in
  if leb N W (zero N) then None else if leb N M (zero N) then None else Some (M /! W).

Definition cf_geometric (d : list (A * A)) : option A :=
  let W := cf_W d in let M := cf_M d in
  if leb N W (zero N) then None else Some (W /! (W +! M)).

(* categorical: weighted counts per category, normalised *)
Definition cf_cat_counts (k : nat) (d : list (A * nat)) : list A :=
  fold_left (fun c p => upd c (snd p) (fun v => v +! fst p)) d (repeat (zero N) k).
Definition cf_categorical (k : nat) (d : list (A * nat)) : option (list A) :=
  let c := cf_cat_counts k d in
  let C := fold_left (fun a v => a +! v) c (zero N) in
  if leb N C (zero N) then None else Some (map (fun v => v /! C) c).

(* normal: mean and variance (the clamp is applied on sigma by the caller) *)
Definition cf_normal (d : list (A * A)) : option (A * A) :=
  let W := cf_W d in
  if leb N W (zero N) then None else
  let mu := cf_M d /! W in Some (mu, sub N (cf_Q d /! W) (mu *! mu)).
End ClosedForm.

(* ------------------------------------------------------------------ *)
(* Linear-scale EM step (what EmStep + Emissions compute when exp/log are
   exact): responsibilities, weight update with normalisation, and the
   M-steps of the component families with the responsibilities as weights.
   Index functions instead of lists so that the R instance is literally the
   specification's [rsum] form.  c l = multiplicity / outer weight of datum l. *)
Section EmLinear.
Context {A : Type} (N : Num A).
Local Notation "x +! y" := (add N x y) (at level 50, left associativity).
Local Notation "x *! y" := (mul N x y) (at level 40, left associativity).
Local Notation "x /! y" := (div N x y) (at level 40, left associativity).

Fixpoint gsum (n : nat) (f : nat -> A) : A :=
  match n with O => zero N | S m => gsum m f +! f m end.
Fixpoint gprod (n : nat) (f : nat -> A) : A :=
  match n with O => one N | S m => gprod m f *! f m end.

Definition g_mix (K : nat) (pi : nat -> A) (f : nat -> nat -> A) (l : nat) : A := gsum K (fun k => pi k *! f k l).
Definition g_resp (K : nat) (c pi : nat -> A) (f : nat -> nat -> A) (k l : nat) : A :=
  c l *! (pi k *! f k l /! g_mix K pi f l).
Definition g_resp_sum (n K : nat) c pi f (k : nat) : A := gsum n (fun l => g_resp K c pi f k l).
Definition g_new_pi (n K : nat) c pi f (k : nat) : A :=
  g_resp_sum n K c pi f k /! gsum K (fun j => g_resp_sum n K c pi f j).
(* component M-steps, weights r l, data x l *)
Definition g_mstep_mean (n : nat) (r x : nat -> A) : A := gsum n (fun l => r l *! x l) /! gsum n r.
Definition g_mstep_cat (n : nat) (r : nat -> A) (x : nat -> nat) (j : nat) : A :=
  gsum n (fun l => if Nat.eqb (x l) j then r l else zero N) /! gsum n r.
(* likelihood (not its logarithm): product over the data, each datum c l = 1 *)
Definition g_lik (n K : nat) pi f : A := gprod n (fun l => g_mix K pi f l).
End EmLinear.

(* ------------------------------------------------------------------ *)
(* mixture_em_generic.go: emAlgorithm — the driver loop.  The mixture state is
   abstract: [step th] models Swap; EvaluateLogPdf; Step; Emissions, returning
   the likelihood Step computed (under the parameters BEFORE the update) and the
   updated parameters that GetBasicMixture() hands to the hooks.            *)

Section Driver.
Context {P L : Type}.
Variable step : P -> option (L * P).       (* None: an error aborts the loop *)
Variable lsubL : L -> L -> L.              (* likelihood_new - likelihood_old *)
Variable conv : L -> bool.                 (* (likelihood_new - likelihood_old) < epsilon *)
Variable neg_inf nanL : L.

Record hookcall := mkHook { h_iter : nat; h_mix : P; h_lik : L; h_eps : L }.

(* for k := 0; maxSteps == -1 || k < maxSteps; k++ — [max_steps = None] is -1; fuel makes it total *)
Fixpoint em_loop (fuel : nat) (k : nat) (max_steps : option nat) (th : P) (lold : L)
  : list hookcall * P * bool (* fuel exhausted *) :=
  match fuel with
  | O => ([], th, true)
  | S fuel' =>
      if match max_steps with None => false | Some ms => Nat.leb ms k end then ([], th, false) else
      match step th with
      | None => ([], th, false)
      | Some (lnew, th') =>
          let h := mkHook (S k) th' lnew (lsubL lnew lold) in
          if conv (lsubL lnew lold) then ([h], th', false)
          else let '(hs, thf, ex) := em_loop fuel' (S k) max_steps th' lnew in (h :: hs, thf, ex)
      end
  end.

Definition em_algorithm (fuel : nat) (nested : bool) (max_steps : option nat) (th0 : P) :=
  let ms := if nested then Some 1%nat else max_steps in
  let '(hs, thf, ex) := em_loop fuel 0 ms th0 neg_inf in
  (mkHook 0 th0 nanL nanL :: hs, thf, ex).
End Driver.
