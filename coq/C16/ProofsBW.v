(* C16 — Baum-Welch ascent, part 1: the bound for a chain of non-negative factors.

   For a chain  L(a, fs) = sum over all state paths of a(z_0) prod_t f_t(z_t, z_{t+1})
   (computed by the forward recursion [c_fwd]; equal to sum_i a(i) beta(i) with the backward
   recursion [c_bwd]) and a second chain (a', fs') of the same length:

     sum_i a(i) beta(i) (ln a'(i) - ln a(i))
       + sum_t sum_{i,j} alpha_t(i) f_t(i,j) beta_{t+1}(j) (ln f'_t(i,j) - ln f_t(i,j))
     <=  L (ln L' - ln L)

   provided the primed quantities are positive wherever the (unnormalised) posterior mass is.
   The proof is by induction along the chain with one application of Jensen (the log-sum
   inequality, from [em_datum]) per position: no enumeration of paths is needed, and the
   quantities in the bound are literally the alpha / beta products BaumWelchStep forms. *)
From Coq Require Import Reals List Lra Lia Psatz.
From ADV Require Import Base.Num C16.Model C16.ModelHmm C16.Spec C16.ProofsMax C16.ProofsEM.
Import ListNotations.
Open Scope R_scope.

Lemma gsum_R n f : gsum NumR n f = rsum n f.
Proof. induction n as [|n IH]; simpl; [reflexivity|]. rewrite IH. reflexivity. Qed.

Lemma nth_map_seq {X} (F : nat -> X) d a len t : (t < len)%nat -> nth t (map F (seq a len)) d = F (a + t)%nat.
Proof.
  intros H. rewrite (nth_indep _ d (F 0%nat)) by (rewrite map_length, seq_length; assumption).
  rewrite map_nth. rewrite seq_nth by assumption. reflexivity.
Qed.

(* ---- log-sum inequality with zeros ---- *)
Lemma rsum_zero_all n f : (forall i, (i < n)%nat -> 0 <= f i) -> rsum n f = 0 -> forall i, (i < n)%nat -> f i = 0.
Proof.
  intros H Hs i Hi. pose proof (rsum_term_le n f i H Hi) as T. pose proof (H i Hi). lra.
Qed.

Lemma lsi K (a a' : nat -> R) :
  (forall k, (k < K)%nat -> 0 <= a k) -> (forall k, (k < K)%nat -> 0 <= a' k) ->
  (forall k, (k < K)%nat -> 0 < a k -> 0 < a' k) ->
  rsum K (fun k => a k * (ln (a' k) - ln (a k))) <= rsum K a * (ln (rsum K a') - ln (rsum K a)).
Proof.
  intros Ha Ha' Hp.
  destruct (Rle_lt_or_eq_dec 0 (rsum K a) (rsum_nonneg K a Ha)) as [HA|HA].
  - destruct (em_datum K a a' Ha Ha' HA Hp) as [_ D].
    apply (Rmult_le_compat_l (rsum K a)) in D; [|lra].
    rewrite <- rsum_scal in D. erewrite rsum_ext; [exact D|].
    intros k Hk. cbv beta. field. lra.
  - rewrite <- HA, Rmult_0_l. right. apply rsum_zero. intros k Hk.
    rewrite (rsum_zero_all K a Ha (eq_sym HA) k Hk). ring.
Qed.

Section Chain.
Variable M : nat.
Local Notation step := (c_step NumR M).
Local Notation fwd := (c_fwd NumR M).
Local Notation bwd := (c_bwd NumR M).

Definition nonneg1 (a : nat -> R) := forall i, (i < M)%nat -> 0 <= a i.
Definition nonneg2 (f : nat -> nat -> R) := forall i j, (i < M)%nat -> (j < M)%nat -> 0 <= f i j.

Definition c_L (a : nat -> R) (fs : list (nat -> nat -> R)) : R := rsum M (fun i => a i * bwd fs i).

Lemma tabn_id (g : nat -> R) j : (j < M)%nat -> tabn NumR M g j = g j.
Proof. intros Hj. unfold tabn. rewrite nth_map_seq by assumption. reflexivity. Qed.
Lemma step_R a f j : (j < M)%nat -> step a f j = rsum M (fun i => a i * f i j).
Proof. intros Hj. unfold c_step. rewrite tabn_id by assumption. rewrite gsum_R. reflexivity. Qed.
Lemma bwd_cons f r i : (i < M)%nat -> bwd (f :: r) i = rsum M (fun j => f i j * bwd r j).
Proof. intros Hi. simpl. rewrite tabn_id by assumption. rewrite gsum_R. reflexivity. Qed.
Lemma bwd_nil i : bwd [] i = 1.
Proof. reflexivity. Qed.

Lemma bwd_nonneg fs : Forall nonneg2 fs -> forall i, (i < M)%nat -> 0 <= bwd fs i.
Proof.
  induction fs as [|f r IH]; intros HF i Hi.
  - rewrite bwd_nil. lra.
  - rewrite bwd_cons by assumption. inversion HF; subst. apply rsum_nonneg. intros j Hj.
    apply Rmult_le_pos; [apply H1; assumption|apply IH; assumption].
Qed.
Lemma step_nonneg a f : nonneg1 a -> nonneg2 f -> nonneg1 (step a f).
Proof.
  intros Ha Hf j Hj. rewrite step_R by assumption. apply rsum_nonneg. intros i Hi.
  apply Rmult_le_pos; [apply Ha|apply Hf]; assumption.
Qed.

(* the likelihood does not change when one factor is absorbed into the start vector *)
Lemma c_L_cons a f r : c_L a (f :: r) = c_L (step a f) r.
Proof.
  unfold c_L.
  transitivity (rsum M (fun i => rsum M (fun j => a i * f i j * bwd r j))).
  - apply rsum_ext. intros i Hi. rewrite (bwd_cons _ _ _ Hi), <- rsum_scal. apply rsum_ext. intros; ring.
  - rewrite rsum_swap. apply rsum_ext. intros j Hj. cbv beta. rewrite step_R by assumption. rewrite <- rsum_scal_r. reflexivity.
Qed.

(* alpha_t . beta_t is the same number at every position t *)
Lemma fwd_bwd_const fs : forall a t, (t <= length fs)%nat ->
  rsum M (fun i => fwd a fs t i * bwd (skipn t fs) i) = c_L a fs.
Proof.
  induction fs as [|f r IH]; intros a t Ht.
  - simpl in Ht. assert (t = 0)%nat by lia. subst. reflexivity.
  - destruct t as [|t]; [reflexivity|]. simpl in Ht. simpl fwd. simpl skipn.
    rewrite IH by lia. symmetry. apply c_L_cons.
Qed.
Lemma c_L_fwd a fs : rsum M (fwd a fs (length fs)) = c_L a fs.
Proof.
  rewrite <- (fwd_bwd_const fs a (length fs)) by lia. apply rsum_ext. intros i Hi.
  rewrite skipn_all. rewrite bwd_nil. ring.
Qed.
Lemma fwd_S fs : forall a t, (t < length fs)%nat ->
  forall j, fwd a fs (S t) j = step (fwd a fs t) (nth t fs (fun _ _ => 0)) j.
Proof.
  induction fs as [|f r IH]; intros a t Ht j; [simpl in Ht; lia|].
  destruct t as [|t]; [destruct r; reflexivity|].
  simpl in Ht. change (fwd a (f :: r) (S (S t))) with (fwd (step a f) r (S t)).
  rewrite IH by lia. reflexivity.
Qed.
Lemma fwd_nonneg fs : forall a t, nonneg1 a -> Forall nonneg2 fs -> nonneg1 (fwd a fs t).
Proof.
  induction fs as [|f r IH]; intros a t Ha HF; [destruct t; exact Ha|].
  destruct t as [|t]; [exact Ha|]. inversion HF; subst. simpl. apply IH; [apply step_nonneg; assumption|assumption].
Qed.

(* the expected-count functional (unnormalised) and the support condition, along the chain *)
Fixpoint c_Q (a : nat -> R) (fs fs' : list (nat -> nat -> R)) : R :=
  match fs, fs' with
  | f :: r, f' :: r' =>
      rsum M (fun i => rsum M (fun j => a i * f i j * bwd r j * (ln (f' i j) - ln (f i j))))
      + c_Q (step a f) r r'
  | _, _ => 0
  end.
Fixpoint c_supp (a : nat -> R) (fs fs' : list (nat -> nat -> R)) : Prop :=
  match fs, fs' with
  | f :: r, f' :: r' =>
      (forall i j, (i < M)%nat -> (j < M)%nat -> 0 < a i * f i j * bwd r j -> 0 < f' i j)
      /\ c_supp (step a f) r r'
  | _, _ => True
  end.

Lemma pos_of_prod x y : 0 <= x -> 0 <= y -> 0 < x * y -> 0 < x /\ 0 < y.
Proof. intros Hx Hy H. split; nra. Qed.

Theorem chain_bound fs : forall fs' a a', length fs = length fs' ->
  nonneg1 a -> nonneg1 a' -> Forall nonneg2 fs -> Forall nonneg2 fs' ->
  (forall i, (i < M)%nat -> 0 < a i * bwd fs i -> 0 < a' i) ->
  c_supp a fs fs' ->
  rsum M (fun i => a i * bwd fs i * (ln (a' i) - ln (a i))) + c_Q a fs fs'
  <= c_L a fs * (ln (c_L a' fs') - ln (c_L a fs)).
Proof.
  induction fs as [|f r IH]; intros fs' a a' Hlen Ha Ha' HF HF' Hsa Hsf.
  - destruct fs'; [|discriminate]. simpl c_Q. unfold c_L. rewrite Rplus_0_r.
    pose proof (lsi M a a' Ha Ha') as L.
    assert (Hp : forall k, (k < M)%nat -> 0 < a k -> 0 < a' k).
    { intros k Hk Hak. apply Hsa; [assumption|]. rewrite bwd_nil. lra. }
    specialize (L Hp).
    assert (E1 : forall u : nat -> R, rsum M (fun i => u i * bwd [] i) = rsum M u).
    { intros u. apply rsum_ext. intros; rewrite bwd_nil; ring. }
    rewrite !E1. erewrite rsum_ext; [exact L|]. intros i Hi. cbv beta. rewrite bwd_nil. ring.
  - destruct fs' as [|f' r']; [discriminate|]. simpl in Hlen.
    inversion HF as [|? ? Hf HFr]; subst. inversion HF' as [|? ? Hf' HFr']; subst.
    destruct Hsf as [Hs0 Hsr]. simpl c_Q.
    set (b := step a f). set (b' := step a' f').
    assert (Hb : nonneg1 b) by (apply step_nonneg; assumption).
    assert (Hb' : nonneg1 b') by (apply step_nonneg; assumption).
    pose proof (bwd_nonneg r HFr) as Hbr.
    (* posterior mass on (i,j) forces a'(i) and f'(i,j) positive *)
    assert (Hpos : forall i j, (i < M)%nat -> (j < M)%nat -> 0 < a i * f i j * bwd r j -> 0 < a' i /\ 0 < f' i j).
    { intros i j Hi Hj Hm. split; [|apply Hs0; assumption].
      apply Hsa; [assumption|]. rewrite bwd_cons by assumption.
      assert (T : a i * f i j * bwd r j <= a i * rsum M (fun j0 => f i j0 * bwd r j0)).
      { rewrite <- rsum_scal. rewrite Rmult_assoc.
        apply (rsum_term_le M (fun j0 => a i * (f i j0 * bwd r j0))); [|assumption].
        intros j0 Hj0. apply Rmult_le_pos; [apply Ha; assumption|].
        apply Rmult_le_pos; [apply Hf; assumption|apply Hbr; assumption]. }
      lra. }
    assert (Hsb : forall j, (j < M)%nat -> 0 < b j * bwd r j -> 0 < b' j).
    { intros j Hj Hm. destruct (pos_of_prod _ _ (Hb j Hj) (Hbr j Hj) Hm) as [Hbj Hrj].
      unfold b in Hbj. rewrite step_R in Hbj by assumption.
      destruct (rsum_pos_exists M _ Hbj) as (i & Hi & Hai).
      { intros i Hi. apply Rmult_le_pos; [apply Ha|apply Hf]; assumption. }
      destruct (Hpos i j Hi Hj) as [Pa Pf]; [apply Rmult_lt_0_compat; assumption|].
      unfold b'. rewrite step_R by assumption. apply Rlt_le_trans with (a' i * f' i j); [apply Rmult_lt_0_compat; assumption|].
      apply (rsum_term_le M (fun i0 => a' i0 * f' i0 j)); [|assumption].
      intros i0 Hi0. apply Rmult_le_pos; [apply Ha'|apply Hf']; assumption. }
    specialize (IH r' b b' (eq_add_S _ _ Hlen) Hb Hb' HFr HFr' Hsb Hsr).
    rewrite !c_L_cons. fold b b'.
    (* the first two groups of terms are bounded by the start-vector term of the shorter chain *)
    assert (J : rsum M (fun i => a i * bwd (f :: r) i * (ln (a' i) - ln (a i)))
                + rsum M (fun i => rsum M (fun j => a i * f i j * bwd r j * (ln (f' i j) - ln (f i j))))
                <= rsum M (fun j => b j * bwd r j * (ln (b' j) - ln (b j)))).
    { assert (E : rsum M (fun i => a i * bwd (f :: r) i * (ln (a' i) - ln (a i)))
                  + rsum M (fun i => rsum M (fun j => a i * f i j * bwd r j * (ln (f' i j) - ln (f i j))))
                  = rsum M (fun j => bwd r j * rsum M (fun i => a i * f i j * (ln (a' i * f' i j) - ln (a i * f i j))))).
      { transitivity (rsum M (fun i => rsum M (fun j => bwd r j * (a i * f i j * (ln (a' i * f' i j) - ln (a i * f i j)))))).
        2:{ rewrite rsum_swap. apply rsum_ext. intros j Hj. cbv beta. rewrite rsum_scal. reflexivity. }
        rewrite <- rsum_plus.
        - apply rsum_ext. intros i Hi. cbv beta. rewrite bwd_cons by assumption.
          rewrite <- rsum_scal, <- rsum_scal_r, <- rsum_plus. apply rsum_ext. intros j Hj. cbv beta.
          assert (Hm0 : 0 <= a i * f i j * bwd r j).
          { apply Rmult_le_pos; [apply Rmult_le_pos; [apply Ha|apply Hf]|apply Hbr]; assumption. }
          destruct (Rle_lt_or_eq_dec _ _ Hm0) as [Hm|Hm].
          + destruct (Hpos i j Hi Hj Hm) as [Pa Pf].
            destruct (pos_of_prod _ _ (Rmult_le_pos _ _ (Ha i Hi) (Hf i j Hi Hj)) (Hbr j Hj) Hm) as [Haf _].
            destruct (pos_of_prod _ _ (Ha i Hi) (Hf i j Hi Hj) Haf) as [Pa0 Pf0].
            rewrite !ln_mult by assumption. ring.
          + transitivity 0.
            * replace (a i * (f i j * bwd r j)) with (a i * f i j * bwd r j) by ring. rewrite <- Hm. ring.
            * replace (bwd r j * (a i * f i j * (ln (a' i * f' i j) - ln (a i * f i j))))
                with (a i * f i j * bwd r j * (ln (a' i * f' i j) - ln (a i * f i j))) by ring.
              rewrite <- Hm. ring. }
      rewrite E. apply rsum_le. intros j Hj. cbv beta.
      destruct (Rle_lt_or_eq_dec _ _ (Hbr j Hj)) as [Hrj|Hrj].
      - pose proof (lsi M (fun i => a i * f i j) (fun i => a' i * f' i j)) as L.
        assert (L1 : forall k, (k < M)%nat -> 0 <= a k * f k j) by (intros k Hk; apply Rmult_le_pos; [apply Ha|apply Hf]; assumption).
        assert (L2 : forall k, (k < M)%nat -> 0 <= a' k * f' k j) by (intros k Hk; apply Rmult_le_pos; [apply Ha'|apply Hf']; assumption).
        assert (L3 : forall k, (k < M)%nat -> 0 < a k * f k j -> 0 < a' k * f' k j).
        { intros k Hk Hak. destruct (Hpos k j Hk Hj); [apply Rmult_lt_0_compat; assumption|]. apply Rmult_lt_0_compat; assumption. }
        specialize (L L1 L2 L3). unfold b, b'. rewrite !step_R by assumption.
        apply (Rmult_le_compat_l (bwd r j)) in L; [|lra]. cbv beta in L.
        eapply Rle_trans; [exact L|]. right. ring.
      - rewrite <- Hrj. lra. }
    lra.
Qed.

End Chain.
