(* C16 (round 7) — the objective of NumericEstimator (ModelNum.v) over exact reals: the value handed to the Hook is
   the weighted log-likelihood sum_k exp(gamma_k) * log f(x_k) of the data (weight 0 for log-weight -Inf, 1 without
   gamma) whenever every observation that lies outside the support carries log-weight -Inf; the objective is its
   negative divided by n, so that (n > 0) a smaller objective value IS a larger weighted log-likelihood. *)
From Coq Require Import Reals List Lra Lia ZArith.
From ADV Require Import Base.Num C16.Model C16.Spec C16.ProofsModel C16.ModelNum.
Import ListNotations.
Open Scope R_scope.

Definition lval (a : option R) : R := match a with Some x => x | None => 0 end.

(* (weight, log-density) pairs of the data *)
Fixpoint num_data (lps : list (option R)) (gs : option (list (option R))) : wdata :=
  match lps with
  | [] => []
  | lp :: lps' =>
      match gs with
      | None => (1, lval lp) :: num_data lps' None
      | Some [] => []
      | Some (g :: gs') => (lexpR g, lval lp) :: num_data lps' (Some gs')
      end
  end.

(* every observation outside the support (log-density -Inf) has log-weight -Inf *)
Fixpoint supported (lps : list (option R)) (gs : option (list (option R))) : Prop :=
  match lps with
  | [] => True
  | lp :: lps' =>
      match gs with
      | None => lp <> None /\ supported lps' None
      | Some [] => True
      | Some (g :: gs') => (lp = None -> g = None) /\ supported lps' (Some gs')
      end
  end.

Lemma num_acc_R : forall lps gs r0, supported lps gs ->
  num_acc NumR exp (Some r0) lps gs = Some (r0 + sumwx (num_data lps gs)).
Proof.
  induction lps as [|lp lps IH]; intros gs r0 H; simpl.
  - unfold sumwx; simpl. apply f_equal. ring.
  - destruct gs as [[|g gs']|]; simpl in *; unfold lw in *.
    + unfold sumwx; simpl. apply f_equal. ring.
    + destruct H as (H1 & H2). destruct g as [g|].
      * destruct lp as [t|].
        -- simpl. rewrite IH by exact H2. unfold sumwx; simpl. apply f_equal. ring.
        -- specialize (H1 eq_refl). discriminate.
      * rewrite IH by exact H2. unfold sumwx; simpl. apply f_equal. ring.
    + destruct H as (H1 & H2). destruct lp as [t|]; [|congruence].
      simpl. rewrite IH by exact H2. unfold sumwx; simpl. apply f_equal. ring.
Qed.

Theorem num_hook_is_weighted_loglik lps gs : supported lps gs ->
  num_hook NumR exp lps gs = Some (sumwx (num_data lps gs)).
Proof. intros H. unfold num_hook. simpl (zero NumR). rewrite num_acc_R by exact H. f_equal. lra. Qed.

Theorem num_objective_is_scaled_negative_loglik n lps gs : supported lps gs ->
  num_objective NumR exp n lps gs = Some (- sumwx (num_data lps gs) / IZR n).
Proof. intros H. unfold num_objective. rewrite num_hook_is_weighted_loglik by exact H. reflexivity. Qed.

(* minimising the objective is maximising the weighted log-likelihood: two parameter values (two lists of
   log-densities of the same data under the same weights) *)
Theorem num_objective_orders_parameters_by_loglik n lps1 lps2 gs o1 o2 : (0 < n)%Z ->
  supported lps1 gs -> supported lps2 gs ->
  num_objective NumR exp n lps1 gs = Some o1 -> num_objective NumR exp n lps2 gs = Some o2 ->
  (o1 <= o2 <-> sumwx (num_data lps2 gs) <= sumwx (num_data lps1 gs)).
Proof.
  intros Hn H1 H2 E1 E2.
  rewrite num_objective_is_scaled_negative_loglik in E1 by exact H1.
  rewrite num_objective_is_scaled_negative_loglik in E2 by exact H2.
  injection E1 as <-. injection E2 as <-.
  assert (Hp : 0 < IZR n) by (apply IZR_lt; exact Hn).
  unfold Rdiv. split; intros H.
  - apply Rmult_le_reg_r with (r := / IZR n); [apply Rinv_0_lt_compat; exact Hp|]. lra.
  - assert (0 < / IZR n) by (apply Rinv_0_lt_compat; exact Hp).
    assert (sumwx (num_data lps2 gs) * / IZR n <= sumwx (num_data lps1 gs) * / IZR n) by (apply Rmult_le_compat_r; lra).
    lra.
Qed.

(* a zero-weight observation outside the support does not change the value (the skip), a positive-weight one makes it -Inf *)
Lemma num_hook_example :
  let lps := [Some (-2); None; Some (-1)] in
  let gs := Some [Some 0; None; Some 0] in
  supported lps gs /\ num_hook NumR exp lps gs = Some (sumwx (num_data lps gs)) /\ sumwx (num_data lps gs) = -3 /\
  num_hook NumR exp lps (Some [Some 0; Some 0; Some 0]) = None.
Proof.
  intros lps gs. assert (Hs : supported lps gs).
  { simpl. repeat split; try discriminate; try reflexivity. }
  split; [exact Hs|]. split; [apply num_hook_is_weighted_loglik; exact Hs|]. split.
  - unfold sumwx; simpl. rewrite exp_0. lra.
  - reflexivity.
Qed.
