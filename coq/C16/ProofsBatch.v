(* C16 (round 7) — the BATCH interface of the log-scale closed-form estimators (exponential.go, poisson.go,
   geometric.go: Initialize / NewObservation / GetEstimate) with unweighted (gamma == nil) and weighted observations
   MIXED in one batch: the per-thread COUNT of unweighted observations and the LogAdd-accumulated log-weight mass are
   combined by updateEstimate (sum_g = LogAdd(LogAdd(-Inf, sum_g[0]), Log(float64(sum_c[0])))), so that, over exact
   real arithmetic, the estimate is the weighted closed form of the observations with effective weight 1 for a nil
   gamma and exp(gamma) otherwise. *)
From Coq Require Import Reals List Lra Lia Bool ZArith.
From ADV Require Import Base.Num C16.Model C16.Spec C16.ProofsMax C16.ProofsModel C16.ModelObj.
Import ListNotations.
Open Scope R_scope.

(* effective weight of an observation handed to NewObservation *)
Definition effw (g : option (option R)) : R := match g with None => 1 | Some w => lexpR w end.
Definition eff_data (obs : list (R * option (option R))) : wdata := map (fun xg => (effw (snd xg), fst xg)) obs.

Definition lfold (f : R -> option R) (acc : option R * option R * Z) (obs : list (R * option (option R))) :=
  fold_left (fun acc xg => lstep NumR exp LOG1P_R f acc (fst xg) (snd xg)) obs acc.

Lemma lexpR_ladd a b : lexpR (ladd NumR a b) = lexpR a * lexpR b.
Proof. destruct a as [x|], b as [y|]; simpl; try lra. apply exp_plus. Qed.

Lemma lexpR_nonneg a : 0 <= lexpR a.
Proof. destruct a as [x|]; simpl; [left; apply exp_pos|lra]. Qed.

(* the accumulators after a mixed batch: linear-scale reading *)
Lemma lfold_R f : forall obs m s c,
  let '(m', s', c') := lfold f (m, s, c) obs in
  lexpR m' = lexpR m + lsum (fun p => fst p * lexpR (f (snd p))) (eff_data obs) /\
  lexpR s' + IZR c' = lexpR s + IZR c + sumw (eff_data obs) /\ (c <= c')%Z.
Proof.
  unfold lfold. induction obs as [|[x g] r IH]; intros m s c; simpl.
  - unfold sumw; simpl. split; [|split]; [lra|lra|lia].
  - destruct g as [w|]; simpl.
    + specialize (IH (logadd NumR exp LOG1P_R m (ladd NumR w (f x))) (logadd NumR exp LOG1P_R s w) c).
      destruct (fold_left _ r _) as [[m' s'] c']. destruct IH as (A & B & C).
      rewrite logadd_R in A. rewrite logadd_R in B. rewrite lexpR_ladd in A.
      unfold sumw in *; simpl. split; [|split]; [lra|lra|exact C].
    + specialize (IH (logadd NumR exp LOG1P_R m (f x)) s (c + 1)%Z).
      destruct (fold_left _ r _) as [[m' s'] c']. destruct IH as (A & B & C).
      rewrite logadd_R in A. rewrite plus_IZR in B.
      unfold sumw in *; simpl. split; [|split]; [lra|lra|lia].
Qed.

Lemma lexpR_logx_IZR c : (0 <= c)%Z -> lexpR (logx NumR ln (IZR c)) = IZR c.
Proof.
  intros Hc. unfold logx; simpl. destruct (Reqb (IZR c) 0) eqn:E.
  - apply Reqb_true in E. simpl. lra.
  - simpl. apply exp_ln. assert (IZR c <> 0). { intros H. apply Reqb_true in H. congruence. }
    assert (0 <= IZR c) by (apply IZR_le; exact Hc). lra.
Qed.

(* updateEstimate's merge COMBINES the count with the accumulated weight mass *)
Lemma lmerge_R m s c : (0 <= c)%Z ->
  let '(m', g') := lmerge NumR exp ln LOG1P_R (m, s, c) in
  lexpR m' = lexpR m /\ lexpR g' = lexpR s + IZR c.
Proof.
  intros Hc. unfold lmerge. split.
  - rewrite logadd_R. simpl. lra.
  - rewrite !logadd_R. simpl (of_Z NumR c). rewrite lexpR_logx_IZR by exact Hc. simpl. lra.
Qed.

Lemma lexpR_pos_some a : 0 < lexpR a -> exists x, a = Some x /\ exp x = lexpR a.
Proof. destruct a as [x|]; simpl; intros H; [exists x; split; reflexivity|lra]. Qed.

Lemma lexpR_log_shift x : 0 <= x -> lexpR (logx NumR ln (x + 1)) = x + 1.
Proof.
  intros Hx. unfold logx; simpl. destruct (Reqb (x + 1) 0) eqn:E.
  - apply Reqb_true in E. lra.
  - simpl. apply exp_ln. lra.
Qed.

Lemma lexpR_log_id x : 0 <= x -> lexpR (logx NumR ln x) = x.
Proof.
  intros Hx. unfold logx; simpl. destruct (Reqb x 0) eqn:E.
  - apply Reqb_true in E. simpl. lra.
  - simpl. apply exp_ln. assert (x <> 0). { intros H. apply Reqb_true in H. congruence. } lra.
Qed.

Definition nonneg_obs (obs : list (R * option (option R))) := forall xg, In xg obs -> 0 <= fst xg.

Lemma eff_nonneg_w obs : nonneg_w (eff_data obs).
Proof.
  intros p Hp. unfold eff_data in Hp. apply in_map_iff in Hp. destruct Hp as ([x g] & E & _). subst p. simpl.
  destruct g as [w|]; simpl; [apply lexpR_nonneg|lra].
Qed.
Lemma eff_nonneg_x obs : nonneg_obs obs -> nonneg_x (eff_data obs).
Proof.
  intros H p Hp. unfold eff_data in Hp. apply in_map_iff in Hp. destruct Hp as ([x g] & E & Hin). subst p. simpl.
  apply (H _ Hin).
Qed.

Lemma lsum_ext_in (f g : R * R -> R) d : (forall p, In p d -> f p = g p) -> lsum f d = lsum g d.
Proof.
  induction d as [|p r IH]; intros H; simpl; [reflexivity|].
  rewrite (H p (or_introl eq_refl)), IH; [reflexivity|]. intros q Hq. apply H. right. exact Hq.
Qed.

Lemma lsum_plus (f g : R * R -> R) d : lsum (fun p => f p + g p) d = lsum f d + lsum g d.
Proof. induction d as [|p r IH]; simpl; [lra|]. rewrite IH. lra. Qed.

(* geometric.go: p = exp(min(sum_g - sum_m, 0)) = W / (W + sum w x) *)
Theorem geometric_mixed_batch obs :
  nonneg_obs obs -> 0 < sumw (eff_data obs) ->
  pure_batch (geometric_family NumR exp ln LOG1P_R) obs = Some (mle_geometric (eff_data obs)).
Proof.
  intros Hx HW. unfold pure_batch.
  change (fold_left _ obs _) with (lfold (fun x => logx NumR ln (add NumR x (one NumR))) (None, None, 0%Z) obs).
  simpl f_update.
  pose proof (lfold_R (fun x => logx NumR ln (add NumR x (one NumR))) obs None None 0%Z) as HF.
  destruct (lfold _ (None, None, 0%Z) obs) as [[m s] c]. destruct HF as (A & B & C).
  simpl in A, B.
  assert (HM : lexpR m = sumw (eff_data obs) + sumwx (eff_data obs)).
  { rewrite A. unfold sumw, sumwx. rewrite <- lsum_plus. rewrite Rplus_0_l. apply lsum_ext_in.
    intros p Hp. simpl. rewrite lexpR_log_shift; [lra|]. apply (eff_nonneg_x obs Hx p Hp). }
  pose proof (sumwx_nonneg _ (eff_nonneg_w obs) (eff_nonneg_x obs Hx)) as HMx.
  unfold geometric_update.
  pose proof (lmerge_R m s c C) as HL. destruct (lmerge NumR exp ln LOG1P_R (m, s, c)) as [m' g']. destruct HL as (L1 & L2).
  assert (Hg : lexpR g' = sumw (eff_data obs)) by lra.
  assert (Hm : lexpR m' = sumw (eff_data obs) + sumwx (eff_data obs)) by lra.
  destruct (lexpR_pos_some g') as (a & Ea & Eea); [lra|].
  destruct (lexpR_pos_some m') as (b & Eb & Eeb); [lra|].
  subst g' m'. unfold lratio_min0, lmin0. simpl.
  assert (Hab : a - b <= 0).
  { destruct (Rle_or_lt (a - b) 0) as [H|H]; [exact H|]. exfalso.
    assert (exp b < exp a) by (apply exp_increasing; lra). lra. }
  destruct (Rltb 0 (a - b)) eqn:E1; [apply Rltb_true in E1; lra|].
  assert (Hv : exp (a - b) = mle_geometric (eff_data obs)).
  { unfold mle_geometric. unfold Rminus. rewrite exp_plus, exp_Ropp. rewrite Eea, Eeb, Hg, Hm. reflexivity. }
  assert (Hv0 : 0 < exp (a - b)) by apply exp_pos.
  assert (Hv1 : exp (a - b) <= 1). { rewrite <- exp_0. destruct Hab as [H|H]; [left; apply exp_increasing; exact H|rewrite H; lra]. }
  destruct (Rleb (exp (a - b)) 0) eqn:E2; [apply Rleb_true in E2; lra|].
  destruct (Rltb 1 (exp (a - b))) eqn:E3; [apply Rltb_true in E3; lra|].
  simpl. rewrite Hv. reflexivity.
Qed.

(* poisson.go: mu = exp(sum_m - sum_g) = sum w x / W (observations x >= 0) *)
Theorem poisson_mixed_batch obs :
  nonneg_obs obs -> 0 < sumw (eff_data obs) -> 0 < sumwx (eff_data obs) ->
  pure_batch (poisson_family NumR exp ln LOG1P_R) obs = Some (mle_poisson (eff_data obs)).
Proof.
  intros Hx HW HMp. unfold pure_batch.
  assert (Ef : fold_left (fun acc xg => f_obs (poisson_family NumR exp ln LOG1P_R) (f_pre0 (poisson_family NumR exp ln LOG1P_R)) acc (fst xg) (snd xg)) obs (f_init (poisson_family NumR exp ln LOG1P_R))
               = lfold (logx NumR ln) (None, None, 0%Z) obs).
  { clear HW HMp. unfold lfold. simpl f_init. generalize (@None R, @None R, 0%Z). induction obs as [|[x g] r IH]; intros acc; simpl; [reflexivity|].
    assert (Hx0 : 0 <= x) by (apply (Hx (x, g)); left; reflexivity).
    destruct (Rltb x 0) eqn:E; [apply Rltb_true in E; lra|].
    apply IH. intros q Hq. apply Hx. right. exact Hq. }
  rewrite Ef. simpl f_update.
  pose proof (lfold_R (logx NumR ln) obs None None 0%Z) as HF.
  destruct (lfold (logx NumR ln) (None, None, 0%Z) obs) as [[m s] c]. destruct HF as (A & B & C).
  simpl in A, B.
  assert (HM : lexpR m = sumwx (eff_data obs)).
  { rewrite A. unfold sumwx. rewrite Rplus_0_l. apply lsum_ext_in.
    intros p Hp. simpl. rewrite lexpR_log_id; [lra|]. apply (eff_nonneg_x obs Hx p Hp). }
  unfold poisson_update.
  pose proof (lmerge_R m s c C) as HL. destruct (lmerge NumR exp ln LOG1P_R (m, s, c)) as [m' g']. destruct HL as (L1 & L2).
  assert (Hg : lexpR g' = sumw (eff_data obs)) by lra.
  assert (Hm : lexpR m' = sumwx (eff_data obs)) by lra.
  destruct (lexpR_pos_some g') as (a & Ea & Eea); [lra|].
  destruct (lexpR_pos_some m') as (b & Eb & Eeb); [lra|].
  subst g' m'. unfold lratio. simpl.
  assert (Hv0 : 0 < exp (b - a)) by apply exp_pos.
  destruct (Rleb (exp (b - a)) 0) eqn:E2; [apply Rleb_true in E2; lra|].
  unfold mle_poisson. unfold Rminus. rewrite exp_plus, exp_Ropp. rewrite Eea, Eeb, Hg, Hm. reflexivity.
Qed.

(* exponential.go: lambda = min(exp(sum_g - sum_m), LambdaMax) = min(W / sum w x, LambdaMax) *)
Theorem exponential_mixed_batch lmax obs :
  nonneg_obs obs -> 0 < sumw (eff_data obs) -> 0 < sumwx (eff_data obs) -> 0 < lmax ->
  pure_batch (exponential_family NumR exp ln LOG1P_R lmax) obs = Some (mle_exp_rate lmax (eff_data obs)).
Proof.
  intros Hx HW HMp Hl. unfold pure_batch.
  change (fold_left _ obs _) with (lfold (logx NumR ln) (None, None, 0%Z) obs).
  simpl f_update.
  pose proof (lfold_R (logx NumR ln) obs None None 0%Z) as HF.
  destruct (lfold _ (None, None, 0%Z) obs) as [[m s] c]. destruct HF as (A & B & C).
  simpl in A, B.
  assert (HM : lexpR m = sumwx (eff_data obs)).
  { rewrite A. unfold sumwx. rewrite Rplus_0_l. apply lsum_ext_in.
    intros p Hp. simpl. rewrite lexpR_log_id; [lra|]. apply (eff_nonneg_x obs Hx p Hp). }
  unfold exponential_update.
  pose proof (lmerge_R m s c C) as HL. destruct (lmerge NumR exp ln LOG1P_R (m, s, c)) as [m' g']. destruct HL as (L1 & L2).
  assert (Hg : lexpR g' = sumw (eff_data obs)) by lra.
  assert (Hm : lexpR m' = sumwx (eff_data obs)) by lra.
  destruct (lexpR_pos_some g') as (a & Ea & Eea); [lra|].
  destruct (lexpR_pos_some m') as (b & Eb & Eeb); [lra|].
  subst g' m'. unfold lratio. simpl.
  assert (Hv : exp (a - b) = sumw (eff_data obs) / sumwx (eff_data obs)).
  { unfold Rminus. rewrite exp_plus, exp_Ropp. rewrite Eea, Eeb, Hg, Hm. reflexivity. }
  assert (Hv0 : 0 < exp (a - b)) by apply exp_pos.
  unfold mle_exp_rate, Rmin. rewrite <- Hv.
  destruct (Rltb lmax (exp (a - b))) eqn:E1.
  - apply Rltb_true in E1. destruct (Rleb lmax 0) eqn:E2; [apply Rleb_true in E2; lra|].
    destruct (Rle_dec (exp (a - b)) lmax); [lra|reflexivity].
  - destruct (Rleb (exp (a - b)) 0) eqn:E2; [apply Rleb_true in E2; lra|].
    destruct (Rle_dec (exp (a - b)) lmax) as [|Hn]; [reflexivity|].
    exfalso. assert (Hlt : lmax < exp (a - b)) by lra. apply Rltb_true in Hlt. congruence.
Qed.

(* ... hence maximisers of the weighted log-likelihood with the EFFECTIVE weights *)

Theorem geometric_mixed_batch_max obs :
  nonneg_obs obs -> 0 < sumw (eff_data obs) ->
  exists v, pure_batch (geometric_family NumR exp ln LOG1P_R) obs = Some v /\
  forall p, 0 < p -> p <= 1 -> (0 < sumwx (eff_data obs) -> p < 1) ->
    ll_geometric (eff_data obs) p <= ll_geometric (eff_data obs) v.
Proof.
  intros Hx HW. exists (mle_geometric (eff_data obs)). split; [apply geometric_mixed_batch; assumption|].
  intros p Hp0 Hp1 Hp. apply geometric_max; try assumption; [apply eff_nonneg_w|apply eff_nonneg_x; exact Hx].
Qed.

(* a mixed batch: x = 3 unweighted, x = 1 with log-weight ln 2, x = 0 unweighted: W = 4, sum w x = 5 *)
Lemma mixed_batch_example :
  let obs := [(3, None); (1, Some (Some (ln 2))); (0, None)] in
  nonneg_obs obs /\ sumw (eff_data obs) = 4 /\ sumwx (eff_data obs) = 5.
Proof.
  intros obs. assert (E : exp (ln 2) = 2) by (apply exp_ln; lra).
  split; [|split].
  - intros xg [H|[H|[H|[]]]]; subst xg; simpl; lra.
  - unfold sumw; simpl. rewrite E. lra.
  - unfold sumwx; simpl. rewrite E. lra.
Qed.
